import CTV.Gen.Scan
import CTV.Lemmas.Scan
/-!
# C16 — A scan delivers every entry of its range exactly once

Two layers.

**Regenerated arithmetic** (`Gen.*` is rewritten from scanner/fetcher.go and scanner/scanner.go on every run):
`genRanges_arith`, `worker_arith`, `updateSTH_accepts_only_growth`, `prepare_end`, `flatten_index` say that, for all
int64 values in the domain (indices and batch sizes below 2^63, batch ≥ 1), the code's batch / request / advance /
growth arithmetic *is* the arithmetic of the model's `hand`, `resp`, `grow` and `init` — including the
wrap-around of Go's int64/uint64, which is part of the regenerated terms.

**State machine** (`CTV.Model.Scan`, tied to the code by trace validation on every run): one `Op` per atomic
action, so the universally quantified `ops : List Op` below is "every schedule, every short-read length, every
error pattern, every growth history, every stop / cancel instant".
-/
set_option linter.unusedSimpArgs false
set_option linter.unusedVariables false
open CTV.Model.Scan

namespace C16

/-! ## regenerated arithmetic = model arithmetic -/

/-- `genRanges`: while `start < end`, the loop runs, does not ask for a new STH, and sends the inclusive range
`[start, start + min(end-start, batch) - 1]`, then continues from `start + min(end-start, batch)` — no int64
wrap-around anywhere in the domain. -/
theorem genRanges_arith (start end_ batch : Int) (c : Bool)
    (hs : 0 ≤ start) (hse : start < end_) (he : end_ < 2^63) (hb : 0 < batch) (hb' : batch < 2^63) :
    Gen.genRangesMore start end_ c = true ∧ Gen.genRangesAtEnd start end_ = false ∧
    Gen.genRangesBatch batch = batch ∧
    Gen.genRangesBatchEnd start end_ batch = start + min (end_ - start) batch ∧
    Gen.genRangesNext start (start + min (end_ - start) batch) = (start, start + min (end_ - start) batch - 1) ∧
    Gen.genRangesAdvance (start + min (end_ - start) batch) = start + min (end_ - start) batch := by
  have w : ∀ x : Int, -(2^63) ≤ x → x < 2^63 → I64.wrap64 x = x := I64.wrap64_id'
  refine ⟨?_, ?_, ?_, ?_, ?_, ?_⟩
  · simp [Gen.genRangesMore, hse]
  · simp [Gen.genRangesAtEnd]; omega
  · simp only [Gen.genRangesBatch]; exact w _ (by omega) hb'
  · have h1 : I64.sub end_ start = end_ - start := w _ (by omega) (by omega)
    simp only [Gen.genRangesBatchEnd, Gen.min64, h1, I64.add]
    split
    · rename_i h; simp only [decide_eq_true_eq] at h
      rw [w _ (by omega) (by omega)]; omega
    · rename_i h; simp only [decide_eq_true_eq] at h
      rw [w _ (by omega) (by omega)]; omega
  · simp only [Gen.genRangesNext, I64.sub]
    rw [w _ (by omega) (by omega)]
  · simp [Gen.genRangesAdvance]

/- FULL: in continuous mode, whenever nothing is left to hand out (`end ≤ start`, which includes a start index
   beyond the current tree), `genRanges` polls for a bigger STH instead of computing a batch:
     theorem genRanges_polls_at_end (start end_ : Int) (h : end_ ≤ start) : Gen.genRangesAtEnd start end_ = true
   This is what the model's `grow` guard (`end ≤ cursor`) says and what the property needs ("nothing outside
   [start, end) is delivered"). On the unchanged tree the regenerated condition is `start == end`, so the statement
   is false for `end < start`: the code then computes the batch `[start, end-1]` (empty), moves its cursor *back* to
   `end`, and later delivers the indices `end … start-1`, which lie outside the requested range — finding C16-1
   (known_findings.d/C16.json, fixes/C16-1.diff, reproduced by the harness scenarios `b9` / `sb*`). With the fix applied
   the regenerated condition is `start >= end` and the full statement is provable by `simp [Gen.genRangesAtEnd]`.
   Proved here: the case the unchanged code handles. -/
theorem genRanges_polls_at_end_partial (start : Int) : Gen.genRangesAtEnd start start = true := by
  simp [Gen.genRangesAtEnd]

/-- the same statement in the vocabulary of the model state -/
theorem hand_matches_code (s : St) (hc : s.cursor < s.end_) (hb : 0 < s.batch)
    (he : s.end_ < 2^63) (hb' : s.batch < 2^63) :
    Gen.genRangesBatchEnd s.cursor s.end_ (Gen.genRangesBatch s.batch) = (batchEnd s : Nat) ∧
    Gen.genRangesNext s.cursor (batchEnd s : Nat) = ((s.cursor : Int), ((batchEnd s : Nat) : Int) - 1) ∧
    Gen.genRangesAdvance (batchEnd s : Nat) = (batchEnd s : Nat) := by
  have h := genRanges_arith s.cursor s.end_ s.batch s.continuous (by omega) (by omega) (by omega) (by omega) (by omega)
  obtain ⟨_, _, h3, h4, h5, h6⟩ := h
  have hbe : ((batchEnd s : Nat) : Int) = (s.cursor : Int) + min ((s.end_ : Int) - s.cursor) s.batch := by
    simp only [batchEnd]; omega
  rw [h3, h4, hbe, h5, h6]
  exact ⟨rfl, rfl, rfl⟩

/-- `runWorker`: a pending half-open range `[lo, hi)` is kept as the inclusive pair `(lo, hi-1)`; it is pending iff
`lo < hi`; the request is for exactly that pair; after `k` entries the range is `[lo+k, hi)` and the batch handed to the
callback starts at `lo`. -/
theorem worker_arith (lo hi k : Int) (h0 : 0 ≤ lo) (hh : hi < 2^63) (hk0 : 0 ≤ k) (hk : lo + k < 2^63) :
    Gen.workerMore lo (hi - 1) = decide (lo < hi) ∧
    Gen.workerRequest lo (hi - 1) = (lo, hi - 1) ∧
    Gen.workerBatchStart lo = lo ∧
    Gen.workerAdvance lo k = lo + k ∧
    Gen.workerMore (lo + k) (hi - 1) = decide (lo + k < hi) := by
  have w : ∀ x : Int, -(2^63) ≤ x → x < 2^63 → I64.wrap64 x = x := I64.wrap64_id'
  refine ⟨?_, rfl, rfl, ?_, ?_⟩
  · simp only [Gen.workerMore]; congr 1; apply propext; omega
  · simp only [Gen.workerAdvance, I64.add]
    rw [w k (by omega) (by omega), w _ (by omega) (by omega)]
  · simp only [Gen.workerMore]; congr 1; apply propext; omega

/-- `flatten` (scanner.go) labels the `j`-th entry of a batch starting at `lo` with index `lo + j`. -/
theorem flatten_index (lo j : Int) (h0 : 0 ≤ lo) (hj : 0 ≤ j) (h : lo + j < 2^63) :
    Gen.flattenIndex lo j = lo + j := by
  have w : ∀ x : Int, -(2^63) ≤ x → x < 2^63 → I64.wrap64 x = x := I64.wrap64_id'
  simp only [Gen.flattenIndex, I64.add]
  rw [w j (by omega) (by omega), w _ (by omega) (by omega)]

/-- `updateSTH` only ever accepts an STH that is strictly bigger than the current end (the guard of the model's
`grow`), whatever the clock says, and then the new end is that tree size. -/
theorem updateSTH_accepts_only_growth (treeSize endIndex batchSize : Int) (quick : Bool)
    (he : 0 ≤ endIndex) (he' : endIndex < 2^63) (ht : 0 ≤ treeSize) (ht' : treeSize < 2^63)
    (h : Gen.updateSTHRejects treeSize (Gen.updateSTHLastSize endIndex)
          (Gen.updateSTHTargetSize (Gen.updateSTHLastSize endIndex) batchSize) quick = false) :
    endIndex < treeSize ∧ Gen.updateSTHNewEnd treeSize = treeSize := by
  have hl : Gen.updateSTHLastSize endIndex = endIndex := by
    simp only [Gen.updateSTHLastSize, U64.wrap]; omega
  rw [hl] at h
  simp only [Gen.updateSTHRejects, Bool.or_eq_false_iff, decide_eq_false_iff_not] at h
  refine ⟨by omega, ?_⟩
  simp only [Gen.updateSTHNewEnd]
  exact I64.wrap64_id' _ (by omega) ht'

/-- after the 45 s "quick" phase every strictly bigger STH is accepted (so a growing log is followed) -/
theorem updateSTH_accepts_growth (treeSize endIndex batchSize : Int)
    (he : 0 ≤ endIndex) (he' : endIndex < 2^63) (h : endIndex < treeSize) :
    Gen.updateSTHRejects treeSize (Gen.updateSTHLastSize endIndex)
          (Gen.updateSTHTargetSize (Gen.updateSTHLastSize endIndex) batchSize) false = false := by
  have hl : Gen.updateSTHLastSize endIndex = endIndex := by
    simp only [Gen.updateSTHLastSize, U64.wrap]; omega
  rw [hl]
  simp [Gen.updateSTHRejects]; omega

/-- `Prepare`: the end of the range becomes the tree size exactly when no end was given or the given one is
beyond the tree; so the effective end never exceeds the tree size. -/
theorem prepare_end (treeSize endIndex : Int) (ht : 0 ≤ treeSize) (ht' : treeSize < 2^63) (he : 0 ≤ endIndex) :
    (Gen.prepareResets treeSize endIndex = true ↔ (endIndex = 0 ∨ treeSize < endIndex)) ∧
    (if Gen.prepareResets treeSize endIndex then treeSize else endIndex) ≤ treeSize := by
  have hw : I64.wrap64 treeSize = treeSize := I64.wrap64_id' _ (by omega) ht'
  constructor
  · simp only [Gen.prepareResets, hw, Bool.or_eq_true, decide_eq_true_eq]
  · by_cases h : Gen.prepareResets treeSize endIndex = true
    · simp [h]
    · simp only [h]
      simp only [Gen.prepareResets, hw, Bool.or_eq_true, decide_eq_true_eq] at h
      simp; omega

/-! ## the state machine, for every schedule -/

/-- The counting invariant (and the rest of `Inv`) holds in every reachable state. -/
theorem inv_reachable (e : Env) (start end_ batch workers matchers : Nat) (c : Bool) (ops : List Op)
    (hc : ops.all Op.inContract = true) :
    Inv e (run e (init start end_ batch workers matchers c) ops) :=
  inv_run e _ ops hc (inv_init e start end_ batch workers matchers c)

/-- No index is ever delivered twice, and nothing outside `[start, end)` is delivered — in every reachable
state, under every schedule, error pattern, short read, stop or cancellation. -/
theorem at_most_once (e : Env) (start end_ batch workers matchers : Nat) (c : Bool) (ops : List Op)
    (hc : ops.all Op.inContract = true) (i : Nat) :
    let s := run e (init start end_ batch workers matchers c) ops
    cnt s.delivered i ≤ 1 ∧ (cnt s.delivered i = 1 → start ≤ i ∧ i < s.end_) := by
  intro s
  have h := inv_reachable e start end_ batch workers matchers c ops hc
  have hc := h.count i
  have hs : s.start0 = start := (run_consts e _ ops).1
  have a := ite01 s.start0 s.end_ i
  change cnt s.delivered i + pend s.workers i + inR s.cursor s.end_ i = inR s.start0 s.end_ i at hc
  rw [hs] at a hc
  omega


/-- **Exactly once.** Whenever no fetch is pending (in particular when `Run` has returned), every index between
the start and the generator's cursor has been delivered exactly once and nothing else has; and if the scan was
neither stopped nor cancelled and the generator has finished, the cursor has reached the end, so that is the whole
range `[start, end)` — for any batch size, worker count, short-read lengths, error pattern and interleaving. -/
theorem exactly_once (e : Env) (start end_ batch workers matchers : Nat) (c : Bool) (ops : List Op)
    (hc : ops.all Op.inContract = true) :
    let s := run e (init start end_ batch workers matchers c) ops
    (allIdle s.workers = true → ∀ i, cnt s.delivered i = inR start s.cursor i) ∧
    (allIdle s.workers = true → s.closed = true → s.stopReq = false → ∀ i, cnt s.delivered i = inR start s.end_ i) := by
  intro s
  have h := inv_reachable e start end_ batch workers matchers c ops hc
  have hs : s.start0 = start := (run_consts e _ ops).1
  have key : allIdle s.workers = true → ∀ i, cnt s.delivered i + inR s.cursor s.end_ i = inR start s.end_ i := by
    intro hi i
    have hcount := h.count i
    change cnt s.delivered i + pend s.workers i + inR s.cursor s.end_ i = inR s.start0 s.end_ i at hcount
    rw [pend_allIdle s.workers i hi, hs] at hcount
    omega
  have hle := h.start_le
  have hcl := h.cursor_le
  change s.start0 ≤ s.cursor at hle
  change s.cursor ≤ s.end_ ∨ s.cursor = s.start0 at hcl
  rw [hs] at hle hcl
  constructor
  · intro hi i
    have := key hi i
    have a1 := ite01 s.cursor s.end_ i
    have a2 := ite01 start s.end_ i
    have a3 := ite01 start s.cursor i
    omega
  · intro hi hclosed hstop i
    have := key hi i
    have hok := h.closed_ok hclosed
    change s.stopReq = true ∨ ¬ (s.cursor < s.end_) at hok
    have a1 := ite01 s.cursor s.end_ i
    rcases hok with hok | hok
    · rw [hstop] at hok; cases hok
    · omega

/-- **Payload.** Whatever is delivered under index `i` is the server's entry for `i`. -/
theorem payload_exact (e : Env) (start end_ batch workers matchers : Nat) (c : Bool) (ops : List Op)
    (hc : ops.all Op.inContract = true) (i p : Nat)
    (h : (i, p) ∈ (run e (init start end_ batch workers matchers c) ops).delivered) : p = e.src i :=
  (inv_reachable e start end_ batch workers matchers c ops hc).payload (i, p) h

/-- **Termination.** The measure `4·(end−cursor) + 3·(entries pending at workers) + 2·|queue| + busy matchers + [generator alive]`
drops on every enabled progress step (hand, response, close, take, process), is untouched by errors, `Stop` and
cancellation, and rises only by `4·growth` when the log grows. Hence along any schedule the number of progress
steps is bounded by the initial measure plus four times the growth of the log … -/
theorem terminates (e : Env) (start end_ batch workers matchers : Nat) (c : Bool) (ops : List Op)
    (hc : ops.all Op.inContract = true) :
    let s0 := init start end_ batch workers matchers c
    progressCount e s0 ops + scanMeasure (run e s0 ops) ≤ 4 * (end_ - start) + 1 + 4 * ((run e s0 ops).end_ - end_) := by
  intro s0
  have h := run_measure e s0 ops hc
  have hm : scanMeasure s0 = 4 * (end_ - start) + 1 := by
    simp [s0, scanMeasure, init, remaining_replicate_none, busy_replicate_none]
  have he : s0.end_ = end_ := rfl
  rw [hm, he] at h
  exact h

/-- … and a one-shot scan (not continuous) makes at most `4·(end−start) + 1` progress steps under any schedule:
it cannot run forever, whatever the errors and short reads. -/
theorem terminates_oneshot (e : Env) (start end_ batch workers matchers : Nat) (ops : List Op)
    (hc : ops.all Op.inContract = true) :
    progressCount e (init start end_ batch workers matchers false) ops ≤ 4 * (end_ - start) + 1 := by
  have h := terminates e start end_ batch workers matchers false ops hc
  have he := run_end_fixed e (init start end_ batch workers matchers false) ops rfl
  simp only at h
  rw [he] at h
  have : (init start end_ batch workers matchers false).end_ = end_ := rfl
  rw [this] at h
  omega

/-- **Never stuck.** With at least one fetcher, one matcher and a positive batch size, a state that is not finished
always has an enabled progress step — unless it is a continuous scan that has delivered everything published so far
and waits for the log to grow. (So a one-shot scan ends, after `Stop` the pending work is finished and the scan
ends, and a continuous scan carries on.) -/
theorem never_stuck (e : Env) (start end_ batch workers matchers : Nat) (c : Bool) (ops : List Op)
    (hc : ops.all Op.inContract = true) (hw : 1 ≤ workers) (hm : 1 ≤ matchers) (hb : 0 < batch) :
    let s := run e (init start end_ batch workers matchers c) ops
    quiescent s = false →
    (∃ op, op.isProgress = true ∧ op.inContract = true ∧ enabled s op = true) ∨
    (s.continuous = true ∧ s.stopReq = false ∧ s.closed = false ∧ s.end_ ≤ s.cursor ∧
      allIdle s.workers = true ∧ s.queue = [] ∧ allIdle s.matchers = true) := by
  intro s hq
  have h := inv_reachable e start end_ batch workers matchers c ops hc
  have hk := run_consts e (init start end_ batch workers matchers c) ops
  refine progress e s h hq ?_ ?_ ?_
  · rw [hk.2.2.2.1]; simpa [init] using hw
  · rw [hk.2.2.2.2]; simpa [init] using hm
  · rw [hk.2.1]; simpa [init] using hb

/-- **Continuous mode: no gaps, no repeats.** However the log grows between STHs (`grow` ops at any point the code
allows), nothing is delivered twice, and whenever the workers are idle exactly the indices `start … cursor−1` have been
delivered — the scan has no hole behind its cursor — while the end only moves forward. -/
theorem continuous_no_gap (e : Env) (start end_ batch workers matchers : Nat) (ops : List Op)
    (hc : ops.all Op.inContract = true) :
    let s := run e (init start end_ batch workers matchers true) ops
    end_ ≤ s.end_ ∧ (∀ i, cnt s.delivered i ≤ 1) ∧
    (allIdle s.workers = true → ∀ i, cnt s.delivered i = inR start s.cursor i) := by
  intro s
  refine ⟨end_mono_run e (init start end_ batch workers matchers true) ops hc, ?_, ?_⟩
  · intro i; exact (at_most_once e start end_ batch workers matchers true ops hc i).1
  · exact (exactly_once e start end_ batch workers matchers true ops hc).1

/-- **Callbacks.** When the matcher stage has drained (and no fetch is pending), callback `b` (certificate / precertificate)
has been invoked on entry `(i, p)` exactly once if `i` lies in the delivered range, `p` is the server's entry for `i` and
the matcher selects `b` for it — and never otherwise: no entry is lost between fetcher and callback, none is reported
twice, none to the wrong callback. -/
theorem callback_once_per_match (e : Env) (start end_ batch workers matchers : Nat) (c : Bool) (ops : List Op)
    (hc : ops.all Op.inContract = true) :
    let s := run e (init start end_ batch workers matchers c) ops
    allIdle s.workers = true → s.queue = [] → allIdle s.matchers = true →
    ∀ b i p, wsum (indC b (i, p)) s.called
      = if e.cls i p = some b ∧ p = e.src i then inR start s.cursor i else 0 := by
  intro s hw hq hm b i p
  have h := inv_reachable e start end_ batch workers matchers c ops hc
  have h2 := h.stage2 b (i, p)
  change wsum (indC b (i, p)) s.called + osum (ind e b (i, p)) s.matchers + wsum (ind e b (i, p)) s.queue
      = wsum (ind e b (i, p)) s.delivered at h2
  rw [osum_allIdle _ _ hm, hq] at h2
  simp only [wsum, Nat.add_zero] at h2
  rw [h2, wsum_ind, wsum_pair e.src s.delivered h.payload i p]
  have hx := (exactly_once e start end_ batch workers matchers c ops hc).1 hw i
  change cnt s.delivered i = inR start s.cursor i at hx
  rw [hx]
  by_cases h1 : e.cls i p = some b <;> by_cases h2 : p = e.src i <;> simp [h1, h2]

/-! ## concrete instances (non-vacuity) and the documented domain boundary -/

/-- the server used in the examples: entry `i` is `100 + i`; even indices are certificates and selected,
indices divisible by 3 are precertificates and selected, the rest are not selected -/
def exEnv : Env := { src := fun i => 100 + i, cls := fun i _ => if i % 2 = 0 then some false else if i % 3 = 0 then some true else none }

/-- a schedule for range [2, 7), batch 2, 2 fetchers, 1 matcher: short reads, an error, interleaving -/
def exOps : List Op :=
  [.hand 0, .hand 1, .err 0, .resp 1 1, .resp 0 2, .take 0 0, .hand 0, .resp 1 1, .proc 0, .resp 0 1, .close,
   .take 0 1, .proc 0, .take 0 0, .proc 0, .take 0 0, .proc 0, .take 0 0, .proc 0]

example : exOps.all Op.inContract = true := by decide
example : quiescent (run exEnv (init 2 7 2 2 1 false) exOps) = true := by decide
example : (run exEnv (init 2 7 2 2 1 false) exOps).delivered.map Prod.fst = [4, 2, 3, 5, 6] := by decide
example : (run exEnv (init 2 7 2 2 1 false) exOps).called = [(false, (4, 104)), (true, (3, 103)), (false, (2, 102)), (false, (6, 106))] := by decide
example : progressCount exEnv (init 2 7 2 2 1 false) exOps = 18 ∧ 18 ≤ 4 * (7 - 2) + 1 := by decide
/-- `Stop` in the middle: the pending batch is finished, the rest of the range is not started, nothing twice -/
example : (run exEnv (init 0 9 3 1 1 false) [.hand 0, .stop, .resp 0 2, .close, .resp 0 1]).delivered.map Prod.fst = [0, 1, 2]
    ∧ (run exEnv (init 0 9 3 1 1 false) [.hand 0, .stop, .resp 0 2, .close, .resp 0 1]).cursor = 3 := by decide
/-- continuous mode: two growths, no gap, no repeat -/
example : (run exEnv (init 0 2 2 1 1 true) [.hand 0, .resp 0 2, .grow 3, .hand 0, .resp 0 1, .grow 6, .hand 0, .resp 0 2, .hand 0, .resp 0 1]).delivered.map Prod.fst
    = [0, 1, 2, 3, 4, 5] := by decide
/-- growth is not looked for before the end is reached, and never in one-shot mode -/
example : (run exEnv (init 0 4 2 1 1 true) [.grow 9]).end_ = 4 ∧ (run exEnv (init 0 4 2 1 1 false) [.hand 0, .resp 0 2, .hand 0, .resp 0 2, .grow 9]).end_ = 4 := by decide

/-- **Domain boundary 1**: a server that returns *more* than asked (3 entries for the request [0,1]) makes the code
deliver index 2 twice — the property's quantifier ("from one up to the number asked for") excludes such servers. -/
example : cnt (run exEnv (init 0 4 2 1 1 false) [.hand 0, .respRaw 0 3, .hand 0, .resp 0 2]).delivered 2 = 2 := by decide

/-- **Domain boundary 2**: a server that returns *no* entries (and no error) leaves the state exactly as it was: the
worker asks again immediately, for ever (the measure does not move). -/
example : step exEnv (run exEnv (init 0 4 2 1 1 false) [.hand 0]) (.respRaw 0 0) = run exEnv (init 0 4 2 1 1 false) [.hand 0] := by decide

theorem empty_answers_livelock (n : Nat) :
    run exEnv (run exEnv (init 0 4 2 1 1 false) [.hand 0]) (List.replicate n (.respRaw 0 0))
      = run exEnv (init 0 4 2 1 1 false) [.hand 0] := by
  induction n with
  | zero => rfl
  | succ n ih =>
    have hfix : step exEnv (run exEnv (init 0 4 2 1 1 false) [.hand 0]) (.respRaw 0 0) = run exEnv (init 0 4 2 1 1 false) [.hand 0] := by decide
    show run exEnv (step exEnv (run exEnv (init 0 4 2 1 1 false) [.hand 0]) (.respRaw 0 0)) (List.replicate n (.respRaw 0 0)) = _
    rw [hfix, ih]

/-- **Domain boundary 3**: batch size 0 — `genRanges` computes the empty range `[start, start-1]` and does not advance:
the generator hands out empty ranges for ever (in the model: `hand` is never enabled, nothing else can progress). -/
example : Gen.genRangesNext 5 (Gen.genRangesBatchEnd 5 9 0) = (5, 4) ∧ Gen.genRangesAdvance (Gen.genRangesBatchEnd 5 9 0) = 5 := by decide

example : Gen.genRangesAtEnd 6 6 = true := by decide
/-- start beyond the end of the tree, in the model: nothing is handed out until the log has grown past the start, and then
only indices from the start on are delivered -/
example : (run exEnv (init 8 5 2 1 1 true) [.hand 0, .grow 6, .hand 0, .grow 9, .hand 0, .resp 0 1]).delivered.map Prod.fst = [8] := by decide
example : Gen.genRangesBatchEnd 6 7 1000 = 7 ∧ Gen.genRangesNext 6 7 = (6, 6) := by decide
example : Gen.updateSTHRejects 10 10 1010 false = true ∧ Gen.updateSTHRejects 11 10 1010 true = true ∧ Gen.updateSTHRejects 11 10 1010 false = false := by decide
example : Gen.prepareResets 50 0 = true ∧ Gen.prepareResets 50 60 = true ∧ Gen.prepareResets 50 40 = false := by decide

end C16
