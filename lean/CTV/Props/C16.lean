import CTV.Gen.Scan
import CTV.Lemmas.Scan
/-!
# C16 — A scan delivers every entry of its range exactly once

Two layers.

**Regenerated arithmetic** (`Gen.*` is rewritten from scanner/fetcher.go and scanner/scanner.go on every run):
`genRanges_arith`, `worker_arith`, `updateSTH_accepts_only_growth`, `prepare_end`, `flatten_index` say that, for all
int64 values in the domain (indices and batch sizes below 2^63, batch ≥ 1), the code's batch / request / advance /
growth arithmetic *is* the arithmetic of the model's `hand`, `resp`, `grow` and `init` — including the
wrap-around of Go's int64/uint64, which is part of the regenerated terms.

**State machine** (`CTV.Model.Scan`, tied to the code by trace validation on every run): one `Op` per atomic
action, so the universally quantified `ops : List Op` below is "every schedule, every short-read length, every
error pattern, every growth history, every stop / cancel instant".
-/
set_option linter.unusedSimpArgs false
set_option linter.unusedVariables false
open CTV.Model.Scan

namespace C16

/-- a server used in boundary examples (content irrelevant) -/
def exEnv0 : Env := { src := fun i => i, cls := fun _ _ => none }

/-! ## regenerated arithmetic = model arithmetic -/

/-- **What one iteration of `genRanges`' loop does** (`Gen.genRangesAction` is the decision tree of the loop's own tests,
regenerated from whatever shape the loop has: 0 exit, 1 poll for a bigger STH and re-test, 2 emit a range): it emits
exactly when `start < end`; otherwise it polls in continuous mode and exits in one-shot mode; and no path polls and then
emits within the same iteration (a new end is always re-tested against `start`). -/
theorem genRanges_action (start end_ : Int) (c : Bool) :
    Gen.genRangesAction start end_ c = (if start < end_ then 2 else if c then 1 else 0) ∧
    Gen.genRangesActionPollThenEmits = false := by
  refine ⟨?_, by decide⟩
  unfold Gen.genRangesAction
  by_cases h : start < end_
  · have h2 : ¬ (end_ ≤ start) := by omega
    have h3 : ¬ (start = end_) := by omega
    cases c <;> simp [h, h2, h3]
  · have h2 : end_ ≤ start := by omega
    cases c <;> simp [h, h2]

/-- `genRanges`: while `start < end`, the loop runs, does not ask for a new STH, and sends the inclusive range
`[start, start + min(end-start, batch) - 1]`, then continues from `start + min(end-start, batch)` — no int64
wrap-around anywhere in the domain. -/
theorem genRanges_arith (start end_ batch : Int) (c : Bool)
    (hs : 0 ≤ start) (hse : start < end_) (he : end_ < 2^63) (hb : 0 < batch) (hb' : batch < 2^63) :
    Gen.genRangesAction start end_ c = 2 ∧
    Gen.genRangesBatch batch = batch ∧
    Gen.genRangesBatchEnd start end_ batch = start + min (end_ - start) batch ∧
    Gen.genRangesNext start (start + min (end_ - start) batch) = (start, start + min (end_ - start) batch - 1) ∧
    Gen.genRangesAdvance (start + min (end_ - start) batch) = start + min (end_ - start) batch := by
  have w : ∀ x : Int, -(2^63) ≤ x → x < 2^63 → I64.wrap64 x = x := I64.wrap64_id'
  refine ⟨?_, ?_, ?_, ?_, ?_⟩
  · rw [(genRanges_action start end_ c).1]; simp [hse]
  · simp only [Gen.genRangesBatch]; exact w _ (by omega) hb'
  · have h1 : I64.sub end_ start = end_ - start := w _ (by omega) (by omega)
    simp only [Gen.genRangesBatchEnd, Gen.min64, h1, I64.add]
    split
    · rename_i h; simp only [decide_eq_true_eq] at h
      rw [w _ (by omega) (by omega)]; omega
    · rename_i h; simp only [decide_eq_true_eq] at h
      rw [w _ (by omega) (by omega)]; omega
  · simp only [Gen.genRangesNext, I64.sub]
    rw [w _ (by omega) (by omega)]
  · simp [Gen.genRangesAdvance]

/-- In continuous mode, whenever nothing is left to hand out (`end ≤ start`, which includes a start index beyond the
current tree), `genRanges` polls for a bigger STH and goes back to the loop test without computing a batch; together with
`genRanges_arith` (batches are only computed when `start < end`, and begin at `start`) this is the guard of the model's
`grow` (`end ≤ cursor`) and the reason nothing below `StartIndex` is ever handed out.
(Before fix 8e7cedf the regenerated condition was `start == end` and the body did not `continue`: for `end < start` the
code computed the empty batch `[start, end-1]`, moved its cursor back to `end` and later delivered `end … start-1`;
this theorem does not hold for that code, and the harness scenarios `b9` / `sb*` exhibit the delivered indices.) -/
theorem genRanges_polls_at_end (start end_ : Int) (h : end_ ≤ start) :
    Gen.genRangesAction start end_ true = 1 ∧ Gen.genRangesAction start end_ false = 0 ∧ Gen.genRangesActionPollThenEmits = false := by
  have h1 : ¬ (start < end_) := by omega
  refine ⟨?_, ?_, (genRanges_action start end_ true).2⟩
  · rw [(genRanges_action start end_ true).1]; simp [h1]
  · rw [(genRanges_action start end_ false).1]; simp [h1]

/-- the same statement in the vocabulary of the model state -/
theorem hand_matches_code (s : St) (hc : s.cursor < s.end_) (hb : 0 < s.batch)
    (he : s.end_ < 2^63) (hb' : s.batch < 2^63) :
    Gen.genRangesBatchEnd s.cursor s.end_ (Gen.genRangesBatch s.batch) = (batchEnd s : Nat) ∧
    Gen.genRangesNext s.cursor (batchEnd s : Nat) = ((s.cursor : Int), ((batchEnd s : Nat) : Int) - 1) ∧
    Gen.genRangesAdvance (batchEnd s : Nat) = (batchEnd s : Nat) := by
  have h := genRanges_arith s.cursor s.end_ s.batch s.continuous (by omega) (by omega) (by omega) (by omega) (by omega)
  obtain ⟨_, h3, h4, h5, h6⟩ := h
  have hbe : ((batchEnd s : Nat) : Int) = (s.cursor : Int) + min ((s.end_ : Int) - s.cursor) s.batch := by
    simp only [batchEnd]; omega
  rw [h3, h4, hbe, h5, h6]
  exact ⟨rfl, rfl, rfl⟩

/-- `runWorker`: a pending half-open range `[lo, hi)` is kept as the inclusive pair `(lo, hi-1)`; it is pending iff
`lo < hi`; the request is for exactly that pair; after `k` entries the range is `[lo+k, hi)` and the batch handed to the
callback starts at `lo`. -/
theorem worker_arith (lo hi k : Int) (h0 : 0 ≤ lo) (hh : hi < 2^63) (hk0 : 0 ≤ k) (hk : lo + k < 2^63) :
    Gen.workerMore lo (hi - 1) = decide (lo < hi) ∧
    Gen.workerRequest lo (hi - 1) = (lo, hi - 1) ∧
    Gen.workerBatchStart lo = lo ∧
    Gen.workerAdvance lo k = lo + k ∧
    Gen.workerMore (lo + k) (hi - 1) = decide (lo + k < hi) := by
  have w : ∀ x : Int, -(2^63) ≤ x → x < 2^63 → I64.wrap64 x = x := I64.wrap64_id'
  refine ⟨?_, rfl, rfl, ?_, ?_⟩
  · simp only [Gen.workerMore]; congr 1; apply propext; omega
  · simp only [Gen.workerAdvance, I64.add]
    rw [w k (by omega) (by omega), w _ (by omega) (by omega)]
  · simp only [Gen.workerMore]; congr 1; apply propext; omega

/-- `flatten` (scanner.go) labels the `j`-th entry of a batch starting at `lo` with index `lo + j`. -/
theorem flatten_index (lo j : Int) (h0 : 0 ≤ lo) (hj : 0 ≤ j) (h : lo + j < 2^63) :
    Gen.flattenIndex lo j = lo + j := by
  have w : ∀ x : Int, -(2^63) ≤ x → x < 2^63 → I64.wrap64 x = x := I64.wrap64_id'
  simp only [Gen.flattenIndex, I64.add]
  rw [w j (by omega) (by omega), w _ (by omega) (by omega)]

/-- the model's `resp` is the code's worker arithmetic: after `k` entries (1 ≤ k ≤ hi−lo) for the pending range `[lo, hi)` the
worker's next state is decided by the regenerated loop test on the regenerated advance, the batch handed on starts at the
regenerated batch start, and its `j`-th entry is labelled with the regenerated flatten index -/
theorem resp_matches_code (e : Env) (s : St) (w lo hi k : Nat) (hw : s.workers[w]? = some (some (lo, hi)))
    (hk1 : 1 ≤ k) (hk2 : lo + k ≤ hi) (hh : hi < 2^63) :
    (step e s (.resp w k)).workers[w]? =
      some (if Gen.workerMore (Gen.workerAdvance lo k) ((hi : Int) - 1) then some ((Gen.workerAdvance lo k).toNat, hi) else none) ∧
    (step e s (.resp w k)).delivered = s.delivered ++ batchOf e.src (Gen.workerBatchStart lo).toNat k ∧
    ∀ j, j < k → Gen.flattenIndex (Gen.workerBatchStart lo) j = ((lo + j : Nat) : Int) := by
  have ha := worker_arith lo hi k (by omega) (by omega) (by omega) (by omega)
  obtain ⟨_, _, hbs, hadv, hmore⟩ := ha
  have hlen : w < s.workers.length := by
    cases hl : s.workers[w]? with
    | none => rw [hl] at hw; cases hw
    | some _ => exact (List.getElem?_eq_some_iff.mp hl).1
  refine ⟨?_, ?_, ?_⟩
  · simp only [step, hw, hk1, hk2, and_self, if_true, deliver, getElem?_set_cases, hlen, and_self, if_true]
    rw [hadv, hmore]
    by_cases hlt : lo + k < hi
    · have : ((lo : Int) + k < hi) := by omega
      simp only [hlt, this, decide_true, if_true]
      congr 2
    · have : ¬ ((lo : Int) + k < hi) := by omega
      simp [hlt, this]
  · simp only [step, hw, hk1, hk2, and_self, if_true, deliver, hbs]
    simp
  · intro j hj
    rw [hbs]
    have := flatten_index lo j (by omega) (by omega) (by omega)
    rw [this]; omega

/-- `updateSTH` only ever accepts an STH that is strictly bigger than the current end (the guard of the model's
`grow`), whatever the clock says, and then the new end is that tree size. (`Gen.updateSTHRejects` is the disjunction of the tests under
which the retry closure answers "wait for a bigger STH", read with all locals followed back to `sth.TreeSize`, `f.opts.EndIndex`,
`f.opts.BatchSize` and the clock test.) -/
theorem updateSTH_accepts_only_growth (treeSize endIndex batchSize : Int) (quick : Bool)
    (he : 0 ≤ endIndex) (he' : endIndex < 2^63) (ht : 0 ≤ treeSize) (ht' : treeSize < 2^63)
    (h : Gen.updateSTHRejects treeSize endIndex batchSize quick = false) :
    endIndex < treeSize ∧ Gen.updateSTHNewEnd treeSize = treeSize := by
  have hl : U64.wrap endIndex = endIndex := by simp only [U64.wrap]; omega
  simp only [Gen.updateSTHRejects, hl, Bool.or_eq_false_iff, decide_eq_false_iff_not] at h
  refine ⟨by omega, ?_⟩
  simp only [Gen.updateSTHNewEnd]
  exact I64.wrap64_id' _ (by omega) ht'

/-- after the 45 s "quick" phase every strictly bigger STH is accepted (so a growing log is followed) -/
theorem updateSTH_accepts_growth (treeSize endIndex batchSize : Int)
    (he : 0 ≤ endIndex) (he' : endIndex < 2^63) (h : endIndex < treeSize) :
    Gen.updateSTHRejects treeSize endIndex batchSize false = false := by
  have hl : U64.wrap endIndex = endIndex := by simp only [U64.wrap]; omega
  simp [Gen.updateSTHRejects, hl]; omega

/-- `Prepare`: the end of the range becomes the tree size exactly when no end was given or the given one is
beyond the tree; so the effective end never exceeds the tree size. -/
theorem prepare_end (treeSize endIndex : Int) (ht : 0 ≤ treeSize) (ht' : treeSize < 2^63) (he : 0 ≤ endIndex) :
    (Gen.prepareResets treeSize endIndex = true ↔ (endIndex = 0 ∨ treeSize < endIndex)) ∧
    (if Gen.prepareResets treeSize endIndex then treeSize else endIndex) ≤ treeSize := by
  have hw : I64.wrap64 treeSize = treeSize := I64.wrap64_id' _ (by omega) ht'
  constructor
  · simp only [Gen.prepareResets, hw, Bool.or_eq_true, decide_eq_true_eq]
  · by_cases h : Gen.prepareResets treeSize endIndex = true
    · simp [h]
    · simp only [h]
      simp only [Gen.prepareResets, hw, Bool.or_eq_true, decide_eq_true_eq] at h
      simp; omega

/-! ## the state machine, for every schedule -/

/-- The counting invariant (and the rest of `Inv`) holds in every reachable state. -/
theorem inv_reachable (e : Env) (start end_ batch workers matchers : Nat) (c : Bool) (ops : List Op)
    (hc : ops.all Op.inContract = true) :
    Inv e (run e (init start end_ batch workers matchers c) ops) :=
  inv_run e _ ops hc (inv_init e start end_ batch workers matchers c)

/-- No index is ever delivered twice, and nothing outside `[start, end)` is delivered — in every reachable
state, under every schedule, error pattern, short read, stop or cancellation. -/
theorem at_most_once (e : Env) (start end_ batch workers matchers : Nat) (c : Bool) (ops : List Op)
    (hc : ops.all Op.inContract = true) (i : Nat) :
    let s := run e (init start end_ batch workers matchers c) ops
    cnt s.delivered i ≤ 1 ∧ (cnt s.delivered i = 1 → start ≤ i ∧ i < s.end_) := by
  intro s
  have h := inv_reachable e start end_ batch workers matchers c ops hc
  have hc := h.count i
  have hs : s.start0 = start := (run_consts e _ ops).1
  have a := ite01 s.start0 s.end_ i
  change cnt s.delivered i + pend s.workers i + acnt s.abandoned i + inR s.cursor s.end_ i = inR s.start0 s.end_ i at hc
  rw [hs] at a hc
  omega


/-- **Exactly once.** Whenever no fetch is pending (in particular when `Run` has returned), every index between the start
and the generator's cursor is accounted for exactly once — delivered, or (only after the caller's context was cancelled)
in a range a worker gave up; so without cancellation exactly `start … cursor−1` has been delivered, once each, and nothing
else; and if the scan was neither stopped nor cancelled and the generator has finished, the cursor has reached the end, so
that is the whole range `[start, end)` — for any batch size, worker count, short-read lengths, error pattern and
interleaving. -/
theorem exactly_once (e : Env) (start end_ batch workers matchers : Nat) (c : Bool) (ops : List Op)
    (hc : ops.all Op.inContract = true) :
    let s := run e (init start end_ batch workers matchers c) ops
    (allIdle s.workers = true → ∀ i, cnt s.delivered i + acnt s.abandoned i = inR start s.cursor i) ∧
    (allIdle s.workers = true → s.cancelled = false → ∀ i, cnt s.delivered i = inR start s.cursor i) ∧
    (allIdle s.workers = true → s.closed = true → s.stopReq = false → ∀ i, cnt s.delivered i = inR start s.end_ i) := by
  intro s
  have h := inv_reachable e start end_ batch workers matchers c ops hc
  have hs : s.start0 = start := (run_consts e _ ops).1
  refine ⟨?_, ?_, ?_⟩
  · intro hi i; have := (inv_idle e s h hi).1 i; rw [hs] at this; exact this
  · intro hi hcan i
    have := (inv_idle e s h hi).1 i
    have hab : s.abandoned = [] := by
      cases ha : s.abandoned with
      | nil => rfl
      | cons a t =>
        have hne : s.abandoned ≠ [] := by rw [ha]; simp
        have := h.aband_ok hne; rw [hcan] at this; cases this
    rw [hs, hab] at this
    simpa [acnt] using this
  · intro hi hcl hst i; have := (inv_idle e s h hi).2.2 hcl hst i; rw [hs] at this; exact this

/-- **Payload.** Whatever is delivered under index `i` is the server's entry for `i`. -/
theorem payload_exact (e : Env) (start end_ batch workers matchers : Nat) (c : Bool) (ops : List Op)
    (hc : ops.all Op.inContract = true) (i p : Nat)
    (h : (i, p) ∈ (run e (init start end_ batch workers matchers c) ops).delivered) : p = e.src i :=
  (inv_reachable e start end_ batch workers matchers c ops hc).payload (i, p) h

/-- **Termination.** The measure `5·(end−cursor) + 3·(entries pending at workers) + busy workers + 2·|queue| + busy matchers + [generator alive]`
drops on every enabled progress step (hand, response, give-up after cancellation, close, take, process), is untouched by
errors, `Stop` and cancellation, and rises only by `5·growth` when the log grows. Hence along any schedule the number of
progress steps is bounded by the initial measure plus five times the growth of the log … -/
theorem terminates (e : Env) (start end_ batch workers matchers : Nat) (c : Bool) (ops : List Op)
    (hc : ops.all Op.inContract = true) :
    let s0 := init start end_ batch workers matchers c
    progressCount e s0 ops + scanMeasure (run e s0 ops) ≤ 5 * (end_ - start) + 1 + 5 * ((run e s0 ops).end_ - end_) := by
  intro s0
  have h := run_measure e s0 ops hc
  have hm : scanMeasure s0 = 5 * (end_ - start) + 1 := by
    simp [s0, scanMeasure, init, remaining_replicate_none, busy_replicate_none]
  have he : s0.end_ = end_ := rfl
  rw [hm, he] at h
  exact h

/-- … and a one-shot scan (not continuous) makes at most `5·(end−start) + 1` progress steps under any schedule:
it cannot make progress forever, whatever the errors and short reads. -/
theorem terminates_oneshot (e : Env) (start end_ batch workers matchers : Nat) (ops : List Op)
    (hc : ops.all Op.inContract = true) :
    progressCount e (init start end_ batch workers matchers false) ops ≤ 5 * (end_ - start) + 1 := by
  have h := terminates e start end_ batch workers matchers false ops hc
  have he := run_end_fixed e (init start end_ batch workers matchers false) ops rfl
  simp only at h
  rw [he] at h
  have : (init start end_ batch workers matchers false).end_ = end_ := rfl
  rw [this] at h
  omega

/-- **Never stuck.** With at least one fetcher, one matcher and a positive batch size, a state that is not finished
always has an enabled progress step — unless it is a continuous scan that has delivered everything published so far
and waits for the log to grow. (So a one-shot scan ends, after `Stop` the pending work is finished and the scan
ends, and a continuous scan carries on.) -/
theorem never_stuck (e : Env) (start end_ batch workers matchers : Nat) (c : Bool) (ops : List Op)
    (hc : ops.all Op.inContract = true) (hw : 1 ≤ workers) (hm : 1 ≤ matchers) (hb : 0 < batch) :
    let s := run e (init start end_ batch workers matchers c) ops
    quiescent s = false →
    (∃ op, op.isProgress = true ∧ op.inContract = true ∧ enabled s op = true) ∨
    (s.continuous = true ∧ s.stopReq = false ∧ s.closed = false ∧ s.end_ ≤ s.cursor ∧
      allIdle s.workers = true ∧ s.queue = [] ∧ allIdle s.matchers = true) := by
  intro s hq
  have h := inv_reachable e start end_ batch workers matchers c ops hc
  have hk := run_consts e (init start end_ batch workers matchers c) ops
  refine progress e s h hq ?_ ?_ ?_
  · rw [hk.2.2.2.1]; simpa [init] using hw
  · rw [hk.2.2.2.2]; simpa [init] using hm
  · rw [hk.2.1]; simpa [init] using hb

/-- **Cancellation terminates the fetch without the server.** In any reachable state in which the caller's context has been
cancelled, at most `measure` steps consisting only of workers giving up (`abandon`) and the generator exiting (`close`) —
no answer from the log is needed, so this holds against a dead or permanently failing server — lead to a state where the
generator is closed and no worker holds a range: `Fetcher.Run` returns. -/
theorem cancel_terminates (e : Env) (start end_ batch workers matchers : Nat) (c : Bool) (ops : List Op)
    (hc : ops.all Op.inContract = true) :
    let s := run e (init start end_ batch workers matchers c) ops
    s.cancelled = true →
    ∃ fin : List Op, fin.all Op.isGiveUp = true ∧ fin.length ≤ scanMeasure s ∧
      (run e s fin).closed = true ∧ allIdle (run e s fin).workers = true := by
  intro s hcan
  exact cancel_terminates_aux e (scanMeasure s) s (inv_reachable e start end_ batch workers matchers c ops hc) hcan (Nat.le_refl _)

/-- `abandon` is possible only after cancellation: `Stop` alone never makes a worker drop its range … -/
theorem abandon_only_after_cancel (e : Env) (s : St) (w : Nat) (h : s.cancelled = false) : step e s (.abandon w) = s := by
  simp only [step]
  split
  · simp [h]
  · rfl

/-- … so **`Stop` does not terminate a fetch against a server that never answers** (declared boundary, it is what the code does:
`Stop` cancels only the range generator, `runWorker` retries "until the context is cancelled"): after `Stop`, with a worker
holding a range and only errors coming back, the fetch is not finished after any number of errors. The property's
"terminates when stopped" therefore presupposes a server that eventually answers (`never_stuck`: the enabled step is `resp`). -/
theorem stop_needs_answers (n : Nat) :
    quiescent (run exEnv0 (run exEnv0 (init 0 4 2 1 1 false) [.hand 0, .stop, .close]) (List.replicate n (.err 0))) = false := by
  have hfix : ∀ n, run exEnv0 (run exEnv0 (init 0 4 2 1 1 false) [.hand 0, .stop, .close]) (List.replicate n (.err 0))
      = run exEnv0 (init 0 4 2 1 1 false) [.hand 0, .stop, .close] := by
    intro n
    induction n with
    | zero => rfl
    | succ n ih =>
      show run exEnv0 (step exEnv0 (run exEnv0 (init 0 4 2 1 1 false) [.hand 0, .stop, .close]) (.err 0)) (List.replicate n (.err 0)) = _
      exact ih
  rw [hfix n]; decide

/-- **Continuous mode: no gaps, no repeats.** However the log grows between STHs (`grow` ops at any point the code
allows), nothing is delivered twice, and whenever the workers are idle exactly the indices `start … cursor−1` have been
delivered — the scan has no hole behind its cursor — while the end only moves forward. -/
theorem continuous_no_gap (e : Env) (start end_ batch workers matchers : Nat) (ops : List Op)
    (hc : ops.all Op.inContract = true) :
    let s := run e (init start end_ batch workers matchers true) ops
    end_ ≤ s.end_ ∧ (∀ i, cnt s.delivered i ≤ 1) ∧
    (allIdle s.workers = true → s.cancelled = false → ∀ i, cnt s.delivered i = inR start s.cursor i) := by
  intro s
  refine ⟨end_mono_run e (init start end_ batch workers matchers true) ops hc, ?_, ?_⟩
  · intro i; exact (at_most_once e start end_ batch workers matchers true ops hc i).1
  · exact (exactly_once e start end_ batch workers matchers true ops hc).2.1

/-- **Callbacks.** When the matcher stage has drained (no fetch is pending, the context was not cancelled — after a
cancellation the same holds with "delivered" in place of "in the range", by `Inv.stage2`), callback `b` (certificate / precertificate)
has been invoked on entry `(i, p)` exactly once if `i` lies in the delivered range, `p` is the server's entry for `i` and
the matcher selects `b` for it — and never otherwise: no entry is lost between fetcher and callback, none is reported
twice, none to the wrong callback. -/
theorem callback_once_per_match (e : Env) (start end_ batch workers matchers : Nat) (c : Bool) (ops : List Op)
    (hc : ops.all Op.inContract = true) :
    let s := run e (init start end_ batch workers matchers c) ops
    allIdle s.workers = true → s.cancelled = false → s.queue = [] → allIdle s.matchers = true →
    ∀ b i p, wsum (indC b (i, p)) s.called
      = if e.cls i p = some b ∧ p = e.src i then inR start s.cursor i else 0 := by
  intro s hw hcan hq hm b i p
  have h := inv_reachable e start end_ batch workers matchers c ops hc
  have h2 := h.stage2 b (i, p)
  change wsum (indC b (i, p)) s.called + osum (ind e b (i, p)) s.matchers + wsum (ind e b (i, p)) s.queue
      = wsum (ind e b (i, p)) s.delivered at h2
  rw [osum_allIdle _ _ hm, hq] at h2
  simp only [wsum, Nat.add_zero] at h2
  rw [h2, wsum_ind, wsum_pair e.src s.delivered h.payload i p]
  have hx := (exactly_once e start end_ batch workers matchers c ops hc).2.1 hw hcan i
  change cnt s.delivered i = inR start s.cursor i at hx
  rw [hx]
  by_cases h1 : e.cls i p = some b <;> by_cases h2 : p = e.src i <;> simp [h1, h2]

/-! ## concrete instances (non-vacuity) and the documented domain boundary -/

/-- the server used in the examples: entry `i` is `100 + i`; even indices are certificates and selected,
indices divisible by 3 are precertificates and selected, the rest are not selected -/
def exEnv : Env := { src := fun i => 100 + i, cls := fun i _ => if i % 2 = 0 then some false else if i % 3 = 0 then some true else none }

/-- a schedule for range [2, 7), batch 2, 2 fetchers, 1 matcher: short reads, an error, interleaving -/
def exOps : List Op :=
  [.hand 0, .hand 1, .err 0, .resp 1 1, .resp 0 2, .take 0 0, .hand 0, .resp 1 1, .proc 0, .resp 0 1, .close,
   .take 0 1, .proc 0, .take 0 0, .proc 0, .take 0 0, .proc 0, .take 0 0, .proc 0]

example : exOps.all Op.inContract = true := by decide
example : quiescent (run exEnv (init 2 7 2 2 1 false) exOps) = true := by decide
example : (run exEnv (init 2 7 2 2 1 false) exOps).delivered.map Prod.fst = [4, 2, 3, 5, 6] := by decide
example : (run exEnv (init 2 7 2 2 1 false) exOps).called = [(false, (4, 104)), (true, (3, 103)), (false, (2, 102)), (false, (6, 106))] := by decide
example : progressCount exEnv (init 2 7 2 2 1 false) exOps = 18 ∧ 18 ≤ 5 * (7 - 2) + 1 := by decide
/-- `Stop` in the middle: the pending batch is finished, the rest of the range is not started, nothing twice -/
example : (run exEnv (init 0 9 3 1 1 false) [.hand 0, .stop, .resp 0 2, .close, .resp 0 1]).delivered.map Prod.fst = [0, 1, 2]
    ∧ (run exEnv (init 0 9 3 1 1 false) [.hand 0, .stop, .resp 0 2, .close, .resp 0 1]).cursor = 3 := by decide
/-- continuous mode: two growths, no gap, no repeat -/
example : (run exEnv (init 0 2 2 1 1 true) [.hand 0, .resp 0 2, .grow 3, .hand 0, .resp 0 1, .grow 6, .hand 0, .resp 0 2, .hand 0, .resp 0 1]).delivered.map Prod.fst
    = [0, 1, 2, 3, 4, 5] := by decide
/-- growth is not looked for before the end is reached, and never in one-shot mode -/
example : (run exEnv (init 0 4 2 1 1 true) [.grow 9]).end_ = 4 ∧ (run exEnv (init 0 4 2 1 1 false) [.hand 0, .resp 0 2, .hand 0, .resp 0 2, .grow 9]).end_ = 4 := by decide

/-- **Domain boundary 1**: a server that returns *more* than asked (3 entries for the request [0,1]) makes the code
deliver index 2 twice — the property's quantifier ("from one up to the number asked for") excludes such servers. -/
example : cnt (run exEnv (init 0 4 2 1 1 false) [.hand 0, .respRaw 0 3, .hand 0, .resp 0 2]).delivered 2 = 2 := by decide

/-- **Domain boundary 2**: a server that returns *no* entries (and no error) leaves the state exactly as it was: the
worker asks again immediately, for ever (the measure does not move). -/
example : step exEnv (run exEnv (init 0 4 2 1 1 false) [.hand 0]) (.respRaw 0 0) = run exEnv (init 0 4 2 1 1 false) [.hand 0] := by decide

theorem empty_answers_livelock (n : Nat) :
    run exEnv (run exEnv (init 0 4 2 1 1 false) [.hand 0]) (List.replicate n (.respRaw 0 0))
      = run exEnv (init 0 4 2 1 1 false) [.hand 0] := by
  induction n with
  | zero => rfl
  | succ n ih =>
    have hfix : step exEnv (run exEnv (init 0 4 2 1 1 false) [.hand 0]) (.respRaw 0 0) = run exEnv (init 0 4 2 1 1 false) [.hand 0] := by decide
    show run exEnv (step exEnv (run exEnv (init 0 4 2 1 1 false) [.hand 0]) (.respRaw 0 0)) (List.replicate n (.respRaw 0 0)) = _
    rw [hfix, ih]

/-- **Domain boundary 3**: batch size 0 — `genRanges` computes the empty range `[start, start-1]` and does not advance:
the generator hands out empty ranges for ever (in the model: `hand` is never enabled, nothing else can progress). -/
example : Gen.genRangesNext 5 (Gen.genRangesBatchEnd 5 9 0) = (5, 4) ∧ Gen.genRangesAdvance (Gen.genRangesBatchEnd 5 9 0) = 5 := by decide

example : Gen.genRangesAction 6 6 true = 1 ∧ Gen.genRangesAction 8 6 true = 1 ∧ Gen.genRangesAction 5 6 true = 2 ∧ Gen.genRangesAction 8 6 false = 0 := by decide
/-- start beyond the end of the tree, in the model: nothing is handed out until the log has grown past the start, and then
only indices from the start on are delivered -/
example : (run exEnv (init 8 5 2 1 1 true) [.hand 0, .grow 6, .hand 0, .grow 9, .hand 0, .resp 0 1]).delivered.map Prod.fst = [8] := by decide
/-- **Domain boundary 4**: tree sizes of 2^63 and more are outside the domain of every theorem above (hypotheses `< 2^63`):
`int64(sth.TreeSize)` wraps, `Prepare` then sets a negative end index (nothing is fetched, the scan "completes") and
`updateSTH` would store a negative end. No log is that large; the model's indices are `Nat`. -/
example : Gen.updateSTHNewEnd (2^63) = -(2^63) ∧ Gen.prepareResets (2^63) 0 = true ∧ Gen.genRangesAction 0 (Gen.updateSTHNewEnd (2^63)) false = 0 := by decide
/-- cancellation mid-range against a dead server: two workers hold ranges, nothing ever answers; giving up + close ends the fetch -/
example : quiescent (run exEnv (init 0 8 2 2 0 false) [.hand 0, .hand 1, .err 0, .cancel, .err 1, .abandon 0, .abandon 1, .close]) = true
    ∧ (run exEnv (init 0 8 2 2 0 false) [.hand 0, .hand 1, .err 0, .cancel, .err 1, .abandon 0, .abandon 1, .close]).abandoned = [(2, 4), (0, 2)] := by decide
example : Gen.genRangesBatchEnd 6 7 1000 = 7 ∧ Gen.genRangesNext 6 7 = (6, 6) := by decide
example : Gen.updateSTHRejects 10 10 1000 false = true ∧ Gen.updateSTHRejects 11 10 1000 true = true ∧ Gen.updateSTHRejects 11 10 1000 false = false := by decide
example : Gen.prepareResets 50 0 = true ∧ Gen.prepareResets 50 60 = true ∧ Gen.prepareResets 50 40 = false := by decide

end C16
