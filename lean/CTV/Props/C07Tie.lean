import CTV.Model.GetEntries
import CTV.Model.HandlerCheckSpec
/-!
# C07 — the model's reply checks are the regenerated handler bodies

`Gen.getEntries` / `Gen.getEntryAndProof` are rewritten on every run from the whole bodies of the two handlers
(order of tests, status of each). For a backend reply that is not an error, whose root decodes and whose leaves
decode (the cases `getEntriesRespond` / `getEntryAndProofRespond` model), the model's status is the regenerated one.
-/
set_option linter.unusedSimpArgs false
set_option linter.unusedVariables false
namespace C07
open CTV CTV.Model

theorem getEntriesRespond_tie (start end_ : Int) (treeSize : Nat) (leaves : List BLeaf) :
    (getEntriesRespond start (Gen.getEntriesCount start end_) treeSize leaves).1 =
      (Gen.getEntries false start end_ false 0 false treeSize leaves.length (!indicesOk start leaves) false false false).1 := by
  have hw : I64.wrap64 (I64.sub (I64.add end_ 1) start) = I64.sub (I64.add end_ 1) start := I64.wrap64_id (I64.wrap64_inRange _)
  simp only [getEntriesRespond, Gen.getEntries_eq_spec, Spec.getEntries, Gen.getEntriesCount]
  by_cases hk : indicesOk start leaves = true <;> simp [hk, hw] <;> (repeat' split) <;> simp_all

/-- served entries exist only with status 200 -/
theorem getEntriesRespond_entries (start count : Int) (treeSize : Nat) (leaves : List BLeaf) :
    (getEntriesRespond start count treeSize leaves).1 ≠ 200 → (getEntriesRespond start count treeSize leaves).2 = [] := by
  simp only [getEntriesRespond]
  (repeat' split) <;> simp

theorem getEntryAndProofRespond_tie (li ts : Int) (treeSize : Nat) (leaf : Option BLeaf) (proof : Option (List Bytes)) :
    (getEntryAndProofRespond ts treeSize leaf proof).1 =
      (Gen.getEntryAndProof false li ts false 0 false treeSize leaf.isNone ((leaf.map (·.value.length)).getD 0) proof.isNone
        ((proof.map (·.length)).getD 0) false false).1 := by
  simp only [getEntryAndProofRespond, Gen.getEntryAndProof_eq_spec, Spec.getEntryAndProof]
  rcases leaf with _ | l <;> rcases proof with _ | p <;> simp <;> (repeat' split) <;> simp_all [List.isEmpty_iff] <;> omega

/-- `marshalGetEntriesResponse` (regenerated whole) has no error return: a leaf that does not decode is logged and still
served, so the `leafDecodeFails` input of `Gen.getEntries` is always false and every leaf the backend returned is served -/
theorem marshalGetEntriesResponse_never_fails : Gen.marshalGetEntriesResponse = ErrKind.ok := rfl

end C07
