import CTV.Props.C04
import CTV.Model.CtWrappersSpec
/-!
# C04: the hand models of the serialization.go wrappers follow the bodies regenerated from the source

`Gen.serializeSCTSignatureInput`, `Gen.serializeSTHSignatureInput`, `Gen.leafHashForLeaf`, `Gen.isPreIssuer` and
`Gen.merkleTreeLeafFromChain` are the whole bodies of the Go functions, translated statement by statement on every run
(extract/k_ctwrappers.go): the order of the tests, whether a value or an error is handed back and — for
`MerkleTreeLeafFromChain` — which certificate of the chain is hashed into `issuer_key_hash` (`issuerIdx_`, read off the argument of
`sha256.Sum256`) and which one `BuildPrecertTBS` is given as pre-issuer (`preIdx_`, read off the call; −1 = nil).  The proofs go
through the reference copies `Spec.*` (`CTV/Model/CtWrappersSpec.lean`, `Gen.X_eq_spec`), so they do not depend on how the Go
source spells the same decisions.  The theorems say the hand models (`CtWire.serializeSCTSignatureInput`, …, `CtWire.leafFromChain`)
decide exactly as those bodies do on the facts the models compute.  (What is marshalled and from which fields is
`wrappers_as_modelled`; what the marshalled bytes are is `sctSigInput_spec` etc.)
-/
set_option linter.unusedSimpArgs false
namespace C04Tie
open Tls CTV CtWire

def failed {α : Type} : Except Err α → Bool
  | .ok _ => false
  | .error _ => true

def code {α : Type} : Except Err α → Nat × Bool
  | .ok _ => (1, false)
  | .error _ => (0, true)

def codeO {α : Type} : Option α → Nat × Bool
  | some _ => (1, false)
  | none => (0, true)

/-- the `CertificateTimestamp` value `SerializeSCTSignatureInput` builds -/
def sctInputVal (i : SctIn) : Val :=
  .struct ([.num i.version, .num 0, .num i.timestamp, .num i.entryType] ++
    (if i.entryType = 0 then [optVal (i.x509.map asn1CertVal), .absent, .absent, .bytes i.extensions]
     else [.absent, optVal (i.precert.map preCertVal), .absent, .bytes i.extensions]))

/-- `SerializeSCTSignatureInput`: version switch, then entry-type switch, then `tls.Marshal` — the model refuses / succeeds exactly as the
regenerated body does (for a precert entry the Go code dereferences `PrecertEntry`, so it is assumed present) -/
theorem sctSigInput_tie (i : SctIn) (hp : i.entryType = 1 → i.precert.isSome) :
    code (serializeSCTSignatureInput i) =
      Gen.serializeSCTSignatureInput i.version i.entryType (failed (enc tCertificateTimestamp (sctInputVal i))) := by
  obtain ⟨c1, c2, c3, c4, _⟩ := C04.consts
  rw [Gen.serializeSCTSignatureInput_eq_spec]
  by_cases hv : i.version = 0
  · by_cases h0 : i.entryType = 0
    · have e : sctInputVal i = .struct [.num i.version, .num 0, .num i.timestamp, .num i.entryType,
          optVal (i.x509.map asn1CertVal), .absent, .absent, .bytes i.extensions] := by simp [sctInputVal, h0]
      rw [e]
      simp only [serializeSCTSignatureInput, Spec.serializeSCTSignatureInput, c1, c2, c3, c4, hv, h0, Int.natCast_zero, if_true,
        decide_true, Int.toNat_zero, List.cons_append, List.nil_append]
      cases enc tCertificateTimestamp _ <;> simp [code, failed]
    · by_cases h1 : i.entryType = 1
      · obtain ⟨p, hpp⟩ := Option.isSome_iff_exists.1 (hp h1)
        have e : sctInputVal i = .struct [.num i.version, .num 0, .num i.timestamp, .num i.entryType,
            .absent, preCertVal p, .absent, .bytes i.extensions] := by simp [sctInputVal, h1, hpp, optVal]
        rw [e]
        simp only [serializeSCTSignatureInput, Spec.serializeSCTSignatureInput, c1, c2, c3, c4, hv, h1, hpp, Int.natCast_zero, Int.natCast_one,
          if_true, decide_true, Int.toNat_zero, List.cons_append, List.nil_append, show ¬ ((1 : Int) = 0) by decide, if_false,
          show decide ((1 : Int) = 0) = false by decide, Bool.false_eq_true]
        cases enc tCertificateTimestamp _ <;> simp [code, failed]
      · have a0 : ¬ ((i.entryType : Int) = 0) := by omega
        have a1 : ¬ ((i.entryType : Int) = 1) := by omega
        simp [serializeSCTSignatureInput, Spec.serializeSCTSignatureInput, c1, c2, c3, hv, h0, h1, a0, a1, code]
  · have : ¬ ((i.version : Int) = 0) := by omega
    simp [serializeSCTSignatureInput, Spec.serializeSCTSignatureInput, c1, hv, this, code]

/-- `SerializeSTHSignatureInput` (the root hash is a `[32]byte` in Go, so its length test never fires) -/
theorem sthSigInput_tie (s : SthIn) :
    code (serializeSTHSignatureInput s) =
      Gen.serializeSTHSignatureInput s.version false
        (failed (enc tTreeHeadSignature (.struct [.num s.version, .num 1, .num s.timestamp, .num s.treeSize, .bytes s.rootHash]))) := by
  obtain ⟨c1, _, _, _, c5, _⟩ := C04.consts
  rw [Gen.serializeSTHSignatureInput_eq_spec]
  by_cases hv : s.version = 0
  · simp only [serializeSTHSignatureInput, Spec.serializeSTHSignatureInput, c1, c5, hv, Int.natCast_zero, if_true, decide_true,
      Bool.false_eq_true, if_false, show (1 : Int).toNat = 1 by decide]
    cases enc tTreeHeadSignature _ <;> simp [code, failed]
  · have : ¬ ((s.version : Int) = 0) := by omega
    simp [serializeSTHSignatureInput, Spec.serializeSTHSignatureInput, c1, hv, this, code]

theorem leafHash_tie (leaf : Val) : code (leafHashInput leaf) = Gen.leafHashForLeaf (failed (enc tMerkleTreeLeaf leaf)) := by
  rw [Gen.leafHashForLeaf_eq_spec]
  unfold leafHashInput Spec.leafHashForLeaf
  cases enc tMerkleTreeLeaf leaf <;> simp [code, failed]

theorem isPreIssuer_tie (c : ChainCert) : c.ctEku = Gen.isPreIssuer c.ctEku := by
  rw [Gen.isPreIssuer_eq_spec]; unfold Spec.isPreIssuer; cases c.ctEku <;> rfl

/-- the facts `MerkleTreeLeafFromChain` tests, as the model computes them -/
def issuerEku (chain : List ChainCert) : Bool := ((chain[1]?).map (·.ctEku)).getD false
def buildFails (build : Bytes → Option ChainCert → Option Bytes) (chain : List ChainCert) : Bool :=
  match chain with
  | cert :: issuer :: _ => (build cert.tbs (if issuer.ctEku then some issuer else none)).isNone
  | _ => false

/-- **`MerkleTreeLeafFromChain`, whole body**: the model builds a leaf / refuses exactly as the regenerated body does (empty chain,
X.509 entry, unknown type, missing issuer, missing final issuer behind a pre-issuer, `BuildPrecertTBS` failure — in this order). -/
theorem leafFromChain_tie (H : Bytes → Bytes) (build : Bytes → Option ChainCert → Option Bytes) (chain : List ChainCert) (etype ts : Nat) :
    codeO (leafFromChain H build chain etype ts) =
      let k := Gen.merkleTreeLeafFromChain chain.length etype (issuerEku chain) (buildFails build chain)
      (k.1, k.2.1) := by
  obtain ⟨_, c2, c3, _⟩ := C04.consts
  rw [Gen.merkleTreeLeafFromChain_eq_spec]
  unfold leafFromChain Spec.merkleTreeLeafFromChain issuerEku buildFails
  simp only [c2, c3]
  match chain with
  | [] => simp [codeO]
  | [cert] =>
    by_cases h0 : etype = 0
    · simp [h0, codeO]
    · by_cases h1 : etype = 1
      · simp [h1, codeO]
      · have a0 : ¬ ((etype : Int) = 0) := by omega
        have a1 : ¬ ((etype : Int) = 1) := by omega
        simp [h0, h1, a0, a1, codeO]
  | [cert, issuer] =>
    by_cases h0 : etype = 0
    · simp [h0, codeO]
    · by_cases h1 : etype = 1
      · cases he : issuer.ctEku
        · cases hb : build cert.tbs none <;> simp [h1, he, hb, codeO]
        · simp [h1, he, codeO]
      · have a0 : ¬ ((etype : Int) = 0) := by omega
        have a1 : ¬ ((etype : Int) = 1) := by omega
        simp [h0, h1, a0, a1, codeO]
  | cert :: issuer :: final :: rest =>
    have l0 : ¬ ((rest.length : Int) + 1 + 1 + 1 = 0) := by omega
    have l2 : ¬ ((rest.length : Int) + 1 + 1 + 1 < 2) := by omega
    have l3 : ¬ ((rest.length : Int) + 1 + 1 + 1 < 3) := by omega
    by_cases h0 : etype = 0
    · simp [h0, codeO, l0]
    · by_cases h1 : etype = 1
      · cases he : issuer.ctEku
        · cases hb : build cert.tbs none <;> simp [h1, he, hb, codeO, l0, l2, l3]
        · cases hb : build cert.tbs (some issuer) <;> simp [h1, he, hb, codeO, l0, l2, l3]
      · have a0 : ¬ ((etype : Int) = 0) := by omega
        have a1 : ¬ ((etype : Int) = 1) := by omega
        simp [h0, h1, a0, a1, codeO, l0]

/-- the chain certificate an index of the regenerated body stands for (−1 = nil) -/
def certAt (chain : List ChainCert) (k : Int) : Option ChainCert := if k < 0 then none else chain[k.toNat]?

/-- **Which certificate gives `issuer_key_hash`**: for a precert entry the hashed key is that of `chain[issuerIdx_]`, and `BuildPrecertTBS`
gets `chain[preIdx_]` as pre-issuer (nil for −1) — with `issuerIdx_`, `preIdx_` as the regenerated body leaves them (2 / 1 behind a
Precertificate Signing Certificate, 1 / −1 otherwise). -/
theorem leafFromChain_issuer (H : Bytes → Bytes) (build : Bytes → Option ChainCert → Option Bytes) (chain : List ChainCert) (ts : Nat)
    (l : Rfc.MerkleTreeLeaf) (h : leafFromChain H build chain 1 ts = some l) :
    let k := Gen.merkleTreeLeafFromChain chain.length 1 (issuerEku chain) (buildFails build chain)
    ∃ cert c tbs, chain[0]? = some cert ∧ chain[k.2.2.1.toNat]? = some c ∧
      build cert.tbs (certAt chain k.2.2.2) = some tbs ∧
      l = ⟨0, ⟨ts, .precert ⟨H c.spki, tbs⟩, []⟩⟩ := by
  obtain ⟨_, c2, c3, _⟩ := C04.consts
  unfold leafFromChain at h
  rw [Gen.merkleTreeLeafFromChain_eq_spec]
  unfold Spec.merkleTreeLeafFromChain issuerEku buildFails certAt
  simp only [c2, c3]
  match chain, h with
  | [], h => simp at h
  | [cert], h => simp at h
  | [cert, issuer], h =>
    cases he : issuer.ctEku
    · simp only [he] at h
      cases hb : build cert.tbs none with
      | none => simp [hb] at h
      | some tbs =>
        simp [hb] at h
        exact ⟨cert, issuer, tbs, by simp, by simp [he, hb], by simp [he, hb], h.symm⟩
    · simp [he] at h
  | cert :: issuer :: final :: rest, h =>
    have l0 : ¬ ((rest.length : Int) + 1 + 1 + 1 = 0) := by omega
    have l2 : ¬ ((rest.length : Int) + 1 + 1 + 1 < 2) := by omega
    have l3 : ¬ ((rest.length : Int) + 1 + 1 + 1 < 3) := by omega
    cases he : issuer.ctEku
    · simp only [he] at h
      cases hb : build cert.tbs none with
      | none => simp [hb] at h
      | some tbs =>
        simp [hb] at h
        refine ⟨cert, issuer, tbs, by simp, ?_, ?_, h.symm⟩ <;> simp [he, hb, l0, l2, l3]
    · simp only [he] at h
      cases hb : build cert.tbs (some issuer) with
      | none => simp [hb] at h
      | some tbs =>
        simp [hb] at h
        refine ⟨cert, final, tbs, by simp, ?_, ?_, h.symm⟩ <;> simp [he, hb, l0, l2, l3]

/-- the pre-issuer chain of seeds C04-w3-2 / C05-w3-2: [precert, Precertificate Signing Certificate, CA] → the CA's key is hashed -/
example : (Gen.merkleTreeLeafFromChain 3 1 true false) = (1, false, 2, 1) ∧ (Gen.merkleTreeLeafFromChain 2 1 true false) = (0, true, -1, -1)
    ∧ (Gen.merkleTreeLeafFromChain 2 1 false false) = (1, false, 1, -1) ∧ (Gen.merkleTreeLeafFromChain 0 0 false false).2.1 = true
    ∧ (Gen.merkleTreeLeafFromChain 3 1 true true) = (0, true, -1, 1) := by
  rw [Gen.merkleTreeLeafFromChain_eq_spec]; decide
example : Gen.serializeSCTSignatureInput 0 1 false = (1, false) ∧ Gen.serializeSCTSignatureInput 1 0 false = (0, true)
    ∧ Gen.serializeSCTSignatureInput 0 2 false = (0, true) := by
  rw [Gen.serializeSCTSignatureInput_eq_spec]; decide
example : Gen.leafHashForLeaf true = (0, true) ∧ Gen.leafHashForLeaf false = (1, false) ∧ Gen.isPreIssuer true = true := by
  rw [Gen.leafHashForLeaf_eq_spec, Gen.isPreIssuer_eq_spec]; decide

end C04Tie
