import CTV.Gen.ClientTie
import CTV.Model.Client
import CTV.Lemmas.SigVerify
/-!
# C12 — tie between the hand model `CTV.Client` and the regenerated whole bodies (`CTV.Gen.ClientTie`)

`Gen.clientGetSTH`, `Gen.toSignedTreeHead`, `Gen.clientAddChain`, `Gen.clientVerifySTH/SCT`, `Gen.clientGetSTHConsistency`,
`Gen.clientGetProofByHash`, `Gen.clientGetEntryAndProof`, `Gen.clientGetRawEntries`, `Gen.jsonGetAndParse` are the **whole bodies**
of the Go methods translated statement by statement into functions of the facts the code tests, in the code's order
(status → JSON fields → base64/size → parse → verify → hand back); `Gen.clientRootsElemFails` / `Gen.clientEntriesElemFails` are the
loop bodies of GetAcceptedRoots / GetEntries as a verdict per element.  The theorems say that the hand model decides exactly as those
bodies do on the facts the model computes, so that reordering a test, dropping one or changing what is handed back in the Go source
breaks a proof here.

Not covered: TemporalLogClient.GetAcceptedRoots (goroutines + channel; not translatable by the kernels) stays tied by the
correspondence run only; the two range loops are tied per element, the "all elements" part is the model's.
-/
set_option linter.unusedSimpArgs false
namespace C12Tie
open CTV CTV.SigV CTV.SigInput CTV.Client

def Res.isRspErr {α : Type} : Res α → Bool
  | .rspErr _ _ => true
  | _ => false

/-! ### jsonclient GetAndParse -/

/-- **plainGet_tie.** For a response that arrived (no nil context, request built, transport answered, body read), the model's
`plainGet` hands the struct back exactly when the regenerated body of JSONClient.GetAndParse does: status first, JSON decoding second. -/
theorem plainGet_tie {β : Type} (r : Rsp β) :
    ((plainGet r).isOk = true ↔
      Gen.jsonGetAndParse false false false false false (decide (r.status ≠ 200)) r.body.isNone = (1, false)) ∧
    (Res.isRspErr (plainGet r) = true ↔
      Gen.jsonGetAndParseErr false false false false false (decide (r.status ≠ 200)) r.body.isNone = ErrKind.fresh) := by
  unfold plainGet Gen.jsonGetAndParse Gen.jsonGetAndParseErr
  by_cases hs : r.status = 200 <;> cases hb : r.body <;> simp [hs, hb, Res.isOk, Res.isRspErr]

/-- the status is looked at before the body: a non-200 response is an RspError whatever the body decodes to -/
example : Gen.jsonGetAndParseErr false false false false false true false = ErrKind.fresh := by decide
example : Gen.jsonGetAndParse false false false false false false false = (1, false) := by decide
example : Gen.jsonGetAndParseErr false false true false false false false = ErrKind.passthrough := by decide

/-- **plain_methods_tie.** GetSTHConsistency / GetProofByHash / GetEntryAndProof are GetAndParse and nothing else: the regenerated
bodies hand back exactly when GetAndParse succeeded, and pass its error through unchanged. -/
theorem plain_methods_tie {β : Type} (r : Rsp β) :
    let g := !(plainGet r).isOk
    ((plainGet r).isOk = true ↔ Gen.clientGetSTHConsistency g = (1, false)) ∧
    ((plainGet r).isOk = true ↔ Gen.clientGetProofByHash g = (1, false)) ∧
    ((plainGet r).isOk = true ↔ Gen.clientGetEntryAndProof g = (1, false)) ∧
    Gen.clientGetSTHConsistencyErr true = ErrKind.passthrough ∧ Gen.clientGetProofByHashErr true = ErrKind.passthrough ∧
    Gen.clientGetEntryAndProofErr true = ErrKind.passthrough := by
  unfold Gen.clientGetSTHConsistency Gen.clientGetProofByHash Gen.clientGetEntryAndProof
  cases (plainGet r).isOk <;> simp <;> decide

/-! ### get-sth -/

def trailingOf (sig : Bytes) : Bool :=
  match dsDecode sig with
  | some (_, rest) => !rest.isEmpty
  | none => false

/-- **toSignedTreeHead_tie.** root-hash length, then tls.Unmarshal, then "no trailing data", in that order. -/
theorem toSignedTreeHead_tie (b : SthBody) :
    (toSignedTreeHead b).isSome = true ↔
      Gen.toSignedTreeHead (decide (b.root.length ≠ 32)) (dsDecode b.sig).isNone (trailingOf b.sig) = (1, false) := by
  unfold toSignedTreeHead Gen.toSignedTreeHead dsExact trailingOf
  by_cases hl : b.root.length = 32
  · cases hd : dsDecode b.sig with
    | none => simp [hl]
    | some p =>
      obtain ⟨ds, rest⟩ := p
      cases rest <;> simp [hl]
  · simp [hl]

example : Gen.toSignedTreeHead false false false = (1, false) ∧ Gen.toSignedTreeHead false false true = (0, true) ∧
    Gen.toSignedTreeHead true false false = (0, true) := by decide

/-- the facts LogClient.GetSTH tests, as the model computes them -/
def sthFacts (P : Prims) (verifier : Option Key) (r : Rsp SthBody) : Bool × Bool × Bool :=
  let g := plainGet r
  ( !g.isOk,
    (match g with | .ok b => (toSignedTreeHead b).isNone | _ => false),
    (match g with
     | .ok b =>
       (match toSignedTreeHead b with
        | some sth =>
          Gen.clientVerifySTH verifier.isNone
            (match verifier with | some key => decide (verifySTH P key sth ≠ .ok) | none => false)
        | none => false)
     | _ => false) )

/-- **getSTH_tie.** The model's `getSTH` hands an STH back exactly when the regenerated body of LogClient.GetSTH does, on the
model's facts: GetAndParse (status, JSON) → ToSignedTreeHead (size, parse, trailing) → VerifySTHSignature (skipped without a
verifier) → hand back. -/
theorem getSTH_tie (P : Prims) (verifier : Option Key) (r : Rsp SthBody) :
    (getSTH P verifier r).isOk = true ↔
      Gen.clientGetSTH (sthFacts P verifier r).1 (sthFacts P verifier r).2.1 (sthFacts P verifier r).2.2 = (1, false) := by
  unfold getSTH sthFacts plainGet Gen.clientGetSTH Gen.clientVerifySTH
  simp only [show Gen.clientVerifiesBeforeReturn = true from rfl, if_true]
  by_cases hs : r.status = 200
  · cases hb : r.body with
    | none => simp [hs, Res.isOk]
    | some b =>
      cases ht : toSignedTreeHead b with
      | none => simp [hs, Res.isOk, ht]
      | some sth =>
        cases verifier with
        | none => simp [hs, Res.isOk, ht]
        | some key => cases hv : verifySTH P key sth <;> simp [hs, Res.isOk, ht, hv]
  · simp [hs, Res.isOk]

/-- and the errors it makes itself are RspErrors; GetAndParse's error is passed through -/
example : Gen.clientGetSTHErr false true false = ErrKind.fresh ∧ Gen.clientGetSTHErr false false true = ErrKind.fresh ∧
    Gen.clientGetSTHErr true false false = ErrKind.passthrough ∧ Gen.clientGetSTHErr false false false = ErrKind.ok := by decide
example : Gen.clientVerifySTH true true = false ∧ Gen.clientVerifySTH false true = true := by decide

/-! ### add-chain / add-pre-chain / add-json -/

structure AddFacts where
  unmarshalFails : Bool
  trailing : Bool
  b64Fails : Bool
  hasVerifier : Bool
  keyIDFails : Bool
  idPresent : Bool
  idDiffers : Bool
  verifyFails : Bool

/-- the facts addChainWithRetry tests after PostAndParseWithRetry returned a decoded 200 response, as the model computes them -/
def addFacts (P : Prims) (verifier : Option Key) (keyID : Option Bytes) (leaf : LeafBuild) (b : SctBody) : AddFacts :=
  { unmarshalFails := (dsDecode b.signature).isNone
    trailing := trailingOf b.signature
    b64Fails := b.extensions.isNone
    hasVerifier := verifier.isSome
    keyIDFails := keyID.isNone
    idPresent := !b.id.isEmpty
    idDiffers := decide (some b.id ≠ keyID)
    verifyFails :=
      Gen.clientVerifySCT verifier.isNone (decide (leaf = .err ∨ leaf = .panic))
        (match verifier, leaf, dsExact b.signature, b.extensions with
         | some key, .ok e, some ds, some exts =>
           decide (verifySCT P key ⟨b.version, sctLogID verifier.isSome keyID b.id, b.timestamp, exts, ds⟩ e ≠ .ok)
         | _, _, _, _ => false) }

/-- **addChainFinal_tie.** The model's `addChainFinal` hands an SCT back exactly when the regenerated body of addChainWithRetry
does: tls.Unmarshal of the signature → trailing data → base64 of the extensions → (with a verifier) the key's own id can be
computed, a present id equals it → VerifySCTSignature (leaf, then signature; skipped without a verifier) → hand back. -/
theorem addChainFinal_tie (P : Prims) (verifier : Option Key) (keyID : Option Bytes) (leaf : LeafBuild)
    (status : Nat) (raw : Bytes) (b : SctBody) :
    (addChainFinal P verifier keyID leaf status raw b).isOk = true ↔
      (Gen.clientAddChain false (addFacts P verifier keyID leaf b).unmarshalFails (addFacts P verifier keyID leaf b).trailing
        (addFacts P verifier keyID leaf b).b64Fails (addFacts P verifier keyID leaf b).hasVerifier
        (addFacts P verifier keyID leaf b).keyIDFails (addFacts P verifier keyID leaf b).idPresent
        (addFacts P verifier keyID leaf b).idDiffers (addFacts P verifier keyID leaf b).verifyFails).1 = 1 := by
  unfold addChainFinal addFacts Gen.clientAddChain Gen.clientVerifySCT idAccepted trailingOf dsExact
  simp only [show Gen.clientVerifiesBeforeReturn = true from rfl, show Gen.addChainIDPolicy = 2 from rfl, if_true]
  cases hd : dsDecode b.signature with
  | none => simp [Res.isOk]
  | some p =>
    obtain ⟨ds, rest⟩ := p
    cases rest with
    | cons x xs => simp [Res.isOk]
    | nil =>
      cases hx : b.extensions with
      | none => simp [Res.isOk]
      | some exts =>
        cases verifier with
        | none => simp [Res.isOk]
        | some key =>
          cases keyID with
          | none => simp [Res.isOk]
          | some k =>
            by_cases he : b.id = [] <;> by_cases hk : b.id = k <;> cases leaf <;>
              simp [Res.isOk, he, hk] <;>
              (first
                | (rename_i e; cases hv : verifySCT P key _ e <;> simp [hv])
                | skip)

/-- **addChain_logid_tie.** Where the regenerated body sets `logID.KeyID = keyID` (third component), the model's SCT carries the
key's own hash as its log id. -/
theorem addChain_logid_tie (P : Prims) (key : Key) (k : Bytes) (leaf : LeafBuild) (status : Nat) (raw : Bytes) (b : SctBody) (sct : SCT)
    (h : addChainFinal P (some key) (some k) leaf status raw b = .ok sct) :
    (Gen.clientAddChain false (addFacts P (some key) (some k) leaf b).unmarshalFails (addFacts P (some key) (some k) leaf b).trailing
        (addFacts P (some key) (some k) leaf b).b64Fails true false (addFacts P (some key) (some k) leaf b).idPresent
        (addFacts P (some key) (some k) leaf b).idDiffers (addFacts P (some key) (some k) leaf b).verifyFails).2.2 = true ∧
      sct.logID = k := by
  have hok := (addChainFinal_tie P (some key) (some k) leaf status raw b).mp (by rw [h]; rfl)
  constructor
  · revert hok
    simp only [addFacts, Option.isSome_some, Option.isNone_some]
    unfold Gen.clientAddChain
    generalize (dsDecode b.signature).isNone = a1
    generalize trailingOf b.signature = a2
    generalize b.extensions.isNone = a3
    generalize (!b.id.isEmpty) = a4
    generalize decide (some b.id ≠ some k) = a5
    generalize Gen.clientVerifySCT _ _ _ = a6
    cases a1 <;> cases a2 <;> cases a3 <;> cases a4 <;> cases a5 <;> cases a6 <;> decide
  · unfold addChainFinal at h
    simp only [show Gen.clientVerifiesBeforeReturn = true from rfl, if_true] at h
    cases hd : dsExact b.signature with
    | none => simp [hd] at h
    | some ds =>
      cases hx : b.extensions with
      | none => simp [hd, hx] at h
      | some exts =>
        simp only [hd, hx] at h
        split at h
        · cases h
        · cases leaf with
          | err => cases h
          | panic => cases h
          | ok e =>
            simp only at h
            split at h
            · injection h with h; rw [← h]; simp [sctLogID, show Gen.addChainIDPolicy = 2 from rfl]
            · cases h
            · cases h

/-- the order of the tests and the kinds of error, read off the regenerated body -/
example : Gen.clientAddChainErr true false false false true false false false false = ErrKind.passthrough := by decide
example : Gen.clientAddChainErr false true false false true false false false false = ErrKind.fresh := by decide
example : Gen.clientAddChainErr false false false false true false true true false = ErrKind.fresh := by decide
example : Gen.clientAddChain false false false false true false false true false = (1, false, true) := by decide
example : Gen.clientAddChain false false false false false false true true false = (1, false, false) := by decide
example : Gen.clientAddChain false false false false true false true false true = (0, true, true) := by decide
example : Gen.clientVerifySCT true true true = false ∧ Gen.clientVerifySCT false true false = true ∧
    Gen.clientVerifySCT false false true = true ∧ Gen.clientVerifySCT false false false = false := by decide

/-! ### get-roots, get-entries -/

/-- **getRoots_tie.** GetAcceptedRoots = GetAndParse, then every element must pass the regenerated loop body (base64). -/
theorem getRoots_tie (r : Rsp (List (Option Bytes))) :
    (getRoots r).isOk =
      (match plainGet r with
       | .ok cs => cs.all (fun c => !Gen.clientRootsElemFails c.isNone)
       | _ => false) := by
  unfold getRoots
  cases hg : plainGet r with
  | ok cs =>
    have : (cs.all fun c => !Gen.clientRootsElemFails c.isNone) = cs.all Option.isSome := by
      congr 1; funext c; cases c <;> rfl
    simp only [this]
    cases cs.all Option.isSome <;> rfl
  | rspErr s b => rfl
  | err => rfl
  | panic => rfl

/-- what the loop body of GetEntries tests for one element -/
def entryFatal (e : EntryIn) : Bool :=
  (rawLogEntryFromLeaf e.leafInput e.extraData).isNone || e.x509Fatal

theorem decodeAll_isSome (es : List EntryIn) :
    (decodeAll es).isSome = es.all (fun e => !Gen.clientEntriesElemFails (entryFatal e)) := by
  induction es with
  | nil => rfl
  | cons e es ih =>
    unfold decodeAll
    simp only [List.all_cons, ← ih]
    unfold Gen.clientEntriesElemFails entryFatal
    cases hr : rawLogEntryFromLeaf e.leafInput e.extraData with
    | none => simp
    | some x =>
      cases hf : e.x509Fatal with
      | true => simp
      | false => cases decodeAll es <;> simp

/-- **getEntries_tie.** The model's `getEntries` hands entries back exactly when the regenerated body of getRawEntries does
(end < 0, then end < start, then GetAndParse) and every element passes the regenerated loop body of GetEntries; and the bare
(non-RspError) error is exactly the regenerated range refusal, made before any request. -/
theorem getEntries_tie (start end_ : Int) (r : Rsp (List EntryIn)) :
    ((getEntries start end_ r).isOk = true ↔
      Gen.clientGetRawEntries (decide (end_ < 0)) (decide (end_ < start)) (!(plainGet r).isOk) = (1, false) ∧
      (match plainGet r with
       | .ok es => es.all (fun e => !Gen.clientEntriesElemFails (entryFatal e))
       | _ => false) = true) ∧
    (getEntries start end_ r = .err ↔
      (Gen.clientGetRawEntriesErr (decide (end_ < 0)) (decide (end_ < start)) (!(plainGet r).isOk) = ErrKind.fresh)) := by
  unfold getEntries Gen.clientGetRawEntries Gen.clientGetRawEntriesErr
  simp only [show Gen.getEntriesWrapsDecodeError = true from rfl, if_true]
  by_cases h1 : end_ < 0
  · simp [h1, Res.isOk]
  · by_cases h2 : end_ < start
    · simp [h1, h2, Res.isOk]
    · have hpg : plainGet r ≠ .err := by
        unfold plainGet; split
        · intro h; cases h
        · split <;> (intro h; cases h)
      cases hg : plainGet r with
      | ok es =>
        dsimp only
        rw [← decodeAll_isSome]
        cases hd : decodeAll es <;> simp [h1, h2, Res.isOk, hd]
      | rspErr s b => simp [h1, h2, Res.isOk]
      | err => exact absurd hg hpg
      | panic => simp [h1, h2, Res.isOk]

example : Gen.clientGetRawEntriesErr true false false = ErrKind.fresh ∧ Gen.clientGetRawEntriesErr false true false = ErrKind.fresh ∧
    Gen.clientGetRawEntriesErr false false true = ErrKind.passthrough ∧ Gen.clientGetRawEntries false false false = (1, false) := by decide
example : Gen.clientRootsElemFails true = true ∧ Gen.clientRootsElemFails false = false ∧
    Gen.clientEntriesElemFails true = true ∧ Gen.clientEntriesElemFails false = false := by decide

end C12Tie
