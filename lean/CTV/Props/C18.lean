import CTV.Model.Temporal
import CTV.Model.TemporalSpec
/-!
# C18 — every component draws temporal shard boundaries at the same instants

All conditions are **regenerated** from the Go source on every run (`Gen.validateChainReject*` from
trillian/ctfe/cert_checker.go, `Gen.indexByDateTakes` / `Gen.indexByDate` (the loop body's verdict per shard, translated whatever its shape; tied to `Spec.*` by `Gen.*_eq_spec`), `Gen.shardIntervalInverted`, `Gen.temporalStep` from
client/multilog.go, `Gen.temporallyCompatible*` from loglist3/logfilter.go). Instants are `Int`
nanoseconds (trusted: `time.Time.Before/After/Equal` are the strict order and equality on instants).
-/
set_option linter.unusedSimpArgs false
namespace C18
open CTV.Model

/-- `t` is inside the interval with optional bounds `[lo, up)`. -/
def inWin (lo up : Option Int) (t : Int) : Prop :=
  (∀ s, lo = some s → s ≤ t) ∧ (∀ l, up = some l → t < l)

/-- the log server admits NotAfter `t` under window `(start, limit)` -/
def admits (w : Shard) (t : Int) : Prop :=
  Gen.validateChainRejectStart w.1 t = false ∧ Gen.validateChainRejectLimit w.2 t = false

/-- the shard client does not skip interval `w` for `t` -/
def routes (w : Shard) (t : Int) : Prop :=
  Gen.indexByDateTakes w.1 w.2 t = true

theorem admits_iff (w : Shard) (t : Int) : admits w t ↔ inWin w.1 w.2 t := by
  obtain ⟨lo, up⟩ := w
  unfold admits inWin Gen.validateChainRejectStart Gen.validateChainRejectLimit
  cases lo <;> cases up <;> simp <;> omega

theorem routes_iff (w : Shard) (t : Int) : routes w t ↔ inWin w.1 w.2 t := by
  obtain ⟨lo, up⟩ := w
  unfold routes inWin
  rw [Gen.indexByDateTakes_eq_spec]
  simp only [Spec.indexByDateSkipLower, Spec.indexByDateSkipUpper]
  cases lo <;> cases up <;> simp <;> omega

theorem compat_iff (s l t : Int) : Gen.temporallyCompatible (some (s, l)) t = true ↔ inWin (some s) (some l) t := by
  unfold Gen.temporallyCompatible
  rw [Gen.temporallyCompatibleKeeps_eq_spec]
  unfold Spec.temporallyCompatibleCond inWin
  simp; omega

/-- **LogList.Compatible draws the same window.** The second entry point of the log-list filter (used by the submission proxy
when root checks are on) keeps a log only if `TemporallyCompatible` does — with or without a root, whatever the root verdict — and
keeps exactly those when the root is acceptable or no root is given: `start ≤ t < limit`, as everywhere else. -/
theorem compatible_window (s l t : Int) (rootGiven rootOk : Bool) :
    (Gen.compatibleKeeps (some (s, l)) t rootGiven rootOk = true → inWin (some s) (some l) t) ∧
    ((rootGiven = false ∨ rootOk = true) → (Gen.compatibleKeeps (some (s, l)) t rootGiven rootOk = true ↔ inWin (some s) (some l) t)) := by
  unfold Gen.compatibleKeeps
  have h := compat_iff s l t
  constructor
  · intro hk
    simp only [Bool.and_eq_true] at hk
    exact h.mp hk.1
  · intro hr
    rcases hr with hr | hr <;> simp [hr, h]

theorem compat_no_interval (t : Int) : Gen.temporallyCompatible none t = true := by
  unfold Gen.temporallyCompatible
  rw [Gen.temporallyCompatibleKeeps_eq_spec]
  rfl

/-- The three components agree at every instant, for every window (with both bounds present, which is the only
form the log-list filter has). -/
theorem three_agree (s l t : Int) :
    (admits (some s, some l) t ↔ routes (some s, some l) t) ∧
    (routes (some s, some l) t ↔ Gen.temporallyCompatible (some (s, l)) t = true) := by
  rw [admits_iff, routes_iff, compat_iff]; simp

/-- and server and shard client agree for optional bounds too -/
theorem admits_iff_routes (w : Shard) (t : Int) : admits w t ↔ routes w t := by
  rw [admits_iff, routes_iff]

/-- the window an operator configures reaches the admission check unchanged, and configuration refuses exactly `limit < start`
(so `start = limit` — an empty window — is accepted by the server although the shard client refuses it: an observation, not
part of the property) -/
theorem configured_window : Gen.configuredWindowVerbatim = true ∧
    ∀ s l : Option Int, Gen.validateLogConfigWindowRefused s l = true ↔ ∃ a b, s = some a ∧ l = some b ∧ b < a := by
  refine ⟨rfl, ?_⟩
  intro s l
  unfold Gen.validateLogConfigWindowRefused
  cases s <;> cases l <;> simp

example : admits (some 5, some 9) 5 ∧ ¬ admits (some 5, some 9) 9 ∧ admits (none, some 9) (-7) ∧ admits (some 5, none) 1000 := by
  simp [admits, Gen.validateChainRejectStart, Gen.validateChainRejectLimit]

/-! ## shard lists -/

/-- `go` accepted `r` after an overall upper bound `ou`: every element starts exactly where the previous ended,
is not inverted, and all but possibly the last have an upper bound. -/
theorem go_cons (ou : Option Int) (s : Shard) (r : List Shard) (h : temporalGo ou (s :: r) = true) :
    ∃ u, ou = some u ∧ s.1 = some u ∧ (∀ v, s.2 = some v → u < v) ∧ temporalGo s.2 r = true := by
  obtain ⟨lo, up⟩ := s
  simp only [temporalGo] at h
  split at h
  · simp at h
  · rename_i hinv
    split at h
    · simp at h
    · rename_i ou' hstep
      unfold Gen.temporalStep at hstep
      unfold Gen.shardIntervalInverted at hinv
      cases ou <;> cases lo <;> simp at hstep
      rename_i a b
      obtain ⟨hab, rfl⟩ := hstep
      refine ⟨a, rfl, by simp; omega, ?_, h⟩
      intro v hv
      simp at hv; subst hv
      simp at hinv; omega

/-- every interval of an accepted tail starts at or after the previous overall upper bound -/
theorem go_lower (r : List Shard) : ∀ (u : Int), temporalGo (some u) r = true →
    ∀ x ∈ r, ∃ lo, x.1 = some lo ∧ u ≤ lo := by
  induction r with
  | nil => intro u _ x hx; simp at hx
  | cons s r ih =>
    intro u h x hx
    obtain ⟨u', hu, hs1, hs2, hr⟩ := go_cons _ _ _ h
    simp at hu; subst hu
    rcases List.mem_cons.mp hx with rfl | hx
    · exact ⟨u, hs1, by omega⟩
    · cases r with
      | nil => simp at hx
      | cons s' r' =>
        obtain ⟨v, hv, _, _, _⟩ := go_cons _ _ _ hr
        have := ih v (by rw [← hv]; exact hr) x hx
        obtain ⟨lo, hlo, hle⟩ := this
        exact ⟨lo, hlo, by have := hs2 v hv; omega⟩

/-- the upper bound of the last shard of `s :: r` -/
def lastUpper : Shard → List Shard → Option Int
  | s, [] => s.2
  | _, s' :: r => lastUpper s' r

/-- in an accepted list, `t` is in some interval of the tail iff it lies between the previous upper bound and the last one;
and no two intervals both contain `t`. -/
theorem go_cover (r : List Shard) : ∀ (s : Shard) (t : Int), temporalGo s.2 r = true →
    ((∃ x ∈ r, inWin x.1 x.2 t) ↔ (r ≠ [] ∧ (∀ u, s.2 = some u → u ≤ t) ∧ (∀ l, lastUpper s r = some l → t < l) ∧ s.2.isSome)) := by
  induction r with
  | nil => intro s t _; simp
  | cons s' r ih =>
    intro s t h
    obtain ⟨u, hu, hs1, hs2, hr⟩ := go_cons _ _ _ h
    have ih' := ih s' t hr
    simp only [List.mem_cons, exists_eq_or_imp, ne_eq, reduceCtorEq, not_false_eq_true, true_and, lastUpper]
    rw [ih']
    constructor
    · rintro (⟨h1, h2⟩ | ⟨hne, h1, h2, h3⟩)
      · refine ⟨fun u' hu' => ?_, ?_, by simp [hu]⟩
        · rw [hu] at hu'; simp at hu'; subst hu'; exact h1 u hs1
        · cases r with
          | nil => simpa [lastUpper] using h2
          | cons s'' r' =>
            obtain ⟨v, hv, _, _, hr'⟩ := go_cons _ _ _ hr
            intro l hl
            -- t < v ≤ … : use go_lower on the rest to see the last upper is beyond v
            have := h2 v hv
            have hl' := lastUpper_ge s'' r' v (by rw [← hv]; exact hr) l hl
            omega
      · refine ⟨fun u' hu' => ?_, h2, by simp [hu]⟩
        obtain ⟨v, hv⟩ := Option.isSome_iff_exists.mp h3
        have := h1 v hv
        have := hs2 v hv
        rw [hu] at hu'; simp at hu'; omega
    · rintro ⟨h1, h2, _⟩
      have hut := h1 u hu
      by_cases hc : ∀ v, s'.2 = some v → t < v
      · left; exact ⟨fun s0 hs0 => by rw [hs1] at hs0; simp at hs0; omega, hc⟩
      · right
        have ⟨v, hv, hvt⟩ : ∃ v, s'.2 = some v ∧ v ≤ t := by
          cases hh : s'.2 with
          | none => exact absurd (fun v hv => by rw [hh] at hv; simp at hv) hc
          | some v => exact ⟨v, rfl, by
              apply Decidable.byContradiction; intro hn
              exact hc (fun v' hv' => by rw [hh] at hv'; simp at hv'; omega)⟩
        refine ⟨?_, fun u' hu' => by rw [hv] at hu'; simp at hu'; omega, h2, by simp [hv]⟩
        intro hnil; subst hnil
        simp [lastUpper] at h2
        have := h2 v hv; omega
where
  lastUpper_ge (s'' : Shard) (r' : List Shard) (v : Int) (h : temporalGo (some v) (s'' :: r') = true) :
      ∀ l, lastUpper s'' r' = some l → v < l := by
    induction r' generalizing s'' v with
    | nil =>
      intro l hl
      obtain ⟨u, hu, _, hs2, _⟩ := go_cons _ _ _ h
      simp at hu; subst hu
      exact hs2 l (by simpa [lastUpper] using hl)
    | cons s3 r3 ih3 =>
      intro l hl
      obtain ⟨u, hu, _, hs2, hr⟩ := go_cons _ _ _ h
      simp at hu; subst hu
      obtain ⟨w, hw, _, _, _⟩ := go_cons _ _ _ hr
      have := ih3 s3 w (by rw [← hw]; exact hr) l (by simpa [lastUpper] using hl)
      have := hs2 w hw
      omega

/-- two different shards of an accepted list never both contain `t` -/
theorem go_pairwise (r : List Shard) : ∀ (s : Shard) (t : Int), temporalGo s.2 r = true →
    List.Pairwise (fun a b : Shard => ¬ (inWin a.1 a.2 t ∧ inWin b.1 b.2 t)) (s :: r) := by
  induction r with
  | nil => intro s t _; simp
  | cons s' r ih =>
    intro s t h
    obtain ⟨u, hu, hs1, hs2, hr⟩ := go_cons _ _ _ h
    rw [List.pairwise_cons]
    refine ⟨?_, ih s' t hr⟩
    intro x hx ⟨h1, h2⟩
    obtain ⟨lo, hlo, hle⟩ := go_lower (s' :: r) u (by rw [← hu]; exact h) x hx
    have := h1.2 u hu
    have := h2.1 lo hlo
    omega

/-- the instants covered by an accepted list: from the first lower bound to the last upper bound -/
def inSpan : List Shard → Int → Prop
  | [], _ => False
  | s0 :: r, t => inWin s0.1 (lastUpper s0 r) t

theorem span_cover (s0 : Shard) (r : List Shard) (t : Int) (hinv : Gen.shardIntervalInverted s0.1 s0.2 = false)
    (h : temporalGo s0.2 r = true) : (∃ x ∈ s0 :: r, inWin x.1 x.2 t) ↔ inSpan (s0 :: r) t := by
  simp only [List.mem_cons, exists_eq_or_imp, inSpan]
  rw [go_cover r s0 t h]
  cases r with
  | nil => simp [lastUpper]
  | cons s' r' =>
    obtain ⟨u, hu, hs1, hs2, hr⟩ := go_cons _ _ _ h
    have hl := go_cover.lastUpper_ge s' r' u (by rw [← hu]; exact h)
    unfold inWin
    simp only [lastUpper, ne_eq, reduceCtorEq, not_false_eq_true, true_and, hu, Option.some.injEq, forall_eq',
      Option.isSome_some, and_true]
    have hlo : ∀ a, s0.1 = some a → a < u := by
      intro a ha
      unfold Gen.shardIntervalInverted at hinv
      rw [ha, hu] at hinv; simp at hinv; exact hinv
    constructor
    · rintro (⟨h1, h2⟩ | ⟨h1, h2⟩)
      · exact ⟨h1, fun l hl' => by have := hl l hl'; omega⟩
      · exact ⟨fun a ha => by have := hlo a ha; omega, h2⟩
    · rintro ⟨h1, h2⟩
      by_cases hc : t < u
      · left; exact ⟨h1, hc⟩
      · right; exact ⟨by omega, h2⟩

theorem routesB (w : Shard) (t : Int) :
    Gen.indexByDateTakes w.1 w.2 t = true ↔ inWin w.1 w.2 t := by
  rw [← routes_iff]; rfl

/-- **Unique shard.** For a shard list accepted at construction and every instant `t`:
if `t` lies in the overall span, the client routes it to one index `i`, and a log server configured with the window of
shard `j` admits `t` exactly when `j = i`; if `t` lies outside the span it is routed nowhere and no shard's server admits it. -/
theorem unique_shard (shards : List Shard) (h : newTemporal shards = true) (t : Int) :
    (inSpan shards t → ∃ i, Gen.indexByDate shards t = some i ∧
        ∀ j w, shards[j]? = some w → (admits w t ↔ j = i)) ∧
    (¬ inSpan shards t → Gen.indexByDate shards t = none ∧ ∀ w ∈ shards, ¬ admits w t) := by
  cases shards with
  | nil => simp [newTemporal] at h
  | cons s0 r =>
    simp only [newTemporal] at h
    split at h
    · simp at h
    rename_i hinv
    simp only [Bool.not_eq_true] at hinv
    have hcov := span_cover s0 r t hinv h
    have hpw := go_pairwise r s0 t h
    unfold Gen.indexByDate
    constructor
    · intro hs
      obtain ⟨x, hx, hxw⟩ := hcov.mpr hs
      have hlt : List.findIdx (fun iv : Shard => Gen.indexByDateTakes iv.1 iv.2 t) (s0 :: r) < (s0 :: r).length :=
        List.findIdx_lt_length_of_exists ⟨x, hx, (routesB x t).mpr hxw⟩
      refine ⟨List.findIdx (fun iv : Shard => Gen.indexByDateTakes iv.1 iv.2 t) (s0 :: r), by simp only [hlt, if_true], ?_⟩
      intro j w hj
      rw [admits_iff]
      have hi := List.findIdx_getElem (w := hlt)
      rw [routesB] at hi
      constructor
      · intro hw
        obtain ⟨hjl, hjw⟩ := List.getElem?_eq_some_iff.mp hj
        rcases Nat.lt_trichotomy j (List.findIdx (fun iv : Shard => Gen.indexByDateTakes iv.1 iv.2 t) (s0 :: r)) with hlt' | heq | hgt
        · have := List.not_of_lt_findIdx hlt'
          rw [hjw] at this
          have h2 := (routesB w t).mpr hw
          have h3 : Gen.indexByDateTakes w.1 w.2 t = false := this
          rw [h3] at h2
          exact absurd h2 (by decide)
        · exact heq
        · have := (List.pairwise_iff_getElem.mp hpw) _ _ hlt hjl hgt
          rw [hjw] at this
          exact absurd ⟨hi, hw⟩ this
      · intro hji
        subst hji
        obtain ⟨hjl, hjw⟩ := List.getElem?_eq_some_iff.mp hj
        rw [← hjw]; exact hi
    · intro hns
      have hnone : ∀ x ∈ s0 :: r, ¬ inWin x.1 x.2 t := fun x hx hw => hns (hcov.mp ⟨x, hx, hw⟩)
      constructor
      · have : List.findIdx (fun iv : Shard => Gen.indexByDateTakes iv.1 iv.2 t) (s0 :: r) = (s0 :: r).length := by
          rw [List.findIdx_eq_length]
          intro x hx
          have := hnone x hx
          rw [← routesB] at this
          simpa using this
        simp only [this, Nat.lt_irrefl, if_false]
      · intro w hw
        rw [admits_iff]; exact hnone w hw

/-- **Refusals.** An empty list, an inverted (or empty) interval anywhere, a shard extending an interval with no upper bound,
a later shard without lower bound, and a gap or overlap between consecutive shards are all refused at construction. -/
theorem refuse_empty : newTemporal [] = false := rfl
theorem refuse_inverted (pre post : List Shard) (lo up : Int) (h : up ≤ lo) :
    newTemporal (pre ++ (some lo, some up) :: post) = false := by
  have hinv : Gen.shardIntervalInverted (some lo) (some up) = true := by
    unfold Gen.shardIntervalInverted; simp; omega
  have key : ∀ (pre : List Shard) (ou : Option Int), temporalGo ou (pre ++ (some lo, some up) :: post) = false := by
    intro pre
    induction pre with
    | nil => intro ou; simp [temporalGo, hinv]
    | cons p pre ih =>
      intro ou
      simp only [List.cons_append, temporalGo]
      split
      · rfl
      · split
        · rfl
        · exact ih _
  cases pre with
  | nil => simp [newTemporal, hinv]
  | cons p pre =>
    simp only [List.cons_append, newTemporal]
    split
    · rfl
    · exact key pre _
theorem refuse_after_unbounded (lo : Option Int) (s : Shard) (r : List Shard) :
    newTemporal ((lo, none) :: s :: r) = false := by
  simp [newTemporal, temporalGo, Gen.shardIntervalInverted, Gen.temporalStep]
theorem refuse_gap (s0 s1 : Shard) (r : List Shard) (h : s1.1 ≠ s0.2) : newTemporal (s0 :: s1 :: r) = false := by
  obtain ⟨a, b⟩ := s0; obtain ⟨c, d⟩ := s1
  cases hh : newTemporal ((a, b) :: (c, d) :: r) with
  | false => rfl
  | true =>
    simp only [newTemporal] at hh
    split at hh
    · simp at hh
    · obtain ⟨u, hu, hs1, _, _⟩ := go_cons _ _ _ hh
      simp at hu hs1 h; rw [hu, hs1] at h; exact absurd rfl h

/-- acceptance of a list implies acceptance (from some overall upper bound) of every suffix -/
theorem go_suffix (pre l : List Shard) : ∀ ou, temporalGo ou (pre ++ l) = true → ∃ ou', temporalGo ou' l = true := by
  induction pre with
  | nil => intro ou h; exact ⟨ou, h⟩
  | cons p pre ih =>
    intro ou h
    obtain ⟨_, _, _, _, hr⟩ := go_cons _ _ _ h
    exact ih _ hr

/-- **Refusals, anywhere in the list.** Wherever two consecutive shards `s0, s1` occur, construction succeeds only if `s0` has
an upper bound and `s1` starts exactly there; so a gap, an overlap, a shard following an unbounded one, and a later shard
without a lower bound are refused at every position, not only at the head. -/
theorem accepted_consecutive (pre post : List Shard) (s0 s1 : Shard)
    (h : newTemporal (pre ++ s0 :: s1 :: post) = true) : ∃ u, s0.2 = some u ∧ s1.1 = some u := by
  have key : ∀ ou, temporalGo ou (s0 :: s1 :: post) = true → ∃ u, s0.2 = some u ∧ s1.1 = some u := by
    intro ou hg
    obtain ⟨_, _, _, _, hr⟩ := go_cons _ _ _ hg
    obtain ⟨u, hu, hs1, _, _⟩ := go_cons _ _ _ hr
    exact ⟨u, hu, hs1⟩
  cases pre with
  | nil =>
    simp only [List.nil_append, newTemporal] at h
    split at h
    · simp at h
    · obtain ⟨u, hu, hs1, _, _⟩ := go_cons _ _ _ h
      exact ⟨u, hu, hs1⟩
  | cons p pre =>
    simp only [List.cons_append, newTemporal] at h
    split at h
    · simp at h
    · obtain ⟨ou', h'⟩ := go_suffix pre (s0 :: s1 :: post) _ h
      exact key ou' h'

theorem refuse_gap_anywhere (pre post : List Shard) (s0 s1 : Shard) (h : s1.1 ≠ s0.2 ∨ s0.2 = none) :
    newTemporal (pre ++ s0 :: s1 :: post) = false := by
  cases hh : newTemporal (pre ++ s0 :: s1 :: post) with
  | false => rfl
  | true =>
    obtain ⟨u, hu, hs1⟩ := accepted_consecutive pre post s0 s1 hh
    rcases h with h | h
    · rw [hu, hs1] at h; exact absurd rfl h
    · rw [hu] at h; simp at h

/-- non-vacuity: a three-shard list with an open start is accepted; instant 20 goes to shard 1 only. -/
example : newTemporal [(none, some 10), (some 10, some 20), (some 20, none)] = true := by decide
example : Gen.indexByDate [(none, some 10), (some 10, some 20), (some 20, none)] 20 = some 2 := by decide
example : Gen.indexByDate [(some 0, some 10), (some 10, some 20)] 20 = none := by decide
example : newTemporal [(some 0, some 10), (some 11, some 20)] = false := by decide
example : newTemporal [(some 0, some 10), (some 10, some 20), (some 21, none)] = false := by decide
example : newTemporal [(some 0, some 10), (some 10, none), (some 20, none)] = false := by decide

end C18
