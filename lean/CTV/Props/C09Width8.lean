import CTV.Props.C09
import CTV.Lemmas.When
/-!
# C09, `fieldInfo.check` at full strength: all widths 1…8

`check_spec` is false at `count = 8` for the unchanged tree (`1 << 64` wraps to 0: finding F2), which is how the
proof attempt finds the defect; this module is part of the check only once F2 is no longer listed as `known`
(see driver/props/c09.py).  Until then `C09.check_sound` (all widths) and `C09.check_spec_partial` (widths ≤ 7)
stand and the harness exhibits the refused 8-byte values.

So that the default `lake build` succeeds on every tree, the module is wrapped in `#when` on "the regenerated kernel
accepts the value 0 in an 8-byte field" (CTV/Lemmas/When.lean): on the unchanged tree it elaborates to nothing;
whenever it is an obligation the orchestrator demands every theorem named below from `#print axioms`.
-/
set_option linter.unusedSimpArgs false

#when (Tls.Info.check ⟨8, 0, 0, true⟩ 0) =>
namespace C09Width8
open Tls CTV

/-- `check v` succeeds exactly when `v` fits into `count` bytes and, if a maximum is declared, lies in `minlen…maxlen` —
for every width up to 8 bytes and every uint64 value. -/
theorem check_spec (i : Info) (v : Nat) (hc : i.count ≤ 8) :
    i.check v = true ↔ (v < 256 ^ i.count ∧ (i.maxlen = 0 ∨ (i.minlen ≤ v ∧ v ≤ i.maxlen))) := by
  obtain ⟨c, mn, mx, cs⟩ := i
  simp only [Info.check, Bool.and_eq_true, decide_eq_true_eq]
  simp only at hc ⊢
  rcases count_cases hc with rfl | rfl | rfl | rfl | rfl | rfl | rfl | rfl | rfl <;>
    simp [Gen.fieldInfoCheck, U64.shl, U64.mul, U64.wrap] <;> omega

/-- an 8-byte enum accepts every uint64 value -/
example : Info.check ⟨8, 0, 0, true⟩ (2^64 - 1) = true ∧ Info.check ⟨8, 0, 0, true⟩ 5 = true := by decide
example : enc (.struct (.plain "E" (.enum ⟨8, 0, 0, true⟩) .nil)) (.struct [.num 5]) = .ok [0,0,0,0,0,0,0,5] := by rfl

end C09Width8
#end_when
