import CTV.Props.C09
/-!
# C09, `fieldInfo.check` at full strength: all widths 1…8

`check_spec` over the regenerated kernel `Gen.fieldInfoCheck`.  Before c593dc2 (finding F2: `1 << (8*count)` wrapped to
0 for `count = 8`) the statement was false at width 8 and the proof attempt showed it; it is an ordinary obligation now.
-/
set_option linter.unusedSimpArgs false

namespace C09Width8
open Tls CTV

/-- `check v` succeeds exactly when `v` fits into `count` bytes and, if a maximum is declared, lies in `minlen…maxlen` —
for every width up to 8 bytes and every uint64 value. -/
theorem check_spec (i : Info) (v : Nat) (hc : i.count ≤ 8) :
    i.check v = true ↔ (v < 256 ^ i.count ∧ (i.maxlen = 0 ∨ (i.minlen ≤ v ∧ v ≤ i.maxlen))) := by
  obtain ⟨c, mn, mx, cs⟩ := i
  simp only [Info.check, Bool.and_eq_true, decide_eq_true_eq]
  simp only at hc ⊢
  rcases count_cases hc with rfl | rfl | rfl | rfl | rfl | rfl | rfl | rfl | rfl <;>
    simp [Gen.fieldInfoCheck, U64.shl, U64.mul, U64.wrap] <;> omega

/-- an 8-byte enum accepts every uint64 value -/
example : Info.check ⟨8, 0, 0, true⟩ (2^64 - 1) = true ∧ Info.check ⟨8, 0, 0, true⟩ 5 = true := by decide
example : enc (.struct (.plain "E" (.enum ⟨8, 0, 0, true⟩) .nil)) (.struct [.num 5]) = .ok [0,0,0,0,0,0,0,5] := by rfl

end C09Width8
