import CTV.Props.C04
/-! C04 — the wiring of the serialization wrappers, pinned to the source text regenerated on every run (moved out of C04.lean). -/
namespace C04
open Tls CTV CtWire

/-- **The wiring of the wrappers, as the hand models assume it, regenerated from the source on every run**: which struct literal
`SerializeSCTSignatureInput` / `SerializeSTHSignatureInput` marshal and where each field comes from (the SCT's version,
timestamp and *extensions*; the entry's type and body), that `LeafHashForLeaf` hashes `TreeLeafPrefix ‖ tls.Marshal(*leaf)`,
which three `tls.Unmarshal` calls `RawLogEntryFromLeaf` makes, what `ExtraDataForChain` marshals and that `buildLogLeaf` chooses
it exactly when no chain hash is given. -/
theorem wrappers_as_modelled :
    Gen.sctInputAssign = ["input := CertificateTimestamp{ SCTVersion: sct.SCTVersion, SignatureType: CertificateTimestampSignatureType, Timestamp: sct.Timestamp, EntryType: entry.Leaf.TimestampedEntry.EntryType, Extensions: sct.Extensions, }"] ∧
    Gen.sctInputX509Assign = ["input.X509Entry = entry.Leaf.TimestampedEntry.X509Entry"] ∧
    Gen.sctInputPrecertAssign = ["input.PrecertEntry = &PreCert{ IssuerKeyHash: entry.Leaf.TimestampedEntry.PrecertEntry.IssuerKeyHash, TBSCertificate: entry.Leaf.TimestampedEntry.PrecertEntry.TBSCertificate, }"] ∧
    Gen.sctInputMarshal = ["tls.Marshal(input)"] ∧
    Gen.sthInputAssign = ["input := TreeHeadSignature{ Version: sth.Version, SignatureType: TreeHashSignatureType, Timestamp: sth.Timestamp, TreeSize: sth.TreeSize, SHA256RootHash: sth.SHA256RootHash, }"] ∧
    Gen.sthInputMarshal = ["tls.Marshal(input)"] ∧
    Gen.leafHashMarshal = ["tls.Marshal(*leaf)"] ∧ Gen.leafHashData = ["data := append([]byte{TreeLeafPrefix}, leafData...)"] ∧
    Gen.leafHashSum = ["sha256.Sum256(data)"] ∧
    Gen.rawLogEntryUnmarshal = ["tls.Unmarshal(entry.LeafInput, &ret.Leaf)", "tls.Unmarshal(entry.ExtraData, &certChain)", "tls.Unmarshal(entry.ExtraData, &precertChain)"] ∧
    Gen.extraDataAssign = ["extra = ct.PrecertChainEntry{ PreCertificate: cert, CertificateChain: chain, }", "extra = ct.CertificateChain{Entries: chain}"] ∧
    Gen.buildLogLeafChoice = "chainHash == nil" := by
  decide +kernel

end C04
