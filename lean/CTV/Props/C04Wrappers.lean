import CTV.Props.C04
/-! C04 — the wiring of the serialization wrappers, tied to the source on every run.

The facts are regenerated from the *canonical view* of each function (extract/canon.go, units in extract/k_cttypes.go):
parameters are named by their type (`$SignedCertificateTimestamp`, `$LogEntry`, `$[]byte` …), locals that only hoist a read are
substituted back, same-file helpers and local closures are inlined, branch conditions are normalised.  Renaming, hoisting,
extracting a helper, or turning a `switch` into early returns leaves them unchanged; taking a signed field from another
place, marshalling another structure, parsing another buffer or choosing the extra-data form on another condition does not. -/
namespace C04
open Tls CTV CtWire

/-- **What the hand models of serialization.go / log_leaf.go assume about the code, regenerated on every run.**

* `SerializeSCTSignatureInput` marshals a `CertificateTimestamp` whose version, timestamp and **extensions** come from the SCT
  argument, whose entry type and body come from the entry's `Leaf.TimestampedEntry`, with the constant signature type;
* `SerializeSTHSignatureInput` marshals a `TreeHeadSignature` built from the STH argument with the constant `TreeHashSignatureType`;
* `LeafHashForLeaf` hashes `TreeLeafPrefix ‖ tls.Marshal(*leaf)`;
* `RawLogEntryFromLeaf` parses `LeafInput` into the leaf, and `ExtraData` into a `CertificateChain` resp. a `PrecertChainEntry`;
* `ExtraDataForChain` builds `PrecertChainEntry{cert, chain}` exactly when `isPrecert`, else `CertificateChain{chain}`;
* `buildLogLeaf` takes `ExtraDataForChain` exactly when `chainHash == nil`, else `ExtraDataForChainHash`. -/
theorem wrappers_as_modelled :
    Gen.sctInputFields = [("EntryType", "$LogEntry.Leaf.TimestampedEntry.EntryType"), ("Extensions", "$SignedCertificateTimestamp.Extensions"),
      ("SCTVersion", "$SignedCertificateTimestamp.SCTVersion"), ("SignatureType", "CertificateTimestampSignatureType"),
      ("Timestamp", "$SignedCertificateTimestamp.Timestamp")] ∧
    Gen.sctInputX509 = ["$LogEntry.Leaf.TimestampedEntry.X509Entry"] ∧
    Gen.sctInputPreTarget = ["PreCert"] ∧
    Gen.sctInputPreFields = [("IssuerKeyHash", "$LogEntry.Leaf.TimestampedEntry.PrecertEntry.IssuerKeyHash"),
      ("TBSCertificate", "$LogEntry.Leaf.TimestampedEntry.PrecertEntry.TBSCertificate")] ∧
    Gen.sctInputMarshalled = ["CertificateTimestamp"] ∧
    Gen.sthInputFields = [("SHA256RootHash", "$SignedTreeHead.SHA256RootHash"), ("SignatureType", "TreeHashSignatureType"),
      ("Timestamp", "$SignedTreeHead.Timestamp"), ("TreeSize", "$SignedTreeHead.TreeSize"), ("Version", "$SignedTreeHead.Version")] ∧
    Gen.sthInputMarshalled = ["TreeHeadSignature"] ∧
    Gen.leafHashMarshal = ["*$*MerkleTreeLeaf"] ∧ Gen.leafHashPrefix = ["TreeLeafPrefix"] ∧ Gen.leafHashSum = ["$append"] ∧
    Gen.rawLogEntryUnmarshal = ["$*LeafEntry.LeafInput,&$lit(RawLogEntry).Leaf",
      "$*LeafEntry.ExtraData,&$decl(CertificateChain)", "$*LeafEntry.ExtraData,&$decl(PrecertChainEntry)"] ∧
    Gen.extraDataPrecertFields = [("CertificateChain", "$[]ct.ASN1Cert"), ("PreCertificate", "$ct.ASN1Cert")] ∧
    Gen.extraDataChainFields = [("Entries", "$[]ct.ASN1Cert")] ∧
    Gen.extraDataPrecertWhen = ["$bool"] ∧ Gen.extraDataChainWhen = ["!$bool"] ∧
    Gen.buildLogLeafChainWhen = ["$[]byte==nil"] ∧ Gen.buildLogLeafHashWhen = ["$[]byte!=nil"] := by
  decide +kernel

end C04
