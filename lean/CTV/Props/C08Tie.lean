import CTV.Model.Faults
import CTV.Model.HandlerCheckSpec
/-!
# C08 — the hand model's check sequences ARE the regenerated ones

`Gen.HandlerChecks` is rewritten on every run from the bodies of `AppHandler.ServeHTTP`, `addChainInternal`, `getSTH`,
`getSTHConsistency`, `getProofByHash`, `getEntries`, `getEntryAndProof`, `rpcGetLeavesByRange`, `rpcGetEntryAndProof`,
`logInfo.getSTH` (handlers.go) and `getSignedLogRoot`, `LogSTHGetter.GetSTH` (sth.go): the order of the tests, the
status each one returns, whether an error accompanies it, where the backend call and the SCT issuance stand among them.
The theorems below say that `CTV.Model.Faults` — over which every C08 theorem is proved — computes exactly what
those regenerated bodies compute once their inputs (the facts tested) are read off the model's request and reply.
A handler edit that reorders tests, changes a status, drops a test or moves the RPC/SCT point breaks one of them.

Instantiation: the JSON encoder and the response writer do not fail (`marshalFails = writeFails = false`); the
failing case is covered by the `*_err_iff` theorems (second conjunct): such a failure always returns an error.
Each endpoint has one theorem per reply the backend can give: an error (`*_tie_err`) or the reply type of the RPC it makes.
-/
set_option linter.unusedSimpArgs false
set_option linter.unusedVariables false
namespace C08
open CTV.Model CTV.Model.Faults

def rootBad (r : Root) : Bool := !r.present || !r.decodes
def out3 (x : Nat × Bool × Bool) : Outcome := { status := x.1, rpc := x.2.2 }
/-- (status, error returned, backend called, SCT recorded as issued): the response carries an SCT when no error is returned -/
def out4 (x : Nat × Bool × Bool × Bool) : Outcome := { status := x.1, rpc := x.2.2.1, sct := x.2.2.2 && !x.2.1 }

/-! ## add-chain / add-pre-chain -/

theorem addChain_queue (bo co bu so rn qn ln d nt : Bool) :
    (if !bo then ({ status := 400 } : Outcome) else if !co then { status := 400 } else if !bu then { status := 500 }
      else respondQueue { bodyOk := bo, chainOk := co, buildOk := bu, signOk := so } rn qn ln d nt) =
    out4 (Gen.addChainInternal (!bo) (!co) false (!bu) false 0 rn qn ln (!d) (!nt) (!so) false false) := by
  revert bo co bu so rn qn ln d nt; decide

theorem addChain_err (bo co bu so : Bool) (m : Nat) :
    (if !bo then ({ status := 400 } : Outcome) else if !co then { status := 400 } else if !bu then { status := 500 }
      else { status := m, rpc := true }) =
    out4 (Gen.addChainInternal (!bo) (!co) false (!bu) true m false false false false false (!so) false false) := by
  cases bo <;> cases co <;> cases bu <;> simp [Gen.addChainInternal_eq_spec, Spec.addChainInternal, out4]
theorem addChain_tie_q (cfg : Cfg) (q : Req) (rn qn ln d nt : Bool) :
    handler cfg .addChain q (.queue rn qn ln d nt) =
      out4 (Gen.addChainInternal (!q.bodyOk) (!q.chainOk) false (!q.buildOk) false 0 rn qn ln (!d) (!nt) (!q.signOk) false false) := by
  rw [← addChain_queue]
  rcases q with ⟨mo, fo, p1, p2, ho, bo, co, bu, so⟩
  simp only [handler, pre]
  cases bo <;> cases co <;> cases bu <;> simp [respond, respondQueue]
theorem addChain_tie_e (cfg : Cfg) (q : Req) (e : BErr) :
    handler cfg .addChain q (.err e) =
      out4 (Gen.addChainInternal (!q.bodyOk) (!q.chainOk) false (!q.buildOk) true (toHTTPStatus cfg e) false false false false false (!q.signOk) false false) := by
  rw [← addChain_err]
  rcases q with ⟨mo, fo, p1, p2, ho, bo, co, bu, so⟩
  simp only [handler, pre]
  cases bo <;> cases co <;> cases bu <;> simp [respond, respondQueue]
theorem addPreChain_tie_q (cfg : Cfg) (q : Req) (rn qn ln d nt : Bool) :
    handler cfg .addPreChain q (.queue rn qn ln d nt) = handler cfg .addChain q (.queue rn qn ln d nt) := rfl
theorem addPreChain_tie_e (cfg : Cfg) (q : Req) (e : BErr) :
    handler cfg .addPreChain q (.err e) = handler cfg .addChain q (.err e) := rfl

/-- what `Req.bodyOk` folds: the body was read, is ONE well-formed JSON document (`json.Unmarshal` of the whole body — a decoder
that stops after the first value would change the regenerated unit) and carries a non-empty chain -/
theorem bodyOk_means (readFails jsonBad : Bool) (chainLen : Int) :
    Gen.parseBodyAsJSONChain readFails jsonBad chainLen = .ok ↔ (readFails = false ∧ jsonBad = false ∧ chainLen ≠ 0) := by
  simp only [Gen.parseBodyAsJSONChain_eq_spec, Spec.parseBodyAsJSONChain]
  cases readFails <;> cases jsonBad <;> by_cases h : chainLen = 0 <;> simp [h]

/-- what `Req.chainOk` folds (besides `MerkleTreeLeafFromChain`): the chain validates, the poison test does not fail, and the
kind of the leaf is the one the endpoint expects -/
theorem chainOk_means (validateFails precertTestFails isPrecert expecting : Bool) :
    Gen.verifyAddChain validateFails precertTestFails isPrecert expecting = .ok ↔
      (validateFails = false ∧ precertTestFails = false ∧ isPrecert = expecting) := by
  simp only [Gen.verifyAddChain_eq_spec, Spec.verifyAddChain]
  cases validateFails <;> cases precertTestFails <;> cases isPrecert <;> cases expecting <;> simp

/-- the SCT is recorded as issued strictly after every check on the reply and on the signer has passed; the backend is
called exactly when the request has been accepted; a success response always carries an SCT -/
theorem addChain_order (b c l u r : Bool) (m : Nat) (rn qn ln lu tr sf mf wf : Bool)
    (o : Nat × Bool × Bool × Bool) (ho : o = Gen.addChainInternal b c l u r m rn qn ln lu tr sf mf wf) :
    (o.2.2.2 = true → b = false ∧ c = false ∧ l = false ∧ u = false ∧ r = false ∧ rn = false ∧ qn = false ∧ ln = false ∧
        lu = false ∧ tr = false ∧ sf = false ∧ mf = false ∧ o.2.2.1 = true) ∧
    (o.2.2.1 = true ↔ (b = false ∧ c = false ∧ l = false ∧ u = false)) ∧
    (o.1 = 200 ∧ o.2.1 = false → o.2.2.2 = true) := by
  subst ho
  cases b <;> simp [Gen.addChainInternal_eq_spec, Spec.addChainInternal]
  cases c <;> simp
  cases l <;> simp
  cases u <;> simp
  cases r <;> simp
  cases rn <;> simp
  cases qn <;> simp
  cases ln <;> simp
  cases lu <;> simp
  cases tr <;> simp
  cases sf <;> simp
  cases mf <;> simp
  cases wf <;> simp

theorem addChain_err_iff (b c l u r : Bool) (m : Nat) (rn qn ln lu tr sf mf wf : Bool) (hm : m ≠ 200)
    (o : Nat × Bool × Bool × Bool) (ho : o = Gen.addChainInternal b c l u r m rn qn ln lu tr sf mf wf) :
    (o.2.1 = true ↔ o.1 ≠ 200) ∧ (wf = true → o.2.1 = true) := by
  subst ho
  cases b <;> simp [Gen.addChainInternal_eq_spec, Spec.addChainInternal]
  cases c <;> simp
  cases l <;> simp
  cases u <;> simp
  cases r <;> simp [hm]
  cases rn <;> simp
  cases qn <;> simp
  cases ln <;> simp
  cases lu <;> simp
  cases tr <;> simp
  cases sf <;> simp
  cases mf <;> simp
  cases wf <;> simp
/-! ## get-sth -/

/-- `li.getSTH`'s error, composed from the three regenerated functions it runs through; `.passthrough` = the backend's own error -/
def sthKind (root : ErrKind × Bool) (signOk : Bool) : ErrKind × Bool :=
  let k1 := root.1
  let k2 := Gen.logSTHGetterGetSTH (k1 != .ok) (!signOk) 1
  let k2' := if k2 = .passthrough then k1 else k2
  let k3 := Gen.logInfoGetSTH (k2' != .ok)
  (if k3 = .passthrough then k2' else k3, root.2)

def sthOutcome (cfg : Cfg) (k : ErrKind × Bool) (backend : Nat) : Outcome :=
  let mapped := match k.1 with
    | .passthrough => backend
    | _ => toHTTPStatus cfg .plain
  { status := (Gen.getSTHHandler (k.1 != .ok) mapped false).1, rpc := k.2 }

theorem getSTH_tie_sth (cfg : Cfg) (q : Req) (r : Root) :
    handler cfg .getSTH q (.sth r) =
      sthOutcome cfg (sthKind (Gen.getSignedLogRoot false false false (!r.present) (!r.decodes) r.hashLen) q.signOk) 0 := by
  rcases r with ⟨p, d, sz, hl⟩
  simp only [handler, pre, respond, respondSth, sthOutcome, sthKind, Gen.getSignedLogRoot_eq_spec, Spec.getSignedLogRoot, Gen.logSTHGetterGetSTH_eq_spec, Spec.logSTHGetterGetSTH, Gen.logInfoGetSTH_eq_spec, Spec.logInfoGetSTH, Gen.getSTHHandler_eq_spec, Spec.getSTHHandler]
  have hi : ((hl : Int) = 32) ↔ hl = 32 := by omega
  cases p <;> cases d <;> cases q.signOk <;> by_cases h : hl = 32 <;> simp [h, hi]

theorem getSTH_tie_err (cfg : Cfg) (q : Req) (e : BErr) :
    handler cfg .getSTH q (.err e) =
      sthOutcome cfg (sthKind (Gen.getSignedLogRoot false false true false false 32) q.signOk) (toHTTPStatus cfg e) := by
  simp [handler, pre, respond, sthOutcome, sthKind, Gen.getSignedLogRoot_eq_spec, Spec.getSignedLogRoot, Gen.logSTHGetterGetSTH_eq_spec, Spec.logSTHGetterGetSTH, Gen.logInfoGetSTH_eq_spec, Spec.logInfoGetSTH, Gen.getSTHHandler_eq_spec, Spec.getSTHHandler]
/-- a mirror log's STH getter hands the backend's (and the STH storage's) error on unchanged, so `toHTTPStatus` still sees
the gRPC code: quota, unavailability and timeouts keep their 429 / 503 / 504 on mirrors as well -/
theorem mirror_getSTH_passthrough (rootFails storeFails : Bool) :
    Gen.mirrorSTHGetterGetSTH rootFails storeFails =
      if rootFails || storeFails then ErrKind.passthrough else ErrKind.ok := by
  cases rootFails <;> cases storeFails <;> rfl

/-- `checkAuditPath` (regenerated loop, test `len(node) != sha256.Size`) is the model's `hashesOk` -/
theorem hashesOk_is_checkAuditPath (ls : List Nat) : hashesOk ls = Gen.checkAuditPath (ls.any (· != 32)) := by
  simp only [hashesOk, Gen.checkAuditPath_eq_spec, Spec.checkAuditPath]
  induction ls with
  | nil => rfl
  | cons x xs ih => by_cases h : x = 32 <;> simp_all [List.all_cons, List.any_cons]

/-! ## get-sth-consistency -/

def parseCons (q : Req) : Option (Int × Int) :=
  if (q.p1 != "" && (parseInt64 q.p1).isNone) || (q.p2 != "" && (parseInt64 q.p2).isNone) then none
  else Gen.parseGetSTHConsistencyRange (q.p1 == "") (q.p2 == "") ((parseInt64 q.p1).getD 0) ((parseInt64 q.p2).getD 0)

theorem pre_cons (cfg : Cfg) (q : Req) :
    pre cfg .getSTHCons q = match parseCons q with
      | none => .inl 400
      | some (f, s) => if f = 0 then .inl 200 else .inr (.cons f s) := by
  simp only [pre, parseCons]
  split <;> rfl

theorem getSTHCons_tie_cons (cfg : Cfg) (q : Req) (r : Root) (pp : Bool) (hl : List Nat) :
    handler cfg .getSTHCons q (.cons r pp hl) =
      out3 (Gen.getSTHConsistency (parseCons q).isNone ((parseCons q).getD (0, 0)).1 ((parseCons q).getD (0, 0)).2
        false 0 (rootBad r) r.size (!pp) (hashesOk hl) false false) := by
  simp only [handler, pre_cons]
  rcases hp : parseCons q with _ | ⟨f, s⟩
  · simp [Gen.getSTHConsistency_eq_spec, Spec.getSTHConsistency, out3]
  · by_cases hf : f = 0
    · simp [hf, Gen.getSTHConsistency_eq_spec, Spec.getSTHConsistency, out3]
    · simp only [hf, if_false, respond, respondCons, Gen.getSTHConsistency_eq_spec, Spec.getSTHConsistency, out3, rootBad, Option.isNone_some, Option.getD_some]
      rcases r with ⟨p, d, sz, hh⟩
      cases p <;> cases d <;> cases pp <;> cases hashesOk hl <;> simp [hf] <;> split <;> simp_all

theorem getSTHCons_tie_err (cfg : Cfg) (q : Req) (e : BErr) :
    handler cfg .getSTHCons q (.err e) =
      out3 (Gen.getSTHConsistency (parseCons q).isNone ((parseCons q).getD (0, 0)).1 ((parseCons q).getD (0, 0)).2
        true (toHTTPStatus cfg e) false 0 false true false false) := by
  simp only [handler, pre_cons]
  rcases hp : parseCons q with _ | ⟨f, s⟩
  · simp [Gen.getSTHConsistency_eq_spec, Spec.getSTHConsistency, out3]
  · by_cases hf : f = 0 <;> simp [hf, Gen.getSTHConsistency_eq_spec, Spec.getSTHConsistency, out3, respond]
/-! ## get-proof-by-hash, get-entries, get-entry-and-proof -/

/-- `hashOk` folds the two tests on the `hash` parameter (non-empty; base64) into one fact -/
def hashLenOf (q : Req) : Int := if q.hashOk then 1 else 0

theorem getProofByHash_tie_proofs (cfg : Cfg) (q : Req) (r : Root) (ps : List (List Nat)) :
    handler cfg .getProofByHash q (.proofs r ps) =
      out3 (Gen.getProofByHash (hashLenOf q) false (parseInt64 q.p1).isNone ((parseInt64 q.p1).getD 0)
        false 0 (rootBad r) r.size ps.length (hashesOk (ps.headD [])) false false) := by
  simp only [handler, pre, hashLenOf]
  rcases r with ⟨p, d, sz, hh⟩
  cases q.hashOk <;> simp [Gen.getProofByHash_eq_spec, Spec.getProofByHash, out3]
  rcases parseInt64 q.p1 with _ | ts <;> simp
  by_cases h1 : ts < 1 <;> simp [h1, respond, respondProofs, rootBad]
  rcases ps with _ | ⟨hd, tl⟩ <;> cases p <;> cases d <;> simp <;> by_cases hk : hashesOk hd = true <;> simp [hk] <;> split <;> simp_all

theorem getProofByHash_tie_err (cfg : Cfg) (q : Req) (e : BErr) :
    handler cfg .getProofByHash q (.err e) =
      out3 (Gen.getProofByHash (hashLenOf q) false (parseInt64 q.p1).isNone ((parseInt64 q.p1).getD 0)
        true (toHTTPStatus cfg e) false 0 1 true false false) := by
  simp only [handler, pre, hashLenOf]
  cases q.hashOk <;> simp [Gen.getProofByHash_eq_spec, Spec.getProofByHash, out3]
  rcases parseInt64 q.p1 with _ | ts <;> simp
  by_cases h1 : ts < 1 <;> simp [h1, respond]

def parseEntries (cfg : Cfg) (q : Req) : Option (Int × Int) :=
  match parseInt64 q.p1, parseInt64 q.p2 with
  | some s, some e => Gen.parseGetEntriesRange s e cfg.max cfg.align
  | _, _ => none

theorem pre_entries (cfg : Cfg) (q : Req) :
    pre cfg .getEntries q = match parseEntries cfg q with
      | none => .inl 400
      | some (s, e) => .inr (.leaves s (Gen.getEntriesCount s e)) := by
  simp only [pre, parseEntries]
  rcases parseInt64 q.p1 with _ | s <;> rcases parseInt64 q.p2 with _ | e <;> rfl

theorem getEntries_tie_leaves (cfg : Cfg) (q : Req) (r : Root) (fixOk : Bool) (idxs : List Int) :
    handler cfg .getEntries q (.leaves r fixOk idxs) =
      let p := parseEntries cfg q
      let rpcSt := Gen.rpcGetLeavesByRange false 0 (!fixOk)
      out3 (Gen.getEntries p.isNone (p.getD (0, 0)).1 (p.getD (0, 0)).2 rpcSt.isSome (rpcSt.getD 0)
        (rootBad r) r.size idxs.length (!indicesOk (p.getD (0, 0)).1 idxs) false false false) := by
  simp only [handler, pre_entries]
  rcases hp : parseEntries cfg q with _ | ⟨s, e⟩
  · simp [Gen.getEntries_eq_spec, Spec.getEntries, out3]
  · rcases r with ⟨rp, rd, sz, hh⟩
    simp only [respond, respondLeaves, Gen.getEntries_eq_spec, Spec.getEntries, Gen.rpcGetLeavesByRange_eq_spec, Spec.rpcGetLeavesByRange, Gen.getEntriesCount, out3, rootBad, Option.isNone_some, Option.getD_some]
    have hw : I64.wrap64 (I64.sub (I64.add e 1) s) = I64.sub (I64.add e 1) s := I64.wrap64_id (I64.wrap64_inRange _)
    cases fixOk <;> cases rp <;> cases rd <;> simp [hw] <;> by_cases hk : indicesOk s idxs = true <;> simp [hk] <;> (repeat' split) <;> simp_all

theorem getEntries_tie_err (cfg : Cfg) (q : Req) (e : BErr) :
    handler cfg .getEntries q (.err e) =
      let p := parseEntries cfg q
      let rpcSt := Gen.rpcGetLeavesByRange true (toHTTPStatus cfg e) false
      out3 (Gen.getEntries p.isNone (p.getD (0, 0)).1 (p.getD (0, 0)).2 rpcSt.isSome (rpcSt.getD 0)
        false 1 0 false false false false) := by
  simp only [handler, pre_entries]
  rcases hp : parseEntries cfg q with _ | ⟨s, e⟩ <;> simp [Gen.getEntries_eq_spec, Spec.getEntries, Gen.rpcGetLeavesByRange_eq_spec, Spec.rpcGetLeavesByRange, out3, respond]

def parseEntry (q : Req) : Option (Int × Int) :=
  match parseInt64 q.p1, parseInt64 q.p2 with
  | some li, some ts => Gen.parseGetEntryAndProofParams li ts
  | _, _ => none

theorem pre_entry (cfg : Cfg) (q : Req) :
    pre cfg .getEntryAndProof q = match parseEntry q with
      | none => .inl 400
      | some (li, ts) => .inr (.entry li ts) := by
  simp only [pre, parseEntry]
  rcases parseInt64 q.p1 with _ | s <;> rcases parseInt64 q.p2 with _ | e <;> rfl

theorem getEntryAndProof_tie_entry (cfg : Cfg) (q : Req) (r : Root) (fixOk leafPresent : Bool) (lvl : Nat) (pp : Bool) (nh : Nat) :
    handler cfg .getEntryAndProof q (.entry r fixOk leafPresent lvl pp nh) =
      let p := parseEntry q
      let rpcSt := Gen.rpcGetEntryAndProof false 0 (!fixOk)
      out3 (Gen.getEntryAndProof p.isNone (p.getD (0, 0)).1 (p.getD (0, 0)).2 rpcSt.isSome (rpcSt.getD 0)
        (rootBad r) r.size (!leafPresent) lvl (!pp) nh false false) := by
  simp only [handler, pre_entry]
  rcases hp : parseEntry q with _ | ⟨li, ts⟩
  · simp [Gen.getEntryAndProof_eq_spec, Spec.getEntryAndProof, out3]
  · rcases r with ⟨rp, rd, sz, hh⟩
    simp only [respond, respondEntry, Gen.getEntryAndProof_eq_spec, Spec.getEntryAndProof, Gen.rpcGetEntryAndProof_eq_spec, Spec.rpcGetEntryAndProof, out3, rootBad, Option.isNone_some, Option.getD_some]
    cases fixOk <;> cases rp <;> cases rd <;> cases leafPresent <;> cases pp <;> simp <;> (repeat' split) <;> simp_all <;> omega

theorem getEntryAndProof_tie_err (cfg : Cfg) (q : Req) (e : BErr) :
    handler cfg .getEntryAndProof q (.err e) =
      let p := parseEntry q
      let rpcSt := Gen.rpcGetEntryAndProof true (toHTTPStatus cfg e) false
      out3 (Gen.getEntryAndProof p.isNone (p.getD (0, 0)).1 (p.getD (0, 0)).2 rpcSt.isSome (rpcSt.getD 0)
        false 0 false 1 false 1 false false) := by
  simp only [handler, pre_entry]
  rcases hp : parseEntry q with _ | ⟨li, ts⟩ <;> simp [Gen.getEntryAndProof_eq_spec, Spec.getEntryAndProof, Gen.rpcGetEntryAndProof_eq_spec, Spec.rpcGetEntryAndProof, out3, respond]
/-! ## `AppHandler.ServeHTTP`, and: a handler returns an error exactly when its status is not 200 -/
def seen (x : Int × Bool) (handlerStatus : Nat) : Nat := if x.1 = 0 then handlerStatus else x.1.toNat

theorem serve_tie (cfg : Cfg) (ep : Ep) (q : Req) (reply : Reply) :
    let h := handler cfg ep q reply
    let x := Gen.serveHTTP (!q.methodOk) (isGet ep) (!q.formOk) (h.status != 200) h.status
    (serve cfg ep q reply).status = seen x h.status ∧
    ((serve cfg ep q reply).rpc = (x.2 && h.rpc)) ∧ ((serve cfg ep q reply).sct = (x.2 && h.sct)) := by
  simp only [serve, Gen.serveHTTP_eq_spec, Spec.serveHTTP, seen]
  cases q.methodOk <;> cases isGet ep <;> cases q.formOk <;> simp <;>
  by_cases h2 : (handler cfg ep q reply).status = 200 <;> simp [h2]



theorem getSTH_err_iff (a : Bool) (m : Nat) (w : Bool) (hm : m ≠ 200) (o : Nat × Bool) (ho : o = Gen.getSTHHandler a m w) :
    (o.2 = true ↔ o.1 ≠ 200) ∧ (w = true → o.2 = true) := by
  simp only [Gen.getSTHHandler_eq_spec, Spec.getSTHHandler] at ho
  (repeat' split at ho) <;> subst ho <;> simp_all

theorem getSTHConsistency_err_iff (pf : Bool) (f s : Int) (r : Bool) (m : Nat) (rb : Bool) (rs : Int) (pn po mf wf : Bool) (hm : m ≠ 200)
    (o : Nat × Bool × Bool) (ho : o = Gen.getSTHConsistency pf f s r m rb rs pn po mf wf) :
    (o.2.1 = true ↔ o.1 ≠ 200) ∧ (mf = true ∨ wf = true → o.2.1 = true) := by
  simp only [Gen.getSTHConsistency_eq_spec, Spec.getSTHConsistency] at ho
  (repeat' split at ho) <;> subst ho <;> simp_all

theorem getProofByHash_err_iff (hl : Int) (hb tb : Bool) (ts : Int) (r : Bool) (m : Nat) (rb : Bool) (rs np : Int) (po mf wf : Bool) (hm : m ≠ 200)
    (o : Nat × Bool × Bool) (ho : o = Gen.getProofByHash hl hb tb ts r m rb rs np po mf wf) :
    (o.2.1 = true ↔ o.1 ≠ 200) ∧ (mf = true ∨ wf = true → o.2.1 = true) := by
  simp only [Gen.getProofByHash_eq_spec, Spec.getProofByHash] at ho
  (repeat' split at ho) <;> subst ho <;> simp_all

theorem getEntries_err_iff (pf : Bool) (s e : Int) (r : Bool) (m : Nat) (rb : Bool) (rs nl : Int) (mi ld mf wf : Bool) (hm : m ≠ 200)
    (o : Nat × Bool × Bool) (ho : o = Gen.getEntries pf s e r m rb rs nl mi ld mf wf) :
    (o.2.1 = true ↔ o.1 ≠ 200) ∧ (mf = true ∨ wf = true → o.2.1 = true) := by
  simp only [Gen.getEntries_eq_spec, Spec.getEntries] at ho
  (repeat' split at ho) <;> subst ho <;> simp_all

theorem getEntryAndProof_err_iff (pf : Bool) (li ts : Int) (r : Bool) (m : Nat) (rb : Bool) (rs : Int) (ln : Bool) (lv : Int) (pn : Bool) (nh : Int)
    (mf wf : Bool) (hm : m ≠ 200) (o : Nat × Bool × Bool) (ho : o = Gen.getEntryAndProof pf li ts r m rb rs ln lv pn nh mf wf) :
    (o.2.1 = true ↔ o.1 ≠ 200) ∧ (mf = true ∨ wf = true → o.2.1 = true) := by
  simp only [Gen.getEntryAndProof_eq_spec, Spec.getEntryAndProof] at ho
  (repeat' split at ho) <;> subst ho <;> simp_all
end C08
