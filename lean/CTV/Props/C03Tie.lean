import CTV.Model.Tbs
import CTV.Gen.TbsBodies
/-!
# C03: the hand-written leaf builders follow the bodies regenerated from serialization.go

`Gen.mtlFromChain` and `Gen.mtlForEmbedded` are the whole bodies of `ct.MerkleTreeLeafFromChain` and `ct.MerkleTreeLeafForEmbeddedSCT`,
regenerated on every run path by path (helpers inlined, locals resolved, struct construction by literal or by field assignment alike) as functions of the facts they test (`n = len(chain)`, the entry type, `IsPreIssuer(chain[1])`,
whether the TBS transformation fails; entry type 0 = X509, 1 = precert), returning: 1/0 = a leaf / nothing is handed back, whether an error accompanies it, the kind of entry
filled in (1 X509, 2 precert), the chain index of the certificate whose key is hashed, and the chain index of the certificate passed to `BuildPrecertTBS` as pre-issuer (0 = nil).
The theorems say that `leafFromPrecertChain` / `leafForEmbeddedSCT` (used by every leaf theorem of C03) decide exactly as those bodies do on the
facts the model computes. A reordered length check, another chain index, a pre-issuer passed on in the wrong case — each changes the
regenerated body and breaks one of these equalities.
-/
set_option linter.unusedSimpArgs false
namespace C03Tie
open CTV CTV.Tbs

/-- precert entries: same verdict, the precert kind, the key of `chain[1]` (direct) or `chain[2]` (pre-issuer), the TBS from `BuildPrecertTBS`
with the pre-issuer passed on exactly when there is one -/
theorem mtl_tie (tbs : Bytes) (rest : List Bytes) (pre : Option PreIssuer) :
    (match leafFromPrecertChain tbs rest pre with
     | some (b, k) =>
       ∃ idx : Nat, Gen.mtlFromChain (rest.length + 1 : Nat) 1 pre.isSome (buildPrecertTBS tbs pre).isNone = (1, false, 2, (idx : Int), (if pre.isSome then 1 else 0)) ∧
         1 ≤ idx ∧ rest[idx - 1]? = some k ∧ buildPrecertTBS tbs pre = some b
     | none => (Gen.mtlFromChain (rest.length + 1 : Nat) 1 pre.isSome (buildPrecertTBS tbs pre).isNone).1 = 0 ∧
         (Gen.mtlFromChain (rest.length + 1 : Nat) 1 pre.isSome (buildPrecertTBS tbs pre).isNone).2.1 = true) := by
  unfold Gen.mtlFromChain leafFromPrecertChain
  cases rest with
  | nil => simp
  | cons k1 r =>
    cases pre with
    | none =>
      cases hb : buildPrecertTBS tbs none with
      | none => simp [hb]
      | some b =>
        simp only [hb, Option.map_some]
        refine ⟨1, ?_, Nat.le_refl 1, by simp, trivial⟩
        have e2 : (2 : Int) ≤ (r.length : Int) + 1 + 1 := by omega
        have e0 : (0 : Int) < (r.length : Int) + 1 + 1 := by omega
        simp [e0, e2]
    | some p =>
      cases r with
      | nil => simp
      | cons k2 r2 =>
        cases hb : buildPrecertTBS tbs (some p) with
        | none => simp [hb]
        | some b =>
          simp only [hb, Option.map_some]
          refine ⟨2, ?_, by omega, by simp, trivial⟩
          have f3 : (3 : Int) ≤ (r2.length : Int) + 1 + 1 + 1 := by omega
          have f2 : (2 : Int) ≤ (r2.length : Int) + 1 + 1 + 1 := by omega
          have f0 : (0 : Int) < (r2.length : Int) + 1 + 1 + 1 := by omega
          simp [f0, f2, f3]

/-- an X509 entry (type 0) needs nothing but a non-empty chain; any other entry type is refused; an empty chain is refused -/
theorem mtl_other (n : Nat) (etype : Int) (isPre buildFails : Bool) (hn : n ≠ 0) (he : etype ≠ 0 ∧ etype ≠ 1) :
    Gen.mtlFromChain n 0 isPre buildFails = (1, false, 1, 0, 0) ∧
    (Gen.mtlFromChain n etype isPre buildFails).1 = 0 ∧ (Gen.mtlFromChain n etype isPre buildFails).2.1 = true ∧
    (Gen.mtlFromChain 0 0 isPre buildFails).2.1 = true := by
  unfold Gen.mtlFromChain
  have h0 : (0 : Int) < (n : Int) := by omega
  simp [hn, he.1, he.2, h0]

theorem emb_tie (tbs : Bytes) (rest : List Bytes) :
    (match leafForEmbeddedSCT tbs rest with
     | some (b, k) => Gen.mtlForEmbedded (rest.length + 1 : Nat) (removeExt sctOid tbs).isNone = (1, false, 1) ∧ rest[0]? = some k ∧ removeExt sctOid tbs = some b
     | none => (Gen.mtlForEmbedded (rest.length + 1 : Nat) (removeExt sctOid tbs).isNone).1 = 0 ∧
         (Gen.mtlForEmbedded (rest.length + 1 : Nat) (removeExt sctOid tbs).isNone).2.1 = true) := by
  unfold Gen.mtlForEmbedded leafForEmbeddedSCT
  cases rest with
  | nil => simp
  | cons k1 r =>
    have e2 : (2 : Int) ≤ (r.length : Int) + 1 + 1 := by omega
    cases hb : removeExt sctOid tbs with
    | none => simp [hb]
    | some b => simp [hb, e2]

example : Gen.mtlFromChain 3 1 true false = (1, false, 2, 2, 1) ∧ (Gen.mtlFromChain 2 1 true false).2.1 = true ∧
    Gen.mtlFromChain 2 1 false false = (1, false, 2, 1, 0) ∧ (Gen.mtlFromChain 1 1 false false).2.1 = true ∧
    Gen.mtlFromChain 1 0 false false = (1, false, 1, 0, 0) ∧ (Gen.mtlFromChain 5 2 false false).2.1 = true ∧
    Gen.mtlForEmbedded 2 false = (1, false, 1) ∧ (Gen.mtlForEmbedded 1 false).2.1 = true := by
  simp [Gen.mtlFromChain, Gen.mtlForEmbedded]

end C03Tie
