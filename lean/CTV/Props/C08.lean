import CTV.Model.Faults
import CTV.Model.HandlerSpec
/-!
# C08 — backend faults and bad requests never surface as success

Theorems over `CTV.Model.Faults` (hand model of the handlers, tied to the code by the exhaustive fault
matrix of the correspondence run) whose status table `Gen.codeToStatus` and parameter kernels
`Gen.parseGet*` are regenerated from trillian/ctfe/handlers.go on every run.
-/
set_option linter.unusedSimpArgs false
namespace C08
open CTV.Model CTV.Model.Faults

/-! ## the gRPC-code → HTTP-status table (regenerated) -/

theorem lookup_none_of_keys_lt (l : List (Nat × Nat)) (c n : Nat) (h : ∀ p ∈ l, p.1 < n) (hc : n ≤ c) :
    l.lookup c = none := by
  induction l with
  | nil => rfl
  | cons p l ih =>
    obtain ⟨k, v⟩ := p
    have hk : k < n := h (k, v) (by simp)
    have : (c == k) = false := by simp; omega
    simp only [List.lookup, this]
    exact ih (fun p hp => h p (by simp [hp]))

/-- every code outside 0..16 (and every code the switch does not list) maps to the default -/
theorem code_ge17 (c : Nat) (h : 17 ≤ c) : lookupCode c = Gen.codeToStatusDefault := by
  unfold lookupCode
  rw [lookup_none_of_keys_lt Gen.codeToStatus c 17 (by decide) h]; rfl

/-- **Status class of a backend error**, for every gRPC code that an error can carry (`c ≠ 0`: `grpc/status` cannot
wrap `codes.OK` in a non-nil error) and for non-status errors: caller-caused codes give their 4xx, quota exhaustion
429, unavailability 503, cancellation/timeouts 504, everything else 5xx — never 200. -/
theorem status_class (c : Nat) (hc : c ≠ 0) :
    let s := lookupCode c
    (c = 3 ∨ c = 11 ∨ c = 6 → s = 400) ∧ (c = 5 → s = 404) ∧ (c = 7 → s = 403) ∧ (c = 16 → s = 401) ∧
    (c = 9 → s = 412) ∧ (c = 10 → s = 409) ∧
    (c = 8 → s = 429) ∧ (c = 14 → s = 503) ∧ (c = 1 ∨ c = 4 → s = 504) ∧
    (c ∉ [3, 11, 6, 5, 7, 16, 9, 10, 8, 14, 1, 4] → 500 ≤ s ∧ s ≤ 599) ∧
    s ≠ 200 ∧ 400 ≤ s ∧ s ≤ 599 := by
  intro s
  by_cases h : c < 17
  · have : ∀ c : Fin 17, c.val ≠ 0 →
        (c.val = 3 ∨ c.val = 11 ∨ c.val = 6 → lookupCode c.val = 400) ∧ (c.val = 5 → lookupCode c.val = 404) ∧
        (c.val = 7 → lookupCode c.val = 403) ∧ (c.val = 16 → lookupCode c.val = 401) ∧
        (c.val = 9 → lookupCode c.val = 412) ∧ (c.val = 10 → lookupCode c.val = 409) ∧
        (c.val = 8 → lookupCode c.val = 429) ∧ (c.val = 14 → lookupCode c.val = 503) ∧
        (c.val = 1 ∨ c.val = 4 → lookupCode c.val = 504) ∧
        (c.val ∉ [3, 11, 6, 5, 7, 16, 9, 10, 8, 14, 1, 4] → 500 ≤ lookupCode c.val ∧ lookupCode c.val ≤ 599) ∧
        lookupCode c.val ≠ 200 ∧ 400 ≤ lookupCode c.val ∧ lookupCode c.val ≤ 599 := by decide
    exact this ⟨c, h⟩ hc
  · have h17 : 17 ≤ c := by omega
    have hs : s = Gen.codeToStatusDefault := code_ge17 c h17
    have hd : Gen.codeToStatusDefault = 500 := by decide
    rw [hs, hd]
    refine ⟨?_, ?_, ?_, ?_, ?_, ?_, ?_, ?_, ?_, ?_, ?_, ?_, ?_⟩ <;> omega

/-- what the table does for `codes.OK` (excluded above): it would answer 200 -/
theorem code0_gives_200 : lookupCode 0 = 200 := by decide

/-- a backend error (no `ErrorMapper`) never yields 200 -/
theorem err_status_ne_200 (cfg : Cfg) (e : BErr) (hm : cfg.mapper e = none) (he : e ≠ .code 0) :
    toHTTPStatus cfg e ≠ 200 ∧ 400 ≤ toHTTPStatus cfg e := by
  unfold toHTTPStatus
  rw [hm]
  cases e with
  | plain => simp
  | code c =>
    have hc : c ≠ 0 := fun h => he (by rw [h])
    have := status_class c hc
    simp only at this ⊢
    omega

/-! ## faults never surface as success -/

/-- the reply is one of the faults the property lists, for the RPC made with parameters `p` -/
def isFault : Params → Reply → Bool
  | _, .err e => e != .code 0
  | .queue, .queue rspNil qlNil leafNil dec noTrail => rspNil || qlNil || leafNil || !dec || !noTrail
  | .sth, .sth r => !r.present || !r.decodes || r.hashLen != 32
  | .cons _ second, .cons r pp hl =>
    !r.present || !r.decodes || decide ((r.size : Int) < U64.wrap second) || !pp || !hashesOk hl
  | .proofs ts, .proofs r ps =>
    !r.present || !r.decodes || decide ((r.size : Int) < U64.wrap ts) || ps.isEmpty || !(hashesOk (ps.headD []))
  | .leaves s c, .leaves r fixOk idxs =>
    !fixOk || !r.present || !r.decodes || decide ((r.size : Int) ≤ U64.wrap s) || decide ((idxs.length : Int) > c) || !indicesOk s idxs
  | .entry _ ts, .entry r fixOk leafPresent lvl pp nh =>
    !fixOk || !r.present || !r.decodes || decide ((r.size : Int) < U64.wrap ts) || !leafPresent || lvl == 0 || !pp ||
      (decide (ts > 1) && nh == 0)
  | _, _ => true    -- the reply of a different RPC

/-- **fault_never_200** (response stage). For every RPC parameters, every request and every faulty reply the answer is not
200 and no SCT is issued. Stated with no `ErrorMapper`; with one, it holds for every error the mapper does not send to 200. -/
theorem respond_fault (cfg : Cfg) (q : Req) (p : Params) (reply : Reply)
    (hm : ∀ e, cfg.mapper e = none) (hf : isFault p reply = true) :
    (respond cfg q p reply).status ≠ 200 ∧ (respond cfg q p reply).sct = false ∧ 400 ≤ (respond cfg q p reply).status := by
  have herr : ∀ e, e ≠ BErr.code 0 → toHTTPStatus cfg e ≠ 200 ∧ 400 ≤ toHTTPStatus cfg e :=
    fun e he => err_status_ne_200 cfg e (hm e) he
  have hplain : toHTTPStatus cfg .plain = 500 := by unfold toHTTPStatus; rw [hm]
  cases reply with
  | err e =>
    have := herr e (by simpa [isFault] using hf)
    cases p <;> simp [respond] <;> exact this
  | queue a b c d e =>
    cases p <;> simp [respond, isFault] at hf ⊢
    unfold respondQueue
    repeat' split
    all_goals simp_all
  | sth r =>
    cases p <;> simp [respond, isFault] at hf ⊢
    unfold respondSth
    split
    · simp [hplain]
    · simp_all
  | cons r pp hl =>
    cases p <;> simp [respond, isFault] at hf ⊢
    unfold respondCons
    repeat' split
    all_goals simp_all
  | proofs r ps =>
    cases p <;> simp [respond, isFault] at hf ⊢
    unfold respondProofs
    repeat' split
    all_goals simp_all
  | leaves r f idxs =>
    cases p <;> simp [respond, isFault] at hf ⊢
    unfold respondLeaves
    repeat' split
    all_goals simp_all
    all_goals omega
  | entry r f lp lvl pp nh =>
    cases p <;> simp [respond, isFault] at hf ⊢
    unfold respondEntry
    repeat' split
    all_goals simp_all

/-! ### instances with a custom `ErrorMapper` -/

/-- **An `ErrorMapper` that declines an error changes nothing**: the front end's own conversion (the gRPC table, 500 for an
error without gRPC status) applies, exactly as on an instance without a mapper. -/
theorem mapper_declined_uses_table (cfg : Cfg) (e : BErr) (h : cfg.mapper e = none) :
    toHTTPStatus cfg e = toHTTPStatus { cfg with mapper := fun _ => none } e := by
  unfold toHTTPStatus
  simp only [h]

/-- the mapper only ever produces error statuses -/
def MapperSane (cfg : Cfg) : Prop := ∀ e s, cfg.mapper e = some s → s ≠ 200 ∧ 400 ≤ s

theorem err_status_ne_200_mapper (cfg : Cfg) (e : BErr) (hm : MapperSane cfg) (he : e ≠ .code 0) :
    toHTTPStatus cfg e ≠ 200 ∧ 400 ≤ toHTTPStatus cfg e := by
  cases h : cfg.mapper e with
  | none => exact err_status_ne_200 cfg e h he
  | some s =>
    have := hm e s h
    unfold toHTTPStatus
    simp only [h]
    exact this

/-- **fault_never_200 with any sane `ErrorMapper`** (response stage): whatever the mapper converts or declines, a faulty
reply is never answered 200 and never yields an SCT. -/
theorem respond_fault_mapper (cfg : Cfg) (q : Req) (p : Params) (reply : Reply)
    (hm : MapperSane cfg) (hf : isFault p reply = true) :
    (respond cfg q p reply).status ≠ 200 ∧ (respond cfg q p reply).sct = false ∧ 400 ≤ (respond cfg q p reply).status := by
  have herr : ∀ e, e ≠ BErr.code 0 → toHTTPStatus cfg e ≠ 200 ∧ 400 ≤ toHTTPStatus cfg e :=
    fun e he => err_status_ne_200_mapper cfg e hm he
  have hplain := herr .plain (by simp)
  cases reply with
  | err e =>
    have := herr e (by simpa [isFault] using hf)
    cases p <;> simp [respond] <;> exact this
  | queue a b c d e =>
    cases p <;> simp [respond, isFault] at hf ⊢
    unfold respondQueue
    repeat' split
    all_goals simp_all
  | sth r =>
    cases p <;> simp [respond, isFault] at hf ⊢
    unfold respondSth
    split
    · simp [hplain]
    · simp_all
  | cons r pp hl =>
    cases p <;> simp [respond, isFault] at hf ⊢
    unfold respondCons
    repeat' split
    all_goals simp_all
  | proofs r ps =>
    cases p <;> simp [respond, isFault] at hf ⊢
    unfold respondProofs
    repeat' split
    all_goals simp_all
  | leaves r f idxs =>
    cases p <;> simp [respond, isFault] at hf ⊢
    unfold respondLeaves
    repeat' split
    all_goals simp_all
    all_goals omega
  | entry r f lp lvl pp nh =>
    cases p <;> simp [respond, isFault] at hf ⊢
    unfold respondEntry
    repeat' split
    all_goals simp_all

/-- the mappers the correspondence harness configures are sane, and each declines something (so the fall-back is exercised) -/
theorem harness_mappers_sane (n : Nat) (cfg : Cfg) (h : cfg.mapper = mapperOf n) : MapperSane cfg := by
  intro e s hs
  rw [h] at hs
  unfold mapperOf at hs
  split at hs <;> simp at hs <;> omega

example : mapperOf 3 (.code 8) = none ∧ mapperOf 3 (.code 5) = some 410 ∧ mapperOf 2 .plain = some 503 := by decide

/-- the fault is "the caller asked beyond the current tree" (the only caller-caused condition a reply can reveal) -/
def beyondTree : Params → Reply → Bool
  | .cons _ second, .cons r _ _ => r.present && r.decodes && decide ((r.size : Int) < U64.wrap second)
  | .proofs ts, .proofs r ps => r.present && r.decodes && (decide ((r.size : Int) < U64.wrap ts) || ps.isEmpty)
  | .leaves s _, .leaves r fixOk _ => fixOk && r.present && r.decodes && decide ((r.size : Int) ≤ U64.wrap s)
  | .entry _ ts, .entry r fixOk _ _ _ _ => fixOk && r.present && r.decodes && decide ((r.size : Int) < U64.wrap ts)
  | _, _ => false

/-- **Status class of a faulty reply (not an RPC error).** Asking beyond the current tree — and a hash the tree does not
contain — is the caller's doing and is answered 4xx (400, or 404 on get-proof-by-hash); every other malformed reply is
answered exactly 500 (with no `ErrorMapper`). Together with `status_class` for RPC errors this pins the class of every fault. -/
theorem fault_status_class (cfg : Cfg) (q : Req) (p : Params) (reply : Reply)
    (hm : ∀ e, cfg.mapper e = none) (hf : isFault p reply = true) (he : ∀ e, reply ≠ .err e) :
    (beyondTree p reply = true → (respond cfg q p reply).status = 400 ∨ (respond cfg q p reply).status = 404) ∧
    (beyondTree p reply = false → (respond cfg q p reply).status = 500) := by
  have hplain : toHTTPStatus cfg .plain = 500 := by unfold toHTTPStatus; rw [hm]
  cases reply with
  | err e => exact absurd rfl (he e)
  | queue a b c d e =>
    cases p <;> simp [respond, isFault, beyondTree] at hf ⊢
    unfold respondQueue
    repeat' split
    all_goals simp_all
  | sth r =>
    cases p <;> simp [respond, isFault, beyondTree] at hf ⊢
    unfold respondSth
    split
    · simp [hplain]
    · simp_all
  | cons r pp hl =>
    cases p <;> simp [respond, isFault, beyondTree] at hf ⊢
    unfold respondCons
    constructor
    · intro hb; repeat' split
      all_goals simp_all
      all_goals (try (rename_i hh; intro h1 h2; rcases hh with hh | hh <;> simp_all))
    · intro hb; repeat' split
      all_goals simp_all
      all_goals omega
  | proofs r ps =>
    cases p <;> simp [respond, isFault, beyondTree] at hf ⊢
    unfold respondProofs
    constructor
    · intro hb; repeat' split
      all_goals simp_all
      all_goals (try (rename_i hh; intro h1 h2; rcases hh with hh | hh <;> simp_all))
    · intro hb; repeat' split
      all_goals simp_all
      all_goals omega
  | leaves r f idxs =>
    cases p <;> simp [respond, isFault, beyondTree] at hf ⊢
    unfold respondLeaves
    constructor
    · intro hb; repeat' split
      all_goals simp_all
      all_goals (try (rename_i hh; intro h1 h2; rcases hh with hh | hh <;> simp_all))
    · intro hb; repeat' split
      all_goals simp_all
      all_goals omega
  | entry r f lp lvl pp nh =>
    cases p <;> simp [respond, isFault, beyondTree] at hf ⊢
    unfold respondEntry
    constructor
    · intro hb; repeat' split
      all_goals simp_all
      all_goals (try (rename_i hh; intro h1 h2; rcases hh with hh | hh <;> simp_all))
    · intro hb; repeat' split
      all_goals simp_all
      all_goals omega

/-- …and conversely a reply that is not a fault is answered 200 when signing works: the check is not vacuous
(the handlers do not reject everything). -/
theorem respond_clean (cfg : Cfg) (q : Req) (p : Params) (reply : Reply) (hs : q.signOk = true)
    (hf : isFault p reply = false) (he : ∀ e, reply ≠ .err e) : (respond cfg q p reply).status = 200 := by
  cases reply with
  | err e => exact absurd rfl (he e)
  | queue a b c d e => cases p <;> simp [respond, isFault] at hf ⊢; unfold respondQueue; simp_all
  | sth r => cases p <;> simp [respond, isFault] at hf ⊢; unfold respondSth; simp_all
  | cons r pp hl => cases p <;> simp [respond, isFault] at hf ⊢; unfold respondCons; (repeat' split) <;> simp_all <;> omega
  | proofs r ps => cases p <;> simp [respond, isFault] at hf ⊢; unfold respondProofs; (repeat' split) <;> simp_all <;> omega
  | leaves r f idxs => cases p <;> simp [respond, isFault] at hf ⊢; unfold respondLeaves; (repeat' split) <;> simp_all <;> omega
  | entry r f lp lvl pp nh => cases p <;> simp [respond, isFault] at hf ⊢; unfold respondEntry; (repeat' split) <;> simp_all <;> omega

/-- **fault_never_200** at the HTTP surface: whenever the request gets as far as the backend (`pre = inr p`) and the reply
is a fault, the response is neither 200 nor carries / records an SCT, for every endpoint. -/
theorem fault_never_200 (cfg : Cfg) (ep : Ep) (q : Req) (reply : Reply) (p : Params)
    (hm : ∀ e, cfg.mapper e = none) (hp : pre cfg ep q = .inr p) (hf : isFault p reply = true) :
    (serve cfg ep q reply).status ≠ 200 ∧ (serve cfg ep q reply).sct = false ∧ 400 ≤ (serve cfg ep q reply).status := by
  unfold serve
  split
  · exact ⟨by decide, rfl, by decide⟩
  split
  · exact ⟨by decide, rfl, by decide⟩
  unfold handler
  rw [hp]
  exact respond_fault cfg q p reply hm hf

/-- **An SCT is issued only on the fully clean submission path** and then the answer is 200. -/
theorem sct_only_on_clean (cfg : Cfg) (ep : Ep) (q : Req) (reply : Reply) (h : (serve cfg ep q reply).sct = true) :
    (ep = .addChain ∨ ep = .addPreChain) ∧ reply = .queue false false false true true ∧ q.signOk = true ∧
    q.bodyOk = true ∧ q.chainOk = true ∧ q.buildOk = true ∧ q.methodOk = true ∧
    (serve cfg ep q reply).status = 200 ∧ (serve cfg ep q reply).rpc = true := by
  unfold serve at h ⊢
  split at h
  · simp at h
  split at h
  · simp at h
  rename_i h1 h2
  simp only [h1, h2, if_false, Bool.false_eq_true]
  unfold handler at h ⊢
  split at h
  · simp at h
  rename_i p hp
  try simp only [hp]
  -- only respondQueue ever sets `sct`
  have key : ∀ p, (respond cfg q p reply).sct = true →
      p = .queue ∧ reply = .queue false false false true true ∧ q.signOk = true ∧ (respond cfg q p reply).status = 200 ∧ (respond cfg q p reply).rpc = true := by
    intro p hs
    cases reply <;> cases p <;> simp [respond] at hs ⊢
    · rename_i a b c d e
      unfold respondQueue at hs ⊢
      cases a <;> cases b <;> cases c <;> cases d <;> cases e <;> cases hq : q.signOk <;> simp [hq] at hs ⊢
    · rename_i r; unfold respondSth at hs; split at hs <;> simp at hs
    · rename_i r pp hl f s; unfold respondCons at hs; (repeat' split at hs) <;> simp at hs
    · rename_i r ps ts; unfold respondProofs at hs; (repeat' split at hs) <;> simp at hs
    · rename_i r f idxs s c; unfold respondLeaves at hs; (repeat' split at hs) <;> simp at hs
    · rename_i r f lp lvl pp nh li ts; unfold respondEntry at hs; (repeat' split at hs) <;> simp at hs
  obtain ⟨hpn, hr, hs, h200, hrpc⟩ := key p h
  subst hpn
  have hep : (ep = .addChain ∨ ep = .addPreChain) ∧ q.bodyOk = true ∧ q.chainOk = true ∧ q.buildOk = true := by
    cases ep <;> simp [pre] at hp ⊢
    · (repeat' split at hp) <;> simp_all
    · (repeat' split at hp) <;> simp_all
    · (repeat' split at hp) <;> simp_all
    · (repeat' split at hp) <;> simp_all
    · (repeat' split at hp) <;> simp_all
    · (repeat' split at hp) <;> simp_all
  exact ⟨hep.1, hr, hs, hep.2.1, hep.2.2.1, hep.2.2.2, by simpa using h1, h200, hrpc⟩

/-! ## bad requests are rejected before any backend call -/

theorem wrong_method (cfg : Cfg) (ep : Ep) (q : Req) (reply : Reply) (h : q.methodOk = false) :
    serve cfg ep q reply = { status := 405 } := by
  unfold serve; simp [h]

theorem bad_form (cfg : Cfg) (ep : Ep) (q : Req) (reply : Reply) (hm : q.methodOk = true) (hg : isGet ep = true) (h : q.formOk = false) :
    serve cfg ep q reply = { status := 400 } := by
  unfold serve; simp [h, hm, hg]

/-- the backend is called only from the response stage -/
theorem rpc_iff_pre (cfg : Cfg) (ep : Ep) (q : Req) (reply : Reply) :
    (serve cfg ep q reply).rpc = true ↔ (q.methodOk = true ∧ (isGet ep = true → q.formOk = true) ∧ ∃ p, pre cfg ep q = .inr p) := by
  have hr : ∀ p, (respond cfg q p reply).rpc = true := by
    intro p
    cases reply <;> cases p <;> simp [respond]
    · unfold respondQueue; (repeat' split) <;> rfl
    · unfold respondSth; (repeat' split) <;> rfl
    · unfold respondCons; (repeat' split) <;> rfl
    · unfold respondProofs; (repeat' split) <;> rfl
    · unfold respondLeaves; (repeat' split) <;> rfl
    · unfold respondEntry; (repeat' split) <;> rfl
  unfold serve
  split
  · rename_i h; simp at h; simp [h]
  split
  · rename_i h1 h2; simp at h1 h2; simp [h2]
  rename_i h1 h2
  simp at h1 h2
  unfold handler
  split
  · rename_i st hp; simp [hp]
  · rename_i p hp; simp [hp, hr p, h1]; exact h2

/-- **bad_request_no_rpc**, parameters: the request reaches the backend exactly for the parameter values the API defines
(everything else was answered by `pre` with a non-RPC status, see `pre_status`). -/
theorem pre_params (cfg : Cfg) (ep : Ep) (q : Req) (p : Params) (h : pre cfg ep q = .inr p) :
    (ep = .getEntries → ∃ s e, parseInt64 q.p1 = some s ∧ parseInt64 q.p2 = some e ∧ 0 ≤ s ∧ s ≤ e ∧
        ∃ e', Gen.parseGetEntriesRange s e cfg.max cfg.align = some (s, e') ∧ p = .leaves s (Gen.getEntriesCount s e')) ∧
    (ep = .getEntryAndProof → ∃ i n, parseInt64 q.p1 = some i ∧ parseInt64 q.p2 = some n ∧ 0 ≤ i ∧ i < n ∧ p = .entry i n) ∧
    (ep = .getSTHCons → ∃ a b, parseInt64 q.p1 = some a ∧ parseInt64 q.p2 = some b ∧ 0 < a ∧ a ≤ b ∧ p = .cons a b) ∧
    (ep = .getProofByHash → q.hashOk = true ∧ ∃ n, parseInt64 q.p1 = some n ∧ 1 ≤ n ∧ p = .proofs n) ∧
    (ep = .addChain ∨ ep = .addPreChain → q.bodyOk = true ∧ q.chainOk = true ∧ q.buildOk = true ∧ p = .queue) := by
  refine ⟨?_, ?_, ?_, ?_, ?_⟩
  · rintro rfl
    simp only [pre] at h
    split at h
    · rename_i s e hs he
      split at h
      · simp at h
      · rename_i s' e' hr
        have hok : (Gen.parseGetEntriesRange s e cfg.max cfg.align).isSome := by rw [hr]; rfl
        have h0 : 0 ≤ s ∧ s ≤ e := by
          rw [Gen.parseGetEntriesRange_eq_spec] at hok
          unfold Spec.parseGetEntriesRange at hok
          by_cases a1 : s < 0 <;> by_cases a2 : e < 0 <;> by_cases a3 : s > e <;> simp [a1, a2, a3] at hok <;> omega
        have hs' : s' = s := by
          rw [Gen.parseGetEntriesRange_eq_spec] at hr
          unfold Spec.parseGetEntriesRange at hr
          repeat (split at hr; · simp at hr)
          simp at hr; exact hr.1.symm
        subst hs'
        simp at h
        exact ⟨s', e, hs, he, h0.1, h0.2, e', hr, h.symm⟩
    · simp at h
  · rintro rfl
    simp only [pre] at h
    split at h
    · rename_i i n hs he
      split at h
      · simp at h
      · rename_i i' n' hr
        rw [Gen.parseGetEntryAndProofParams_eq_spec] at hr
        unfold Spec.parseGetEntryAndProofParams at hr
        repeat (split at hr; · simp at hr)
        rename_i a1 a2 a3
        simp at a1 a2 a3 hr h
        obtain ⟨rfl, rfl⟩ := hr
        exact ⟨i, n, hs, he, by omega, by omega, h.symm⟩
    · simp at h
  · rintro rfl
    simp only [pre] at h
    split at h
    · simp at h
    rename_i hmal
    split at h
    · simp at h
    rename_i first second hp
    split at h
    · simp at h
    rename_i hz
    rw [Gen.parseGetSTHConsistencyRange_eq_spec] at hp
    unfold Spec.parseGetSTHConsistencyRange at hp
    simp only [Bool.or_eq_true, Bool.and_eq_true, bne_iff_ne, ne_eq, Bool.not_eq_true, Option.isNone_iff_eq_none, not_or, not_and] at hmal
    repeat (split at hp; · simp at hp)
    rename_i hm1 hm2 a3 a4
    simp only [Option.some.injEq, Prod.mk.injEq] at hp
    have e1 := hmal.1 (by simpa using hm1)
    have e2 := hmal.2 (by simpa using hm2)
    cases hh1 : parseInt64 q.p1 with
    | none => exact absurd hh1 e1
    | some a =>
      cases hh2 : parseInt64 q.p2 with
      | none => exact absurd hh2 e2
      | some b =>
        rw [hh1, hh2] at hp a3 a4
        simp at hp a3 a4 h
        obtain ⟨rfl, rfl⟩ := hp
        exact ⟨a, b, rfl, rfl, by omega, by omega, h.symm⟩
  · rintro rfl
    simp only [pre] at h
    split at h
    · simp at h
    rename_i hh
    split at h
    · simp at h
    rename_i ts hts
    split at h
    · simp at h
    rename_i h1'
    simp at h
    exact ⟨by simpa using hh, ts, hts, by omega, h.symm⟩
  · intro hep
    rcases hep with rfl | rfl <;>
    · simp only [pre] at h
      (repeat' split at h) <;> simp_all

/-- …and every answer given without a backend call is 4xx, except get-roots (200, needs no backend), a consistency request
with `first = 0` (200 with an empty proof, by design) and a local leaf-building failure (500). -/
theorem pre_status (cfg : Cfg) (ep : Ep) (q : Req) (st : Nat) (h : pre cfg ep q = .inl st) :
    st = 400 ∨ (st = 200 ∧ (ep = .getRoots ∨ (ep = .getSTHCons ∧ parseInt64 q.p1 = some 0))) ∨
    (st = 500 ∧ (ep = .addChain ∨ ep = .addPreChain) ∧ q.buildOk = false) := by
  cases ep <;> simp only [pre] at h
  case getRoots => simp at h; right; left; exact ⟨h.symm, Or.inl rfl⟩
  case getSTH => simp at h
  case addChain | addPreChain =>
    (repeat' split at h) <;> simp at h <;> simp_all
  case getSTHCons =>
    split at h
    · simp at h; left; exact h.symm
    rename_i hmal
    split at h
    · simp at h; left; exact h.symm
    rename_i first second hp
    split at h
    · rename_i hz
      simp at h
      right; left
      refine ⟨h.symm, Or.inr ⟨rfl, ?_⟩⟩
      rw [Gen.parseGetSTHConsistencyRange_eq_spec] at hp
      unfold Spec.parseGetSTHConsistencyRange at hp
      simp only [Bool.or_eq_true, Bool.and_eq_true, bne_iff_ne, ne_eq, Bool.not_eq_true, Option.isNone_iff_eq_none, not_or, not_and] at hmal
      repeat (split at hp; · simp at hp)
      rename_i hm1 hm2 a3 a4
      simp only [Option.some.injEq, Prod.mk.injEq] at hp
      have e1 := hmal.1 (by simpa using hm1)
      cases hh1 : parseInt64 q.p1 with
      | none => exact absurd hh1 e1
      | some a => rw [hh1] at hp; simp at hp; rw [← hz, hp.1]
    · simp at h
  all_goals ((repeat' split at h) <;> simp at h <;> (try (left; exact h.symm)))

/-- **mask.** With masking on, a 500 response carries no internal error text; every other status still does. -/
theorem mask (cfg : Cfg) (hm : cfg.mask = true) (st : Nat) : errorTextShown cfg st = false ↔ st = 500 := by
  unfold errorTextShown; simp [hm]

/-! ## non-vacuity -/
example : (serve {} .getEntries { p1 := "0", p2 := "5" } (.leaves ⟨true, true, 10, 32⟩ true [0, 1, 2])).status = 200 := by decide
example : pre {} .getEntries { p1 := "0", p2 := "5" } = .inr (.leaves 0 6) := by decide
example : isFault (.leaves 0 6) (.leaves ⟨true, true, 10, 32⟩ true [0, 2]) = true ∧
    (serve {} .getEntries { p1 := "0", p2 := "5" } (.leaves ⟨true, true, 10, 32⟩ true [0, 2])) = { status := 500, rpc := true } := by decide
example : (serve {} .addChain {} (.queue false false false true true)) = { status := 200, sct := true, rpc := true } := by decide
example : (serve {} .addChain {} (.queue false false true true true)) = { status := 500, rpc := true } := by decide
example : (serve {} .getSTHCons { p1 := "3", p2 := "5" } (.cons ⟨true, true, 10, 32⟩ false [])) = { status := 500, rpc := true } := by decide
example : (serve {} .getSTH {} (.err (.code 8))).status = 429 := by decide
example : (serve {} .getEntries { p1 := "5", p2 := "2" } (.err .plain)) = { status := 400 } := by decide

end C08
