import CTV.Model.Client
namespace C12
open CTV CTV.SigV CTV.Client

/-- placeholder while the harness is brought up -/
theorem plainGet_ok_iff {β : Type} (r : Rsp β) (b : β) : plainGet r = .ok b ↔ r.status = 200 ∧ r.body = some b := by
  unfold plainGet
  by_cases h : r.status = 200 <;> cases hb : r.body <;> simp [h]

end C12
