import CTV.Model.Client
import CTV.Lemmas.ClientDec
import CTV.Lemmas.SigVerify
import CTV.Lemmas.SigInput
import CTV.Lemmas.ClientRfc
import CTV.Props.C04
/-!
# C12 — a log client holding the log key never hands back unverified signed data

Theorems over `CTV.Client` (client/logclient.go, client/getentries.go, jsonclient/client.go, types.go
`ToSignedTreeHead`, serialization.go `RawLogEntryFromLeaf`), for an **arbitrary** server response: any status and
either "not decodable" or arbitrary values of the JSON fields.  Verification is C05's `verifySTH` / `verifySCT` over
the same abstract primitives `P`.  `Gen.addChainChecksIDAgainstKey`, `Gen.getEntriesWrapsDecodeError` and
`Gen.postRetryStatuses` are regenerated from the Go source on every run.
-/
set_option linter.unusedSimpArgs false
namespace C12
open CTV CTV.SigV CTV.SigInput CTV.Client

/-- **sth_verified.** Whatever the server answers, an STH handed back by a client that holds the log key came with
status 200, is built from the fields of that response (32-octet root, one DigitallySigned and nothing after it),
and its signature verifies under that key over RFC 6962 §3.5's signature input of exactly its tree size, timestamp
and root hash (version v1). -/
theorem sth_verified (P : Prims) (key : Key) (r : Rsp SthBody) (sth : STH) (h : getSTH P (some key) r = .ok sth) :
    r.status = 200 ∧
    (∃ b, r.body = some b ∧ sth.treeSize = b.treeSize ∧ sth.timestamp = b.timestamp ∧ sth.root = b.root ∧
      sth.root.length = 32 ∧ dsExact b.sig = some sth.sig ∧ sth.version = 0) ∧
    verifySTH P key sth = .ok ∧
    ∃ msg, sthSigInput 0 sth.timestamp sth.treeSize sth.root = some msg ∧ verifySignature P key msg sth.sig = .ok := by
  unfold getSTH at h
  simp only [show Gen.clientVerifiesBeforeReturn = true from rfl, if_true] at h
  by_cases hs : r.status ≠ 200
  · simp [hs] at h
  simp only [hs, if_false] at h
  cases hb : r.body with
  | none => simp [hb] at h
  | some b =>
    simp only [hb] at h
    cases ht : toSignedTreeHead b with
    | none => simp [ht] at h
    | some s0 =>
      simp only [ht] at h
      cases hv : verifySTH P key s0 with
      | err => simp [hv] at h
      | panic => simp [hv] at h
      | ok =>
        simp only [hv, Res.ok.injEq] at h
        subst h
        unfold toSignedTreeHead at ht
        by_cases hl : b.root.length ≠ 32
        · simp [hl] at ht
        simp only [hl, if_false] at ht
        cases hd : dsExact b.sig with
        | none => simp [hd] at ht
        | some ds =>
          simp only [hd, Option.some.injEq] at ht
          subst ht
          refine ⟨by simpa using hs, ⟨b, rfl, rfl, rfl, rfl, by simpa using hl, hd, rfl⟩, hv, ?_⟩
          rw [verifySTH_def] at hv
          simp only at hv
          cases hm : sthSigInput 0 b.timestamp b.treeSize b.root with
          | none => simp [hm] at hv
          | some msg => exact ⟨msg, rfl, by simpa [hm] using hv⟩

/-- a client without a key hands back the parsed STH unverified — the property is about clients that hold the key -/
example : (getSTH ⟨fun _ m => m, fun _ _ _ _ => false⟩ none ⟨200, [], some ⟨1, 2, List.replicate 32 0, [4, 3, 0, 0]⟩⟩).isOk = true := by decide
example : getSTH ⟨fun _ m => m, fun _ _ _ _ => false⟩ (some { kind := .ecdsa }) ⟨200, [], some ⟨1, 2, List.replicate 32 0, [4, 3, 0, 0]⟩⟩ = .rspErr 200 [] := by decide
example : (getSTH ⟨fun _ m => m, fun _ _ _ _ => true⟩ (some { kind := .ecdsa }) ⟨200, [], some ⟨1, 2, List.replicate 32 0, [4, 3, 0, 8, 0x30, 6, 2, 1, 1, 2, 1, 1]⟩⟩).isOk = true := by decide

/-- **the client keeps no verification state.**  In the model `getSTH` / `addChain` are functions of the configured key and
the response(s) of *this* call only, so a history of calls on one client is judged call by call: every STH handed back
anywhere in a history verifies (no "already verified" shortcut).  The real client is held to this by the harness'
histories of 2–4 calls on ONE LogClient (same head re-served with another signature, good after bad, …). -/
theorem getSTH_stateless (P : Prims) (key : Key) (history : List (Rsp SthBody)) (r : Rsp SthBody) (sth : STH)
    (_hr : r ∈ history) (h : getSTH P (some key) r = .ok sth) : verifySTH P key sth = .ok :=
  (sth_verified P key r sth h).2.2.1

example := getSTH_stateless ⟨fun _ m => m, fun _ _ _ _ => true⟩ { kind := .ecdsa }
  [⟨200, [], some ⟨1, 2, List.replicate 32 0, [4, 3, 0, 8, 0x30, 6, 2, 1, 1, 2, 1, 1]⟩⟩]
  ⟨200, [], some ⟨1, 2, List.replicate 32 0, [4, 3, 0, 8, 0x30, 6, 2, 1, 1, 2, 1, 1]⟩⟩
  ⟨0, 1, 2, List.replicate 32 0, ⟨4, 3, [0x30, 6, 2, 1, 1, 2, 1, 1]⟩⟩ (by simp) (by decide)

/-- the part of `sct_verified` that concerns one final response -/
theorem addChainFinal_verified (P : Prims) (key : Key) (keyID : Option Bytes) (leaf : LeafBuild) (st : Nat) (raw : Bytes) (b : SctBody)
    (sct : SCT) (h : addChainFinal P (some key) keyID leaf st raw b = .ok sct) :
    ∃ e exts, leaf = .ok e ∧ b.extensions = some exts ∧ dsExact b.signature = some sct.sig ∧
      sct.version = b.version ∧ sct.timestamp = b.timestamp ∧ sct.extensions = exts ∧ sct.logID = sctLogID true keyID b.id ∧
      idAccepted true keyID b.id = true ∧ verifySCT P key sct e = .ok := by
  unfold addChainFinal at h
  simp only [show Gen.clientVerifiesBeforeReturn = true from rfl, if_true, Option.isSome_some] at h
  cases hd : dsExact b.signature with
  | none => simp [hd] at h
  | some ds =>
    simp only [hd] at h
    cases hx : b.extensions with
    | none => simp [hx] at h
    | some exts =>
      simp only [hx] at h
      by_cases hid : idAccepted true keyID b.id = true
      · simp only [hid, Bool.not_true, Bool.false_eq_true, if_false] at h
        cases hl : leaf with
        | err => simp [hl] at h
        | panic => simp [hl] at h
        | ok e =>
          simp only [hl] at h
          cases hv : verifySCT P key ⟨b.version, sctLogID true keyID b.id, b.timestamp, exts, ds⟩ e with
          | err => simp [hv] at h
          | panic => simp [hv] at h
          | ok =>
            simp only [hv, Res.ok.injEq] at h
            subst h
            exact ⟨e, exts, rfl, rfl, rfl, rfl, rfl, rfl, rfl, hid, hv⟩
      · simp [hid] at h

/-- **sct_verified.** Whatever the server answers to the successive attempts, an SCT handed back by `AddChain` /
`AddPreChain` of a client that holds the log key: the leaf for the submitted chain and entry type could be built
(`leaf = ok e`), and the SCT's signature verifies under that key over RFC 6962 §3.2's signature input of exactly the
SCT's version (v1), timestamp and extensions and **that entry** — so not for another chain, the other entry type,
another timestamp or other extensions (`C05.signed_bytes_exact_sct`). -/
theorem sct_verified (P : Prims) (key : Key) (keyID : Option Bytes) (leaf : LeafBuild) (rsps : List (Rsp SctBody)) (sct : SCT)
    (h : addChain P (some key) keyID leaf rsps = .ok sct) :
    ∃ e, leaf = .ok e ∧ verifySCT P key sct e = .ok ∧
      ∃ msg, sctSigInput sct.version sct.timestamp e sct.extensions = some msg ∧ verifySignature P key msg sct.sig = .ok := by
  induction rsps with
  | nil => simp [addChain] at h
  | cons r rest ih =>
    unfold addChain at h
    by_cases hs : r.status = 200
    · simp only [hs, if_true] at h
      cases hb : r.body with
      | none => simp only [hb] at h; exact ih h
      | some b =>
        simp only [hb] at h
        obtain ⟨e, _, hl, _, _, _, _, _, _, _, hv⟩ := addChainFinal_verified P key keyID leaf _ _ b sct h
        refine ⟨e, hl, hv, ?_⟩
        rw [verifySCT_def] at hv
        cases hm : sctSigInput sct.version sct.timestamp e sct.extensions with
        | none => simp [hm] at hv
        | some msg => exact ⟨msg, rfl, by simpa [hm] using hv⟩
    · simp only [hs, if_false] at h
      by_cases hr : retried r.status = true
      · simp only [hr, if_true] at h; exact ih h
      · simp [hr] at h

/-! ### "for the chain and entry type it submitted"

`leafFromRawChain` models `MerkleTreeLeafFromRawChain` / `MerkleTreeLeafFromChain` (shape regenerated:
`Gen.leafFromChainShape`, `Gen.leafFromChainGuardsEmpty`) over what the X.509 parser reports for the first three
certificates; SHA-256 and `x509.BuildPrecertTBS` (C03) are parameters (`LeafEnv`). -/

theorem leafFromRawChain_x509 (env : LeafEnv) (chain : List ChainCert) (e : Entry)
    (h : leafFromRawChain env chain false = .ok e) :
    ∃ c rest, chain = c :: rest ∧ c.fatal = false ∧ e = .x509 c.raw := by
  unfold leafFromRawChain at h
  simp only [show Gen.leafFromChainShape = true from rfl, Bool.not_true, Bool.false_eq_true, if_false, Bool.or_false] at h
  rcases chain with _ | ⟨c, rest⟩
  · simp at h
    split at h <;> cases h
  · simp at h
    split at h
    · cases h
    · rename_i hf
      simp only [LeafBuild.ok.injEq] at h
      refine ⟨c, rest, rfl, ?_, h.symm⟩
      cases hc : c.fatal
      · rfl
      · exact absurd (Or.inl hc) hf

theorem leafFromRawChain_precert (env : LeafEnv) (chain : List ChainCert) (e : Entry)
    (h : leafFromRawChain env chain true = .ok e) :
    ∃ c i rest, chain = c :: i :: rest ∧
      ((i.preIssuer = false ∧ ∃ t, env.buildPrecertTBS c.tbs none = some t ∧ e = .precert (env.hash i.spki) t) ∨
       (i.preIssuer = true ∧ ∃ j rest' t, rest = j :: rest' ∧ env.buildPrecertTBS c.tbs (some i) = some t ∧
          e = .precert (env.hash j.spki) t)) := by
  unfold leafFromRawChain at h
  simp only [show Gen.leafFromChainShape = true from rfl, Bool.not_true, Bool.false_eq_true, if_false] at h
  rcases chain with _ | ⟨c, _ | ⟨i, rest⟩⟩
  · simp at h
  · simp at h
  · simp only [List.take_succ_cons] at h
    by_cases hf : ((c :: i :: List.take 1 rest).any fun x => x.fatal) = true
    · simp [hf] at h
    · simp only [hf, if_false] at h
      cases hp : i.preIssuer with
      | false =>
        simp only [hp, Bool.not_false, if_true] at h
        cases ht : env.buildPrecertTBS c.tbs none with
        | none => simp [ht] at h
        | some t =>
          simp [ht] at h
          exact ⟨c, i, rest, rfl, Or.inl ⟨hp, t, ht, h.symm⟩⟩
      | true =>
        simp only [hp, Bool.not_true, Bool.false_eq_true, if_false] at h
        rcases rest with _ | ⟨j, rest'⟩
        · simp at h
        · simp only [List.take_succ_cons] at h
          cases ht : env.buildPrecertTBS c.tbs (some i) with
          | none => simp [ht] at h
          | some t =>
            simp [ht] at h
            exact ⟨c, i, j :: rest', rfl, Or.inr ⟨hp, j, rest', t, rfl, ht, h.symm⟩⟩


/-- **sct_verified, for the submission.** An SCT handed back by `AddChain(chain)` verifies under the configured key over the
§3.2 signature input whose entry is the **X.509 entry of the first submitted certificate, as submitted**; one handed back
by `AddPreChain(chain)` over the **precertificate entry** (SHA-256 of the SPKI of the issuer — the second certificate, or
the third when the second is a Precertificate Signing Certificate —, BuildPrecertTBS of the first certificate's TBS).
Nothing else verifies: by `C05.signed_bytes_exact_sct` those bytes are the input of no other entry, entry type,
timestamp or extensions. -/
theorem sct_verified_for_submission (P : Prims) (key : Key) (keyID : Option Bytes) (env : LeafEnv) (chain : List ChainCert)
    (pre : Bool) (rsps : List (Rsp SctBody)) (sct : SCT)
    (h : addChain P (some key) keyID (leafFromRawChain env chain pre) rsps = .ok sct) :
    ∃ e, verifySCT P key sct e = .ok ∧
      (∃ msg, sctSigInput sct.version sct.timestamp e sct.extensions = some msg ∧ verifySignature P key msg sct.sig = .ok) ∧
      ((pre = false ∧ ∃ c rest, chain = c :: rest ∧ e = .x509 c.raw) ∨
       (pre = true ∧ ∃ c i rest, chain = c :: i :: rest ∧
          ((i.preIssuer = false ∧ ∃ t, env.buildPrecertTBS c.tbs none = some t ∧ e = .precert (env.hash i.spki) t) ∨
           (i.preIssuer = true ∧ ∃ j rest' t, rest = j :: rest' ∧ env.buildPrecertTBS c.tbs (some i) = some t ∧
              e = .precert (env.hash j.spki) t)))) := by
  obtain ⟨e, hl, hv, hm⟩ := sct_verified P key keyID _ rsps sct h
  refine ⟨e, hv, hm, ?_⟩
  cases pre with
  | false =>
    obtain ⟨c, rest, hc, _, he⟩ := leafFromRawChain_x509 env chain e hl
    exact Or.inl ⟨rfl, c, rest, hc, he⟩
  | true => exact Or.inr ⟨rfl, leafFromRawChain_precert env chain e hl⟩

/-- an X.509 submission, a precertificate submission through its direct issuer, and one through a pre-issuer -/
example : leafFromRawChain ⟨fun b => b.reverse, fun t _ => some (0 :: t)⟩ [⟨[1], false, [2], [3], false⟩, ⟨[4], false, [5], [6, 7], false⟩] false = .ok (.x509 [1]) ∧
    leafFromRawChain ⟨fun b => b.reverse, fun t _ => some (0 :: t)⟩ [⟨[1], false, [2], [3], false⟩, ⟨[4], false, [5], [6, 7], false⟩] true = .ok (.precert [7, 6] [0, 2]) ∧
    leafFromRawChain ⟨fun b => b.reverse, fun t _ => some (0 :: t)⟩ [⟨[1], false, [2], [3], false⟩, ⟨[4], false, [5], [6, 7], true⟩, ⟨[8], false, [9], [10, 11], false⟩] true = .ok (.precert [11, 10] [0, 2]) ∧
    leafFromRawChain ⟨fun b => b.reverse, fun t _ => some (0 :: t)⟩ [⟨[1], false, [2], [3], false⟩] true = .err ∧
    leafFromRawChain ⟨fun b => b.reverse, fun t _ => some (0 :: t)⟩ [] false = .err ∧
    leafFromRawChain ⟨fun b => b.reverse, fun t _ => some (0 :: t)⟩ [⟨[1], true, [], [], false⟩] false = .err := by decide
example : (addChain ⟨fun _ m => m, fun _ _ _ _ => true⟩ (some { kind := .ecdsa }) (some (List.replicate 32 9))
    (leafFromRawChain ⟨fun b => b, fun t _ => some t⟩ [⟨[1], false, [2], [3], false⟩] false)
    [⟨200, [], some ⟨0, [], 5, some [], [4, 3, 0, 8, 0x30, 6, 2, 1, 1, 2, 1, 1]⟩⟩]).isOk = true := by decide

/-- how addChainWithRetry turns the response's `id` into the SCT's log ID — **regenerated** from client/logclient.go on every
run: policy 2 is `if c.Verifier != nil { keyID := logIDForKey(key); a present id ≠ keyID is an RspError; logID.KeyID = keyID }`
(fix c15d346).  On a tree without it (policy 0: the id copied unchecked, finding F8) this lemma and `sct_logid` stop compiling
and the harness shows the SCTs with foreign log IDs. -/
theorem id_policy_is_key_hash : Gen.addChainIDPolicy = 2 := rfl

/-- **sct_verified, second conjunct (log ID).** With a configured key, every SCT handed back by `AddChain` / `AddPreChain`
carries as its log ID the SHA-256 hash of that key's SubjectPublicKeyInfo (`kid` = `logIDForKey` of the configured key) —
whatever `id` the server sent: absent, all zero, another log's, of another length. -/
theorem sct_logid (P : Prims) (key : Key) (kid : Bytes) (leaf : LeafBuild) (rsps : List (Rsp SctBody)) (sct : SCT)
    (h : addChain P (some key) (some kid) leaf rsps = .ok sct) : sct.logID = kid := by
  induction rsps with
  | nil => simp [addChain] at h
  | cons r rest ih =>
    unfold addChain at h
    by_cases hs : r.status = 200
    · simp only [hs, if_true] at h
      cases hb : r.body with
      | none => simp only [hb] at h; exact ih h
      | some b =>
        simp only [hb] at h
        obtain ⟨_, _, _, _, _, _, _, _, hid, _, _⟩ := addChainFinal_verified P key (some kid) leaf _ _ b sct h
        rw [hid]
        simp [sctLogID, id_policy_is_key_hash]
    · simp only [hs, if_false] at h
      by_cases hr : retried r.status = true
      · simp only [hr, if_true] at h; exact ih h
      · simp [hr] at h

/-- … and a response whose `id` is present but is not the key hash is refused with the status and body: no SCT at all -/
theorem foreign_id_is_error (P : Prims) (key : Key) (kid : Bytes) (leaf : LeafBuild) (st : Nat) (raw : Bytes) (b : SctBody)
    (hne : b.id ≠ []) (hid : b.id ≠ kid) (hd : (dsExact b.signature).isSome = true) (hx : b.extensions.isSome = true) :
    addChainFinal P (some key) (some kid) leaf st raw b = .rspErr st raw := by
  unfold addChainFinal
  cases hds : dsExact b.signature with
  | none => simp [hds] at hd
  | some ds =>
    cases hex : b.extensions with
    | none => simp [hex] at hx
    | some exts =>
      have : idAccepted true (some kid) b.id = false := by
        simp [idAccepted, id_policy_is_key_hash, hid]
        cases hb : b.id with
        | nil => exact absurd hb hne
        | cons _ _ => simp
      simp [this]

/-- the keyless client (nothing claimed by the property): the response's id is copied, cut or zero-filled to 32 octets -/
theorem keyless_logid_is_response_id (P : Prims) (keyID : Option Bytes) (leaf : LeafBuild) (st : Nat) (raw : Bytes) (b : SctBody) (sct : SCT)
    (h : addChainFinal P none keyID leaf st raw b = .ok sct) : sct.logID = copyID b.id := by
  unfold addChainFinal at h
  cases hd : dsExact b.signature with
  | none => simp [hd] at h
  | some ds =>
    cases hx : b.extensions with
    | none => simp [hd, hx] at h
    | some exts =>
      simp only [hd, hx, Option.isSome_none, ite_self] at h
      have ha : idAccepted false keyID b.id = true := by simp [idAccepted, id_policy_is_key_hash]
      simp only [ha, Bool.not_true, Bool.false_eq_true, if_false, Res.ok.injEq] at h
      subst h
      simp [sctLogID]

example : (addChain ⟨fun _ m => m, fun _ _ _ _ => true⟩ (some { kind := .ecdsa }) (some (List.replicate 32 9)) (.ok (.x509 [1]))
    [⟨200, [], some ⟨0, [], 5, some [], [4, 3, 0, 8, 0x30, 6, 2, 1, 1, 2, 1, 1]⟩⟩]).isOk = true ∧
  addChain ⟨fun _ m => m, fun _ _ _ _ => true⟩ (some { kind := .ecdsa }) (some (List.replicate 32 9)) (.ok (.x509 [1]))
    [⟨200, [7], some ⟨0, List.replicate 32 0, 5, some [], [4, 3, 0, 8, 0x30, 6, 2, 1, 1, 2, 1, 1]⟩⟩] = .rspErr 200 [7] := by decide
example : copyID [1, 2, 3] = [1, 2, 3] ++ List.replicate 29 0 ∧ (copyID (List.replicate 40 7)).length = 32 := by decide
/-- non-vacuity of `sct_verified`: a retried 503, then a 200 whose SCT verifies -/
example : (addChain ⟨fun _ m => m, fun _ _ _ _ => true⟩ (some { kind := .ecdsa }) (some (List.replicate 32 9)) (.ok (.x509 [1]))
    [⟨503, [], none⟩, ⟨200, [], some ⟨0, [], 5, some [], [4, 3, 0, 8, 0x30, 6, 2, 1, 1, 2, 1, 1]⟩⟩]).isOk = true := by decide

/-- **bad_response_is_error (get-sth).** A non-200 status, a body that does not decode, a root hash that is not 32 octets,
a `tree_head_signature` that is not exactly one DigitallySigned (truncated, wrong length field, trailing octets), or a
signature that does not verify: the result is an error carrying the status of the response — never a (partial) STH,
never a bare error, and never a panic for a real key. -/
theorem bad_sth_response_is_error (P : Prims) (verifier : Option Key) (r : Rsp SthBody)
    (hbad : r.status ≠ 200 ∨ r.body = none ∨
      (∃ b, r.body = some b ∧ (b.root.length ≠ 32 ∨ dsExact b.sig = none ∨
        ∃ key sth, verifier = some key ∧ toSignedTreeHead b = some sth ∧ verifySTH P key sth = .err))) :
    getSTH P verifier r = .rspErr r.status r.raw := by
  unfold getSTH
  simp only [show Gen.clientVerifiesBeforeReturn = true from rfl, if_true]
  by_cases hs : r.status ≠ 200
  · simp [hs]
  simp only [hs, if_false]
  rcases hbad with h | h | ⟨b, hb, h⟩
  · exact absurd h hs
  · simp [h]
  · simp only [hb]
    rcases h with h | h | ⟨key, sth, hk, ht, hv⟩
    · simp [toSignedTreeHead, h]
    · simp [toSignedTreeHead, h]
    · simp [ht, hk, hv]

/-- in particular: octets after the DigitallySigned of `tree_head_signature` ("trailing TLS bytes"), or a DigitallySigned
cut short, make get-sth fail with the status — whatever the rest of the response says and whoever signed it. -/
theorem sth_trailing_or_truncated_signature_is_error (P : Prims) (verifier : Option Key) (r : Rsp SthBody) (b : SthBody)
    (hb : r.body = some b) (good : Bytes) (ds : DigitallySigned) (hg : dsExact good = some ds)
    (h : (∃ t, t ≠ [] ∧ b.sig = good ++ t) ∨ (∃ k, k < good.length ∧ b.sig = good.take k)) :
    getSTH P verifier r = .rspErr r.status r.raw := by
  apply bad_sth_response_is_error
  refine Or.inr (Or.inr ⟨b, hb, Or.inr (Or.inl ?_)⟩)
  rcases h with ⟨t, ht, e⟩ | ⟨k, hk, e⟩
  · rw [e]; exact dsExact_trailing good t ds hg ht
  · rw [e]; exact dsExact_truncated good ds hg k hk

example : dsExact [4, 3, 0, 2, 7, 7] = some ⟨4, 3, [7, 7]⟩ ∧ dsExact ([4, 3, 0, 2, 7, 7] ++ [0]) = none ∧ dsExact ([4, 3, 0, 2, 7, 7].take 5) = none := by decide

/-- every outcome of get-sth is an STH, an error with the status, or — only for a nil key pointer — a panic -/
theorem getSTH_outcomes (P : Prims) (verifier : Option Key) (r : Rsp SthBody)
    (hn : ∀ key, verifier = some key → key.primPanics = false) :
    (∃ sth, getSTH P verifier r = .ok sth) ∨ getSTH P verifier r = .rspErr r.status r.raw := by
  unfold getSTH
  simp only [show Gen.clientVerifiesBeforeReturn = true from rfl, if_true]
  by_cases hs : r.status ≠ 200
  · simp [hs]
  simp only [hs, if_false]
  cases hb : r.body with
  | none => simp
  | some b =>
    simp only
    cases ht : toSignedTreeHead b with
    | none => simp
    | some sth =>
      simp only
      cases hv : verifier with
      | none => simp
      | some key =>
        simp only
        have := verifySTH_no_panic P key sth (hn key hv)
        cases hr : verifySTH P key sth <;> simp_all

example : dsExact [4, 3, 0, 1, 9, 9] = none ∧ dsExact [4, 3, 0, 2, 9] = none ∧ dsExact [4, 3] = none ∧ dsExact [4, 3, 0, 1, 9] = some ⟨4, 3, [9]⟩ := by decide

/-- the leaf builder never panics on the tree as it is (empty chains are refused: regenerated `Gen.leafFromChainGuardsEmpty`;
before dab2fab an empty X.509 submission reached `chain[0]`) -/
theorem leafFromRawChain_no_panic (env : LeafEnv) (chain : List ChainCert) (pre : Bool) :
    leafFromRawChain env chain pre ≠ .panic := by
  unfold leafFromRawChain
  simp only [show Gen.leafFromChainGuardsEmpty = true from rfl, Bool.true_or, if_true]
  repeat' split
  all_goals simp

/-- **bad_response_is_error (add-chain / add-pre-chain).** For a real key and any submitted chain, the outcome of a
submission is an SCT, an error carrying the status **and the body** of the response that decided it, or — only when the
responses ran out, i.e. the context ended while retrying — a bare error.  Never a panic, never a partial SCT. -/
theorem addChain_outcomes (P : Prims) (verifier : Option Key) (keyID : Option Bytes) (env : LeafEnv) (chain : List ChainCert)
    (pre : Bool) (rsps : List (Rsp SctBody)) (hn : ∀ key, verifier = some key → key.primPanics = false) :
    (∃ sct, addChain P verifier keyID (leafFromRawChain env chain pre) rsps = .ok sct) ∨
    (∃ r ∈ rsps, addChain P verifier keyID (leafFromRawChain env chain pre) rsps = .rspErr r.status r.raw) ∨
      addChain P verifier keyID (leafFromRawChain env chain pre) rsps = .err := by
  have hl := leafFromRawChain_no_panic env chain pre
  generalize leafFromRawChain env chain pre = leaf at hl ⊢
  induction rsps with
  | nil => simp [addChain]
  | cons r rest ih =>
    have lift : ((∃ sct, addChain P verifier keyID leaf rest = .ok sct) ∨ (∃ r' ∈ rest, addChain P verifier keyID leaf rest = .rspErr r'.status r'.raw) ∨
        addChain P verifier keyID leaf rest = .err) →
        ((∃ sct, addChain P verifier keyID leaf rest = .ok sct) ∨ (∃ r' ∈ r :: rest, addChain P verifier keyID leaf rest = .rspErr r'.status r'.raw) ∨
        addChain P verifier keyID leaf rest = .err) := by
      rintro (h | ⟨r', hm, h⟩ | h)
      · exact Or.inl h
      · exact Or.inr (Or.inl ⟨r', List.mem_cons_of_mem _ hm, h⟩)
      · exact Or.inr (Or.inr h)
    unfold addChain
    by_cases hs : r.status = 200
    · simp only [hs, if_true]
      cases hb : r.body with
      | none => simpa using lift ih
      | some b =>
        simp only
        have hfin : (∃ sct, addChainFinal P verifier keyID leaf 200 r.raw b = .ok sct) ∨ addChainFinal P verifier keyID leaf 200 r.raw b = .rspErr 200 r.raw := by
          unfold addChainFinal
          simp only [show Gen.clientVerifiesBeforeReturn = true from rfl, if_true]
          cases dsExact b.signature with
          | none => simp
          | some ds =>
            simp only
            cases b.extensions with
            | none => simp
            | some exts =>
              simp only
              by_cases hid : idAccepted verifier.isSome keyID b.id = true
              · simp only [hid, Bool.not_true, Bool.false_eq_true, if_false]
                cases hv : verifier with
                | none => simp
                | some key =>
                  simp only
                  cases hlf : leaf with
                  | err => simp
                  | panic => exact absurd hlf hl
                  | ok e =>
                    simp only
                    have := verifySCT_no_panic P key ⟨b.version, sctLogID true keyID b.id, b.timestamp, exts, ds⟩ e (hn key hv)
                    cases hr : verifySCT P key ⟨b.version, sctLogID true keyID b.id, b.timestamp, exts, ds⟩ e <;> simp_all
              · simp [hid]
        rcases hfin with ⟨sct, h⟩ | h
        · exact Or.inl ⟨sct, h⟩
        · exact Or.inr (Or.inl ⟨r, List.mem_cons_self, by rw [h, hs]⟩)
    · simp only [hs, if_false]
      by_cases hr : retried r.status = true
      · simpa [hr] using lift ih
      · simp only [hr, Bool.false_eq_true, if_false]
        exact Or.inr (Or.inl ⟨r, List.mem_cons_self, rfl⟩)

/-- a final (non-retried) response with a status other than 200 is reported with that status and its body -/
theorem addChain_non200_is_error (P : Prims) (verifier : Option Key) (keyID : Option Bytes) (leaf : LeafBuild) (r : Rsp SctBody)
    (rest : List (Rsp SctBody)) (hs : r.status ≠ 200) (hr : retried r.status = false) :
    addChain P verifier keyID leaf (r :: rest) = .rspErr r.status r.raw := by
  simp [addChain, hs, hr]

example : retried 404 = false ∧ retried 503 = true ∧ retried 408 = true ∧ retried 429 = true ∧ retried 500 = false := by decide

/-- **bad_response_is_error (plain GET methods)**: get-sth-consistency, get-proof-by-hash, get-entry-and-proof,
get-entries (raw), get-roots succeed exactly on a 200 response that decodes (and, for get-roots, whose certificates are
all base64); everything else is an error carrying the status. -/
theorem plainGet_ok_iff {β : Type} (r : Rsp β) (b : β) : plainGet r = .ok b ↔ r.status = 200 ∧ r.body = some b := by
  unfold plainGet
  by_cases h : r.status = 200 <;> cases hb : r.body <;> simp [h]

theorem plainGet_error {β : Type} (r : Rsp β) (h : r.status ≠ 200 ∨ r.body = none) : plainGet r = .rspErr r.status r.raw := by
  unfold plainGet
  rcases h with h | h
  · simp [h]
  · by_cases hs : r.status ≠ 200 <;> simp [hs, h]

theorem getRoots_ok_iff (r : Rsp (List (Option Bytes))) (cs : List Bytes) :
    getRoots r = .ok cs ↔ r.status = 200 ∧ ∃ l, r.body = some l ∧ l.all Option.isSome = true ∧ l.filterMap id = cs := by
  unfold getRoots plainGet
  by_cases h : r.status = 200
  · cases hb : r.body with
    | none => simp [h]
    | some l =>
      by_cases ha : l.all Option.isSome = true
      · simp only [h, ne_eq, not_true_eq_false, if_false, ha, if_true, Res.ok.injEq, true_and, Option.some.injEq,
          exists_eq_left']
      · simp only [h, ne_eq, not_true_eq_false, if_false, ha, Bool.false_eq_true, true_and, Option.some.injEq,
          exists_eq_left', false_and, iff_false]
        intro hc; cases hc
  · simp [h]

example : plainGet (⟨200, [1], some 5⟩ : Rsp Nat) = .ok 5 ∧ plainGet (⟨404, [2], some 5⟩ : Rsp Nat) = .rspErr 404 [2] ∧ plainGet (⟨200, [3], none⟩ : Rsp Nat) = .rspErr 200 [3] := by decide

/-- **temporal client, get-roots.** `TemporalLogClient.GetAcceptedRoots` hands back roots only when **every** shard answered with
a decodable 200 whose certificates are all base64; one failing shard makes the whole call an error, and an error never
comes with a partially filled list (`temporalRoots` is an `Option`: the real client is held to it by the `troots` oracle). -/
theorem temporalRoots_some_iff (shards : List (Option (Rsp (List (Option Bytes))))) :
    (temporalRoots shards).isSome = true ↔
      ∀ s ∈ shards, ∃ r cs, s = some r ∧ getRoots r = .ok cs := by
  unfold temporalRoots
  constructor
  · intro h
    by_cases hall : shards.all shardOk = true
    · intro s hs
      have := List.all_eq_true.mp hall s hs
      cases s with
      | none => simp [shardOk] at this
      | some r =>
        cases hg : getRoots r with
        | ok cs => exact ⟨r, cs, rfl, hg⟩
        | rspErr a b => simp [shardOk, hg, Res.isOk] at this
        | err => simp [shardOk, hg, Res.isOk] at this
        | panic => simp [shardOk, hg, Res.isOk] at this
    · simp [hall] at h
  · intro h
    have hall : shards.all shardOk = true := by
      apply List.all_eq_true.mpr
      intro s hs
      obtain ⟨r, cs, rfl, hg⟩ := h s hs
      simp [shardOk, hg, Res.isOk]
    simp [hall]

example : temporalRoots [some ⟨200, [], some [some [1]]⟩, some ⟨200, [], some [some [2], some [3]]⟩] = some [[1], [2], [3]] ∧
    temporalRoots [some ⟨200, [], some [some [1]]⟩, some ⟨500, [], none⟩] = none ∧ temporalRoots [some ⟨200, [], some [some [1]]⟩, none] = none := by decide

/-- **entry_decoder_total_consistent.** `RawLogEntryFromLeaf` is a total function of arbitrary `leaf_input` and
`extra_data` (it is one in the model; the harness checks the real one never panics), and when it returns an entry, that
entry re-encodes to exactly the two inputs: nothing is dropped, defaulted or reinterpreted, the submitted certificate
of an X.509 entry is the leaf's certificate, and unknown leaf / entry types are refused. -/
theorem entry_decoder_total_consistent (leafInput extraData : Bytes) (e : RawEntry)
    (h : rawLogEntryFromLeaf leafInput extraData = some e) :
    encLeaf e.leaf = leafInput ∧ encExtra e = extraData ∧
      (match e.leaf.entry with | .x509 c => e.cert = c | .precert _ _ => True | .json _ => False) :=
  rawLogEntryFromLeaf_sound leafInput extraData e h

example : rawLogEntryFromLeaf [0, 0, 0, 0, 0, 0, 0, 0, 0, 5, 0, 0, 0, 0, 1, 0xaa, 0, 0] [0, 0, 0] =
    some ⟨⟨0, 5, .x509 [0xaa], []⟩, [0xaa], []⟩ := by decide
example : rawLogEntryFromLeaf [0, 0, 0, 0, 0, 0, 0, 0, 0, 5, 0, 0, 0, 0, 1, 0xaa, 0, 0, 9] [0, 0, 0] = none ∧
    rawLogEntryFromLeaf [0, 1, 0, 0, 0, 0, 0, 0, 0, 5, 0, 0, 0, 0, 1, 0xaa, 0, 0] [0, 0, 0] = none ∧
    rawLogEntryFromLeaf [0, 0, 0, 0, 0, 0, 0, 0, 0, 5, 0, 0, 0, 0, 1, 0xaa, 0, 0] [0, 0, 0, 7] = none ∧
    rawLogEntryFromLeaf [0, 0, 0, 0, 0, 0, 0, 0, 0, 5, 0x80, 0, 0, 0, 0, 0, 0] [0, 0, 0] = none := by decide

/-- **the decoder is the RFC's, and the RFC's is the code's.**  The hand-written TLS fragments of the model (lengths 2^24−1,
2^16−1, 1 677 215, the selector values) are not free-standing constants: `rawLogEntryFromLeaf` **equals** the RFC 6962 §4.6
transcription `Rfc.decLogEntry` on every input (`Lemmas/ClientRfc.lean`), and for everything that transcription accepts
the decoder driven by the **regenerated** struct tags (`CtWire.rawLogEntryFromLeaf`, C04) returns the same leaf,
certificate and chain. -/
theorem entry_decoder_is_rfc (leafInput extraData : Bytes) :
    rawLogEntryFromLeaf leafInput extraData = (Rfc.decLogEntry leafInput extraData).map ofRfc :=
  rawLogEntryFromLeaf_eq_rfc leafInput extraData

theorem entry_decoder_agrees_with_tags (leafInput extraData : Bytes) (e : RawEntry)
    (h : rawLogEntryFromLeaf leafInput extraData = some e) :
    ∃ l x rle, Rfc.decLogEntry leafInput extraData = some (l, x) ∧ e = ofRfc (l, x) ∧
      CtWire.rawLogEntryFromLeaf leafInput extraData = .ok rle ∧ rle.leaf = CtWire.leafVal l ∧
      (match x with
       | .x509 chain => rle.chain = .list (chain.map CtWire.asn1CertVal)
       | .precert pe => rle.cert = CtWire.asn1CertVal pe.preCertificate ∧ rle.chain = .list (pe.chain.map CtWire.asn1CertVal)) := by
  rw [entry_decoder_is_rfc] at h
  cases hd : Rfc.decLogEntry leafInput extraData with
  | none => simp [hd] at h
  | some v =>
    obtain ⟨l, x⟩ := v
    simp only [hd, Option.map_some, Option.some.injEq] at h
    obtain ⟨rle, h1, h2, h3⟩ := C04.rawLogEntry_of_rfc leafInput extraData l x hd
    refine ⟨l, x, rle, rfl, h.symm, h1, h2, ?_⟩
    cases x <;> exact h3

/-- the same for the DigitallySigned of `tree_head_signature` / `signature` -/
theorem digitallySigned_is_rfc (bs : Bytes) :
    dsExact bs = (Rfc.complete (Rfc.decDigitallySigned bs)).map fun d => (⟨d.hash, d.sigAlg, d.signature⟩ : DigitallySigned) :=
  dsExact_eq_rfc bs

/-- `GetEntries`: success means status 200, a decodable body, and every entry decoded (and parsed without a fatal
X.509 error); the entries handed back are consistent with the response's byte strings. -/
theorem getEntries_ok (s e : Int) (r : Rsp (List EntryIn)) (rs : List RawEntry) (h : getEntries s e r = .ok rs) :
    0 ≤ e ∧ s ≤ e ∧ r.status = 200 ∧ ∃ es, r.body = some es ∧ decodeAll es = some rs := by
  unfold getEntries at h
  by_cases hr : e < 0 ∨ e < s
  · simp [hr] at h
  simp only [hr, if_false] at h
  cases hp : plainGet r with
  | ok es =>
    simp only [hp] at h
    cases hd : decodeAll es with
    | none => simp only [hd] at h; split at h <;> cases h
    | some rs' =>
      simp only [hd, Res.ok.injEq] at h
      subst h
      obtain ⟨h200, hb⟩ := (plainGet_ok_iff r es).mp hp
      exact ⟨by omega, by omega, h200, es, hb, hd⟩
  | rspErr st => simp [hp] at h
  | err => simp [hp] at h
  | panic => simp [hp] at h

theorem decodeAll_consistent (es : List EntryIn) (rs : List RawEntry) (h : decodeAll es = some rs) :
    rs.length = es.length ∧ ∀ i (hi : i < es.length) (hj : i < rs.length),
      encLeaf rs[i].leaf = es[i].leafInput ∧ encExtra rs[i] = es[i].extraData ∧ es[i].x509Fatal = false := by
  induction es generalizing rs with
  | nil => simp [decodeAll] at h; subst h; simp
  | cons a t ih =>
    unfold decodeAll at h
    cases hr : rawLogEntryFromLeaf a.leafInput a.extraData with
    | none => simp [hr] at h
    | some r0 =>
      simp only [hr] at h
      by_cases hf : a.x509Fatal = true
      · simp [hf] at h
      simp only [hf, Bool.false_eq_true, if_false] at h
      cases hd : decodeAll t with
      | none => simp [hd] at h
      | some rs' =>
        simp only [hd, Option.some.injEq] at h
        subst h
        obtain ⟨hlen, hall⟩ := ih rs' hd
        refine ⟨by simp [hlen], ?_⟩
        intro i hi hj
        rcases i with _ | i
        · obtain ⟨h1, h2, _⟩ := rawLogEntryFromLeaf_sound _ _ _ hr
          exact ⟨h1, h2, by simpa using hf⟩
        · simpa using hall i (by simpa using hi) (by simpa using hj)

/-- GetEntries wraps the failure to decode an entry in RspError — **regenerated** from client/getentries.go on every run.
On a tree without the wrapping (`fix: client: GetEntries dropped the HTTP status and body …` reverted) this is `false`,
this lemma and `getEntries_error` stop compiling, and the harness shows the bare error. -/
theorem getEntries_wraps_decode_error : Gen.getEntriesWrapsDecodeError = true := rfl

/-- **bad_response_is_error (get-entries).** Once a request was made (a valid range), every outcome of `GetEntries` is the
entries or an error carrying the status of the response: non-200, undecodable body, an entry that does not decode or
whose certificate fails to parse — never a bare error, never a partial list. -/
theorem getEntries_error (s e : Int) (r : Rsp (List EntryIn)) (hr : 0 ≤ e ∧ s ≤ e) :
    (∃ rs, getEntries s e r = .ok rs) ∨ getEntries s e r = .rspErr r.status r.raw := by
  unfold getEntries
  have : ¬ (e < 0 ∨ e < s) := by omega
  simp only [this, if_false]
  unfold plainGet
  by_cases hs : r.status ≠ 200
  · simp [hs]
  simp only [hs, if_false]
  cases hb : r.body with
  | none => simp
  | some es =>
    simp only
    cases hd : decodeAll es with
    | none => simp [getEntries_wraps_decode_error]
    | some rs => simp

example : getEntries 0 1 ⟨200, [9], some [⟨[1, 2, 3], [], false⟩]⟩ = .rspErr 200 [9] ∧ getEntries 0 1 ⟨200, [], some []⟩ = .ok [] ∧
    getEntries 3 1 ⟨200, [], some []⟩ = .err ∧ getEntries 0 1 ⟨503, [8], none⟩ = .rspErr 503 [8] := by decide

/-- the only bare error of get-entries is the refusal of an invalid range, before any request is made -/
theorem getEntries_bare_error_only_for_bad_range (s e : Int) (r : Rsp (List EntryIn)) (h : getEntries s e r = .err) :
    e < 0 ∨ e < s := by
  by_cases hr : e < 0 ∨ e < s
  · exact hr
  · exfalso
    rcases getEntries_error s e r (by omega) with ⟨rs, h'⟩ | h'
    · rw [h'] at h; cases h
    · rw [h'] at h; cases h

/-! ### construction: a client GIVEN a key never ends up without a verifier -/

/-- **given_key_fails_closed.** When a key option is set — whatever it contains: a well-formed key, garbage, only white space — `New`
either fails or builds a client whose verifier is exactly the key the option holds; it never builds a client without a verifier. -/
theorem given_key_fails_closed (parsed : Option Key) (v : Option Key) (h : newClient true parsed = .ok v) :
    ∃ key, v = some key ∧ parsed = some key := by
  unfold newClient at h
  simp only [show Gen.clientKeyOptionFailsClosed = true from rfl, Bool.not_true, Bool.false_eq_true, if_false] at h
  cases parsed with
  | none => simp at h
  | some k => simp at h; exact ⟨k, h.symm, rfl⟩

/-- **given_key_sth_verified.** End to end: a client constructed from a set key option that hands back an STH has verified it under the
key the option holds (so a malformed, empty-looking or white-space-only option cannot switch verification off). -/
theorem given_key_sth_verified (P : Prims) (parsed v : Option Key) (r : Rsp SthBody) (sth : STH)
    (hn : newClient true parsed = .ok v) (h : getSTH P v r = .ok sth) :
    ∃ key, parsed = some key ∧ verifySTH P key sth = .ok := by
  obtain ⟨key, hv, hp⟩ := given_key_fails_closed parsed v hn
  subst hv
  exact ⟨key, hp, (sth_verified P key r sth h).2.2.1⟩

/-- only with no key option at all is a keyless client built; a malformed option is an error -/
theorem newClient_cases (given : Bool) (parsed : Option Key) :
    newClient given parsed = (if !given then .ok none else match parsed with | some k => .ok (some k) | none => .err) := by
  cases given <;> cases parsed <;> rfl

example : newClient true none = (.err : Res (Option Key)) := by decide
example : newClient false none = (.ok none : Res (Option Key)) := by decide
example : newClient true (some { kind := .ecdsa }) = .ok (some { kind := .ecdsa }) := by decide

end C12
