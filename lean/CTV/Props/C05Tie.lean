import CTV.Gen.SigTie
import CTV.Model.SigVerify
import CTV.Lemmas.SigVerify
import Mathlib.Tactic.ByContra
/-!
# C05 — tie between the hand model `CTV.SigV` and the regenerated whole bodies (`CTV.Gen.SigTie`)

`Gen.tlsVerifySignature` is the **whole body** of tls.VerifySignature translated statement by statement into a function of the
facts the code tests (hash lookup failed, the algorithm code, the type assertion failed, the primitive's verdict, asn1.Unmarshal
failed, r ≤ 0, s ≤ 0, the exactness check failed), in the code's order; `Gen.svVerifySCT` / `svVerifySTH` / `svVerifySignature` /
`ctutilVerifySCT` / `ctutilVerifyWithVerifier` likewise for the wrappers.  The theorems below say that the hand model decides
exactly as those bodies do on the facts the model computes — so reordering a test, dropping one or changing a comparison in the Go
source breaks a proof here (in addition to the table-based theorems of Props/C05).
-/
set_option linter.unusedSimpArgs false
namespace C05Tie
open CTV CTV.SigV CTV.SigInput CTV.DerSig

/-- the facts tls.VerifySignature tests, as the model computes them -/
structure Facts where
  hashFails : Bool
  keyMismatch : Bool
  rsaBad : Bool
  unmarshalFails : Bool
  rNonPos : Bool
  sNonPos : Bool
  exactBad : Bool
  pairOk : Bool

def factsOf (P : Prims) (key : Key) (data : Bytes) (ds : DigitallySigned) : Facts :=
  let h := (rfcHash ds.hash).getD 0
  let d := P.digest h data
  let p := parseSigPair ds.sig
  { hashFails := (rfcHash ds.hash).isNone
    keyMismatch := decide (algKind ds.sigAlg ≠ some key.kind)
    rsaBad := !P.prim key h d (.raw ds.sig)
    unmarshalFails := p.isNone
    rNonPos := match p with | some q => decide (q.r ≤ 0) | none => false
    sNonPos := match p with | some q => decide (q.s ≤ 0) | none => false
    exactBad := match p with | some q => !q.extra.isEmpty | none => false
    pairOk := match p with | some q => P.prim key h d (.pair q.r q.s) | none => false }

/-- **verifySignature_tie.** For a key that is not a nil / hollow pointer, the model's `verifySignature` passes exactly when the
regenerated body of tls.VerifySignature returns nil on the model's facts. -/
theorem verifySignature_tie (P : Prims) (key : Key) (data : Bytes) (ds : DigitallySigned) (hn : key.primPanics = false) :
    verifySignature P key data ds = .ok ↔
      Gen.tlsVerifySignature (factsOf P key data ds).hashFails ds.sigAlg (factsOf P key data ds).keyMismatch (factsOf P key data ds).rsaBad
        (factsOf P key data ds).unmarshalFails (factsOf P key data ds).rNonPos (factsOf P key data ds).sNonPos (factsOf P key data ds).exactBad
        (factsOf P key data ds).pairOk (factsOf P key data ds).pairOk = ErrKind.ok := by
  unfold verifySignature Gen.tlsVerifySignature factsOf
  rw [hash_table_is_rfc, alg_table]
  cases hh : rfcHash ds.hash with
  | none => simp
  | some h =>
    simp only [Option.isNone_some, Bool.false_eq_true, if_false, Option.getD_some]
    have hx2 : Gen.sigExactDER 2 = true := rfl
    have hx3 : Gen.sigExactDER 3 = true := rfl
    by_cases h1 : ds.sigAlg = 1
    · simp only [h1, if_true, Nat.cast_one, decide_true, algKind, ne_eq, name_rsa, Bool.not_false]
      by_cases hk : key.kind = .rsa
      · by_cases hp : P.prim key h (P.digest h data) (.raw ds.sig) = true <;> simp [hk, hn, hp]
      · have hk' : ¬ _ = key.kind := fun e => hk (Eq.symm e)
        simp [hk]
        rw [if_neg hk']; decide
    by_cases h2 : ds.sigAlg = 2
    · simp only [h2, if_true, if_false, (by decide : ¬ (2:Nat) = 1), ne_eq, name_dsa, algKind, Bool.not_true, Bool.false_eq_true]
      unfold verifyPair
      by_cases hk : key.kind = .dsa
      · simp only [hk, not_true_eq_false, if_false, decide_false, Bool.false_eq_true]
        cases hp : parseSigPair ds.sig with
        | none => simp
        | some q =>
          simp only [hx2, Option.isNone_some, Bool.false_eq_true, if_false, Bool.true_and, Bool.not_true, Bool.false_and]
          have hr := reject_iff 2 q.r q.s (Or.inl rfl)
          by_cases hrej : Gen.sigReject 2 q.r q.s = true
          · have : ¬ (0 < q.r ∧ 0 < q.s) := hr.mp hrej
            have hor : (decide (q.r ≤ 0) || decide (q.s ≤ 0)) = true := by simp; omega
            simp [hrej, hor]
          · have : (0 < q.r ∧ 0 < q.s) := by
              by_contra hc; exact hrej (hr.mpr hc)
            have hor : (decide (q.r ≤ 0) || decide (q.s ≤ 0)) = false := by simp; omega
            by_cases hx : q.extra.isEmpty = true <;> by_cases hv : P.prim key h (P.digest h data) (.pair q.r q.s) = true <;> simp [hrej, hor, hn, hx, hv]
      · have hk' : ¬ _ = key.kind := fun e => hk (Eq.symm e)
        simp [hk]
        rw [if_neg hk']; decide
    by_cases h3 : ds.sigAlg = 3
    · simp only [h3, if_true, if_false, (by decide : ¬ (3:Nat) = 1), (by decide : ¬ (3:Nat) = 2), ne_eq, name_ecdsa, algKind, Bool.not_true, Bool.false_eq_true]
      unfold verifyPair
      by_cases hk : key.kind = .ecdsa
      · simp only [hk, not_true_eq_false, if_false, decide_false, Bool.false_eq_true]
        cases hp : parseSigPair ds.sig with
        | none => simp
        | some q =>
          simp only [hx3, Option.isNone_some, Bool.false_eq_true, if_false, Bool.true_and, Bool.not_true, Bool.false_and]
          have hr := reject_iff 3 q.r q.s (Or.inr rfl)
          by_cases hrej : Gen.sigReject 3 q.r q.s = true
          · have : ¬ (0 < q.r ∧ 0 < q.s) := hr.mp hrej
            have hor : (decide (q.r ≤ 0) || decide (q.s ≤ 0)) = true := by simp; omega
            simp [hrej, hor]
          · have : (0 < q.r ∧ 0 < q.s) := by
              by_contra hc; exact hrej (hr.mpr hc)
            have hor : (decide (q.r ≤ 0) || decide (q.s ≤ 0)) = false := by simp; omega
            by_cases hx : q.extra.isEmpty = true <;> by_cases hv : P.prim key h (P.digest h data) (.pair q.r q.s) = true <;> simp [hrej, hor, hn, hx, hv]
      · have hk' : ¬ _ = key.kind := fun e => hk (Eq.symm e)
        simp [hk]
        rw [if_neg hk']; decide
    · have : ¬ ((ds.sigAlg : Int) = 1) := by omega
      have : ¬ ((ds.sigAlg : Int) = 2) := by omega
      have : ¬ ((ds.sigAlg : Int) = 3) := by omega
      simp [h1, h2, h3, *]

/-- **verifySCT_tie.** SignatureVerifier.VerifySCTSignature: serialise, then verify — the model's `verifySCT` passes exactly when
the regenerated body reports no error on the model's facts (serialisation failed; tls.VerifySignature failed on the message). -/
theorem verifySCT_tie (P : Prims) (key : Key) (sct : SCT) (e : Entry) :
    verifySCT P key sct e = .ok ↔
      Gen.svVerifySCT (sctSigInput sct.version sct.timestamp e sct.extensions).isNone
        (match sctSigInput sct.version sct.timestamp e sct.extensions with
         | some m => Gen.svVerifySignature (decide (verifySignature P key m sct.sig ≠ .ok))
         | none => false) = false := by
  rw [verifySCT_def]; unfold Gen.svVerifySCT Gen.svVerifySignature
  cases sctSigInput sct.version sct.timestamp e sct.extensions <;> simp

/-- **verifySTH_tie.** The same for SignatureVerifier.VerifySTHSignature. -/
theorem verifySTH_tie (P : Prims) (key : Key) (sth : STH) :
    verifySTH P key sth = .ok ↔
      Gen.svVerifySTH (sthSigInput sth.version sth.timestamp sth.treeSize sth.root).isNone
        (match sthSigInput sth.version sth.timestamp sth.treeSize sth.root with
         | some m => Gen.svVerifySignature (decide (verifySignature P key m sth.sig ≠ .ok))
         | none => false) = false := by
  rw [verifySTH_def]; unfold Gen.svVerifySTH Gen.svVerifySignature
  cases sthSigInput sth.version sth.timestamp sth.treeSize sth.root <;> simp

/-- **ctutilVerifySCT_tie.** ctutil.VerifySCT = NewSignatureVerifier, then VerifySCTWithVerifier (nil check, leaf, verify): the
model passes exactly when both regenerated bodies report no error (the verifier is non-nil after a successful constructor and the
leaf `e` is C03's result, so those two facts are false here). -/
theorem ctutilVerifySCT_tie (P : Prims) (key : Key) (allow : Bool) (sct : SCT) (e : Entry) :
    ctutilVerifySCT P key allow sct e = .ok ↔
      Gen.ctutilVerifySCT (decide (newVerifierOutcome key allow ≠ .ok))
        (Gen.ctutilVerifyWithVerifier false false (decide (verifySCT P key sct e ≠ .ok))) = false := by
  unfold ctutilVerifySCT Gen.ctutilVerifySCT Gen.ctutilVerifyWithVerifier
  simp only [show Gen.ctutilPolicyThenVerify = true from rfl]
  cases newVerifierOutcome key allow <;> simp

/-! ### non-vacuity: the regenerated bodies really distinguish the cases, in the code's order -/
example : Gen.tlsVerifySignature false 1 false false true true true true false false = .ok := by decide
example : Gen.tlsVerifySignature true 1 false false false false false false true true = .passthrough := by decide
example : Gen.tlsVerifySignature false 3 false true false false false false true true = .ok := by decide
example : Gen.tlsVerifySignature false 3 false false false false false true true true = .fresh := by decide
example : Gen.tlsVerifySignature false 3 false false false true false false true true = .fresh := by decide
example : Gen.tlsVerifySignature false 2 true false false false false false true true = .fresh := by decide
example : Gen.tlsVerifySignature false 0 false false false false false false true true = .fresh := by decide
example : Gen.svVerifySCT false false = false ∧ Gen.svVerifySCT true false = true ∧ Gen.svVerifySCT false true = true := by decide
example : Gen.ctutilVerifyWithVerifier true false false = true ∧ Gen.ctutilVerifyWithVerifier false false false = false := by decide

/-! ### the witness verifier: a caller of SignatureVerifier.VerifySignature on a list of DigitallySigned blobs -/

/-- **witnessVerify_iff.** A cosigned STH verifies under a witness key exactly when one of the witness signatures it carries verifies
(as `verifySignature` says) over the encoded tree head — in particular never when it carries no signature. -/
theorem witnessVerify_iff (P : Prims) (key : Key) (msg : Bytes) (sigs : List DigitallySigned) :
    witnessVerify (sigs.map (verifySignature P key msg)) = .ok ↔ ∃ ds ∈ sigs, verifySignature P key msg ds = .ok := by
  unfold witnessVerify
  by_cases h : (sigs.map (verifySignature P key msg)).any (fun o => o == .ok) = true
  · simp only [h, if_true, true_iff]
    rw [List.any_eq_true] at h
    obtain ⟨o, ho, hok⟩ := h
    rw [List.mem_map] at ho
    obtain ⟨ds, hds, rfl⟩ := ho
    exact ⟨ds, hds, by simpa using hok⟩
  · simp only [h, if_false]
    constructor
    · intro hc; cases hc
    · rintro ⟨ds, hds, hok⟩
      exfalso; apply h
      rw [List.any_eq_true]
      exact ⟨_, List.mem_map.mpr ⟨ds, hds, rfl⟩, by simp [hok]⟩

theorem witnessVerify_no_signature : witnessVerify [] = .err := by decide

/-- **witnessVerify_tie.** The model decides as the regenerated body of WitnessVerifier.VerifySignature does (no signature → error; then
the loop "some signature verifies → nil"; else error), the STH always being encodable. -/
theorem witnessVerify_tie (verdicts : List Outcome) :
    witnessVerify verdicts = .ok ↔
      Gen.witnessVerifySignature verdicts.isEmpty false (verdicts.any (fun o => o == .ok)) = false := by
  unfold witnessVerify Gen.witnessVerifySignature
  cases verdicts with
  | nil => simp
  | cons o os => cases h : (o :: os).any (fun o => o == Outcome.ok) <;> simp [h]

example : Gen.witnessVerifySignature true false false = true ∧ Gen.witnessVerifySignature false false true = false ∧
    Gen.witnessVerifySignature false false false = true := by decide
example : witnessVerify [.err, .ok, .err] = .ok ∧ witnessVerify [.err, .err] = .err := by decide

end C05Tie
