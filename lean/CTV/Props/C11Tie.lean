import CTV.Model.X509Wrap
import CTV.Gen.DerTie
import CTV.Model.DerTieSpec
/-!
# C11: the hand-written wrapper model follows the bodies regenerated from x509.go

`Gen.isFatalBody`, `Gen.parseCertificateBody`, `Gen.parseTBSCertificateBody` are the whole bodies of `IsFatal`, `ParseCertificate`
and `ParseTBSCertificate`; `Gen.parseCertificatesSplitStep` / `Gen.parseCertificatesInnerStep` are one iteration of each of the two
loops of `ParseCertificates` — translated statement by statement on every run (extract/k_dertie.go): the order of the tests, what each
return hands back (object: nil / what `parseCertificate` returned; error: nil / an envelope error / `parseCertificate`'s own error
passed on / the non-fatal collector), and the collector's count on the way. The theorems say that the model every C11 theorem is about
(`CTV.Model.X509`) decides exactly as those bodies do on the facts the model computes. A reordered test, a return that hands back
something else, a missing or extra `AddError` changes the regenerated body and breaks one of these equalities.
-/
set_option linter.unusedSimpArgs false
namespace CTV.Props.C11Tie
open CTV CTV.Der CTV.Model.X509

/-- `IsFatal` as the source has it, on the four facts it tests -/
theorem isFatal_tie (e : GoErr) :
    isFatal e = Gen.isFatalBody (e == .nil) (match e with | .nonFatalErrors _ => true | _ => false)
      (match e with | .errorsPtr _ => true | _ => false) (match e with | .errorsPtr fs => fs.any id | _ => false) := by
  simp only [Gen.isFatalBody_eq_spec]
  cases e with
  | errorsPtr fs => cases h : fs.any id <;> simp [isFatal, TieSpec.isFatalBody, h]
  | _ => simp [isFatal, TieSpec.isFatalBody]

/-- what a regenerated return stands for, given the pair `r` that `parseCertificate` returned: object code 1 = `r`'s object;
error code 0 nil, 1 an ordinary error of the envelope step, 2 `r`'s error unchanged, 3 the collector with its count -/
def decode (x : Int × Int × Nat) (r : Ret) : Ret :=
  ⟨x.1 == 1 && r.hasObj,
   if x.2.1 = 0 then .nil else if x.2.1 = 1 then .plain else if x.2.1 = 2 then r.err else .nonFatalErrors x.2.2⟩

def innerFails (r : Ret) : Bool := r.err != .nil
def innerIsNfe (r : Ret) : Bool := match r.err with | .nonFatalErrors _ => true | _ => false
def innerN (r : Ret) : Nat := match r.err with | .nonFatalErrors n => n | _ => 0

theorem mergeInner_tie (body : Bool → Bool → Bool → Bool → Bool → Nat → Int × Int × Nat)
    (hb : body = TieSpec.parseCertificateBody ∨ body = TieSpec.parseTBSCertificateBody) (r : Ret) (laxed : Bool) :
    mergeInner r (if laxed then 1 else 0) = decode (body laxed false false (innerFails r) (innerIsNfe r) (innerN r)) r := by
  obtain ⟨ho, e⟩ := r
  rcases hb with rfl | rfl <;> cases laxed <;> cases e <;>
    simp [mergeInner, finish, decode, innerFails, innerIsNfe, innerN, TieSpec.parseCertificateBody, TieSpec.parseTBSCertificateBody] <;>
    (try split) <;> simp_all <;> omega

/-- **ParseCertificate**: the model is the regenerated body on the facts "strict failed", "lax failed", "something is left over",
"parseCertificate returned an error", "that error is a NonFatalErrors value" and its count -/
theorem parseCertificate_tie (d : Dialect) (inner : AVal → Ret) (bs : Bytes) :
    CTV.Model.X509.parseCertificate d inner bs =
      match strictThenLax d Gen.ty_certificate bs with
      | none => decode (Gen.parseCertificateBody true true false false false 0) ⟨false, .nil⟩
      | some (cert, rest, laxed) =>
        decode (Gen.parseCertificateBody laxed false (!rest.isEmpty) (innerFails (inner cert)) (innerIsNfe (inner cert)) (innerN (inner cert))) (inner cert) := by
  simp only [Gen.parseCertificateBody_eq_spec]
  unfold CTV.Model.X509.parseCertificate
  cases strictThenLax d Gen.ty_certificate bs with
  | none => simp [decode, TieSpec.parseCertificateBody]
  | some x =>
    obtain ⟨cert, rest, laxed⟩ := x
    simp only []
    cases hr : rest.isEmpty with
    | true => simpa using mergeInner_tie _ (Or.inl rfl) (inner cert) laxed
    | false => cases laxed <;> simp [decode, TieSpec.parseCertificateBody]

/-- **ParseTBSCertificate**, likewise (the envelope is the TBS; `parseCertificate` is handed `certOfTBS`) -/
theorem parseTBSCertificate_tie (d : Dialect) (inner : AVal → Ret) (bs : Bytes) :
    parseTBSCertificate d inner bs =
      match strictThenLax d Gen.ty_tbsCertificate bs with
      | none => decode (Gen.parseTBSCertificateBody true true false false false 0) ⟨false, .nil⟩
      | some (tbs, rest, laxed) =>
        let r := inner (certOfTBS tbs)
        decode (Gen.parseTBSCertificateBody laxed false (!rest.isEmpty) (innerFails r) (innerIsNfe r) (innerN r)) r := by
  simp only [Gen.parseTBSCertificateBody_eq_spec]
  unfold parseTBSCertificate
  cases strictThenLax d Gen.ty_tbsCertificate bs with
  | none => simp [decode, TieSpec.parseTBSCertificateBody]
  | some x =>
    obtain ⟨tbs, rest, laxed⟩ := x
    simp only []
    cases hr : rest.isEmpty with
    | true => simpa using mergeInner_tie _ (Or.inr rfl) (inner (certOfTBS tbs)) laxed
    | false => cases laxed <;> simp [decode, TieSpec.parseTBSCertificateBody]

/-- **ParseCertificates, second loop**: one step of `innerAllR` is one iteration of the regenerated loop body (error code 9 = next
element, with the collector's new count; 2 = `parseCertificate`'s error handed back with a nil slice) -/
theorem innerAll_step_tie (r : Ret) (rs : List Ret) (nfe : Nat) :
    innerAllR (r :: rs) nfe =
      (let x := Gen.parseCertificatesInnerStep (innerFails r) (innerIsNfe r) (innerN r) nfe
       if x.2.1 = 9 then innerAllR rs x.2.2 else decode x r) := by
  simp only [Gen.parseCertificatesInnerStep_eq_spec]
  obtain ⟨ho, e⟩ := r
  cases e <;> simp [innerAllR, decode, innerFails, innerIsNfe, innerN, TieSpec.parseCertificatesInnerStep]

/-- **ParseCertificates, first loop**: one step of `splitCertificates` on a non-empty remainder is one iteration of the regenerated
loop body; the retry "fails" also when it is not handed the input (`keepsInput = false`, the state before fix C11-1) -/
theorem split_step_tie (d : Dialect) (keeps : Bool) (f : Nat) (b : UInt8) (bs : Bytes) :
    splitCertificates d keeps (f + 1) (b :: bs) =
      (let strict := parseField d .strict Gen.ty_certificate {} (b :: bs)
       let lax := parseField d .lax Gen.ty_certificate {} (b :: bs)
       let strictFails := match strict with | .ok _ => false | .error _ => true
       let laxFails := !keeps || (match lax with | .ok _ => false | .error _ => true)
       let x := Gen.parseCertificatesSplitStep strictFails laxFails 0
       if x.2.1 = 9 then
         match (if strictFails then lax else strict) with
         | .ok (v, r) => (splitCertificates d keeps f r).map fun (vs, n) => (v :: vs, n + x.2.2)
         | .error _ => none
       else none) := by
  simp only [Gen.parseCertificatesSplitStep_eq_spec]
  simp only [splitCertificates]
  cases hs : parseField d .strict Gen.ty_certificate {} (b :: bs) with
  | ok y =>
    obtain ⟨v, r⟩ := y
    simp [TieSpec.parseCertificatesSplitStep]
    cases splitCertificates d keeps f r <;> simp
  | error e =>
    cases keeps with
    | false => simp [TieSpec.parseCertificatesSplitStep]
    | true =>
      cases hl : parseField d .lax Gen.ty_certificate {} (b :: bs) with
      | ok y =>
        obtain ⟨v, r⟩ := y
        simp [TieSpec.parseCertificatesSplitStep]
        cases splitCertificates d true f r <;> simp
      | error e2 => simp [TieSpec.parseCertificatesSplitStep]

-- non-vacuity: the regenerated bodies on concrete facts
example : Gen.isFatalBody false true false false = false ∧ Gen.isFatalBody false false false false = true := by decide
example : Gen.parseCertificateBody true false false true true 2 = (1, 3, 3) := by decide      -- lax retry + two inner non-fatal errors
example : Gen.parseCertificateBody false false false true false 0 = (0, 2, 0) := by decide   -- parseCertificate's fatal error, nil object
example : Gen.parseCertificateBody false false true false false 0 = (0, 1, 0) := by decide   -- trailing data
example : Gen.parseTBSCertificateBody true true false false false 0 = (0, 1, 0) := by decide
example : Gen.parseCertificatesInnerStep true true 1 1 = (0, 9, 2) ∧ Gen.parseCertificatesSplitStep true false 0 = (0, 9, 1) := by decide

end CTV.Props.C11Tie
