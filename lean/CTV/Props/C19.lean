import CTV.Lemmas.Witness
/-!
# C19 — the witness only ever cosigns a forward-moving, consistent history per log

Theorems over the hand-written model `CTV.Model.Witness` (tied to
`internal/witness/cmd/witness/internal/witness/witness.go` by the correspondence run of this
check, which also ties `Merkle.verifyConsistency` to `proof.VerifyConsistency`).
They hold for **every** history `ops : List Op` over any number of logs — each `Op` is one call, a
database transaction is one atomic step, so "for all interleavings" is "for all `List Op`" — for
every configuration `env` (any set of logs, any signature verdict function, any hash function) and
for every submitted STH and proof, including forged ones.

Hypotheses that are *not* discharged: serialisable transactions (one `Op` = one atomic step; the
harness validates recorded concurrent histories against this), `Scheme.correct` for the cosignature,
and `Merkle.NoCollision` (a hypothesis structure, never an axiom) for "genuine extension".
-/
set_option linter.unusedVariables false
set_option linter.unusedSectionVars false
namespace C19
open CTV CTV.Model.Witness Merkle

section
variable {Hash Sig CoSig : Type} [DecidableEq Hash]
variable (env : Env Hash Sig CoSig)

/-! ## stored_signed -/

/-- **stored_signed.** After any history, every row of the table belongs to a configured log whose
    ID decodes, names that log or no log, and carries a signature that the configured verifier of
    that log accepts over exactly the stored `(timestamp, tree_size, root)`. -/
theorem stored_signed (ops : List (Op Hash Sig)) (id : LogId) (s : Sth Hash Sig)
    (h : run env Db.empty ops id = some s) :
    env.known id = true ∧
    (∃ idh, env.idOf id = some idh ∧ (s.idField = none ∨ s.idField = some idh)) ∧
    env.verify id s.ts s.size s.root s.sig = true := by
  obtain ⟨p, hp⟩ := inv_run env ops Db.empty (inv_empty env) id s h
  obtain ⟨hk, idh, hid, hf, hv, _⟩ := parse_ok env hp
  exact ⟨hk, ⟨idh, hid, hf⟩, hv⟩

/-- The same from any table whose rows parse (a pre-existing database written under the same
    configuration), not only from the empty table. -/
theorem stored_signed_from (db0 : Db Hash Sig) (h0 : Inv env db0) (ops : List (Op Hash Sig)) (id : LogId) (s : Sth Hash Sig)
    (h : run env db0 ops id = some s) :
    env.known id = true ∧
    (∃ idh, env.idOf id = some idh ∧ (s.idField = none ∨ s.idField = some idh)) ∧
    env.verify id s.ts s.size s.root s.sig = true := by
  obtain ⟨p, hp⟩ := inv_run env ops db0 h0 id s h
  obtain ⟨hk, idh, hid, hf, hv, _⟩ := parse_ok env hp
  exact ⟨hk, ⟨idh, hid, hf⟩, hv⟩

/-- **cosigns only signed STHs.** In any history, every reply that carries a cosignature carries it
    over an STH with a valid signature of the configured log that the call addressed; and after an
    `update` answered that way, the row of that log holds exactly the submitted raw STH. -/
theorem cosigned_signed (ops : List (Op Hash Sig)) (t : Tr Hash Sig CoSig)
    (ht : t ∈ trace env Db.empty ops) (s : Sth Hash Sig) (c : CoSig) (hr : t.reply = .cosigned s c) :
    ∃ id, (t.op = .getSTH id ∨ ∃ raw pf, t.op = .update id raw pf) ∧
      env.known id = true ∧ env.verify id s.ts s.size s.root s.sig = true ∧
      s.idField = env.idOf id ∧
      (∀ n pf, t.op = .update id (.sth n) pf → t.post id = some n ∧ parse env id (.sth n) = .ok s) := by
  obtain ⟨o1, o2, _, hpre, hpost, hrep⟩ := mem_trace env ops Db.empty t ht
  have hinv : Inv env t.pre := by rw [hpre]; exact inv_run env o1 _ (inv_empty env)
  rw [hr] at hrep
  cases hop : t.op with
  | getLogs => rw [hop] at hrep; simp [step] at hrep
  | getSTH id =>
    rw [hop] at hrep
    simp only [step] at hrep
    obtain ⟨raw, hdb, hp, _⟩ := getSTH_cosigned env hrep.symm
    obtain ⟨hk, idh, hid, hf, hv, hpe⟩ := parse_ok env hp
    refine ⟨id, Or.inl rfl, hk, ?_, ?_, ?_⟩
    · rw [hpe]; exact hv
    · rw [hpe, hid]
    · intro n pf h; cases h
  | update id raw pf =>
    rw [hop] at hrep hpost
    simp only [step] at hrep hpost
    obtain ⟨n, hraw, hacc, _, heq⟩ := update_cosigned env hrep.symm
    rw [heq] at hpost
    obtain ⟨hk, idh, hid, hf, hv, hpe⟩ := parse_ok env hacc.parsed
    refine ⟨id, Or.inr ⟨raw, pf, rfl⟩, hk, ?_, ?_, ?_⟩
    · rw [hpe]; exact hv
    · rw [hpe, hid]
    · intro n' pf' h
      simp only [Op.update.injEq] at h
      obtain ⟨_, hr', _⟩ := h
      rw [hraw] at hr'
      cases hr'
      exact ⟨by rw [hpost]; exact Db.set_same _ _ _, hacc.parsed⟩

/-! ## monotone -/

/-- One call: a row never disappears; if it changes, the new head is strictly larger and
    `verifyConsistency` accepted the **submitted** proof between the held and the new
    `(size, root)` — there is no other way for a row to change. -/
theorem step_monotone (db : Db Hash Sig) (op : Op Hash Sig) (id : LogId) (s : Sth Hash Sig) (h : db id = some s) :
    ∃ s', (step env db op).1 id = some s' ∧
      (s' = s ∨ (s.size < s'.size ∧ ∃ pf, op = .update id (.sth s') pf ∧
        verifyConsistency env.nodeH s.size s'.size pf s.root s'.root = true)) := by
  cases op with
  | getSTH x => exact ⟨s, h, Or.inl rfl⟩
  | getLogs => exact ⟨s, h, Or.inl rfl⟩
  | update x raw pf =>
    simp only [step]
    have hset : ∀ (n next : Sth Hash Sig), raw = .sth n → Accepted env db x n pf next →
        ∃ s', (db.set x n) id = some s' ∧ (s' = s ∨ (s.size < s'.size ∧ ∃ pf', Op.update x raw pf = .update id (.sth s') pf' ∧
          verifyConsistency env.nodeH s.size s'.size pf' s.root s'.root = true)) := by
      intro n next hraw hacc
      by_cases hx : id = x
      · subst hx
        refine ⟨n, Db.set_same _ _ _, Or.inr ?_⟩
        rcases hacc.link with hnone | ⟨prevRaw, hprev, hlt, hv⟩
        · rw [h] at hnone; cases hnone
        · rw [h] at hprev; cases hprev
          exact ⟨hlt, pf, by rw [hraw], hv⟩
      · exact ⟨s, by show (db.set x n) id = some s; rw [Db.set_other _ _ _ _ hx]; exact h, Or.inl rfl⟩
    rcases update_spec env db x raw pf with ⟨k, _, h1⟩ | ⟨s', f, h1, _⟩ | ⟨n, next, c, hraw, hacc, _, heq⟩ | ⟨n, next, hraw, hacc, _, heq⟩
    · rw [h1]; exact ⟨s, h, Or.inl rfl⟩
    · rw [h1]; exact ⟨s, h, Or.inl rfl⟩
    · rw [heq]; exact hset n next hraw hacc
    · -- signing failed: the row is written or not, according to the order the code has; either way it only moves forward
      rw [heq]
      by_cases hg : Gen.witnessSignsBeforeCommit = true
      · simp only [hg, if_true]; exact ⟨s, h, Or.inl rfl⟩
      · simp only [hg, if_false]; exact hset n next hraw hacc

variable {α : Type} (leafH : α → Hash) (emptyH : Hash)

/-- `s'` commits to an extension of what `s` commits to: whatever list of leaves the later root is
    the genuine RFC 6962 tree hash of, the earlier root is the genuine tree hash of its first
    `s.size` leaves — unless a hash value of that tree has a second preimage (`NoCollision`).
    (Nothing is claimed for an earlier head of size 0: the verifier the witness calls does not look
    at its root, and every tree extends the empty tree.) -/
def Extends (s s' : Sth Hash Sig) : Prop :=
  ∀ l : List α, l.length = s'.size → mth leafH env.nodeH emptyH l = s'.root →
    NoCollision leafH env.nodeH emptyH l → 0 < s.size →
    s.size ≤ l.length ∧ s.root = mth leafH env.nodeH emptyH (l.take s.size)

theorem extends_refl (s : Sth Hash Sig) : Extends env leafH emptyH s s := by
  intro l hl hr _ _
  refine ⟨by omega, ?_⟩
  rw [← hl, List.take_length, hr]

theorem extends_trans (a b c : Sth Hash Sig) (hab : Extends env leafH emptyH a b) (hbc : Extends env leafH emptyH b c)
    (hle : a.size ≤ b.size) : Extends env leafH emptyH a c := by
  intro l hl hr nc hpos
  obtain ⟨hb1, hb2⟩ := hbc l hl hr nc (by omega)
  have := hab (l.take b.size) (by simp; omega) hb2.symm (nc.take leafH env.nodeH emptyH _) hpos
  refine ⟨by omega, ?_⟩
  rw [this.2, List.take_take]
  congr 2
  omega

/-- One accepted proof gives `Extends` — this is where Merkle soundness enters. -/
theorem extends_of_verified (s s' : Sth Hash Sig) (pf : List Hash)
    (hv : verifyConsistency env.nodeH s.size s'.size pf s.root s'.root = true) :
    Extends env leafH emptyH s s' := by
  intro l hl hr nc hpos
  rw [← hl, ← hr] at hv
  exact verifyConsistency_sound leafH env.nodeH emptyH l s.size pf s.root nc hpos hv

/-- **monotone.** Over any history `ops` from any state `db` (so: between any two moments of any
    history): the row of a log never disappears, its size never decreases, equal size means the very
    same stored STH (in particular the same root), and the later head is a genuine extension of the
    earlier one in the sense of `Extends`. -/
theorem monotone (ops : List (Op Hash Sig)) : ∀ (db : Db Hash Sig) (id : LogId) (s : Sth Hash Sig), db id = some s →
    ∃ s', run env db ops id = some s' ∧ s.size ≤ s'.size ∧ (s.size = s'.size → s' = s) ∧
      Extends env leafH emptyH s s' := by
  induction ops with
  | nil =>
    intro db id s h
    exact ⟨s, h, Nat.le_refl _, fun _ => rfl, extends_refl env leafH emptyH s⟩
  | cons op ops ih =>
    intro db id s h
    obtain ⟨s1, h1, hs1⟩ := step_monotone env db op id s h
    obtain ⟨s2, h2, hle, heq, hext⟩ := ih (step env db op).1 id s1 h1
    refine ⟨s2, h2, ?_⟩
    rcases hs1 with rfl | ⟨hlt, pf, _, hv⟩
    · exact ⟨hle, heq, hext⟩
    · refine ⟨by omega, fun h => by omega, ?_⟩
      exact extends_trans env leafH emptyH s s1 s2 (extends_of_verified env leafH emptyH s s1 pf hv) hext (by omega)

/-- Corollary in the two-genuine-heads form: if the earlier head is the genuine root of `l1` and the
    later head the genuine root of `l2`, then `l1` **is** the prefix of `l2` (append-only). -/
theorem monotone_prefix (ops : List (Op Hash Sig)) (db : Db Hash Sig) (id : LogId) (s s' : Sth Hash Sig)
    (h : db id = some s) (h' : run env db ops id = some s')
    (l1 l2 : List α) (h1 : l1.length = s.size) (hr1 : mth leafH env.nodeH emptyH l1 = s.root)
    (h2 : l2.length = s'.size) (hr2 : mth leafH env.nodeH emptyH l2 = s'.root)
    (nc : NoCollision leafH env.nodeH emptyH l2) (hpos : 0 < s.size) :
    l1 = l2.take l1.length := by
  obtain ⟨s'', hrun, _, _, hext⟩ := monotone env leafH emptyH ops db id s h
  rw [h'] at hrun; cases hrun
  obtain ⟨hle, hroot⟩ := hext l2 h2 hr2 nc hpos
  rw [h1]
  exact mth_inj leafH env.nodeH emptyH s.size l1 (l2.take s.size) h1 (by simp; omega)
    (nc.take leafH env.nodeH emptyH _) (by rw [hr1, hroot])

/-! ## refused_unchanged -/

/-- `refused_unchanged` for code that cosigns before it commits (the order is the regenerated fact
    `Gen.witnessSignsBeforeCommit`, rewritten from witness.go on every run). -/
theorem refused_unchanged_if_fixed (hfix : Gen.witnessSignsBeforeCommit = true)
    (db : Db Hash Sig) (id : LogId) (raw : Raw Hash Sig) (pf : List Hash)
    (h : ∀ s c, (update env db id raw pf).2 ≠ .cosigned s c) :
    (update env db id raw pf).1 = db ∧
    (∀ s f, (update env db id raw pf).2 = .held s f → db id = some s) := by
  rcases update_spec env db id raw pf with ⟨k, _, h1⟩ | ⟨s', f, h1, hd⟩ | ⟨n, next, c, hraw, hacc, _, heq⟩ | ⟨n, next, _, _, _, heq⟩
  · rw [h1]; exact ⟨rfl, fun s f hh => by cases hh⟩
  · rw [h1]; exact ⟨rfl, fun s f hh => by cases hh; exact hd⟩
  · exact absurd (by rw [heq]) (h next c)
  · rw [heq, hfix]; exact ⟨rfl, fun s f hh => by cases hh⟩

/-- **refused_unchanged.** An update whose reply carries no cosignature — an error of any kind,
    *including a failed `signSTH`*, or the raw held STH — leaves the whole table unchanged; a reply that
    carries a raw STH carries the currently held one. Unconditional since /repo 3ba70e2 (finding C19-1,
    fixed): `Update` cosigns before `setSTH` commits; the proof discharges the order by evaluating the
    regenerated `Gen.witnessSignsBeforeCommit`, so it stops building if the source stores first again. -/
theorem refused_unchanged (db : Db Hash Sig) (id : LogId) (raw : Raw Hash Sig) (pf : List Hash)
    (h : ∀ s c, (update env db id raw pf).2 ≠ .cosigned s c) :
    (update env db id raw pf).1 = db ∧
    (∀ s f, (update env db id raw pf).2 = .held s f → db id = some s) :=
  refused_unchanged_if_fixed env (by decide) db id raw pf h

/-- A failed signature in particular: an acceptable first-use update of a witness that cannot sign is
    answered with the signing error and **nothing is stored** (before 3ba70e2 the row was written). -/
theorem sign_failure_refused (db : Db Hash Sig) (id : LogId) (n next : Sth Hash Sig) (pf : List Hash)
    (hp : parse env id (.sth n) = .ok next) (hd : db id = none) (hc : env.cosign next = none) :
    update env db id (.sth n) pf = (db, .err .sign) := by
  have hk := (parse_ok env hp).1
  have hg : Gen.witnessSignsBeforeCommit = true := by decide
  unfold update
  rw [if_neg (by simp [hk])]
  dsimp only
  rw [hp]; dsimp only
  rw [hd]; dsimp only
  unfold accept
  rw [hc]; simp [hg]

/-- A validly signed STH that is **stale** (smaller than the held one), **inconsistent** (same size,
    other root) or comes with a proof the verifier rejects is answered with the held raw STH and
    FailedPrecondition, and nothing is stored — in every state reachable from the empty table. -/
theorem stale_or_inconsistent_answered_with_held (ops : List (Op Hash Sig)) (id : LogId) (n next held : Sth Hash Sig)
    (pf : List Hash) (hp : parse env id (.sth n) = .ok next)
    (hh : run env Db.empty ops id = some held)
    (hbad : n.size < held.size ∨ (n.size = held.size ∧ n.root ≠ held.root) ∨
      (held.size < n.size ∧ verifyConsistency env.nodeH held.size n.size pf held.root n.root = false)) :
    update env (run env Db.empty ops) id (.sth n) pf = (run env Db.empty ops, .held held true) := by
  obtain ⟨prev, hpp⟩ := inv_run env ops Db.empty (inv_empty env) id held hh
  have hk := (parse_ok env hp).1
  have hf := parse_fields env hp
  have hfp := parse_fields env hpp
  unfold update
  rw [if_neg (by simp [hk])]
  dsimp only
  rw [hp]; dsimp only
  rw [hh]; dsimp only
  rw [hpp]; dsimp only
  rw [hf.1, hf.2.1, hfp.1, hfp.2.1]
  rcases hbad with h | ⟨h1, h2⟩ | ⟨h1, h2⟩
  · rw [if_pos h]
  · rw [if_neg (by omega), if_pos h1, if_pos h2]
  · rw [if_neg (by omega), if_neg (by omega), h2]; simp

/-- A resubmission of the held size and root (possibly re-signed) is answered with the held raw STH
    without an error and without a cosignature; nothing is stored. -/
theorem same_head_answered_with_held (ops : List (Op Hash Sig)) (id : LogId) (n next held : Sth Hash Sig)
    (pf : List Hash) (hp : parse env id (.sth n) = .ok next)
    (hh : run env Db.empty ops id = some held) (hs : n.size = held.size) (hr : n.root = held.root) :
    update env (run env Db.empty ops) id (.sth n) pf = (run env Db.empty ops, .held held false) := by
  obtain ⟨prev, hpp⟩ := inv_run env ops Db.empty (inv_empty env) id held hh
  have hk := (parse_ok env hp).1
  have hf := parse_fields env hp
  have hfp := parse_fields env hpp
  unfold update
  rw [if_neg (by simp [hk])]
  dsimp only
  rw [hp]; dsimp only
  rw [hh]; dsimp only
  rw [hpp]; dsimp only
  rw [hf.1, hf.2.1, hfp.1, hfp.2.1]
  rw [if_neg (by omega), if_pos hs, if_neg (by simp [hr])]

/-- Everything `parse` refuses (unknown log, undecodable JSON or log ID, other log's ID, bad
    signature) is answered with an error and no STH; nothing is stored. -/
theorem invalid_refused (db : Db Hash Sig) (id : LogId) (raw : Raw Hash Sig) (pf : List Hash)
    (h : ∀ p, parse env id raw ≠ .ok p) :
    ∃ k, update env db id raw pf = (db, .err k) := by
  rcases update_spec env db id raw pf with ⟨k, _, h1⟩ | ⟨s', f, h1, hd⟩ | ⟨n, next, c, hraw, hacc, _, heq⟩ | ⟨n, next, hraw, hacc, _, _⟩
  · exact ⟨k, h1⟩
  · -- a `held` reply is only produced after the submitted STH parsed
    exfalso
    unfold update at h1
    by_cases hk : env.known id = true
    · rw [if_neg (by simp [hk])] at h1
      cases raw with
      | garbage => simp at h1
      | sth n =>
        dsimp only at h1
        cases hp : parse env id (.sth n) with
        | error e => rw [hp] at h1; simp at h1
        | ok p => exact h p hp
    · rw [if_pos (by simp [hk])] at h1; simp at h1
  · rw [hraw] at h; exact absurd hacc.parsed (h next)
  · rw [hraw] at h; exact absurd hacc.parsed (h next)

/-! ## accepted updates (so that none of the above is vacuous) -/

/-- Trust on first use: a validly signed STH for a log without a row is stored and cosigned. -/
theorem tofu (db : Db Hash Sig) (id : LogId) (n next : Sth Hash Sig) (pf : List Hash) (c : CoSig)
    (hp : parse env id (.sth n) = .ok next) (hd : db id = none) (hc : env.cosign next = some c) :
    update env db id (.sth n) pf = (db.set id n, .cosigned next c) := by
  have hk := (parse_ok env hp).1
  unfold update
  rw [if_neg (by simp [hk])]
  dsimp only
  rw [hp]; dsimp only
  rw [hd]; dsimp only
  unfold accept; rw [hc]

/-- An honest log is followed: if the held head is the genuine head of the first `m` leaves and the
    new, validly signed head is the genuine head of all of `l` (`m < |l|`), the RFC 6962
    consistency proof is accepted, the new raw STH stored and cosigned. -/
theorem honest_update_accepted (ops : List (Op Hash Sig)) (id : LogId) (n next held : Sth Hash Sig) (l : List α) (c : CoSig)
    (hp : parse env id (.sth n) = .ok next) (hcs : env.cosign next = some c)
    (hh : run env Db.empty ops id = some held)
    (hm : held.size < l.length) (hroot : held.root = mth leafH env.nodeH emptyH (l.take held.size))
    (hn : n.size = l.length) (hnroot : n.root = mth leafH env.nodeH emptyH l) :
    update env (run env Db.empty ops) id (.sth n)
        (if held.size = 0 then [] else consProof leafH env.nodeH emptyH held.size l)
      = ((run env Db.empty ops).set id n, .cosigned next c) := by
  obtain ⟨prev, hpp⟩ := inv_run env ops Db.empty (inv_empty env) id held hh
  have hk := (parse_ok env hp).1
  have hf := parse_fields env hp
  have hfp := parse_fields env hpp
  have hc := verifyConsistency_complete leafH env.nodeH emptyH l held.size (by omega)
  have hne : ¬ held.size = l.length := by omega
  simp only [hne, or_false] at hc
  unfold update
  rw [if_neg (by simp [hk])]
  dsimp only
  rw [hp]; dsimp only
  rw [hh]; dsimp only
  rw [hpp]; dsimp only
  rw [hf.1, hf.2.1, hfp.1, hfp.2.1, hn, hnroot, hroot]
  rw [if_neg (by omega), if_neg (by omega)]
  rw [if_pos hc]
  unfold accept; rw [hcs]

end

/-! ## cosig_verifies -/

/-- Abstract signature scheme (the primitive itself is trusted, not modelled). -/
structure Scheme (SK PK Msg S : Type) where
  pub : SK → PK
  sign : SK → Msg → S
  verify : PK → Msg → S → Bool
  correct : ∀ k m, verify (pub k) m (sign k m) = true

section
variable {Hash Sig SK PK Msg S : Type} [DecidableEq Hash]

/-- **cosig_verifies** (relative to the primitive and to the hypothesis `henv` that `signSTH` signs
    `enc` of the very STH it returns — what the theorem adds is that *every* reply of *every* history
    pairs the cosignature with that STH, for `GetSTH` as for `Update`; that `enc` is the real
    `tls.Marshal(SignedTreeHead)` is the `cosin` correspondence + `cosigInput_inj` below).
    If the witness cosigns by signing an encoding `enc` of the STH it returns
    with its key `wk`, then in every history every cosignature verifies under the witness' public key
    over (the encoding of) exactly the STH it accompanies. -/
theorem cosig_verifies (sch : Scheme SK PK Msg S) (wk : SK) (enc : Sth Hash Sig → Msg)
    (env : Env Hash Sig S) (henv : ∀ s c, env.cosign s = some c → c = sch.sign wk (enc s))
    (ops : List (Op Hash Sig)) (db : Db Hash Sig) (t : Tr Hash Sig S) (ht : t ∈ trace env db ops)
    (s : Sth Hash Sig) (c : S) (hr : t.reply = .cosigned s c) :
    sch.verify (sch.pub wk) (enc s) c = true := by
  obtain ⟨o1, o2, _, hpre, hpost, hrep⟩ := mem_trace env ops db t ht
  rw [hr] at hrep
  have key : env.cosign s = some c := by
    cases hop : t.op with
    | getLogs => rw [hop] at hrep; simp [step] at hrep
    | getSTH id =>
      rw [hop] at hrep
      simp only [step] at hrep
      obtain ⟨_, _, _, hc⟩ := getSTH_cosigned env hrep.symm
      exact hc
    | update id raw pf =>
      rw [hop] at hrep
      simp only [step] at hrep
      obtain ⟨_, _, _, hc, _⟩ := update_cosigned env hrep.symm
      exact hc
  rw [henv s c key]
  exact sch.correct wk (enc s)

/-! ### what is signed: `tls.Marshal(SignedTreeHead)` -/

theorem beEnc_inj (w a b : Nat) (ha : a < 256 ^ w) (hb : b < 256 ^ w) (h : beEnc w a = beEnc w b) : a = b := by
  have := congrArg beDec h
  rwa [beDec_beEnc w a ha, beDec_beEnc w b hb] at this

/-- **The signed bytes determine the STH.** `cosigInput` (the layout of `tls.Marshal(ct.SignedTreeHead)`,
    compared with the real bytes on every run) is injective on well-formed heads: one cosignature cannot
    be "over" two different (size, timestamp, root, log signature, log ID). With `cosig_verifies`
    instantiated at `enc s := cosigInput …` this is what "verifies over the STH it accompanies" means at
    byte level; the tie of `cosigInput` to the Go encoder is by correspondence, not by proof. -/
theorem cosigInput_inj (size ts size' ts' ha sa ha' sa' : Nat) (root root' sig sig' lid lid' : Bytes)
    (h1 : size < 2 ^ 64) (h1' : size' < 2 ^ 64) (h2 : ts < 2 ^ 64) (h2' : ts' < 2 ^ 64)
    (hr : root.length = 32) (hr' : root'.length = 32)
    (h3 : ha < 256) (h3' : ha' < 256) (h4 : sa < 256) (h4' : sa' < 256)
    (hs : sig.length < 2 ^ 16) (hs' : sig'.length < 2 ^ 16)
    (h : cosigInput size ts root ha sa sig lid = cosigInput size' ts' root' ha' sa' sig' lid') :
    size = size' ∧ ts = ts' ∧ root = root' ∧ ha = ha' ∧ sa = sa' ∧ sig = sig' ∧ lid = lid' := by
  unfold cosigInput at h
  simp only [List.append_assoc, List.cons_append, List.nil_append] at h
  obtain ⟨e1, h⟩ := List.append_inj h (by simp [beEnc_length])
  obtain ⟨e2, h⟩ := List.append_inj h (by simp [beEnc_length])
  obtain ⟨e3, h⟩ := List.append_inj h (by rw [hr, hr'])
  simp only [List.cons.injEq] at h
  obtain ⟨e4, e5, h⟩ := h
  obtain ⟨e6, h⟩ := List.append_inj h (by simp [beEnc_length])
  have hl : sig.length = sig'.length := beEnc_inj 2 _ _ (by simpa using hs) (by simpa using hs') e6
  obtain ⟨e7, e8⟩ := List.append_inj h hl
  have u8 : ∀ a b : Nat, a < 256 → b < 256 → UInt8.ofNat a = UInt8.ofNat b → a = b := by
    intro a b ha hb hab
    have := congrArg UInt8.toNat hab
    simp only [UInt8.toNat_ofNat'] at this
    omega
  exact ⟨beEnc_inj 8 _ _ (by simpa using h1) (by simpa using h1') e1,
    beEnc_inj 8 _ _ (by simpa using h2) (by simpa using h2') e2, e3, u8 _ _ h3 h3' e4, u8 _ _ h4 h4' e5, e7, e8⟩

example : cosigInput 1 2 (List.replicate 32 0xaa) 4 3 [1, 2, 3] (List.replicate 32 0xbb) =
    beEnc 8 1 ++ beEnc 8 2 ++ List.replicate 32 0xaa ++ [4, 3, 0, 3, 1, 2, 3] ++ List.replicate 32 0xbb := by decide

end

/-! ## non-vacuity: a concrete configuration and history -/

namespace Ex
/-- toy instance: hashes are naturals, `nodeH a b = 2^a * 3^b`-free pairing replaced by a simple injective-looking map -/
def env : Env Nat Bool Nat where
  logList := ["A", "B"]
  idOf := fun id => if id = "A" then some [1] else if id = "B" then some [2] else none
  verify := fun _ _ _ _ s => s
  cosign := fun s => some (s.size + 1000)
  nodeH := fun a b => 1000 * a + b + 7

def leafH (d : Nat) : Nat := d + 1
def leaves : List Nat := [10, 20, 30]
def h1 : Sth Nat Bool := ⟨1, 5, 11, none, true, "r1"⟩
-- root of [10,20,30] = nodeH (nodeH 11 21) 31
def h3 : Sth Nat Bool := ⟨3, 6, 1000 * (1000 * 11 + 21 + 7) + 31 + 7, some [1], true, "r3"⟩
def forged : Sth Nat Bool := ⟨3, 6, 99, none, true, "f3"⟩
def unsigned : Sth Nat Bool := ⟨9, 9, 9, none, false, "u"⟩
end Ex

/-- `stored_signed` / `tofu`: the first valid STH is stored. -/
example : (run Ex.env Db.empty [.update "A" (.sth Ex.h1) []]) "A" = some Ex.h1 := by
  simp [run, step, update, accept, parse, Env.known, Ex.env, Ex.h1, idMismatch, Db.empty, Db.set]

/-- an unsigned STH and an STH for an unknown log are refused (hypotheses of `invalid_refused`). -/
example : ∀ p, parse Ex.env "A" (.sth Ex.unsigned) ≠ .ok p := by
  intro p; simp [parse, Env.known, Ex.env, Ex.unsigned, idMismatch]
example : ∀ p, parse Ex.env "C" (.sth Ex.h1) ≠ .ok p := by
  intro p; simp [parse, Env.known, Ex.env]

/-- hypotheses of `honest_update_accepted` are satisfiable: held head = genuine head of 1 leaf,
    new head = genuine head of 3 leaves. -/
example : Ex.h1.root = mth Ex.leafH Ex.env.nodeH 0 (Ex.leaves.take Ex.h1.size) ∧
    Ex.h3.root = mth Ex.leafH Ex.env.nodeH 0 Ex.leaves ∧
    parse Ex.env "A" (.sth Ex.h3) = .ok Ex.h3 := by
  refine ⟨?_, ?_, ?_⟩
  · simp [Ex.h1, Ex.leaves, mth_single, Ex.leafH]
  · have h2 : split 3 = 2 := split_unique (a := 1) (by omega) (by omega)
    have h2' : split 2 = 1 := split_unique (a := 0) (by omega) (by omega)
    rw [mth_node _ _ _ _ (by simp [Ex.leaves])]
    simp only [Ex.leaves, List.length_cons, List.length_nil, h2, List.take, List.drop]
    rw [mth_node _ _ _ _ (by simp)]
    simp [h2', mth_single, Ex.leafH, Ex.env, Ex.h3]
  · simp [parse, Env.known, Ex.env, Ex.h3, idMismatch]

/-- `stale_or_inconsistent_answered_with_held`: a same-size head with another root is a case of `hbad`. -/
example : Ex.forged.size = Ex.h3.size ∧ Ex.forged.root ≠ Ex.h3.root := by
  simp [Ex.forged, Ex.h3]

/-- `cosig_verifies`: a (toy) scheme satisfying `Scheme.correct` exists, and `Ex.env` cosigns with it. -/
example : ∃ sch : Scheme Nat Nat Nat Nat, ∀ s c, Ex.env.cosign s = some c → c = sch.sign 1000 s.size :=
  ⟨⟨id, fun k m => m + k, fun pk m s => s == m + pk, by intro k m; simp⟩, by
    intro s c h; simp only [Ex.env, Option.some.injEq] at h; exact h.symm⟩

/-- `sign_failure_refused`: a witness that cannot sign (hypothesis `hc`) is a configuration of the model. -/
example : ({ Ex.env with cosign := fun _ => none } : Env Nat Bool Nat).cosign Ex.h1 = none := rfl
example : Gen.witnessSignsBeforeCommit = true := by decide

end C19
