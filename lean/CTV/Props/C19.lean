import CTV.Model.Witness
namespace C19
theorem placeholder : True := trivial
end C19
