import CTV.Model.AddChain
namespace C01
open CTV CTV.Model.AddChain

theorem extra_layout (pre : Bytes) (cs : List Bytes) : precertChainEntry pre cs = vec 3 pre ++ certChain cs := rfl

end C01
