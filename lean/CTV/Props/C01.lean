import CTV.Lemmas.AddChain
/-!
# C01 — an issued SCT binds the submitted entry, the stored leaf and the log key

Theorems over `CTV.Model.AddChain`: `addChainInternal` after chain validation, against a de-duplicating
backend, for every history of submissions.  The byte layouts are the RFC 6962 ones (section `Rfc` of the
model, written from the RFC text); the hash `H`, the signer and the precertificate TBS transformation are
parameters (`Cfg`).  The model is tied to the handler by the C01 correspondence run, which also checks the
same clauses on the real outputs with an independent client.
-/
namespace C01
open CTV CTV.Model.AddChain

/-- An abstract signature scheme for the log key: whatever the signer returns for a digest verifies. -/
structure Scheme (cfg : Cfg) where
  verify : Bytes → Bytes → Bool
  correct : ∀ d, verify d (cfg.sign d) = true

/-- Identity hashes identify entries within the history: two submissions whose leaf certificates have the same
hash derive the same entry.  (Collision-freeness of `H` on the submitted leaf certificates, and — for
precertificates — the same leaf never arriving with two different issuers.) -/
def Consistent (cfg : Cfg) (U : List Submit) : Prop :=
  ∀ a ∈ U, ∀ b ∈ U, ∀ la lb, a.path.head? = some la → b.path.head? = some lb → cfg.H la.der = cfg.H lb.der →
    entryOf cfg a.path a.isPrecert = entryOf cfg b.path b.isPrecert

/-- **queued_leaf.** On success the leaf handed to the backend is the RFC 6962 `MerkleTreeLeaf` of the entry
derived from the path at the request's clock value, it is identified by the hash of the submitted leaf
certificate, and its extra data is the rest of the validated path — root included, since the path ends in
the pool (C02 `admit_sound`) — in the `certificate_chain` / `PrecertChainEntry` layout. -/
theorem queued_leaf (cfg : Cfg) (st st' : State) (now : Nat) (path : List Cert) (pre : Bool) (sct : Sct) (q : Stored)
    (h : addChain cfg st now path pre = (.ok sct q, st')) :
    ∃ l chain e, path = l :: chain ∧ entryOf cfg path pre = some e ∧
      q.leafValue = merkleTreeLeaf now e [] ∧
      q.idHash = cfg.H l.der ∧
      q.extraData = (if pre then precertChainEntry l.der (chain.map (·.der)) else certChain (chain.map (·.der))) ∧
      decodeLeaf q.leafValue = some (now, e, []) := by
  obtain ⟨l, chain, e, _, hp, he, hts, hw, hq, _⟩ := addChain_ok h
  subst hq
  exact ⟨l, chain, e, hp, he, rfl, rfl, rfl, decodeLeaf_merkleTreeLeaf now e [] hts hw (by simp)⟩

/-- **sct_binds.** For every history `pre` and every request `sub` after it that is answered 200: the SCT's id
is `H` of the log key, its version is v1, and its signature verifies under the log key over the digest of the RFC
6962 signature input built from **the entry derived from the submitted path** at **the SCT's timestamp**
(with empty extensions) — whether the leaf was new or already logged. -/
theorem sct_binds (cfg : Cfg) (S : Scheme cfg) (pre : List Submit) (sub : Submit) (hc : Consistent cfg (pre ++ [sub]))
    (sct : Sct) (q : Stored) (st' : State)
    (h : addChain cfg (run cfg [] pre).2 sub.now sub.path sub.isPrecert = (.ok sct q, st')) :
    sct.logID = cfg.H cfg.logSPKI ∧ sct.version = 0 ∧ sct.extensions = [] ∧
    ∃ e, entryOf cfg sub.path sub.isPrecert = some e ∧
      sct.signedDigest = cfg.H (sctSigInput sct.timestamp e []) ∧
      S.verify (cfg.H (sctSigInput sct.timestamp e [])) sct.signature = true := by
  have hinv : Inv cfg (pre ++ [sub]) (run cfg [] pre).2 :=
    run_inv cfg _ pre [] (by intro s hs; simp at hs) (fun x hx => List.mem_append_left _ hx)
  obtain ⟨l, chain, e, e', hp, he, hts, hw, hq, _, hdec, hv, hid, hdig, hsig⟩ := addChain_ok h
  have hfind := (queueLeaf_spec (run cfg [] pre).2 q)
  -- the returned leaf: the queued one, or the one stored earlier under the same identity hash
  have hret : ∃ ts, ts < 2 ^ 64 ∧ (queueLeaf (run cfg [] pre).2 q).1.leafValue = merkleTreeLeaf ts e [] := by
    rcases hfind.2 with ⟨hold, _⟩ | ⟨_, hnew, _⟩
    · obtain ⟨hmem, hidh⟩ := find_some hold
      obtain ⟨sub0, hs0, l0, e0, hl0, hid0, he0, hts0, _, hlv0⟩ := hinv _ hmem
      have : entryOf cfg sub0.path sub0.isPrecert = entryOf cfg sub.path sub.isPrecert :=
        hc sub0 hs0 sub (by simp) l0 l hl0 (by rw [hp]; rfl) (by rw [← hid0, hidh, hq])
      rw [he0, he] at this
      cases this
      exact ⟨sub0.now, hts0, hlv0⟩
    · exact ⟨sub.now, hts, by rw [hnew, hq]⟩
  obtain ⟨ts, hts', hlv⟩ := hret
  rw [hlv, decodeLeaf_merkleTreeLeaf ts e [] hts' hw (by simp)] at hdec
  simp only [Option.some.injEq, Prod.mk.injEq] at hdec
  obtain ⟨h1, h2, h3⟩ := hdec
  subst h2
  refine ⟨hid, hv, h3.symm, e, he, ?_, ?_⟩
  · rw [hdig, ← h3]
  · rw [hsig, hdig, ← h3]; exact S.correct _

/-- **dup_repeats_ts** (one request): if the identity hash is already stored, the request leaves the backend
state untouched and the SCT carries the timestamp of the stored leaf; if it is not, the SCT carries the
request's own clock value and exactly the queued leaf is added. -/
theorem dup_repeats_ts_step (cfg : Cfg) (st st' : State) (now : Nat) (path : List Cert) (pre : Bool) (sct : Sct) (q : Stored)
    (h : addChain cfg st now path pre = (.ok sct q, st')) :
    (∀ s, st.find q.idHash = some s → st' = st ∧ ∃ e x, decodeLeaf s.leafValue = some (sct.timestamp, e, x)) ∧
    (st.find q.idHash = none → st' = st ++ [q] ∧ sct.timestamp = now) := by
  obtain ⟨l, chain, e, e', hp, he, hts, hw, hq, hst, hdec, _⟩ := addChain_ok h
  have hspec := queueLeaf_spec st q
  constructor
  · intro s hs
    rcases hspec.2 with ⟨hold, e2⟩ | ⟨hnone, _⟩
    · rw [hs] at hold; cases hold
      exact ⟨by rw [hst, e2], e', sct.extensions, hdec⟩
    · rw [hs] at hnone; cases hnone
  · intro hn
    rcases hspec.2 with ⟨hold, _⟩ | ⟨_, hnew, e2⟩
    · rw [hn] at hold; cases hold
    · refine ⟨by rw [hst, e2], ?_⟩
      rw [hnew, hq, decodeLeaf_merkleTreeLeaf now e [] hts hw (by simp)] at hdec
      simp only [Option.some.injEq, Prod.mk.injEq] at hdec
      exact hdec.1.symm

/-- **dup_repeats_ts** (histories, by induction over the requests in between): two requests answered 200 for the
same identity hash carry the same timestamp, however many other requests — accepted or refused — lie between
them. -/
theorem dup_repeats_ts (cfg : Cfg) (pre mid : List Submit) (a b : Submit) (sa sb : Sct) (qa qb : Stored) (st2 st4 : State)
    (ha : addChain cfg (run cfg [] pre).2 a.now a.path a.isPrecert = (.ok sa qa, st2))
    (hb : addChain cfg (run cfg st2 mid).2 b.now b.path b.isPrecert = (.ok sb qb, st4))
    (hid : qa.idHash = qb.idHash) : sb.timestamp = sa.timestamp := by
  obtain ⟨_, _, _, ea, _, _, _, _, _, hst2, hdeca, _⟩ := addChain_ok ha
  have hfa : st2.find qa.idHash = some (queueLeaf (run cfg [] pre).2 qa).1 := by
    rw [hst2]; exact (queueLeaf_spec _ qa).1
  have hf3 := run_find_mono cfg mid st2 hfa
  rw [hid] at hf3
  obtain ⟨_, e, x, hd⟩ := (dup_repeats_ts_step cfg _ st4 b.now b.path b.isPrecert sb qb hb).1 _ hf3
  rw [hdeca] at hd
  simp only [Option.some.injEq, Prod.mk.injEq] at hd
  exact hd.1.symm

/-- **entryOf_precert.** The entry of a precertificate path is `(H(SubjectPublicKeyInfo of the final issuer),
de-poisoned TBS)`: with a direct issuer that issuer's key and the TBS with only the poison removed; with a
Precertificate Signing Certificate (CT extended key usage) the key of *its* issuer and the TBS re-targeted
to that issuer.  (The TBS transformation itself is property C03.) -/
theorem entryOf_precert (cfg : Cfg) (leaf issuer : Cert) (more : List Cert) :
    (issuer.isPreIssuer = false →
      entryOf cfg (leaf :: issuer :: more) true = (cfg.deTBS leaf.tbs none).map (.precert (cfg.H issuer.spki))) ∧
    (issuer.isPreIssuer = true → ∀ final rest, more = final :: rest →
      entryOf cfg (leaf :: issuer :: more) true = (cfg.deTBS leaf.tbs (some issuer)).map (.precert (cfg.H final.spki))) ∧
    (issuer.isPreIssuer = true → more = [] → entryOf cfg (leaf :: issuer :: more) true = none) := by
  refine ⟨?_, ?_, ?_⟩
  · intro h; simp [entryOf, h]
  · intro h final rest hm; subst hm; simp [entryOf, h]
  · intro h hm; subst hm; simp [entryOf, h]

/-- An X.509 entry is the submitted leaf certificate itself. -/
theorem entryOf_x509 (cfg : Cfg) (leaf : Cert) (chain : List Cert) : entryOf cfg (leaf :: chain) false = some (.x509 leaf.der) := by
  cases chain <;> rfl

/-! ### non-vacuity: a toy configuration (`H` = first byte repeated to 32, identity signer) -/

def exCfg : Cfg := { H := fun b => List.replicate 32 (b.headD 0), logSPKI := [1, 2, 3], sign := id, deTBS := fun t p => some (t ++ (p.map (·.der)).getD []) }
def exScheme : Scheme exCfg := ⟨fun d s => d == s, by intro d; simp [exCfg]⟩
def exLeaf : Cert := ⟨[10, 11, 12], [20], [30, 31], false⟩
def exPre : Cert := ⟨[13, 14], [21], [32], false⟩
def exPreIssuer : Cert := ⟨[40], [41], [42], true⟩
def exIssuer : Cert := ⟨[50], [51, 52, 53], [54], false⟩
def exSub1 : Submit := ⟨1000, [exLeaf, exIssuer], false⟩
def exSub2 : Submit := ⟨2000, [exLeaf, exIssuer], false⟩
def exSub3 : Submit := ⟨3000, [exPre, exPreIssuer, exIssuer], true⟩
def tsOf : Rsp → Option Nat
  | .ok s _ => some s.timestamp
  | _ => none

/-- first submission, a precertificate through a pre-issuer, then the first leaf again a second later: it gets the first timestamp -/
example : (run exCfg [] [exSub1, exSub3, exSub2]).1.map tsOf = [some 1000, some 3000, some 1000] := by decide
example : entryOf exCfg exSub3.path true = some (.precert (List.replicate 32 51) [32, 40]) := by decide
example : tsOf (addChain exCfg (run exCfg [] [exSub1, exSub3]).2 exSub2.now exSub2.path exSub2.isPrecert).1 = some 1000 := by decide
example : Consistent exCfg ([exSub1, exSub3] ++ [exSub2]) := by
  intro a ha b hb la lb hla hlb hh
  simp only [List.cons_append, List.nil_append, List.mem_cons, List.not_mem_nil, or_false] at ha hb
  rcases ha with rfl | rfl | rfl <;> rcases hb with rfl | rfl | rfl <;>
    simp only [exSub1, exSub2, exSub3, List.head?_cons, Option.some.injEq] at hla hlb <;> subst hla <;> subst hlb <;>
    first | rfl | (exfalso; revert hh; decide)
example : decodeLeaf (merkleTreeLeaf 7 (.precert (List.replicate 32 9) [1, 2]) [5]) = some (7, .precert (List.replicate 32 9) [1, 2], [5]) := by decide

end C01
