import CTV.Lemmas.AddChain
import CTV.Lemmas.AddChainRfc
/-!
# C01 — an issued SCT binds the submitted entry, the stored leaf and the log key

Theorems over `CTV.Model.AddChain`: `addChainInternal` after chain validation, against a de-duplicating backend, for
every history of submissions.  The byte layouts are the RFC 6962 ones (section `Rfc` of the model, written from the
RFC text).  **Regenerated** from the Go source on every run (`Gen.AddChain`, `extract/k_addchain.go`) and used by the
model: the millisecond conversion, the entry-type selection, every guard of `MerkleTreeLeafFromChain` and the chain
positions it reads, the positions `BuildLogLeaf` takes leaf and extra data from, the signature-algorithm type switch,
the hash-algorithm constant; and, as pinned source facts, which value is hashed for the issuer key hash / the identity
hash / the log id, which leaf the SCT is built from and that one `signer` both signs and names the log.
The hash `H`, the key scheme and the precertificate TBS transformation (C03) are parameters.
-/
namespace C01
open CTV CTV.Model.AddChain

/-! ## What the code hashes, signs and builds from (regenerated source facts) -/

/-- The values the handler's helpers read are the ones the model uses: the X.509 entry is `chain[0].Raw` (`$elem0` = the
first element); the issuer key hash is over `issuer.RawSubjectPublicKeyInfo` (the bytes in the issuer's certificate, not a
re-encoding; `$var($[]*x509.Certificate[1])` = the reassigned local that starts as `chain[1]`, see `Gen.mtlIssuerIdx` /
`Gen.mtlFinalIssuerIdx`); the TBS comes from `BuildPrecertTBS(cert.RawTBSCertificate, preIssuer)` (`$BuildPrecertTBS` = its
result, `$decl(*x509.Certificate)` = the local declared `var preIssuer *x509.Certificate`); the identity hash is over the certificate's DER
(`cert.Data`); the SCT is built from the leaf **returned** by the backend (`$QueueLeaf` = the local that holds the
`QueueLeaf` response, `$decl(ct.MerkleTreeLeaf)` = the leaf decoded from it; canonical names of `extract/canon.go`, stable under
renaming and hoisting) and takes timestamp and extensions from it. -/
theorem sources_as_modelled :
    ("Data", "$elem0.Raw") ∈ Gen.mtlFields ∧ ("TBSCertificate", "$BuildPrecertTBS") ∈ Gen.mtlFields ∧
    Gen.mtlKeyHashOf = "$var($[]*x509.Certificate[1]).RawSubjectPublicKeyInfo" ∧
    Gen.mtlTBSArgs = "$elem0.RawTBSCertificate,$decl(*x509.Certificate)" ∧
    Gen.idHashOf = "$ct.ASN1Cert.Data" ∧
    Gen.sctLeafSource = "$QueueLeaf.QueuedLeaf.Leaf.LeafValue" ∧ Gen.sctBuiltFrom = "&$decl(ct.MerkleTreeLeaf)" ∧
    ("Timestamp", "$*ct.MerkleTreeLeaf.TimestampedEntry.Timestamp") ∈ Gen.sctFields ∧
    ("Extensions", "$*ct.MerkleTreeLeaf.TimestampedEntry.Extensions") ∈ Gen.sctFields := by
  decide

/-- **One key.** (`$crypto.Signer` is the canonical name of `buildV1SCT`'s signer parameter, whatever it is called and whichever
helper the calls sit in.) `buildV1SCT` signs with `signer` and computes the log id from `signer.Public()`, and `GetCTLogID` is
SHA-256 of `x509.MarshalPKIXPublicKey` of that key: the model's single `cfg.k` with `logID = H (spkiOf (pub k))` and
`signature = sign k …` is what the code does. -/
theorem one_key : Gen.sctSigner = "$crypto.Signer" ∧ Gen.sctLogIDOf = "$crypto.Signer.Public()" ∧
    Gen.logIDBytes = "x509.MarshalPKIXPublicKey(pk)" ∧ Gen.logIDOf = "pubBytes" ∧
    ("Signature", "tls.SignatureAlgorithmFromPubKey($crypto.Signer.Public())") ∈ Gen.sctFields ∧ ("Hash", "tls.SHA256") ∈ Gen.sctFields := by
  decide

/-- The clock conversion (regenerated `uint64(UnixNano() / millisPerNano)`): for a clock at or after the epoch the
timestamp is the number of whole milliseconds; it always fits the 8-byte field. -/
theorem timestamp_conversion (n : Int) :
    (Gen.timeMillis n).toNat < 2 ^ 64 ∧ (0 ≤ n → n < 2 ^ 63 → Gen.timeMillis n = n / 1000000) := by
  refine ⟨timeMillis_lt n, ?_⟩
  intro h0 h1
  unfold Gen.timeMillis Gen.millisPerNano U64.wrap I64.div I64.wrap64
  rw [Int.tdiv_eq_ediv_of_nonneg h0]
  omega

/-- before the epoch the division truncates toward zero and the conversion to uint64 wraps -/
example : Gen.timeMillis (-1) = 0 ∧ Gen.timeMillis (-1000000000) = 2 ^ 64 - 1000 ∧ Gen.timeMillis 999999 = 0 ∧ Gen.timeMillis 1000000 = 1 := by decide

/-- **One layout.** The model's leaf, signature input and certificate chain are the ones of the shared RFC 6962 wire
specification `CTV/Rfc6962/Wire.lean` — for which property C04 proves (`C04.enc_merkleTreeLeaf`, `enc_sctSigInput`,
`enc_certChain`) that they are what `tls.Marshal` produces from the **regenerated struct tags** of `ct.MerkleTreeLeaf`,
`ct.CertificateTimestamp`, `ct.CertificateChain`. -/
theorem layouts_are_rfc_wire (ts : Nat) (e : Entry) (ext : Bytes) (hts : ts < 2 ^ 64) (hw : e.wf) (hx : ext.length < 2 ^ 16) :
    Rfc.merkleTreeLeaf ⟨0, ⟨ts, toRfc e, ext⟩⟩ = some (merkleTreeLeaf ts e ext) ∧
    Rfc.sctSigInput ⟨0, ts, toRfc e, ext⟩ = some (sctSigInput ts e ext) ∧
    ∀ cs b, encodeChain cs = some b → Rfc.certChain cs = some b :=
  ⟨merkleTreeLeaf_is_rfc ts e ext hts hw hx, sctSigInput_is_rfc ts e ext hts hw hx, encodeChain_is_rfc⟩

/-! ## The entry -/

/-- **entryOf_x509** (over the regenerated guards): on the add-chain route the entry of a non-empty path is the DER of
its first certificate. -/
theorem entryOf_x509 (cfg : Cfg) (leaf : Cert) (chain : List Cert) : entryOf cfg (leaf :: chain) false = some (.x509 leaf.der) := by
  unfold entryOf
  simp [Gen.etypeOf, Gen.mtlEmpty, Gen.mtlIsX509, Gen.mtlX509Idx]
  omega

/-- **entryOf_precert** (over the regenerated guards and positions): the entry of a precertificate path is
`(H (SubjectPublicKeyInfo of the final issuer), de-poisoned TBS)` — with a direct issuer that issuer (position 1) and
the TBS with only the poison removed; with a Precertificate Signing Certificate (CT extended key usage at position 1)
the certificate at position 2 and the TBS re-targeted; no entry when the signing certificate ends the path, for a
single certificate, or for the empty path. -/
theorem entryOf_precert (cfg : Cfg) (leaf issuer : Cert) (more : List Cert) :
    (issuer.isPreIssuer = false →
      entryOf cfg (leaf :: issuer :: more) true = (cfg.deTBS leaf.tbs none).map (.precert (cfg.H issuer.spki))) ∧
    (issuer.isPreIssuer = true → ∀ final rest, more = final :: rest →
      entryOf cfg (leaf :: issuer :: more) true = (cfg.deTBS leaf.tbs (some issuer)).map (.precert (cfg.H final.spki))) ∧
    (issuer.isPreIssuer = true → more = [] → entryOf cfg (leaf :: issuer :: more) true = none) ∧
    entryOf cfg [leaf] true = none ∧ entryOf cfg [] true = none ∧ entryOf cfg [] false = none := by
  have h2 : ¬ ((((leaf :: issuer :: more).length : Nat) : Int) < 2) := by simp; omega
  refine ⟨?_, ?_, ?_, ?_, ?_, ?_⟩
  · intro h
    unfold entryOf
    simp [Gen.etypeOf, Gen.mtlEmpty, Gen.mtlIsX509, Gen.mtlNotPrecert, Gen.mtlNoIssuer, Gen.mtlPrecertIdx, Gen.mtlIssuerIdx,
      Gen.mtlIsPreIssuer, Gen.acX509EntryType, Gen.acPrecertEntryType, h, List.length_cons]
    rw [if_neg (by omega), if_neg (by omega)]
  · intro h final rest hm
    subst hm
    unfold entryOf
    simp [Gen.etypeOf, Gen.mtlEmpty, Gen.mtlIsX509, Gen.mtlNotPrecert, Gen.mtlNoIssuer, Gen.mtlPrecertIdx, Gen.mtlIssuerIdx,
      Gen.mtlIsPreIssuer, Gen.mtlNoFinalIssuer, Gen.mtlFinalIssuerIdx, Gen.acX509EntryType, Gen.acPrecertEntryType, h, List.length_cons]
    rw [if_neg (by omega), if_neg (by omega), if_neg (by omega)]
  · intro h hm
    subst hm
    unfold entryOf
    simp [Gen.etypeOf, Gen.mtlEmpty, Gen.mtlIsX509, Gen.mtlNotPrecert, Gen.mtlNoIssuer, Gen.mtlPrecertIdx, Gen.mtlIssuerIdx,
      Gen.mtlIsPreIssuer, Gen.mtlNoFinalIssuer, Gen.acX509EntryType, Gen.acPrecertEntryType, h]
  · unfold entryOf
    simp [Gen.etypeOf, Gen.mtlEmpty, Gen.mtlIsX509, Gen.mtlNotPrecert, Gen.mtlNoIssuer, Gen.acX509EntryType, Gen.acPrecertEntryType]
  · unfold entryOf; simp [Gen.mtlEmpty]
  · unfold entryOf; simp [Gen.mtlEmpty]

/-! ## The queued leaf -/

/-- **queued_leaf.** On success the leaf handed to the backend is the RFC 6962 `MerkleTreeLeaf` of the entry derived from
the path at the request's clock (in milliseconds, by the regenerated conversion) and decodes back to exactly those
fields; it is identified by the hash of the certificate at the regenerated leaf position (0); its extra data is the
`certificate_chain` (behind the `pre_certificate` for a precertificate) of the certificates from the regenerated
position 1 on — every one of them, so the last certificate of the path is the last of the extra data (the path ends
in the trusted pool by C02 `admit_sound`; that the path *is* the validated one is an input of this model and is
checked on the real handler by the harness) — and that vector decodes back to exactly those certificates. -/
theorem queued_leaf (cfg : Cfg) (st st' : State) (now : Int) (path : List Cert) (pre : Bool) (sct : Sct) (q : Stored)
    (h : addChain cfg st now path pre = (.ok sct q, st')) :
    ∃ leaf chain e, path = leaf :: chain ∧ entryOf cfg path pre = some e ∧
      q.leafValue = merkleTreeLeaf (Gen.timeMillis now).toNat e [] ∧
      decodeLeaf q.leafValue = some ((Gen.timeMillis now).toNat, e, []) ∧
      q.idHash = cfg.H leaf.der ∧
      q.extraData = (if pre then vec 3 leaf.der ++ certChain (chain.map (·.der)) else certChain (chain.map (·.der))) ∧
      readOpaque 3 (certChain (chain.map (·.der))) = some ((chain.map (·.der)).flatMap (vec 3), []) ∧
      decodeCerts chain.length ((chain.map (·.der)).flatMap (vec 3)) = some (chain.map (·.der)) ∧
      (chain ≠ [] → (chain.map (·.der)).getLast? = path.getLast?.map (·.der)) := by
  obtain ⟨leaf, e, _, extra, hleaf, he, hw, hex, hq, _⟩ := addChain_ok h
  have hpath : ∃ chain, path = leaf :: chain := by
    cases path with
    | nil => simp [Gen.leafCertIdx] at hleaf
    | cons a t => simp [Gen.leafCertIdx] at hleaf; exact ⟨t, by rw [hleaf]⟩
  obtain ⟨chain, rfl⟩ := hpath
  have hdrop : ((leaf :: chain).drop Gen.extraFromIdx) = chain := by simp [Gen.extraFromIdx]
  rw [hdrop] at hex
  subst hq
  have hchain : ∃ b, encodeChain (chain.map (·.der)) = some b ∧
      extra = (if pre then vec 3 leaf.der ++ b else b) := by
    unfold encodeExtra at hex
    cases pre with
    | true =>
      simp only [if_true] at hex ⊢
      split at hex
      · cases hc : encodeChain (chain.map (·.der)) with
        | none => simp [hc] at hex
        | some b => simp [hc] at hex; exact ⟨b, rfl, hex.symm⟩
      · simp at hex
    | false => exact ⟨extra, by simpa using hex, by simp⟩
  obtain ⟨b, hb, hextra⟩ := hchain
  obtain ⟨hb1, hb2, hb3⟩ := encodeChain_decodes hb
  subst hb1
  refine ⟨leaf, chain, e, rfl, he, rfl, decodeLeaf_merkleTreeLeaf _ e [] (timeMillis_lt now) hw (by simp), rfl, hextra, hb2,
    by simpa using hb3, ?_⟩
  intro hne
  obtain ⟨c, cs, rfl⟩ := List.exists_cons_of_ne_nil hne
  rw [List.getLast?_cons_cons, List.getLast?_map]

/-! ## The SCT -/

/-- **sct_binds_first** (unconditional, every history): a 200 answer carries the hash of **the log key's**
SubjectPublicKeyInfo as id, version v1, empty extensions, the SHA-256 / key-type algorithm pair, and a signature
that verifies **under that same key** over the digest of the RFC 6962 signature input built from the entry and clock
of *a submission of the history with the same identity hash* (the request itself when the leaf is new, the one that
stored the leaf otherwise), at the SCT's timestamp. -/
theorem sct_binds_first (cfg : Cfg) (pre : List Submit) (sub : Submit) (sct : Sct) (q : Stored) (st' : State)
    (h : addChain cfg (run cfg [] pre).2 sub.now sub.path sub.isPrecert = (.ok sct q, st')) :
    sct.logID = cfg.H (cfg.K.spkiOf (cfg.K.pub cfg.k)) ∧ sct.version = 0 ∧ sct.extensions = [] ∧
    sct.hashAlg = 4 ∧ sct.sigAlg = sigAlgOf (cfg.K.kind (cfg.K.pub cfg.k)) ∧
    ∃ sub0 ∈ pre ++ [sub], ∃ l0 e0, sub0.path[Gen.leafCertIdx]? = some l0 ∧ cfg.H l0.der = q.idHash ∧
      entryOf cfg sub0.path sub0.isPrecert = some e0 ∧
      sct.timestamp = (Gen.timeMillis sub0.now).toNat ∧
      sct.signedDigest = cfg.H (sctSigInput sct.timestamp e0 []) ∧
      cfg.K.verify (cfg.K.pub cfg.k) (cfg.H (sctSigInput sct.timestamp e0 [])) sct.signature = true := by
  have hinv : Inv cfg (pre ++ [sub]) (run cfg [] pre).2 :=
    run_inv cfg _ pre [] (by intro s hs; simp at hs) (fun x hx => List.mem_append_left _ hx)
  obtain ⟨leaf, e, e', extra, hleaf, he, hw, _, hq, _, hdec, hv, hid, hha, hsa, hdig, hsig⟩ := addChain_ok h
  have hret : ∃ sub0 ∈ pre ++ [sub], ∃ l0 e0, sub0.path[Gen.leafCertIdx]? = some l0 ∧ cfg.H l0.der = q.idHash ∧
      entryOf cfg sub0.path sub0.isPrecert = some e0 ∧ e0.wf ∧
      (queueLeaf (run cfg [] pre).2 q).1.leafValue = merkleTreeLeaf (Gen.timeMillis sub0.now).toNat e0 [] := by
    rcases (queueLeaf_spec (run cfg [] pre).2 q).2 with ⟨hold, _⟩ | ⟨_, hnew, _⟩
    · obtain ⟨hmem, hidh⟩ := find_some hold
      obtain ⟨sub0, hs0, l0, e0, hl0, hid0, he0, hw0, hlv0⟩ := hinv _ hmem
      exact ⟨sub0, hs0, l0, e0, hl0, by rw [← hid0, hidh], he0, hw0, hlv0⟩
    · exact ⟨sub, by simp, leaf, e, hleaf, by rw [hq], he, hw, by rw [hnew, hq]⟩
  obtain ⟨sub0, hs0, l0, e0, hl0, hid0, he0, hw0, hlv⟩ := hret
  rw [hlv, decodeLeaf_merkleTreeLeaf _ e0 [] (timeMillis_lt _) hw0 (by simp)] at hdec
  simp only [Option.some.injEq, Prod.mk.injEq] at hdec
  obtain ⟨h1, h2, h3⟩ := hdec
  subst h2
  refine ⟨hid, hv, h3.symm, by rw [hha]; decide, hsa, sub0, hs0, l0, e0, hl0, hid0, he0, h1.symm, ?_, ?_⟩
  · rw [hdig, ← h3]
  · rw [hsig, hdig, ← h3]; exact cfg.K.correct _ _

/-- Identity hashes identify entries within the history: two submissions whose leaf certificates have the same hash
derive the same entry.  It bundles (a) collision-freeness of `H` on the submitted leaf certificates — a crypto
assumption — and (b) *the same leaf certificate never arrives through two issuer routes* — a restriction on
histories that real submitters can violate (see FULL below). -/
def Consistent (cfg : Cfg) (U : List Submit) : Prop :=
  ∀ a ∈ U, ∀ b ∈ U, ∀ la lb, a.path[Gen.leafCertIdx]? = some la → b.path[Gen.leafCertIdx]? = some lb → cfg.H la.der = cfg.H lb.der →
    entryOf cfg a.path a.isPrecert = entryOf cfg b.path b.isPrecert

/- FULL (the property's first sentence, literally): for every history `pre` and every request `sub` answered 200,
     `∃ e, entryOf cfg sub.path sub.isPrecert = some e ∧ verify (pub k) (H (sctSigInput sct.timestamp e [])) sct.signature`
   — the signature verifies over the entry derived from **the submitted chain**.
   FALSE of the code (and of the model): de-duplication is by the hash of the leaf certificate alone, but a
   precertificate's entry also depends on the issuer route.  A precertificate whose Precertificate Signing Certificate
   key is certified by two CAs, submitted first through CA 1 and then through CA 2, gets on the second request the SCT
   of the first entry (issuer key hash and issuer name of CA 1), which does not verify over the entry an RFC 6962
   client derives from the second chain.  Known finding `two-route precert` (no small patch: the de-duplication key
   would have to include the issuer key hash).  The counter-example is `exTwoRoutes` below.  Proved: the statement
   under `Consistent`, which excludes exactly this. -/

/-- **sct_binds_partial.** Under `Consistent`, the signature verifies over the entry derived from the submitted path
itself, at the SCT's timestamp — new leaf or duplicate. -/
theorem sct_binds_partial (cfg : Cfg) (pre : List Submit) (sub : Submit) (hc : Consistent cfg (pre ++ [sub]))
    (sct : Sct) (q : Stored) (st' : State)
    (h : addChain cfg (run cfg [] pre).2 sub.now sub.path sub.isPrecert = (.ok sct q, st')) :
    sct.logID = cfg.H (cfg.K.spkiOf (cfg.K.pub cfg.k)) ∧
    ∃ e, entryOf cfg sub.path sub.isPrecert = some e ∧
      sct.signedDigest = cfg.H (sctSigInput sct.timestamp e []) ∧
      cfg.K.verify (cfg.K.pub cfg.k) (cfg.H (sctSigInput sct.timestamp e [])) sct.signature = true := by
  obtain ⟨hid, _, _, _, _, sub0, hs0, l0, e0, hl0, hid0, he0, _, hdig, hver⟩ := sct_binds_first cfg pre sub sct q st' h
  obtain ⟨leaf, e, _, _, hleaf, he, _, _, hq, _⟩ := addChain_ok h
  have : entryOf cfg sub0.path sub0.isPrecert = entryOf cfg sub.path sub.isPrecert :=
    hc sub0 hs0 sub (by simp) l0 leaf hl0 hleaf (by rw [hid0, hq])
  rw [he0, he] at this
  cases this
  exact ⟨hid, e0, he, hdig, hver⟩

/-! ## Duplicates -/

/-- **dup_repeats_ts** (one request): if the identity hash is already stored, the request leaves the backend state
untouched and the SCT carries the timestamp of the stored leaf; if it is not, the SCT carries the request's own
clock value and exactly the queued leaf is added. -/
theorem dup_repeats_ts_step (cfg : Cfg) (st st' : State) (now : Int) (path : List Cert) (pre : Bool) (sct : Sct) (q : Stored)
    (h : addChain cfg st now path pre = (.ok sct q, st')) :
    (∀ s, st.find q.idHash = some s → st' = st ∧ ∃ e x, decodeLeaf s.leafValue = some (sct.timestamp, e, x)) ∧
    (st.find q.idHash = none → st' = st ++ [q] ∧ sct.timestamp = (Gen.timeMillis now).toNat) := by
  obtain ⟨leaf, e, e', extra, _, he, hw, _, hq, hst, hdec, _⟩ := addChain_ok h
  have hspec := queueLeaf_spec st q
  constructor
  · intro s hs
    rcases hspec.2 with ⟨hold, e2⟩ | ⟨hnone, _⟩
    · rw [hs] at hold; cases hold
      exact ⟨by rw [hst, e2], e', sct.extensions, hdec⟩
    · rw [hs] at hnone; cases hnone
  · intro hn
    rcases hspec.2 with ⟨hold, _⟩ | ⟨_, hnew, e2⟩
    · rw [hn] at hold; cases hold
    · refine ⟨by rw [hst, e2], ?_⟩
      rw [hnew, hq, decodeLeaf_merkleTreeLeaf _ e [] (timeMillis_lt now) hw (by simp)] at hdec
      simp only [Option.some.injEq, Prod.mk.injEq] at hdec
      exact hdec.1.symm

/-- **dup_repeats_ts** (histories, by induction over the requests in between): two requests answered 200 for the same
identity hash carry the same timestamp, however many other requests — accepted or refused — lie between them. -/
theorem dup_repeats_ts (cfg : Cfg) (pre mid : List Submit) (a b : Submit) (sa sb : Sct) (qa qb : Stored) (st2 st4 : State)
    (ha : addChain cfg (run cfg [] pre).2 a.now a.path a.isPrecert = (.ok sa qa, st2))
    (hb : addChain cfg (run cfg st2 mid).2 b.now b.path b.isPrecert = (.ok sb qb, st4))
    (hid : qa.idHash = qb.idHash) : sb.timestamp = sa.timestamp := by
  obtain ⟨_, _, ea, _, _, _, _, _, _, hst2, hdeca, _⟩ := addChain_ok ha
  have hfa : st2.find qa.idHash = some (queueLeaf (run cfg [] pre).2 qa).1 := by
    rw [hst2]; exact (queueLeaf_spec _ qa).1
  have hf3 := run_find_mono cfg mid st2 hfa
  rw [hid] at hf3
  obtain ⟨_, e, x, hd⟩ := (dup_repeats_ts_step cfg _ st4 b.now b.path b.isPrecert sb qb hb).1 _ hf3
  rw [hdeca] at hd
  simp only [Option.some.injEq, Prod.mk.injEq] at hd
  exact hd.1.symm

/-! ## Non-vacuity: a toy configuration (`H` = byte sum repeated to 32, signature = digest, verification = equality) -/

def exK : KeyScheme := { Priv := Bytes, Pub := Bytes, pub := id, spkiOf := id, kind := fun _ => "*ecdsa.PublicKey", sign := fun k d => k ++ d, verify := fun p d s => s == p ++ d, correct := by intro k d; simp }
def exCfg : Cfg := { H := fun b => List.replicate 32 (UInt8.ofNat (b.foldl (fun a x => a + x.toNat) 0)), K := exK, k := [1, 2, 3], deTBS := fun t p => some (t ++ (p.map (·.der)).getD []) }
def exLeaf : Cert := ⟨[10, 11, 12], [20], [30, 31], false⟩
def exPre : Cert := ⟨[13, 14], [21], [32], false⟩
def exPreIssuer : Cert := ⟨[40], [41], [42], true⟩
def exPreIssuer2 : Cert := ⟨[45], [41], [42], true⟩
def exIssuer : Cert := ⟨[50], [51, 52, 53], [54], false⟩
def exIssuer2 : Cert := ⟨[60], [61, 62], [64], false⟩
def exSub1 : Submit := ⟨1000000000, [exLeaf, exIssuer], false⟩
def exSub2 : Submit := ⟨2000000000, [exLeaf, exIssuer], false⟩
def exSub3 : Submit := ⟨3000999999, [exPre, exPreIssuer, exIssuer], true⟩
/-- the same precertificate through another route: signing certificate certified by `exIssuer2` -/
def exSub4 : Submit := ⟨4000000000, [exPre, exPreIssuer2, exIssuer2], true⟩
def tsOf : Rsp → Option Nat
  | .ok s _ => some s.timestamp
  | _ => none

/-- first submission, a precertificate through a pre-issuer, then the first leaf again a second later: it gets the first timestamp -/
example : (run exCfg [] [exSub1, exSub3, exSub2]).1.map tsOf = [some 1000, some 3000, some 1000] := by decide
example : entryOf exCfg exSub3.path true = some (.precert (List.replicate 32 156) [32, 40]) := by decide
example : decodeLeaf (merkleTreeLeaf 7 (.precert (List.replicate 32 9) [1, 2]) [5]) = some (7, .precert (List.replicate 32 9) [1, 2], [5]) := by decide
def exConsistent : Consistent exCfg ([exSub1, exSub3] ++ [exSub2]) := by
  intro a ha b hb la lb hla hlb hh
  simp only [List.cons_append, List.nil_append, List.mem_cons, List.not_mem_nil, or_false] at ha hb
  rcases ha with rfl | rfl | rfl <;> rcases hb with rfl | rfl | rfl <;>
    simp only [exSub1, exSub2, exSub3, Gen.leafCertIdx, List.getElem?_cons_zero, Option.some.injEq] at hla hlb <;> subst hla <;> subst hlb <;>
    first | rfl | (exfalso; revert hh; decide)

/-- the theorems applied to a duplicate history: their hypotheses are jointly satisfiable -/
def exDupOk : ∃ sct q st', addChain exCfg (run exCfg [] [exSub1, exSub3]).2 exSub2.now exSub2.path exSub2.isPrecert = (.ok sct q, st') :=
  ⟨_, _, _, rfl⟩
example : True := by
  obtain ⟨sct, q, st', h⟩ := exDupOk
  have h1 := sct_binds_first exCfg [exSub1, exSub3] exSub2 sct q st' h
  have h2 := sct_binds_partial exCfg [exSub1, exSub3] exSub2 exConsistent sct q st' h
  have h3 := queued_leaf exCfg _ st' exSub2.now exSub2.path exSub2.isPrecert sct q h
  trivial

/-- **The counter-example to FULL** (`exTwoRoutes`): the precertificate `exPre` through two routes.  The second request is
answered 200 with the first route's timestamp, and its signed digest is NOT the digest of the signature input for
the entry derived from the second chain. -/
theorem exTwoRoutes :
    ∃ sct q st', addChain exCfg (run exCfg [] [exSub3]).2 exSub4.now exSub4.path true = (.ok sct q, st') ∧
      sct.timestamp = 3000 ∧
      ∃ e, entryOf exCfg exSub4.path true = some e ∧ sct.signedDigest ≠ exCfg.H (sctSigInput sct.timestamp e []) ∧
        ¬ Consistent exCfg ([exSub3] ++ [exSub4]) := by
  refine ⟨_, _, _, rfl, by decide, .precert (List.replicate 32 123) [32, 45], by decide, by decide, ?_⟩
  intro hc
  have := hc exSub3 (by simp) exSub4 (by simp) exPre exPre rfl rfl rfl
  revert this
  decide

end C01
