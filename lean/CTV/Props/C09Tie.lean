import CTV.Props.C09
import CTV.Model.TlsSpec
/-!
# C09: the hand model of the codec follows the check sequences regenerated from tls/tls.go

`Gen.readVarUintBody`, `Gen.parseSliceBody`, `Gen.parseArrayBody`, `Gen.parseEnumBody`, `Gen.unmarshalWithParamsBody`,
`Gen.marshalWithParamsBody` are whole bodies (resp. whole `case` clauses of `parseField`'s kind switch) translated statement
by statement on every run (extract/k_tls.go): the order of the tests, whether an error is returned, and — for the vector
case — whether `reflect.MakeSlice` has been called on the way and whether the element loop returns.  The proofs go through the
reference copies `Spec.*` (`CTV/Model/TlsSpec.lean`, `Gen.X_eq_spec`), so they do not depend on how the Go source spells the
same decisions.  The theorems say that `Tls.readVar`, `Tls.readPrefixed`,
`Tls.dec` on arrays and enums and `Tls.unmarshalWithParams` / `marshalWithParams` refuse exactly when those bodies do, on
the facts the model computes.  `Info.check`, `byteCount` and the final tag checks need no tie: the model *calls* the
regenerated kernels.  Not regenerated (reflective / loops, tied by the correspondence run only): the struct case with
its selector bookkeeping, the body of the vector case's element loop (the loop as a whole is the input `elemFails`), `marshalField`'s cases, the clause loop of
`fieldTagToFieldInfo` (its final checks are).
-/
set_option linter.unusedSimpArgs false
namespace C09Tie
open Tls CTV

def failed {α : Type} : Except Err α → Bool
  | .ok _ => false
  | .error _ => true

/-- `readVarUint`: no size information → truncated input → `check`, in this order; `Tls.readVar` refuses exactly then (a model
`Info` with `countSet = false` stands for both a missing tag and a tag without a size). -/
theorem readVar_tie (i : Info) (bs : Bytes) :
    failed (readVar i bs) =
      (Gen.readVarUintBody false (!i.countSet) (decide (bs.length < i.count)) (!(i.check (beDec (bs.take i.count))))).2 := by
  rw [Gen.readVarUintBody_eq_spec]
  unfold readVar Spec.readVarUintBody
  cases i.countSet <;> by_cases h : bs.length < i.count <;> cases hc : i.check (beDec (bs.take i.count)) <;> simp [failed, h, hc]

/-- a nil `*fieldInfo` is refused before anything is read -/
theorem readVar_nil_refused (noCount short checkFails : Bool) : Gen.readVarUintBody true noCount short checkFails = (0, true) := by
  rw [Gen.readVarUintBody_eq_spec]; simp [Spec.readVarUintBody]

/-- the declared length of a vector, as the model sees it after a readable prefix -/
def tooLong (i : Info) (bs : Bytes) : Bool :=
  match readVar i bs with
  | .ok (n, rest) => decide (rest.length < n)
  | .error _ => false

/-- does the element loop of the model return an error on the vector's body -/
def elemFails (i : Info) (e : Ty) (bs : Bytes) : Bool :=
  match readPrefixed i bs with
  | .ok (body, _) => failed (decListWith (dec e) (body.length + 1) body)
  | .error _ => false

/-- `parseField`, vector case before the element loop: `Tls.readPrefixed` refuses exactly when the regenerated clause returns an error
(unreadable / out-of-range prefix, then declared length beyond the remaining input) — for byte strings and other vectors alike. -/
theorem slice_tie (i : Info) (bs : Bytes) (isBytes : Bool) :
    failed (readPrefixed i bs) = (Gen.parseSliceBody (failed (readVar i bs)) (tooLong i bs) isBytes false).2.1 := by
  rw [Gen.parseSliceBody_eq_spec]
  unfold readPrefixed Spec.parseSliceBody tooLong
  cases h : readVar i bs with
  | error e => simp [failed]
  | ok p =>
    obtain ⟨n, rest⟩ := p
    by_cases hn : n ≤ rest.length
    · have : ¬ rest.length < n := by omega
      cases isBytes <;> simp [failed, hn, this]
    · have : rest.length < n := by omega
      simp [failed, hn, this]

/-- what the two head tests of the vector clause say, in terms of `Tls.readPrefixed` -/
theorem prefix_facts (i : Info) (bs : Bytes) :
    (∃ err, readPrefixed i bs = .error err ∧ (failed (readVar i bs) || tooLong i bs) = true) ∨
    (∃ p, readPrefixed i bs = .ok p ∧ failed (readVar i bs) = false ∧ tooLong i bs = false) := by
  unfold readPrefixed tooLong
  cases h : readVar i bs with
  | error e => simp [failed]
  | ok p =>
    obtain ⟨n, rest⟩ := p
    by_cases hn : n ≤ rest.length
    · have : ¬ rest.length < n := by omega
      simp [failed, hn, this]
    · have : rest.length < n := by omega
      simp [failed, hn, this]

/-- **byte strings, whole clause**: `Tls.dec (.bytes i)` refuses exactly when the regenerated vector clause does on the `[]byte` path
(the element loop is not reached, whatever it would do) -/
theorem bytes_tie (i : Info) (bs : Bytes) (ef : Bool) :
    failed (dec (.bytes i) bs) = (Gen.parseSliceBody (failed (readVar i bs)) (tooLong i bs) true ef).2.1 := by
  rw [Gen.parseSliceBody_eq_spec]
  unfold Spec.parseSliceBody
  rcases prefix_facts i bs with ⟨err, hp, hf⟩ | ⟨p, hp, h1, h2⟩
  · simp only [dec, hp]
    cases h1 : failed (readVar i bs) <;> cases h2 : tooLong i bs <;> simp_all [failed]
  · obtain ⟨body, rest⟩ := p
    simp only [dec, hp, h1, h2]
    simp [failed]

/-- **vectors, whole clause**: `Tls.dec (.vec i e)` refuses exactly when the regenerated clause does — prefix, declared length, then the
element loop (`elemFails`: an element that does not decode, or one of zero width — `noProgress` in the model) -/
theorem vec_tie (i : Info) (e : Ty) (bs : Bytes) :
    failed (dec (.vec i e) bs) = (Gen.parseSliceBody (failed (readVar i bs)) (tooLong i bs) false (elemFails i e bs)).2.1 := by
  rw [Gen.parseSliceBody_eq_spec]
  unfold Spec.parseSliceBody elemFails
  rcases prefix_facts i bs with ⟨err, hp, hf⟩ | ⟨p, hp, h1, h2⟩
  · simp only [dec, hp]
    cases h1 : failed (readVar i bs) <;> cases h2 : tooLong i bs <;> simp_all [failed]
  · obtain ⟨body, rest⟩ := p
    simp only [dec, hp, h1, h2]
    cases hd : decListWith (dec e) (body.length + 1) body <;> simp [failed, hd]

/-- **The allocation comes after the length test** (regenerated order): whenever the vector clause has called
`reflect.MakeSlice`, the length prefix was readable and in range and the declared length fits the remaining input. -/
theorem alloc_after_length_test (prefixBad tooLong isBytes elemFails : Bool)
    (h : (Gen.parseSliceBody prefixBad tooLong isBytes elemFails).2.2 = true) : prefixBad = false ∧ tooLong = false := by
  rw [Gen.parseSliceBody_eq_spec] at h
  revert h; cases prefixBad <;> cases tooLong <;> cases isBytes <;> cases elemFails <;> simp [Spec.parseSliceBody]

/-- byte arrays: truncated input is the only refusal (`Tls.dec (.arr k)`), a non-byte array is refused whatever the input (`Ty.bad`) -/
theorem array_tie (k : Nat) (bs : Bytes) :
    failed (dec (.arr k) bs) = (Gen.parseArrayBody (decide (bs.length < k)) false).2 := by
  rw [Gen.parseArrayBody_eq_spec]
  unfold Spec.parseArrayBody
  by_cases h : k ≤ bs.length
  · have : ¬ bs.length < k := by omega
    simp [dec, failed, h, this]
  · have : bs.length < k := by omega
    simp [dec, failed, h, this]

theorem array_nonbyte_refused (tooLong : Bool) : (Gen.parseArrayBody tooLong true).2 = true ∧ ∀ bs, failed (dec .bad bs) = true := by
  rw [Gen.parseArrayBody_eq_spec]
  cases tooLong <;> simp [Spec.parseArrayBody, dec, failed]

theorem enum_tie (i : Info) (bs : Bytes) : failed (dec (.enum i) bs) = (Gen.parseEnumBody (failed (readVar i bs))).2 := by
  rw [Gen.parseEnumBody_eq_spec]
  unfold Spec.parseEnumBody
  cases h : readVar i bs <;> simp [dec, failed, h]

/-- `UnmarshalWithParams`: a bad parameter tag, then whatever `parseField` says -/
theorem unmarshal_tie (g : GoTy) (params : List Char) (bs : Bytes) :
    failed (unmarshalWithParams g params bs) =
      (Gen.unmarshalWithParamsBody (failed (resolveTop g params))
        (match resolveTop g params with | .ok t => failed (dec t bs) | .error _ => false)).2 := by
  rw [Gen.unmarshalWithParamsBody_eq_spec]
  unfold unmarshalWithParams Spec.unmarshalWithParamsBody
  cases h : resolveTop g params with
  | error e => simp [failed]
  | ok t => cases hd : dec t bs <;> simp [failed, hd]

/-- `MarshalWithParams` hands back bytes and no error exactly when the tag is good and `marshalField` succeeds (both components of the
regenerated body: its final `return out.Bytes(), err` returns an `err` that is known to be nil on that path) -/
theorem marshal_tie (g : GoTy) (params : List Char) (v : Val) :
    ((if failed (marshalWithParams g params v) then 0 else 1), failed (marshalWithParams g params v)) =
      Gen.marshalWithParamsBody (failed (resolveTop g params))
        (match resolveTop g params with | .ok t => failed (enc t v) | .error _ => false) := by
  rw [Gen.marshalWithParamsBody_eq_spec]
  unfold marshalWithParams Spec.marshalWithParamsBody
  cases h : resolveTop g params with
  | error e => simp [failed]
  | ok t => cases hd : enc t v <;> simp [failed, hd]

example : Gen.parseSliceBody false false true false = (0, false, true) ∧ Gen.parseSliceBody false true false false = (0, true, false)
    ∧ Gen.parseSliceBody false false false true = (0, true, true) ∧ Gen.parseSliceBody true false false false = (0, true, false) := by
  rw [Gen.parseSliceBody_eq_spec]; decide
example : failed (readPrefixed ⟨1, 0, 255, true⟩ [5, 1, 2]) = true ∧ tooLong ⟨1, 0, 255, true⟩ [5, 1, 2] = true := by decide
example : elemFails ⟨1, 0, 255, true⟩ (.uint 2) [3, 1, 2, 3] = true ∧ elemFails ⟨1, 0, 255, true⟩ (.uint 2) [2, 1, 2, 3] = false := by decide
example : Gen.readVarUintBody false false true false = (0, true) ∧ Gen.readVarUintBody false false false false = (1, false)
    ∧ Gen.marshalWithParamsBody false false = (1, false) := by
  rw [Gen.readVarUintBody_eq_spec, Gen.marshalWithParamsBody_eq_spec]; decide

end C09Tie
