import CTV.Props.C09
/-!
# C09: the hand model of the codec follows the check sequences regenerated from tls/tls.go

`Gen.readVarUintBody`, `Gen.parseSliceHead`, `Gen.parseArrayBody`, `Gen.parseEnumBody`, `Gen.unmarshalWithParamsBody`,
`Gen.marshalWithParamsBody` are whole bodies (resp. whole `case` clauses of `parseField`'s kind switch) translated statement
by statement on every run (extract/k_tls.go): the order of the tests, whether an error is returned, and — for the vector
case — whether `reflect.MakeSlice` has been called on the way.  The theorems say that `Tls.readVar`, `Tls.readPrefixed`,
`Tls.dec` on arrays and enums and `Tls.unmarshalWithParams` / `marshalWithParams` refuse exactly when those bodies do, on
the facts the model computes.  `Info.check`, `byteCount` and the final tag checks need no tie: the model *calls* the
regenerated kernels.  Not regenerated (reflective / loops, tied by the correspondence run only): the struct case with
its selector bookkeeping, the element loop of the vector case, `marshalField`'s cases, the clause loop of
`fieldTagToFieldInfo` (its final checks are).
-/
set_option linter.unusedSimpArgs false
namespace C09Tie
open Tls CTV

def failed {α : Type} : Except Err α → Bool
  | .ok _ => false
  | .error _ => true

/-- `readVarUint`: no size information → truncated input → `check`, in this order; `Tls.readVar` refuses exactly then. -/
theorem readVar_tie (i : Info) (bs : Bytes) :
    failed (readVar i bs) =
      (Gen.readVarUintBody (!i.countSet) (decide (bs.length < i.count)) (!(i.check (beDec (bs.take i.count))))).2 := by
  unfold readVar Gen.readVarUintBody
  cases i.countSet <;> by_cases h : bs.length < i.count <;> cases hc : i.check (beDec (bs.take i.count)) <;> simp [failed, h, hc]

/-- the declared length of a vector, as the model sees it after a readable prefix -/
def tooLong (i : Info) (bs : Bytes) : Bool :=
  match readVar i bs with
  | .ok (n, rest) => decide (rest.length < n)
  | .error _ => false

/-- `parseField`, vector case up to the element loop: `Tls.readPrefixed` refuses exactly when the regenerated clause returns an error
(unreadable / out-of-range prefix, then declared length beyond the remaining input) — for byte strings and other vectors alike. -/
theorem slice_tie (i : Info) (bs : Bytes) (isBytes : Bool) :
    failed (readPrefixed i bs) = (Gen.parseSliceHead (failed (readVar i bs)) (tooLong i bs) isBytes).2.1 := by
  unfold readPrefixed Gen.parseSliceHead tooLong
  cases h : readVar i bs with
  | error e => simp [failed]
  | ok p =>
    obtain ⟨n, rest⟩ := p
    by_cases hn : n ≤ rest.length
    · have : ¬ rest.length < n := by omega
      cases isBytes <;> simp [failed, hn, this]
    · have : rest.length < n := by omega
      simp [failed, hn, this]

/-- **The allocation comes after the length test** (regenerated order): whenever the vector clause has called
`reflect.MakeSlice`, the length prefix was readable and in range and the declared length fits the remaining input. -/
theorem alloc_after_length_test (prefixBad tooLong isBytes : Bool)
    (h : (Gen.parseSliceHead prefixBad tooLong isBytes).2.2 = true) : prefixBad = false ∧ tooLong = false := by
  revert h; cases prefixBad <;> cases tooLong <;> cases isBytes <;> simp [Gen.parseSliceHead]

/-- byte arrays: truncated input is the only refusal (`Tls.dec (.arr k)`), a non-byte array is refused whatever the input (`Ty.bad`) -/
theorem array_tie (k : Nat) (bs : Bytes) :
    failed (dec (.arr k) bs) = (Gen.parseArrayBody (decide (bs.length < k)) false).2 := by
  unfold Gen.parseArrayBody
  by_cases h : k ≤ bs.length
  · have : ¬ bs.length < k := by omega
    simp [dec, failed, h, this]
  · have : bs.length < k := by omega
    simp [dec, failed, h, this]

theorem array_nonbyte_refused (tooLong : Bool) : (Gen.parseArrayBody tooLong true).2 = true ∧ ∀ bs, failed (dec .bad bs) = true := by
  cases tooLong <;> simp [Gen.parseArrayBody, dec, failed]

theorem enum_tie (i : Info) (bs : Bytes) : failed (dec (.enum i) bs) = (Gen.parseEnumBody (failed (readVar i bs))).2 := by
  unfold Gen.parseEnumBody
  cases h : readVar i bs <;> simp [dec, failed, h]

/-- `UnmarshalWithParams`: a bad parameter tag, then whatever `parseField` says -/
theorem unmarshal_tie (g : GoTy) (params : List Char) (bs : Bytes) :
    failed (unmarshalWithParams g params bs) =
      (Gen.unmarshalWithParamsBody (failed (resolveTop g params))
        (match resolveTop g params with | .ok t => failed (dec t bs) | .error _ => false)).2 := by
  unfold unmarshalWithParams Gen.unmarshalWithParamsBody
  cases h : resolveTop g params with
  | error e => simp [failed]
  | ok t => cases hd : dec t bs <;> simp [failed, hd]

/-- `MarshalWithParams` hands back bytes exactly when the tag is good and `marshalField` succeeds (first component of the
regenerated body; its final `return out.Bytes(), err` returns the — then nil — variable `err`, which the translation
cannot see, so only the first component is used) -/
theorem marshal_tie (g : GoTy) (params : List Char) (v : Val) :
    (if failed (marshalWithParams g params v) then 0 else 1) =
      (Gen.marshalWithParamsBody (failed (resolveTop g params))
        (match resolveTop g params with | .ok t => failed (enc t v) | .error _ => false)).1 := by
  unfold marshalWithParams Gen.marshalWithParamsBody
  cases h : resolveTop g params with
  | error e => simp [failed]
  | ok t => cases hd : enc t v <;> simp [failed, hd]

example : Gen.parseSliceHead false false true = (0, false, true) ∧ Gen.parseSliceHead false true false = (0, true, false)
    ∧ Gen.parseSliceHead false false false = (2, false, true) := by decide
example : failed (readPrefixed ⟨1, 0, 255, true⟩ [5, 1, 2]) = true ∧ tooLong ⟨1, 0, 255, true⟩ [5, 1, 2] = true := by decide
example : Gen.readVarUintBody false true false = (0, true) ∧ Gen.readVarUintBody false false false = (1, false) := by decide

end C09Tie
