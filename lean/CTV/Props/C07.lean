import CTV.Gen.Handlers
import CTV.Model.HandlerSpec
import CTV.Model.GetEntries
/-!
# C07 — get-entries serves the stored bytes for exactly the range it claims

Property theorems over the **regenerated** kernels `Gen.parseGetEntriesRange` and
`Gen.getEntriesCount` (translated on every run from trillian/ctfe/handlers.go).
`s e m` range over the whole of int64; arithmetic wraps exactly as Go's does
(`I64.add`/`I64.sub`), so an overflow in the code is an overflow in the term.

The handler part (stored bytes relayed unmodified, 4xx without a backend call,
the decoding of served entries is in `CTV.Props.C07b`; the hand model of the handlers is `CTV.Model.GetEntries`.
-/
set_option linter.unusedSimpArgs false
open I64

namespace C07

/-- A request is accepted exactly when `0 ≤ start ≤ end` (all other combinations give an error,
which the handler turns into 400 before any backend call). -/
theorem range_ok_iff (s e m : Int) (al : Bool) :
    (Gen.parseGetEntriesRange s e m al).isSome ↔ (0 ≤ s ∧ s ≤ e) := by
  rw [Gen.parseGetEntriesRange_eq_spec]
  unfold Spec.parseGetEntriesRange
  by_cases h1 : s < 0 <;> by_cases h2 : e < 0 <;> by_cases h3 : s > e <;> simp [h1, h2, h3] <;> omega

/-- Full-strength shape theorem: for every int64 `s e`, every positive int64 maximum `m` and either
alignment setting, an accepted request asks the backend for a range that starts at `s`, ends at
`e' ≤ e`, and whose count — **as computed by the handler's own wrapping expression** — is the true
`e' + 1 - s`, is at least 1 and at most `m`. -/
theorem range_shape (s e m : Int) (al : Bool) (hs : inRange s) (he : inRange e) (hm : 0 < m) (hm' : inRange m)
    (s' e' : Int) (h : Gen.parseGetEntriesRange s e m al = some (s', e')) :
    s' = s ∧ s ≤ e' ∧ e' ≤ e ∧
    Gen.getEntriesCount s' e' = e' + 1 - s ∧ 1 ≤ Gen.getEntriesCount s' e' ∧ Gen.getEntriesCount s' e' ≤ m := by
  rw [Gen.parseGetEntriesRange_eq_spec] at h
  unfold Spec.parseGetEntriesRange at h
  simp only [Bool.or_eq_true, decide_eq_true_eq, Bool.and_eq_true] at h
  split at h
  · simp at h
  split at h
  · simp at h
  rename_i h1 h3
  simp only [Option.some.injEq, Prod.mk.injEq] at h
  obtain ⟨rfl, h⟩ := h
  unfold inRange at hs he hm'
  have w : ∀ x : Int, -(2^63) ≤ x → x < 2^63 → wrap64 x = x := wrap64_id'
  -- the handler's count expression never wraps to a wrong value: wrap (wrap (e'+1) - s) = e'+1-s
  have hcount : ∀ x : Int, s ≤ x → x ≤ e → x + 1 - s ≤ m → Gen.getEntriesCount s x = x + 1 - s := by
    intro x hx1 hx2 hx3
    rw [Gen.getEntriesCount_eq_spec]
    unfold Spec.getEntriesCount I64.sub I64.add wrap64
    omega
  split at h <;> split at h <;> rename_i hc ha
  all_goals simp only [decide_eq_true_eq, Bool.and_eq_true, not_and, Int.not_lt, Int.not_le, ge_iff_le, gt_iff_lt] at hc ha
  all_goals simp (disch := omega) only [I64.add, I64.sub, w] at h hc ha ⊢
  all_goals (try (have hb0 := rem_bounds (s + m - 1) m (by omega) hm))
  all_goals (try (have hb0' := rem_bounds e m (by omega) hm))
  all_goals (try (have hb := rem_bounds (rem (s + m - 1) m + 1) m (by omega) hm))
  all_goals (try (have hb' := rem_bounds (rem e m + 1) m (by omega) hm))
  all_goals (try simp (disch := omega) only [I64.add, I64.sub, w] at h)
  all_goals subst h
  all_goals (
    refine ⟨trivial, ?_, ?_, ?_⟩
    · omega
    · omega
    · rw [hcount _ (by omega) (by omega) (by omega)]
      refine ⟨rfl, ?_, ?_⟩ <;> omega)

/-- Alignment coercion only ever shortens the range: with alignment on, the range starts at the same
index and ends no later than with alignment off. -/
theorem align_only_shortens (s e m : Int) (hs : inRange s) (he : inRange e) (hm : 0 < m) (hm' : inRange m)
    (s1 e1 s2 e2 : Int)
    (h1 : Gen.parseGetEntriesRange s e m true = some (s1, e1))
    (h2 : Gen.parseGetEntriesRange s e m false = some (s2, e2)) :
    s1 = s2 ∧ e1 ≤ e2 ∧ s1 ≤ e1 := by
  have a := range_shape s e m true hs he hm hm' s1 e1 h1
  rw [Gen.parseGetEntriesRange_eq_spec] at h1 h2
  unfold Spec.parseGetEntriesRange at h1 h2
  simp only [Bool.or_eq_true, decide_eq_true_eq, Bool.and_eq_true, Bool.false_and, Bool.true_and,
    Bool.false_eq_true, if_false] at h1 h2
  split at h1
  · simp at h1
  split at h1
  · simp at h1
  rename_i g1 g3
  simp only [g1, g3, if_false] at h2
  simp only [Option.some.injEq, Prod.mk.injEq] at h1 h2
  obtain ⟨rfl, h1⟩ := h1
  obtain ⟨rfl, h2⟩ := h2
  unfold inRange at hs he hm'
  have w : ∀ x : Int, -(2^63) ≤ x → x < 2^63 → wrap64 x = x := wrap64_id'
  refine ⟨rfl, ?_, a.2.1⟩
  have hb0 := rem_bounds (s + m - 1) m (by omega) hm
  have hb0' := rem_bounds e m (by omega) hm
  have hb := rem_bounds (rem (s + m - 1) m + 1) m (by omega) hm
  have hb' := rem_bounds (rem e m + 1) m (by omega) hm
  by_cases hc : I64.sub e s ≥ m
  · simp only [hc, if_true] at h1 h2
    simp (disch := omega) only [I64.add, I64.sub, w] at h1 h2 hc
    split at h1 <;> rename_i hsp <;> (try simp (disch := omega) only [I64.add, I64.sub, w] at h1 h2 hsp) <;> omega
  · simp only [hc, if_false] at h1 h2
    simp (disch := omega) only [I64.add, I64.sub, w] at h1 h2 hc
    split at h1 <;> rename_i hsp <;> (try simp (disch := omega) only [I64.add, I64.sub, w] at h1 h2 hsp) <;> omega

/-- Non-vacuity: the overflow corner (`start = 0`, `end = 2^63 − 1`, the input of finding F5) meets the
hypotheses and is accepted. -/
example : Gen.parseGetEntriesRange 0 (2^63 - 1) 1000 true = some (0, 999) := by decide
example : Gen.parseGetEntriesRange (2^63 - 1000) (2^63 - 1) 1000 true = some (2^63 - 1000, 2^63 - 809) := by decide
example : Gen.parseGetEntriesRange 5 2004 1000 false = some (5, 1004) := by decide
example : Gen.parseGetEntriesRange 5 2004 1000 true = some (5, 999) := by decide
example : inRange 0 ∧ inRange (2^63 - 1) ∧ (0:Int) < 1000 ∧ inRange 1000 := by decide

/-- get-entry-and-proof parameters are accepted exactly when `0 ≤ leaf_index < tree_size`. -/
theorem entryAndProof_ok_iff (i n : Int) :
    (Gen.parseGetEntryAndProofParams i n).isSome ↔ (0 ≤ i ∧ i < n) := by
  rw [Gen.parseGetEntryAndProofParams_eq_spec]
  unfold Spec.parseGetEntryAndProofParams
  by_cases h1 : n ≤ 0 <;> by_cases h2 : i < 0 <;> by_cases h3 : i ≥ n <;> simp [h1, h2, h3] <;> omega

theorem entryAndProof_passthrough (i n i' n' : Int)
    (h : Gen.parseGetEntryAndProofParams i n = some (i', n')) : i' = i ∧ n' = n := by
  rw [Gen.parseGetEntryAndProofParams_eq_spec] at h
  unfold Spec.parseGetEntryAndProofParams at h
  repeat (split at h; · simp at h)
  simp at h; omega

example : Gen.parseGetEntryAndProofParams 3 7 = some (3, 7) := by decide

/-! ## the handler part (hand model `CTV.Model.GetEntries`, tied by the correspondence run) -/
open CTV CTV.Model

theorem indicesOk_spec : ∀ (ls : List BLeaf) (s : Int), indicesOk s ls = true → ∀ i (h : i < ls.length), ls[i].idx = s + i
  | [], _, _, i, h => by simp at h
  | l :: ls, s, hok, i, h => by
    simp only [indicesOk, Bool.and_eq_true, decide_eq_true_eq] at hok
    cases i with
    | zero => simp [hok.1]
    | succ i =>
      have := indicesOk_spec ls (s + 1) hok.2 i (by simpa using h)
      simp only [List.getElem_cons_succ, this]; omega

/-- **served_entries.** A 200 answer carries exactly the backend's `(LeafValue, ExtraData)` pairs, unmodified and in order;
their indices are consecutive from `start`, and there are at most `count` of them. Anything else is not a 200. -/
theorem served_entries (start count : Int) (treeSize : Nat) (leaves : List BLeaf) (es : List (Bytes × Bytes))
    (h : getEntriesRespond start count treeSize leaves = (200, es)) :
    es = leaves.map (fun l => (l.value, l.extra)) ∧ (leaves.length : Int) ≤ count ∧
    (∀ i (hi : i < leaves.length), leaves[i].idx = start + i) ∧ U64.wrap start < treeSize := by
  unfold getEntriesRespond at h
  split at h
  · simp at h
  split at h
  · simp at h
  split at h
  · simp at h
  rename_i h1 h2 h3
  simp only [Prod.mk.injEq, true_and] at h
  have h3' : indicesOk start leaves = true := by
    cases hh : indicesOk start leaves
    · simp [hh] at h3
    · rfl
  exact ⟨h.symm, by omega, indicesOk_spec leaves start h3', by omega⟩

/-- …and conversely an honest backend reply (tree beyond `start`, at most `count` leaves, consecutive indices from `start`)
is answered 200 with exactly those leaves — the handler does not reject what it should serve. -/
theorem served_entries_complete (start count : Int) (treeSize : Nat) (leaves : List BLeaf)
    (ht : U64.wrap start < treeSize) (hc : (leaves.length : Int) ≤ count) (hi : indicesOk start leaves = true) :
    getEntriesRespond start count treeSize leaves = (200, leaves.map (fun l => (l.value, l.extra))) := by
  unfold getEntriesRespond
  have h1 : ¬ ((treeSize : Int) ≤ U64.wrap start) := by omega
  have h2 : ¬ ((leaves.length : Int) > count) := by omega
  simp [h1, h2, hi]

/-- every request that does not satisfy `0 ≤ start ≤ end` (including unparsable parameters) is refused before any backend
call: the handler answers 400 (see `C08.pre_params` for the HTTP surface). -/
theorem bad_params_no_rpc (sS eS : String) (m : Int) (al : Bool) :
    (getEntriesRequest sS eS m al).isSome ↔ ∃ s e, parseInt64 sS = some s ∧ parseInt64 eS = some e ∧ 0 ≤ s ∧ s ≤ e := by
  unfold getEntriesRequest
  cases hs : parseInt64 sS <;> cases he : parseInt64 eS <;> simp
  rename_i s e
  have := range_ok_iff s e m al
  cases hr : Gen.parseGetEntriesRange s e m al with
  | none => rw [hr] at this; simp at this ⊢; omega
  | some p => rw [hr] at this; simp at this ⊢; exact this

/-- **entry_and_proof_same_bytes.** get-entry-and-proof answers 200 only with the backend leaf's own `LeafValue` and
`ExtraData` — the same bytes get-entries serves for that index — and the proof hashes unmodified. -/
theorem entry_and_proof_same_bytes (ts : Int) (treeSize : Nat) (leaf : Option BLeaf) (proof : Option (List Bytes))
    (v x : Bytes) (p : List Bytes)
    (h : getEntryAndProofRespond ts treeSize leaf proof = (200, some (v, x, p))) :
    ∃ l, leaf = some l ∧ v = l.value ∧ x = l.extra ∧ proof = some p ∧ v ≠ [] := by
  unfold getEntryAndProofRespond at h
  split at h
  · simp at h
  split at h
  · rename_i l p' 
    split at h
    · simp at h
    split at h
    · simp at h
    rename_i hne _
    simp only [Prod.mk.injEq, Option.some.injEq, true_and] at h
    refine ⟨l, rfl, h.1.symm, h.2.1.symm, by rw [h.2.2], ?_⟩
    rw [← h.1]; intro hnil; simp [hnil] at hne
  · simp at h

example : getEntriesRespond 5 3 10 [⟨5, [1], [2]⟩, ⟨6, [3], []⟩] = (200, [([1], [2]), ([3], [])]) := by decide
example : (getEntriesRespond 5 3 10 [⟨5, [1], [2]⟩, ⟨7, [3], []⟩]).1 = 500 := by decide

end C07
