import CTV.Model.Witness
import CTV.Model.WitnessSpec
/-!
# C19: the hand-written witness model follows the check sequences regenerated from witness.go

`Gen.witnessUpdate`, `Gen.witnessGetSTH` and `Gen.witnessParse` are the whole bodies of `Witness.Update`, `Witness.GetSTH`
and `Witness.parse`, translated statement by statement on every run: the order of the tests, what each branch hands back
(nothing / the held raw STH / the freshly cosigned STH), whether an error accompanies it, and whether the row was written.
The theorems below say that the model used by every C19 theorem (`CTV.Model.Witness`) decides exactly as those bodies do
when their inputs are the facts the model computes. A reordered test, a branch that hands back something else, a write
moved before a check — each changes the regenerated body and breaks one of these equalities.

Database failures (`BeginTx`, `setSTH`, a `getLatestSTH` error other than "no row") are inputs of the regenerated bodies
that the model fixes to "does not fail" (the model's stated assumption: a working, serialisable store).
-/
set_option linter.unusedSimpArgs false
set_option linter.unusedSectionVars false
namespace CTV.Props.C19Tie
open CTV CTV.Model.Witness

variable {Hash Sig CoSig : Type} [DecidableEq Hash]

/-- what a reply hands back, in the coding of the regenerated bodies: 0 nothing, 1 the held raw STH, 2 a cosigned STH;
and whether an error accompanies it -/
def code : Reply Hash Sig CoSig → Nat × Bool
  | .cosigned _ _ => (2, false)
  | .held _ failed => (1, failed)
  | .err _ => (0, true)
  | .logs _ => (0, false)

def failed {ε α : Type} : Except ε α → Bool
  | .ok _ => false
  | .error _ => true

def valueOr {ε α : Type} (d : α) : Except ε α → α
  | .ok a => a
  | .error _ => d

/-- the facts `Witness.Update` tests, as the model computes them -/
structure Facts where
  known : Bool
  nextParseFails : Bool
  latestFails : Bool
  signFails : Bool
  prevParseFails : Bool
  nextSize : Int
  prevSize : Int
  rootsEqual : Bool
  proofBad : Bool

def facts (env : Env Hash Sig CoSig) (db : Db Hash Sig) (id : LogId) (raw : Raw Hash Sig) (pf : List Hash) : Facts :=
  let nextRaw := match raw with | .sth s => some s | .garbage => none
  let nextP := parse env id raw
  let next := nextRaw.bind fun n => (match nextP with | .ok s => some s | .error _ => some n)
  let prevP := (db id).map fun p => parse env id (.sth p)
  let prev := (db id).map fun p => valueOr p (parse env id (.sth p))
  { known := env.known id
    nextParseFails := failed nextP
    latestFails := (db id).isNone
    signFails := match next with | some n => (env.cosign n).isNone | none => true
    prevParseFails := match prevP with | some r => failed r | none => false
    nextSize := match next with | some n => (n.size : Int) | none => 0
    prevSize := match prev with | some p => (p.size : Int) | none => 0
    rootsEqual := match next, prev with | some n, some p => decide (n.root = p.root) | _, _ => false
    proofBad := match next, prev with
      | some n, some p => !(Merkle.verifyConsistency env.nodeH p.size n.size pf p.root n.root)
      | _, _ => true }

/-- the regenerated body of `Witness.Update` on the model's facts; the store never fails (model assumption) and a
`getLatestSTH` error is always "no row" -/
def genUpdate (f : Facts) : Nat × Bool × Bool :=
  Gen.witnessUpdate f.known f.nextParseFails false f.latestFails true f.signFails false f.prevParseFails
    f.nextSize f.prevSize f.rootsEqual f.proofBad

theorem parse_unknown (env : Env Hash Sig CoSig) (id : LogId) (raw : Raw Hash Sig) (h : env.known id = false) :
    parse env id raw = .error .notFound := by
  unfold parse; simp [h]

theorem parse_garbage (env : Env Hash Sig CoSig) (id : LogId) (h : env.known id = true) :
    parse env id (.garbage : Raw Hash Sig) = .error .badJson := by
  unfold parse; simp [h]

/-- **update_tie (reply).** What `Model.Witness.update` answers — nothing, the held STH or a cosigned STH, with or without
an error — is what the regenerated body of `Witness.Update` answers on the same facts, for every configuration, stored
state, log ID, submitted body and proof. -/
theorem update_tie_reply (env : Env Hash Sig CoSig) (db : Db Hash Sig) (id : LogId) (raw : Raw Hash Sig) (pf : List Hash) :
    code (update env db id raw pf).2 = ((genUpdate (facts env db id raw pf)).1, (genUpdate (facts env db id raw pf)).2.1) := by
  unfold genUpdate
  rw [Gen.witnessUpdate_eq_spec]
  unfold Spec.witnessUpdate
  by_cases hk : env.known id = true
  · cases raw with
    | garbage =>
      simp [update, facts, hk, parse_garbage env id hk, failed, code]
    | sth n =>
      cases hp : parse env id (.sth n) with
      | error e => simp [update, facts, hk, hp, failed, code]
      | ok next =>
        cases hd : db id with
        | none =>
          cases hc : env.cosign next with
          | none => simp [update, facts, hk, hp, hd, failed, code, accept, hc]
          | some c => simp [update, facts, hk, hp, hd, failed, code, accept, hc]
        | some p =>
          cases hpp : parse env id (.sth p) with
          | error e => simp [update, facts, hk, hp, hd, hpp, failed, code]
          | ok prev =>
            by_cases h1 : next.size < prev.size
            · have h1' : (next.size : Int) < (prev.size : Int) := by omega
              simp [update, facts, hk, hp, hd, hpp, failed, code, valueOr, h1, h1']
            · by_cases h2 : next.size = prev.size
              · have h1' : ¬ ((next.size : Int) < (prev.size : Int)) := by omega
                have h2' : (next.size : Int) = (prev.size : Int) := by omega
                by_cases hr : next.root = prev.root
                · simp [update, facts, hk, hp, hd, hpp, failed, code, valueOr, h1, h2, h1', h2', hr]
                · simp [update, facts, hk, hp, hd, hpp, failed, code, valueOr, h1, h2, h1', h2', hr]
              · have h1' : ¬ ((next.size : Int) < (prev.size : Int)) := by omega
                have h2' : ¬ ((next.size : Int) = (prev.size : Int)) := by omega
                cases hv : Merkle.verifyConsistency env.nodeH prev.size next.size pf prev.root next.root with
                | false => simp [update, facts, hk, hp, hd, hpp, failed, code, valueOr, h1, h2, h1', h2', hv]
                | true =>
                  cases hc : env.cosign next with
                  | none => simp [update, facts, hk, hp, hd, hpp, failed, code, valueOr, h1, h2, h1', h2', hv, accept, hc]
                  | some c => simp [update, facts, hk, hp, hd, hpp, failed, code, valueOr, h1, h2, h1', h2', hv, accept, hc]
  · have hk' : env.known id = false := by simpa using hk
    simp [update, facts, hk', code]

/-- **update_tie (store).** The row of the addressed log is rewritten with the submitted raw STH exactly when the
regenerated body reaches a successful `setSTH`; otherwise the stored state is untouched. (Uses the order the code has
now: `Gen.witnessSignsBeforeCommit`.) -/
theorem update_tie_store (env : Env Hash Sig CoSig) (db : Db Hash Sig) (id : LogId) (n : Sth Hash Sig) (pf : List Hash) :
    (update env db id (.sth n) pf).1 =
      if (genUpdate (facts env db id (.sth n) pf)).2.2 then db.set id n else db := by
  have hfix : Gen.witnessSignsBeforeCommit = true := rfl
  unfold genUpdate
  rw [Gen.witnessUpdate_eq_spec]
  unfold Spec.witnessUpdate
  by_cases hk : env.known id = true
  · cases hp : parse env id (.sth n) with
    | error e => simp [update, facts, hk, hp, failed]
    | ok next =>
      cases hd : db id with
      | none =>
        cases hc : env.cosign next with
        | none => simp [update, facts, hk, hp, hd, failed, accept, hc, hfix]
        | some c => simp [update, facts, hk, hp, hd, failed, accept, hc]
      | some p =>
        cases hpp : parse env id (.sth p) with
        | error e => simp [update, facts, hk, hp, hd, hpp, failed]
        | ok prev =>
          by_cases h1 : next.size < prev.size
          · have h1' : (next.size : Int) < (prev.size : Int) := by omega
            simp [update, facts, hk, hp, hd, hpp, failed, valueOr, h1, h1']
          · by_cases h2 : next.size = prev.size
            · have h1' : ¬ ((next.size : Int) < (prev.size : Int)) := by omega
              have h2' : (next.size : Int) = (prev.size : Int) := by omega
              by_cases hr : next.root = prev.root
              · simp [update, facts, hk, hp, hd, hpp, failed, valueOr, h1, h2, h1', h2', hr]
              · simp [update, facts, hk, hp, hd, hpp, failed, valueOr, h1, h2, h1', h2', hr]
            · have h1' : ¬ ((next.size : Int) < (prev.size : Int)) := by omega
              have h2' : ¬ ((next.size : Int) = (prev.size : Int)) := by omega
              cases hv : Merkle.verifyConsistency env.nodeH prev.size next.size pf prev.root next.root with
              | false => simp [update, facts, hk, hp, hd, hpp, failed, valueOr, h1, h2, h1', h2', hv]
              | true =>
                cases hc : env.cosign next with
                | none => simp [update, facts, hk, hp, hd, hpp, failed, valueOr, h1, h2, h1', h2', hv, accept, hc, hfix]
                | some c => simp [update, facts, hk, hp, hd, hpp, failed, valueOr, h1, h2, h1', h2', hv, accept, hc]
  · have hk' : env.known id = false := by simpa using hk
    simp [update, facts, hk']

/-- **getSTH_tie.** `Model.Witness.getSTH` answers as the regenerated body of `Witness.GetSTH`. -/
theorem getSTH_tie (env : Env Hash Sig CoSig) (db : Db Hash Sig) (id : LogId) :
    code (getSTH env db id) =
      Gen.witnessGetSTH (db id).isNone
        (match db id with | some r => failed (parse env id (.sth r)) | none => false)
        (match db id with
          | some r => (match parse env id (.sth r) with | .ok s => (env.cosign s).isNone | .error _ => false)
          | none => false) := by
  rw [Gen.witnessGetSTH_eq_spec]
  unfold Spec.witnessGetSTH getSTH
  cases hd : db id with
  | none => simp [code]
  | some r =>
    cases hp : parse env id (.sth r) with
    | error e => simp [code, failed, hp]
    | ok s =>
      cases hc : env.cosign s with
      | none => simp [code, failed, hp, hc]
      | some c => simp [code, failed, hp, hc]

/-- **parse_tie.** `Model.Witness.parse` refuses and accepts as the regenerated body of `Witness.parse`, and fills in the
log ID exactly when that body does. -/
theorem parse_tie (env : Env Hash Sig CoSig) (id : LogId) (s : Sth Hash Sig) :
    let idh := env.idOf id
    let k := Gen.witnessParse (env.known id) false idh.isNone s.idField.isNone
      (match s.idField, idh with | some x, some h => x == h | _, _ => false)
      (!env.verify id s.ts s.size s.root s.sig)
    failed (parse env id (.sth s)) = k.2.1 ∧
    (k.2.1 = false → ∃ h, idh = some h ∧ parse env id (.sth s) = .ok { s with idField := some h }) := by
  intro idh k
  simp only [k, idh]
  rw [Gen.witnessParse_eq_spec]
  unfold Spec.witnessParse parse
  by_cases hk : env.known id = true
  · cases hi : env.idOf id with
    | none => simp [hk, failed]
    | some h =>
      cases hf : s.idField with
      | none =>
        cases hv : env.verify id s.ts s.size s.root s.sig <;> simp [hk, failed, idMismatch, hf, hv]
      | some x =>
        by_cases hx : x = h
        · cases hv : env.verify id s.ts s.size s.root s.sig <;> simp [hk, failed, idMismatch, hf, hv, hx]
        · cases hv : env.verify id s.ts s.size s.root s.sig <;> simp [hk, failed, idMismatch, hf, hv, hx]
  · have hk' : env.known id = false := by simpa using hk
    simp [hk', failed]

/-! ### the ties are about reachable cases (non-vacuity) -/

example : Gen.witnessUpdate true false false true true false false false 5 0 false true = (2, false, true) := by decide
example : Gen.witnessUpdate true false false false true false false false 5 7 false true = (1, true, false) := by decide
example : Gen.witnessUpdate true false false false true false false false 7 7 true true = (1, false, false) := by decide
example : Gen.witnessUpdate true false false false true true false false 9 7 false false = (0, true, false) := by decide

end CTV.Props.C19Tie
