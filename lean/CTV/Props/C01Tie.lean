import CTV.Props.C01
import CTV.Gen.HandlerChecks
import CTV.Gen.ChainTie
/-!
# C01: the hand-written add-chain model follows the check sequence regenerated from the handler

`Gen.addChainInternal` (regenerated for C08, `Gen.HandlerChecks`) is the whole body of `addChainInternal`, statement by
statement: parse body → `verifyAddChain` → `MerkleTreeLeafFromChain` (400) → `buildLeaf` (500) → **`QueueLeaf`** → reply
sanity → decode the **returned** leaf (500) → `buildV1SCT` → marshal → `IssueSCT` → write; with the status of every exit,
whether an error accompanies it, whether the backend was called and whether an SCT was issued.  `addChain_tie`: on the facts
the model computes, the model `addChain` answers with the same status and the same "leaf was queued" / "SCT was issued"
flags.  The model starts after body parsing and chain validation (C02) and its backend, signer and writer do not fail, so
those inputs are fixed to "does not fail".

`Gen.buildV1SCTBody`, `Gen.writeAddChainResponseBody` are the whole bodies of `buildV1SCT` and
`marshalAndWriteAddChainResponse`; `Gen.extraUsesChainLayout` / `Gen.buildLogLeafChainHashArg` the layout choice of
`util.buildLogLeaf` / `BuildLogLeaf`.
-/
namespace CTV.Props.C01Tie
open CTV CTV.Model.AddChain C01

/-- status, error flag, "a leaf was handed to the backend", "an SCT was issued" of a model response -/
def code : Rsp → Nat × Bool × Bool × Bool
  | .ok _ _ => (200, false, true, true)
  | .bad s q => (s, true, q.isSome, false)

/-- the facts `addChainInternal` tests, as the model computes them -/
structure Facts where
  leafBuildBad : Bool
  buildFails : Bool
  leafUndecodable : Bool

def facts (cfg : Cfg) (st : State) (nowNanos : Int) (path : List Cert) (isPrecert : Bool) : Facts :=
  match entryOf cfg path isPrecert, path[Gen.leafCertIdx]? with
  | some e, some leaf =>
    match encodeLeaf (Gen.timeMillis nowNanos).toNat e [], encodeExtra isPrecert leaf.der ((path.drop Gen.extraFromIdx).map (·.der)) with
    | some lv, some extra =>
      ⟨false, false, (decodeLeaf (queueLeaf st ⟨cfg.H leaf.der, lv, extra⟩).1.leafValue).isNone⟩
    | _, _ => ⟨false, true, false⟩
  | _, _ => ⟨true, false, false⟩

/-- the regenerated body on the model's facts: the request body parsed, the chain was admitted, the backend answers with a
complete reply, signing / marshalling / writing do not fail; a returned leaf with trailing bytes counts as undecodable -/
def genAddChain (f : Facts) : Nat × Bool × Bool × Bool :=
  Gen.addChainInternal false false f.leafBuildBad f.buildFails false 0 false false false f.leafUndecodable false false false false

/-- **addChain_tie.** The model answers as the regenerated handler body does: same status, same error flag, a leaf is handed
to the backend exactly when the body reaches `QueueLeaf`, an SCT is issued exactly when it reaches `IssueSCT` — in
particular only after the leaf was queued and the **returned** leaf decoded. -/
theorem addChain_tie (cfg : Cfg) (st : State) (nowNanos : Int) (path : List Cert) (isPrecert : Bool) :
    code (addChain cfg st nowNanos path isPrecert).1 = genAddChain (facts cfg st nowNanos path isPrecert) := by
  unfold addChain facts
  dsimp only
  split
  · rename_i he
    simp only [he]; simp [genAddChain, Gen.addChainInternal, code]
  · rename_i e he
    split
    · rename_i hl
      simp only [he, hl]; simp [genAddChain, Gen.addChainInternal, code]
    · rename_i leaf hl
      split
      · rename_i lv extra hlv hx
        split
        · rename_i hd
          simp only [he, hl, hlv, hx, hd]; simp [genAddChain, Gen.addChainInternal, code]
        · rename_i ts e' ext hd
          simp only [he, hl, hlv, hx, hd]; simp [genAddChain, Gen.addChainInternal, code]
      · rename_i hno
        cases hlv : encodeLeaf (Gen.timeMillis nowNanos).toNat e [] with
        | none => simp only [he, hl, hlv]; simp [genAddChain, Gen.addChainInternal, code]
        | some lv =>
          cases hx : encodeExtra isPrecert leaf.der ((path.drop Gen.extraFromIdx).map (·.der)) with
          | none => simp only [he, hl, hlv, hx]; simp [genAddChain, Gen.addChainInternal, code]
          | some extra => exact absurd hx (by intro h; exact hno lv extra hlv h)

-- non-vacuity: an admitted submission runs the whole body (200, leaf queued, SCT issued); an empty path leaves at the 400 of
-- `MerkleTreeLeafFromChain` before the backend; a leaf that cannot be built leaves with 500 before the backend; a returned
-- leaf that does not decode leaves with 500 after the backend and before signing
example : code (addChain exCfg [] exSub1.now exSub1.path false).1 = (200, false, true, true) ∧
    genAddChain (facts exCfg [] exSub1.now exSub1.path false) = (200, false, true, true) := by decide
example : code (addChain exCfg [] exSub3.now exSub3.path true).1 = (200, false, true, true) := by decide
example : code (addChain exCfg [] 5 [] false).1 = (400, true, false, false) ∧ genAddChain (facts exCfg [] 5 [] false) = (400, true, false, false) := by decide
example : genAddChain ⟨false, true, false⟩ = (500, true, false, false) ∧ genAddChain ⟨false, false, true⟩ = (500, true, true, false) := by decide

/-- the order of the regenerated body, spelled out on its exits: nothing reaches the backend before the leaf is built, and no
SCT is issued unless the backend was called and the returned leaf decoded -/
theorem order_of_exits (bodyBad chainBad leafBuildBad buildFails rpcFails : Bool) (mapped : Nat)
    (rspNil qlNil leafNil leafUndecodable trailing signFails sctMarshalFails writeFails : Bool) :
    let g := Gen.addChainInternal bodyBad chainBad leafBuildBad buildFails rpcFails mapped rspNil qlNil leafNil leafUndecodable trailing signFails sctMarshalFails writeFails
    (g.2.2.1 = true ↔ (bodyBad = false ∧ chainBad = false ∧ leafBuildBad = false ∧ buildFails = false)) ∧
    (g.2.2.2 = true → g.2.2.1 = true ∧ rpcFails = false ∧ rspNil = false ∧ qlNil = false ∧ leafNil = false ∧
      leafUndecodable = false ∧ trailing = false ∧ signFails = false ∧ sctMarshalFails = false) ∧
    (g.1 = 200 ∧ g.2.1 = false → g.2.2.2 = true ∧ writeFails = false) := by
  cases bodyBad <;> (try (simp [Gen.addChainInternal]; done))
  cases chainBad <;> (try (simp [Gen.addChainInternal]; done))
  cases leafBuildBad <;> (try (simp [Gen.addChainInternal]; done))
  cases buildFails <;> (try (simp [Gen.addChainInternal]; done))
  cases rpcFails <;> (try (simp [Gen.addChainInternal]; done))
  cases rspNil <;> (try (simp [Gen.addChainInternal]; done))
  cases qlNil <;> (try (simp [Gen.addChainInternal]; done))
  cases leafNil <;> (try (simp [Gen.addChainInternal]; done))
  cases leafUndecodable <;> (try (simp [Gen.addChainInternal]; done))
  cases trailing <;> (try (simp [Gen.addChainInternal]; done))
  cases signFails <;> (try (simp [Gen.addChainInternal]; done))
  cases sctMarshalFails <;> (try (simp [Gen.addChainInternal]; done))
  cases writeFails <;> simp [Gen.addChainInternal]

example : (Gen.addChainInternal false false false false false 0 false false false false false true false false).2.2 = (true, false) := by decide

/-- `buildV1SCT` and the response writer: three resp. four failure points, in this order, and success only past all of them -/
theorem sct_and_response_steps (a b c d : Bool) :
    Gen.buildV1SCTBody a b c = (if a || b || c then (0, true) else (1, false)) ∧
    Gen.writeAddChainResponseBody a b c d = !(a || b || c || d) := by
  cases a <;> cases b <;> cases c <;> cases d <;> decide

example : Gen.buildV1SCTBody false true false = (0, true) ∧ Gen.buildV1SCTBody false false false = (1, false) ∧
    Gen.writeAddChainResponseBody false false false true = false ∧ Gen.writeAddChainResponseBody false false false false = true := by decide

/-- the extra data uses the RFC 6962 chain layout exactly when no chain hash is supplied, and `util.BuildLogLeaf` (what the
direct issuance-chain service calls) supplies none — the layout the model's `encodeExtra` uses -/
theorem extra_layout_choice : (∀ b, Gen.extraUsesChainLayout b = b) ∧ Gen.buildLogLeafChainHashArg = "nil" := by
  refine ⟨by intro b; cases b <;> rfl, by decide⟩

end CTV.Props.C01Tie
