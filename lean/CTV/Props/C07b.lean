import CTV.Props.C04
/-!
# C07 (continued) — decoding a served entry recovers what was submitted

Corollaries of the C04 theorems (`C04.rawLogEntry_of_rfc`: the library's entry parser over the **regenerated** struct tags
accepts exactly the RFC 6962 §4.6 layouts) and of the round trips of the independent RFC transcription
(`CTV/Rfc6962/Wire.lean`, `CTV/Lemmas/RfcWire.lean`). Together with `C07.served_entries` (the handler relays the stored bytes)
and C01 `queued_leaf` (what is stored is the RFC leaf and chain of the submission) this is the property's clause
"decoding a served entry with the library's entry parser recovers the submitted certificate or precertificate, its chain, the
entry type and the timestamp".
-/
open CTV CtWire Tls

namespace C07
/-- **entry_decode_inverse.** What the log stores for an accepted submission — the RFC 6962 `MerkleTreeLeaf` of the entry as
`leaf_input` and the chain (`certificate_chain`, or `PrecertChainEntry` with the precertificate first) as `extra_data`
(C01 `queued_leaf`) — decodes with the library's entry parser (`RawLogEntryFromLeaf`, over the regenerated tags) to exactly
that leaf (version, timestamp, entry type, certificate / TBS + issuer key hash, extensions) and exactly that chain. -/
theorem entry_decode_inverse_x509 (l : Rfc.MerkleTreeLeaf) (chain : List Bytes) (li xd : Bytes) (cert : Bytes)
    (hkind : l.entry.entry = .x509 cert)
    (hl : Rfc.merkleTreeLeaf l = some li) (hx : Rfc.certChain chain = some xd) :
    ∃ rle, rawLogEntryFromLeaf li xd = .ok rle ∧ rle.leaf = leafVal l ∧ rle.chain = .list (chain.map asn1CertVal) := by
  have h1 := Rfc.decMerkleTreeLeaf_enc l li [] hl
  have h2 := Rfc.decCertChain_enc chain xd [] hx
  simp only [List.append_nil] at h1 h2
  have hd : Rfc.decLogEntry li xd = some (l, .x509 chain) := by
    simp [Rfc.decLogEntry, Rfc.complete, h1, h2, hkind]
  obtain ⟨rle, hr, hleaf, hc⟩ := C04.rawLogEntry_of_rfc li xd l (.x509 chain) hd
  exact ⟨rle, hr, hleaf, hc⟩

theorem entry_decode_inverse_precert (l : Rfc.MerkleTreeLeaf) (e : Rfc.PrecertChainEntry) (li xd : Bytes) (p : Rfc.PreCert)
    (hkind : l.entry.entry = .precert p)
    (hl : Rfc.merkleTreeLeaf l = some li) (hx : Rfc.precertChainEntry e = some xd) :
    ∃ rle, rawLogEntryFromLeaf li xd = .ok rle ∧ rle.leaf = leafVal l ∧
      rle.cert = asn1CertVal e.preCertificate ∧ rle.chain = .list (e.chain.map asn1CertVal) := by
  have h1 := Rfc.decMerkleTreeLeaf_enc l li [] hl
  have h2 := Rfc.decPrecertChainEntry_enc e xd [] hx
  simp only [List.append_nil] at h1 h2
  have hd : Rfc.decLogEntry li xd = some (l, .precert e) := by
    simp [Rfc.decLogEntry, Rfc.complete, h1, h2, hkind]
  obtain ⟨rle, hr, hleaf, hc⟩ := C04.rawLogEntry_of_rfc li xd l (.precert e) hd
  exact ⟨rle, hr, hleaf, hc.1, hc.2⟩

/-- non-vacuity: a concrete X.509 entry (certificate `01 02 03`, timestamp 1234, chain of two) is stored as these bytes and
decodes back -/
example : Rfc.merkleTreeLeaf ⟨0, ⟨1234, .x509 [1, 2, 3], []⟩⟩ = some [0, 0, 0, 0, 0, 0, 0, 0, 4, 210, 0, 0, 0, 0, 3, 1, 2, 3, 0, 0] ∧
    Rfc.certChain [[9], [8, 7]] = some [0, 0, 9, 0, 0, 1, 9, 0, 0, 2, 8, 7] := by decide

end C07
