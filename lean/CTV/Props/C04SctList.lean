import CTV.Props.C04
/-!
# C04, SCT lists at full strength (RFC 6962 §3.3: `SerializedSCT sct_list<1..2^16-1>`)

The regenerated tag of `x509.SignedCertificateTimestampList.SCTList` says `maxlen:65535` (`tag_is_rfc`).  Before afdaa85
(finding F4: `maxlen:65335`) `tag_is_rfc` was false and the proof attempt showed it; the equalities are ordinary
obligations now.
-/
set_option linter.unusedSimpArgs false

namespace C04SctList
open Tls CTV CtWire

/-- the tag's outer bound is the RFC's -/
theorem tag_is_rfc : sctListMax = 65535 := by decide +kernel

theorem enc_sctList (l : List Bytes) : eo (enc tSCTList (sctListVal l)) = Rfc.sctList l := by
  have e1 := C04.enc_serializedSCT
  rw [ty_SerializedSCT] at e1
  rw [ty_SCTList, tag_is_rfc]
  simp only [xSCTList, sctListVal, enc_struct_eo, encFields_plain_eo, encFields_nil_eo, enc_vec_eo,
    encListWith_map_eo xSerializedSCT serializedSCTVal Rfc.serializedSCT e1, Rfc.sctList]
  have ht : allTaken [] [] = true := by decide
  simp only [ht, if_true]
  cases Rfc.concatAll Rfc.serializedSCT l with
  | none => simp
  | some body =>
    have := encPrefixed_iSct body
    simp only [iSct] at this
    simp [this]

theorem dec_sctList (bs : Bytes) (l : List Bytes) (r : Bytes) :
    dec tSCTList bs = .ok (sctListVal l, r) ↔ Rfc.decSctList bs = some (l, r) := by
  have hE := enc_sctList
  rw [ty_SCTList] at hE ⊢
  exact dec_agree _ (wf_SCTList _) sctListVal _ _ hE Rfc.decSctList_enc Rfc.sctList_dec bs l r

/-- **The embedded SCT-list extension (RFC 6962 §3.3) is read exactly**: a byte string is accepted as the contents of the extension's
OCTET STRING, with SCTs `scts`, iff it is the encoding of the list of the encodings of `scts` — no trailing byte after the list or
after an SCT, no truncated element, and never "the SCTs that parsed before the problem". (`x509util.ParseSCTsFromCertificate` is
compared with `Rfc.decEmbeddedSctList` on certificates carrying hand-encoded extension bodies: harness/x509util.) -/
theorem embedded_sct_list_exact (bs : Bytes) (scts : List Rfc.SCT) :
    Rfc.decEmbeddedSctList bs = some scts ↔ Rfc.embeddedSctList scts = some bs := by
  unfold Rfc.decEmbeddedSctList Rfc.embeddedSctList
  constructor
  · intro h
    cases hd : Rfc.decSctList bs with
    | none => simp [hd] at h
    | some p =>
      obtain ⟨items, r⟩ := p
      cases r with
      | cons x xs => simp [hd] at h
      | nil =>
        simp only [hd] at h
        obtain ⟨a, ha, hb⟩ := Rfc.sctList_dec _ _ _ hd
        simp only [List.append_nil] at hb
        subst hb
        simp [bind, (Rfc.mapM_wholeSct_iff _ _).1 h, ha]
  · intro h
    simp only [bind, Option.bind_eq_some_iff] at h
    obtain ⟨items, h1, h2⟩ := h
    have := Rfc.decSctList_enc items bs [] h2
    simp only [List.append_nil] at this
    simp [this, (Rfc.mapM_wholeSct_iff _ _).2 h1]

/-- a two-SCT list followed by one byte, and a list whose inner length overruns, are refused (seed C04-w5-2) -/
example : Rfc.decEmbeddedSctList [0, 3, 0, 1, 7, 0] = none ∧ Rfc.decEmbeddedSctList [0, 3, 0, 2, 7] = none
    ∧ Rfc.decEmbeddedSctList [0, 0] = none := by decide

/-- the lengths of finding F4: a body of 65336 bytes (e.g. one SCT of 65334 bytes) is inside the RFC bound -/
example (body : Bytes) (h : body.length = 65336) : (Rfc.varVector 1 65535 body).isSome = true := by
  simp [Rfc.varVector, h]

end C04SctList
