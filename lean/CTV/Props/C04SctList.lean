import CTV.Props.C04
import CTV.Lemmas.When
/-!
# C04, SCT lists at full strength (RFC 6962 §3.3: `SerializedSCT sct_list<1..2^16-1>`)

These statements need the regenerated tag of `x509.SignedCertificateTimestampList.SCTList` to say
`maxlen:65535`.  On the tree with `maxlen:65335` (finding F4) `tag_is_rfc` is false — which is how the
proof attempt finds the defect — so this module is part of the check only once F4 is no longer listed as
`known` (see driver/props/c04.py); until then `C04.enc_sctList_sound` / `C04.dec_sctList_sound` stand and
the harness exhibits the failing lengths 65336…65535.

So that the default `lake build` succeeds on every tree, the module is wrapped in `#when (sctListMax == 65535)`
(CTV/Lemmas/When.lean): on the unchanged tree it elaborates to nothing; whenever it is an obligation the orchestrator
demands every theorem named below from `#print axioms`, so skipping can never pass for proving.
-/
set_option linter.unusedSimpArgs false

#when (CtWire.sctListMax == 65535) =>
namespace C04SctList
open Tls CTV CtWire

/-- the tag's outer bound is the RFC's -/
theorem tag_is_rfc : sctListMax = 65535 := by decide +kernel

theorem enc_sctList (l : List Bytes) : eo (enc tSCTList (sctListVal l)) = Rfc.sctList l := by
  have e1 := C04.enc_serializedSCT
  rw [ty_SerializedSCT] at e1
  rw [ty_SCTList, tag_is_rfc]
  simp only [xSCTList, sctListVal, enc_struct_eo, encFields_plain_eo, encFields_nil_eo, enc_vec_eo,
    encListWith_map_eo xSerializedSCT serializedSCTVal Rfc.serializedSCT e1, Rfc.sctList]
  have ht : allTaken [] [] = true := by decide
  simp only [ht, if_true]
  cases Rfc.concatAll Rfc.serializedSCT l with
  | none => simp
  | some body =>
    have := encPrefixed_iSct body
    simp only [iSct] at this
    simp [this]

theorem dec_sctList (bs : Bytes) (l : List Bytes) (r : Bytes) :
    dec tSCTList bs = .ok (sctListVal l, r) ↔ Rfc.decSctList bs = some (l, r) := by
  have hE := enc_sctList
  rw [ty_SCTList] at hE ⊢
  exact dec_agree _ (wf_SCTList _) sctListVal _ _ hE Rfc.decSctList_enc Rfc.sctList_dec bs l r

/-- the lengths of finding F4: a body of 65336 bytes (e.g. one SCT of 65334 bytes) is inside the RFC bound -/
example (body : Bytes) (h : body.length = 65336) : (Rfc.varVector 1 65535 body).isSome = true := by
  simp [Rfc.varVector, h]

end C04SctList
#end_when
