import CTV.Props.C09
import CTV.Lemmas.When
/-!
# C09: every width that reaches the codec is 1…8 bytes

`marshalField` writes a length / enum with `scratch[(8 - info.count):]`; that slice expression panics for `count > 8`.
`fieldTagToFieldInfo` tests `1 ≤ count ≤ 8` — but, before fixes/C09-5.diff, only for infos *without* a selector, so
`V *[]byte `tls:"size:9,selector:Sel,val:1"`` made `tls.Marshal` panic (finding F14).  `tag_width` says that whatever
`parseTag` returns with a size has a width of 1…8; it is proved over the regenerated final checks
(`Gen.tagFinalChecks`) and is false for the unfixed tree.

While F14 is an open (known) finding the module elaborates to nothing (`#when`, CTV/Lemmas/When.lean) and is not in
`PROPS`; once the finding is marked fixed driver/props/c09.py lists it and the orchestrator's audit demands the theorems.
-/
set_option linter.unusedSimpArgs false

#when (!(Gen.tagFinalChecks false true 9 0 0 0)) =>
namespace C09TagWidth
open Tls CTV

theorem finalChecks_width (se : Bool) (c mn mx v : Nat)
    (h : Gen.tagFinalChecks se true (Int.ofNat c) (Int.ofNat mn) (Int.ofNat mx) (Int.ofNat v) = true) : 1 ≤ c ∧ c ≤ 8 := by
  unfold Gen.tagFinalChecks at h
  simp only [Int.ofNat_eq_natCast, Bool.or_true, if_true, decide_eq_true_eq] at h
  repeat' split at h
  all_goals simp_all
  all_goals omega

/-- Every info with a size that `fieldTagToFieldInfo` lets through — selector or not — has a width of 1…8 bytes,
so `scratch[(8 - info.count):]` in `marshalField` is always in bounds. -/
theorem tag_width (str : List Char) (name : String) (i : FieldInfo) (h : parseTag str name = .ok (some i))
    (hs : i.countSet = true) : 1 ≤ i.count ∧ i.count ≤ 8 := by
  unfold parseTag tagFinish at h
  cases hf : (splitOn ',' str).foldl tagClause none with
  | none =>
    rw [hf] at h
    simp only at h
    split at h
    · cases h; simp at hs
    · cases h
  | some j =>
    rw [hf] at h
    simp only at h
    split at h
    · rename_i hc
      cases h
      simp only at hs hc ⊢
      rw [hs] at hc
      exact finalChecks_width _ _ _ _ _ hc
    · cases h

/-- the tag of finding F14 is refused -/
example : parseTag "size:9,selector:Sel,val:1".toList "V" = .error .structural := by decide +kernel
example : parseTag "size:0,selector:Sel,val:1".toList "V" = .error .structural := by decide +kernel
example : parseTag "size:8,selector:Sel,val:1".toList "V"
    = .ok (some { count := 8, countSet := true, selector := "Sel", val := 1, name := "V" }) := by decide +kernel

end C09TagWidth
#end_when
