import CTV.Model.Config
import CTV.Gen.ConfigBodies
import CTV.Model.ConfigSpec
import CTV.Lemmas.Config
/-!
# C15: the hand-written configuration model follows the bodies regenerated from config.go / instance.go / handlers.go

`Gen.validateLogConfigChecks` is the whole body of `ValidateLogConfig`, translated statement by statement on every run: one
entry per top-level statement that can return (in source order, nested tests in their order), "this statement does not reject". The theorem below says that the model's `validate` (a list of rejecting
conditions in the order of the code, then the connection-string check) accepts exactly when that body returns a nil error,
on the facts the model computes from a configuration.
-/
set_option linter.unusedSimpArgs false
set_option linter.unusedVariables false
namespace CTV.Props.C15Tie
open CTV CTV.Model.Config

def accepted {α : Type} : Except Reject α → Bool
  | .ok _ => true
  | .error _ => false

/-- a representative of the class the regenerated `switch conn[0]` puts a scheme in -/
def schemeName (conn : Bytes) : String :=
  match splitOnce conn sepScheme with
  | some (sch, _) =>
    match schemeParser sch with
    | some "mysql" => "mysql"
    | some "pg" => "postgres"
    | _ => ""
  | none => ""

def checksOf (c : LogConfig) : List Bool :=
  Gen.validateLogConfigChecks c.logId (c.pub != .absent) (c.pub == .bad) c.isMirror c.frozen.isSome (c.priv != .absent) (c.priv == .bad)
    c.rejectExpired c.rejectUnexpired (!ekusOk c.ekus) c.start.isSome (!tsOk c.start) c.limit.isSome (!tsOk c.limit)
    (nsOf c.start) (nsOf c.limit) c.mmd c.emd
    (c.frozen.any fun f => !f.verifier) (c.frozen.any fun f => !f.shape) (c.frozen.any fun f => !f.sig)
    c.storage c.conn.length (connParts c.conn) (schemeName c.conn) (!c.dsnOk) (!c.pgOk)

/-- the scheme class of a usable / unusable connection string, in terms of the strings the regenerated switch compares with -/
theorem schemeName_cases (conn : Bytes) :
    (schemeName conn = "mysql" ∧ ∃ sch r, splitOnce conn sepScheme = some (sch, r) ∧ schemeParser sch = some "mysql") ∨
    (schemeName conn = "postgres" ∧ ∃ sch r, splitOnce conn sepScheme = some (sch, r) ∧ schemeParser sch = some "pg") ∨
    (schemeName conn = "" ∧ (splitOnce conn sepScheme = none ∨
      ∃ sch r, splitOnce conn sepScheme = some (sch, r) ∧ schemeParser sch ≠ some "mysql" ∧ schemeParser sch ≠ some "pg")) := by
  unfold schemeName
  cases hs : splitOnce conn sepScheme with
  | none => exact Or.inr (Or.inr ⟨rfl, Or.inl rfl⟩)
  | some p =>
    obtain ⟨sch, r⟩ := p
    simp only []
    by_cases h1 : schemeParser sch = some "mysql"
    · exact Or.inl ⟨by simp [h1], sch, r, rfl, h1⟩
    · by_cases h2 : schemeParser sch = some "pg"
      · exact Or.inr (Or.inl ⟨by simp [h2], sch, r, rfl, h2⟩)
      · refine Or.inr (Or.inr ⟨?_, Or.inr ⟨sch, r, rfl, h1, h2⟩⟩)
        cases hp : schemeParser sch with
        | none => rfl
        | some x =>
          have e1 : x ≠ "mysql" := fun e => h1 (by rw [hp, e])
          have e2 : x ≠ "pg" := fun e => h2 (by rw [hp, e])
          split <;> simp_all

/-- the storage part on its own: the tail of the regenerated body (from `switch cfg.ExtraDataIssuanceChainStorageBackend`) against `connOk` -/
theorem conn_tie (c : LogConfig) :
    (if decide (c.storage = 1) then
        (if decide ((c.conn.length : Int) = 0) then false
         else if decide ((connParts c.conn : Int) ≠ 2) then false
         else if decide (schemeName c.conn = "mysql") then (if (!c.dsnOk) then false else true)
         else if (decide (schemeName c.conn = "postgres") || decide (schemeName c.conn = "postgresql")) then (if (!c.pgOk) then false else true)
         else false)
      else true) =
    accepted (if c.storage = Gen.storageBackendCtfe then connOk c else .ok ()) := by
  have hst : Gen.storageBackendCtfe = 1 := rfl
  rw [hst]
  by_cases h1 : c.storage = 1
  · simp only [h1, decide_true, if_true]
    unfold connOk Gen.cfgConnMissing Gen.cfgConnPartsBad
    by_cases h2 : (c.conn.length : Int) = 0
    · simp [h2, accepted]
    · simp only [h2, decide_false, Bool.false_eq_true, if_false]
      by_cases h3 : (connParts c.conn : Int) ≠ 2
      · simp [h3, accepted]
      · have h3' : (connParts c.conn : Int) = 2 := by simpa using h3
        simp only [h3', ne_eq, not_true_eq_false, decide_false, Bool.false_eq_true, if_false]
        rcases schemeName_cases c.conn with ⟨hn, sch, r, hs, hp⟩ | ⟨hn, sch, r, hs, hp⟩ | ⟨hn, hrest⟩
        · simp only [hn, decide_true, if_true, hs, hp]
          cases c.dsnOk <;> simp [accepted]
        · have e : ("postgres" : String) ≠ "mysql" := by decide
          simp only [hn, e, decide_false, Bool.false_eq_true, if_false, decide_true, Bool.true_or, if_true, hs, hp]
          cases c.pgOk <;> simp [accepted]
        · have e1 : ("" : String) ≠ "mysql" := by decide
          have e2 : ("" : String) ≠ "postgres" := by decide
          have e3 : ("" : String) ≠ "postgresql" := by decide
          simp only [hn, e1, e2, e3, decide_false, Bool.false_eq_true, if_false, Bool.or_self]
          rcases hrest with hs | ⟨sch, r, hs, hp1, hp2⟩
          · simp [hs, accepted]
          · simp only [hs]
            cases hp : schemeParser sch with
            | none => simp [accepted]
            | some x =>
              have e1 : x ≠ "mysql" := fun e => hp1 (by rw [hp, e])
              have e2 : x ≠ "pg" := fun e => hp2 (by rw [hp, e])
              first | rfl | simp [accepted] | (split <;> simp_all [accepted])
  · simp [h1, accepted]

theorem accepted_validate (c : LogConfig) :
    accepted (validate c) = ((rejections c).all (fun p => !p.1) && accepted (if c.storage = Gen.storageBackendCtfe then connOk c else .ok ())) := by
  unfold validate
  cases hf : firstErr (rejections c) with
  | error e =>
    have : ¬ ∀ p ∈ rejections c, p.1 = false := fun h => by rw [(firstErr_ok _).mpr h] at hf; cases hf
    have h2 : (rejections c).all (fun p => !p.1) = false := by
      rw [Bool.eq_false_iff]; intro h; apply this
      intro p hp; have := List.all_eq_true.mp h p hp; simpa using this
    simp [accepted, h2]
  | ok u =>
    have h := (firstErr_ok _).mp hf
    have h2 : (rejections c).all (fun p => !p.1) = true := List.all_eq_true.mpr fun p hp => by simp [h p hp]
    cases u
    simp [h2]

set_option maxHeartbeats 2000000 in
/-- **validate_tie.** The model's `validate` accepts exactly when no top-level statement of the regenerated body of
`ValidateLogConfig` returns an error, for every configuration and every outcome of the library oracles. -/
theorem validate_tie (c : LogConfig) : (checksOf c).all id = accepted (validate c) := by
  rw [accepted_validate, ← conn_tie c]
  unfold checksOf
  rw [Gen.validateLogConfigChecks_eq_spec]   -- from here on the pinned copy: independent of the regenerated shape
  unfold Spec.validateLogConfigChecks rejections
  simp only [Gen.cfgEmptyLogId, Gen.cfgRejectsAll, Gen.cfgLimitBeforeStart, Gen.cfgMergeDelayBad, List.all_cons, List.all_nil, id]
  cases hp : c.pub <;> cases hq : c.priv <;> cases hf : c.frozen <;> cases hs : c.start <;> cases hl : c.limit <;>
    simp [tsOk, nsOf] <;>
    (cases c.isMirror <;> cases c.rejectExpired <;> cases c.rejectUnexpired <;> cases ekusOk c.ekus <;> simp) <;>
    (first | done |
      (have kb : ∀ a b : KeyState, (a == b) = decide (a = b) := fun a b => by cases a <;> cases b <;> rfl
       simp only [kb]
       generalize decide (c.logId = 0) = a0
       generalize decide (c.mmd < 0) = m1
       generalize decide (c.emd < 0) = m2
       generalize decide (c.mmd < c.emd) = m3
       generalize (!decide (c.storage = 1) || !decide (c.conn = []) && (decide ((connParts c.conn : Int) = 2) &&
          if schemeName c.conn = "mysql" then c.dsnOk
          else (decide (schemeName c.conn = "postgres") || decide (schemeName c.conn = "postgresql")) && c.pgOk)) = T
       cases a0 <;> cases m1 <;> cases m2 <;> cases m3 <;> cases T <;> simp))

/-! ## SetUpInstance / setUpLogInfo -/

/-- what `storage.NewIssuanceChainStorage` decides for a validated configuration (a usable connection string has a known
scheme, so one of the two prefixes holds): no storage for the Trillian backend, a storage for CTFE, an error for any other value -/
theorem storage_tie (backend : Int) :
    Gen.newChainStorageBody backend true false =
      (if backend = Gen.storageBackendTrillian then (0, false) else if backend = Gen.storageBackendCtfe then (1, false) else (0, true)) ∧
    Gen.newChainStorageBody backend false true = Gen.newChainStorageBody backend true false := by
  simp only [Gen.newChainStorageBody_eq_spec]
  unfold Spec.newChainStorageBody
  have h0 : Gen.storageBackendTrillian = 0 := rfl
  have h1 : Gen.storageBackendCtfe = 1 := rfl
  rw [h0, h1]
  by_cases a : backend = 0 <;> by_cases b : backend = 1 <;> simp [a, b]

def setUpBody (c : LogConfig) (o : SetupOracle) : Nat × Bool :=
  Gen.setUpLogInfoBody c.isMirror o.nRoots (!o.rootsLoad) (!o.signerOk) (c.pub == .good) o.pubConsistent false false o.pubConsistent (!o.oidsOk)
    (c.storage ≠ Gen.storageBackendTrillian && (c.storage ≠ Gen.storageBackendCtfe || !o.dbOpens))
    (c.storage = Gen.storageBackendTrillian) (!o.cacheOk)

/-- **setUp_tie.** The model's `setUp` yields an instance exactly when the regenerated whole body of `setUpLogInfo` returns one, and
with the same chain service: the in-backend one iff the storage constructor gave no storage, the external one otherwise — whatever
`is_mirror` / `is_readonly` say (the body has no other branch; seeded change C14-w3-1 adds one and breaks this equality).
`dbOpens = false` stands for the storage constructor not returning (the process exits); "unsupported key type" and "keys differ"
are one oracle bit in the model. -/
theorem setUp_tie (c : LogConfig) (o : SetupOracle) :
    setUpBody c o = (match setUp c o with
      | some inst => ((if inst.external then 2 else 1), false)
      | none => (0, true)) := by
  unfold setUpBody
  rw [Gen.setUpLogInfoBody_eq_spec]
  unfold Spec.setUpLogInfoBody setUp Gen.setupNeedsRoots
  have hne : Gen.storageBackendTrillian ≠ Gen.storageBackendCtfe := by decide
  by_cases ht : c.storage = Gen.storageBackendTrillian
  · have hc : c.storage ≠ Gen.storageBackendCtfe := fun h => hne (ht ▸ h)
    cases c.isMirror <;> cases o.rootsLoad <;> cases o.signerOk <;> cases hp : c.pub <;> cases o.pubConsistent <;> cases o.oidsOk <;>
      by_cases hn : o.nRoots = 0 <;> simp [ht, hc, hn, hne, Ne.symm hne]
  · by_cases hc : c.storage = Gen.storageBackendCtfe
    · cases c.isMirror <;> cases o.rootsLoad <;> cases o.signerOk <;> cases hp : c.pub <;> cases o.pubConsistent <;> cases o.oidsOk <;>
        cases o.dbOpens <;> cases o.cacheOk <;> by_cases hn : o.nRoots = 0 <;> simp [ht, hc, hn, hne, Ne.symm hne]
    · cases c.isMirror <;> cases o.rootsLoad <;> cases o.signerOk <;> cases hp : c.pub <;> cases o.pubConsistent <;> cases o.oidsOk <;>
        by_cases hn : o.nRoots = 0 <;> simp [ht, hc, hn, hne, Ne.symm hne]

/-! ## newLogInfo: which STH getter -/

/-- **frozen_getter_whatever_else.** A configuration with a frozen STH gets the FrozenSTHGetter (kind 0) whether or not it is also a
mirror — the regenerated selection of `newLogInfo` tests the frozen STH first (a reordering of the two cases makes this false) —
and without one a mirror gets the MirrorSTHGetter, a log the LogSTHGetter. -/
theorem frozen_getter_whatever_else :
    (∀ isMirror, Gen.sthGetterSelect true isMirror = 0) ∧ Gen.sthGetterSelect false true = 1 ∧ Gen.sthGetterSelect false false = 2 := by
  refine ⟨fun m => by cases m <;> rfl, rfl, rfl⟩

/-! ## non-vacuity -/
example : Gen.setUpLogInfoBody false 1 false false false false false false false false false true false = (1, false) := by decide
example : Gen.setUpLogInfoBody true 0 false true true false false false false false false false false = (2, false) := by decide
example : Gen.setUpLogInfoBody false 0 false false false false false false false false false true false = (0, true) := by decide
example : (Gen.validateLogConfigChecks 1 false false false false true false false false false false false false false 0 0 0 0 false false false 0 0 1 "" false false).all id = true := by
  simp [Gen.validateLogConfigChecks]
example : (Gen.validateLogConfigChecks 1 false false false false true false false false false false false false false 0 0 0 0 false false false 1 0 1 "" false false).all id = false := by
  simp [Gen.validateLogConfigChecks]

end CTV.Props.C15Tie
