import CTV.Lemmas.RacesPolicy
import CTV.Lemmas.Lockset
/-!
# C17 — Multi-log submission returns a policy-satisfying SCT set or says it did not

Model: `CTV.Model.Races` (`safeSubmissionState`, `groupRace`, `GetSCTs`, group construction, compatibility filter),
one `Op` per atomic action, so "for every schedule, latency pattern and failure pattern" is "for every `List Op`"
(`exec` skips actions that are not enabled, hence every list is a schedule and every reachable state is `after r ops`).
Thresholds, group tables and the lock table are the regenerated `Gen.Policy`; the temporal window predicate is `Gen.temporallyCompatible` (`Gen.Temporal`, shared with C18).

`WF r`: the group names of one call are distinct (they are map keys) and each session lists members of its group.
-/
set_option linter.unusedSimpArgs false
set_option linter.unusedVariables false

namespace C17
open CTV.Model.Races

/-- both logs answer quickly: success -/
def opsFast : List Op := [.timerFire 1 1, .request 1 1, .timerFire 2 2, .request 2 2,
  .setResult 1 1 true, .setResult 2 2 true, .groupDone 1, .groupDone 2,
  .timerFire 0 1, .timerFire 0 2, .groupDone 0, .recv 0, .recv 1, .recv 2, .collect]

example : (after run2 opsFast).ret = some ([1, 2], false) := by decide

/-! ## Safety, for every schedule -/

/-- **no_double_submit**: no log is sent the chain more than once (the list of `SubmitToLog` calls has no repetition). -/
theorem no_double_submit (r : Run) (wf : WF r) (ops : List Op) : (after r ops).submitted.Nodup :=
  (inv_after wf ops).sub_nodup

example : (after run2 opsFast).submitted = [2, 1] := by decide

/-- **distinct_logs**: the returned SCTs come from distinct logs, each of which was contacted. -/
theorem distinct_logs (r : Run) (wf : WF r) (ops : List Op) (ls : List Log) (e : Bool)
    (h : (after r ops).ret = some (ls, e)) : ls.Nodup ∧ ∀ l ∈ ls, l ∈ (after r ops).submitted :=
  let i := (inv_after wf ops).ret_ok ls e h
  ⟨i.1, i.2.1⟩

/-- The accounting invariant behind the success theorem: at every moment each group holds at least
`MinInclusions − max(groupNeeds, 0)` SCTs from its own logs. -/
theorem needs_accounting (r : Run) (wf : WF r) (ops : List Op) (g : Group) (hg : g ∈ r.cfg) :
    g.min - max ((after r ops).sub.needs g.name) 0 ≤ (stored r.cfg (after r ops).sub g : Int) :=
  (inv_after wf ops).policy g hg

/-- **success_satisfies_policy**: when `GetSCTs` returns a nil error, every group of the policy data has at least
its `MinInclusions` among the returned SCTs. -/
theorem success_satisfies_policy (r : Run) (wf : WF r) (ops : List Op) (ls : List Log)
    (h : (after r ops).ret = some (ls, false)) :
    ∀ g ∈ r.cfg, g.min ≤ ((ls.filter (fun l => decide (l ∈ g.logs))).length : Int) :=
  ((inv_after wf ops).ret_ok ls false h).2.2 rfl

example : ∃ ls, (after run2 opsFast).ret = some (ls, false) := ⟨[1, 2], by decide⟩

/-- `setResult` never hits the nil dereference of `sub.results[logURL].sct`: it only ever runs after a granted
`request` for the same log. -/
theorem setResult_never_panics (r : Run) (wf : WF r) (ops : List Op) (g : Grp) (l : Log) (ok : Bool)
    (h : (after r ops).gor g l = .inflight) : (setResult r.cfg (after r ops).sub l ok).isSome = true := by
  apply setResult_isSome
  rw [((inv_after wf ops).owner g l h).1]
  simp

/-- **cancel_only_when_unneeded**: `setResult` calls the cancel function of a pending request only when no group of
that request's log still needs an SCT (`groupNeeds ≤ 0` for every group of the log, after the update) — the only
cancellation of an in-flight request besides the caller's own context. With `needs_accounting`, each of those groups
then already holds its minimum. -/
theorem cancel_only_when_unneeded (c : Cfg) (s s' : Sub) (l : Log) (ok : Bool) (called : List Log)
    (h : setResult c s l ok = some (s', called)) :
    ∀ l' ∈ called, s.cancels l' = true ∧ ∀ g ∈ groupsOf c l', s'.needs g ≤ 0 := by
  unfold setResult at h
  cases ok
  · simp at h
    intro l' hl'
    rw [h.2] at hl'
    cases hl'
  · simp only [Bool.not_true, Bool.false_eq_true, if_false, Option.map_eq_some_iff] at h
    obtain ⟨s2, h2, hc⟩ := h
    unfold afterCancel at hc
    simp only [Prod.mk.injEq] at hc
    obtain ⟨hs', hcalled⟩ := hc
    intro l' hl'
    rw [← hcalled] at hl'
    simp only [List.mem_filter, Bool.and_eq_true, Bool.not_eq_true'] at hl'
    have hcan : s.cancels l' = true := by
      have := (afterBase_spec h2).2.2.2.2.2
      rw [this] at hl'
      exact hl'.2.1
    refine ⟨hcan, ?_⟩
    intro g hg
    have hna := hl'.2.2
    unfold awaited at hna
    rw [List.any_eq_false] at hna
    have := hna g hg
    rw [← hs']
    simpa using this

example : ∃ s' called, setResult cfg2 (request cfg2 (request cfg2 (Sub.init cfg2) 1).1 2).1 1 true = some (s', called) ∧
    called = [] := ⟨_, _, rfl, by decide⟩

/-- Every contacted log is in the session of some group of the call, hence a member of that group. -/
theorem contacted_in_groups (r : Run) (wf : WF r) (ops : List Op) (l : Log) (h : l ∈ (after r ops).submitted) :
    ∃ g ∈ r.cfg, l ∈ r.session g.name ∧ l ∈ g.logs := by
  obtain ⟨n, hn, hl⟩ := (inv_after wf ops).sub_sess l h
  simp only [names, List.mem_map] at hn
  obtain ⟨g, hg, rfl⟩ := hn
  exact ⟨g, hg, hl, wf.session_sub g hg l hl⟩

/-- **terminates**: in every schedule at most `bound r = 3·Σ|session| + 2·#groups + 2` actions are ever enabled
(each goroutine fires once per group and log, each group race ends once, `GetSCTs` returns once). -/
theorem terminates (r : Run) (wf : WF r) (ops : List Op) : effective r (St.init r) ops ≤ bound r := by
  have := effective_le wf ops (inv_init wf)
  rw [measure_init] at this
  omega

example : effective run2 (St.init run2) opsFast = 15 ∧ bound run2 = 20 := by decide

/-- **no_deadlock**: as long as `GetSCTs` has not returned and no `SubmitToLog` call is pending, some action other
than the caller's cancellation is enabled — together with `terminates`: unless a submitter hangs, `GetSCTs`
returns; if one hangs, it returns when the caller's context ends (`ctxDone` then enables `collect`). -/
theorem no_deadlock (r : Run) (wf : WF r) (ops : List Op) (hret : (after r ops).ret = none)
    (hno : ∀ g l, (after r ops).gor g l ≠ .inflight) :
    ∃ o, o ≠ Op.ctxDone ∧ (step r (after r ops) o).isSome = true :=
  progress (inv_after wf ops) hret hno

/-- after cancellation `GetSCTs` can always return at once -/
theorem cancel_enables_return (r : Run) (s : St) (hret : s.ret = none) (hctx : s.ctx = true) :
    (step r s .collect).isSome = true := by
  simp [step, hret, hctx]

example : (after run2 [.timerFire 1 1, .request 1 1, .ctxDone, .collect]).ret = some ([], true) := by decide

/-! ## Policy thresholds (regenerated from ctpolicy) -/

/-- total number of SCTs by certificate lifetime in months (Chrome CT policy / Apple CT policy tables) -/
def policyTotal (m : Int) : Int := if m < 15 then 2 else if m ≤ 27 then 3 else if m ≤ 39 then 4 else 5

theorem chrome_thresholds (m : Int) : Gen.Policy.chromeIncCount m = policyTotal m := by
  unfold Gen.Policy.chromeIncCount policyTotal
  simp only [decide_eq_true_eq]

theorem apple_thresholds (m : Int) : Gen.Policy.appleIncCount m = policyTotal m := by
  unfold Gen.Policy.appleIncCount policyTotal
  simp only [decide_eq_true_eq]

example : Gen.Policy.chromeIncCount 14 = 2 ∧ Gen.Policy.chromeIncCount 15 = 3 ∧ Gen.Policy.chromeIncCount 27 = 3 ∧
    Gen.Policy.chromeIncCount 28 = 4 ∧ Gen.Policy.chromeIncCount 39 = 4 ∧ Gen.Policy.chromeIncCount 40 = 5 := by decide

/-- `lifetimeInMonths`: whole months between the dates, an incomplete last month not counted. No wrap-around for
any calendar date. -/
theorem lifetime_months (sy sm sd ey em ed : Int)
    (hy : 0 ≤ sy ∧ sy ≤ 100000 ∧ 0 ≤ ey ∧ ey ≤ 100000) (hm : 1 ≤ sm ∧ sm ≤ 12 ∧ 1 ≤ em ∧ em ≤ 12) :
    Gen.Policy.lifetimeInMonths sy sm sd ey em ed = (ey - sy) * 12 + (em - sm) - (if ed < sd then 1 else 0) := by
  unfold Gen.Policy.lifetimeInMonths
  simp only [I64.add, I64.sub, I64.mul, decide_eq_true_eq]
  have w : ∀ x : Int, -(2^63) ≤ x → x < 2^63 → I64.wrap64 x = x := I64.wrap64_id'
  rw [w sy (by omega) (by omega), w ey (by omega) (by omega), w sm (by omega) (by omega), w em (by omega) (by omega)]
  rw [w (ey - sy) (by omega) (by omega), w (em - sm) (by omega) (by omega)]
  rw [w ((ey - sy) * 12) (by omega) (by omega)]
  rw [w ((ey - sy) * 12 + (em - sm)) (by omega) (by omega)]
  split
  · rw [w _ (by omega) (by omega)]
  · omega

example : Gen.Policy.lifetimeInMonths 2024 1 31 2025 4 30 = 14 := by decide

/-- a group is refused (`LogsByGroup` fails) exactly when its minimum is negative or exceeds its size -/
theorem setMinInclusions_ok (i n : Int) : (Gen.Policy.setMinInclusions i n).isSome = true ↔ (0 ≤ i ∧ i ≤ n) := by
  unfold Gen.Policy.setMinInclusions
  by_cases h1 : i < 0 <;> by_cases h2 : i > n <;> simp [h1, h2] <;> omega

/-- the temporal window predicate, i.e. the per-log verdict of `TemporallyCompatible`'s loop body (regenerated by
`loopVerdictKernel`, whatever the body's shape; `Gen.temporallyCompatibleKeeps_eq_spec`): a log without interval is kept,
otherwise start inclusive, end exclusive -/
theorem temporal_window (t a b : Int) :
    Gen.temporallyCompatible (some (a, b)) t = true ↔ (a ≤ t ∧ t < b) :=
  temporallyCompatible_iff (some (a, b)) t

theorem temporal_no_interval (t : Int) : Gen.temporallyCompatible none t = true :=
  (temporallyCompatible_iff none t).mpr trivial

example : Gen.temporallyCompatible (some (10, 11)) 10 = true ∧ Gen.temporallyCompatible (some (10, 11)) 11 = false := by decide

/-- the Chrome policy's groups: Google-operated ≥ 1, Non-Google-operated ≥ 1, All-logs ≥ total by lifetime -/
theorem chrome_groups (m : Int) (ls : List LogInfo) :
    rawGroups .chrome m ls =
      [⟨1, dedup ((ls.filter (fun li => li.google == true)).map (·.id)), 1, false⟩,
       ⟨2, dedup ((ls.filter (fun li => li.google == false)).map (·.id)), 1, false⟩,
       ⟨baseName, dedup (ls.map (·.id)), policyTotal m, true⟩] := by
  rw [chrome_groups_raw, chrome_thresholds]

/-- the Apple policy's single group: All-logs ≥ total by lifetime -/
theorem apple_groups (m : Int) (ls : List LogInfo) :
    rawGroups .apple m ls = [⟨baseName, dedup (ls.map (·.id)), policyTotal m, true⟩] := by
  rw [apple_groups_raw, apple_thresholds]

theorem base_name_is_all_logs : Gen.Policy.baseName = "All-logs" ∧ Gen.Policy.baseGroupAllOperators = true := by decide

/-- **success_satisfies_policy, Chrome**: a nil error means at least one SCT from a Google-operated log, at least one
from a log of another operator, and at least the lifetime-dependent total. -/
theorem success_chrome (m : Int) (ls : List LogInfo) (r : Run) (hc : policyCfg .chrome m ls = some r.cfg) (wf : WF r)
    (ops : List Op) (res : List Log) (h : (after r ops).ret = some (res, false)) :
    1 ≤ (res.filter (fun l => decide (l ∈ (ls.filter (fun li => li.google == true)).map (·.id)))).length ∧
    1 ≤ (res.filter (fun l => decide (l ∈ (ls.filter (fun li => li.google == false)).map (·.id)))).length ∧
    policyTotal m ≤ (res.length : Int) := by
  have hcfg := policyCfg_some hc
  rw [chrome_groups] at hcfg
  have hs := success_satisfies_policy r wf ops res h
  rw [hcfg] at hs
  have h1 := hs _ (List.mem_cons_self)
  have h2 := hs _ (List.mem_cons_of_mem _ List.mem_cons_self)
  have h3 := hs _ (List.mem_cons_of_mem _ (List.mem_cons_of_mem _ List.mem_cons_self))
  simp only [mem_dedup] at h1 h2 h3
  have hle := List.length_filter_le (fun l => decide (l ∈ ls.map (·.id))) res
  refine ⟨by omega, by omega, by omega⟩

/-- **success_satisfies_policy, Apple**: a nil error means at least the lifetime-dependent total. -/
theorem success_apple (m : Int) (ls : List LogInfo) (r : Run) (hc : policyCfg .apple m ls = some r.cfg) (wf : WF r)
    (ops : List Op) (res : List Log) (h : (after r ops).ret = some (res, false)) :
    policyTotal m ≤ (res.length : Int) := by
  have hcfg := policyCfg_some hc
  rw [apple_groups] at hcfg
  have hs := success_satisfies_policy r wf ops res h
  rw [hcfg] at hs
  have h3 := hs _ List.mem_cons_self
  simp only [mem_dedup] at h3
  have hle := List.length_filter_le (fun l => decide (l ∈ ls.map (·.id))) res
  omega

/-- a Chrome instance: one Google log 1, one other log 2, a 12-month certificate -/
def lsTwo : List LogInfo := [⟨1, true, true, none, none⟩, ⟨2, false, true, none, none⟩]
example : policyCfg .chrome 12 lsTwo = some run2.cfg := by decide

/-! ## Only compatible logs are contacted -/

/-- **only_compatible_contacted**: with the groups built by the policy from the compatible part of the log list,
every log that is ever sent the chain is a usable log of the list whose temporal interval contains NotAfter and whose
accepted roots, where known and checked, include the chain's root. -/
theorem only_compatible_contacted (p : Pol) (m notAfter : Int) (root : Option (Nat × Bool)) (ls : List LogInfo)
    (r : Run) (hc : policyCfg p m (compatible notAfter root ls) = some r.cfg) (wf : WF r) (ops : List Op) :
    ∀ l ∈ (after r ops).submitted, ∃ li ∈ ls, li.id = l ∧ li.usable = true ∧ inWindow notAfter li ∧ rootAccepted root li := by
  intro l hl
  obtain ⟨g, hg, _, hlg⟩ := contacted_in_groups r wf ops l hl
  rw [policyCfg_some hc] at hg
  obtain ⟨li, hli, rfl⟩ := rawGroups_logs hg hlg
  obtain ⟨h1, h2, h3, h4⟩ := mem_compatible hli
  exact ⟨li, h1, rfl, h2, h3, h4⟩

/-- the chain's root is among the log's accepted roots, where those are known -/
def rootAcceptedKnown (chainRoot : Nat) (li : LogInfo) : Prop :=
  li.roots = none ∨ ∃ rs, li.roots = some rs ∧ chainRoot ∈ rs

/- FULL (the property's clause): "… and whose accepted roots, where known, include the chain's root are contacted",
   i.e. the conclusion below without the hypothesis `hroot`. With root checking enabled it is FALSE on a tree where
   `Gen.Policy.fallbackKeepsKnownRootLogs = true` (finding F10c): when the chain does not verify against the merged
   pool of known roots and some log with a client has no root data yet, `addSomeChain` passes no root at all to
   `Compatible`, so logs whose KNOWN root sets exclude the chain's root are contacted as well
   (`fallback_is_unfiltered`, and the `rootfallback` inputs of the harness). With fixes/C17-2.diff the regenerated
   flag is `false` and `hroot` holds unconditionally. When the caller disabled root checking
   (`DisableRootCompatibilityCheckingDistributorOption`) no root clause is claimed. -/
/-- **only_compatible_contacted_dist**: the same with the root the distributor actually chooses (`chooseRoot`,
anchored statement by statement to `addSomeChain`): every contacted log is usable and temporally compatible, and —
when root checking is enabled and the chain verifies against the merged pool (or the fallback drops logs with known
roots) — its accepted roots, where known, include the chain's root. -/
theorem only_compatible_contacted_dist (p : Pol) (m notAfter : Int) (checkDisabled : Bool) (chainRoot : Nat)
    (known : List (Option (List Nat))) (root : Option (Nat × Bool)) (ls : List LogInfo)
    (hchoice : chooseRoot checkDisabled chainRoot known = some root)
    (r : Run) (hc : policyCfg p m (compatible notAfter root ls) = some r.cfg) (wf : WF r) (ops : List Op) :
    ∀ l ∈ (after r ops).submitted, ∃ li ∈ ls, li.id = l ∧ li.usable = true ∧ inWindow notAfter li ∧
      (checkDisabled = false →
        (chainRoot ∈ known.flatMap (fun k => k.getD []) ∨ Gen.Policy.fallbackKeepsKnownRootLogs = false) →
        rootAcceptedKnown chainRoot li) := by
  intro l hl
  obtain ⟨li, h1, h2, h3, h4, h5⟩ := only_compatible_contacted p m notAfter root ls r hc wf ops l hl
  refine ⟨li, h1, h2, h3, h4, ?_⟩
  intro hdis hroot
  unfold chooseRoot at hchoice
  simp only [hdis, Bool.false_eq_true, if_false] at hchoice
  have hsome : root = some (chainRoot, true) := by
    split at hchoice
    · cases hchoice; rfl
    · rename_i hnm
      split at hchoice
      · cases hchoice
      · split at hchoice
        · rename_i hk
          rcases hroot with hr | hr
          · exact absurd hr hnm
          · rw [hk] at hr; cases hr
        · cases hchoice; rfl
  subst hsome
  exact h5.2

/-- what the fallback does on this tree: root checking enabled, the chain's root in no known root set, root data
incomplete ⇒ the compatibility filter is given no root (`some none`) iff the regenerated flag says so -/
theorem fallback_is_unfiltered (chainRoot : Nat) (known : List (Option (List Nat)))
    (h1 : chainRoot ∉ known.flatMap (fun k => k.getD [])) (h2 : known.all (fun k => k.isSome) = false) :
    chooseRoot false chainRoot known =
      if Gen.Policy.fallbackKeepsKnownRootLogs then some none else some (some (chainRoot, true)) := by
  simp [chooseRoot, h1, h2]

/-- the F10c shape: log 1 is known to accept only root 1, log 2 has no root data, the chain's root is 0 -/
example : chooseRoot false 0 [some [1], none] =
    (if Gen.Policy.fallbackKeepsKnownRootLogs then some none else some (some (0, true))) ∧
    ((compatible 5 none [⟨1, true, true, none, some [1]⟩, ⟨2, false, true, none, none⟩]).map (·.id) = [1, 2]) ∧
    ((compatible 5 (some (0, true)) [⟨1, true, true, none, some [1]⟩, ⟨2, false, true, none, none⟩]).map (·.id) = [2]) := by
  decide

/- Observation (not claimed by any theorem above): with `loadPendingLogs = true` `addSomeChain` starts a second,
   discarded `GetSCTs` call on `pendingLogsPolicy.LogsByGroup(cert, d.pendingQualifiedLl)` — one base group over
   every log in state Pending or Qualified, minimum `Gen.Policy.pendingIncCount` — concurrently with the main call,
   with the same submitter and context and with NO temporal or root filter (checked by the extractor on the source).
   The clause "only usable logs … are contacted" therefore holds for `loadPendingLogs = false`; for `true` the
   additional contacts are exactly members of the pending/qualified list (`pending_call_contacts`), at most once
   each, and — the two status classes being disjoint — no log is contacted by both calls (`no_double_submit_across_calls`). -/
/-- **pending_call_contacts**: the second call contacts only logs of the pending/qualified list, each at most once -/
theorem pending_call_contacts (pls : List LogInfo) (r : Run) (hc : pendingCfg pls = some r.cfg) (wf : WF r) (ops : List Op) :
    (after r ops).submitted.Nodup ∧ ∀ l ∈ (after r ops).submitted, ∃ li ∈ pls, li.id = l := by
  refine ⟨no_double_submit r wf ops, ?_⟩
  intro l hl
  obtain ⟨g, hg, _, hlg⟩ := contacted_in_groups r wf ops l hl
  unfold pendingCfg at hc
  dsimp only at hc
  split at hc
  · have hcfg : r.cfg = _ := (Option.some.inj hc).symm
    rw [hcfg] at hg
    simp only [List.mem_cons, List.not_mem_nil, or_false] at hg
    subst hg
    simp only [mem_dedup, List.mem_map] at hlg
    exact hlg
  · cases hc

/-- **no_double_submit_across_calls**: when no URL is both in the usable part and in the pending/qualified part of
the log list, the main call and the pending-logs call never contact the same log -/
theorem no_double_submit_across_calls (p : Pol) (m notAfter : Int) (root : Option (Nat × Bool)) (ls pls : List LogInfo)
    (hdisj : ∀ a ∈ ls, a.usable = true → ∀ b ∈ pls, a.id ≠ b.id)
    (r1 r2 : Run) (h1 : policyCfg p m (compatible notAfter root ls) = some r1.cfg) (h2 : pendingCfg pls = some r2.cfg)
    (wf1 : WF r1) (wf2 : WF r2) (ops1 ops2 : List Op) :
    ∀ l ∈ (after r1 ops1).submitted, l ∉ (after r2 ops2).submitted := by
  intro l hl1 hl2
  obtain ⟨a, ha, hal, hau, _, _⟩ := only_compatible_contacted p m notAfter root ls r1 h1 wf1 ops1 l hl1
  obtain ⟨b, hb, hbl⟩ := (pending_call_contacts pls r2 h2 wf2 ops2).2 l hl2
  exact hdisj a ha hau b hb (hal.trans hbl.symm)

example : pendingCfg [⟨7, false, false, none, none⟩, ⟨8, true, false, some (0, 1), some []⟩] = some [⟨0, [7, 8], 1, true⟩] ∧
    pendingCfg [] = none := by decide

/-- instance: a list with an unusable log, a log whose window has passed and a log with other roots -/
def lsMixed : List LogInfo := [⟨1, true, true, none, none⟩, ⟨2, false, true, some (0, 100), some [7]⟩,
  ⟨3, false, false, none, none⟩, ⟨4, false, true, some (0, 50), none⟩, ⟨5, true, true, none, some [8]⟩]
example : (compatible 60 (some (7, true)) lsMixed).map (·.id) = [1, 2] := by decide

/-! ## Liveness: not a theorem of this code (F10a) -/

/-- F10a as a schedule of `run2`: the Google group asks log 1, the non-Google group asks log 2; the All-logs
group's two goroutines find both logs already requested, so its race ends — unsuccessfully — before any answer;
then both logs answer with SCTs. -/
def opsF10a : List Op := [.timerFire 1 1, .request 1 1, .timerFire 2 2, .request 2 2,
  .timerFire 0 1, .request 0 1, .timerFire 0 2, .request 0 2, .groupDone 0,
  .setResult 1 1 true, .groupDone 1, .setResult 2 2 true, .groupDone 2, .recv 0, .recv 1, .recv 2, .collect]

/-- **liveness_counterexample**: every log answers successfully, nobody cancels, every action of the schedule is
enabled, `GetSCTs` returns both SCTs — which satisfy every group — *and* an error. -/
theorem liveness_counterexample :
    (after run2 opsF10a).ret = some ([1, 2], true) ∧
    effective run2 (St.init run2) opsF10a = opsF10a.length ∧
    (after run2 opsF10a).ctx = false ∧
    (∀ g ∈ run2.cfg, g.min ≤ ((([1, 2] : List Log).filter (fun l => decide (l ∈ g.logs))).length : Int)) := by
  decide

/- FULL (the property's clause): "when enough compatible logs eventually answer successfully and the caller does not
   cancel, GetSCTs reports success". It is FALSE for this code (`liveness_counterexample`, finding F10a).
   `liveness_partial` proves it under four hypotheses; the first three make the words of the clause precise, the fourth
   is the genuine restriction:
   * `henough` + `hbad` — "enough logs answer successfully": `bad` is any set of logs containing every log that has
     answered with an error (and every log that hangs); each group keeps at least its minimum of members outside
     `bad`. Failures and hangs of logs that are not needed for the minima are allowed.
   * `hfin` — "eventually": the schedule has been run until every goroutine has either finished or is stuck inside
     `SubmitToLog` for a `bad` (hanging) log, i.e. every request to a log outside `bad` has completed and every
     timer has fired. (`terminates` + `no_deadlock`: every schedule can be extended to such a state.)
   * `hctx`, `hnc` — "the caller does not cancel".
   * `hearly` — NOT part of the clause: no group race has ended unsuccessfully before that moment. In the timed code
     a group race without cancellation ends unsuccessfully only after its last timer fired (i · PostBatchInterval)
     and all its goroutines were refused or answered, so `hearly` holds whenever every needed request completes
     before the last timer of every group. Without `hearly` the statement is false (F10a). -/
/-- **liveness_partial** (Chrome policy): the groups are the ones `ChromeCTPolicy.LogsByGroup` builds from a log
list with distinct URLs and every member of a group is in its submission session (positive weights). Then, under
the hypotheses explained above, every group is complete, and whatever happens next without cancellation (`ops2`),
if `GetSCTs` returns it returns a nil error. -/
theorem liveness_partial (m : Int) (ls : List LogInfo) (r : Run) (hc : policyCfg .chrome m ls = some r.cfg)
    (hid : (ls.map (·.id)).Nodup) (wf : WF r) (hsess : ∀ g ∈ r.cfg, ∀ l ∈ g.logs, l ∈ r.session g.name)
    (bad : Log → Bool) (ops1 ops2 : List Op)
    (hctx : (after r ops1).ctx = false)
    (hbad : ∀ l, (after r ops1).sub.results l = some .err → bad l = true)
    (henough : ∀ g ∈ r.cfg, g.min ≤ ((g.logs.filter (fun l => !bad l)).length : Int))
    (hfin : ∀ g ∈ names r.cfg, ∀ l ∈ r.session g,
      (after r ops1).gor g l = .finished ∨ ((after r ops1).gor g l = .inflight ∧ bad l = true))
    (hearly : ∀ g, (after r ops1).gdone g ≠ some false)
    (hret : (after r ops1).ret = none)
    (hnc : Op.ctxDone ∉ ops2) :
    (∀ g ∈ r.cfg, (after r ops1).sub.needs g.name ≤ 0) ∧
    ∀ res e, (exec r (after r ops1) ops2).ret = some (res, e) → e = false := by
  obtain ⟨G, N, B, sh, _, _, _⟩ := chrome_shape_of_policy hc hid
  have hmem : G ∈ r.cfg ∧ N ∈ r.cfg ∧ B ∈ r.cfg := by simp [sh.cfg_eq]
  have hall := chrome_all_complete bad wf sh hsess (henough G hmem.1) (henough N hmem.2.1) (henough B hmem.2.2)
    ops1 hctx hbad hfin
  refine ⟨hall, ?_⟩
  have hi := inv_after wf ops1
  have hd : Done r (after r ops1) := {
    ctx := hctx
    needs := by
      intro g hg
      simp only [names, List.mem_map] at hg
      obtain ⟨grp, hgrp, rfl⟩ := hg
      exact hall grp hgrp
    gdone := hearly
    recvd := fun g hr => hearly g (hi.recvd_gdone g false hr)
    ret := by intro ls e h; rw [hret] at h; cases h }
  exact (done_exec ops2 hd hnc).ret

/-- **liveness_partial_apple**: the same for the single group `AppleCTPolicy.LogsByGroup` builds. -/
theorem liveness_partial_apple (m : Int) (ls : List LogInfo) (r : Run) (hc : policyCfg .apple m ls = some r.cfg)
    (wf : WF r) (hsess : ∀ g ∈ r.cfg, ∀ l ∈ g.logs, l ∈ r.session g.name)
    (bad : Log → Bool) (ops1 ops2 : List Op)
    (hctx : (after r ops1).ctx = false)
    (hbad : ∀ l, (after r ops1).sub.results l = some .err → bad l = true)
    (henough : ∀ g ∈ r.cfg, g.min ≤ ((g.logs.filter (fun l => !bad l)).length : Int))
    (hfin : ∀ g ∈ names r.cfg, ∀ l ∈ r.session g,
      (after r ops1).gor g l = .finished ∨ ((after r ops1).gor g l = .inflight ∧ bad l = true))
    (hearly : ∀ g, (after r ops1).gdone g ≠ some false)
    (hret : (after r ops1).ret = none)
    (hnc : Op.ctxDone ∉ ops2) :
    (∀ g ∈ r.cfg, (after r ops1).sub.needs g.name ≤ 0) ∧
    ∀ res e, (exec r (after r ops1) ops2).ret = some (res, e) → e = false := by
  obtain ⟨B, sh, _⟩ := apple_shape_of_policy hc
  have hmem : B ∈ r.cfg := by simp [sh.cfg_eq]
  have hall := apple_all_complete bad wf sh hsess (henough B hmem) ops1 hctx hbad hfin
  refine ⟨hall, ?_⟩
  have hi := inv_after wf ops1
  have hd : Done r (after r ops1) := {
    ctx := hctx
    needs := by
      intro g hg
      simp only [names, List.mem_map] at hg
      obtain ⟨grp, hgrp, rfl⟩ := hg
      exact hall grp hgrp
    gdone := hearly
    recvd := fun g hr => hearly g (hi.recvd_gdone g false hr)
    ret := by intro ls e h; rw [hret] at h; cases h }
  exact (done_exec ops2 hd hnc).ret

/-- an Apple instance with a failing and a hanging log: five logs, 12-month certificate (two SCTs needed); log 1
answers with an error, log 2 hangs (`bad = {1, 2}`), logs 3 and 4 answer; the hypotheses of
`liveness_partial_apple` hold in the state reached and the call then returns successfully -/
def runA5 : Run := ⟨[⟨0, [1, 2, 3, 4, 5], 2, true⟩], fun g => if g = 0 then [1, 2, 3, 4, 5] else []⟩
def opsA5 : List Op := [.timerFire 0 1, .request 0 1, .timerFire 0 2, .request 0 2, .setResult 0 1 false,
  .timerFire 0 3, .request 0 3, .timerFire 0 4, .request 0 4, .setResult 0 3 true, .setResult 0 4 true, .timerFire 0 5]
example :
    (∀ l ∈ [1, 2, 3, 4, 5], (exec runA5 (St.init runA5) opsA5).sub.results l = some .err → (l == 1 || l == 2) = true) ∧
    (∀ l ∈ [1, 2, 3, 4, 5], (exec runA5 (St.init runA5) opsA5).gor 0 l = .finished ∨
      ((exec runA5 (St.init runA5) opsA5).gor 0 l = .inflight ∧ (l == 1 || l == 2) = true)) ∧
    (exec runA5 (St.init runA5) opsA5).gor 0 2 = .inflight ∧
    (exec runA5 (St.init runA5) opsA5).gdone 0 = none ∧
    (exec runA5 (St.init runA5) (opsA5 ++ [.groupDone 0, .recv 0, .collect])).ret = some ([3, 4], false) := by decide

/-- an Apple instance: three logs, a 12-month certificate (two SCTs needed); two answer, then the third goroutine
sees the group complete -/
def runA : Run := ⟨[⟨0, [1, 2, 3], 2, true⟩], fun g => if g = 0 then [1, 2, 3] else []⟩
example : policyCfg .apple 12 [⟨1, true, true, none, none⟩, ⟨2, false, true, none, none⟩, ⟨3, false, true, none, none⟩] = some runA.cfg ∧
    (exec runA (St.init runA) [.timerFire 0 1, .request 0 1, .timerFire 0 2, .request 0 2, .setResult 0 1 true,
      .setResult 0 2 true, .timerFire 0 3, .groupDone 0, .recv 0, .collect]).ret = some ([1, 2], false) := by decide

/-- instance of `liveness_partial`: in `run2` both logs answer before the All-logs race has ended -/
def opsInTime : List Op := [.timerFire 1 1, .request 1 1, .timerFire 2 2, .request 2 2,
  .timerFire 0 1, .request 0 1, .setResult 1 1 true, .setResult 2 2 true, .timerFire 0 2]

example : policyCfg .chrome 12 lsTwo = some run2.cfg ∧ (after run2 opsInTime).ctx = false ∧
    (∀ g ∈ names run2.cfg, ∀ l ∈ run2.session g, (after run2 opsInTime).gor g l = .finished) ∧
    (∀ g ∈ names run2.cfg, (after run2 opsInTime).gdone g = none) ∧
    (exec run2 (after run2 opsInTime) [.groupDone 0, .groupDone 1, .groupDone 2, .recv 0, .recv 1, .recv 2, .collect]).ret
      = some ([1, 2], false) := by decide

/-! ## Data races: lock discipline -/

open Gen.Policy in
/-- the lock mode an access needs: `Lock` for a write, `RLock` or `Lock` for a read; constructors work on objects
that are not shared yet -/
def sufficient (a : Gen.Policy.Access) : Bool := a.ctor || (if a.write then a.mode == 2 else a.mode ≥ 1)

/-- **lock_table_guarded**: in the regenerated table of every access to a mutex-guarded field of `LogGroupInfo`,
`Distributor`, `Proxy`, `safeSubmissionState`, `LogListManager`, `logListRefresherImpl`, every access outside the
constructors holds its guard: `Lock` for a write, `RLock` or `Lock` for a read. (Before the fix commit 69f2a9b six
accesses did not — finding F10b: `GetSubmissionSession` / `SetLogWeight` on `LogWeights`, `Proxy.AddChain` /
`AddPreChain` / `ProxyServer.HandleInfo` on `dist`, `ProduceClientLogList` on `latestLL` — and this theorem did not
check.) With `lockset`, conflicting accesses to these fields are ordered by the guard. -/
theorem lock_table_guarded : ∀ a ∈ Gen.Policy.lockTable, sufficient a = true := by decide

example : 30 ≤ (Gen.Policy.lockTable.filter (fun a => !a.ctor)).length ∧
    (Gen.Policy.lockTable.filter (fun a => !a.ctor && a.write)).length ≥ 10 := by decide

/-- **guard_list_complete**: the guard list the table is built from misses nothing that is written while shared: the
extractor finds by itself every struct of `ctpolicy/` and `submission/` that carries a `sync.Mutex` / `sync.RWMutex`
(each must have a guard-list entry or extraction fails) and emits every write to a field of such a struct that is
NOT in its guarded list and happens outside the construction / initialisation functions. There is none. -/
theorem guard_list_complete : Gen.Policy.unlistedSharedWrites = [] := by decide

example : Gen.Policy.mutexStructs.length = 6 ∧ "Proxy" ∈ Gen.Policy.mutexStructs := by decide

/-- every write to a guarded field of the submission state machine itself happens under `mu` -/
theorem submission_state_fully_guarded :
    ∀ a ∈ Gen.Policy.lockTable, a.struct = "safeSubmissionState" → sufficient a = true := by decide

/-- the `Distributor`'s root data is only touched under `mu` (read lock for reads, write lock for writes) -/
theorem distributor_roots_fully_guarded :
    ∀ a ∈ Gen.Policy.lockTable, a.struct = "Distributor" → sufficient a = true := by decide

example : 10 ≤ (Gen.Policy.lockTable.filter (fun a => a.struct == "safeSubmissionState" && !a.ctor)).length := by decide

/-- **lockset**: a trace that obeys the mutex semantics and in which every access holds its guard (write mode for
writes) orders any two conflicting accesses by a release of the guard. (`CTV.Lockset.lockset_sound`.) -/
theorem lockset (guard : Nat → Nat) (pre mid post : List CTV.Lockset.Ev) (t t' x : Nat) (w w' : Bool)
    (s' : CTV.Lockset.LockSt)
    (hrun : CTV.Lockset.run guard CTV.Lockset.LockSt.init
      (pre ++ [CTV.Lockset.Ev.acc t x w] ++ mid ++ [CTV.Lockset.Ev.acc t' x w'] ++ post) = some s')
    (htt : t ≠ t') (hconf : w = true ∨ w' = true) : CTV.Lockset.Ev.rel t (guard x) ∈ mid :=
  CTV.Lockset.lockset_sound guard pre mid post t t' x w w' s' hrun htt hconf

open CTV.Lockset in
example : (run (fun _ => 0) LockSt.init
    ([Ev.acq 1 0 true] ++ [Ev.acc 1 7 true] ++ [Ev.rel 1 0, Ev.acq 2 0 false] ++ [Ev.acc 2 7 false] ++ [Ev.rel 2 0])).isSome = true := by
  decide

open CTV.Lockset in
/-- the shape of F10b in the trace model: a read without the guard is not a run of the discipline -/
example : (run (fun _ => 0) LockSt.init [Ev.acq 1 0 true, Ev.acc 2 7 false, Ev.acc 1 7 true, Ev.rel 1 0]).isSome = false := by
  decide

end C17
