import CTV.Model.Races
namespace C17
open CTV.Model.Races

theorem placeholder_true : (1 : Nat) = 1 := rfl
example : (1 : Nat) = 1 := rfl

end C17
