import CTV.Model.X509Wrap
import CTV.Lemmas.DerSlices
import CTV.Lemmas.X509Concat
import CTV.Lemmas.X509Coherent
/-!
# C11 — The lenient X.509 parser is total, error-coherent and exact on well-formed input

Theorems over `CTV.Model.X509Wrap` (the wrappers) on top of `CTV.Der` (the envelope, decoded with the
descriptors regenerated from x509/x509.go and x509/pkix/pkix.go into `Gen.X509Types`).

`parseCertificate`'s payload processing enters as an arbitrary function `inner`; the theorems hold for every
`inner` that satisfies `InnerOK` (what the real function does on every input the harness tries). Agreement of
the payload fields with `crypto/x509` is **correspondence-only** (harness part (b)); see notes/C11.md.
-/
namespace C11
open CTV CTV.Der CTV.Model.X509

/-- **coherent (ParseCertificate).** (obj, nil) | (obj, non-fatal) | (nil, fatal) — never mixed. -/
theorem parseCertificate_coherent (d : Dialect) (inner : AVal → Ret) (hin : ∀ c, InnerOK (inner c)) (bs : Bytes) :
    Coherent (parseCertificate d inner bs) := by
  unfold parseCertificate
  split
  · simp [Coherent, isFatal]
  · split
    · simp [Coherent, isFatal]
    · exact mergeInner_coherent _ _ (hin _)

/-- **coherent (ParseTBSCertificate).** -/
theorem parseTBSCertificate_coherent (d : Dialect) (inner : AVal → Ret) (hin : ∀ c, InnerOK (inner c)) (bs : Bytes) :
    Coherent (parseTBSCertificate d inner bs) := by
  unfold parseTBSCertificate
  split
  · simp [Coherent, isFatal]
  · split
    · simp [Coherent, isFatal]
    · exact mergeInner_coherent _ _ (hin _)

/-- **coherent (ParseCertificates)**, with or without the F7 repair. -/
theorem parseCertificates_coherent (d : Dialect) (keeps : Bool) (inner : AVal → Ret) (hin : ∀ c, InnerOK (inner c)) (bs : Bytes) :
    Coherent (parseCertificates d keeps inner bs) := by
  unfold parseCertificates
  split
  · simp [Coherent, isFatal]
  · unfold innerAll
    apply innerAllR_coherent
    intro r hr
    obtain ⟨c, _, rfl⟩ := List.mem_map.mp hr
    exact hin c

/-- **coherent (ParseCertificateListDER)**: whatever the extension payloads add to the `*Errors` value,
the list is returned exactly when no entry is fatal, and a nil error exactly when there is no entry. -/
theorem parseCertificateListDER_coherent (d : Dialect) (payload : AVal → List Bool × Bool) (bs : Bytes) :
    Coherent (parseCertificateListDER d payload bs) := by
  have f1 : Gen.errInvalidCertListFatal = true := rfl   -- regenerated from x509/errors.go
  have f2 : Gen.errTrailingCertListFatal = true := rfl
  unfold parseCertificateListDER
  split
  · simp [Coherent, isFatal, f1]
  · split
    · simp [Coherent, isFatal, f2]
    · split
      rename_i ev hard _
      by_cases h1 : hard = true
      · simp [h1, Coherent, isFatal]
      · by_cases h2 : ev.any id = true
        · simp [h1, h2, Coherent, isFatal]
        · by_cases h3 : ev.isEmpty = true
          · simp [h1, h2, h3, Coherent, isFatal]
          · simp [h1, h2, h3, Coherent, isFatal]

/-! ### `InnerOK` derived from the source; the other eight entry points

`Gen.X509Shapes` lists, for `parseCertificate` and for every other parser entry point, the shape of each `return`
statement of the current source. The theorems below are about those regenerated lists (`decide`): adding a `return out, err`
or a `return nil, nil` to the Go code changes the list and breaks them. What remains trusted: that a Go function returns
through one of its return statements, that a panic is the only other way out (harness: a panic is an output class), and the
syntactic test behind `Gen.nfeLeaks`. -/

/-- every return of `parseCertificate` is `nil, err` | `out, nfe` (under `nfe.HasError()`) | `out, nil`; no function of the
package returns the collector as its error, apart from the three certificate wrappers and unexported helpers that only they refer to
(parts of the wrappers; the wrappers' own pairs are the model's `finish`/`mergeInner`, tied by correspondence) -/
theorem parseCertificate_returns :
    (∀ s ∈ Gen.parseCertificateReturns, s = .nilErr ∨ s = .outNfe ∨ s = .outNil) ∧
    Gen.parseCertificateNfeGuarded = true ∧ Gen.nfeLeaks = [] := by decide

/-- hence `InnerOK` holds for every function that behaves as some return statement of `parseCertificate` does -/
theorem innerOK_from_source (inner : AVal → Ret) (h : InnerFromSource inner) : ∀ c, InnerOK (inner c) := by
  intro c
  obtain ⟨s, hs, n, he⟩ := h c
  rw [he]
  rcases parseCertificate_returns.1 s hs with rfl | rfl | rfl
  · exact ⟨by simp [retOf, Coherent, isFatal], by intro fs h; cases h⟩
  · exact ⟨by simp [retOf, Coherent, isFatal], by intro fs h; cases h⟩
  · exact ⟨by simp [retOf, Coherent, isFatal], by intro fs h; cases h⟩

/-- **coherent, from the source**: the three certificate entry points, with `parseCertificate` as the source has it -/
theorem certificate_entry_points_coherent (d : Dialect) (keeps : Bool) (inner : AVal → Ret) (h : InnerFromSource inner) (bs : Bytes) :
    Coherent (parseCertificate d inner bs) ∧ Coherent (parseTBSCertificate d inner bs) ∧ Coherent (parseCertificates d keeps inner bs) :=
  ⟨parseCertificate_coherent d inner (innerOK_from_source inner h) bs,
   parseTBSCertificate_coherent d inner (innerOK_from_source inner h) bs,
   parseCertificates_coherent d keeps inner (innerOK_from_source inner h) bs⟩

/-- a return statement that yields (object, nil) or (nil, ordinary error): coherent and never non-fatal -/
def Direct (s : Gen.RetShape) : Prop := s = .nilErr ∨ s = .outNil

instance (s : Gen.RetShape) : Decidable (Direct s) := by unfold Direct; infer_instance

theorem direct_coherent (s : Gen.RetShape) (h : Direct s) (n : Nat) :
    Coherent (retOf s n) ∧ ∀ k, (retOf s n).err ≠ .nonFatalErrors k := by
  rcases h with rfl | rfl <;> exact ⟨by simp [retOf, Coherent, isFatal], by intro k h; cases h⟩

/-- **coherent (the other eight entry points)** `ParseDERCRL`, `ParseCRL`, `ParseCertificateList` (PEM front, then
`ParseCertificateListDER`, see `parseCertificateListDER_coherent`), `ParseCertificateRequest`, `ParsePKCS1PrivateKey`,
`ParsePKCS8PrivateKey`, `ParseECPrivateKey`, `ParsePKIXPublicKey`: every return statement of each of them — following
`return f(…)` into `f` — yields (object, nil) or (nil, ordinary error); none can return a non-fatal error, and none a mixed
pair. For `ParsePKIXPublicKey` the one `return pub, err` is reached only with `err ≠ nil` from `parsePublicKey`, all of whose
returns with an error have a nil object. The envelope step of each (strict `asn1.Unmarshal` into the regenerated descriptor,
trailing-data test) is replayed on the model by the harness (`env` lines); PEM decoding is not modelled. -/
theorem other_entry_points_coherent :
    (∀ s ∈ Gen.parseDERCRLReturns, Direct s) ∧
    (∀ s ∈ Gen.parseCRLReturns, s = .tailCall) ∧                      -- → ParseDERCRL
    (∀ s ∈ Gen.parseCertificateListReturns, s = .tailCall) ∧          -- → ParseCertificateListDER
    (∀ s ∈ Gen.parseCertificateRequestWrapperReturns, Direct s ∨ s = .tailCall) ∧  -- → parseCertificateRequest
    (∀ s ∈ Gen.parseCertificateRequestReturns, Direct s) ∧
    (∀ s ∈ Gen.parsePKCS1PrivateKeyReturns, Direct s) ∧
    (∀ s ∈ Gen.parsePKCS8PrivateKeyReturns, Direct s) ∧
    (∀ s ∈ Gen.parseECPrivateKeyWrapperReturns, s = .tailCall) ∧      -- → parseECPrivateKey
    (∀ s ∈ Gen.parseECPrivateKeyReturns, Direct s) ∧
    (∀ s ∈ Gen.parsePKIXPublicKeyReturns, Direct s ∨ s = .outErr) ∧
    (∀ s ∈ Gen.parsePublicKeyReturns, s = .nilErr ∨ s = .outNil ∨ s = .nilNil) := by decide

/-- `IsFatal` as the callers use it: nil and `NonFatalErrors` are not fatal, `*Errors` is fatal iff one entry is. -/
theorem isFatal_classes (n : Nat) (fs : List Bool) :
    isFatal .nil = false ∧ isFatal (.nonFatalErrors n) = false ∧ isFatal .plain = true ∧
    (isFatal (.errorsPtr fs) = true ↔ true ∈ fs) := by
  refine ⟨rfl, rfl, rfl, ?_⟩
  simp [isFatal]

-- non-vacuity: a certificate that needs the lax fallback, an inner result with two non-fatal errors
example : Coherent (mergeInner ⟨true, .nonFatalErrors 2⟩ 1) ∧ mergeInner ⟨true, .nonFatalErrors 2⟩ 1 = ⟨true, .nonFatalErrors 3⟩ := by decide
example : InnerOK ⟨true, .nonFatalErrors 2⟩ ∧ InnerOK ⟨false, .plain⟩ ∧ ¬ InnerOK ⟨false, .nonFatalErrors 1⟩ := by
  refine ⟨⟨by decide, by intro fs h; cases h⟩, ⟨by decide, by intro fs h; cases h⟩, ?_⟩
  intro h; exact absurd h.1 (by decide)
-- the hypothesis is needed: an inner function that returned (nil, NonFatalErrors) would surface as a mixed result
example : ¬ Coherent (mergeInner ⟨false, .nonFatalErrors 1⟩ 0) := by decide
example : parseCertificateListDER Dialect.upstream (fun _ => ([false, true], false)) [0x30, 0x00] = ⟨false, .errorsPtr [true]⟩ := by rfl  -- the envelope `30 00` is rejected: one fatal entry (ErrInvalidCertList)


-- non-vacuity: a minimal certificate envelope (issuer = SEQUENCE { SET {} }, subject = empty SEQUENCE)
def sampleCert : Bytes := [0x30, 0x47, 0x30, 0x3b, 0x02, 0x01, 0x01, 0x30, 0x04, 0x06, 0x02, 0x2a, 0x03, 0x30, 0x02, 0x31, 0x00, 0x30, 0x1e, 0x17, 0x0d, 0x32, 0x34, 0x30, 0x31, 0x30, 0x31, 0x30, 0x30, 0x30, 0x30, 0x30, 0x30, 0x5a, 0x17, 0x0d, 0x32, 0x35, 0x30, 0x31, 0x30, 0x31, 0x30, 0x30, 0x30, 0x30, 0x30, 0x30, 0x5a, 0x30, 0x00, 0x30, 0x0a, 0x30, 0x04, 0x06, 0x02, 0x2a, 0x03, 0x03, 0x02, 0x00, 0x01, 0x30, 0x04, 0x06, 0x02, 0x2a, 0x03, 0x03, 0x02, 0x00, 0x01]

/-- a minimal certificate envelope whose serial number is the non-minimal INTEGER `02 02 00 01` -/
def sampleLaxCert : Bytes := [0x30, 0x48, 0x30, 0x3c, 0x02, 0x02, 0x00, 0x01, 0x30, 0x04, 0x06, 0x02, 0x2a, 0x03, 0x30, 0x02, 0x31, 0x00, 0x30, 0x1e, 0x17, 0x0d, 0x32, 0x34, 0x30, 0x31, 0x30, 0x31, 0x30, 0x30, 0x30, 0x30, 0x30, 0x30, 0x5a, 0x17, 0x0d, 0x32, 0x35, 0x30, 0x31, 0x30, 0x31, 0x30, 0x30, 0x30, 0x30, 0x30, 0x30, 0x5a, 0x30, 0x00, 0x30, 0x0a, 0x30, 0x04, 0x06, 0x02, 0x2a, 0x03, 0x03, 0x02, 0x00, 0x01, 0x30, 0x04, 0x06, 0x02, 0x2a, 0x03, 0x03, 0x02, 0x00, 0x01]

/-! ## raw fields are the exact sub-slices of the input -/

/-- the `version` field of `tbsCertificate` (`optional,explicit,default:0,tag:0`), as regenerated -/
def versionFP : FP := { optional := true, explicit := true, dflt := some 0, tag := some 0 }

/-- **raw_slices.** For every certificate the envelope decoder accepts (`strict` or `lax`, any dialect):

* `Raw` is the whole outer element `readTLV` finds at the start of the input (header ++ content, `bs = Raw ++ rest`);
* `RawTBSCertificate` is the **first** element of that content;
* inside the TBS content, after the octets the optional `version` field consumed (`r0` is what it left), `readTLV` finds six
  consecutive elements — serial, signature algorithm, issuer, validity, subject, SPKI — and `RawIssuer`, `RawSubject`,
  `RawSubjectPublicKeyInfo` are exactly the **third, fifth and sixth** of them.

`readTLV` is a function, so each raw field is pinned to one position: it is `bs.extract a b` for the offsets of that element. -/
theorem raw_slices (d : Dialect) (m : Mode) (hm : m.isCanon = false) (bs : Bytes) (cert : AVal) (rest : Bytes)
    (h : parseField d m Gen.ty_certificate {} bs = .ok (cert, rest)) :
    ∃ outer tbs hdrO hdrT,
      readTLV d bs = .ok (outer, rest) ∧ bs = outer.full ++ rest ∧ outer.full = hdrO ++ outer.content ∧
      (rawFields cert).raw = outer.full ∧
      (∃ after, readTLV d outer.content = .ok (tbs, after)) ∧ tbs.full = hdrT ++ tbs.content ∧
      (rawFields cert).tbs = tbs.full ∧
      ∃ vver r0 serial alg issuer validity subject spki post,
        parseField d m .int64 versionFP tbs.content = .ok (vver, r0) ∧
        ElemsAt d r0 [serial, alg, issuer, validity, subject, spki] post ∧
        (rawFields cert).issuer = issuer.full ∧ (rawFields cert).subject = subject.full ∧ (rawFields cert).spki = spki.full := by
  have hd : d.forMode m = d := forMode_of_notCanon d m hm
  have hu : ∀ raw, m.under raw = m := by
    intro raw; cases m <;> first | rfl | (cases raw <;> rfl) | cases hm
  obtain ⟨outer, hro, hraw⟩ := plainField_readTLV d m _ _ _ _ _ ⟨rfl, rfl, rfl⟩ h
  rw [hd] at hro
  simp only [Gen.ty_certificate, RawOf, hu] at hraw
  obtain ⟨vs, left, hfs, rfl⟩ := hraw
  obtain ⟨hdrO, hfullO, _, _⟩ := readTLV_full d _ _ _ hro
  -- first field of the certificate: the TBS
  obtain ⟨tbs, after, vtbs, vs', hrt, hrawt, _, rfl⟩ := plain_step d m _ _ _ _ _ rfl hfs
  rw [hd] at hrt
  simp only [Gen.ty_tbsCertificate, RawOf, hu] at hrawt
  obtain ⟨tvs, tleft, htfs, rfl⟩ := hrawt
  obtain ⟨hdrT, hfullT, _, _⟩ := readTLV_full d _ _ _ hrt
  -- the version field, then six plain fields
  obtain ⟨vver, r0, tv1, hver, h1, rfl⟩ := parseFields_cons d m _ _ _ _ _ _ htfs
  obtain ⟨serial, r1, vserial, tv2, hs1, _, h2, rfl⟩ := plain_step d m _ _ _ _ _ rfl h1
  obtain ⟨alg, r2, valg, tv3, hs2, _, h3, rfl⟩ := plain_step d m _ _ _ _ _ rfl h2
  obtain ⟨issuer, r3, vissuer, tv4, hs3, hri, h4, rfl⟩ := plain_step d m _ _ _ _ _ rfl h3
  obtain ⟨validity, r4, vval, tv5, hs4, _, h5, rfl⟩ := plain_step d m _ _ _ _ _ rfl h4
  obtain ⟨subject, r5, vsub, tv6, hs5, hrs, h6, rfl⟩ := plain_step d m _ _ _ _ _ rfl h5
  obtain ⟨spki, r6, vspki, tv7, hs6, hrk, _, rfl⟩ := plain_step d m _ _ _ _ _ rfl h6
  rw [hd] at hs1 hs2 hs3 hs4 hs5 hs6
  simp only [RawOf] at hri hrs
  simp only [Gen.ty_publicKeyInfo, RawOf, hu] at hrk
  obtain ⟨svs, sleft, _, rfl⟩ := hrk
  subst hri hrs
  refine ⟨outer, tbs, hdrO, hdrT, hro, readTLV_split _ _ _ _ hro, hfullO, ?_, ⟨after, hrt⟩, hfullT, ?_,
    vver, r0, serial, alg, issuer, validity, subject, spki, r6, hver, ?_, ?_, ?_, ?_⟩
  · simp [rawFields, structRaw]
  · simp [rawFields, structField, structRaw, AVal.unwrap]
  · exact ⟨r1, hs1, r2, hs2, r3, hs3, r4, hs4, r5, hs5, r6, hs6, rfl⟩
  · simp [rawFields, structField, AVal.unwrap, rawFull]
  · simp [rawFields, structField, AVal.unwrap, rawFull]
  · simp [rawFields, structField, AVal.unwrap, structRaw]

/-- corollary for the entry point: when `ParseCertificate` gets past the trailing-data test, `Raw` is the whole input -/
theorem raw_is_input (d : Dialect) (bs : Bytes) (v : AVal) (l : Bool)
    (h : strictThenLax d Gen.ty_certificate bs = some (v, [], l)) : (rawFields v).raw = bs := by
  unfold strictThenLax at h
  cases hs : parseField d .strict Gen.ty_certificate {} bs with
  | ok x =>
    obtain ⟨v', r'⟩ := x
    rw [hs] at h
    simp only [Option.some.injEq, Prod.mk.injEq] at h
    obtain ⟨rfl, rfl, rfl⟩ := h
    obtain ⟨outer, _, _, _, _, hsplit, _, hraw, _⟩ := raw_slices d .strict rfl bs _ _ hs
    rw [hraw, hsplit]; simp
  | error e =>
    rw [hs] at h
    simp only [] at h
    cases hl : parseField d .lax Gen.ty_certificate {} bs with
    | error e' => rw [hl] at h; cases h
    | ok x =>
      obtain ⟨v', r'⟩ := x
      rw [hl] at h
      simp only [Option.some.injEq, Prod.mk.injEq] at h
      obtain ⟨rfl, rfl, rfl⟩ := h
      obtain ⟨outer, _, _, _, _, hsplit, _, hraw, _⟩ := raw_slices d .lax rfl bs _ _ hl
      rw [hraw, hsplit]; simp

example : (match parseField Dialect.upstream .strict Gen.ty_certificate {} (sampleCert ++ [0xAA]) with
    | .ok (c, rest) => some ((rawFields c).issuer, (rawFields c).subject, (rawFields c).tbs.length, (rawFields c).raw.length, rest)
    | .error _ => none) = some ([0x30, 0x02, 0x31, 0x00], [0x30, 0x00], 61, 73, [0xAA]) := by rfl

/-! ## concatenation law -/

/-- **concat_law.** With the retry of `ParseCertificates` repaired (`keepsInput = true`, see F7): for certificates
`c₁ … cₙ` each of which the envelope decoder accepts on its own (strictly or via lax) using up all of `cᵢ`,
parsing `c₁ ‖ … ‖ cₙ` gives, certificate by certificate and in order, exactly the outcome of `ParseCertificate cᵢ`:
the non-fatal errors add up, and the first fatal one makes the whole call fatal with that error (`innerAllR`
applied to the individual results is this combination). Holds for every payload function `inner`. -/
theorem concat_law (d : Dialect) (inner : AVal → Ret) (cs : List Bytes)
    (hcs : ∀ c ∈ cs, ∃ v l, strictThenLax d Gen.ty_certificate c = some (v, [], l)) :
    parseCertificates d true inner (concatAllB cs) = innerAllR (cs.map (parseCertificate d inner)) 0 := by
  unfold parseCertificates
  rw [splitCertificates_concat d cs _ hcs (Nat.lt_succ_self _)]
  simp only [innerAll]
  -- each ParseCertificate cᵢ is `mergeInner (inner vᵢ) (lax? 1 : 0)`
  have hpc : ∀ c ∈ cs, parseCertificate d inner c = mergeInner (inner (certVal d c).1) (if (certVal d c).2 then 1 else 0) := by
    intro c hc
    obtain ⟨v, l, h⟩ := hcs c hc
    unfold parseCertificate certVal
    rw [h]
    simp
  have e1 : cs.map (parseCertificate d inner) = (cs.map (certVal d)).map (fun x => mergeInner (inner x.1) (if x.2 then 1 else 0)) := by
    rw [List.map_map]
    exact List.map_congr_left hpc
  have e2 : (cs.map fun c => (certVal d c).1).map inner = (cs.map (certVal d)).map (fun x => inner x.1) := by
    simp [List.map_map, Function.comp_def]
  have e3 := countLax_eq d cs
  rw [e1, e2, e3, innerAllR_merge inner _ 0, Nat.zero_add]

/-- the loop in the working tree is the repaired one (regenerated by /verif/extract: if the Go loop regresses this `rfl` fails) -/
theorem retry_regenerated : Gen.parseCertificatesRetryKeepsInput = true := rfl

/-- `concat_law` for `ParseCertificates` **as the source has it now** -/
theorem concat_law_code (d : Dialect) (inner : AVal → Ret) (cs : List Bytes)
    (hcs : ∀ c ∈ cs, ∃ v l, strictThenLax d Gen.ty_certificate c = some (v, [], l)) :
    parseCertificates d Gen.parseCertificatesRetryKeepsInput inner (concatAllB cs) = innerAllR (cs.map (parseCertificate d inner)) 0 := by
  rw [retry_regenerated]; exact concat_law d inner cs hcs

/-- per certificate, in order: the envelopes the loop collects are those of the pieces, and the `i`-th one is built from the
`i`-th piece's own octets (`Raw` = the piece) -/
theorem concat_split (d : Dialect) (cs : List Bytes)
    (hcs : ∀ c ∈ cs, ∃ v l, strictThenLax d Gen.ty_certificate c = some (v, [], l)) :
    splitCertificates d true ((concatAllB cs).length + 1) (concatAllB cs) = some (cs.map fun c => (certVal d c).1, countLax d cs) ∧
    ∀ c ∈ cs, (rawFields (certVal d c).1).raw = c := by
  refine ⟨splitCertificates_concat d cs _ hcs (Nat.lt_succ_self _), ?_⟩
  intro c hc
  obtain ⟨v, l, h⟩ := hcs c hc
  have : certVal d c = (v, l) := by unfold certVal; rw [h]
  rw [this]
  exact raw_is_input d c v l h

/-- the first loop never fails for lack of fuel: any fuel above the input length gives the same split -/
theorem split_fuel_immaterial (d : Dialect) (k : Bool) (bs : Bytes) (n : Nat) :
    splitCertificates d k (bs.length + 1) bs = splitCertificates d k (bs.length + 1 + n) bs :=
  splitCertificates_fuel d k _ _ bs (by omega) (by omega)

-- the law applied: a strict piece followed by a lax piece, payload reporting two non-fatal errors each
example :
    parseCertificates Dialect.upstream true (fun _ => ⟨true, .nonFatalErrors 2⟩) (concatAllB [sampleCert, sampleLaxCert]) =
      ⟨true, .nonFatalErrors 5⟩ := by
  rw [concat_law Dialect.upstream _ [sampleCert, sampleLaxCert]]
  · rfl
  · intro c hc
    simp only [List.mem_cons, List.mem_nil_iff, or_false] at hc
    rcases hc with rfl | rfl
    · cases h : strictThenLax Dialect.upstream Gen.ty_certificate sampleCert with
      | none =>
        have hs : (strictThenLax Dialect.upstream Gen.ty_certificate sampleCert).isSome = true := by rfl
        rw [h] at hs; cases hs
      | some x =>
        obtain ⟨v, r, l⟩ := x
        have hr : (strictThenLax Dialect.upstream Gen.ty_certificate sampleCert).map (fun x => x.2.1) = some [] := by rfl
        rw [h] at hr
        simp only [Option.map_some, Option.some.injEq] at hr
        subst hr
        exact ⟨v, l, rfl⟩
    · cases h : strictThenLax Dialect.upstream Gen.ty_certificate sampleLaxCert with
      | none =>
        have hs : (strictThenLax Dialect.upstream Gen.ty_certificate sampleLaxCert).isSome = true := by rfl
        rw [h] at hs; cases hs
      | some x =>
        obtain ⟨v, r, l⟩ := x
        have hr : (strictThenLax Dialect.upstream Gen.ty_certificate sampleLaxCert).map (fun x => x.2.1) = some [] := by rfl
        rw [h] at hr
        simp only [Option.map_some, Option.some.injEq] at hr
        subst hr
        exact ⟨v, l, rfl⟩

/-- **The law fails on the snapshot (F7).** With the unrepaired retry (`keepsInput = false`) a single certificate
that needs the lax fallback makes `ParseCertificates` fatal although `ParseCertificate` returns it with one
non-fatal error. (A certificate whose serial number is the non-minimal INTEGER `02 02 00 01`.) -/
theorem concat_law_fails_unrepaired :
    let inner : AVal → Ret := fun _ => ⟨true, .nil⟩
    parseCertificate Dialect.upstream inner sampleLaxCert = ⟨true, .nonFatalErrors 1⟩ ∧
    parseCertificates Dialect.upstream false inner sampleLaxCert = ⟨false, .plain⟩ ∧
    parseCertificates Dialect.upstream true inner sampleLaxCert = ⟨true, .nonFatalErrors 1⟩ := by
  refine ⟨by rfl, by rfl, by rfl⟩


/-! ## envelope round trip -/

/- FULL: envelope_roundtrip — for every envelope template `tmpl` (serial, algorithm identifiers, raw issuer / subject, validity,
   SPKI, optional unique ids, extension list): `parseCertificate d inner (encodeCert tmpl) = (tmpl, none)`, i.e.
     marshalField d Gen.ty_certificate {} tmpl = .ok bs → parseField d .strict Gen.ty_certificate {} bs = .ok (tmpl, []).
   Not proved: it is the `parse ∘ marshal` direction of the DER library, which needs the header round trip
   (`parseTagLen (encTagLen tl ++ r) = (tl, r)`, long-form lengths) for arbitrary content sizes. What is checked instead:
   the instance below by evaluation, and on every run that certificates issued by crypto/x509.CreateCertificate parse
   with no error at all (harness part (b), 120 / 2 500 random templates). -/

/-- envelope_roundtrip, one instance in both directions: the sample envelope decodes strictly with no remainder,
re-encodes to the same octets, and the encoding of the decoded value decodes to a value with the same raw fields. -/
theorem envelope_roundtrip_partial :
    (match parseField Dialect.upstream .strict Gen.ty_certificate {} sampleCert with
     | .ok (v, rest) => (marshalField Dialect.upstream Gen.ty_certificate {} v, rest)
     | .error e => (.error e, [])) = (.ok sampleCert, []) ∧
    parseCertificate Dialect.upstream (fun _ => ⟨true, .nil⟩) sampleCert = ⟨true, .nil⟩ := ⟨by rfl, by rfl⟩

end C11
