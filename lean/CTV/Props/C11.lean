import CTV.Model.X509Wrap
/-!
# C11 — The lenient X.509 parser is total, error-coherent and exact on well-formed input

Theorems over `CTV.Model.X509Wrap` (the wrappers) on top of `CTV.Der` (the envelope, decoded with the
descriptors regenerated from x509/x509.go and x509/pkix/pkix.go into `Gen.X509Types`).

`parseCertificate`'s payload processing enters as an arbitrary function `inner`; the theorems hold for every
`inner` that satisfies `InnerOK` (what the real function does on every input the harness tries). Agreement of
the payload fields with `crypto/x509` is **correspondence-only** (harness part (b)); see notes/C11.md.
-/
namespace C11
open CTV CTV.Der CTV.Model.X509

/-- `parseCertificate`'s own contract: a coherent pair whose error is nil, `NonFatalErrors` or an ordinary
(fatal) error — never an `*Errors` value. -/
def InnerOK (r : Ret) : Prop := Coherent r ∧ ∀ fs, r.err ≠ .errorsPtr fs

theorem finish_coherent (n : Nat) : Coherent (finish true n) := by
  unfold finish Coherent
  split <;> simp [isFatal]

theorem mergeInner_coherent (r : Ret) (n : Nat) (h : InnerOK r) : Coherent (mergeInner r n) := by
  obtain ⟨hc, hne⟩ := h
  unfold mergeInner
  cases he : r.err with
  | nil =>
    have : r.hasObj = true := by
      unfold Coherent at hc; rw [he] at hc; simp [isFatal] at hc; exact hc
    simp only [this]; exact finish_coherent n
  | nonFatalErrors k =>
    have : r.hasObj = true := by
      unfold Coherent at hc; rw [he] at hc; simp [isFatal] at hc; exact hc
    simp only [this]; exact finish_coherent (n + k)
  | plain => simp [Coherent, isFatal]
  | errorsPtr fs => exact absurd he (hne fs)

/-- **coherent (ParseCertificate).** (obj, nil) | (obj, non-fatal) | (nil, fatal) — never mixed. -/
theorem parseCertificate_coherent (d : Dialect) (inner : AVal → Ret) (hin : ∀ c, InnerOK (inner c)) (bs : Bytes) :
    Coherent (parseCertificate d inner bs) := by
  unfold parseCertificate
  split
  · simp [Coherent, isFatal]
  · split
    · simp [Coherent, isFatal]
    · exact mergeInner_coherent _ _ (hin _)

/-- **coherent (ParseTBSCertificate).** -/
theorem parseTBSCertificate_coherent (d : Dialect) (inner : AVal → Ret) (hin : ∀ c, InnerOK (inner c)) (bs : Bytes) :
    Coherent (parseTBSCertificate d inner bs) := by
  unfold parseTBSCertificate
  split
  · simp [Coherent, isFatal]
  · split
    · simp [Coherent, isFatal]
    · exact mergeInner_coherent _ _ (hin _)

theorem innerAllR_coherent : ∀ (rs : List Ret) (n : Nat), (∀ r ∈ rs, InnerOK r) → Coherent (innerAllR rs n)
  | [], n, _ => by simp only [innerAllR]; exact finish_coherent n
  | r :: rs, n, h => by
    have hr := h r (List.mem_cons_self ..)
    have hrs : ∀ x ∈ rs, InnerOK x := fun x hx => h x (List.mem_cons_of_mem _ hx)
    simp only [innerAllR]
    cases he : r.err with
    | nil => exact innerAllR_coherent rs n hrs
    | nonFatalErrors k => exact innerAllR_coherent rs (n + k) hrs
    | plain => simp [Coherent, isFatal]
    | errorsPtr fs => exact absurd he (hr.2 fs)

/-- **coherent (ParseCertificates)**, with or without the F7 repair. -/
theorem parseCertificates_coherent (d : Dialect) (keeps : Bool) (inner : AVal → Ret) (hin : ∀ c, InnerOK (inner c)) (bs : Bytes) :
    Coherent (parseCertificates d keeps inner bs) := by
  unfold parseCertificates
  split
  · simp [Coherent, isFatal]
  · unfold innerAll
    apply innerAllR_coherent
    intro r hr
    obtain ⟨c, _, rfl⟩ := List.mem_map.mp hr
    exact hin c

/-- **coherent (ParseCertificateListDER)**: whatever the extension payloads add to the `*Errors` value,
the list is returned exactly when no entry is fatal, and a nil error exactly when there is no entry. -/
theorem parseCertificateListDER_coherent (d : Dialect) (payload : AVal → List Bool × Bool) (bs : Bytes) :
    Coherent (parseCertificateListDER d payload bs) := by
  unfold parseCertificateListDER
  split
  · simp [Coherent, isFatal]
  · split
    · simp [Coherent, isFatal]
    · split
      rename_i ev hard _
      by_cases h1 : hard = true
      · simp [h1, Coherent, isFatal]
      · by_cases h2 : ev.any id = true
        · simp [h1, h2, Coherent, isFatal]
        · by_cases h3 : ev.isEmpty = true
          · simp [h1, h2, h3, Coherent, isFatal]
          · simp [h1, h2, h3, Coherent, isFatal]

/-- `IsFatal` as the callers use it: nil and `NonFatalErrors` are not fatal, `*Errors` is fatal iff one entry is. -/
theorem isFatal_classes (n : Nat) (fs : List Bool) :
    isFatal .nil = false ∧ isFatal (.nonFatalErrors n) = false ∧ isFatal .plain = true ∧
    (isFatal (.errorsPtr fs) = true ↔ true ∈ fs) := by
  refine ⟨rfl, rfl, rfl, ?_⟩
  simp [isFatal]

-- non-vacuity: a certificate that needs the lax fallback, an inner result with two non-fatal errors
example : Coherent (mergeInner ⟨true, .nonFatalErrors 2⟩ 1) ∧ mergeInner ⟨true, .nonFatalErrors 2⟩ 1 = ⟨true, .nonFatalErrors 3⟩ := by decide
example : InnerOK ⟨true, .nonFatalErrors 2⟩ ∧ InnerOK ⟨false, .plain⟩ ∧ ¬ InnerOK ⟨false, .nonFatalErrors 1⟩ := by
  refine ⟨⟨by decide, by intro fs h; cases h⟩, ⟨by decide, by intro fs h; cases h⟩, ?_⟩
  intro h; exact absurd h.1 (by decide)
-- the hypothesis is needed: an inner function that returned (nil, NonFatalErrors) would surface as a mixed result
example : ¬ Coherent (mergeInner ⟨false, .nonFatalErrors 1⟩ 0) := by decide
example : parseCertificateListDER Dialect.upstream (fun _ => ([false, true], false)) [0x30, 0x00] = ⟨false, .errorsPtr [true]⟩ := by rfl

end C11
