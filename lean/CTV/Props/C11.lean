import CTV.Model.X509Wrap
/-! # C11 (skeleton; theorems follow) -/
namespace C11
open CTV CTV.Der CTV.Model.X509

theorem placeholder_true : True := trivial

end C11
