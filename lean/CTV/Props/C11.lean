import CTV.Model.X509Wrap
import CTV.Lemmas.DerSlices
import CTV.Lemmas.X509Concat
import CTV.Lemmas.X509Coherent
/-!
# C11 — The lenient X.509 parser is total, error-coherent and exact on well-formed input

Theorems over `CTV.Model.X509Wrap` (the wrappers) on top of `CTV.Der` (the envelope, decoded with the
descriptors regenerated from x509/x509.go and x509/pkix/pkix.go into `Gen.X509Types`).

`parseCertificate`'s payload processing enters as an arbitrary function `inner`; the theorems hold for every
`inner` that satisfies `InnerOK` (what the real function does on every input the harness tries). Agreement of
the payload fields with `crypto/x509` is **correspondence-only** (harness part (b)); see notes/C11.md.
-/
namespace C11
open CTV CTV.Der CTV.Model.X509

/-- **coherent (ParseCertificate).** (obj, nil) | (obj, non-fatal) | (nil, fatal) — never mixed. -/
theorem parseCertificate_coherent (d : Dialect) (inner : AVal → Ret) (hin : ∀ c, InnerOK (inner c)) (bs : Bytes) :
    Coherent (parseCertificate d inner bs) := by
  unfold parseCertificate
  split
  · simp [Coherent, isFatal]
  · split
    · simp [Coherent, isFatal]
    · exact mergeInner_coherent _ _ (hin _)

/-- **coherent (ParseTBSCertificate).** -/
theorem parseTBSCertificate_coherent (d : Dialect) (inner : AVal → Ret) (hin : ∀ c, InnerOK (inner c)) (bs : Bytes) :
    Coherent (parseTBSCertificate d inner bs) := by
  unfold parseTBSCertificate
  split
  · simp [Coherent, isFatal]
  · split
    · simp [Coherent, isFatal]
    · exact mergeInner_coherent _ _ (hin _)

/-- **coherent (ParseCertificates)**, with or without the F7 repair. -/
theorem parseCertificates_coherent (d : Dialect) (keeps : Bool) (inner : AVal → Ret) (hin : ∀ c, InnerOK (inner c)) (bs : Bytes) :
    Coherent (parseCertificates d keeps inner bs) := by
  unfold parseCertificates
  split
  · simp [Coherent, isFatal]
  · unfold innerAll
    apply innerAllR_coherent
    intro r hr
    obtain ⟨c, _, rfl⟩ := List.mem_map.mp hr
    exact hin c

/-- **coherent (ParseCertificateListDER)**: whatever the extension payloads add to the `*Errors` value,
the list is returned exactly when no entry is fatal, and a nil error exactly when there is no entry. -/
theorem parseCertificateListDER_coherent (d : Dialect) (payload : AVal → List Bool × Bool) (bs : Bytes) :
    Coherent (parseCertificateListDER d payload bs) := by
  unfold parseCertificateListDER
  split
  · simp [Coherent, isFatal]
  · split
    · simp [Coherent, isFatal]
    · split
      rename_i ev hard _
      by_cases h1 : hard = true
      · simp [h1, Coherent, isFatal]
      · by_cases h2 : ev.any id = true
        · simp [h1, h2, Coherent, isFatal]
        · by_cases h3 : ev.isEmpty = true
          · simp [h1, h2, h3, Coherent, isFatal]
          · simp [h1, h2, h3, Coherent, isFatal]

/-- `IsFatal` as the callers use it: nil and `NonFatalErrors` are not fatal, `*Errors` is fatal iff one entry is. -/
theorem isFatal_classes (n : Nat) (fs : List Bool) :
    isFatal .nil = false ∧ isFatal (.nonFatalErrors n) = false ∧ isFatal .plain = true ∧
    (isFatal (.errorsPtr fs) = true ↔ true ∈ fs) := by
  refine ⟨rfl, rfl, rfl, ?_⟩
  simp [isFatal]

-- non-vacuity: a certificate that needs the lax fallback, an inner result with two non-fatal errors
example : Coherent (mergeInner ⟨true, .nonFatalErrors 2⟩ 1) ∧ mergeInner ⟨true, .nonFatalErrors 2⟩ 1 = ⟨true, .nonFatalErrors 3⟩ := by decide
example : InnerOK ⟨true, .nonFatalErrors 2⟩ ∧ InnerOK ⟨false, .plain⟩ ∧ ¬ InnerOK ⟨false, .nonFatalErrors 1⟩ := by
  refine ⟨⟨by decide, by intro fs h; cases h⟩, ⟨by decide, by intro fs h; cases h⟩, ?_⟩
  intro h; exact absurd h.1 (by decide)
-- the hypothesis is needed: an inner function that returned (nil, NonFatalErrors) would surface as a mixed result
example : ¬ Coherent (mergeInner ⟨false, .nonFatalErrors 1⟩ 0) := by decide
example : parseCertificateListDER Dialect.upstream (fun _ => ([false, true], false)) [0x30, 0x00] = ⟨false, .errorsPtr [true]⟩ := by rfl


-- non-vacuity: a minimal certificate envelope (issuer = SEQUENCE { SET {} }, subject = empty SEQUENCE)
def sampleCert : Bytes := [0x30, 0x47, 0x30, 0x3b, 0x02, 0x01, 0x01, 0x30, 0x04, 0x06, 0x02, 0x2a, 0x03, 0x30, 0x02, 0x31, 0x00, 0x30, 0x1e, 0x17, 0x0d, 0x32, 0x34, 0x30, 0x31, 0x30, 0x31, 0x30, 0x30, 0x30, 0x30, 0x30, 0x30, 0x5a, 0x17, 0x0d, 0x32, 0x35, 0x30, 0x31, 0x30, 0x31, 0x30, 0x30, 0x30, 0x30, 0x30, 0x30, 0x5a, 0x30, 0x00, 0x30, 0x0a, 0x30, 0x04, 0x06, 0x02, 0x2a, 0x03, 0x03, 0x02, 0x00, 0x01, 0x30, 0x04, 0x06, 0x02, 0x2a, 0x03, 0x03, 0x02, 0x00, 0x01]

/-- a minimal certificate envelope whose serial number is the non-minimal INTEGER `02 02 00 01` -/
def sampleLaxCert : Bytes := [0x30, 0x48, 0x30, 0x3c, 0x02, 0x02, 0x00, 0x01, 0x30, 0x04, 0x06, 0x02, 0x2a, 0x03, 0x30, 0x02, 0x31, 0x00, 0x30, 0x1e, 0x17, 0x0d, 0x32, 0x34, 0x30, 0x31, 0x30, 0x31, 0x30, 0x30, 0x30, 0x30, 0x30, 0x30, 0x5a, 0x17, 0x0d, 0x32, 0x35, 0x30, 0x31, 0x30, 0x31, 0x30, 0x30, 0x30, 0x30, 0x30, 0x30, 0x5a, 0x30, 0x00, 0x30, 0x0a, 0x30, 0x04, 0x06, 0x02, 0x2a, 0x03, 0x03, 0x02, 0x00, 0x01, 0x30, 0x04, 0x06, 0x02, 0x2a, 0x03, 0x03, 0x02, 0x00, 0x01]

/-! ## concatenation law -/

/-- **concat_law.** With the retry of `ParseCertificates` repaired (`keepsInput = true`, see F7): for certificates
`c₁ … cₙ` each of which the envelope decoder accepts on its own (strictly or via lax) using up all of `cᵢ`,
parsing `c₁ ‖ … ‖ cₙ` gives, certificate by certificate and in order, exactly the outcome of `ParseCertificate cᵢ`:
the non-fatal errors add up, and the first fatal one makes the whole call fatal with that error (`innerAllR`
applied to the individual results is this combination). Holds for every payload function `inner`. -/
theorem concat_law (d : Dialect) (inner : AVal → Ret) (cs : List Bytes)
    (hcs : ∀ c ∈ cs, ∃ v l, strictThenLax d Gen.ty_certificate c = some (v, [], l)) :
    parseCertificates d true inner (concatAllB cs) = innerAllR (cs.map (parseCertificate d inner)) 0 := by
  unfold parseCertificates
  rw [splitCertificates_concat d cs _ hcs (Nat.lt_succ_self _)]
  simp only [innerAll]
  -- each ParseCertificate cᵢ is `mergeInner (inner vᵢ) (lax? 1 : 0)`
  have hpc : ∀ c ∈ cs, parseCertificate d inner c = mergeInner (inner (certVal d c).1) (if (certVal d c).2 then 1 else 0) := by
    intro c hc
    obtain ⟨v, l, h⟩ := hcs c hc
    unfold parseCertificate certVal
    rw [h]
    simp
  have e1 : cs.map (parseCertificate d inner) = (cs.map (certVal d)).map (fun x => mergeInner (inner x.1) (if x.2 then 1 else 0)) := by
    rw [List.map_map]
    exact List.map_congr_left hpc
  have e2 : (cs.map fun c => (certVal d c).1).map inner = (cs.map (certVal d)).map (fun x => inner x.1) := by
    simp [List.map_map, Function.comp_def]
  have e3 := countLax_eq d cs
  rw [e1, e2, e3, innerAllR_merge inner _ 0, Nat.zero_add]

/-- **The law fails on the snapshot (F7).** With the unrepaired retry (`keepsInput = false`) a single certificate
that needs the lax fallback makes `ParseCertificates` fatal although `ParseCertificate` returns it with one
non-fatal error. (A certificate whose serial number is the non-minimal INTEGER `02 02 00 01`.) -/
theorem concat_law_fails_unrepaired :
    let inner : AVal → Ret := fun _ => ⟨true, .nil⟩
    parseCertificate Dialect.upstream inner sampleLaxCert = ⟨true, .nonFatalErrors 1⟩ ∧
    parseCertificates Dialect.upstream false inner sampleLaxCert = ⟨false, .plain⟩ ∧
    parseCertificates Dialect.upstream true inner sampleLaxCert = ⟨true, .nonFatalErrors 1⟩ := by
  refine ⟨by rfl, by rfl, by rfl⟩

/-! ## raw fields are the exact sub-slices of the input -/

/-- `full` is the element that `readTLV` finds at some offset of `whole` -/
def ElemAt (d : Dialect) (whole : Bytes) (e : Elem) : Prop :=
  ∃ pre post, whole = pre ++ e.full ++ post ∧ readTLV d (e.full ++ post) = .ok (e, post)

/-- **raw_slices.** For every certificate the envelope decoder accepts (strictly or lax, any dialect): `Raw` is the
whole outer element; `RawTBSCertificate` is the first element of its content; `RawIssuer`, `RawSubject` and
`RawSubjectPublicKeyInfo` are elements found by `readTLV` inside the TBS content (the positions of the fourth,
sixth and seventh field). Each is `bs.extract a b` for the offsets of that element — header and declared
length, nothing more, nothing less. -/
theorem raw_slices (d : Dialect) (m : Mode) (bs : Bytes) (cert : AVal) (rest : Bytes)
    (h : parseField d m Gen.ty_certificate {} bs = .ok (cert, rest)) :
    ∃ outer tbs eIssuer eSubject eSpki,
      readTLV (d.forMode m) bs = .ok (outer, rest) ∧ (rawFields cert).raw = outer.full ∧
      readTLV (d.forMode m) outer.content = .ok (tbs, outer.content.drop tbs.full.length) ∧ (rawFields cert).tbs = tbs.full ∧
      ElemAt (d.forMode m) tbs.content eIssuer ∧ (rawFields cert).issuer = eIssuer.full ∧
      ElemAt (d.forMode m) tbs.content eSubject ∧ (rawFields cert).subject = eSubject.full ∧
      ElemAt (d.forMode m) tbs.content eSpki ∧ (rawFields cert).spki = eSpki.full := by
  have plain : ∀ t : ATy, t.isAny = false → PlainField {} t := fun t ht => ⟨rfl, rfl, ht⟩
  obtain ⟨outer, hro, hraw⟩ := plainField_readTLV d m _ _ _ _ _ (plain _ rfl) h
  simp only [Gen.ty_certificate, RawOf] at hraw
  obtain ⟨vs, left, hfs, rfl⟩ := hraw
  -- first field: the TBS
  obtain ⟨vtbs, bs', vs', h1, _, rfl⟩ := parseFields_cons d m _ _ _ _ _ _ hfs
  obtain ⟨tbs, hrt, hrawt⟩ := plainField_readTLV d m _ _ _ _ _ (plain _ rfl) h1
  simp only [Gen.ty_tbsCertificate, RawOf] at hrawt
  obtain ⟨tvs, tleft, htfs, rfl⟩ := hrawt
  have hsplit := readTLV_split _ _ _ _ hrt
  have hdrop : bs' = outer.content.drop tbs.full.length := by
    rw [hsplit]; simp
  -- the three raw fields inside the TBS
  obtain ⟨v3, pre3, post3, e3, hv3, hb3, hr3, hraw3⟩ := parseFields_slices d m _ _ _ _ htfs 3 {} .rawValue rfl (plain _ rfl)
  obtain ⟨v5, pre5, post5, e5, hv5, hb5, hr5, hraw5⟩ := parseFields_slices d m _ _ _ _ htfs 5 {} .rawValue rfl (plain _ rfl)
  obtain ⟨v6, pre6, post6, e6, hv6, hb6, hr6, hraw6⟩ := parseFields_slices d m _ _ _ _ htfs 6 {} Gen.ty_publicKeyInfo rfl (plain _ rfl)
  simp only [RawOf] at hraw3 hraw5
  simp only [Gen.ty_publicKeyInfo, RawOf] at hraw6
  obtain ⟨svs, sleft, _, hv6eq⟩ := hraw6
  refine ⟨outer, tbs, e3, e5, e6, hro, rfl, hdrop ▸ hrt, ?_, ⟨pre3, post3, hb3, hr3⟩, ?_, ⟨pre5, post5, hb5, hr5⟩, ?_, ⟨pre6, post6, hb6, hr6⟩, ?_⟩
  · simp [rawFields, structField, structRaw, AVal.unwrap]
  · have : tvs.getD 3 (.bool false) = v3 := by simp [List.getD, hv3]
    simp only [rawFields, structField, structRaw, AVal.unwrap, List.getD_cons_zero, this, hraw3, rawFull]
  · have : tvs.getD 5 (.bool false) = v5 := by simp [List.getD, hv5]
    simp only [rawFields, structField, structRaw, AVal.unwrap, List.getD_cons_zero, this, hraw5, rawFull]
  · have : tvs.getD 6 (.bool false) = v6 := by simp [List.getD, hv6]
    simp only [rawFields, structField, structRaw, AVal.unwrap, List.getD_cons_zero, this, hv6eq, if_true]

example : (match parseField Dialect.upstream .strict Gen.ty_certificate {} (sampleCert ++ [0xAA]) with
    | .ok (c, rest) => some ((rawFields c).issuer, (rawFields c).subject, (rawFields c).tbs.length, (rawFields c).raw.length, rest)
    | .error _ => none) = some ([0x30, 0x02, 0x31, 0x00], [0x30, 0x00], 61, 73, [0xAA]) := by rfl

/-! ## envelope round trip -/

/- FULL: envelope_roundtrip — for every envelope template `tmpl` (serial, algorithm identifiers, raw issuer / subject, validity,
   SPKI, optional unique ids, extension list): `parseCertificate d inner (encodeCert tmpl) = (tmpl, none)`, i.e.
     marshalField d Gen.ty_certificate {} tmpl = .ok bs → parseField d .strict Gen.ty_certificate {} bs = .ok (tmpl, []).
   Not proved: it is the `parse ∘ marshal` direction of the DER library, which needs the header round trip
   (`parseTagLen (encTagLen tl ++ r) = (tl, r)`, long-form lengths) for arbitrary content sizes. What is checked instead:
   the instance below by evaluation, and on every run that certificates issued by crypto/x509.CreateCertificate parse
   with no error at all (harness part (b), 120 / 2 500 random templates). -/

/-- envelope_roundtrip, one instance in both directions: the sample envelope decodes strictly with no remainder,
re-encodes to the same octets, and the encoding of the decoded value decodes to a value with the same raw fields. -/
theorem envelope_roundtrip_partial :
    (match parseField Dialect.upstream .strict Gen.ty_certificate {} sampleCert with
     | .ok (v, rest) => (marshalField Dialect.upstream Gen.ty_certificate {} v, rest)
     | .error e => (.error e, [])) = (.ok sampleCert, []) ∧
    parseCertificate Dialect.upstream (fun _ => ⟨true, .nil⟩) sampleCert = ⟨true, .nil⟩ := ⟨by rfl, by rfl⟩

end C11
