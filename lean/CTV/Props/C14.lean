import CTV.Model.ChainStore
import CTV.Lemmas.ChainStore
import CTV.Lemmas.ChainDer
/-!
# C14 — Storing issuance chains outside the backend is invisible to readers

Theorems over `CTV.Model.ChainStore`. The length bounds of the five TLS vectors are the regenerated
`tls:"minlen,maxlen"` tags of types.go (`Gen.layout…` → `certB`, `pcehHashB`, `cchHashB`, `pceChainB`, `ccEntriesB`),
the order in which layouts are tried is compared with the regenerated `Gen.fixOrder`.
`H` (SHA-256 in the code) is an arbitrary function; no property of it is used except that it yields a hash the
layouts can carry (`1 ≤ |H x| ≤ 256`) — collisions are a matter of the *store* contract, which appears as the
hypothesis "the store returns what was stored under that hash".
-/
set_option linter.unusedVariables false

namespace C14
open CTV CTV.Model.ChainStore

/-- the model tries the layouts in the order the code does (regenerated from FixLogLeaf) -/
theorem fix_order_is_code_order : modelFixOrder = Gen.fixOrder := by decide

/-- the field order of the four structs is the one the model's encoders use (regenerated from types.go) -/
theorem field_order_is_code_order :
    Gen.layoutPrecertChainEntryHash.map (·.1) = ["PreCertificate", "IssuanceChainHash"] ∧
    Gen.layoutCertificateChainHash.map (·.1) = ["IssuanceChainHash"] ∧
    Gen.layoutPrecertChainEntry.map (·.1) = ["PreCertificate", "CertificateChain"] ∧
    Gen.layoutCertificateChain.map (·.1) = ["Entries"] ∧
    Gen.layoutASN1Cert.map (·.1) = ["Data"] := by decide

/-- the hash field of both hash layouts travels behind a **2-byte** length prefix (regenerated `tls:"maxlen:256"` tags of
`PrecertChainEntryHash.IssuanceChainHash` / `CertificateChainHash.IssuanceChainHash`): what earlier binaries stored as
`00 20 ‖ hash` stays readable; certificates and chains behind 3 bytes. A change of these bounds changes the width. -/
theorem hash_prefix_is_two_bytes :
    lenWidth pcehHashB.2 = 2 ∧ lenWidth cchHashB.2 = 2 ∧ lenWidth certB.2 = 3 ∧ lenWidth pceChainB.2 = 3 ∧ lenWidth ccEntriesB.2 = 3 := by
  decide

/-- a stored `00 20 ‖ 32-byte hash` is the CertificateChainHash layout with that hash -/
example : decCCH ([0, 32] ++ List.replicate 32 7) = some (List.replicate 32 7) ∧ decPCEH ([0, 32] ++ List.replicate 32 7) = none := by decide

/-! ## layouts_disjoint -/

/-- **layouts_disjoint.** Each of the four stored forms is recognised as itself by `FixLogLeaf`'s cascade:
it parses (completely) as its own layout and as none of the layouts tried before it — for every content.
(DESIGN.md Appendix F; here over the regenerated bounds.) -/
theorem layouts_disjoint :
    -- PrecertChainEntryHash is tried first
    (∀ pre hash e, encPCEH pre hash = some e → decPCEH e = some (pre, hash)) ∧
    -- CertificateChainHash: not a PrecertChainEntryHash, is a CertificateChainHash
    (∀ hash e, encCCH hash = some e → decPCEH e = none ∧ decCCH e = some hash) ∧
    -- PrecertChainEntry: neither hash layout, is a PrecertChainEntry
    (∀ pre cs e, encPCE pre cs = some e → decPCEH e = none ∧ decCCH e = none ∧ decPCE e = some (pre, cs)) ∧
    -- CertificateChain: neither hash layout (it may or may not read as a PrecertChainEntry: both are passed through)
    (∀ cs e, encCC cs = some e → decPCEH e = none ∧ decCCH e = none ∧ decCC e = some cs) :=
  ⟨decPCEH_encPCEH,
   fun hash e h => ⟨decPCEH_encCCH hash e h, decCCH_encCCH hash e h⟩,
   fun pre cs e h => ⟨decPCEH_encPCE pre cs e h, decCCH_encPCE pre cs e h, decPCE_encPCE pre cs e h⟩,
   fun cs e h => ⟨decPCEH_encCC cs e h, decCCH_encCC cs e h, decCC_encCC cs e h⟩⟩

/-! ## legacy_unchanged -/

/-- **legacy_unchanged.** An entry stored with its full chain (either entry type, any chain) is served unchanged,
whatever the store and the cache contain or answer — `get` is arbitrary, it is never consulted. -/
theorem legacy_unchanged (get : Bytes → Except Err Bytes) (isPrecert : Bool) (cert : Bytes) (chain : List Bytes) (e : Bytes)
    (h : buildDirect isPrecert cert chain = some e) : fixLogLeaf get e = .ok e := by
  unfold buildDirect at h
  unfold fixLogLeaf
  cases isPrecert with
  | true =>
    simp only [if_true] at h
    rw [decPCEH_encPCE cert chain e h, decCCH_encPCE cert chain e h, decPCE_encPCE cert chain e h]
  | false =>
    simp only [Bool.false_eq_true, if_false] at h
    rw [decPCEH_encCC chain e h, decCCH_encCC chain e h]
    simp only []
    cases decPCE e with
    | some _ => rfl
    | none => simp only []; rw [decCC_encCC chain e h]

/-! ## fix_inverts_build -/

/-- **fix_inverts_build.** For every certificate, every chain (including the empty one of a leaf-only path) and both
entry types: re-inflating the leaf built in external-storage mode gives byte for byte the extra data of the
in-backend mode, whenever the lookup of the embedded hash returns what was stored under it
(`get (H der) = ok der`) and the stored DER form decodes to the chain it encodes (`hder`, proved below as
`der_round_trip` for the sizes that occur). -/
theorem fix_inverts_build (H : Bytes → Bytes) (get : Bytes → Except Err Bytes) (isPrecert : Bool) (cert : Bytes) (chain : List Bytes)
    (ix dx : Bytes)
    (hH : (H (derChain chain)).length ≠ 0)
    (hget : get (H (derChain chain)) = .ok (derChain chain))
    (hder : parseDerChain (derChain chain) = some chain)
    (hi : buildIndirect H isPrecert cert chain = some ix)
    (hd : buildDirect isPrecert cert chain = some dx) :
    fixLogLeaf get ix = .ok dx := by
  unfold buildIndirect at hi
  unfold buildDirect at hd
  have hinf : inflate get (H (derChain chain)) = .ok chain := by
    unfold inflate
    simp only [hH, if_false, hget, hder]
  unfold fixLogLeaf
  cases isPrecert with
  | true =>
    simp only [if_true] at hi hd
    rw [decPCEH_encPCEH cert _ ix hi]
    simp only [hinf, hd]
  | false =>
    simp only [Bool.false_eq_true, if_false] at hi hd
    rw [decPCEH_encCCH _ ix hi, decCCH_encCCH _ ix hi]
    simp only [hinf, hd]

/-- **DER round trip of `SEQUENCE OF SEQUENCE { OCTET STRING }`**: the stored form of every chain decodes to that
chain (Go's `encoding/asn1` length rules: definite, minimal, at most 4 length bytes, below 2^31). -/
theorem der_round_trip (chain : List Bytes) (h : (derChain chain).length < 2147483648) :
    parseDerChain (derChain chain) = some chain :=
  CTV.Model.ChainStore.der_round_trip chain h

/-- `fix_inverts_build` with the DER hypothesis discharged. -/
theorem fix_inverts_build_der (H : Bytes → Bytes) (get : Bytes → Except Err Bytes) (isPrecert : Bool) (cert : Bytes) (chain : List Bytes)
    (ix dx : Bytes)
    (hH : (H (derChain chain)).length ≠ 0)
    (hget : get (H (derChain chain)) = .ok (derChain chain))
    (hsz : (derChain chain).length < 2147483648)
    (hi : buildIndirect H isPrecert cert chain = some ix)
    (hd : buildDirect isPrecert cert chain = some dx) :
    fixLogLeaf get ix = .ok dx :=
  fix_inverts_build H get isPrecert cert chain ix dx hH hget (der_round_trip chain hsz) hi hd

def exH : Bytes → Bytes := fun _ => List.replicate 32 7
def exCert : Bytes := [1, 2, 3]
def exChain : List Bytes := [[4, 5], [6]]

/-- `inflate` returns exactly the decoded chain of what `get` returned -/
theorem inflate_ok (get : Bytes → Except Err Bytes) (h : Bytes) (cs : List Bytes) (hi : inflate get h = .ok cs) :
    (h.length = 0 ∧ cs = []) ∨ (∃ der, get h = .ok der ∧ parseDerChain der = some cs) := by
  unfold inflate at hi
  by_cases h0 : h.length = 0
  · simp only [h0, if_true, Except.ok.injEq] at hi; exact Or.inl ⟨h0, hi.symm⟩
  · simp only [h0, if_false] at hi
    cases hg : get h with
    | error e => simp [hg] at hi
    | ok der =>
      simp only [hg] at hi
      cases hp : parseDerChain der with
      | none => simp [hp] at hi
      | some c => simp only [hp, Except.ok.injEq] at hi; subst hi; exact Or.inr ⟨der, rfl, hp⟩

/-- the generic step: a failing or undecodable lookup result for the embedded hash makes `fixLogLeaf` fail -/
theorem fixLogLeaf_error_of_bad_lookup (get : Bytes → Except Err Bytes) (extra : Bytes) (h : Bytes) (hne : h.length ≠ 0)
    (hlay : (∃ pre, decPCEH extra = some (pre, h)) ∨ (decPCEH extra = none ∧ decCCH extra = some h))
    (hbad : (∃ e, get h = .error e) ∨ (∃ der, get h = .ok der ∧ parseDerChain der = none)) :
    ∃ e, fixLogLeaf get extra = .error e := by
  have hinf : ∃ e, inflate get h = .error e := by
    unfold inflate
    simp only [hne, if_false]
    rcases hbad with ⟨e, he⟩ | ⟨der, hg, hp⟩
    · exact ⟨e, by rw [he]⟩
    · exact ⟨.corruptChain, by rw [hg]; simp only [hp]⟩
  obtain ⟨e, he⟩ := hinf
  unfold fixLogLeaf
  rcases hlay with ⟨pre, hp⟩ | ⟨hp, hc⟩
  · rw [hp]; simp only [he]; exact ⟨e, rfl⟩
  · rw [hp, hc]; simp only [he]; exact ⟨e, rfl⟩

/-! ## the cache never changes what is served -/

/-- **what the cache holds was stored or submitted under that key** — an invariant of *every* operation, store
damage included (add, the detached cache fill — enabled only for a pair that was an `add` argument or a row —,
eviction, expiry, row deleted, row overwritten), from the empty state, for every interleaving. This is the rule the
driver checks on every observed `cset` / `cget` event. -/
theorem cache_sub_known (ops : List Op) : InvK (run State.init ops) :=
  invK_run _ _ invK_init

/-- **cache ⊆ store** for every history without store damage in which each hash has one chain (`c`; content
addressing). With store damage it is false — the cache may keep the good chain while the row is bad, and which of the
two a reader gets then depends on cache state: see `cache_state_visible_after_damage` below and `fault_is_error`. -/
theorem cache_sub_store (c : Bytes → Bytes) (ops : List Op) (ho : ∀ op ∈ ops, op.honest c) : Inv (run State.init ops) :=
  inv_of c _ (cache_sub_known ops) (invH_run c _ ops ho invK_init (invH_init c))

/-- Hence the lookup is the store's — for every cache kind, size, TTL, eviction pattern and interleaving. -/
theorem getByHash_is_store (c : Bytes → Bytes) (ops : List Op) (ho : ∀ op ∈ ops, op.honest c) (h : Bytes) :
    getByHashRaw (run State.init ops) {} h =
      match (run State.init ops).store.lookup h with
      | some v => .ok v
      | none => .error .unknownHash :=
  getByHashRaw_of_inv _ (cache_sub_store c ops ho) h

/-- a chain, once handed to `storage.Add`, is found under its hash after any further honest history
(de-duplication keeps the first copy, which is the same chain) -/
theorem stored_chain_stays (c : Bytes → Bytes) (ops1 ops2 : List Op) (h : Bytes)
    (ho : ∀ op ∈ ops1 ++ [.add h (c h)] ++ ops2, op.honest c) :
    getByHashRaw (run State.init (ops1 ++ [.add h (c h)] ++ ops2)) {} h = .ok (c h) := by
  rw [getByHash_is_store c _ ho h]
  have hk : (h, c h) ∈ (run State.init (ops1 ++ [.add h (c h)] ++ ops2)).known := by
    rw [run_append, run_append]
    have h1 : (h, c h) ∈ (run (run State.init ops1) [.add h (c h)]).known := by
      simp only [run, List.foldl_cons, List.foldl_nil, step]
      split <;> exact List.mem_cons_self ..
    -- `known` only grows
    have grow : ∀ (s : State) (ops : List Op) p, p ∈ s.known → p ∈ (run s ops).known := by
      intro s ops p hp
      induction ops generalizing s with
      | nil => exact hp
      | cons op ops ih =>
        apply ih
        cases op <;> simp only [step] <;> (try split) <;> first | exact hp | exact List.mem_cons_of_mem _ hp
    exact grow _ ops2 _ h1
  have := (invH_run c _ _ ho invK_init (invH_init c)) h (c h) hk
  rw [this.2]

/-- the two combined: what a reader gets for a submission made in external-storage mode at any point of any honest
history is the in-backend extra data — whether or not the code re-checks the hash (`check`), as long as `H` is the
function the keys were made with. -/
theorem served_equals_direct (check : Bool) (H c : Bytes → Bytes) (ops1 ops2 : List Op) (isPrecert : Bool) (cert : Bytes) (chain : List Bytes)
    (ix dx : Bytes)
    (hH : (H (derChain chain)).length ≠ 0)
    (hc : c (H (derChain chain)) = derChain chain)
    (ho : ∀ op ∈ ops1 ++ [.add (H (derChain chain)) (c (H (derChain chain)))] ++ ops2, op.honest c)
    (hder : parseDerChain (derChain chain) = some chain)
    (hi : buildIndirect H isPrecert cert chain = some ix)
    (hd : buildDirect isPrecert cert chain = some dx) :
    fixLogLeaf (getByHash check H (run State.init (ops1 ++ [.add (H (derChain chain)) (c (H (derChain chain)))] ++ ops2)) {}) ix = .ok dx := by
  apply fix_inverts_build H _ isPrecert cert chain ix dx hH _ hder hi hd
  unfold getByHash
  rw [stored_chain_stays c ops1 ops2 _ ho, hc]
  simp [verified]

/-- `add` (the submission side): a refused submission leaves no trace (the error carries no state); an accepted one
has its chain in the store — for honest histories, where a cache hit does prove storage. (Seeded change C14-1 breaks
exactly this: it makes `cacheSet` fire for a pair that was never stored.) -/
theorem add_ok_stored (c : Bytes → Bytes) (ops : List Op) (ho : ∀ op ∈ ops, op.honest c) (f : AddFaults) (h : Bytes) (s' : State)
    (ha : addChain (run State.init ops) f h (c h) = .ok s') : s'.store.lookup h = some (c h) := by
  have hk := cache_sub_known ops
  have hH := invH_run c _ ops ho invK_init (invH_init c)
  unfold addChain at ha
  split at ha
  · rename_i hhit
    simp only [Except.ok.injEq] at ha
    subst ha
    simp only [Bool.and_eq_true, Bool.not_eq_true'] at hhit
    cases hl : (run State.init ops).cache.lookup h with
    | none => simp [hl] at hhit
    | some v =>
      have hm := hk.2 h v hl
      have := hH h v hm
      rw [← this.1]; exact this.2
  · split at ha
    · cases ha
    · simp only [Except.ok.injEq] at ha
      subst ha
      have hs := invH_step c _ (.add h (c h)) rfl hk hH
      exact (hs h (c h) (by simp only [step]; split <;> exact List.mem_cons_self ..)).2

theorem add_fault_refused (s : State) (f : AddFaults) (h v : Bytes) (hf : f.storeAdd = true)
    (hmiss : s.cache.lookup h = none) : addChain s f h v = .error .storage := by
  unfold addChain; simp [hmiss, hf]

/-! ## fault_is_error -/

/-- faults and absences in the lookup are errors -/
theorem getByHash_faults (check : Bool) (H : Bytes → Bytes) (s : State) (h : Bytes) :
    (∀ f : Faults, f.cacheGet = true → ∃ e, getByHash check H s f h = .error e) ∧
    (∀ f : Faults, f.cacheGet = false → s.cache.lookup h = none → f.storeFind = true → ∃ e, getByHash check H s f h = .error e) ∧
    (∀ f : Faults, f.cacheGet = false → s.cache.lookup h = none → f.storeFind = false → s.store.lookup h = none →
        getByHash check H s f h = .error .unknownHash) := by
  refine ⟨?_, ?_, ?_⟩
  · intro f hf; exact ⟨.cache, by unfold getByHash getByHashRaw; simp [hf, verified]⟩
  · intro f hf hc hs; exact ⟨.storage, by unfold getByHash getByHashRaw; simp [hf, hc, hs, verified]⟩
  · intro f hf hc hs hst; unfold getByHash getByHashRaw; simp [hf, hc, hs, hst, verified]

/-- with the content-address check, whatever the lookup hands out hashes to the key it was asked for — also after
any store damage, also from the cache -/
theorem verified_sound (H : Bytes → Bytes) (s : State) (f : Faults) (h v : Bytes)
    (hv : getByHash true H s f h = .ok v) : H v = h := by
  unfold getByHash verified at hv
  cases hr : getByHashRaw s f h with
  | error e => simp [hr] at hv
  | ok w =>
    simp only [hr, Bool.true_and] at hv
    by_cases hw : (H w != h) = true
    · simp [hw] at hv
    · simp only [hw, Bool.false_eq_true, if_false, Except.ok.injEq] at hv
      subst hv; simpa using hw

/-- the flag-generic form (never unfolds the regenerated flag, so it also holds for a tree without the check, where
its last disjunct is empty): lookup error, undecodable bytes, or — where the code has the content-address check —
bytes that do not hash to the key ⇒ error. -/
theorem fault_is_error_of_flag (H : Bytes → Bytes) (s : State) (f : Faults) (extra : Bytes) (h : Bytes) (hne : h.length ≠ 0)
    (hlay : (∃ pre, decPCEH extra = some (pre, h)) ∨ (decPCEH extra = none ∧ decCCH extra = some h))
    (hbad : (∃ e, getByHashRaw s f h = .error e) ∨
            (∃ der, getByHashRaw s f h = .ok der ∧
              (parseDerChain der = none ∨ (Gen.getByHashVerifiesHash = true ∧ H der ≠ h)))) :
    ∃ e, fixLogLeaf (getByHash Gen.getByHashVerifiesHash H s f) extra = .error e := by
  apply fixLogLeaf_error_of_bad_lookup (getByHash Gen.getByHashVerifiesHash H s f) extra h hne hlay
  unfold getByHash
  rcases hbad with ⟨e, he⟩ | ⟨der, hg, hp | ⟨hflag, hh⟩⟩
  · exact Or.inl ⟨e, by rw [he]; rfl⟩
  · rw [hg]
    by_cases hm : (Gen.getByHashVerifiesHash && H der != h) = true
    · exact Or.inl ⟨.hashMismatch, by simp [verified, hm]⟩
    · exact Or.inr ⟨der, by simp [verified, hm], hp⟩
  · rw [hg]
    refine Or.inl ⟨.hashMismatch, ?_⟩
    have : (H der != h) = true := by simpa using hh
    simp [verified, hflag, this]

/-- **hash_check_present** (regenerated from services.go on every run): `getByHash` compares SHA-256 of what the cache
or the storage returned with the hash it looked up, before returning or caching it
(`fix: ctfe: issuance chains read back from cache/storage were not checked against their hash`, dc18da9). On a tree
without the check this is `false`, this theorem and the two below stop compiling, and the harness shows the served
wrong rows. -/
theorem hash_check_present : Gen.getByHashVerifiesHash = true := rfl

/-- **fault_is_error** (the property: "a storage or cache failure, an unknown hash or a corrupted stored chain produces an
error response, never altered, truncated or empty chain data"). If the extra data is one of the two hash layouts with a
non-empty hash and the lookup fails (storage or cache error, unknown hash) or hands back bytes that are not the chain
stored under that hash — they do not hash to it, or do not decode as a chain — the reader gets an error. `H` is the
hash function (SHA-256 in the code); rows that are the well-formed DER of another chain, of no chain, of a permuted or
shortened chain are all covered by `H der ≠ h`. -/
theorem fault_is_error (H : Bytes → Bytes) (s : State) (f : Faults) (extra : Bytes) (h : Bytes) (hne : h.length ≠ 0)
    (hlay : (∃ pre, decPCEH extra = some (pre, h)) ∨ (decPCEH extra = none ∧ decCCH extra = some h))
    (hbad : (∃ e, getByHashRaw s f h = .error e) ∨
            (∃ der, getByHashRaw s f h = .ok der ∧ (H der ≠ h ∨ parseDerChain der = none))) :
    ∃ e, fixLogLeaf (getByHash Gen.getByHashVerifiesHash H s f) extra = .error e := by
  apply fault_is_error_of_flag H s f extra h hne hlay
  rcases hbad with he | ⟨der, hg, hh | hp⟩
  · exact Or.inl he
  · exact Or.inr ⟨der, hg, Or.inr ⟨hash_check_present, hh⟩⟩
  · exact Or.inr ⟨der, hg, Or.inl hp⟩

/-- … and *never altered data*: a successful answer for a hash layout is the exact
encoding of a chain whose DER form hashes to the embedded hash. -/
theorem served_chain_hashes_to_key
    (H : Bytes → Bytes) (s : State) (f : Faults) (h : Bytes) (cs : List Bytes) (hne : h.length ≠ 0)
    (hi : inflate (getByHash Gen.getByHashVerifiesHash H s f) h = .ok cs) :
    ∃ der, H der = h ∧ parseDerChain der = some cs := by
  rcases inflate_ok _ h cs hi with ⟨h0, _⟩ | ⟨der, hg, hp⟩
  · exact absurd h0 hne
  · rw [hash_check_present] at hg
    exact ⟨der, verified_sound H s f h der hg, hp⟩

/-- Without the check the answer depends on cache state once a row is damaged: same store, same request, cached good
copy ⇒ the right chain, no cached copy ⇒ whatever the row now says (here: the empty chain `30 00`, served as success). -/
example :
    let ix := (buildIndirect exH false exCert exChain).getD []
    let s0 := run State.init [.add (exH []) (derChain exChain), .cacheSet (exH []) (derChain exChain), .tamper (exH []) (derChain [])]
    fixLogLeaf (getByHash false exH s0 {}) ix = .ok ((buildDirect false exCert exChain).getD []) ∧
    fixLogLeaf (getByHash false exH (step s0 .expire) {}) ix = .ok [0, 0, 0] := by decide

/-- … and never altered, truncated or empty chain data: whatever `get` does, a successful answer is either the
stored bytes unchanged (they were a full-chain layout) or the exact encoding of the chain decoded from what `get`
returned for the embedded hash (or of the empty chain for an empty hash field). -/
theorem fix_ok_cases (get : Bytes → Except Err Bytes) (extra x : Bytes) (h : fixLogLeaf get extra = .ok x) :
    (x = extra ∧ decPCEH extra = none ∧ decCCH extra = none ∧ (decPCE extra ≠ none ∨ decCC extra ≠ none)) ∨
    (∃ pre hash cs, decPCEH extra = some (pre, hash) ∧ inflate get hash = .ok cs ∧ encPCE pre cs = some x) ∨
    (∃ hash cs, decPCEH extra = none ∧ decCCH extra = some hash ∧ inflate get hash = .ok cs ∧ encCC cs = some x) := by
  unfold fixLogLeaf at h
  cases hp : decPCEH extra with
  | some p =>
    obtain ⟨pre, hash⟩ := p
    simp only [hp] at h
    cases hi : inflate get hash with
    | error e => simp [hi] at h
    | ok cs =>
      simp only [hi] at h
      cases he : encPCE pre cs with
      | none => simp [he] at h
      | some y =>
        simp only [he, Except.ok.injEq] at h
        subst h
        exact Or.inr (Or.inl ⟨pre, hash, cs, rfl, hi, he⟩)
  | none =>
    simp only [hp] at h
    cases hc : decCCH extra with
    | some hash =>
      simp only [hc] at h
      cases hi : inflate get hash with
      | error e => simp [hi] at h
      | ok cs =>
        simp only [hi] at h
        cases he : encCC cs with
        | none => simp [he] at h
        | some y =>
          simp only [he, Except.ok.injEq] at h
          subst h
          exact Or.inr (Or.inr ⟨hash, cs, rfl, rfl, hi, he⟩)
    | none =>
      simp only [hc] at h
      cases h1 : decPCE extra with
      | some q =>
        simp only [h1, Except.ok.injEq] at h
        exact Or.inl ⟨h.symm, rfl, rfl, Or.inl (by simp)⟩
      | none =>
        simp only [h1] at h
        cases h2 : decCC extra with
        | some q =>
          simp only [h2, Except.ok.injEq] at h
          exact Or.inl ⟨h.symm, rfl, rfl, Or.inr (by simp)⟩
        | none => simp [h2] at h

/-! ## the two modes accept the same submissions -/

/-- what the in-backend mode accepts, the external-storage mode accepts too (for a hash the layouts can carry) — with or
without the encoding check -/
theorem direct_accepts_implies_indirect (check : Bool) (H : Bytes → Bytes) (isPrecert : Bool) (cert : Bytes) (chain : List Bytes) (dx : Bytes)
    (hH : (H (derChain chain)).length ≤ 256)
    (hd : buildDirect isPrecert cert chain = some dx) : (buildIndirectC check H isPrecert cert chain).isSome = true := by
  unfold buildIndirectC
  simp only [hd, Option.isNone_some, Bool.and_false, Bool.false_eq_true, if_false]
  unfold buildIndirect
  have hh : ∀ b : Nat × Nat, b = (0, 256) → (encVec b (H (derChain chain))).isSome = true := by
    intro b hb; subst hb; unfold encVec; simp [hH]
  cases isPrecert with
  | false => simp only [Bool.false_eq_true, if_false]; unfold encCCH; exact hh _ cchHashB_eq
  | true =>
    simp only [if_true]
    unfold buildDirect at hd
    simp only [if_true] at hd
    obtain ⟨a, _, _, ha, _, _, _⟩ := encPCE_some hd
    unfold encPCEH
    rw [ha]
    have := hh _ pcehHashB_eq
    cases hb : encVec pcehHashB (H (derChain chain)) with
    | none => simp [hb] at this
    | some b => rfl

/-- **encoding_check_present** (regenerated from services.go on every run): the external-storage `BuildLogLeaf` refuses,
before anything is stored, a chain whose in-backend extra data cannot be TLS-encoded
(`fix: external issuance-chain storage refuses a chain whose extra data cannot be TLS-encoded`, 0449619). On a tree
without the check this is `false`, this theorem and the next stop compiling, and `TestVerifC14Oversized` shows the
poisoned range (in-backend mode 500, external-storage mode 200, the sequenced entry unreadable for good). -/
theorem encoding_check_present : Gen.indirectBuildChecksEncoding = true := rfl

/-- the flag-generic form -/
theorem same_submissions_accepted_of_flag (hflag : Gen.indirectBuildChecksEncoding = true)
    (H : Bytes → Bytes) (isPrecert : Bool) (cert : Bytes) (chain : List Bytes)
    (hH : (H (derChain chain)).length ≤ 256) :
    (buildIndirectC Gen.indirectBuildChecksEncoding H isPrecert cert chain).isSome = true ↔ (buildDirect isPrecert cert chain).isSome = true := by
  constructor
  · intro h
    rw [hflag] at h
    unfold buildIndirectC at h
    cases hd : buildDirect isPrecert cert chain with
    | some dx => rfl
    | none => simp [hd] at h
  · intro h
    cases hd : buildDirect isPrecert cert chain with
    | none => simp [hd] at h
    | some dx => exact direct_accepts_implies_indirect _ H isPrecert cert chain dx hH hd

/-- **same_submissions_accepted** ("for the same submission"): the two modes accept exactly the same submissions — in
particular the external-storage mode never sequences an entry whose extra data it could not serve later. -/
theorem same_submissions_accepted (H : Bytes → Bytes) (isPrecert : Bool) (cert : Bytes) (chain : List Bytes)
    (hH : (H (derChain chain)).length ≤ 256) :
    (buildIndirectC Gen.indirectBuildChecksEncoding H isPrecert cert chain).isSome = true ↔ (buildDirect isPrecert cert chain).isSome = true :=
  same_submissions_accepted_of_flag encoding_check_present H isPrecert cert chain hH

/-- without the check (the tree before 0449619) a chain with an unencodable certificate was accepted by one mode only -/
example : (buildIndirectC false exH false exCert [[]]).isSome = true ∧ buildDirect false exCert [[]] = none ∧
    buildIndirectC true exH false exCert [[]] = none := by decide

/-! ## a failure to restore the chain is a server error at both readers -/

/-- regenerated from handlers.go: `rpcGetLeavesByRange` visits every leaf of the reply, answers a `FixLogLeaf` failure on
any of them with this status and returns the reply whole otherwise (the unit fails to extract for any other shape —
seeded change C14-3); `rpcGetEntryAndProof` likewise. Together with `range_all_or_error` / `fault_is_error`. -/
theorem fix_error_is_server_error : 500 ≤ Gen.rangeFixErrorStatus ∧ 500 ≤ Gen.entryFixErrorStatus := by decide

/-! ## ranges: all or nothing -/

/-- **range_all_or_error.** get-entries over a range (`rpcGetLeavesByRange`): a successful answer has one fixed
entry for every leaf of the backend's reply, each the result of `fixLogLeaf` on that leaf (so, by `fix_ok_cases`,
never a raw hash form whose lookup failed); a failure on any leaf — first or not — fails the request. -/
theorem range_all_or_error (results : List (Except Err Bytes)) (es xs : List Bytes) (h : fixRange results es = .ok xs) :
    xs.length = es.length ∧ ∀ i (hi : i < es.length), ∃ get x, fixLogLeaf get es[i] = .ok x ∧ xs[i]? = some x := by
  induction es generalizing results xs with
  | nil =>
    simp only [fixRange, Except.ok.injEq] at h
    subst h
    exact ⟨rfl, fun i hi => absurd hi (by simp)⟩
  | cons e es ih =>
    simp only [fixRange] at h
    generalize hg : (if needsLookup e = true then
        (match results with
          | r :: rs => ((fun (_ : Bytes) => r), rs)
          | [] => ((fun (_ : Bytes) => Except.error Err.unknownHash), []))
      else ((fun (_ : Bytes) => Except.error Err.unknownHash), results)) = gr at h
    obtain ⟨get, rest⟩ := gr
    simp only at h
    cases hf : fixLogLeaf get e with
    | error err => simp [hf] at h
    | ok x =>
      simp only [hf] at h
      cases hr : fixRange rest es with
      | error err => simp [hr] at h
      | ok ys =>
        simp only [hr, Except.ok.injEq] at h
        subst h
        obtain ⟨hl, hall⟩ := ih rest ys hr
        refine ⟨by simp [hl], ?_⟩
        intro i hi
        cases i with
        | zero => exact ⟨get, x, hf, rfl⟩
        | succ j =>
          obtain ⟨g, y, hy1, hy2⟩ := hall j (by simpa using hi)
          exact ⟨g, y, by simpa using hy1, by simpa using hy2⟩

/-- a storage fault on the *second* leaf of a range fails the request (it is not cut short, nothing raw is served) -/
example : (match fixRange [.ok (derChain exChain), .error .storage]
    [(buildIndirect exH false exCert exChain).getD [], (buildIndirect exH true exCert exChain).getD []] with
    | .error .storage => true
    | _ => false) = true := by decide
example : (fixRange [.ok (derChain exChain), .ok (derChain exChain)]
    [(buildIndirect exH false exCert exChain).getD [], (buildIndirect exH true exCert exChain).getD []]).toOption.map List.length = some 2 := by decide

/-! ## Non-vacuity: concrete instances of the hypotheses -/

example : buildDirect false exCert exChain = some [0, 0, 9, 0, 0, 2, 4, 5, 0, 0, 1, 6] := by decide
example : buildDirect true exCert [] = some [0, 0, 3, 1, 2, 3, 0, 0, 0] := by decide
example : derChain exChain = [0x30, 11, 0x30, 4, 4, 2, 4, 5, 0x30, 3, 4, 1, 6] := by decide
example : derChain [] = [0x30, 0] := by decide
/-- the hypotheses of `fix_inverts_build` hold for a concrete precert submission with two intermediates … -/
example : (exH (derChain exChain)).length ≠ 0 ∧ parseDerChain (derChain exChain) = some exChain ∧
    (buildIndirect exH true exCert exChain).isSome ∧ (buildDirect true exCert exChain).isSome := by decide
/-- … and for a leaf-only certificate entry (empty chain, stored as `30 00`) -/
example : parseDerChain (derChain []) = some [] ∧ (buildIndirect exH false exCert []).isSome ∧
    buildDirect false exCert [] = some [0, 0, 0] := by decide
example : fixLogLeaf (fun _ => .ok (derChain exChain)) ((buildIndirect exH true exCert exChain).getD []) =
    .ok ((buildDirect true exCert exChain).getD []) := by decide
/-- an error from the lookup is an error for the reader; so are an unknown hash and a corrupted chain -/
example : fixLogLeaf (fun _ => .error .storage) ((buildIndirect exH false exCert exChain).getD []) = .error .storage := by decide
example : fixLogLeaf (getByHash false exH State.init {}) ((buildIndirect exH false exCert exChain).getD []) = .error .unknownHash := by decide
example : fixLogLeaf (fun _ => .ok (derChain exChain ++ [0])) ((buildIndirect exH false exCert exChain).getD []) = .error .corruptChain := by decide
/-- every operation occurs in a history the invariant theorem covers; the cached copy is served without the store -/
example : getByHashRaw (run State.init [.add [9] [1], .cacheSet [9] [1], .add [9] [2], .evict [8], .expire, .cacheSet [9] [1],
      .cacheSet [9] [3], .delete [9], .tamper [7] [5]])
    { storeFind := true } [9] = .ok [1] := by decide
/-- a submission refused by the storage; a cache hit that (in an honest history) stands for a stored chain -/
example : (match addChain State.init { storeAdd := true } [9] [1] with | .error .storage => true | _ => false) = true := by decide
/-- with the content-address check a wrong row is an error (`hashMismatch`), without it it is served -/
example : fixLogLeaf (getByHash true exH (run State.init [.tamper (exH []) (derChain []), .tamper [1] [2]]) {})
    ((buildIndirect exH false exCert exChain).getD []) = .ok [0, 0, 0] := by decide
/-- a string that is none of the layouts is refused -/
example : fixLogLeaf (fun _ => .error .storage) [0] = .error .unknownLayout := by decide
/-- `0000` is a CertificateChainHash with an empty hash: re-inflated to the empty CertificateChain without a lookup -/
example : fixLogLeaf (fun _ => .error .storage) [0, 0] = .ok [0, 0, 0] := by decide

end C14
