import CTV.Model.ChainStore
import CTV.Lemmas.ChainStore
import CTV.Lemmas.ChainDer
/-!
# C14 — Storing issuance chains outside the backend is invisible to readers

Theorems over `CTV.Model.ChainStore`. The length bounds of the five TLS vectors are the regenerated
`tls:"minlen,maxlen"` tags of types.go (`Gen.layout…` → `certB`, `pcehHashB`, `cchHashB`, `pceChainB`, `ccEntriesB`),
the order in which layouts are tried is compared with the regenerated `Gen.fixOrder`.
`H` (SHA-256 in the code) is an arbitrary function; no property of it is used except that it yields a hash the
layouts can carry (`1 ≤ |H x| ≤ 256`) — collisions are a matter of the *store* contract, which appears as the
hypothesis "the store returns what was stored under that hash".
-/
set_option linter.unusedVariables false

namespace C14
open CTV CTV.Model.ChainStore

/-- the model tries the layouts in the order the code does (regenerated from FixLogLeaf) -/
theorem fix_order_is_code_order : modelFixOrder = Gen.fixOrder := by decide

/-- the field order of the four structs is the one the model's encoders use (regenerated from types.go) -/
theorem field_order_is_code_order :
    Gen.layoutPrecertChainEntryHash.map (·.1) = ["PreCertificate", "IssuanceChainHash"] ∧
    Gen.layoutCertificateChainHash.map (·.1) = ["IssuanceChainHash"] ∧
    Gen.layoutPrecertChainEntry.map (·.1) = ["PreCertificate", "CertificateChain"] ∧
    Gen.layoutCertificateChain.map (·.1) = ["Entries"] ∧
    Gen.layoutASN1Cert.map (·.1) = ["Data"] := by decide

/-! ## layouts_disjoint -/

/-- **layouts_disjoint.** Each of the four stored forms is recognised as itself by `FixLogLeaf`'s cascade:
it parses (completely) as its own layout and as none of the layouts tried before it — for every content.
(DESIGN.md Appendix F; here over the regenerated bounds.) -/
theorem layouts_disjoint :
    -- PrecertChainEntryHash is tried first
    (∀ pre hash e, encPCEH pre hash = some e → decPCEH e = some (pre, hash)) ∧
    -- CertificateChainHash: not a PrecertChainEntryHash, is a CertificateChainHash
    (∀ hash e, encCCH hash = some e → decPCEH e = none ∧ decCCH e = some hash) ∧
    -- PrecertChainEntry: neither hash layout, is a PrecertChainEntry
    (∀ pre cs e, encPCE pre cs = some e → decPCEH e = none ∧ decCCH e = none ∧ decPCE e = some (pre, cs)) ∧
    -- CertificateChain: neither hash layout (it may or may not read as a PrecertChainEntry: both are passed through)
    (∀ cs e, encCC cs = some e → decPCEH e = none ∧ decCCH e = none ∧ decCC e = some cs) :=
  ⟨decPCEH_encPCEH,
   fun hash e h => ⟨decPCEH_encCCH hash e h, decCCH_encCCH hash e h⟩,
   fun pre cs e h => ⟨decPCEH_encPCE pre cs e h, decCCH_encPCE pre cs e h, decPCE_encPCE pre cs e h⟩,
   fun cs e h => ⟨decPCEH_encCC cs e h, decCCH_encCC cs e h, decCC_encCC cs e h⟩⟩

/-! ## legacy_unchanged -/

/-- **legacy_unchanged.** An entry stored with its full chain (either entry type, any chain) is served unchanged,
whatever the store and the cache contain or answer — `get` is arbitrary, it is never consulted. -/
theorem legacy_unchanged (get : Bytes → Except Err Bytes) (isPrecert : Bool) (cert : Bytes) (chain : List Bytes) (e : Bytes)
    (h : buildDirect isPrecert cert chain = some e) : fixLogLeaf get e = .ok e := by
  unfold buildDirect at h
  unfold fixLogLeaf
  cases isPrecert with
  | true =>
    simp only [if_true] at h
    rw [decPCEH_encPCE cert chain e h, decCCH_encPCE cert chain e h, decPCE_encPCE cert chain e h]
  | false =>
    simp only [Bool.false_eq_true, if_false] at h
    rw [decPCEH_encCC chain e h, decCCH_encCC chain e h]
    simp only []
    cases decPCE e with
    | some _ => rfl
    | none => simp only []; rw [decCC_encCC chain e h]

/-! ## fix_inverts_build -/

/-- **fix_inverts_build.** For every certificate, every chain (including the empty one of a leaf-only path) and both
entry types: re-inflating the leaf built in external-storage mode gives byte for byte the extra data of the
in-backend mode, whenever the lookup of the embedded hash returns what was stored under it
(`get (H der) = ok der`) and the stored DER form decodes to the chain it encodes (`hder`, proved below as
`der_round_trip` for the sizes that occur). -/
theorem fix_inverts_build (H : Bytes → Bytes) (get : Bytes → Except Err Bytes) (isPrecert : Bool) (cert : Bytes) (chain : List Bytes)
    (ix dx : Bytes)
    (hH : (H (derChain chain)).length ≠ 0)
    (hget : get (H (derChain chain)) = .ok (derChain chain))
    (hder : parseDerChain (derChain chain) = some chain)
    (hi : buildIndirect H isPrecert cert chain = some ix)
    (hd : buildDirect isPrecert cert chain = some dx) :
    fixLogLeaf get ix = .ok dx := by
  unfold buildIndirect at hi
  unfold buildDirect at hd
  have hinf : inflate get (H (derChain chain)) = .ok chain := by
    unfold inflate
    simp only [hH, if_false, hget, hder]
  unfold fixLogLeaf
  cases isPrecert with
  | true =>
    simp only [if_true] at hi hd
    rw [decPCEH_encPCEH cert _ ix hi]
    simp only [hinf, hd]
  | false =>
    simp only [Bool.false_eq_true, if_false] at hi hd
    rw [decPCEH_encCCH _ ix hi, decCCH_encCCH _ ix hi]
    simp only [hinf, hd]

/-- **DER round trip of `SEQUENCE OF SEQUENCE { OCTET STRING }`**: the stored form of every chain decodes to that
chain (Go's `encoding/asn1` length rules: definite, minimal, at most 4 length bytes, below 2^31). -/
theorem der_round_trip (chain : List Bytes) (h : (derChain chain).length < 2147483648) :
    parseDerChain (derChain chain) = some chain :=
  CTV.Model.ChainStore.der_round_trip chain h

/-- `fix_inverts_build` with the DER hypothesis discharged. -/
theorem fix_inverts_build_der (H : Bytes → Bytes) (get : Bytes → Except Err Bytes) (isPrecert : Bool) (cert : Bytes) (chain : List Bytes)
    (ix dx : Bytes)
    (hH : (H (derChain chain)).length ≠ 0)
    (hget : get (H (derChain chain)) = .ok (derChain chain))
    (hsz : (derChain chain).length < 2147483648)
    (hi : buildIndirect H isPrecert cert chain = some ix)
    (hd : buildDirect isPrecert cert chain = some dx) :
    fixLogLeaf get ix = .ok dx :=
  fix_inverts_build H get isPrecert cert chain ix dx hH hget (der_round_trip chain hsz) hi hd

/-! ## the cache never changes what is served -/

/-- **cache ⊆ store is an invariant** of every operation (add, the detached cache fill, eviction, expiry), from the
empty state, for every interleaving (`ops` is an arbitrary list). -/
theorem cache_sub_store (ops : List Op) : Inv (run State.init ops) :=
  inv_run _ _ inv_init

/-- Hence `getByHash` is the store's lookup — for every cache kind, size, TTL, eviction pattern and interleaving. -/
theorem getByHash_is_store (ops : List Op) (h : Bytes) :
    getByHash (run State.init ops) {} h =
      match (run State.init ops).store.lookup h with
      | some v => .ok v
      | none => .error .unknownHash :=
  getByHash_of_inv _ (cache_sub_store ops) h

/-- a chain, once stored, is found under its hash after any further history (de-duplication keeps the first copy) -/
theorem stored_chain_stays (ops1 ops2 : List Op) (h v : Bytes)
    (hs : (run State.init ops1).store.lookup h = some v) :
    getByHash (run (run State.init ops1) ops2) {} h = .ok v := by
  have hi : Inv (run (run State.init ops1) ops2) := inv_run _ _ (cache_sub_store ops1)
  rw [getByHash_of_inv _ hi h, store_stable_run _ ops2 h v hs]

/-- the two combined: what a reader gets for a submission made in external-storage mode at any point of any history
is the in-backend extra data. -/
theorem served_equals_direct (H : Bytes → Bytes) (ops1 ops2 : List Op) (isPrecert : Bool) (cert : Bytes) (chain : List Bytes)
    (ix dx : Bytes)
    (hH : (H (derChain chain)).length ≠ 0)
    (hfresh : (run State.init ops1).store.lookup (H (derChain chain)) = none ∨
              (run State.init ops1).store.lookup (H (derChain chain)) = some (derChain chain))
    (hder : parseDerChain (derChain chain) = some chain)
    (hi : buildIndirect H isPrecert cert chain = some ix)
    (hd : buildDirect isPrecert cert chain = some dx) :
    fixLogLeaf (getByHash (run (run State.init (ops1 ++ [.add (H (derChain chain)) (derChain chain)])) ops2) {}) ix = .ok dx := by
  apply fix_inverts_build H _ isPrecert cert chain ix dx hH _ hder hi hd
  apply stored_chain_stays
  simp only [run, List.foldl_append, List.foldl_cons, List.foldl_nil]
  have : List.foldl step State.init ops1 = run State.init ops1 := rfl
  rw [this]
  rcases hfresh with hn | hs
  · simp only [step, hn, Option.isSome_none, Bool.false_eq_true, if_false]
    rw [lookup_cons_eq]; simp
  · simp only [step, hs, Option.isSome_some, if_true]

/-! ## fault_is_error -/

/-- faults and absences in `getByHash` are errors -/
theorem getByHash_faults (s : State) (h : Bytes) :
    (∀ f : Faults, f.cacheGet = true → ∃ e, getByHash s f h = .error e) ∧
    (∀ f : Faults, f.cacheGet = false → s.cache.lookup h = none → f.storeFind = true → ∃ e, getByHash s f h = .error e) ∧
    (∀ f : Faults, f.cacheGet = false → s.cache.lookup h = none → f.storeFind = false → s.store.lookup h = none →
        getByHash s f h = .error .unknownHash) := by
  refine ⟨?_, ?_, ?_⟩
  · intro f hf; exact ⟨.cache, by unfold getByHash; simp [hf]⟩
  · intro f hf hc hs; exact ⟨.storage, by unfold getByHash; simp [hf, hc, hs]⟩
  · intro f hf hc hs hst; unfold getByHash; simp [hf, hc, hs, hst]

/-- **fault_is_error.** If the extra data is one of the two hash layouts with a non-empty hash and the lookup fails
(storage or cache error, unknown hash) or returns bytes that do not decode as a chain, the reader gets an error. -/
theorem fault_is_error (get : Bytes → Except Err Bytes) (extra : Bytes) (h : Bytes) (hne : h.length ≠ 0)
    (hlay : (∃ pre, decPCEH extra = some (pre, h)) ∨ (decPCEH extra = none ∧ decCCH extra = some h))
    (hbad : (∃ e, get h = .error e) ∨ (∃ der, get h = .ok der ∧ parseDerChain der = none)) :
    ∃ e, fixLogLeaf get extra = .error e := by
  have hinf : ∃ e, inflate get h = .error e := by
    unfold inflate
    simp only [hne, if_false]
    rcases hbad with ⟨e, he⟩ | ⟨der, hg, hp⟩
    · exact ⟨e, by rw [he]⟩
    · exact ⟨.corruptChain, by rw [hg]; simp only [hp]⟩
  obtain ⟨e, he⟩ := hinf
  unfold fixLogLeaf
  rcases hlay with ⟨pre, hp⟩ | ⟨hp, hc⟩
  · rw [hp]; simp only [he]; exact ⟨e, rfl⟩
  · rw [hp, hc]; simp only [he]; exact ⟨e, rfl⟩

/-- … and never altered, truncated or empty chain data: whatever `get` does, a successful answer is either the
stored bytes unchanged (they were a full-chain layout) or the exact encoding of the chain decoded from what `get`
returned for the embedded hash (or of the empty chain for an empty hash field). -/
theorem fix_ok_cases (get : Bytes → Except Err Bytes) (extra x : Bytes) (h : fixLogLeaf get extra = .ok x) :
    (x = extra ∧ decPCEH extra = none ∧ decCCH extra = none ∧ (decPCE extra ≠ none ∨ decCC extra ≠ none)) ∨
    (∃ pre hash cs, decPCEH extra = some (pre, hash) ∧ inflate get hash = .ok cs ∧ encPCE pre cs = some x) ∨
    (∃ hash cs, decPCEH extra = none ∧ decCCH extra = some hash ∧ inflate get hash = .ok cs ∧ encCC cs = some x) := by
  unfold fixLogLeaf at h
  cases hp : decPCEH extra with
  | some p =>
    obtain ⟨pre, hash⟩ := p
    simp only [hp] at h
    cases hi : inflate get hash with
    | error e => simp [hi] at h
    | ok cs =>
      simp only [hi] at h
      cases he : encPCE pre cs with
      | none => simp [he] at h
      | some y =>
        simp only [he, Except.ok.injEq] at h
        subst h
        exact Or.inr (Or.inl ⟨pre, hash, cs, rfl, hi, he⟩)
  | none =>
    simp only [hp] at h
    cases hc : decCCH extra with
    | some hash =>
      simp only [hc] at h
      cases hi : inflate get hash with
      | error e => simp [hi] at h
      | ok cs =>
        simp only [hi] at h
        cases he : encCC cs with
        | none => simp [he] at h
        | some y =>
          simp only [he, Except.ok.injEq] at h
          subst h
          exact Or.inr (Or.inr ⟨hash, cs, rfl, rfl, hi, he⟩)
    | none =>
      simp only [hc] at h
      cases h1 : decPCE extra with
      | some q =>
        simp only [h1, Except.ok.injEq] at h
        exact Or.inl ⟨h.symm, rfl, rfl, Or.inl (by simp)⟩
      | none =>
        simp only [h1] at h
        cases h2 : decCC extra with
        | some q =>
          simp only [h2, Except.ok.injEq] at h
          exact Or.inl ⟨h.symm, rfl, rfl, Or.inr (by simp)⟩
        | none => simp [h2] at h

/-- `inflate` returns exactly the decoded chain of what `get` returned -/
theorem inflate_ok (get : Bytes → Except Err Bytes) (h : Bytes) (cs : List Bytes) (hi : inflate get h = .ok cs) :
    (h.length = 0 ∧ cs = []) ∨ (∃ der, get h = .ok der ∧ parseDerChain der = some cs) := by
  unfold inflate at hi
  by_cases h0 : h.length = 0
  · simp only [h0, if_true, Except.ok.injEq] at hi; exact Or.inl ⟨h0, hi.symm⟩
  · simp only [h0, if_false] at hi
    cases hg : get h with
    | error e => simp [hg] at hi
    | ok der =>
      simp only [hg] at hi
      cases hp : parseDerChain der with
      | none => simp [hp] at hi
      | some c => simp only [hp, Except.ok.injEq] at hi; subst hi; exact Or.inr ⟨der, rfl, hp⟩

def exH : Bytes → Bytes := fun _ => List.replicate 32 7
def exCert : Bytes := [1, 2, 3]
def exChain : List Bytes := [[4, 5], [6]]

/-! ## ranges: all or nothing -/

/-- **range_all_or_error.** get-entries over a range (`rpcGetLeavesByRange`): a successful answer has one fixed
entry for every leaf of the backend's reply, each the result of `fixLogLeaf` on that leaf (so, by `fix_ok_cases`,
never a raw hash form whose lookup failed); a failure on any leaf — first or not — fails the request. -/
theorem range_all_or_error (results : List (Except Err Bytes)) (es xs : List Bytes) (h : fixRange results es = .ok xs) :
    xs.length = es.length ∧ ∀ i (hi : i < es.length), ∃ get x, fixLogLeaf get es[i] = .ok x ∧ xs[i]? = some x := by
  induction es generalizing results xs with
  | nil =>
    simp only [fixRange, Except.ok.injEq] at h
    subst h
    exact ⟨rfl, fun i hi => absurd hi (by simp)⟩
  | cons e es ih =>
    simp only [fixRange] at h
    generalize hg : (if needsLookup e = true then
        (match results with
          | r :: rs => ((fun (_ : Bytes) => r), rs)
          | [] => ((fun (_ : Bytes) => Except.error Err.unknownHash), []))
      else ((fun (_ : Bytes) => Except.error Err.unknownHash), results)) = gr at h
    obtain ⟨get, rest⟩ := gr
    simp only at h
    cases hf : fixLogLeaf get e with
    | error err => simp [hf] at h
    | ok x =>
      simp only [hf] at h
      cases hr : fixRange rest es with
      | error err => simp [hr] at h
      | ok ys =>
        simp only [hr, Except.ok.injEq] at h
        subst h
        obtain ⟨hl, hall⟩ := ih rest ys hr
        refine ⟨by simp [hl], ?_⟩
        intro i hi
        cases i with
        | zero => exact ⟨get, x, hf, rfl⟩
        | succ j =>
          obtain ⟨g, y, hy1, hy2⟩ := hall j (by simpa using hi)
          exact ⟨g, y, by simpa using hy1, by simpa using hy2⟩

/-- a storage fault on the *second* leaf of a range fails the request (it is not cut short, nothing raw is served) -/
example : (match fixRange [.ok (derChain exChain), .error .storage]
    [(buildIndirect exH false exCert exChain).getD [], (buildIndirect exH true exCert exChain).getD []] with
    | .error .storage => true
    | _ => false) = true := by decide
example : (fixRange [.ok (derChain exChain), .ok (derChain exChain)]
    [(buildIndirect exH false exCert exChain).getD [], (buildIndirect exH true exCert exChain).getD []]).toOption.map List.length = some 2 := by decide

/-! ## Non-vacuity: concrete instances of the hypotheses -/

example : buildDirect false exCert exChain = some [0, 0, 9, 0, 0, 2, 4, 5, 0, 0, 1, 6] := by decide
example : buildDirect true exCert [] = some [0, 0, 3, 1, 2, 3, 0, 0, 0] := by decide
example : derChain exChain = [0x30, 11, 0x30, 4, 4, 2, 4, 5, 0x30, 3, 4, 1, 6] := by decide
example : derChain [] = [0x30, 0] := by decide
/-- the hypotheses of `fix_inverts_build` hold for a concrete precert submission with two intermediates … -/
example : (exH (derChain exChain)).length ≠ 0 ∧ parseDerChain (derChain exChain) = some exChain ∧
    (buildIndirect exH true exCert exChain).isSome ∧ (buildDirect true exCert exChain).isSome := by decide
/-- … and for a leaf-only certificate entry (empty chain, stored as `30 00`) -/
example : parseDerChain (derChain []) = some [] ∧ (buildIndirect exH false exCert []).isSome ∧
    buildDirect false exCert [] = some [0, 0, 0] := by decide
example : fixLogLeaf (fun _ => .ok (derChain exChain)) ((buildIndirect exH true exCert exChain).getD []) =
    .ok ((buildDirect true exCert exChain).getD []) := by decide
/-- an error from the lookup is an error for the reader; so are an unknown hash and a corrupted chain -/
example : fixLogLeaf (fun _ => .error .storage) ((buildIndirect exH false exCert exChain).getD []) = .error .storage := by decide
example : fixLogLeaf (getByHash State.init {}) ((buildIndirect exH false exCert exChain).getD []) = .error .unknownHash := by decide
example : fixLogLeaf (fun _ => .ok (derChain exChain ++ [0])) ((buildIndirect exH false exCert exChain).getD []) = .error .corruptChain := by decide
/-- every operation occurs in a history the invariant theorem covers; the cached copy is served without the store -/
example : getByHash (run State.init [.add [9] [1], .asyncCacheSet [9], .add [9] [2], .evict [8], .expire, .asyncCacheSet [9]])
    { storeFind := true } [9] = .ok [1] := by decide
/-- a string that is none of the layouts is refused -/
example : fixLogLeaf (fun _ => .error .storage) [0] = .error .unknownLayout := by decide
/-- `0000` is a CertificateChainHash with an empty hash: re-inflated to the empty CertificateChain without a lookup -/
example : fixLogLeaf (fun _ => .error .storage) [0, 0] = .ok [0, 0, 0] := by decide

end C14
