import CTV.Model.ChainStore
/-! # C14 (thin first version; theorems follow) -/
namespace C14
open CTV CTV.Model.ChainStore

/-- the model tries the layouts in the order the code does (regenerated from FixLogLeaf) -/
theorem fix_order_is_code_order : modelFixOrder = Gen.fixOrder := by decide

end C14
