import CTV.Model.Races
import CTV.Gen.RacesTie
/-!
# C17: the hand model of `safeSubmissionState` decides as the bodies regenerated from races.go do

`Gen.requestBody`, `Gen.groupCompleteBody` and `Gen.setResultBase` are `safeSubmissionState.request`, `groupComplete` and the
base-group block of `setResult`, translated statement by statement on every run as functions of the facts they test
(was the log requested before, is some group of the log still waiting, does the stored result carry an SCT, the base group's
need, the sum of the other groups' positive needs). The theorems say that `CTV.Model.Races.request`, `complete` and
`afterBase` — the definitions every C17 theorem is about — return and update exactly what those bodies do on the facts the
model computes. `history_facts`: what `RefreshRoots` and `Proxy.restartDistributor` do to earlier state (nothing survives),
which is why the distributor model is a function of the latest root answers and the latest log list only.
-/
set_option linter.unusedSimpArgs false
namespace CTV.Props.C17Tie
open CTV.Model.Races

/-- `request`: return value, the placeholder write, the cancel registration — and nothing else changes -/
theorem request_tie (c : Cfg) (s : Sub) (l : Log) :
    let b := Gen.requestBody (s.results l).isSome (awaited c { s with results := upd s.results l (some .empty) } l)
    (request c s l).2 = b.1 ∧
    (request c s l).1.results = (if b.2.1 then upd s.results l (some .empty) else s.results) ∧
    (request c s l).1.cancels = (if b.2.2 then upd s.cancels l true else s.cancels) ∧
    (request c s l).1.needs = s.needs := by
  -- shape-independent: decide the two facts, then both sides compute
  cases h : (s.results l).isSome <;>
    cases ha : awaited c { s with results := upd s.results l (some .empty) } l <;>
    simp [request, Gen.requestBody, h, ha]

example : Gen.requestBody false true = (true, true, true) ∧ Gen.requestBody false false = (false, true, false) ∧
    Gen.requestBody true true = (false, false, false) := by decide

/-- `groupComplete` (a group that is not a key of `groupNeeds` has need 0 in the model) -/
theorem groupComplete_tie (s : Sub) (g : Grp) (isKey : Bool) (h : isKey = false → s.needs g = 0) :
    complete s g = Gen.groupCompleteBody isKey (s.needs g) := by
  cases isKey
  · have h0 := h rfl
    simp [complete, Gen.groupCompleteBody, h0]
  · by_cases hn : s.needs g ≤ 0 <;> simp [complete, Gen.groupCompleteBody, hn]

example : Gen.groupCompleteBody true 1 = false ∧ Gen.groupCompleteBody true 0 = true ∧ Gen.groupCompleteBody false 0 = true := by decide

/-- the base-group block of `setResult`: whether this block stores the SCT and what the base group's need becomes
(for needs inside the int range, where Go's `--` does not wrap) -/
theorem setResultBase_tie (c : Cfg) (s1 : Sub) (l : Log) (r : Res) (hb : baseName ∈ groupsOf c l)
    (hr : s1.results l = some r) (hrange : -(2 ^ 62 : Int) ≤ s1.needs baseName ∧ s1.needs baseName ≤ 2 ^ 62) :
    let b := Gen.setResultBase (decide (r = .sct)) (s1.needs baseName) (sumOther c s1)
    ∃ s2, afterBase c s1 l = some s2 ∧ s2.needs baseName = b.2 ∧
      s2.results l = (if b.1 then some .sct else s1.results l) ∧
      (∀ g, g ≠ baseName → s2.needs g = s1.needs g) ∧ (∀ l', l' ≠ l → s2.results l' = s1.results l') ∧ s2.cancels = s1.cancels := by
  have w : I64.sub (s1.needs baseName) 1 = s1.needs baseName - 1 := by
    unfold I64.sub
    exact I64.wrap64_id' _ (by omega) (by omega)
  have hne : ∀ (g : Grp), ¬g = baseName → g = baseName → s1.needs baseName - 1 = s1.needs g := fun g a b => absurd b a
  have hnl : ∀ (l' : Log), ¬l' = l → l' = l → some Res.sct = s1.results l' := fun l' a b => absurd b a
  by_cases hs : r = .sct
  · subst hs
    simp [afterBase, Gen.setResultBase, hb, hr, w, upd]
    first | exact hne | skip
  · by_cases h1 : s1.needs baseName > 0
    · have h1' : ¬ s1.needs baseName ≤ 0 := by omega
      by_cases h2 : s1.needs baseName > sumOther c s1
      · have h2' : ¬ s1.needs baseName ≤ sumOther c s1 := by omega
        simp [afterBase, Gen.setResultBase, hb, hr, w, hs, h1, h1', h2, h2', upd]
        first | exact ⟨hne, hnl⟩ | skip
      · have h2' : s1.needs baseName ≤ sumOther c s1 := by omega
        simp [afterBase, Gen.setResultBase, hb, hr, w, hs, h1, h1', h2, h2']
    · have h1' : s1.needs baseName ≤ 0 := by omega
      simp [afterBase, Gen.setResultBase, hb, hr, w, hs, h1, h1']

example : Gen.setResultBase false 2 1 = (true, 1) ∧ Gen.setResultBase false 1 1 = (false, 1) ∧
    Gen.setResultBase true 0 0 = (false, -1) ∧ Gen.setResultBase false 0 0 = (false, 0) := by decide

/-- `RefreshRoots` replaces `logRoots` by this round's answers only; `restartDistributor` always installs a distributor built
from the new log list -/
theorem history_facts : Gen.refreshReplacesRoots = true ∧ Gen.restartAlwaysRebuilds = true := by decide

/-- the root pools are read (`Included`, `CertPool`, `RawCertificates`, `Subjects`) by submissions that hold only the
distributor's READ lock — the lock table counts those as reads of `rootPool` / `logRoots` — so the read-only methods of
`x509util.PEMCertPool` must not write the pool: none of them assigns a field or adds a certificate -/
theorem shared_pool_getters_pure : Gen.pemCertPoolGettersPure = true := by decide

end CTV.Props.C17Tie
