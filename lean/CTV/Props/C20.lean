import CTV.Gen.Scan
import CTV.Gen.Migrate
import CTV.Lemmas.Migrate
/-!
# C20 — Migration mirrors the source entry for entry and refuses inconsistent sources

The model (`CTV.Model.Migrate`) is one `fetchTail` pass: C16's fetcher state machine + the `batches` channel + the
submitters + a reference pre-ordered destination, one `POp` per atomic action, so `ops : List POp` below ranges over every
interleaving of fetchers and submitters, every short read, source error, quota reply, fatal error and cancellation
(mastership loss and restarts are cancellations followed by a new pass). Passes compose through the destination content
(`pass_extends_prefix`, `passes_faithful`).

The start index of a pass, the early exit, the gate, the per-leaf index arithmetic and the gRPC-code switch of the retry
closure are **regenerated** from controller.go / trillian.go on every run (`Gen.*`) and proved equal to the model's.
The model is tied to the real `Controller` by trace validation under virtual time on every run.
-/
set_option linter.unusedSimpArgs false
set_option linter.unusedVariables false
open CTV.Model.Scan CTV.Model.Migrate

namespace C20

/-- configuration used in the loop example -/
def exCfg0 : Cfg := { src := fun i => 100 + i, idf := fun i p => 1000 * i + p, retryQuota := true }

/-! ## regenerated arithmetic and decisions = the model's -/

/-- `fetchTail` starts at `max(destination tree size, begin)` in continuous mode and for a negative configured start,
and at `max(configured start, begin)` otherwise. -/
theorem fetchTail_start_arith (cont : Bool) (cfgStart : Int) (treeSize begin : Nat)
    (h1 : cfgStart < 2^63) (h2 : (treeSize : Int) < 2^63) (h3 : (begin : Int) < 2^63) :
    let s0 : Int := if cont then treeSize else if Gen.fetchTailNegStart cfgStart then treeSize else cfgStart
    (if Gen.fetchTailBeginWins begin s0 then (begin : Int) else s0) = (passStart cont cfgStart treeSize begin : Nat) := by
  have w : I64.wrap64 (begin : Int) = begin := I64.wrap64_id' _ (by omega) h3
  simp only [Gen.fetchTailBeginWins, Gen.fetchTailNegStart, passStart, w]
  cases cont with
  | true => simp only [if_true]; split <;> rename_i h <;> simp only [decide_eq_true_eq] at h <;> omega
  | false =>
    simp only [Bool.false_eq_true, if_false]
    by_cases hn : cfgStart < 0
    · simp only [hn, decide_true, if_true]; split <;> rename_i h <;> simp only [decide_eq_true_eq] at h <;> omega
    · simp only [hn, decide_false, Bool.false_eq_true, if_false]
      split <;> rename_i h <;> simp only [decide_eq_true_eq] at h <;> omega

/-- The same for the whole start computation **in the order the code performs it** (`Gen.fetchTailRange` is the statement
sequence between `fo := c.opts.FetcherOptions` and the log line, translated in order): the pass starts at `passStart`, in
continuous mode the configured end is ignored, and the inner fetcher is never continuous. Moving the `begin` clamp above
the mode branch (so that continuous mode forgets the position) makes this false. -/
theorem fetchTail_range_arith (cont : Bool) (cfgStart cfgEnd : Int) (treeSize begin : Nat)
    (h1 : cfgStart < 2^63) (h2 : (treeSize : Int) < 2^63) (h3 : (begin : Int) < 2^63) :
    Gen.fetchTailRange cfgStart cfgEnd cont treeSize begin
      = (((passStart cont cfgStart treeSize begin : Nat) : Int), (if cont then 0 else cfgEnd), false) := by
  have w : I64.wrap64 (begin : Int) = begin := I64.wrap64_id' _ (by omega) h3
  have w2 : I64.wrap64 (treeSize : Int) = treeSize := I64.wrap64_id' _ (by omega) h2
  simp only [Gen.fetchTailRange, passStart, w, w2]
  cases cont with
  | true =>
    simp only [if_true]
    split <;> rename_i h <;> simp only [decide_eq_true_eq] at h <;> simp <;> omega
  | false =>
    simp only [Bool.false_eq_true, if_false]
    by_cases hn : cfgStart < 0
    · simp only [hn, decide_true, if_true]
      split <;> rename_i h <;> simp only [decide_eq_true_eq] at h <;> simp <;> omega
    · simp only [hn, decide_false, Bool.false_eq_true, if_false]
      split <;> rename_i h <;> simp only [decide_eq_true_eq] at h <;> simp <;> omega

/-- the early exit and the empty-root shortcut of the code are the model's `gate` tests -/
theorem gate_tests (sth begin treeSize : Nat) :
    Gen.fetchTailUpToDate sth begin = decide (sth ≤ begin) ∧ Gen.gateSkipsEmpty treeSize = decide (treeSize = 0) := by
  constructor
  · simp only [Gen.fetchTailUpToDate]; congr 1; apply propext; omega
  · simp only [Gen.gateSkipsEmpty]; congr 1; apply propext; omega

/-- every leaf of a batch is built for index `start + j`, and the batch covers `[start, start + n)` -/
theorem leaf_index_arith (start j n : Int) (h0 : 0 ≤ start) (hj : 0 ≤ j) (hn : 0 ≤ n) (h : start + j < 2^63) (h' : start + n < 2^63) :
    Gen.leafIndex start j = start + j ∧ Gen.submitEnd start n = start + n := by
  have w : ∀ x : Int, -(2^63) ≤ x → x < 2^63 → I64.wrap64 x = x := I64.wrap64_id'
  constructor
  · simp only [Gen.leafIndex, I64.add]; rw [w j (by omega) (by omega), w _ (by omega) (by omega)]
  · simp only [Gen.submitEnd, I64.add]; rw [w n (by omega) (by omega), w _ (by omega) (by omega)]

/-- the retry closure asks for another attempt exactly on `ResourceExhausted` (code 8): not on success, not on any other code -/
theorem switch_asks_retry_only_on_quota :
    Gen.retryTable.lookup 8 = some 1 ∧ Gen.retryTable.lookup 0 = some 0 ∧ Gen.retryTableDefault = 0 ∧
    ∀ code, (Gen.retryTable.lookup code).getD Gen.retryTableDefault = 1 → code = 8 := by
  refine ⟨by decide, by decide, by decide, ?_⟩
  intro code h
  by_cases h8 : code = 8
  · exact h8
  · by_cases h0 : code = 0
    · subst h0; revert h; decide
    · have : Gen.retryTable.lookup code = none := by
        simp only [Gen.retryTable, List.lookup]
        have e8 : (code == 8) = false := by simpa using h8
        have e0 : (code == 0) = false := by simpa using h0
        simp [e8, e0]
      rw [this] at h; simp [Gen.retryTableDefault] at h

/-! ## the gate -/

/-- **Gate.** A pass goes on to fetch and submit only if the destination is empty, the operator disabled the check, or the
source proved its STH consistent with the destination's root. -/
theorem gate_sound (noCheck : Bool) (treeSize sth begin : Nat) (proofOk : Bool)
    (h : gate noCheck treeSize sth begin proofOk = .proceed) :
    treeSize = 0 ∨ noCheck = true ∨ proofOk = true := by
  unfold gate at h
  repeat' split at h
  all_goals simp_all

/-- … and with a non-empty destination root, the check enabled and no valid proof, a pass that has anything to do is refused:
nothing is fetched, nothing is submitted. -/
theorem gate_refuses (treeSize sth begin : Nat) (h0 : treeSize ≠ 0) (hb : begin < sth) :
    gate false treeSize sth begin false = .refused := by
  unfold gate
  simp [h0]; omega

example : gate false 10 20 0 false = .refused ∧ gate false 10 20 0 true = .proceed ∧ gate false 0 20 0 false = .proceed
    ∧ gate true 10 20 0 false = .proceed ∧ gate false 10 20 20 false = .upToDate := by decide

/-! ## one pass, every interleaving -/

/-- the invariant holds in every reachable state of a pass -/
theorem pinv_reachable (c : Cfg) (start end_ batch fetchers submitters : Nat) (dest0 : List Stored) (ops : List POp) :
    PInv c dest0 (prun c (pinit start end_ batch fetchers submitters dest0) ops) :=
  pinv_run c dest0 _ ops (pinv_init c start end_ batch fetchers submitters dest0)

/-- **Mirror, part 1 (fidelity, nothing beyond the verified size).** Whatever a pass adds to the destination — at any point,
under any interleaving, short read, retry, quota reply, error or cancellation — is the source's entry for that index,
stored under that index with the configured identity hash, and its index lies in `[start, end)`, where `end` never
exceeds the tree size of the STH the pass verified (`C16.prepare_end`). Unparsable certificates are no exception: the
model, like `buildLogLeaf`, never looks at them (`unparsable_verbatim`). -/
theorem dest_faithful (c : Cfg) (start end_ batch fetchers submitters : Nat) (dest0 : List Stored) (ops : List POp) (x : Stored)
    (hx : x ∈ (prun c (pinit start end_ batch fetchers submitters dest0) ops).dest) :
    x ∈ dest0 ∨ (x.payload = c.src x.idx ∧ x.idHash = c.idf x.idx x.payload ∧ start ≤ x.idx ∧ x.idx < end_) := by
  have h := pinv_reachable c start end_ batch fetchers submitters dest0 ops
  have hc := prun_consts c (pinit start end_ batch fetchers submitters dest0) ops
  rcases h.added x hx with h1 | ⟨hf, h2, h3⟩
  · exact Or.inl h1
  · right
    rw [hc.1] at h2; rw [hc.2] at h3
    exact ⟨hf.1, hf.2, h2, h3⟩

/-- **Mirror, part 2 (completeness).** When a pass returns nil (`passOk`), every index of `[start, end)` is in the destination
with the source's `leaf_input`/`extra_data` and the configured identity hash. -/
theorem mirror_exact (c : Cfg) (start end_ batch fetchers submitters : Nat) (dest0 : List Stored) (ops : List POp)
    (hok : passOk (prun c (pinit start end_ batch fetchers submitters dest0) ops) = true) (i : Nat) (h1 : start ≤ i) (h2 : i < end_) :
    (⟨i, c.src i, c.idf i (c.src i)⟩ : Stored) ∈ (prun c (pinit start end_ batch fetchers submitters dest0) ops).dest := by
  have h := pinv_reachable c start end_ batch fetchers submitters dest0 ops
  have hc := prun_consts c (pinit start end_ batch fetchers submitters dest0) ops
  generalize prun c (pinit start end_ batch fetchers submitters dest0) ops = s at *
  simp only [passOk, Bool.and_eq_true, Bool.not_eq_true', List.isEmpty_iff] at hok
  obtain ⟨⟨⟨⟨⟨⟨hcl, hwi⟩, hst⟩, hca⟩, hfa⟩, hch⟩, hsi⟩ := hok
  have hdel := (inv_idle c.env s.f h.fi hwi).2.2 hcl hst i
  have hstage := h.stage i
  have hlost : s.lost = [] := by
    cases hl : s.lost with
    | nil => rfl
    | cons a t => have := h.lostc (by simp [hl]); rw [hca] at this; cases this
  rw [hch, hlost, ocnt_allIdle s.subs i hsi] at hstage
  simp only [bcnt] at hstage
  have hs0 : s.f.start0 = start := hc.1
  have he : s.f.end_ = end_ := hc.2
  rw [hs0, he] at hdel
  have a := ite01 start end_ i
  obtain ⟨b, hb, hb1, hb2⟩ := bcnt_pos s.acked i (by omega)
  exact h.ackedIn b hb i hb1 hb2

/-- **Unparsable certificates are copied verbatim.** The stored record is a function of the index and the source bytes only;
in particular it is the same whether or not the certificate inside the entry parses (`parses` is any predicate). -/
theorem unparsable_verbatim (c : Cfg) (parses : Nat → Bool) (start end_ batch fetchers submitters : Nat) (dest0 : List Stored) (ops : List POp)
    (hok : passOk (prun c (pinit start end_ batch fetchers submitters dest0) ops) = true) (i : Nat) (h1 : start ≤ i) (h2 : i < end_)
    (hbad : parses i = false) :
    (⟨i, c.src i, c.idf i (c.src i)⟩ : Stored) ∈ (prun c (pinit start end_ batch fetchers submitters dest0) ops).dest :=
  mirror_exact c start end_ batch fetchers submitters dest0 ops hok i h1 h2

/-- **Quota replies are retried** (with the retry policy): a `ResourceExhausted` answer changes nothing — the batch stays in
flight at its submitter, the pass is neither failed nor cancelled — so `mirror_exact` holds for runs with any number of
quota replies anywhere. -/
theorem quota_retried (c : Cfg) (hr : c.retryQuota = true) (s : PSt) (j : Nat) : pstep c s (.quota j) = s := by
  simp only [pstep, hr, if_true]
  split <;> rfl

/-- Without the retry policy a quota reply is fatal for the pass: it can no longer return nil. -/
theorem quota_not_retried_fails (c : Cfg) (hr : c.retryQuota = false) (s : PSt) (j : Nat) (b : Batch)
    (hj : s.subs[j]? = some (some b)) : passOk (pstep c s (.quota j)) = false := by
  simp only [pstep, hj, hr]
  simp [passOk, giveUp, step]

/-- **The code retries quota replies.** The submitter's policy as regenerated from trillian.go — the `switch` asks for a retry on
code 8 *and* the error value it returns for that, `errRetry`, is a `backoff.RetriableError`, the only kind of plain error
`backoff.Retry` retries — is the retrying one; so `quota_retried` applies to the code.
(Before fix e04c406 `errRetry` was `errors.New("retry")`, `Gen.errRetryIsRetriable` was `false`, this theorem was false and
`quota_not_retried_fails` described the code: finding C20-1, harness scenarios q0/q1.) -/
theorem code_retries_quota : codeRetriesQuota = true := by decide

/-- hence, for the code's own configuration, a quota reply is a no-op on the pass -/
theorem code_quota_noop (src : Nat → Nat) (idf : Nat → Nat → Nat) (s : PSt) (j : Nat) :
    pstep ⟨src, idf, codeRetriesQuota⟩ s (.quota j) = s :=
  quota_retried ⟨src, idf, codeRetriesQuota⟩ code_retries_quota s j

/-! ## passes compose: restarts, mastership changes, resumption -/

/-- the destination holds something under index `i` -/
def covered (dest : List Stored) (i : Nat) : Prop := ∃ x ∈ dest, x.idx = i

/-- all records are faithful copies -/
def AllFaithful (c : Cfg) (dest : List Stored) : Prop := ∀ x ∈ dest, Faithful c x

/-- a pass never removes or alters what the destination already holds -/
theorem pass_monotone (c : Cfg) (start end_ batch fetchers submitters : Nat) (dest0 : List Stored) (ops : List POp) (x : Stored)
    (hx : x ∈ dest0) : x ∈ (prun c (pinit start end_ batch fetchers submitters dest0) ops).dest :=
  (pinv_reachable c start end_ batch fetchers submitters dest0 ops).mono x hx

/-- **No reordering, no conflicting duplicates.** If the destination was a faithful copy before a pass it is one after it,
however the pass went (completed, failed, cancelled, abandoned); hence two records under the same index are equal. -/
theorem pass_faithful (c : Cfg) (start end_ batch fetchers submitters : Nat) (dest0 : List Stored) (ops : List POp)
    (h0 : AllFaithful c dest0) : AllFaithful c (prun c (pinit start end_ batch fetchers submitters dest0) ops).dest := by
  intro x hx
  rcases dest_faithful c start end_ batch fetchers submitters dest0 ops x hx with h | h
  · exact h0 x h
  · exact ⟨h.1, h.2.1⟩

theorem no_conflict (c : Cfg) (dest : List Stored) (h : AllFaithful c dest) (x y : Stored) (hx : x ∈ dest) (hy : y ∈ dest)
    (hi : x.idx = y.idx) : x = y := by
  have fx := h x hx
  have fy := h y hy
  cases x; cases y
  simp only [Faithful] at fx fy hi ⊢
  subst hi
  simp only [Stored.mk.injEq, true_and]
  obtain ⟨a, b⟩ := fx; obtain ⟨c', d⟩ := fy
  subst a; subst c'
  exact ⟨rfl, by rw [b, d]⟩

/-- **No gaps.** If everything below the start index of a pass is already in the destination (the destination's tree size never
exceeds its stored prefix, and the controller starts at `max(tree size, position)`), a pass that returns nil leaves
everything below its end in the destination. -/
theorem pass_extends_prefix (c : Cfg) (start end_ batch fetchers submitters : Nat) (dest0 : List Stored) (ops : List POp)
    (hpre : ∀ i, i < start → covered dest0 i)
    (hok : passOk (prun c (pinit start end_ batch fetchers submitters dest0) ops) = true) :
    ∀ i, i < end_ → covered (prun c (pinit start end_ batch fetchers submitters dest0) ops).dest i := by
  intro i hi
  by_cases h : i < start
  · obtain ⟨x, hx, hxi⟩ := hpre i h
    exact ⟨x, pass_monotone c start end_ batch fetchers submitters dest0 ops x hx, hxi⟩
  · exact ⟨_, mirror_exact c start end_ batch fetchers submitters dest0 ops hok i (by omega) hi, rfl⟩

/-- a sequence of passes (restarts, mastership changes, continuous polling): each starts from whatever the destination holds -/
structure PassSpec where
  start : Nat
  end_ : Nat
  batch : Nat
  fetchers : Nat
  submitters : Nat
  ops : List POp

def runPasses (c : Cfg) (dest : List Stored) : List PassSpec → List Stored
  | [] => dest
  | p :: t => runPasses c (prun c (pinit p.start p.end_ p.batch p.fetchers p.submitters dest) p.ops).dest t

/-- **No gaps, reordering or conflicting duplicates across any history of passes**: the destination stays a faithful copy
(so equal indices carry equal records) and never loses a record, whatever happens in each pass and however many times
the migration is restarted. -/
theorem no_gap_reorder_conflict (c : Cfg) (dest0 : List Stored) (ps : List PassSpec) (h0 : AllFaithful c dest0) :
    AllFaithful c (runPasses c dest0 ps) ∧ (∀ x ∈ dest0, x ∈ runPasses c dest0 ps) := by
  induction ps generalizing dest0 with
  | nil => exact ⟨h0, fun x hx => hx⟩
  | cons p t ih =>
    have h1 := pass_faithful c p.start p.end_ p.batch p.fetchers p.submitters dest0 p.ops h0
    have := ih _ h1
    refine ⟨this.1, ?_⟩
    intro x hx
    exact this.2 x (pass_monotone c p.start p.end_ p.batch p.fetchers p.submitters dest0 p.ops x hx)

/-! ## the Controller's continuous loop: the position is never forgotten -/

/-- what `Run` maintains between passes: the destination is a faithful copy and holds everything below the position -/
def RunInv (c : Cfg) (s : RunSt) : Prop := AllFaithful c s.dest ∧ ∀ i, i < s.pos → covered s.dest i

/-- **One iteration of `Controller.Run`.** Under the destination's contract (its reported tree size never exceeds its stored
prefix), an iteration keeps the invariant — so the hypothesis of `pass_extends_prefix` is discharged by the loop itself: the
pass starts at `max(treeSize, pos)`, below which everything is present — never loses a record, **and adds nothing below the
position it had reached**: continuous mode does not go back over entries it has already submitted, however far the
destination's signed root lags behind. -/
theorem controller_iter (c : Cfg) (s : RunSt) (it : Iter) (h : RunInv c s)
    (hcontract : ∀ i, i < it.treeSize → covered s.dest i) :
    RunInv c (runIter c s it) ∧ (∀ x ∈ s.dest, x ∈ (runIter c s it).dest) ∧
    (∀ x ∈ (runIter c s it).dest, x ∈ s.dest ∨ (s.pos ≤ x.idx ∧ it.treeSize ≤ x.idx ∧ x.idx < it.sth)) := by
  unfold runIter
  by_cases hup : it.sth ≤ s.pos
  · simp only [hup, if_true]
    exact ⟨h, fun x hx => hx, fun x hx => Or.inl hx⟩
  · simp only [hup, if_false]
    have hstart : ∀ i, i < passStart true 0 it.treeSize s.pos → covered s.dest i := by
      intro i hi
      simp only [passStart, if_true] at hi
      by_cases h1 : i < it.treeSize
      · exact hcontract i h1
      · exact h.2 i (by omega)
    have hstart2 : s.pos ≤ passStart true 0 it.treeSize s.pos ∧ it.treeSize ≤ passStart true 0 it.treeSize s.pos := by
      simp only [passStart, if_true]; omega
    have hf := pass_faithful c (passStart true 0 it.treeSize s.pos) it.sth it.batch it.fetchers it.submitters s.dest it.ops h.1
    have hm := pass_monotone c (passStart true 0 it.treeSize s.pos) it.sth it.batch it.fetchers it.submitters s.dest it.ops
    have hd := dest_faithful c (passStart true 0 it.treeSize s.pos) it.sth it.batch it.fetchers it.submitters s.dest it.ops
    have hadded : ∀ x ∈ (prun c (pinit (passStart true 0 it.treeSize s.pos) it.sth it.batch it.fetchers it.submitters s.dest) it.ops).dest,
        x ∈ s.dest ∨ (s.pos ≤ x.idx ∧ it.treeSize ≤ x.idx ∧ x.idx < it.sth) := by
      intro x hx
      rcases hd x hx with h1 | h1
      · exact Or.inl h1
      · right; omega
    cases hok : passOk (prun c (pinit (passStart true 0 it.treeSize s.pos) it.sth it.batch it.fetchers it.submitters s.dest) it.ops) with
    | true =>
      simp only [if_true]
      refine ⟨⟨hf, ?_⟩, fun x hx => hm x hx, hadded⟩
      exact pass_extends_prefix c _ it.sth it.batch it.fetchers it.submitters s.dest it.ops hstart hok
    | false =>
      simp only [Bool.false_eq_true, if_false]
      exact ⟨⟨hf, fun i hi => absurd hi (Nat.not_lt_zero i)⟩, fun x hx => hm x hx, hadded⟩

/-- the destination's contract along a sequence of iterations -/
def Contract (c : Cfg) : RunSt → List Iter → Prop
  | _, [] => True
  | s, it :: t => (∀ i, i < it.treeSize → covered s.dest i) ∧ Contract c (runIter c s it) t

/-- **Any number of iterations** (`Run`'s loop, with growth of the source between passes, a lagging destination root, failures
and restarts): the invariant holds throughout, and whenever an iteration's pass returns nil the whole prefix `[0, sth)` of
the source is mirrored. -/
theorem controller_loop (c : Cfg) (s : RunSt) (its : List Iter) (h : RunInv c s) (hc : Contract c s its) :
    RunInv c (runIters c s its) ∧ (∀ x ∈ s.dest, x ∈ (runIters c s its).dest) := by
  induction its generalizing s with
  | nil => exact ⟨h, fun x hx => hx⟩
  | cons it t ih =>
    obtain ⟨h1, h2⟩ := hc
    have hi := controller_iter c s it h h1
    have := ih (runIter c s it) hi.1 h2
    exact ⟨this.1, fun x hx => this.2 x (hi.2.1 x hx)⟩

/-- the seeded scenario of C16-3 in the model: source 4, then 6 entries; the destination's root stays at 0; the second pass
fetches `[4, 6)`, not `[0, 6)` -/
example : passStart true 0 0 4 = 4 := by decide
example : (runIters (exCfg0) ⟨0, []⟩
    [⟨0, 4, 10, 1, 1, [.fetch (.hand 0), .fetch (.resp 0 4), .take 0 0, .ack 0, .fetch .close]⟩,
     ⟨0, 6, 10, 1, 1, [.fetch (.hand 0), .fetch (.resp 0 2), .take 0 0, .ack 0, .fetch .close]⟩]).dest.map (·.idx) = [0, 1, 2, 3, 4, 5]
  ∧ (runIters (exCfg0) ⟨0, []⟩
    [⟨0, 4, 10, 1, 1, [.fetch (.hand 0), .fetch (.resp 0 4), .take 0 0, .ack 0, .fetch .close]⟩,
     ⟨0, 6, 10, 1, 1, [.fetch (.hand 0), .fetch (.resp 0 2), .take 0 0, .ack 0, .fetch .close]⟩]).pos = 6 := by decide

/-! ## concrete instances -/

def exCfg (retry : Bool) : Cfg := { src := fun i => 100 + i, idf := fun i p => 1000 * i + p, retryQuota := retry }

/-- range [2,7), batch 2, 2 fetchers, 2 submitters; short read, source error, two quota replies, out-of-order acks -/
def exOps : List POp :=
  [.fetch (.hand 0), .fetch (.hand 1), .fetch (.err 0), .fetch (.resp 1 1), .take 0 0, .quota 0, .fetch (.resp 0 2), .take 1 0,
   .ack 1, .quota 0, .ack 0, .fetch (.hand 0), .fetch (.resp 1 1), .fetch (.resp 0 1), .fetch .close, .take 0 1, .take 1 0, .ack 0, .ack 1]

example : passOk (prun (exCfg true) (pinit 2 7 2 2 2 []) exOps) = true := by decide
example : (prun (exCfg true) (pinit 2 7 2 2 2 []) exOps).dest.map (·.idx) = [2, 3, 4, 5, 6] := by decide
example : (prun (exCfg true) (pinit 2 7 2 2 2 []) exOps).dest.map (·.payload) = [102, 103, 104, 105, 106] := by decide
/-- the same schedule without the retry policy (the unchanged code): the first quota reply kills the pass -/
example : passOk (prun (exCfg false) (pinit 2 7 2 2 2 []) exOps) = false := by decide
/-- a fatal error: the pass cannot return nil, what was stored stays faithful -/
example : passOk (prun (exCfg true) (pinit 0 4 2 1 1 []) [.fetch (.hand 0), .fetch (.resp 0 2), .take 0 0, .fatal 0, .fetch .close]) = false := by decide
/-- restart after a failed pass: the second pass resumes from the stored prefix and completes the mirror -/
example : (runPasses (exCfg true) [] [⟨0, 4, 2, 1, 1, [.fetch (.hand 0), .fetch (.resp 0 2), .take 0 0, .ack 0, .fetch (.hand 0), .fetch (.resp 0 2), .take 0 0, .fatal 0]⟩,
    ⟨2, 4, 2, 1, 1, [.fetch (.hand 0), .fetch (.resp 0 2), .take 0 0, .ack 0, .fetch .close]⟩]).map (·.idx) = [0, 1, 2, 3] := by decide
example : passStart true 5 10 20 = 20 ∧ passStart true 5 30 20 = 30 ∧ passStart false (-1) 30 0 = 30 ∧ passStart false 5 30 0 = 5 := by decide
example : Gen.leafIndex 40 2 = 42 ∧ Gen.submitEnd 40 3 = 43 := by decide

end C20
