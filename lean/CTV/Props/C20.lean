import CTV.Gen.Migrate
import CTV.Model.Migrate
/-! # C20 — placeholder while the harness is brought up (theorems follow) -/
namespace C20
open CTV.Model.Migrate
theorem gate_sound (noCheck : Bool) (t m b : Nat) (p : Bool) (h : gate noCheck t m b p = .proceed) :
    t = 0 ∨ noCheck = true ∨ p = true := by
  unfold gate at h
  repeat' split at h
  all_goals simp_all
example : gate false 10 20 0 false = .refused := by decide
end C20
