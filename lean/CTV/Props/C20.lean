import CTV.Gen.Scan
import CTV.Gen.Migrate
import CTV.Lemmas.Migrate
import CTV.Rfc6962.Merkle
import CTV.Props.C16
/-!
# C20 — Migration mirrors the source entry for entry and refuses inconsistent sources

The model (`CTV.Model.Migrate`) is one `fetchTail` pass: C16's fetcher state machine + the `batches` channel + the
submitters + a reference pre-ordered destination, one `POp` per atomic action, so `ops : List POp` below ranges over every
interleaving of fetchers and submitters, every short read, source error, quota reply, fatal error and cancellation
(mastership loss and restarts are cancellations followed by a new pass). Passes compose through the destination content
(`pass_extends_prefix`, `passes_faithful`).

The start index of a pass, the early exit, the gate, the per-leaf index arithmetic and the gRPC-code switch of the retry
closure are **regenerated** from controller.go / trillian.go on every run (`Gen.*`) and proved equal to the model's.
The model is tied to the real `Controller` by trace validation under virtual time on every run.
-/
set_option linter.unusedSimpArgs false
set_option linter.unusedVariables false
open CTV.Model.Scan CTV.Model.Migrate

namespace C20

/-- configuration used in the loop example -/
def exCfg0 : Cfg := { src := fun i => 100 + i, idf := fun i p => 1000 * i + p, retryQuota := true }

/-! ## regenerated arithmetic and decisions = the model's -/

/-- `fetchTail` starts at `max(destination tree size, begin)` in continuous mode and for a negative configured start, and at
`max(configured start, begin)` otherwise — the whole start computation **in the order the code performs it** (`Gen.fetchTailRange` is the statement
sequence between `fo := c.opts.FetcherOptions` and the log line, translated in order): the pass starts at `passStart`, in
continuous mode the configured end is ignored, and the inner fetcher is never continuous. Moving the `begin` clamp above
the mode branch (so that continuous mode forgets the position) makes this false. -/
theorem fetchTail_range_arith (cont : Bool) (cfgStart cfgEnd : Int) (treeSize begin : Nat)
    (h1 : cfgStart < 2^63) (h2 : (treeSize : Int) < 2^63) (h3 : (begin : Int) < 2^63) :
    Gen.fetchTailRange cfgStart cfgEnd cont treeSize begin
      = (((passStart cont cfgStart treeSize begin : Nat) : Int), (if cont then 0 else cfgEnd), false) := by
  have w : I64.wrap64 (begin : Int) = begin := I64.wrap64_id' _ (by omega) h3
  have w2 : I64.wrap64 (treeSize : Int) = treeSize := I64.wrap64_id' _ (by omega) h2
  simp only [Gen.fetchTailRange, passStart, w, w2]
  cases cont with
  | true =>
    simp only [if_true]
    split <;> rename_i h <;> simp only [decide_eq_true_eq] at h <;> simp <;> omega
  | false =>
    simp only [Bool.false_eq_true, if_false]
    by_cases hn : cfgStart < 0
    · simp only [hn, decide_true, if_true]
      split <;> rename_i h <;> simp only [decide_eq_true_eq] at h <;> simp <;> omega
    · simp only [hn, decide_false, Bool.false_eq_true, if_false]
      split <;> rename_i h <;> simp only [decide_eq_true_eq] at h <;> simp <;> omega

/-- the early exit and the empty-root shortcut of the code are the model's `gate` tests (the shortcut read off the regenerated body of
`verifyConsistency`: with the check on and no usable proof it still returns nil exactly for an empty destination) -/
theorem gate_tests (sth begin treeSize : Nat) :
    Gen.fetchTailUpToDate sth begin = decide (sth ≤ begin) ∧
    (Gen.verifyConsistencyChain treeSize false true true = 0 ↔ treeSize = 0) := by
  constructor
  · simp only [Gen.fetchTailUpToDate]; congr 1; apply propext; omega
  · unfold Gen.verifyConsistencyChain
    by_cases h : treeSize = 0
    · simp [h]
    · have h' : ¬ ((treeSize : Int) = 0) := by omega
      simp [h, h']

/-- every leaf of a batch is built for index `start + j`, and the batch covers `[start, start + n)` -/
theorem leaf_index_arith (start j n : Int) (h0 : 0 ≤ start) (hj : 0 ≤ j) (hn : 0 ≤ n) (h : start + j < 2^63) (h' : start + n < 2^63) :
    Gen.leafIndex start j = start + j ∧ Gen.submitEnd start n = start + n := by
  have w : ∀ x : Int, -(2^63) ≤ x → x < 2^63 → I64.wrap64 x = x := I64.wrap64_id'
  constructor
  · simp only [Gen.leafIndex, I64.add]; rw [w j (by omega) (by omega), w _ (by omega) (by omega)]
  · simp only [Gen.submitEnd, I64.add]; rw [w n (by omega) (by omega), w _ (by omega) (by omega)]

/-- the retry closure asks for another attempt exactly on `ResourceExhausted` (code 8): not on success, not on any other code -/
theorem switch_asks_retry_only_on_quota :
    Gen.retryTable.lookup 8 = some 1 ∧ Gen.retryTable.lookup 0 = some 0 ∧ Gen.retryTableDefault = 0 ∧
    ∀ code, (Gen.retryTable.lookup code).getD Gen.retryTableDefault = 1 → code = 8 := by
  refine ⟨by decide, by decide, by decide, ?_⟩
  intro code h
  by_cases h8 : code = 8
  · exact h8
  · by_cases h0 : code = 0
    · subst h0; revert h; decide
    · have : Gen.retryTable.lookup code = none := by
        simp only [Gen.retryTable, List.lookup]
        have e8 : (code == 8) = false := by simpa using h8
        have e0 : (code == 0) = false := by simpa using h0
        simp [e8, e0]
      rw [this] at h; simp [Gen.retryTableDefault] at h

/-! ## the gate -/

/-- **Gate.** A pass goes on to fetch and submit only if the destination is empty, the operator disabled the check, or the
source proved its STH consistent with the destination's root. -/
theorem gate_sound (noCheck : Bool) (treeSize sth begin : Nat) (proofOk : Bool)
    (h : gate noCheck treeSize sth begin proofOk = .proceed) :
    treeSize = 0 ∨ noCheck = true ∨ proofOk = true := by
  unfold gate at h
  repeat' split at h
  all_goals simp_all

/-- … and with a non-empty destination root, the check enabled and no valid proof, a pass that has anything to do is refused:
nothing is fetched, nothing is submitted. -/
theorem gate_refuses (treeSize sth begin : Nat) (h0 : treeSize ≠ 0) (hb : begin < sth) :
    gate false treeSize sth begin false = .refused := by
  unfold gate
  simp [h0]; omega

example : gate false 10 20 0 false = .refused ∧ gate false 10 20 0 true = .proceed ∧ gate false 0 20 0 false = .proceed
    ∧ gate true 10 20 0 false = .proceed ∧ gate false 10 20 20 false = .upToDate := by decide

/-- **What the gate's proof means.** With `proofOk` instantiated by the project's model of `proof.VerifyConsistency`
(`Merkle.verifyConsistency`, RFC 6962 §2.1.2, tied to transparency-dev/merkle by C19's correspondence run): if a pass over a
non-empty destination root `destRoot` of size `t` proceeds with the check enabled, then — unless a hash of the source tree has a
second preimage (`NoCollision`, a hypothesis, never an axiom) — `destRoot` is the Merkle root of the first `t` leaves of the
source whose STH `(srcLeaves.length, mth srcLeaves)` the pass fetched: the destination's history is a prefix of the source's. -/
theorem gate_means {α Hash : Type} [DecidableEq Hash] (leafH : α → Hash) (nodeH : Hash → Hash → Hash) (emptyH : Hash)
    (srcLeaves : List α) (t begin : Nat) (pf : List Hash) (destRoot : Hash) (ht : 0 < t)
    (nc : Merkle.NoCollision leafH nodeH emptyH srcLeaves)
    (h : gate false t srcLeaves.length begin
           (Merkle.verifyConsistency nodeH t srcLeaves.length pf destRoot (Merkle.mth leafH nodeH emptyH srcLeaves)) = .proceed) :
    t ≤ srcLeaves.length ∧ destRoot = Merkle.mth leafH nodeH emptyH (srcLeaves.take t) := by
  have hg := gate_sound false t srcLeaves.length begin _ h
  rcases hg with h0 | h0 | h0
  · omega
  · cases h0
  · exact Merkle.verifyConsistency_sound leafH nodeH emptyH srcLeaves t pf destRoot nc ht h0

/-- the arguments `verifyConsistency` hands to `proof.VerifyConsistency`, regenerated with locals followed (the order of its tests —
empty root first, then the operator's switch, then the proof request — is `C20Tie.verifyConsistency_tie` over the regenerated body): sizes `(treeSize, sth.TreeSize)`, then the proof, then the roots
`(destination root, STH root)` — the argument order of `gate` / `Merkle.verifyConsistency` above -/
theorem gate_order_and_args :
    Gen.verifyConsistencyArgs = ["rfc6962.DefaultHasher", "treeSize", "sth.TreeSize", "pf", "rootHash", "sth.SHA256RootHash[:]"] := by
  decide

/-- which Go function each configured identity function selects, what `idHashCertData` hashes and how `idHashLeafIndex` encodes the
index — regenerated (the bytes themselves are compared by the harness oracle `identity-hash`) -/
theorem identity_functions :
    Gen.idFuncTable = [("configpb.IdentityFunction_SHA256_CERT_DATA", "idHashCertData"), ("configpb.IdentityFunction_SHA256_LEAF_INDEX", "idHashLeafIndex")] ∧
    Gen.idHashCertDataArg = ["entry.Cert.Data"] ∧ Gen.idHashLeafIndexEncode = ["data", "uint64(index)"] := by
  decide

/-! ## one pass, every interleaving -/

/-- the invariant holds in every reachable state of a pass -/
theorem pinv_reachable (c : Cfg) (start end_ batch fetchers submitters : Nat) (dest0 : List Stored) (ops : List POp) :
    PInv c dest0 (prun c (pinit start end_ batch fetchers submitters dest0) ops) :=
  pinv_run c dest0 _ ops (pinv_init c start end_ batch fetchers submitters dest0)

/-- **Mirror, part 1 (fidelity, nothing beyond the verified size).** Whatever a pass adds to the destination — at any point,
under any interleaving, short read, retry, quota reply, error or cancellation — is the source's entry for that index,
stored under that index with the configured identity hash, and its index lies in `[start, end)`, where `end` never
exceeds the tree size of the STH the pass verified (`C16.prepare_end`). Unparsable certificates are no exception: the
model, like `buildLogLeaf`, never looks at them (`unparsable_verbatim`). -/
theorem dest_faithful (c : Cfg) (start end_ batch fetchers submitters : Nat) (dest0 : List Stored) (ops : List POp) (x : Stored)
    (hx : x ∈ (prun c (pinit start end_ batch fetchers submitters dest0) ops).dest) :
    x ∈ dest0 ∨ (x.payload = c.src x.idx ∧ x.idHash = c.idf x.idx x.payload ∧ start ≤ x.idx ∧ x.idx < end_) := by
  have h := pinv_reachable c start end_ batch fetchers submitters dest0 ops
  have hc := prun_consts c (pinit start end_ batch fetchers submitters dest0) ops
  rcases h.added x hx with h1 | ⟨hf, h2, h3⟩
  · exact Or.inl h1
  · right
    rw [hc.1] at h2; rw [hc.2] at h3
    exact ⟨hf.1, hf.2, h2, h3⟩

/-- `Prepare` never moves the end of a pass beyond the STH the gate saw -/
theorem passEnd_le (sth cfgEnd : Nat) (h : (sth : Int) < 2^63) : passEnd sth cfgEnd ≤ sth := by
  have := (C16.prepare_end sth cfgEnd (by omega) h (by omega)).2
  simp only [passEnd]
  cases hr : Gen.prepareResets (sth : Int) (cfgEnd : Int) with
  | true => simp
  | false => simp only [hr, Bool.false_eq_true, if_false] at this ⊢; omega

/-- **Nothing beyond the tree size it verified**, stated with the STH itself: a pass over `[start, passEnd sth cfgEnd)` adds only
records with `idx < sth`. -/
theorem dest_faithful_verified (c : Cfg) (start sth cfgEnd batch fetchers submitters : Nat) (dest0 : List Stored) (ops : List POp) (x : Stored)
    (hs : (sth : Int) < 2^63)
    (hx : x ∈ (prun c (pinit start (passEnd sth cfgEnd) batch fetchers submitters dest0) ops).dest) :
    x ∈ dest0 ∨ (x.payload = c.src x.idx ∧ x.idHash = c.idf x.idx x.payload ∧ start ≤ x.idx ∧ x.idx < sth) := by
  rcases dest_faithful c start (passEnd sth cfgEnd) batch fetchers submitters dest0 ops x hx with h | h
  · exact Or.inl h
  · have := passEnd_le sth cfgEnd hs
    exact Or.inr ⟨h.1, h.2.1, h.2.2.1, by omega⟩

/-- **Mirror, part 2 (completeness).** When a pass returns nil (`passOk`), every index of `[start, end)` is in the destination
with the source's `leaf_input`/`extra_data` and the configured identity hash. -/
theorem mirror_exact (c : Cfg) (start end_ batch fetchers submitters : Nat) (dest0 : List Stored) (ops : List POp)
    (hok : passOk (prun c (pinit start end_ batch fetchers submitters dest0) ops) = true) (i : Nat) (h1 : start ≤ i) (h2 : i < end_) :
    (⟨i, c.src i, c.idf i (c.src i)⟩ : Stored) ∈ (prun c (pinit start end_ batch fetchers submitters dest0) ops).dest := by
  have h := pinv_reachable c start end_ batch fetchers submitters dest0 ops
  have hc := prun_consts c (pinit start end_ batch fetchers submitters dest0) ops
  generalize prun c (pinit start end_ batch fetchers submitters dest0) ops = s at *
  simp only [passOk, Bool.and_eq_true, Bool.not_eq_true', List.isEmpty_iff] at hok
  obtain ⟨⟨⟨⟨⟨⟨hcl, hwi⟩, hst⟩, hca⟩, hfa⟩, hch⟩, hsi⟩ := hok
  have hdel := (inv_idle c.env s.f h.fi hwi).2.2 hcl hst i
  have hstage := h.stage i
  have hlost : s.lost = [] := by
    cases hl : s.lost with
    | nil => rfl
    | cons a t => have := h.lostc (by simp [hl]); rw [hca] at this; cases this
  rw [hch, hlost, ocnt_allIdle s.subs i hsi] at hstage
  simp only [bcnt] at hstage
  have hs0 : s.f.start0 = start := hc.1
  have he : s.f.end_ = end_ := hc.2
  rw [hs0, he] at hdel
  have a := ite01 start end_ i
  obtain ⟨b, hb, hb1, hb2⟩ := bcnt_pos s.acked i (by omega)
  exact h.ackedIn b hb i hb1 hb2

/-- **Unparsable certificates are copied verbatim.** `buildLogLeaf`'s only error return is the one guarded by the
`RawLogEntryFromLeaf` error (regenerated: `Gen.buildLogLeafErrorReturns`; the two certificate-parsing outcomes are only logged), so
for every entry that *is* an RFC 6962 entry — certificate fine, parsing with non-fatal errors, or not parsing at all — the leaf
built is the same function of the index and the source bytes, which is the record `mirror_exact` finds in the destination. (An
entry whose `leaf_input` is not a MerkleTreeLeaf makes `buildLogLeaf`, hence the batch and the pass, fail: `buildLeaf … = none`;
that is not a certificate problem and outside this clause.) -/
theorem unparsable_verbatim (c : Cfg) (k : LeafKind) (i : Nat) (hk : k ≠ .leafUndecodable) :
    buildLeaf c k i = some ⟨i, c.src i, c.idf i (c.src i)⟩ ∧ buildLeaf c .leafUndecodable i = none := by
  have hg : Gen.buildLogLeafErrorReturns = ["rle, err := ct.RawLogEntryFromLeaf(index, entry) ;; err != nil"] := by decide
  constructor
  · simp only [buildLeaf, hg, and_true, if_true]
    simp [hk]
  · simp [buildLeaf, hg]

example : buildLeaf (exCfg0) .certFatal 7 = some ⟨7, 107, 7107⟩ ∧ buildLeaf (exCfg0) .certNonFatal 7 = buildLeaf (exCfg0) .certOk 7 := by decide

/-- **Quota replies are retried** (with the retry policy): a `ResourceExhausted` answer changes nothing — the batch stays in
flight at its submitter, the pass is neither failed nor cancelled — so `mirror_exact` holds for runs with any number of
quota replies anywhere. -/
theorem quota_retried (c : Cfg) (hr : c.retryQuota = true) (s : PSt) (j : Nat) : pstep c s (.quota j) = s := by
  simp only [pstep, hr, if_true]
  split <;> rfl

/-- Without the retry policy a quota reply is fatal for the pass: it can no longer return nil. -/
theorem quota_not_retried_fails (c : Cfg) (hr : c.retryQuota = false) (s : PSt) (j : Nat) (b : Batch)
    (hj : s.subs[j]? = some (some b)) : passOk (pstep c s (.quota j)) = false := by
  simp only [pstep, hj, hr]
  simp [passOk, giveUp, step]

/-- **The code retries quota replies.** The submitter's policy as regenerated from trillian.go — the `switch` asks for a retry on
code 8 *and* the error value it returns for that, `errRetry`, is a `backoff.RetriableError`, the only kind of plain error
`backoff.Retry` retries — is the retrying one; so `quota_retried` applies to the code.
(Before fix e04c406 `errRetry` was `errors.New("retry")`, `Gen.errRetryIsRetriable` was `false`, this theorem was false and
`quota_not_retried_fails` described the code: finding C20-1, harness scenarios q0/q1.) -/
theorem code_retries_quota : codeRetriesQuota = true := by decide

/-- hence, for the code's own configuration, a quota reply is a no-op on the pass -/
theorem code_quota_noop (src : Nat → Nat) (idf : Nat → Nat → Nat) (s : PSt) (j : Nat) :
    pstep ⟨src, idf, codeRetriesQuota⟩ s (.quota j) = s :=
  quota_retried ⟨src, idf, codeRetriesQuota⟩ code_retries_quota s j

theorem one_le_three_pow (n : Nat) : (1 : Int) ≤ 3 ^ n := by
  induction n with
  | zero => simp
  | succ n ih => rw [Int.pow_succ]; omega

/-- **… with back-off.** The retry closure runs under `backoff.Backoff{Min: 1 s, Max: 1 min, Factor: 3, Jitter}` (regenerated): the
parameters satisfy the library's contract (`0 < Min ≤ Max ≤ 2^62` ns, `Factor ≥ 1`), so the nominal pause before the `n`-th retry,
`quotaPause n = min(Min·Factorⁿ, Max)`, is at least 1 s, never above 1 min and non-decreasing. (The pauses themselves are not in the
model — a retry is a no-op step; the harness observes them under virtual time: oracle `backoff`.) -/
theorem quota_backoff (n : Nat) :
    Gen.quotaBackoffMin = 1000000000 ∧ Gen.quotaBackoffMax = 60000000000 ∧ Gen.quotaBackoffFactor = 3 ∧ Gen.quotaBackoffJitter = true ∧
    Gen.quotaBackoffMin ≤ quotaPause n ∧ quotaPause n ≤ Gen.quotaBackoffMax ∧ quotaPause n ≤ quotaPause (n + 1) := by
  have h1 : Gen.quotaBackoffMin = 1000000000 := by decide
  have h2 : Gen.quotaBackoffMax = 60000000000 := by decide
  have h3 : Gen.quotaBackoffFactor = 3 := by decide
  refine ⟨h1, h2, h3, by decide, ?_, ?_, ?_⟩
  · simp only [quotaPause, h1, h2, h3]
    have : (1 : Int) ≤ 3 ^ n := one_le_three_pow n
    omega
  · simp only [quotaPause, h1, h2, h3]; omega
  · simp only [quotaPause, h1, h2, h3, Int.pow_succ]
    have : (1 : Int) ≤ 3 ^ n := one_le_three_pow n
    omega

/-- **A refused leaf fails the pass.** If the destination refuses leaves of a batch (per-leaf status in an OK reply: Trillian does so
for an identity hash or an index that is already taken), the pass can no longer return nil — so `mirror_exact`'s "nil ⇒ everything
mirrored" is not undermined by silently dropped leaves — while what *was* stored stays faithful (`pinv_reachable` covers `ackPartial`). -/
theorem partial_ack_fails_pass (c : Cfg) (s : PSt) (j : Nat) (b : Batch) (refused : List Nat)
    (hj : s.subs[j]? = some (some b)) : passOk (pstep c s (.ackPartial j refused)) = false := by
  obtain ⟨lo, k⟩ := b
  simp only [pstep, hj]
  simp [passOk, giveUp, step]

/- FULL: the code treats a refused leaf as a failed batch:
     theorem code_checks_leaf_results : Gen.addSeqChecksResults = true
   On the unchanged tree `addSequencedLeaves` never looks at `rsp.Results` ("TODO: Check rsp.Results statuses"): a reply with
   code OK whose per-leaf status is FailedPrecondition "conflicting LeafIdentityHash" counts as success, the leaf is not in the
   destination, the pass returns nil, and the hole is permanent (the sequencer cannot pass it) — finding C20-2
   (known_findings.d/C20.json, fixes/C20-2-not-applied.diff.txt (not applied: Trillian reports an identical re-submission with the same status, so the patch would fail every pass after a restart until the signer catches up); harness scenario f1: 57 entries drawn from 8 certificates, SHA256_CERT_DATA, empty
   destination: Run returns nil, index 8 refused because its identity hash is already stored under index 16). The model above is the
   property's intent (`ackPartial` fails the pass); the driver follows the regenerated flag so that the trace of the unchanged code is
   still explained step by step, and the oracle `leaf-refused` / `gap` exhibits the hole. With the fix the statement is `by decide`. -/

/-! ## passes compose: restarts, mastership changes, resumption -/

/-- the destination holds something under index `i` -/
def covered (dest : List Stored) (i : Nat) : Prop := ∃ x ∈ dest, x.idx = i

/-- all records are faithful copies -/
def AllFaithful (c : Cfg) (dest : List Stored) : Prop := ∀ x ∈ dest, Faithful c x

/-- a pass never removes or alters what the destination already holds -/
theorem pass_monotone (c : Cfg) (start end_ batch fetchers submitters : Nat) (dest0 : List Stored) (ops : List POp) (x : Stored)
    (hx : x ∈ dest0) : x ∈ (prun c (pinit start end_ batch fetchers submitters dest0) ops).dest :=
  (pinv_reachable c start end_ batch fetchers submitters dest0 ops).mono x hx

/-- **No reordering, no conflicting duplicates.** If the destination was a faithful copy before a pass it is one after it,
however the pass went (completed, failed, cancelled, abandoned); hence two records under the same index are equal. -/
theorem pass_faithful (c : Cfg) (start end_ batch fetchers submitters : Nat) (dest0 : List Stored) (ops : List POp)
    (h0 : AllFaithful c dest0) : AllFaithful c (prun c (pinit start end_ batch fetchers submitters dest0) ops).dest := by
  intro x hx
  rcases dest_faithful c start end_ batch fetchers submitters dest0 ops x hx with h | h
  · exact h0 x h
  · exact ⟨h.1, h.2.1⟩

theorem no_conflict (c : Cfg) (dest : List Stored) (h : AllFaithful c dest) (x y : Stored) (hx : x ∈ dest) (hy : y ∈ dest)
    (hi : x.idx = y.idx) : x = y := by
  have fx := h x hx
  have fy := h y hy
  cases x; cases y
  simp only [Faithful] at fx fy hi ⊢
  subst hi
  simp only [Stored.mk.injEq, true_and]
  obtain ⟨a, b⟩ := fx; obtain ⟨c', d⟩ := fy
  subst a; subst c'
  exact ⟨rfl, by rw [b, d]⟩

/-- **No gaps.** If everything below the start index of a pass is already in the destination (the destination's tree size never
exceeds its stored prefix, and the controller starts at `max(tree size, position)`), a pass that returns nil leaves
everything below its end in the destination. -/
theorem pass_extends_prefix (c : Cfg) (start end_ batch fetchers submitters : Nat) (dest0 : List Stored) (ops : List POp)
    (hpre : ∀ i, i < start → covered dest0 i)
    (hok : passOk (prun c (pinit start end_ batch fetchers submitters dest0) ops) = true) :
    ∀ i, i < end_ → covered (prun c (pinit start end_ batch fetchers submitters dest0) ops).dest i := by
  intro i hi
  by_cases h : i < start
  · obtain ⟨x, hx, hxi⟩ := hpre i h
    exact ⟨x, pass_monotone c start end_ batch fetchers submitters dest0 ops x hx, hxi⟩
  · exact ⟨_, mirror_exact c start end_ batch fetchers submitters dest0 ops hok i (by omega) hi, rfl⟩

/-- a sequence of passes (restarts, mastership changes, continuous polling): each starts from whatever the destination holds -/
structure PassSpec where
  start : Nat
  end_ : Nat
  batch : Nat
  fetchers : Nat
  submitters : Nat
  ops : List POp

def runPasses (c : Cfg) (dest : List Stored) : List PassSpec → List Stored
  | [] => dest
  | p :: t => runPasses c (prun c (pinit p.start p.end_ p.batch p.fetchers p.submitters dest) p.ops).dest t

/-- Arbitrary passes with *arbitrary* start indices (no bookkeeping at all): the destination stays a faithful copy (so equal indices
carry equal records: no reordering, no conflicting duplicates) and never loses a record. Gap-freedom needs the Controller's
bookkeeping of the start index: `no_gap_reorder_conflict` below. -/
theorem passes_faithful_monotone (c : Cfg) (dest0 : List Stored) (ps : List PassSpec) (h0 : AllFaithful c dest0) :
    AllFaithful c (runPasses c dest0 ps) ∧ (∀ x ∈ dest0, x ∈ runPasses c dest0 ps) := by
  induction ps generalizing dest0 with
  | nil => exact ⟨h0, fun x hx => hx⟩
  | cons p t ih =>
    have h1 := pass_faithful c p.start p.end_ p.batch p.fetchers p.submitters dest0 p.ops h0
    have := ih _ h1
    refine ⟨this.1, ?_⟩
    intro x hx
    exact this.2 x (pass_monotone c p.start p.end_ p.batch p.fetchers p.submitters dest0 p.ops x hx)

/-! ## the Controller's continuous loop: the position is never forgotten -/

/-- what `Run` maintains between passes: the destination is a faithful copy and holds everything below the position -/
def RunInv (c : Cfg) (s : RunSt) : Prop := AllFaithful c s.dest ∧ ∀ i, i < s.pos → covered s.dest i

/-- **One iteration of `Controller.Run`.** Under the destination's contract (its reported tree size never exceeds its stored
prefix), an iteration keeps the invariant — so the hypothesis of `pass_extends_prefix` is discharged by the loop itself: the
pass starts at `max(treeSize, pos)`, below which everything is present — never loses a record, **and adds nothing below the
position it had reached**: continuous mode does not go back over entries it has already submitted, however far the
destination's signed root lags behind. -/
theorem controller_iter (c : Cfg) (s : RunSt) (it : Iter) (h : RunInv c s)
    (hcontract : ∀ i, i < it.treeSize → covered s.dest i) :
    RunInv c (runIter c s it) ∧ (∀ x ∈ s.dest, x ∈ (runIter c s it).dest) ∧
    (∀ x ∈ (runIter c s it).dest, x ∈ s.dest ∨
      ((if it.newRun then 0 else s.pos) ≤ x.idx ∧ it.treeSize ≤ x.idx ∧ x.idx < it.sth)) := by
  -- entering `Run` afresh forgets the position: the invariant survives (it only gets weaker)
  have h' : RunInv c ⟨if it.newRun then 0 else s.pos, s.dest⟩ := by
    refine ⟨h.1, ?_⟩
    intro i hi
    cases hn : it.newRun with
    | true => simp [hn] at hi
    | false => simp only [hn, Bool.false_eq_true, if_false] at hi; exact h.2 i hi
  unfold runIter
  generalize (if it.newRun then 0 else s.pos) = p0 at h' ⊢
  have hp2 : ∀ i, i < p0 → covered s.dest i := h'.2
  simp only
  by_cases hup : it.sth ≤ p0
  · simp only [hup, if_true]
    exact ⟨h', fun x hx => hx, fun x hx => Or.inl hx⟩
  · simp only [hup, if_false]
    have hstart : ∀ i, i < passStart true 0 it.treeSize p0 → covered s.dest i := by
      intro i hi
      simp only [passStart, if_true] at hi
      by_cases h1 : i < it.treeSize
      · exact hcontract i h1
      · exact hp2 i (by omega)
    have hstart2 : p0 ≤ passStart true 0 it.treeSize p0 ∧ it.treeSize ≤ passStart true 0 it.treeSize p0 := by
      simp only [passStart, if_true]; omega
    have hf := pass_faithful c (passStart true 0 it.treeSize p0) it.sth it.batch it.fetchers it.submitters s.dest it.ops h.1
    have hm := pass_monotone c (passStart true 0 it.treeSize p0) it.sth it.batch it.fetchers it.submitters s.dest it.ops
    have hd := dest_faithful c (passStart true 0 it.treeSize p0) it.sth it.batch it.fetchers it.submitters s.dest it.ops
    have hadded : ∀ x ∈ (prun c (pinit (passStart true 0 it.treeSize p0) it.sth it.batch it.fetchers it.submitters s.dest) it.ops).dest,
        x ∈ s.dest ∨ (p0 ≤ x.idx ∧ it.treeSize ≤ x.idx ∧ x.idx < it.sth) := by
      intro x hx
      rcases hd x hx with h1 | h1
      · exact Or.inl h1
      · right; omega
    cases hok : passOk (prun c (pinit (passStart true 0 it.treeSize p0) it.sth it.batch it.fetchers it.submitters s.dest) it.ops) with
    | true =>
      simp only [if_true]
      refine ⟨⟨hf, ?_⟩, fun x hx => hm x hx, hadded⟩
      exact pass_extends_prefix c _ it.sth it.batch it.fetchers it.submitters s.dest it.ops hstart hok
    | false =>
      simp only [Bool.false_eq_true, if_false]
      exact ⟨⟨hf, fun i hi => absurd hi (Nat.not_lt_zero i)⟩, fun x hx => hm x hx, hadded⟩

/-- the destination's contract along a sequence of iterations -/
def Contract (c : Cfg) : RunSt → List Iter → Prop
  | _, [] => True
  | s, it :: t => (∀ i, i < it.treeSize → covered s.dest i) ∧ Contract c (runIter c s it) t

/-- **No gaps, reordering or conflicting duplicates across any history** of the continuous Controller: any number of iterations of
`Run`'s loop, each starting where the regenerated start computation (`fetchTail_range_arith` = `passStart`) puts it, with growth of
the source between passes, a lagging destination root, failed / cancelled passes and re-entries of `Run` (`newRun`: restart,
mastership change — the position starts from 0 again). Under the destination's contract the invariant `RunInv` holds throughout:
the destination is a faithful copy (equal indices ⇒ equal records) **and holds every index below the position** — so whenever a
pass returns nil (position := its STH size) the whole prefix `[0, sth)` of the source is mirrored, without a gap — and no record
is ever lost. -/
theorem no_gap_reorder_conflict (c : Cfg) (s : RunSt) (its : List Iter) (h : RunInv c s) (hc : Contract c s its) :
    RunInv c (runIters c s its) ∧ (∀ x ∈ s.dest, x ∈ (runIters c s its).dest) := by
  induction its generalizing s with
  | nil => exact ⟨h, fun x hx => hx⟩
  | cons it t ih =>
    obtain ⟨h1, h2⟩ := hc
    have hi := controller_iter c s it h h1
    have := ih (runIter c s it) hi.1 h2
    exact ⟨this.1, fun x hx => this.2 x (hi.2.1 x hx)⟩

/-- the seeded scenario of C16-3 in the model: source 4, then 6 entries; the destination's root stays at 0; the second pass
fetches `[4, 6)`, not `[0, 6)` -/
example : passStart true 0 0 4 = 4 := by decide
example : (runIters (exCfg0) ⟨0, []⟩
    [⟨true, 0, 4, 10, 1, 1, [.fetch (.hand 0), .fetch (.resp 0 4), .take 0 0, .ack 0, .fetch .close]⟩,
     ⟨false, 0, 6, 10, 1, 1, [.fetch (.hand 0), .fetch (.resp 0 2), .take 0 0, .ack 0, .fetch .close]⟩]).dest.map (·.idx) = [0, 1, 2, 3, 4, 5]
  ∧ (runIters (exCfg0) ⟨0, []⟩
    [⟨true, 0, 4, 10, 1, 1, [.fetch (.hand 0), .fetch (.resp 0 4), .take 0 0, .ack 0, .fetch .close]⟩,
     ⟨false, 0, 6, 10, 1, 1, [.fetch (.hand 0), .fetch (.resp 0 2), .take 0 0, .ack 0, .fetch .close]⟩]).pos = 6 := by decide

/-! ## concrete instances -/

def exCfg (retry : Bool) : Cfg := { src := fun i => 100 + i, idf := fun i p => 1000 * i + p, retryQuota := retry }

/-- range [2,7), batch 2, 2 fetchers, 2 submitters; short read, source error, two quota replies, out-of-order acks -/
def exOps : List POp :=
  [.fetch (.hand 0), .fetch (.hand 1), .fetch (.err 0), .fetch (.resp 1 1), .take 0 0, .quota 0, .fetch (.resp 0 2), .take 1 0,
   .ack 1, .quota 0, .ack 0, .fetch (.hand 0), .fetch (.resp 1 1), .fetch (.resp 0 1), .fetch .close, .take 0 1, .take 1 0, .ack 0, .ack 1]

example : passOk (prun (exCfg true) (pinit 2 7 2 2 2 []) exOps) = true := by decide
example : (prun (exCfg true) (pinit 2 7 2 2 2 []) exOps).dest.map (·.idx) = [2, 3, 4, 5, 6] := by decide
example : (prun (exCfg true) (pinit 2 7 2 2 2 []) exOps).dest.map (·.payload) = [102, 103, 104, 105, 106] := by decide
/-- the same schedule without the retry policy (the unchanged code): the first quota reply kills the pass -/
example : passOk (prun (exCfg false) (pinit 2 7 2 2 2 []) exOps) = false := by decide
/-- a fatal error: the pass cannot return nil, what was stored stays faithful -/
example : passOk (prun (exCfg true) (pinit 0 4 2 1 1 []) [.fetch (.hand 0), .fetch (.resp 0 2), .take 0 0, .fatal 0, .fetch .close]) = false := by decide
/-- restart after a failed pass: the second pass resumes from the stored prefix and completes the mirror -/
example : (runPasses (exCfg true) [] [⟨0, 4, 2, 1, 1, [.fetch (.hand 0), .fetch (.resp 0 2), .take 0 0, .ack 0, .fetch (.hand 0), .fetch (.resp 0 2), .take 0 0, .fatal 0]⟩,
    ⟨2, 4, 2, 1, 1, [.fetch (.hand 0), .fetch (.resp 0 2), .take 0 0, .ack 0, .fetch .close]⟩]).map (·.idx) = [0, 1, 2, 3] := by decide
example : passStart true 5 10 20 = 20 ∧ passStart true 5 30 20 = 30 ∧ passStart false (-1) 30 0 = 30 ∧ passStart false 5 30 0 = 5 := by decide
example : Gen.leafIndex 40 2 = 42 ∧ Gen.submitEnd 40 3 = 43 := by decide

end C20
