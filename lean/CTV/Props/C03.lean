import CTV.Lemmas.Tbs
import CTV.Lemmas.TbsLax
import CTV.Gen.TbsFacts
import CTV.Props.C04SctList
import CTV.Lemmas.SigScheme
/-!
# C03 — precertificate route and embedded-SCT route yield the identical log entry

Model: `CTV/Der/Tlv.lean` (DER tag/length/value exactly as the repository's asn1 fork reads and writes it) and
`CTV/Model/Tbs.lean` (`removeExtension`, `BuildPrecertTBS`, the two leaf builders, the SCT-list extension codec).
`parseTbs bs = some t` says: `bs` is a **canonical** TBSCertificate (the fork parses it and marshals it back byte for
byte) with content `t`. The correspondence run compares this domain, and every result, with the real functions.

The OIDs, the asn1/tls struct tags and the wiring of the thin wrappers are regenerated from the Go source
(`Gen.*`, CTV/Gen/TbsFacts.lean); `facts_as_modelled` pins the model to them.
-/
set_option linter.unusedSimpArgs false
set_option linter.unusedVariables false
namespace C03
open CTV CTV.Tbs

/-! ## what is regenerated from the source on every run -/

/-- The model's OIDs are the repository's; the struct tags that decide how a TBSCertificate / Extension /
AlgorithmIdentifier is unmarshalled and marshalled are the ones the model was written against; the wrappers
call what the model says they call. A change to any of these breaks this theorem (a broken tie, not a silent drift). -/
theorem facts_as_modelled :
    poisonOid = oidContent Gen.oidCTPoison ∧ sctOid = oidContent Gen.oidCTSCT ∧ akiOid = oidContent Gen.oidAuthorityKeyId ∧
    Gen.tbsCertificateFields =
      [("Raw", "asn1.RawContent", ""), ("Version", "int", "optional,explicit,default:0,tag:0"), ("SerialNumber", "*big.Int", ""),
       ("SignatureAlgorithm", "pkix.AlgorithmIdentifier", ""), ("Issuer", "asn1.RawValue", ""), ("Validity", "validity", ""),
       ("Subject", "asn1.RawValue", ""), ("PublicKey", "publicKeyInfo", ""), ("UniqueId", "asn1.BitString", "optional,tag:1"),
       ("SubjectUniqueId", "asn1.BitString", "optional,tag:2"), ("Extensions", "[]pkix.Extension", "optional,explicit,tag:3")] ∧
    Gen.extensionFields = [("Id", "asn1.ObjectIdentifier", ""), ("Critical", "bool", "optional"), ("Value", "[]byte", "")] ∧
    Gen.algorithmIdentifierFields = [("Algorithm", "asn1.ObjectIdentifier", ""), ("Parameters", "asn1.RawValue", "optional")] ∧
    Gen.validityFields = [("NotBefore", "time.Time", ""), ("NotAfter", "time.Time", "")] ∧
    Gen.publicKeyInfoFields = [("Raw", "asn1.RawContent", ""), ("Algorithm", "pkix.AlgorithmIdentifier", ""), ("PublicKey", "asn1.BitString", "")] ∧
    Gen.removeSCTListReturns = "removeExtension(tbsData, OIDExtensionCTSCT)" ∧
    Gen.removeCTPoisonReturns = "BuildPrecertTBS(tbsData, nil)" ∧
    -- who is a pre-issuer: the CT key purpose, the row of the EKU table that maps it, and the two loops that look for it
    ctEkuOid = oidContent Gen.oidExtKeyUsageCT ∧
    Gen.ekuTableCTRows = ["{ExtKeyUsageCertificateTransparency, oidExtKeyUsageCertificateTransparency}"] ∧
    Gen.isPreIssuerSearch = "FIRST(issuer.ExtKeyUsage;==:x509.ExtKeyUsageCertificateTransparency;true;false)" ∧
    -- (what the two leaf builders call with which arguments, and their chain-length guards, are no longer pinned here as text:
    --  `Gen.mtlFromChain` / `Gen.mtlForEmbedded` regenerate them as Lean functions and `C03Tie.mtl_tie` / `emb_tie` tie the model to those)
    -- removeExtension and BuildPrecertTBS PATH BY PATH (extract/k_tbscanon.go): under which conditions each path is taken, every effect on
    -- the tbsCertificate value in order (`tbs <- asn1.Unmarshal(…)`, every write `tbs.… = …`, the loop of removeExtension, `use asn1.Marshal(tbs)`),
    -- and what is returned; error paths as the set of their conditions. Locals are resolved to what they stand for on that path, same-file
    -- helpers are inlined, search loops / search helpers appear as FIRST(collection;key;what;default). An additional write to the TBS, a
    -- dropped one (`tbs.Raw = nil`), one moved under another condition or behind the marshal, another argument — each changes these lists;
    -- renames, hoists, extracted helpers, if/else ↔ early return ↔ switch do not. `akiUpdate`, `preIssuerEdit`, `removeOneGo` are their transcription.
    Gen.removeExtensionPaths =
      ["ERROR when ACC(-1) < 0 & ERR asn1.Unmarshal(tbsData) == nil & len(RES0 asn1.Unmarshal(tbsData)) <= 0",
       "ERROR when ACC(-1) >= 0 & ERR asn1.Marshal(tbs) != nil & ERR asn1.Unmarshal(tbsData) == nil & len(RES0 asn1.Unmarshal(tbsData)) <= 0",
       "ERROR when ERR asn1.Unmarshal(tbsData) != nil",
       "ERROR when ERR asn1.Unmarshal(tbsData) == nil & len(RES0 asn1.Unmarshal(tbsData)) <= 0 (in loop over tbs.Extensions)",
       "ERROR when ERR asn1.Unmarshal(tbsData) == nil & len(RES0 asn1.Unmarshal(tbsData)) > 0",
       "WHEN ACC(-1) >= 0 & ERR asn1.Marshal(tbs) == nil & ERR asn1.Unmarshal(tbsData) == nil & len(RES0 asn1.Unmarshal(tbsData)) <= 0 DO tbs <- asn1.Unmarshal(tbsData) ; loop over tbs.Extensions {!ELEM.Id.Equal(oid) ::  -> next || ACC(-1) < 0 & ELEM.Id.Equal(oid) :: ACC(-1) = INDEX -> next || ACC(-1) >= 0 & ELEM.Id.Equal(oid) ::  -> error} ; tbs.Extensions = append(tbs.Extensions[:ACC(-1)],tbs.Extensions[ACC(-1)+1:]...) ; tbs.Raw = nil ; use asn1.Marshal(tbs) THEN return asn1.Marshal(tbs)"] ∧
    Gen.buildPrecertPaths =
      ["ERROR when !FIRST(preIssuer.ExtKeyUsage;==:ExtKeyUsageCertificateTransparency;true;false) & ERR asn1.Unmarshal(RES0 removeExtension(tbsData,OIDExtensionCTPoison)) == nil & ERR removeExtension(tbsData,OIDExtensionCTPoison) == nil & len(RES0 asn1.Unmarshal(RES0 removeExtension(tbsData,OIDExtensionCTPoison))) <= 0 & preIssuer != nil",
       "ERROR when ERR asn1.Marshal(tbs) != nil & ERR asn1.Unmarshal(RES0 removeExtension(tbsData,OIDExtensionCTPoison)) == nil & ERR removeExtension(tbsData,OIDExtensionCTPoison) == nil & FIRST(preIssuer.ExtKeyUsage;==:ExtKeyUsageCertificateTransparency;true;false) & FIRST(preIssuer.Extensions;Id.Equal:OIDExtensionAuthorityKeyId;elem.Value;nil) != nil & FIRST(tbs.Extensions;Id.Equal:OIDExtensionAuthorityKeyId;index;-1) < 0 & len(RES0 asn1.Unmarshal(RES0 removeExtension(tbsData,OIDExtensionCTPoison))) <= 0 & preIssuer != nil",
       "ERROR when ERR asn1.Marshal(tbs) != nil & ERR asn1.Unmarshal(RES0 removeExtension(tbsData,OIDExtensionCTPoison)) == nil & ERR removeExtension(tbsData,OIDExtensionCTPoison) == nil & FIRST(preIssuer.ExtKeyUsage;==:ExtKeyUsageCertificateTransparency;true;false) & FIRST(preIssuer.Extensions;Id.Equal:OIDExtensionAuthorityKeyId;elem.Value;nil) != nil & FIRST(tbs.Extensions;Id.Equal:OIDExtensionAuthorityKeyId;index;-1) >= 0 & len(RES0 asn1.Unmarshal(RES0 removeExtension(tbsData,OIDExtensionCTPoison))) <= 0 & preIssuer != nil",
       "ERROR when ERR asn1.Marshal(tbs) != nil & ERR asn1.Unmarshal(RES0 removeExtension(tbsData,OIDExtensionCTPoison)) == nil & ERR removeExtension(tbsData,OIDExtensionCTPoison) == nil & FIRST(preIssuer.ExtKeyUsage;==:ExtKeyUsageCertificateTransparency;true;false) & FIRST(preIssuer.Extensions;Id.Equal:OIDExtensionAuthorityKeyId;elem.Value;nil) == nil & FIRST(tbs.Extensions;Id.Equal:OIDExtensionAuthorityKeyId;index;-1) < 0 & len(RES0 asn1.Unmarshal(RES0 removeExtension(tbsData,OIDExtensionCTPoison))) <= 0 & preIssuer != nil",
       "ERROR when ERR asn1.Marshal(tbs) != nil & ERR asn1.Unmarshal(RES0 removeExtension(tbsData,OIDExtensionCTPoison)) == nil & ERR removeExtension(tbsData,OIDExtensionCTPoison) == nil & FIRST(preIssuer.ExtKeyUsage;==:ExtKeyUsageCertificateTransparency;true;false) & FIRST(preIssuer.Extensions;Id.Equal:OIDExtensionAuthorityKeyId;elem.Value;nil) == nil & FIRST(tbs.Extensions;Id.Equal:OIDExtensionAuthorityKeyId;index;-1) >= 0 & len(RES0 asn1.Unmarshal(RES0 removeExtension(tbsData,OIDExtensionCTPoison))) <= 0 & preIssuer != nil",
       "ERROR when ERR asn1.Marshal(tbs) != nil & ERR asn1.Unmarshal(RES0 removeExtension(tbsData,OIDExtensionCTPoison)) == nil & ERR removeExtension(tbsData,OIDExtensionCTPoison) == nil & len(RES0 asn1.Unmarshal(RES0 removeExtension(tbsData,OIDExtensionCTPoison))) <= 0 & preIssuer == nil",
       "ERROR when ERR asn1.Unmarshal(RES0 removeExtension(tbsData,OIDExtensionCTPoison)) != nil & ERR removeExtension(tbsData,OIDExtensionCTPoison) == nil",
       "ERROR when ERR asn1.Unmarshal(RES0 removeExtension(tbsData,OIDExtensionCTPoison)) == nil & ERR removeExtension(tbsData,OIDExtensionCTPoison) == nil & len(RES0 asn1.Unmarshal(RES0 removeExtension(tbsData,OIDExtensionCTPoison))) > 0",
       "ERROR when ERR removeExtension(tbsData,OIDExtensionCTPoison) != nil",
       "WHEN ERR asn1.Marshal(tbs) == nil & ERR asn1.Unmarshal(RES0 removeExtension(tbsData,OIDExtensionCTPoison)) == nil & ERR removeExtension(tbsData,OIDExtensionCTPoison) == nil & FIRST(preIssuer.ExtKeyUsage;==:ExtKeyUsageCertificateTransparency;true;false) & FIRST(preIssuer.Extensions;Id.Equal:OIDExtensionAuthorityKeyId;elem.Value;nil) != nil & FIRST(tbs.Extensions;Id.Equal:OIDExtensionAuthorityKeyId;index;-1) < 0 & len(RES0 asn1.Unmarshal(RES0 removeExtension(tbsData,OIDExtensionCTPoison))) <= 0 & preIssuer != nil DO tbs <- asn1.Unmarshal(RES0 removeExtension(tbsData,OIDExtensionCTPoison)) ; tbs.Issuer.FullBytes = preIssuer.RawIssuer ; tbs.Extensions = append(tbs.Extensions,pkix.Extension{Critical:false,Id:OIDExtensionAuthorityKeyId,Value:FIRST(preIssuer.Extensions;Id.Equal:OIDExtensionAuthorityKeyId;elem.Value;nil)}) ; tbs.Raw = nil ; use asn1.Marshal(tbs) THEN return asn1.Marshal(tbs)",
       "WHEN ERR asn1.Marshal(tbs) == nil & ERR asn1.Unmarshal(RES0 removeExtension(tbsData,OIDExtensionCTPoison)) == nil & ERR removeExtension(tbsData,OIDExtensionCTPoison) == nil & FIRST(preIssuer.ExtKeyUsage;==:ExtKeyUsageCertificateTransparency;true;false) & FIRST(preIssuer.Extensions;Id.Equal:OIDExtensionAuthorityKeyId;elem.Value;nil) != nil & FIRST(tbs.Extensions;Id.Equal:OIDExtensionAuthorityKeyId;index;-1) >= 0 & len(RES0 asn1.Unmarshal(RES0 removeExtension(tbsData,OIDExtensionCTPoison))) <= 0 & preIssuer != nil DO tbs <- asn1.Unmarshal(RES0 removeExtension(tbsData,OIDExtensionCTPoison)) ; tbs.Issuer.FullBytes = preIssuer.RawIssuer ; tbs.Extensions[FIRST(tbs.Extensions;Id.Equal:OIDExtensionAuthorityKeyId;index;-1)].Value = FIRST(preIssuer.Extensions;Id.Equal:OIDExtensionAuthorityKeyId;elem.Value;nil) ; tbs.Raw = nil ; use asn1.Marshal(tbs) THEN return asn1.Marshal(tbs)",
       "WHEN ERR asn1.Marshal(tbs) == nil & ERR asn1.Unmarshal(RES0 removeExtension(tbsData,OIDExtensionCTPoison)) == nil & ERR removeExtension(tbsData,OIDExtensionCTPoison) == nil & FIRST(preIssuer.ExtKeyUsage;==:ExtKeyUsageCertificateTransparency;true;false) & FIRST(preIssuer.Extensions;Id.Equal:OIDExtensionAuthorityKeyId;elem.Value;nil) == nil & FIRST(tbs.Extensions;Id.Equal:OIDExtensionAuthorityKeyId;index;-1) < 0 & len(RES0 asn1.Unmarshal(RES0 removeExtension(tbsData,OIDExtensionCTPoison))) <= 0 & preIssuer != nil DO tbs <- asn1.Unmarshal(RES0 removeExtension(tbsData,OIDExtensionCTPoison)) ; tbs.Issuer.FullBytes = preIssuer.RawIssuer ; tbs.Raw = nil ; use asn1.Marshal(tbs) THEN return asn1.Marshal(tbs)",
       "WHEN ERR asn1.Marshal(tbs) == nil & ERR asn1.Unmarshal(RES0 removeExtension(tbsData,OIDExtensionCTPoison)) == nil & ERR removeExtension(tbsData,OIDExtensionCTPoison) == nil & FIRST(preIssuer.ExtKeyUsage;==:ExtKeyUsageCertificateTransparency;true;false) & FIRST(preIssuer.Extensions;Id.Equal:OIDExtensionAuthorityKeyId;elem.Value;nil) == nil & FIRST(tbs.Extensions;Id.Equal:OIDExtensionAuthorityKeyId;index;-1) >= 0 & len(RES0 asn1.Unmarshal(RES0 removeExtension(tbsData,OIDExtensionCTPoison))) <= 0 & preIssuer != nil DO tbs <- asn1.Unmarshal(RES0 removeExtension(tbsData,OIDExtensionCTPoison)) ; tbs.Issuer.FullBytes = preIssuer.RawIssuer ; tbs.Extensions = append(tbs.Extensions[:FIRST(tbs.Extensions;Id.Equal:OIDExtensionAuthorityKeyId;index;-1)],tbs.Extensions[FIRST(tbs.Extensions;Id.Equal:OIDExtensionAuthorityKeyId;index;-1)+1:]...) ; tbs.Raw = nil ; use asn1.Marshal(tbs) THEN return asn1.Marshal(tbs)",
       "WHEN ERR asn1.Marshal(tbs) == nil & ERR asn1.Unmarshal(RES0 removeExtension(tbsData,OIDExtensionCTPoison)) == nil & ERR removeExtension(tbsData,OIDExtensionCTPoison) == nil & len(RES0 asn1.Unmarshal(RES0 removeExtension(tbsData,OIDExtensionCTPoison))) <= 0 & preIssuer == nil DO tbs <- asn1.Unmarshal(RES0 removeExtension(tbsData,OIDExtensionCTPoison)) ; use asn1.Marshal(tbs) THEN return asn1.Marshal(tbs)"] := by
  repeat' apply And.intro
  all_goals first | rfl | decide

/-! ## DER: encodings are unique -/

/-- `parseTbs` and `marshalTbs` are mutually inverse: a byte string is a canonical TBSCertificate with content `t`
iff it is the marshalling of the well-formed `t`. In particular the canonical encoding of a content is unique. -/
theorem canonical_iff (bs : Bytes) (t : Tbs) : parseTbs bs = some t ↔ (t.wf = true ∧ marshalTbs t = bs) := by
  constructor
  · intro h; have := parseTbs_eq h; exact ⟨this.2, this.1⟩
  · rintro ⟨hw, rfl⟩; exact parseTbs_marshal t hw

/-- TLV level: what is parsed is exactly what would be encoded (`parseTagAndLength` admits one form only) -/
theorem tlv_unique (bs : Bytes) (t : Tlv) (r : Bytes) :
    parseTlv bs = some (t, r) ↔ (t.ok = true ∧ bs = encTlv t ++ r) := by
  constructor
  · intro h; have := parseTlv_eq h; exact ⟨this.2, this.1⟩
  · rintro ⟨ho, rfl⟩; exact parseTlv_encTlv t r ho

/-- contents split into TLVs in exactly one way -/
theorem split_unique (bs : Bytes) (ts : List Tlv) :
    splitTlvs bs = some ts ↔ ((∀ t ∈ ts, t.ok = true) ∧ bs = concatTlvs ts) := by
  constructor
  · intro h; have := splitTlvs_eq h; exact ⟨this.2, this.1⟩
  · rintro ⟨ho, rfl⟩; exact splitTlvs_concat ts ho

/-- minimal forms are read, the same value in a longer form is refused: long form below 128, a leading zero length octet,
an indefinite length, a high-tag-number form for a tag below 31 -/
example : parseTlv [0x04, 0x02, 0xaa, 0xbb, 0xff] = some (⟨[0x04], [0xaa, 0xbb]⟩, [0xff]) ∧
    parseTlv [0x04, 0x81, 0x02, 0xaa, 0xbb] = none ∧ parseTlv [0x24, 0x80, 0x00, 0x00] = none ∧
    parseTlv [0x1f, 0x1e, 0x00] = none ∧ parseTlv [0xbf, 0x8f, 0x10, 0x01, 0x00] = some (⟨[0xbf, 0x8f, 0x10], [0x00]⟩, []) ∧
    splitTlvs [0x05, 0x00, 0x02, 0x01, 0x07] = some [⟨[0x05], []⟩, ⟨[0x02], [0x07]⟩] ∧ splitTlvs [0x05, 0x00, 0x02] = none := by
  decide

/-! ## concrete material for the non-vacuity examples -/

def utc2030 : Bytes := [0x33, 0x30, 0x30, 0x31, 0x30, 0x31, 0x30, 0x30, 0x30, 0x30, 0x30, 0x30, 0x5a]   -- "300101000000Z"
def utc2049 : Bytes := [0x34, 0x39, 0x31, 0x32, 0x33, 0x31, 0x32, 0x33, 0x35, 0x39, 0x35, 0x39, 0x5a]   -- "491231235959Z"

/-- a v3 certificate content with an Ed25519 key and empty names, no extensions yet -/
def exBase : Tbs :=
  { version := some ⟨[0xa0], [0x02, 0x01, 0x02]⟩, serial := ⟨[0x02], [0x05]⟩,
    sigAlg := ⟨[0x30], [0x06, 0x03, 0x2b, 0x65, 0x70]⟩, issuer := ⟨[0x30], []⟩,
    validity := ⟨[0x30], encTlv ⟨[0x17], utc2030⟩ ++ encTlv ⟨[0x17], utc2049⟩⟩, subject := ⟨[0x30], []⟩,
    spki := ⟨[0x30], [0x30, 0x05, 0x06, 0x03, 0x2b, 0x65, 0x70, 0x03, 0x01, 0x00]⟩,
    uid := none, suid := none, exts := none }

def exKU : Ext := ⟨[0x55, 0x1d, 0x0f], true, [0x03, 0x02, 0x07, 0x80]⟩            -- keyUsage, critical
def exAKI : Ext := ⟨akiOid, false, [0x30, 0x03, 0x80, 0x01, 0x07]⟩               -- authorityKeyIdentifier (key id 07)
def exPoison : Ext := ⟨poisonOid, true, [0x05, 0x00]⟩
def exSct : Ext := ⟨sctOid, false, [0x04, 0x06, 0x00, 0x04, 0x00, 0x02, 0xaa, 0xbb]⟩  -- one 2-byte "SCT"
/-- the pre-issuer's own issuer is named by `31 00`-content RDNSequence `30 02 31 00`; its AKI has key id 09 -/
def exPre : PreIssuer := ⟨⟨[0x30], [0x31, 0x00]⟩, some [0x30, 0x03, 0x80, 0x01, 0x09], true⟩

/-! ## `remove_exact` -/

/-- **Removal is exact.** For a canonical TBSCertificate `bs` with content `t`: `removeExtension` fails iff the OID occurs
0 or ≥ 2 times; when it succeeds the input is `30 len (P ‖ a3 len (30 len (A ‖ X ‖ B)))` and the output is
`30 len' (P ‖ a3 len' (30 len' (A ‖ B)))` — `X` the one extension with that OID, `P` the fields before the extensions,
`A`/`B` the encodings of the extensions before/after: every other byte equal and in order, only the three enclosing
lengths re-encoded. The output is again canonical. -/
theorem remove_exact (oid bs : Bytes) (t : Tbs) (h : parseTbs bs = some t) :
    (removeExt oid bs = none ↔ countOid oid (t.exts.getD []) ≠ 1) ∧
    ∀ out, removeExt oid bs = some out →
      ∃ A x B, t.exts = some (A ++ x :: B) ∧ x.oid = oid ∧ (∀ e ∈ A ++ B, e.oid ≠ oid) ∧
        bs = encTlv ⟨[0x30], concatTlvs t.pre ++
               encTlv ⟨[0xa3], encTlv ⟨[0x30], encExts A ++ encTlv (encExt x) ++ encExts B⟩⟩⟩ ∧
        out = encTlv ⟨[0x30], concatTlvs t.pre ++ encTlv ⟨[0xa3], encTlv ⟨[0x30], encExts A ++ encExts B⟩⟩⟩ ∧
        parseTbs out = some (t.withExts (A ++ B)) := by
  obtain ⟨hbs, hw⟩ := parseTbs_eq h
  constructor
  · simp only [removeExt, h, removeExtT, removeOneGo_eq]
    rw [← removeOne_none_iff]
    cases removeOne oid (t.exts.getD []) <;> simp
  · intro out ho
    simp only [removeExt, h, removeExtT, removeOneGo_eq] at ho
    cases hr : removeOne oid (t.exts.getD []) with
    | none => simp [hr] at ho
    | some r =>
      simp only [hr] at ho
      simp at ho
      obtain ⟨A, x, B, h1, h2, h3, h4, h5⟩ := removeOne_spec hr
      have hex : t.exts = some (A ++ x :: B) := by
        cases he : t.exts with
        | none => simp [he] at h1
        | some es => simp [he] at h1; simp [h1]
      subst h2
      have hoks : ∀ e ∈ A ++ B, e.ok = true := by
        have h10 := (wf_parts hw).2.2.2.2.2.2.2.2.2.1
        rw [hex] at h10
        simp only [optAll, extsOk, Bool.and_eq_true, List.all_eq_true] at h10
        intro e he
        apply h10.1.1
        simp at he ⊢
        rcases he with he | he
        · exact Or.inl he
        · exact Or.inr (Or.inr he)
      have hlen : (encExts (A ++ B)).length ≤ (encExts (A ++ x :: B)).length := by
        simp [encExts_append, encExts_cons]
      have hw' := wf_setExts hw hex hoks hlen
      refine ⟨A, x, B, hex, h3, ?_, ?_, ?_, ?_⟩
      · intro e he
        simp at he
        rcases he with he | he
        · exact h4 e he
        · exact h5 e he
      · rw [← hbs]
        simp [marshalTbs, Tbs.fields, hex, optList, concatTlvs_append, concatTlvs, extsField, encExts_append, encExts_cons]
      · rw [← ho]
        simp [marshalTbs, Tbs.fields, optList, concatTlvs_append, concatTlvs, extsField, Tbs.pre, encExts_append]
      · rw [← ho]
        exact parseTbs_marshal _ hw'

/-- **The search loop of `removeExtension` — regenerated from the source — deletes exactly the one match.** `removeOneGo` folds
`Gen.removeExtensionStep` (the loop body as it stands in x509.go) over the extensions and then applies the regenerated
`extAt == -1` test: it fails iff the OID occurs 0 or ≥ 2 times, and otherwise returns the list without its single match. -/
theorem remove_loop_exact (oid : Bytes) (es : List Ext) :
    (removeOneGo oid es = none ↔ countOid oid es ≠ 1) ∧
    ∀ r, removeOneGo oid es = some r →
      ∃ A x B, es = A ++ x :: B ∧ r = A ++ B ∧ x.oid = oid ∧ (∀ e ∈ A ++ B, e.oid ≠ oid) := by
  rw [removeOneGo_eq]
  refine ⟨removeOne_none_iff oid es, ?_⟩
  intro r hr
  obtain ⟨A, x, B, h1, h2, h3, h4, h5⟩ := removeOne_spec hr
  refine ⟨A, x, B, h1, h2, h3, ?_⟩
  intro e he
  simp at he
  rcases he with he | he
  · exact h4 e he
  · exact h5 e he

example : removeOneGo poisonOid [exKU, exPoison, exAKI] = some [exKU, exAKI] ∧ removeOneGo poisonOid [exKU, exAKI] = none ∧
    removeOneGo poisonOid [exPoison, exKU, exPoison] = none ∧ removeOneGo poisonOid [exPoison] = some [] := by
  decide

/-- `[keyUsage, poison]`: the poison is removed, `a3 27 30 25 … ` becomes `a3 12 30 10 …`, the outer `30 68` becomes `30 53` -/
example : parseTbs (marshalTbs (exBase.withExts [exKU, exPoison])) = some (exBase.withExts [exKU, exPoison]) ∧
    removeExt poisonOid (marshalTbs (exBase.withExts [exKU, exPoison])) = some (marshalTbs (exBase.withExts [exKU])) ∧
    removeExt sctOid (marshalTbs (exBase.withExts [exKU, exPoison])) = none ∧
    removeExt poisonOid (marshalTbs (exBase.withExts [exPoison, exKU, exPoison])) = none := by
  set_option maxRecDepth 100000 in decide

/-- removing the only extension leaves `a3 02 30 00`, not an absent field -/
example : removeExt poisonOid (marshalTbs (exBase.withExts [exPoison])) = some (marshalTbs (exBase.withExts [])) ∧
    marshalTbs (exBase.withExts []) ≠ marshalTbs exBase ∧
    (marshalTbs (exBase.withExts [])).drop ((marshalTbs (exBase.withExts [])).length - 4) = [0xa3, 0x02, 0x30, 0x00] := by
  set_option maxRecDepth 100000 in decide

/-! ## `routes_commute` (direct issuer) -/

/-- **The two routes commute (direct issuer).** For every certificate content `t`, every list `es` of other extensions,
every position `i` of the poison and `j` of the SCT list, any criticality and value of either:
`BuildPrecertTBS(precert, nil)` and `RemoveSCTList(final)` are the same bytes — the marshalling of `t` with exactly `es`
(an empty `es` gives `a3 02 30 00` on both sides). The well-formedness hypotheses say that both inputs are canonical. -/
theorem routes_commute (t : Tbs) (es : List Ext) (i j : Nat) (pc sc : Bool) (pv sv : Bytes)
    (hnp : hasOid poisonOid es = false) (hns : hasOid sctOid es = false)
    (hwp : (t.withExts (insertAt es i ⟨poisonOid, pc, pv⟩)).wf = true)
    (hws : (t.withExts (insertAt es j ⟨sctOid, sc, sv⟩)).wf = true) :
    buildPrecertTBS (marshalTbs (t.withExts (insertAt es i ⟨poisonOid, pc, pv⟩))) none
      = removeExt sctOid (marshalTbs (t.withExts (insertAt es j ⟨sctOid, sc, sv⟩))) ∧
    buildPrecertTBS (marshalTbs (t.withExts (insertAt es i ⟨poisonOid, pc, pv⟩))) none = some (marshalTbs (t.withExts es)) := by
  obtain ⟨h1, hw1⟩ := removeExt_insert t es i ⟨poisonOid, pc, pv⟩ poisonOid rfl hnp hwp
  obtain ⟨h2, _⟩ := removeExt_insert t es j ⟨sctOid, sc, sv⟩ sctOid rfl hns hws
  have : buildPrecertTBS (marshalTbs (t.withExts (insertAt es i ⟨poisonOid, pc, pv⟩))) none = some (marshalTbs (t.withExts es)) := by
    simp only [buildPrecertTBS, h1, parseTbs_marshal _ hw1]
  exact ⟨by rw [this, h2], this⟩

/-- The same for **all positions at once**: whether the two inputs are canonical does not depend on where the poison / the SCT
list sits (`wf_insertAt`), so it is enough to know it for one position. -/
theorem routes_commute_all (t : Tbs) (es : List Ext) (pc sc : Bool) (pv sv : Bytes)
    (hnp : hasOid poisonOid es = false) (hns : hasOid sctOid es = false)
    (hwp : (t.withExts (⟨poisonOid, pc, pv⟩ :: es)).wf = true)
    (hws : (t.withExts (⟨sctOid, sc, sv⟩ :: es)).wf = true) (i j : Nat) :
    buildPrecertTBS (marshalTbs (t.withExts (insertAt es i ⟨poisonOid, pc, pv⟩))) none
      = removeExt sctOid (marshalTbs (t.withExts (insertAt es j ⟨sctOid, sc, sv⟩))) :=
  (routes_commute t es i j pc sc pv sv hnp hns (by rw [wf_insertAt]; exact hwp) (by rw [wf_insertAt]; exact hws)).1

/-- every position of the poison against every position of the SCT list, on a concrete certificate with two other extensions -/
example (i j : Nat) :
    buildPrecertTBS (marshalTbs (exBase.withExts (insertAt [exKU, exAKI] i exPoison))) none
      = removeExt sctOid (marshalTbs (exBase.withExts (insertAt [exKU, exAKI] j exSct))) :=
  routes_commute_all exBase [exKU, exAKI] true false _ _ (by decide) (by decide)
    (by set_option maxRecDepth 100000 in decide) (by set_option maxRecDepth 100000 in decide) i j

/-- poison in front, SCT list at the end, one other extension -/
example : (exBase.withExts (insertAt [exKU] 0 exPoison)).wf = true ∧ (exBase.withExts (insertAt [exKU] 1 exSct)).wf = true ∧
    hasOid poisonOid [exKU] = false ∧ hasOid sctOid [exKU] = false ∧
    buildPrecertTBS (marshalTbs (exBase.withExts [exPoison, exKU])) none = removeExt sctOid (marshalTbs (exBase.withExts [exKU, exSct])) ∧
    (buildPrecertTBS (marshalTbs (exBase.withExts [exPoison, exKU])) none).isSome = true := by
  set_option maxRecDepth 100000 in decide

/-! ## every accepted input, canonical or not

`laxTbs` (CTV/Model/TbsLax.lean) models what `asn1.Unmarshal` makes of **every** TBSCertificate it accepts — explicit v1, an explicit
`critical FALSE`, UTCTime without seconds, GeneralizedTime inside 1950..2049, trailing elements, wrong `[0]`/`[3]` wrapper lengths … —
in the normal form `asn1.Marshal` writes; `removeExtLax` / `buildPrecertTBSLax` are the two functions over it. These are what the
driver answers with on every trace line, so the implementation's real result is compared for every input, not only canonical ones. -/

/-- **On canonical input the two models coincide** (so everything proved about `parseTbs` / `removeExt` / `buildPrecertTBS`
holds for the functions the driver runs): same content, same results; and an input is canonical iff the lax model reproduces it. -/
theorem lax_agrees_on_canonical (bs : Bytes) (t : Tbs) (h : parseTbs bs = some t) :
    laxTbs bs = some t ∧ remarshalLax bs = some bs ∧
    (∀ oid, removeExtLax oid bs = removeExt oid bs) ∧ (∀ p, buildPrecertTBSLax bs p = buildPrecertTBS bs p) := by
  have hl := lax_of_canonical h
  refine ⟨hl, by simp [remarshalLax, hl, (parseTbs_eq h).1], fun oid => removeExtLax_canonical oid h, ?_⟩
  intro p
  unfold buildPrecertTBSLax buildPrecertTBS
  rw [removeExtLax_canonical poisonOid h]
  cases hr : removeExt poisonOid bs with
  | none => rfl
  | some d =>
    obtain ⟨A, x, B, _, _, _, _, _, hp⟩ := (remove_exact poisonOid bs t h).2 d hr
    simp only
    rw [hp, lax_of_canonical hp]
    cases p <;> rfl

theorem canonical_iff_reproduced (bs : Bytes) (t : Tbs) :
    parseTbs bs = some t ↔ (laxTbs bs = some t ∧ t.wf = true ∧ marshalTbs t = bs) := by
  constructor
  · intro h; exact ⟨lax_of_canonical h, (parseTbs_eq h).2, (parseTbs_eq h).1⟩
  · rintro ⟨_, hw, hm⟩; exact (canonical_iff bs t).mpr ⟨hw, hm⟩

/- FULL (clause 1 for every accepted input): `∀ pre fin, laxTbs pre = some (t.withExts (insertAt es i poison)) →
   laxTbs fin = some (t.withExts (insertAt es j sct)) → buildPrecertTBSLax pre none = removeExtLax sctOid fin`, with no further hypothesis.
   PROVED below with the two hypotheses that those normal forms are well-formed (`wf`). MISSING: `laxTbs bs = some t → t.wf`
   ("the normal form the fork writes is canonical"). It is false at one boundary — normalising can *add* bytes (`00` seconds of a
   UTCTime), so a content within two bytes of the fork's 2^31 length limit has a normal form the fork could not read back — and is
   otherwise unproved (it needs the per-field canonical-form predicates for every accepted form). The driver evaluates `t.wf` for the
   normal form of every traced input and answers `MODEL-INCONSISTENT normal-form-not-wf` if it fails; it never has. -/
/-- **The two routes commute for every accepted input** whose content is the same up to the poison / SCT-list extension, whatever
non-canonical form either input is written in (the forms need not even be the same on both sides). -/
theorem routes_commute_accepted_partial (pre fin : Bytes) (t : Tbs) (es : List Ext) (i j : Nat) (pc sc : Bool) (pv sv : Bytes)
    (hp : laxTbs pre = some (t.withExts (insertAt es i ⟨poisonOid, pc, pv⟩)))
    (hf : laxTbs fin = some (t.withExts (insertAt es j ⟨sctOid, sc, sv⟩)))
    (hnp : hasOid poisonOid es = false) (hns : hasOid sctOid es = false)
    (hwp : (t.withExts (insertAt es i ⟨poisonOid, pc, pv⟩)).wf = true)
    (hws : (t.withExts (insertAt es j ⟨sctOid, sc, sv⟩)).wf = true) :
    buildPrecertTBSLax pre none = removeExtLax sctOid fin ∧
    removeExtLax sctOid fin = some (marshalTbs (t.withExts es)) ∧
    remarshalLax (marshalTbs (t.withExts es)) = some (marshalTbs (t.withExts es)) := by
  obtain ⟨h1, hw⟩ := removeExtLax_insert pre t es i _ poisonOid rfl hnp hp hwp
  obtain ⟨h2, _⟩ := removeExtLax_insert fin t es j _ sctOid rfl hns hf hws
  have hl := lax_marshal _ hw
  refine ⟨?_, h2, by simp [remarshalLax, hl]⟩
  simp only [buildPrecertTBSLax, h1, hl, h2]

/-- explicit v1 (`a0 03 02 01 00`) and a trailing OCTET STRING after the SubjectPublicKeyInfo: accepted, not canonical, and
re-marshalled without either (8 bytes shorter) -/
example :
    let bs : Bytes := [0x30, 0x42, 0xa0, 0x03, 0x02, 0x01, 0x00, 0x02, 0x01, 0x05, 0x30, 0x05, 0x06, 0x03, 0x2b, 0x65, 0x70, 0x30, 0x00,
      0x30, 0x1e, 0x17, 0x0d] ++ utc2030 ++ [0x17, 0x0d] ++ utc2049 ++
      [0x30, 0x00, 0x30, 0x0a, 0x30, 0x05, 0x06, 0x03, 0x2b, 0x65, 0x70, 0x03, 0x01, 0x00, 0x04, 0x01, 0x00]
    parseTbs bs = none ∧ (laxTbs bs).isSome = true ∧ remarshalLax bs ≠ some bs ∧
    (remarshalLax bs).map List.length = some (bs.length - 8) := by
  set_option maxRecDepth 100000 in decide

/-! ## `buildPrecertTBS_cases` and the authority-key-id update -/

/-- no extension of `A` is an authority key id -/
def noAki (A : List Ext) : Prop := ∀ e ∈ A, e.oid ≠ akiOid

/-- how the final certificate's extension list `fe` relates to the precertificate's `pe` (poison aside) when the precertificate
was signed by a pre-issuer whose own authority key id is `aki`: the three cases of the code, and the trivial one -/
inductive AkiRel : Option Bytes → List Ext → List Ext → Prop
  /-- precertificate has an AKI, pre-issuer has one: same place, same criticality, the pre-issuer's value -/
  | replace (A B : List Ext) (x : Ext) (v : Bytes) : x.oid = akiOid → noAki A → AkiRel (some v) (A ++ x :: B) (A ++ { x with val := v } :: B)
  /-- precertificate has an AKI, pre-issuer has none: the final certificate has none -/
  | delete (A B : List Ext) (x : Ext) : x.oid = akiOid → noAki A → AkiRel none (A ++ x :: B) (A ++ B)
  /-- precertificate has none, pre-issuer has one: the final certificate carries it **as its last extension, non-critical** -/
  | append (es : List Ext) (v : Bytes) : noAki es → AkiRel (some v) es (es ++ [⟨akiOid, false, v⟩])
  /-- neither has one -/
  | same (es : List Ext) : noAki es → AkiRel none es es

/-- the code's update computes exactly that relation -/
theorem akiUpdate_rel {aki : Option Bytes} {pe fe : List Ext} (h : AkiRel aki pe fe) : akiUpdate aki (some pe) = some fe := by
  cases h with
  | replace A B x v hx hA =>
    have : hasOid akiOid (A ++ x :: B) = true := by simp [hasOid, hx]
    simp [akiUpdate, this, setFirst_mid akiOid v A B x hx hA]
  | delete A B x hx hA =>
    have : hasOid akiOid (A ++ x :: B) = true := by simp [hasOid, hx]
    simp [akiUpdate, this, eraseFirst_mid akiOid A B x hx hA]
  | append _ v hn =>
    have : hasOid akiOid pe = false := hasOid_false.mpr hn
    simp [akiUpdate, this]
  | same _ hn =>
    have : hasOid akiOid pe = false := hasOid_false.mpr hn
    simp [akiUpdate, this]

/-- and every extension list falls under one of the cases (for either kind of pre-issuer) -/
theorem akiRel_total (aki : Option Bytes) (pe : List Ext) : ∃ fe, AkiRel aki pe fe := by
  by_cases h : hasOid akiOid pe = true
  · have : ∃ A x B, pe = A ++ x :: B ∧ x.oid = akiOid ∧ noAki A := by
      clear aki
      induction pe with
      | nil => simp [hasOid] at h
      | cons e es ih =>
        by_cases he : e.oid = akiOid
        · exact ⟨[], e, es, rfl, he, by simp [noAki]⟩
        · have : hasOid akiOid es = true := by simpa [hasOid, he] using h
          obtain ⟨A, x, B, h1, h2, h3⟩ := ih this
          refine ⟨e :: A, x, B, by simp [h1], h2, ?_⟩
          intro y hy; simp at hy
          rcases hy with rfl | hy
          · exact he
          · exact h3 y hy
    obtain ⟨A, x, B, rfl, hx, hA⟩ := this
    cases aki with
    | none => exact ⟨_, AkiRel.delete A B x hx hA⟩
    | some v => exact ⟨_, AkiRel.replace A B x v hx hA⟩
  · have hn : noAki pe := hasOid_false.mp (by simpa using h)
    cases aki with
    | none => exact ⟨_, AkiRel.same pe hn⟩
    | some v => exact ⟨_, AkiRel.append pe v hn⟩

/-- **Issuer and authority key id are replaced only in the pre-issuer case.** For a canonical precertificate TBS with content `t`:
* without a pre-issuer the result is `removeExtension(poison)` and nothing else (`remove_exact` then says byte for byte what that is);
* with a pre-issuer the call fails unless the poison occurs exactly once and the pre-issuer carries the CT EKU, and otherwise
  the result is the marshalling of `t` minus the poison with `issuer := RawIssuer of the pre-issuer` and the extension list
  related by `AkiRel` — every other field is `t`'s. -/
theorem buildPrecertTBS_cases (bs : Bytes) (t : Tbs) (h : parseTbs bs = some t) :
    buildPrecertTBS bs none = removeExt poisonOid bs ∧
    ∀ p : PreIssuer,
      (buildPrecertTBS bs (some p) = none ↔ (countOid poisonOid (t.exts.getD []) ≠ 1 ∨ p.ctEku = false)) ∧
      ∀ out, buildPrecertTBS bs (some p) = some out →
        ∃ pe fe, removeOne poisonOid (t.exts.getD []) = some pe ∧ AkiRel p.aki pe fe ∧
          out = marshalTbs { t with issuer := p.issuer, exts := some fe } := by
  have hre := remove_exact poisonOid bs t h
  constructor
  · cases hr : removeExt poisonOid bs with
    | none => simp [buildPrecertTBS, hr]
    | some d =>
      obtain ⟨A, x, B, _, _, _, _, _, hp⟩ := hre.2 d hr
      simp [buildPrecertTBS, hr, hp]
  · intro p
    cases hr : removeExt poisonOid bs with
    | none =>
      have hc := hre.1.mp hr
      constructor
      · simp [buildPrecertTBS, hr, hc]
      · intro out ho; simp [buildPrecertTBS, hr] at ho
    | some d =>
      have hc : ¬ countOid poisonOid (t.exts.getD []) ≠ 1 := by
        intro hc; have := hre.1.mpr hc; rw [hr] at this; simp at this
      obtain ⟨A, x, B, hex, hxo, hAB, _, _, hp⟩ := hre.2 d hr
      have hrm : removeOne poisonOid (t.exts.getD []) = some (A ++ B) := by
        rw [hex]
        simp only [Option.getD_some]
        exact removeOne_mid poisonOid A B x hxo (fun e he => hAB e (by simp [he])) (fun e he => hAB e (by simp [he]))
      constructor
      · cases he : p.ctEku <;> simp [buildPrecertTBS, hr, hp, he, hc]
      · intro out ho
        simp only [buildPrecertTBS, hr, hp] at ho
        split at ho
        · obtain ⟨fe, hfe⟩ := akiRel_total p.aki (A ++ B)
          refine ⟨A ++ B, fe, hrm, hfe, ?_⟩
          simp at ho
          rw [← ho]
          simp [preIssuerEdit, Tbs.withExts, akiUpdate_rel hfe]
        · simp at ho

/-- AKI replaced in place; deleted; appended; and refusal without the CT EKU -/
example :
    buildPrecertTBS (marshalTbs (exBase.withExts [exKU, exAKI, exPoison])) (some exPre)
      = some (marshalTbs { exBase with issuer := exPre.issuer, exts := some [exKU, { exAKI with val := [0x30, 0x03, 0x80, 0x01, 0x09] }] }) ∧
    buildPrecertTBS (marshalTbs (exBase.withExts [exAKI, exPoison])) (some { exPre with aki := none })
      = some (marshalTbs { exBase with issuer := exPre.issuer, exts := some [] }) ∧
    buildPrecertTBS (marshalTbs (exBase.withExts [exPoison, exKU])) (some exPre)
      = some (marshalTbs { exBase with issuer := exPre.issuer, exts := some [exKU, ⟨akiOid, false, [0x30, 0x03, 0x80, 0x01, 0x09]⟩] }) ∧
    buildPrecertTBS (marshalTbs (exBase.withExts [exPoison, exKU])) (some { exPre with ctEku := false }) = none := by
  set_option maxRecDepth 100000 in decide

/-! ## `routes_commute_preissuer` -/

/-- **The two routes commute (pre-issuer).** Content `c`; the precertificate names the pre-issuer (`piName`, arbitrary) as issuer
and carries the extensions `pe` plus the poison at any position `i`; the final certificate names the pre-issuer's own issuer
(`p.issuer`) and carries `fe` plus the SCT list at any position `j`, where `fe` relates to `pe` by `AkiRel p.aki` — all four
present/absent combinations of the authority key id (in the `append` case the relation *is* the hypothesis that the final
issuer writes the key id as the last extension, non-critical). Then `BuildPrecertTBS(precert, preIssuer)` and
`RemoveSCTList(final)` are the same bytes. -/
/- FULL (quantifier "with and without authority key identifiers on either side"): for EVERY final certificate issued by the pre-issuer's
   issuer for the same content. PROVED: for the final certificates whose extension list is `AkiRel p.aki pe fe`-related to the
   precertificate's. MISSING, and false on the real code: precertificate without AKI + pre-issuer with AKI + a final certificate that
   carries its AKI anywhere but last (or critical) — e.g. every certificate crypto/x509.CreateCertificate issues; the code appends the
   key id at the end (`tbs.Extensions = append(tbs.Extensions, authKeyIDExt)`), so the two routes then differ, in exactly the position
   of that one extension (asserted by the harness in that branch: `class:aki-appended-vs-library-placement…`). -/
theorem routes_commute_preissuer (c : Tbs) (p : PreIssuer) (piName : Tlv) (pe fe : List Ext) (i j : Nat)
    (pc sc : Bool) (pv sv : Bytes) (hEku : p.ctEku = true) (hrel : AkiRel p.aki pe fe)
    (hnp : hasOid poisonOid pe = false) (hns : hasOid sctOid fe = false)
    (hwp : (({ c with issuer := piName } : Tbs).withExts (insertAt pe i ⟨poisonOid, pc, pv⟩)).wf = true)
    (hws : (({ c with issuer := p.issuer } : Tbs).withExts (insertAt fe j ⟨sctOid, sc, sv⟩)).wf = true) :
    buildPrecertTBS (marshalTbs (({ c with issuer := piName } : Tbs).withExts (insertAt pe i ⟨poisonOid, pc, pv⟩))) (some p)
      = removeExt sctOid (marshalTbs (({ c with issuer := p.issuer } : Tbs).withExts (insertAt fe j ⟨sctOid, sc, sv⟩))) ∧
    buildPrecertTBS (marshalTbs (({ c with issuer := piName } : Tbs).withExts (insertAt pe i ⟨poisonOid, pc, pv⟩))) (some p)
      = some (marshalTbs (({ c with issuer := p.issuer } : Tbs).withExts fe)) := by
  obtain ⟨h1, hw1⟩ := removeExt_insert { c with issuer := piName } pe i ⟨poisonOid, pc, pv⟩ poisonOid rfl hnp hwp
  obtain ⟨h2, _⟩ := removeExt_insert { c with issuer := p.issuer } fe j ⟨sctOid, sc, sv⟩ sctOid rfl hns hws
  have : buildPrecertTBS (marshalTbs (({ c with issuer := piName } : Tbs).withExts (insertAt pe i ⟨poisonOid, pc, pv⟩))) (some p)
      = some (marshalTbs (({ c with issuer := p.issuer } : Tbs).withExts fe)) := by
    simp only [buildPrecertTBS, h1, parseTbs_marshal _ hw1, hEku, if_true]
    simp [preIssuerEdit, Tbs.withExts, akiUpdate_rel hrel]
  exact ⟨by rw [this, h2], this⟩

/-- … for all positions at once -/
theorem routes_commute_preissuer_all (c : Tbs) (p : PreIssuer) (piName : Tlv) (pe fe : List Ext)
    (pc sc : Bool) (pv sv : Bytes) (hEku : p.ctEku = true) (hrel : AkiRel p.aki pe fe)
    (hnp : hasOid poisonOid pe = false) (hns : hasOid sctOid fe = false)
    (hwp : (({ c with issuer := piName } : Tbs).withExts (⟨poisonOid, pc, pv⟩ :: pe)).wf = true)
    (hws : (({ c with issuer := p.issuer } : Tbs).withExts (⟨sctOid, sc, sv⟩ :: fe)).wf = true) (i j : Nat) :
    buildPrecertTBS (marshalTbs (({ c with issuer := piName } : Tbs).withExts (insertAt pe i ⟨poisonOid, pc, pv⟩))) (some p)
      = removeExt sctOid (marshalTbs (({ c with issuer := p.issuer } : Tbs).withExts (insertAt fe j ⟨sctOid, sc, sv⟩))) :=
  (routes_commute_preissuer c p piName pe fe i j pc sc pv sv hEku hrel hnp hns
    (by rw [wf_insertAt]; exact hwp) (by rw [wf_insertAt]; exact hws)).1

/-- append case, every position against every position: the final issuer writes the key id last -/
example (i j : Nat) :
    buildPrecertTBS (marshalTbs (({ exBase with issuer := ⟨[0x30], [0x31, 0x01, 0x00]⟩ } : Tbs).withExts (insertAt [exKU] i exPoison))) (some exPre)
      = removeExt sctOid (marshalTbs (({ exBase with issuer := exPre.issuer } : Tbs).withExts
          (insertAt [exKU, ⟨akiOid, false, [0x30, 0x03, 0x80, 0x01, 0x09]⟩] j exSct))) :=
  routes_commute_preissuer_all exBase exPre ⟨[0x30], [0x31, 0x01, 0x00]⟩ [exKU] _ true false _ _ rfl
    (AkiRel.append [exKU] _ (by intro e he; simp at he; subst he; decide)) (by decide) (by decide)
    (by set_option maxRecDepth 100000 in decide) (by set_option maxRecDepth 100000 in decide) i j

/-- nothing but the poison / the SCT list, pre-issuer without authority key id: both routes keep the empty `[3]` field (`a3 02 30 00`) -/
example :
    buildPrecertTBS (marshalTbs (({ exBase with issuer := ⟨[0x30], [0x31, 0x01, 0x00]⟩ } : Tbs).withExts [exPoison])) (some { exPre with aki := none })
      = removeExt sctOid (marshalTbs (({ exBase with issuer := exPre.issuer } : Tbs).withExts [exSct])) ∧
    removeExt sctOid (marshalTbs (({ exBase with issuer := exPre.issuer } : Tbs).withExts [exSct]))
      = some (marshalTbs (({ exBase with issuer := exPre.issuer } : Tbs).withExts [])) ∧
    (marshalTbs (({ exBase with issuer := exPre.issuer } : Tbs).withExts [])).drop
      ((marshalTbs (({ exBase with issuer := exPre.issuer } : Tbs).withExts [])).length - 4) = [0xa3, 0x02, 0x30, 0x00] := by
  set_option maxRecDepth 100000 in decide

/-- replace case: precertificate issued by the pre-issuer (issuer name `30 02 31 01`… here `30 00`-style stand-in, AKI key id 07),
final certificate issued by the pre-issuer's issuer (AKI key id 09) -/
example :
    AkiRel exPre.aki [exKU, exAKI] [exKU, { exAKI with val := [0x30, 0x03, 0x80, 0x01, 0x09] }] ∧
    buildPrecertTBS (marshalTbs (({ exBase with issuer := ⟨[0x30], [0x31, 0x01, 0x00]⟩ } : Tbs).withExts [exKU, exPoison, exAKI])) (some exPre)
      = removeExt sctOid (marshalTbs (({ exBase with issuer := exPre.issuer } : Tbs).withExts
          [exSct, exKU, { exAKI with val := [0x30, 0x03, 0x80, 0x01, 0x09] }])) ∧
    (removeExt sctOid (marshalTbs (({ exBase with issuer := exPre.issuer } : Tbs).withExts
          [exSct, exKU, { exAKI with val := [0x30, 0x03, 0x80, 0x01, 0x09] }]))).isSome = true := by
  refine ⟨?_, ?_⟩
  · exact AkiRel.replace [exKU] [] exAKI _ rfl (by intro e he; simp at he; subst he; decide)
  · set_option maxRecDepth 100000 in decide

/-! ## the leaf builders -/

/-- who is a pre-issuer is decided by the CT key purpose among the KeyPurposeIds of `chain[1]` — and by nothing else -/
theorem preissuer_iff_ct_eku (c : Chain1) :
    (preIssuerOf (some c) = some c.pre ↔ ctEkuOid ∈ c.ekus) ∧ (preIssuerOf (some c) = none ↔ ctEkuOid ∉ c.ekus) ∧
    c.pre.ctEku = c.ekus.contains ctEkuOid ∧ preIssuerOf none = none := by
  simp only [preIssuerOf, Chain1.hasCtEku, Chain1.pre]
  by_cases h : ctEkuOid ∈ c.ekus
  · simp [h]
  · simp [h]

example : preIssuerOf (some ⟨[[0x2b, 0x06, 0x01, 0x05, 0x05, 0x07, 0x03, 0x01], ctEkuOid], ⟨[0x30], []⟩, none⟩) ≠ none ∧
    preIssuerOf (some ⟨[[0x2b, 0x06, 0x01, 0x04, 0x01, 0xd6, 0x79, 0x02, 0x04, 0x05]], ⟨[0x30], []⟩, none⟩) = none := by
  decide

/-- **Identical log entry.** `MerkleTreeLeafFromChain` on the precertificate chain and `MerkleTreeLeafForEmbeddedSCT` on the final
chain put the same TBSCertificate and the same issuer key into the `PreCert` entry: direct issuer (chains
`[precert, issuer, …]` / `[final, issuer, …]`) … -/
theorem leaf_routes_commute (t : Tbs) (es : List Ext) (i j : Nat) (pc sc : Bool) (pv sv : Bytes) (kIssuer : Bytes) (r1 r2 : List Bytes)
    (hnp : hasOid poisonOid es = false) (hns : hasOid sctOid es = false)
    (hwp : (t.withExts (insertAt es i ⟨poisonOid, pc, pv⟩)).wf = true)
    (hws : (t.withExts (insertAt es j ⟨sctOid, sc, sv⟩)).wf = true) :
    leafFromPrecertChain (marshalTbs (t.withExts (insertAt es i ⟨poisonOid, pc, pv⟩))) (kIssuer :: r1) none
      = leafForEmbeddedSCT (marshalTbs (t.withExts (insertAt es j ⟨sctOid, sc, sv⟩))) (kIssuer :: r2) ∧
    leafForEmbeddedSCT (marshalTbs (t.withExts (insertAt es j ⟨sctOid, sc, sv⟩))) (kIssuer :: r2)
      = some (marshalTbs (t.withExts es), kIssuer) := by
  obtain ⟨h1, h2⟩ := routes_commute t es i j pc sc pv sv hnp hns hwp hws
  simp only [leafFromPrecertChain, leafForEmbeddedSCT, ← h1, h2]
  simp

/-- … and pre-issuer (chains `[precert, preIssuer, issuer, …]` / `[final, issuer, …]`): the key hashed is the final issuer's on both. -/
theorem leaf_routes_commute_preissuer (c : Tbs) (p : PreIssuer) (piName : Tlv) (pe fe : List Ext) (i j : Nat)
    (pc sc : Bool) (pv sv : Bytes) (kPre kIssuer : Bytes) (r1 r2 : List Bytes)
    (hEku : p.ctEku = true) (hrel : AkiRel p.aki pe fe)
    (hnp : hasOid poisonOid pe = false) (hns : hasOid sctOid fe = false)
    (hwp : (({ c with issuer := piName } : Tbs).withExts (insertAt pe i ⟨poisonOid, pc, pv⟩)).wf = true)
    (hws : (({ c with issuer := p.issuer } : Tbs).withExts (insertAt fe j ⟨sctOid, sc, sv⟩)).wf = true) :
    leafFromPrecertChain (marshalTbs (({ c with issuer := piName } : Tbs).withExts (insertAt pe i ⟨poisonOid, pc, pv⟩)))
        (kPre :: kIssuer :: r1) (some p)
      = leafForEmbeddedSCT (marshalTbs (({ c with issuer := p.issuer } : Tbs).withExts (insertAt fe j ⟨sctOid, sc, sv⟩))) (kIssuer :: r2) ∧
    leafFromPrecertChain (marshalTbs (({ c with issuer := piName } : Tbs).withExts (insertAt pe i ⟨poisonOid, pc, pv⟩)))
        [kPre] (some p) = none := by
  obtain ⟨h1, h2⟩ := routes_commute_preissuer c p piName pe fe i j pc sc pv sv hEku hrel hnp hns hwp hws
  simp only [leafFromPrecertChain, leafForEmbeddedSCT, ← h1, h2]
  simp

/-! ### "an embedded SCT verifies exactly when the log signed that precertificate" -/

/-- the bytes a log signs for a precert entry `(TBSCertificate, issuer SubjectPublicKeyInfo)`: RFC 6962 §3.2's
`digitally-signed struct` (`Rfc.sctSigInputV1`, which C04 proves to be what `ct.SerializeSCTSignatureInput` writes) over
`PreCert{issuer_key_hash = H(spki), tbs_certificate}`; `H` stands for SHA-256 -/
def sctInput (H : Bytes → Bytes) (timestamp : Nat) (ext : Bytes) (e : Bytes × Bytes) : Option Bytes :=
  Rfc.sctSigInputV1 ⟨0, timestamp, .precert ⟨H e.2, e.1⟩, ext⟩

/-- the verdict of `VerifySCT` on an entry (C05: the signature check over exactly those bytes); no entry, no verdict -/
def sctVerifies (S : SigV.Scheme) (H : Bytes → Bytes) (pk : SigV.Key) (hashAlg timestamp : Nat) (ext : Bytes) (sig : SigV.SigVal)
    (e : Option (Bytes × Bytes)) : Bool :=
  match e.bind (sctInput H timestamp ext) with
  | some d => S.verify pk hashAlg d sig
  | none => false

/-- **Direct issuer.** For every signature: the SCT verifies over the entry built from the final certificate (embedded route)
iff it verifies over the entry built from the precertificate chain; and an SCT that the log produced by signing the precertificate's
entry does verify on the final certificate. (The converse of the second part is unforgeability of the scheme, which is not assumed.) -/
theorem embedded_sct_verifies_iff_direct (S : SigV.Scheme) (H : Bytes → Bytes) (k : S.Priv) (hashAlg timestamp : Nat) (ext : Bytes)
    (t : Tbs) (es : List Ext) (i j : Nat) (pc sc : Bool) (pv sv : Bytes) (kIssuer : Bytes) (r1 r2 : List Bytes)
    (hnp : hasOid poisonOid es = false) (hns : hasOid sctOid es = false)
    (hwp : (t.withExts (insertAt es i ⟨poisonOid, pc, pv⟩)).wf = true)
    (hws : (t.withExts (insertAt es j ⟨sctOid, sc, sv⟩)).wf = true) :
    (∀ sig, sctVerifies S H (S.pub k) hashAlg timestamp ext sig
        (leafForEmbeddedSCT (marshalTbs (t.withExts (insertAt es j ⟨sctOid, sc, sv⟩))) (kIssuer :: r2))
      = sctVerifies S H (S.pub k) hashAlg timestamp ext sig
        (leafFromPrecertChain (marshalTbs (t.withExts (insertAt es i ⟨poisonOid, pc, pv⟩))) (kIssuer :: r1) none)) ∧
    (∀ d, (leafFromPrecertChain (marshalTbs (t.withExts (insertAt es i ⟨poisonOid, pc, pv⟩))) (kIssuer :: r1) none).bind
            (sctInput H timestamp ext) = some d →
      sctVerifies S H (S.pub k) hashAlg timestamp ext (S.sign k hashAlg d)
        (leafForEmbeddedSCT (marshalTbs (t.withExts (insertAt es j ⟨sctOid, sc, sv⟩))) (kIssuer :: r2)) = true) := by
  have h := (leaf_routes_commute t es i j pc sc pv sv kIssuer r1 r2 hnp hns hwp hws).1
  refine ⟨fun sig => by rw [h], ?_⟩
  intro d hd
  rw [← h]
  simp [sctVerifies, hd, S.correct]

/-- **Pre-issuer.** The same for the chain layouts `[precert, preIssuer, issuer, …]` / `[final, issuer, …]`. -/
theorem embedded_sct_verifies_iff (S : SigV.Scheme) (H : Bytes → Bytes) (k : S.Priv) (hashAlg timestamp : Nat) (ext : Bytes)
    (c : Tbs) (p : PreIssuer) (piName : Tlv) (pe fe : List Ext)
    (i j : Nat) (pc sc : Bool) (pv sv : Bytes) (kPre kIssuer : Bytes) (r1 r2 : List Bytes)
    (hEku : p.ctEku = true) (hrel : AkiRel p.aki pe fe)
    (hnp : hasOid poisonOid pe = false) (hns : hasOid sctOid fe = false)
    (hwp : (({ c with issuer := piName } : Tbs).withExts (insertAt pe i ⟨poisonOid, pc, pv⟩)).wf = true)
    (hws : (({ c with issuer := p.issuer } : Tbs).withExts (insertAt fe j ⟨sctOid, sc, sv⟩)).wf = true) :
    (∀ sig, sctVerifies S H (S.pub k) hashAlg timestamp ext sig
        (leafForEmbeddedSCT (marshalTbs (({ c with issuer := p.issuer } : Tbs).withExts (insertAt fe j ⟨sctOid, sc, sv⟩))) (kIssuer :: r2))
      = sctVerifies S H (S.pub k) hashAlg timestamp ext sig
        (leafFromPrecertChain (marshalTbs (({ c with issuer := piName } : Tbs).withExts (insertAt pe i ⟨poisonOid, pc, pv⟩)))
          (kPre :: kIssuer :: r1) (some p))) ∧
    (∀ d, (leafFromPrecertChain (marshalTbs (({ c with issuer := piName } : Tbs).withExts (insertAt pe i ⟨poisonOid, pc, pv⟩)))
            (kPre :: kIssuer :: r1) (some p)).bind (sctInput H timestamp ext) = some d →
      sctVerifies S H (S.pub k) hashAlg timestamp ext (S.sign k hashAlg d)
        (leafForEmbeddedSCT (marshalTbs (({ c with issuer := p.issuer } : Tbs).withExts (insertAt fe j ⟨sctOid, sc, sv⟩))) (kIssuer :: r2)) = true) := by
  have h := (leaf_routes_commute_preissuer c p piName pe fe i j pc sc pv sv kPre kIssuer r1 r2 hEku hrel hnp hns hwp hws).1
  refine ⟨fun sig => by rw [h], ?_⟩
  intro d hd
  rw [← h]
  simp [sctVerifies, hd, S.correct]

/-- the signature input is not vacuous: for the concrete direct-issuer example it exists (32-byte key hash, TBS within 2^24-1) -/
example : ((leafFromPrecertChain (marshalTbs (exBase.withExts [exPoison, exKU])) [[1], [2]] none).bind
    (sctInput (fun _ => List.replicate 32 0x11) 1234 [])).isSome = true := by
  set_option maxRecDepth 100000 in decide

/-- pre-issuer layout on concrete chains: `[precert, preIssuer(key 1), issuer(key 2)]` against `[final, issuer(key 2)]` -/
example :
    leafFromPrecertChain (marshalTbs (({ exBase with issuer := ⟨[0x30], [0x31, 0x01, 0x00]⟩ } : Tbs).withExts [exKU, exPoison, exAKI])) [[1], [2]] (some exPre)
      = leafForEmbeddedSCT (marshalTbs (({ exBase with issuer := exPre.issuer } : Tbs).withExts
          [exSct, exKU, { exAKI with val := [0x30, 0x03, 0x80, 0x01, 0x09] }])) [[2]] ∧
    (leafForEmbeddedSCT (marshalTbs (({ exBase with issuer := exPre.issuer } : Tbs).withExts
          [exSct, exKU, { exAKI with val := [0x30, 0x03, 0x80, 0x01, 0x09] }])) [[2]]).isSome = true ∧
    leafFromPrecertChain (marshalTbs (({ exBase with issuer := ⟨[0x30], [0x31, 0x01, 0x00]⟩ } : Tbs).withExts [exKU, exPoison, exAKI])) [[1]] (some exPre) = none := by
  set_option maxRecDepth 100000 in decide

example : leafFromPrecertChain (marshalTbs (exBase.withExts [exPoison, exKU])) [[1], [2]] none
    = leafForEmbeddedSCT (marshalTbs (exBase.withExts [exKU, exSct])) [[1]] ∧
    (leafForEmbeddedSCT (marshalTbs (exBase.withExts [exKU, exSct])) [[1]]).isSome = true ∧
    leafForEmbeddedSCT (marshalTbs (exBase.withExts [exKU, exSct])) [] = none := by
  set_option maxRecDepth 100000 in decide

/-! ## `sctlist_roundtrip`

The TLS layer of the SCT-list extension is the generic codec at the regenerated type `CtWire.tSCTList` (`Tls.enc` / `Tls.dec`,
CTV/Tls/Codec.lean); the statements below follow from its round-trip theorem `Tls.dec_enc` and from C04's comparison of that
type with RFC 6962 §3.3 (`C04.enc_sctList_sound`, `C04SctList.enc_sctList`), not from a codec written for this property. -/

theorem sctList_wf : CtWire.tSCTList.wf = true := by
  rw [CtWire.ty_SCTList]; exact CtWire.wf_SCTList _

/-- the marshaller's output: the generic codec's bytes for the regenerated type, which are the RFC 6962 §3.3 encoding
(`C04.enc_sctList_sound`) and at most 2 + 65535 bytes long, wrapped in an OCTET STRING -/
theorem sctlist_is_rfc (l : List Bytes) (v : Bytes) (h : sctExtValue l = some v) :
    ∃ b, Tls.enc CtWire.tSCTList (CtWire.sctListVal l) = .ok b ∧ Rfc.sctList l = some b ∧ v = encTlv ⟨[0x04], b⟩ ∧ b.length ≤ 65537 := by
  unfold sctExtValue at h
  cases he : Tls.enc CtWire.tSCTList (CtWire.sctListVal l) with
  | error e => simp [he] at h
  | ok b =>
    simp only [he, Option.some.injEq] at h
    have hr := C04.enc_sctList_sound l b he
    refine ⟨b, rfl, hr, h.symm, ?_⟩
    simp only [Rfc.sctList, bind, Option.bind_eq_some_iff] at hr
    obtain ⟨body, _, hv⟩ := hr
    have hl := Rfc.varVector_length _ _ _ _ hv
    unfold Rfc.varVector at hv
    split at hv
    · rename_i hc
      have : Rfc.lenWidth 65535 = 2 := by decide
      omega
    · cases hv

/-- **The SCT list read back equals the list embedded, element for element**: whatever `ASN1MarshalSCTs` /
`tls.Marshal(SignedCertificateTimestampList)` + `asn1.Marshal` writes as the extension value, the certificate parser
(`asn1.Unmarshal` into `[]byte`, `tls.Unmarshal`, no rest on either level) reads back as exactly the same list of `SerializedSCT`s. -/
theorem sctlist_roundtrip (l : List Bytes) (v : Bytes) (h : sctExtValue l = some v) : parseSctExtValue v = some l := by
  obtain ⟨b, he, _, hv, hlen⟩ := sctlist_is_rfc l v h
  have hok : (⟨[0x04], b⟩ : Tlv).ok = true := by simp [Tlv.ok, validTag_04]; omega
  have hd := Tls.dec_enc CtWire.tSCTList _ b [] sctList_wf he
  simp only [List.append_nil] at hd
  rw [hv]
  simp only [parseSctExtValue, parseOne_encTlv _ hok, if_true, hd]
  exact sctListOfVal_sctListVal l

/-- **every list RFC 6962 allows** (`opaque SerializedSCT<1..2^16-1>`, `sct_list<1..2^16-1>`) can be embedded and is read back as
embedded. This is the statement that finding C03-1 / F4 (`maxlen:65335`) violated; it is available because the regenerated tag now
says 65535 (`C04SctList.tag_is_rfc`; on a tree with another bound that module is empty and this theorem does not build). -/
theorem sctlist_roundtrip_rfc (l : List Bytes) (b : Bytes) (h : Rfc.sctList l = some b) :
    sctExtValue l = some (encTlv ⟨[0x04], b⟩) ∧ parseSctExtValue (encTlv ⟨[0x04], b⟩) = some l := by
  have he := C04SctList.enc_sctList l
  rw [h, CtWire.eo_eq_some] at he
  have hv : sctExtValue l = some (encTlv ⟨[0x04], b⟩) := by simp [sctExtValue, he]
  exact ⟨hv, sctlist_roundtrip l _ hv⟩

/-- an empty list and an empty SCT cannot be embedded (`<1..` on both levels) -/
theorem sctlist_min (l : List Bytes) (h : l = [] ∨ [] ∈ l) : sctExtValue l = none := by
  cases hv : sctExtValue l with
  | none => rfl
  | some v =>
    exfalso
    obtain ⟨b, _, hr, _, _⟩ := sctlist_is_rfc l v hv
    rcases h with rfl | h
    · simp [Rfc.sctList, Rfc.concatAll, Rfc.varVector, bind] at hr
    · simp [Rfc.sctList, concatAll_empty_item l h, bind] at hr

example : sctExtValue [] = none ∧ sctExtValue [[0x01], []] = none ∧ (sctExtValue [[0xaa]]).isSome = true := by
  refine ⟨sctlist_min _ (Or.inl rfl), sctlist_min _ (Or.inr (by simp)), ?_⟩
  decide +kernel

example : sctExtValue [[0xaa, 0xbb], [0xcc]] = some [0x04, 0x09, 0x00, 0x07, 0x00, 0x02, 0xaa, 0xbb, 0x00, 0x01, 0xcc] ∧
    parseSctExtValue [0x04, 0x09, 0x00, 0x07, 0x00, 0x02, 0xaa, 0xbb, 0x00, 0x01, 0xcc] = some [[0xaa, 0xbb], [0xcc]] ∧
    parseSctExtValue [0x04, 0x0a, 0x00, 0x07, 0x00, 0x02, 0xaa, 0xbb, 0x00, 0x01, 0xcc, 0x00] = none ∧
    parseSctExtValue [0x04, 0x09, 0x00, 0x07, 0x00, 0x02, 0xaa, 0xbb, 0x00, 0x02, 0xcc] = none := by
  decide +kernel

end C03
