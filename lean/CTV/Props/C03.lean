import CTV.Model.Tbs
import CTV.Gen.TbsFacts
namespace C03
open CTV CTV.Tbs

theorem placeholder : poisonOid = oidContent Gen.oidCTPoison := by decide

end C03
