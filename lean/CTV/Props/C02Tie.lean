import CTV.Lemmas.ChainCheck
import CTV.Gen.ChainTie
/-!
# C02: the hand-written admission model follows the check sequences regenerated from the code

* `Gen.verifyAddChainBody` is the whole body of `verifyAddChain` (handlers.go), statement by statement: `ValidateChain`, then
  `IsPrecertificate` of the first certificate of the validated path, then the endpoint test; what is handed back (nothing /
  the validated path) and whether an error accompanies it.  `verifyAddChain_tie`: the model decides exactly so.
* `Gen.validateChainOrder` is the execution order of the rejecting checks of `ValidateChain` and its helpers (parse, the seven
  leaf filters, `Verify`, the empty-result test — its condition is `Gen.noChainsFails`, `noChains_tie` —, `chainsEquivalent`).  `reject_order_tie`: the model's `ValidateChain` rejects
  with the FIRST check of that order that fails — a leaf-filter rejection means every check listed before it passed, and the
  path stages are reached only when every leaf filter passed.
* `IsPrecertificate`'s loop: `poisonLoop_tie` (the model's loop over the regenerated loop shape and poison test computes the
  property's classification).

Not tied this way (only their individual conditions are regenerated, see `Gen.ChainCheck`): the fork's `isValid` and the
`considerCandidate` closure of `buildChains` — a closure over named results inside two candidate loops is outside what the
statement translator follows; the model's copy of that control flow stays tied by the `vf` / `vc` correspondence lines.
-/
namespace CTV.Props.C02Tie
open CTV.Model.ChainCheck C02

def isErr {ε α : Type} : Except ε α → Bool
  | .ok _ => false
  | .error _ => true

/-- the facts `verifyAddChain` tests, as the model computes them -/
def precertFact (r : Except Reject (List Cert)) : Bool × Bool :=
  match r with
  | .ok (l :: _) => (match isPrecertificate l with | .error _ => (true, false) | .ok k => (false, k))
  | _ => (false, false)

/-- **verifyAddChain_tie.** On validated paths (which are never empty: `admit_sound`), the model's `verifyAddChain` hands back
the validated path without error exactly when the regenerated body does, and an error otherwise. -/
theorem verifyAddChain_tie (roots : List Cert) (sigOK : SigOracle) (o : Opts) (raw : List (Option Cert)) (e : Bool)
    (hne : ∀ p, validateChain roots sigOK o raw = .ok p → p ≠ []) :
    let v := validateChain roots sigOK o raw
    let g := Gen.verifyAddChainBody (isErr v) (precertFact v).1 (precertFact v).2 e
    isErr (verifyAddChain roots sigOK o raw e) = g.2 ∧
    (g.1 = 1 → verifyAddChain roots sigOK o raw e = v) := by
  intro v g
  unfold verifyAddChain
  cases hv : validateChain roots sigOK o raw with
  | error r => simp [v, g, hv, isErr, precertFact, Gen.verifyAddChainBody]
  | ok p =>
    cases p with
    | nil => exact absurd rfl (hne [] hv)
    | cons l rest =>
      cases hk : isPrecertificate l with
      | error u => simp [v, g, hv, hk, isErr, precertFact, Gen.verifyAddChainBody]
      | ok k => cases k <;> cases e <;> simp [v, g, hv, hk, isErr, precertFact, Gen.verifyAddChainBody, Gen.kindMismatch]

example : Gen.verifyAddChainBody false false true true = (1, false) ∧ Gen.verifyAddChainBody false false true false = (0, true) ∧
    Gen.verifyAddChainBody true false false false = (0, true) ∧ Gen.verifyAddChainBody false true false true = (0, true) := by decide

/-- **reject_order_tie.** The model's `ValidateChain` follows the regenerated order of checks: an unparsable certificate is
refused before anything else; a leaf-filter rejection `r` comes from a check `name` of `Gen.validateChainOrder` such that
every check listed before it passes; and the path stages (`Verify`, empty result, `chainsEquivalent`) are reached only when
all leaf filters pass. -/
theorem reject_order_tie (roots : List Cert) (sigOK : SigOracle) (o : Opts) (raw : List (Option Cert)) (r : Reject)
    (h : validateChain roots sigOK o raw = .error r) :
    (parseAll raw = none → r = .parse) ∧
    ∀ l rest, parseAll raw = some (l :: rest) →
      (leafFilters o l = some r ∧
        ∃ pre name post, Gen.validateChainOrder = pre ++ name :: post ∧ leafCheck o l name = some (some r) ∧
          ∀ n ∈ pre, leafCheck o l n = some none) ∨
      (leafFilters o l = none ∧ ((∃ e, r = .verify e) ∨ r = .noChains ∨ r = .notEquivalent)) := by
  unfold validateChain at h
  constructor
  · intro hp
    simp [hp] at h
    exact h.symm
  · intro l rest hp
    simp only [hp] at h
    cases hf : leafFilters o l with
    | some r' =>
      simp only [hf, Except.error.injEq] at h
      subst h
      left
      refine ⟨rfl, ?_⟩
      unfold leafFilters at hf
      obtain ⟨pre, name, post, hsplit, hname, hpre⟩ := List.findSome?_eq_some_iff.1 hf
      refine ⟨pre, name, post, hsplit, ?_, ?_⟩
      · have hk := order_known name (by rw [hsplit]; simp)
        cases hc : leafCheck o l name with
        | none =>
          exfalso
          simp only [knownChecks, List.mem_cons, List.not_mem_nil, or_false] at hk
          rcases hk with rfl | rfl | rfl | rfl | rfl | rfl | rfl | rfl | rfl | rfl | rfl <;> simp [leafCheck] at hc
        | some x => simp only [hc] at hname; rw [hname]
      · intro n hn
        have hk := order_known n (by rw [hsplit]; simp [hn])
        have hnone := hpre n hn
        cases hc : leafCheck o l n with
        | none =>
          exfalso
          simp only [knownChecks, List.mem_cons, List.not_mem_nil, or_false] at hk
          rcases hk with rfl | rfl | rfl | rfl | rfl | rfl | rfl | rfl | rfl | rfl | rfl <;> simp [leafCheck] at hc
        | some x => simp only [hc] at hnone; rw [hnone]
    | none =>
      right
      refine ⟨rfl, ?_⟩
      simp only [hf] at h
      split at h
      · simp only [Except.error.injEq] at h; exact Or.inl ⟨_, h.symm⟩
      · split at h
        · simp only [Except.error.injEq] at h; exact Or.inr (Or.inl h.symm)
        · split at h
          · simp at h
          · simp only [Except.error.injEq] at h; exact Or.inr (Or.inr h.symm)

/-- the path stages come after every leaf filter in the regenerated order, in the order the model applies them -/
theorem path_stages_last : Gen.validateChainOrder.drop 8 = ["verify", "noChains", "chainsEquivalent"] ∧ Gen.validateChainOrder.head? = some "parse" := by
  decide

/-- **noChains_tie.** The model's test on `Verify`'s result (`chains.isEmpty`, between `Verify` and `chainsEquivalent`) is the
regenerated condition of the "no path to root" return. -/
theorem noChains_tie (chains : List (List Cert)) : Gen.noChainsFails chains.length = chains.isEmpty := by
  cases chains <;> simp [Gen.noChainsFails]; omega

example : Gen.noChainsFails 0 = true ∧ Gen.noChainsFails 2 = false := by decide

/-- **poisonLoop_tie.** The model's `IsPrecertificate` — the loop over all poison extensions in the regenerated shape, with the
regenerated poison test — is an error iff some poison extension is not (critical, NULL), and otherwise says "precertificate"
iff there is one. -/
theorem poisonLoop_tie (c : Cert) :
    isPrecertificate c = (if c.poison.any (fun x => !(x.critical && x.valueIsNull)) then .error () else .ok (!c.poison.isEmpty)) := by
  unfold isPrecertificate
  rw [poisonLoop_spec]
  simp

example : isPrecertificate { (default : Cert) with poison := [⟨true, true⟩, ⟨true, false⟩] } = .error () := by decide

end CTV.Props.C02Tie
