import CTV.Model.SigVerify
namespace C05
open CTV CTV.SigV

/-- placeholder while the harness is brought up -/
theorem newVerifier_rsa_2048 (k : Key) (h : k.kind = .rsa) (hb : k.bits ≥ 2048) : newVerifier k false = true := by
  simp [newVerifier, Gen.newVerifier, KeyKind.name, h, Gen.newVerifier_rsa]
  omega

end C05
