import CTV.Model.SigVerify
import CTV.Lemmas.DerSig
import CTV.Lemmas.SigInput
import CTV.Lemmas.SigVerify
import CTV.Lemmas.SigScheme
/-!
# C05 — signature verification accepts exactly the valid log signatures

Theorems over `CTV.SigV.verifySignature` / `newVerifier` / `verifySCT` / `verifySTH` / `newFromSignedJSON`, which
interpret the tables and conditions **regenerated** on every run from tls/signature.go, signatures.go and
loglist3/loglist3.go (`CTV.Gen.Sig`), over the strict-DER fragment `CTV.Der` and over the RFC 6962 signature
inputs `CTV.SigInput`.  The primitives are a parameter `P : Prims` about which nothing is assumed; `Scheme.correct`
is a hypothesis of the sign-then-verify corollaries only.  All quantifiers range over all keys, codes, messages
and signature octets.
-/
set_option linter.unusedSimpArgs false
namespace C05
open CTV CTV.SigV CTV.SigInput CTV.DerSig

/-- **verify_iff.** `tls.VerifySignature` answers nil exactly when: the declared hash is one of RFC 5246's six, the
declared signature algorithm is the one of the key's type, the key is not a nil pointer, and either (RSA) the
primitive accepts the octets as carried, or ((EC)DSA) the octets are `DER(SEQUENCE{r, s …extra})` followed by
anything, with `0 < r`, `0 < s`, the primitive accepting `(r, s)` — where `extra`, octets after `s` *inside* the
SEQUENCE, must be empty exactly if the code has the exactness check (`Gen.sigExactDER`, regenerated; it was `false` on
the tree as found — the C05 finding, fixed by 1a2a72f — and is `true` now: see `verify_iff_canonical`).  This form never
unfolds the flag, so it holds for both trees.  The length bound is the fork's "length too large" rule. -/
theorem verify_iff (P : Prims) (key : Key) (data : Bytes) (ds : DigitallySigned) :
    verifySignature P key data ds = .ok ↔
      ∃ h, rfcHash ds.hash = some h ∧ key.isNil = false ∧
        ((ds.sigAlg = 1 ∧ key.kind = .rsa ∧ P.prim key h (P.digest h data) (.raw ds.sig) = true) ∨
         ((ds.sigAlg = 2 ∧ key.kind = .dsa ∨ ds.sigAlg = 3 ∧ key.kind = .ecdsa) ∧
            ∃ r s extra rest, ds.sig = derSigX r s extra ++ rest ∧
              (derInt r ++ derInt s ++ extra).length < 2^31 ∧
              (Gen.sigExactDER ds.sigAlg = true → extra = []) ∧
              0 < r ∧ 0 < s ∧ P.prim key h (P.digest h data) (.pair r s) = true)) := by
  unfold verifySignature
  rw [hash_table_is_rfc, alg_table]
  cases hh : rfcHash ds.hash with
  | none => simp
  | some h =>
    simp only [Option.some.injEq, exists_eq_left']
    by_cases h1 : ds.sigAlg = 1
    · -- RSA
      simp only [h1, if_true, ne_eq, name_rsa, Bool.not_false]
      by_cases hk : key.kind = .rsa
      · by_cases hn : key.isNil = true
        · simp [hk, hn]
        · by_cases hp : P.prim key h (P.digest h data) (.raw ds.sig) = true <;> simp [hk, hn, hp]
      · simp [hk]
    by_cases h2 : ds.sigAlg = 2
    · -- DSA
      simp only [h2, (by decide : ¬ (2:Nat) = 1), if_true, if_false, ne_eq, name_dsa, Bool.not_true, Bool.false_eq_true, if_false]
      by_cases hk : key.kind = .dsa
      · simp only [hk, not_true_eq_false, if_false]
        rw [pair_branch P key h (P.digest h data) ds.sig 2 (Or.inl rfl)]
        simp
      · simp [hk]
    by_cases h3 : ds.sigAlg = 3
    · -- ECDSA
      simp only [h3, (by decide : ¬ (3:Nat) = 1), (by decide : ¬ (3:Nat) = 2), if_true, if_false, ne_eq, name_ecdsa, Bool.not_true, Bool.false_eq_true, if_false]
      by_cases hk : key.kind = .ecdsa
      · simp only [hk, not_true_eq_false, if_false]
        rw [pair_branch P key h (P.digest h data) ds.sig 3 (Or.inr rfl)]
        simp
      · simp [hk]
    simp [h1, h2, h3]

/-- non-vacuity of `verify_iff`: a P-256 key, SHA-256, ECDSA, `30 06 02 01 01 02 01 01` with a primitive that accepts
(1, 1) verifies; with a primitive that refuses it does not. -/
example : verifySignature ⟨fun _ m => m, fun _ _ _ v => v == .pair 1 1⟩ { kind := .ecdsa } [7] ⟨4, 3, [0x30, 6, 2, 1, 1, 2, 1, 1]⟩ = .ok := by decide
example : verifySignature ⟨fun _ m => m, fun _ _ _ _ => false⟩ { kind := .ecdsa } [7] ⟨4, 3, [0x30, 6, 2, 1, 1, 2, 1, 1]⟩ = .err := by decide
example : rfcHash 4 = some 5 ∧ (derInt 1 ++ derInt 1 ++ []).length < 2^31 ∧ derSigX 1 1 [] ++ [9] = [0x30, 6, 2, 1, 1, 2, 1, 1, 9] := by decide

/-- the strict-DER reader of `CTV.Der` accepts exactly the canonical encodings: `parseSigPair sig = some ⟨r, s, extra, rest⟩`
iff `sig` is `30 len(02 len r, 02 len s, extra)` in minimal-length, minimal-two's-complement form followed by `rest`
(and the SEQUENCE content is shorter than 2^31, the fork's limit).  So zero-padded, non-minimal-length, indefinite,
truncated or wrongly tagged encodings are refused, and the integers read are the integers encoded. -/
theorem der_pair_iff (sig : Bytes) (p : SigPair) :
    parseSigPair sig = some p ↔
      sig = derSigX p.r p.s p.extra ++ p.rest ∧ (derInt p.r ++ derInt p.s ++ p.extra).length < 2^31 := by
  constructor
  · exact parseSigPair_sound sig p
  · rintro ⟨e, hsz⟩
    rw [e]
    exact parseSigPair_complete p.r p.s p.extra p.rest hsz

example : parseSigPair [0x30, 6, 2, 1, 1, 2, 1, 0x7f, 0xaa] = some ⟨1, 127, [], [0xaa]⟩ := by decide
example : parseSigPair [0x30, 7, 2, 2, 0, 1, 2, 1, 1] = none ∧ parseSigPair [0x30, 0x81, 6, 2, 1, 1, 2, 1, 1] = none ∧
    parseSigPair [0x30, 0x80, 2, 1, 1, 2, 1, 1, 0, 0] = none ∧ parseSigPair [0x31, 6, 2, 1, 1, 2, 1, 1] = none ∧
    parseSigPair [0x30, 6, 2, 1, 1, 2, 1] = none := by decide
example : parseSigPair [0x30, 6, 2, 1, 0xff, 2, 1, 0] = some ⟨-1, 0, [], []⟩ ∧ derSig (-1) 0 = [0x30, 6, 2, 1, 0xff, 2, 1, 0] ∧
    derSig 128 (-129) = [0x30, 8, 2, 2, 0, 0x80, 2, 2, 0xff, 0x7f] := by decide

/-- the exactness check of the (EC)DSA cases (`checkExactDER`: the octets before `rest` must equal the re-marshalled
`SEQUENCE{r, s}`) is present in tls/signature.go — **regenerated** from the source on every run.  On a tree without
the check (`fix: (EC)DSA signature verification accepted extra elements inside the DER SEQUENCE` reverted) this is
`false`, this lemma and the two theorems below stop compiling, and the harness shows the accepted octets. -/
theorem exact_der_check_present (a : Nat) (ha : a = 2 ∨ a = 3) : Gen.sigExactDER a = true := by
  rcases ha with rfl | rfl <;> rfl

/-- **accepted_pair_is_exact** (the property as stated — "bytes trailing a complete DER-encoded ECDSA or DSA value are
ignored", and nothing else is): an accepted (EC)DSA signature value is exactly `DER(SEQUENCE{INTEGER r, INTEGER s})`
followed by arbitrary octets, with `0 < r`, `0 < s`, and the primitive accepted `(r, s)` over the digest of the data. -/
theorem accepted_pair_is_exact (P : Prims) (key : Key) (data : Bytes) (ds : DigitallySigned)
    (ha : ds.sigAlg = 2 ∨ ds.sigAlg = 3) (h : verifySignature P key data ds = .ok) :
    ∃ hid r s rest, rfcHash ds.hash = some hid ∧ ds.sig = derSig r s ++ rest ∧ 0 < r ∧ 0 < s ∧
      P.prim key hid (P.digest hid data) (.pair r s) = true := by
  obtain ⟨hid, hh, _, hor⟩ := (verify_iff P key data ds).mp h
  rcases hor with ⟨h1, _⟩ | ⟨_, r, s, extra, rest, e, _, hex, hr, hs, hp⟩
  · omega
  · have := hex (exact_der_check_present ds.sigAlg ha)
    subst this
    exact ⟨hid, r, s, rest, hh, e, hr, hs, hp⟩

/-- **verify_iff, canonical form.** With the exactness check in the code, `verify_iff` reads: `tls.VerifySignature`
passes iff hash ∈ RFC 5246's six ∧ the algorithm is the key's ∧ ((RSA ∧ prim on the octets) ∨ ((EC)DSA ∧ ∃ r s rest,
sig = der(r, s) ++ rest ∧ r > 0 ∧ s > 0 ∧ prim on (r, s))). -/
theorem verify_iff_canonical (P : Prims) (key : Key) (data : Bytes) (ds : DigitallySigned) :
    verifySignature P key data ds = .ok ↔
      ∃ h, rfcHash ds.hash = some h ∧ key.isNil = false ∧
        ((ds.sigAlg = 1 ∧ key.kind = .rsa ∧ P.prim key h (P.digest h data) (.raw ds.sig) = true) ∨
         ((ds.sigAlg = 2 ∧ key.kind = .dsa ∨ ds.sigAlg = 3 ∧ key.kind = .ecdsa) ∧
            ∃ r s rest, ds.sig = derSig r s ++ rest ∧ (derInt r ++ derInt s).length < 2^31 ∧
              0 < r ∧ 0 < s ∧ P.prim key h (P.digest h data) (.pair r s) = true)) := by
  rw [verify_iff]
  constructor
  · rintro ⟨h, hh, hn, hor⟩
    refine ⟨h, hh, hn, ?_⟩
    rcases hor with hrsa | ⟨hk, r, s, extra, rest, e, hsz, hex, hr, hs, hp⟩
    · exact Or.inl hrsa
    · have ha : ds.sigAlg = 2 ∨ ds.sigAlg = 3 := by rcases hk with ⟨h2, _⟩ | ⟨h3, _⟩ <;> omega
      have := hex (exact_der_check_present ds.sigAlg ha)
      subst this
      exact Or.inr ⟨hk, r, s, rest, e, by simpa using hsz, hr, hs, hp⟩
  · rintro ⟨h, hh, hn, hor⟩
    refine ⟨h, hh, hn, ?_⟩
    rcases hor with hrsa | ⟨hk, r, s, rest, e, hsz, hr, hs, hp⟩
    · exact Or.inl hrsa
    · exact Or.inr ⟨hk, r, s, [], rest, e, by simpa using hsz, fun _ => rfl, hr, hs, hp⟩

example : derSig 1 1 ++ [0xaa, 0xbb] = [0x30, 6, 2, 1, 1, 2, 1, 1, 0xaa, 0xbb] ∧ (derInt 1 ++ derInt 1).length < 2^31 := by decide
/-- octets after `s` inside the SEQUENCE are refused; octets after the SEQUENCE are ignored -/
example : verifySignature ⟨fun _ m => m, fun _ _ _ _ => true⟩ { kind := .ecdsa } [7] ⟨4, 3, [0x30, 8, 2, 1, 1, 2, 1, 1, 5, 0]⟩ = .err ∧
    verifySignature ⟨fun _ m => m, fun _ _ _ _ => true⟩ { kind := .ecdsa } [7] ⟨4, 3, [0x30, 6, 2, 1, 1, 2, 1, 1, 5, 0]⟩ = .ok := by decide

/-- **mismatch_is_error.** When the declared signature algorithm is not the one of the key's type (including every
code RFC 5246 does not assign to RSA/DSA/ECDSA, and every key type without a code such as Ed25519), the answer is an
error: never a pass, never a panic — also for a nil key pointer, also whatever the signature octets are. -/
theorem mismatch_is_error (P : Prims) (key : Key) (data : Bytes) (ds : DigitallySigned)
    (hm : algKind ds.sigAlg ≠ some key.kind) : verifySignature P key data ds = .err := by
  unfold verifySignature
  rw [hash_table_is_rfc, alg_table]
  cases rfcHash ds.hash with
  | none => rfl
  | some h =>
    simp only
    by_cases h1 : ds.sigAlg = 1
    · have : key.kind ≠ .rsa := by intro e; apply hm; simp [h1, algKind, e]
      simp [h1, name_rsa, this]
    by_cases h2 : ds.sigAlg = 2
    · have : key.kind ≠ .dsa := by intro e; apply hm; simp [h2, algKind, e]
      simp [h2, name_dsa, this]
    by_cases h3 : ds.sigAlg = 3
    · have : key.kind ≠ .ecdsa := by intro e; apply hm; simp [h3, algKind, e]
      simp [h3, name_ecdsa, this]
    simp [h1, h2, h3]

example : algKind 3 ≠ some KeyKind.rsa ∧ algKind 1 ≠ some KeyKind.ed25519 ∧ algKind 0 ≠ some KeyKind.ecdsa ∧ algKind 200 ≠ some KeyKind.rsa := by decide
/-- a nil RSA key pointer under an ECDSA code is an error, under the RSA code it is the panic the property excludes from "mismatch" -/
example : verifySignature ⟨fun _ m => m, fun _ _ _ _ => true⟩ { kind := .rsa, isNil := true } [] ⟨4, 3, [0x30, 6, 2, 1, 1, 2, 1, 1]⟩ = .err := by decide
example : verifySignature ⟨fun _ m => m, fun _ _ _ _ => true⟩ { kind := .rsa, isNil := true } [] ⟨4, 1, [1]⟩ = .panic := by decide

/-- an undeclared hash code is an error whatever else holds -/
theorem unsupported_hash_is_error (P : Prims) (key : Key) (data : Bytes) (ds : DigitallySigned)
    (hh : ds.hash = 0 ∨ 7 ≤ ds.hash) : verifySignature P key data ds = .err := by
  unfold verifySignature
  rw [hash_table_is_rfc]
  have : rfcHash ds.hash = none := by
    rcases hh with h | h
    · simp [h, rfcHash]
    · rcases hd : ds.hash with _|_|_|_|_|_|_|n <;> simp [rfcHash] <;> omega
  rw [this]

example : (255 : Nat) = 0 ∨ 7 ≤ (255 : Nat) := by decide

/-- **verifier_policy.** `NewSignatureVerifier` hands out a verifier exactly for RSA keys of at least 2048 bits and
ECDSA keys on P-256, or for any RSA/ECDSA key once `AllowVerificationWithNonCompliantKeys` is set; never for another
key type (DSA, Ed25519, anything else), opted in or not.  Over the regenerated `Gen.newVerifier`. -/
theorem verifier_policy (key : Key) (allow : Bool) :
    newVerifier key allow = true ↔
      (key.kind = .rsa ∧ (2048 ≤ key.bits ∨ allow = true)) ∨ (key.kind = .ecdsa ∧ (key.isP256 = true ∨ allow = true)) := by
  unfold newVerifier Gen.newVerifier Gen.newVerifier_rsa Gen.newVerifier_ecdsa
  cases hk : key.kind <;> cases allow <;> cases hp : key.isP256 <;> simp [KeyKind.name] <;> omega

example : newVerifier { kind := .rsa, bits := 2047 } false = false ∧ newVerifier { kind := .rsa, bits := 2048 } false = true ∧
    newVerifier { kind := .ecdsa, isP256 := false } false = false ∧ newVerifier { kind := .ecdsa, isP256 := false } true = true ∧
    newVerifier { kind := .dsa } true = false ∧ newVerifier { kind := .ed25519 } true = false := by decide

/-- **signed_bytes_exact (SCT).** When `VerifySCTSignature` passes, the message handed to `VerifySignature` is RFC 6962
§3.2's signature input of exactly this version, timestamp, entry and extensions — and those bytes are the signature
input of no other (version, timestamp, entry, extensions): changing any signed field changes the message. -/
theorem signed_bytes_exact_sct (P : Prims) (key : Key) (sct : SCT) (e : Entry) (h : verifySCT P key sct e = .ok) :
    ∃ msg, sctSigInput sct.version sct.timestamp e sct.extensions = some msg ∧
      verifySignature P key msg sct.sig = .ok ∧
      ∀ v' t' e' x', sctSigInput v' t' e' x' = some msg → v' = sct.version ∧ t' = sct.timestamp ∧ e' = e ∧ x' = sct.extensions := by
  unfold verifySCT at h
  cases hm : sctSigInput sct.version sct.timestamp e sct.extensions with
  | none => simp [hm] at h
  | some msg =>
    simp only [hm] at h
    refine ⟨msg, rfl, h, ?_⟩
    intro v' t' e' x' h'
    obtain ⟨a, b, c, d⟩ := sctSigInput_inj _ _ _ _ _ _ _ _ _ h' hm
    exact ⟨a, b, c, d⟩

/-- **signed_bytes_exact (STH).** The same for `VerifySTHSignature` and RFC 6962 §3.5. -/
theorem signed_bytes_exact_sth (P : Prims) (key : Key) (sth : STH) (h : verifySTH P key sth = .ok) :
    ∃ msg, sthSigInput sth.version sth.timestamp sth.treeSize sth.root = some msg ∧
      verifySignature P key msg sth.sig = .ok ∧
      ∀ v' t' n' r', sthSigInput v' t' n' r' = some msg → v' = sth.version ∧ t' = sth.timestamp ∧ n' = sth.treeSize ∧ r' = sth.root := by
  unfold verifySTH at h
  cases hm : sthSigInput sth.version sth.timestamp sth.treeSize sth.root with
  | none => simp [hm] at h
  | some msg =>
    simp only [hm] at h
    refine ⟨msg, rfl, h, ?_⟩
    intro v' t' n' r' h'
    obtain ⟨a, b, c, d⟩ := sthSigInput_inj _ _ _ _ _ _ _ _ _ h' hm
    exact ⟨a, b, c, d⟩

/-- the two kinds of signed object can never be confused either: an SCT signature input is never an STH signature input -/
theorem sct_input_is_not_sth_input (v v' : Nat) (t t' n' : UInt64) (e : Entry) (x r' b : Bytes)
    (h : sctSigInput v t e x = some b) (h' : sthSigInput v' t' n' r' = some b) : False := by
  unfold sctSigInput at h
  unfold sthSigInput at h'
  by_cases hv : v ≠ 0
  · simp [hv] at h
  by_cases hv' : v' ≠ 0
  · simp [hv'] at h'
  by_cases hr : r'.length ≠ 32
  · simp [hv', hr] at h'
  simp only [hv', hr, if_false, Option.some.injEq] at h'
  cases hs : signedEntry e with
  | none => simp [hv, hs] at h
  | some se =>
    cases ho : opaqueVec 2 0 65535 x with
    | none => simp [hv, hs, ho] at h
    | some xo =>
      simp only [hv, hs, ho, if_false, Option.some.injEq] at h
      subst h
      simp at h'

example : sctSigInput 0 1234 (.x509 [0xde, 0xad]) [] = some [0, 0, 0, 0, 0, 0, 0, 0, 4, 0xd2, 0, 0, 0, 0, 2, 0xde, 0xad, 0, 0] := by decide
example : sctSigInput 1 1234 (.x509 [0xde, 0xad]) [] = none ∧ sctSigInput 0 0 (.x509 []) [] = none ∧ sctSigInput 0 0 (.other 2) [] = none := by decide
example : (sthSigInput 0 1 2 (List.replicate 32 7)).isSome = true ∧ sthSigInput 0 1 2 [7] = none := by decide

/-- **signedJSON_verifies_first.** `NewFromSignedJSON` returns a list only after `VerifySignature` passed over the
whole document with SHA-256 and the algorithm of the key's type (RSA or ECDSA; any other key type is an error), and the
list is the parse of that same document. -/
theorem signedJSON_verifies_first {α : Type} (P : Prims) (parse : Bytes → Option α) (key : Key) (doc sig : Bytes) (v : α)
    (h : newFromSignedJSON P parse key doc sig = .ok v) :
    (key.kind = .rsa ∨ key.kind = .ecdsa) ∧
    verifySignature P key doc ⟨4, if key.kind = .rsa then 1 else 3, sig⟩ = .ok ∧ parse doc = some v := by
  unfold newFromSignedJSON at h
  have hH : Gen.signedJSONHash = 4 := rfl
  cases hk : key.kind <;> simp [hk, KeyKind.name, Gen.signedJSONAlg, List.lookup, hH] at h ⊢
  all_goals
    split at h
    · rename_i hv
      cases hp : parse doc with
      | none => simp [hp] at h
      | some w =>
        simp only [hp, Loaded.ok.injEq] at h
        subst h
        exact ⟨hv, rfl⟩
    · cases h
    · cases h

example : newFromSignedJSON ⟨fun _ m => m, fun _ _ _ _ => true⟩ (fun d => some d.length) { kind := .ecdsa } [1, 2] [0x30, 6, 2, 1, 1, 2, 1, 1] = .ok 2 := by decide
example : newFromSignedJSON ⟨fun _ m => m, fun _ _ _ _ => true⟩ (fun d => some d.length) { kind := .dsa } [1, 2] [0x30, 6, 2, 1, 1, 2, 1, 1] = .err := by decide

/-! ### relative to an abstract scheme: what a log signs verifies, trailing octets are ignored -/

/-- A signature an (EC)DSA log produces over the canonical bytes, DER-encoded, verifies — with any octets appended
after the SEQUENCE.  (`Scheme.correct` is the only assumption; the size bound holds for every real key size.) -/
theorem genuine_pair_verifies (S : Scheme) (digest : Nat → Bytes → Bytes) (k : S.Priv) (data rest : Bytes) (hc h : Nat)
    (a : Nat) (r s : Int) (hh : rfcHash hc = some h)
    (hk : a = 2 ∧ (S.pub k).kind = .dsa ∨ a = 3 ∧ (S.pub k).kind = .ecdsa) (hn : (S.pub k).isNil = false)
    (hs : S.sign k h (digest h data) = .pair r s) (hr : 0 < r) (hs' : 0 < s)
    (hsz : (derInt r ++ derInt s ++ []).length < 2^31) :
    verifySignature (S.prims digest) (S.pub k) data ⟨hc, a, derSig r s ++ rest⟩ = .ok := by
  rw [verify_iff]
  refine ⟨h, hh, hn, Or.inr ⟨hk, r, s, [], rest, rfl, hsz, fun _ => rfl, hr, hs', ?_⟩⟩
  have := S.correct k h (digest h data)
  rw [hs] at this
  exact this

/-- An RSA log's signature over the canonical bytes verifies. -/
theorem genuine_raw_verifies (S : Scheme) (digest : Nat → Bytes → Bytes) (k : S.Priv) (data sig : Bytes) (hc h : Nat)
    (hh : rfcHash hc = some h) (hk : (S.pub k).kind = .rsa) (hn : (S.pub k).isNil = false)
    (hs : S.sign k h (digest h data) = .raw sig) :
    verifySignature (S.prims digest) (S.pub k) data ⟨hc, 1, sig⟩ = .ok := by
  rw [verify_iff]
  refine ⟨h, hh, hn, Or.inl ⟨rfl, hk, ?_⟩⟩
  have := S.correct k h (digest h data)
  rw [hs] at this
  exact this

/-- a scheme whose verification recomputes the signature (a keyed checksum): `correct` holds, so the hypotheses are satisfiable -/
example : ∃ S : Scheme, ∃ k : S.Priv, (S.pub k).kind = .ecdsa ∧ S.sign k 5 [1] = .pair 8 2 :=
  ⟨⟨Nat, fun n => { kind := .ecdsa, id := n }, fun n _ d => .pair (n + 1 : Nat) (d.length + 1 : Nat),
      fun key _ d v => v == .pair (key.id + 1 : Nat) (d.length + 1 : Nat), by intro k h d; simp⟩, 7, rfl, by simp⟩

end C05
