import CTV.Model.SigVerify
import CTV.Lemmas.DerSig
import CTV.Lemmas.SigInput
import CTV.Lemmas.SigVerify
import CTV.Lemmas.SigScheme
import CTV.Lemmas.SigInputRfc
import CTV.Props.C04
/-!
# C05 — signature verification accepts exactly the valid log signatures

Theorems over `CTV.SigV.verifySignature` / `newVerifier` / `verifySCT` / `verifySTH` / `newFromSignedJSON`, which
interpret the tables and conditions **regenerated** on every run from tls/signature.go, signatures.go and
loglist3/loglist3.go (`CTV.Gen.Sig`), over the strict-DER fragment `CTV.Der` and over the RFC 6962 signature
inputs `CTV.SigInput`.  The primitives are a parameter `P : Prims` about which nothing is assumed; `Scheme.correct`
is a hypothesis of the sign-then-verify corollaries only.  All quantifiers range over all keys, codes, messages
and signature octets.
-/
set_option linter.unusedSimpArgs false
namespace C05
open CTV CTV.SigV CTV.SigInput CTV.DerSig

/-- **verify_iff.** `tls.VerifySignature` answers nil exactly when: the declared hash is one of RFC 5246's six, the
declared signature algorithm is the one of the key's type, the key is not a nil pointer, and either (RSA) the
primitive accepts the octets as carried, or ((EC)DSA) the octets are `DER(SEQUENCE{r, s …extra})` followed by
anything, with `0 < r`, `0 < s`, the primitive accepting `(r, s)` — where `extra`, octets after `s` *inside* the
SEQUENCE, must be empty exactly if the code has the exactness check (`Gen.sigExactDER`, regenerated; it was `false` on
the tree as found — the C05 finding, fixed by 1a2a72f — and is `true` now: see `verify_iff_canonical`).  This form never
unfolds the flag, so it holds for both trees.  The length bound is the fork's "length too large" rule. -/
theorem verify_iff (P : Prims) (key : Key) (data : Bytes) (ds : DigitallySigned) :
    verifySignature P key data ds = .ok ↔
      ∃ h, rfcHash ds.hash = some h ∧ key.primPanics = false ∧
        ((ds.sigAlg = 1 ∧ key.kind = .rsa ∧ P.prim key h (P.digest h data) (.raw ds.sig) = true) ∨
         ((ds.sigAlg = 2 ∧ key.kind = .dsa ∨ ds.sigAlg = 3 ∧ key.kind = .ecdsa) ∧
            ∃ r s extra rest, ds.sig = derSigX r s extra ++ rest ∧
              (derInt r ++ derInt s ++ extra).length < 2^31 ∧
              (Gen.sigExactDER ds.sigAlg = true → extra = []) ∧
              0 < r ∧ 0 < s ∧ P.prim key h (P.digest h data) (.pair r s) = true)) := by
  unfold verifySignature
  rw [hash_table_is_rfc, alg_table]
  cases hh : rfcHash ds.hash with
  | none => simp
  | some h =>
    simp only [Option.some.injEq, exists_eq_left']
    by_cases h1 : ds.sigAlg = 1
    · -- RSA
      simp only [h1, if_true, ne_eq, name_rsa, Bool.not_false]
      by_cases hk : key.kind = .rsa
      · by_cases hn : key.primPanics = true
        · simp [hk, hn]
        · by_cases hp : P.prim key h (P.digest h data) (.raw ds.sig) = true <;> simp [hk, hn, hp]
      · simp [hk]
    by_cases h2 : ds.sigAlg = 2
    · -- DSA
      simp only [h2, (by decide : ¬ (2:Nat) = 1), if_true, if_false, ne_eq, name_dsa, Bool.not_true, Bool.false_eq_true, if_false]
      by_cases hk : key.kind = .dsa
      · simp only [hk, not_true_eq_false, if_false]
        rw [pair_branch P key h (P.digest h data) ds.sig 2 (Or.inl rfl)]
        simp
      · simp [hk]
    by_cases h3 : ds.sigAlg = 3
    · -- ECDSA
      simp only [h3, (by decide : ¬ (3:Nat) = 1), (by decide : ¬ (3:Nat) = 2), if_true, if_false, ne_eq, name_ecdsa, Bool.not_true, Bool.false_eq_true, if_false]
      by_cases hk : key.kind = .ecdsa
      · simp only [hk, not_true_eq_false, if_false]
        rw [pair_branch P key h (P.digest h data) ds.sig 3 (Or.inr rfl)]
        simp
      · simp [hk]
    simp [h1, h2, h3]

/-- non-vacuity of `verify_iff`: a P-256 key, SHA-256, ECDSA, `30 06 02 01 01 02 01 01` with a primitive that accepts
(1, 1) verifies; with a primitive that refuses it does not. -/
example : verifySignature ⟨fun _ m => m, fun _ _ _ v => v == .pair 1 1⟩ { kind := .ecdsa } [7] ⟨4, 3, [0x30, 6, 2, 1, 1, 2, 1, 1]⟩ = .ok := by decide
example : verifySignature ⟨fun _ m => m, fun _ _ _ _ => false⟩ { kind := .ecdsa } [7] ⟨4, 3, [0x30, 6, 2, 1, 1, 2, 1, 1]⟩ = .err := by decide
example : rfcHash 4 = some 5 ∧ (derInt 1 ++ derInt 1 ++ []).length < 2^31 ∧ derSigX 1 1 [] ++ [9] = [0x30, 6, 2, 1, 1, 2, 1, 1, 9] := by decide

/-- the strict-DER reader of `CTV.Der` accepts exactly the canonical encodings: `parseSigPair sig = some ⟨r, s, extra, rest⟩`
iff `sig` is `30 len(02 len r, 02 len s, extra)` in minimal-length, minimal-two's-complement form followed by `rest`
(and the SEQUENCE content is shorter than 2^31, the fork's limit).  So zero-padded, non-minimal-length, indefinite,
truncated or wrongly tagged encodings are refused, and the integers read are the integers encoded. -/
theorem der_pair_iff (sig : Bytes) (p : SigPair) :
    parseSigPair sig = some p ↔
      sig = derSigX p.r p.s p.extra ++ p.rest ∧ (derInt p.r ++ derInt p.s ++ p.extra).length < 2^31 := by
  constructor
  · exact parseSigPair_sound sig p
  · rintro ⟨e, hsz⟩
    rw [e]
    exact parseSigPair_complete p.r p.s p.extra p.rest hsz

example : parseSigPair [0x30, 6, 2, 1, 1, 2, 1, 0x7f, 0xaa] = some ⟨1, 127, [], [0xaa]⟩ := by decide
example : parseSigPair [0x30, 7, 2, 2, 0, 1, 2, 1, 1] = none ∧ parseSigPair [0x30, 0x81, 6, 2, 1, 1, 2, 1, 1] = none ∧
    parseSigPair [0x30, 0x80, 2, 1, 1, 2, 1, 1, 0, 0] = none ∧ parseSigPair [0x31, 6, 2, 1, 1, 2, 1, 1] = none ∧
    parseSigPair [0x30, 6, 2, 1, 1, 2, 1] = none := by decide
example : parseSigPair [0x30, 6, 2, 1, 0xff, 2, 1, 0] = some ⟨-1, 0, [], []⟩ ∧ derSig (-1) 0 = [0x30, 6, 2, 1, 0xff, 2, 1, 0] ∧
    derSig 128 (-129) = [0x30, 8, 2, 2, 0, 0x80, 2, 2, 0xff, 0x7f] := by decide

/-- the exactness check of the (EC)DSA cases (`checkExactDER`: the octets before `rest` must equal the re-marshalled
`SEQUENCE{r, s}`) is present in tls/signature.go — **regenerated** from the source on every run.  On a tree without
the check (`fix: (EC)DSA signature verification accepted extra elements inside the DER SEQUENCE` reverted) this is
`false`, this lemma and the two theorems below stop compiling, and the harness shows the accepted octets. -/
theorem exact_der_check_present (a : Nat) (ha : a = 2 ∨ a = 3) : Gen.sigExactDER a = true := by
  rcases ha with rfl | rfl <;> rfl

/-- **accepted_pair_is_exact** (the property as stated — "bytes trailing a complete DER-encoded ECDSA or DSA value are
ignored", and nothing else is): an accepted (EC)DSA signature value is exactly `DER(SEQUENCE{INTEGER r, INTEGER s})`
followed by arbitrary octets, with `0 < r`, `0 < s`, and the primitive accepted `(r, s)` over the digest of the data. -/
theorem accepted_pair_is_exact (P : Prims) (key : Key) (data : Bytes) (ds : DigitallySigned)
    (ha : ds.sigAlg = 2 ∨ ds.sigAlg = 3) (h : verifySignature P key data ds = .ok) :
    ∃ hid r s rest, rfcHash ds.hash = some hid ∧ ds.sig = derSig r s ++ rest ∧ 0 < r ∧ 0 < s ∧
      P.prim key hid (P.digest hid data) (.pair r s) = true := by
  obtain ⟨hid, hh, _, hor⟩ := (verify_iff P key data ds).mp h
  rcases hor with ⟨h1, _⟩ | ⟨_, r, s, extra, rest, e, _, hex, hr, hs, hp⟩
  · omega
  · have := hex (exact_der_check_present ds.sigAlg ha)
    subst this
    exact ⟨hid, r, s, rest, hh, e, hr, hs, hp⟩

/-- **verify_iff, canonical form.** With the exactness check in the code, `verify_iff` reads: `tls.VerifySignature`
passes iff hash ∈ RFC 5246's six ∧ the algorithm is the key's ∧ ((RSA ∧ prim on the octets) ∨ ((EC)DSA ∧ ∃ r s rest,
sig = der(r, s) ++ rest ∧ r > 0 ∧ s > 0 ∧ prim on (r, s))). -/
theorem verify_iff_canonical (P : Prims) (key : Key) (data : Bytes) (ds : DigitallySigned) :
    verifySignature P key data ds = .ok ↔
      ∃ h, rfcHash ds.hash = some h ∧ key.primPanics = false ∧
        ((ds.sigAlg = 1 ∧ key.kind = .rsa ∧ P.prim key h (P.digest h data) (.raw ds.sig) = true) ∨
         ((ds.sigAlg = 2 ∧ key.kind = .dsa ∨ ds.sigAlg = 3 ∧ key.kind = .ecdsa) ∧
            ∃ r s rest, ds.sig = derSig r s ++ rest ∧ (derInt r ++ derInt s).length < 2^31 ∧
              0 < r ∧ 0 < s ∧ P.prim key h (P.digest h data) (.pair r s) = true)) := by
  rw [verify_iff]
  constructor
  · rintro ⟨h, hh, hn, hor⟩
    refine ⟨h, hh, hn, ?_⟩
    rcases hor with hrsa | ⟨hk, r, s, extra, rest, e, hsz, hex, hr, hs, hp⟩
    · exact Or.inl hrsa
    · have ha : ds.sigAlg = 2 ∨ ds.sigAlg = 3 := by rcases hk with ⟨h2, _⟩ | ⟨h3, _⟩ <;> omega
      have := hex (exact_der_check_present ds.sigAlg ha)
      subst this
      exact Or.inr ⟨hk, r, s, rest, e, by simpa using hsz, hr, hs, hp⟩
  · rintro ⟨h, hh, hn, hor⟩
    refine ⟨h, hh, hn, ?_⟩
    rcases hor with hrsa | ⟨hk, r, s, rest, e, hsz, hr, hs, hp⟩
    · exact Or.inl hrsa
    · exact Or.inr ⟨hk, r, s, [], rest, e, by simpa using hsz, fun _ => rfl, hr, hs, hp⟩

example : derSig 1 1 ++ [0xaa, 0xbb] = [0x30, 6, 2, 1, 1, 2, 1, 1, 0xaa, 0xbb] ∧ (derInt 1 ++ derInt 1).length < 2^31 := by decide
/-- octets after `s` inside the SEQUENCE are refused; octets after the SEQUENCE are ignored -/
example : verifySignature ⟨fun _ m => m, fun _ _ _ _ => true⟩ { kind := .ecdsa } [7] ⟨4, 3, [0x30, 8, 2, 1, 1, 2, 1, 1, 5, 0]⟩ = .err ∧
    verifySignature ⟨fun _ m => m, fun _ _ _ _ => true⟩ { kind := .ecdsa } [7] ⟨4, 3, [0x30, 6, 2, 1, 1, 2, 1, 1, 5, 0]⟩ = .ok := by decide

/-- **mismatch_is_error.** When the declared signature algorithm is not the one of the key's type (including every
code RFC 5246 does not assign to RSA/DSA/ECDSA, and every key type without a code such as Ed25519), the answer is an
error: never a pass, never a panic — also for a nil key pointer, also whatever the signature octets are. -/
theorem mismatch_is_error (P : Prims) (key : Key) (data : Bytes) (ds : DigitallySigned)
    (hm : algKind ds.sigAlg ≠ some key.kind) : verifySignature P key data ds = .err := by
  unfold verifySignature
  rw [hash_table_is_rfc, alg_table]
  cases rfcHash ds.hash with
  | none => rfl
  | some h =>
    simp only
    by_cases h1 : ds.sigAlg = 1
    · have : key.kind ≠ .rsa := by intro e; apply hm; simp [h1, algKind, e]
      simp [h1, name_rsa, this]
    by_cases h2 : ds.sigAlg = 2
    · have : key.kind ≠ .dsa := by intro e; apply hm; simp [h2, algKind, e]
      simp [h2, name_dsa, this]
    by_cases h3 : ds.sigAlg = 3
    · have : key.kind ≠ .ecdsa := by intro e; apply hm; simp [h3, algKind, e]
      simp [h3, name_ecdsa, this]
    simp [h1, h2, h3]

example : algKind 3 ≠ some KeyKind.rsa ∧ algKind 1 ≠ some KeyKind.ed25519 ∧ algKind 0 ≠ some KeyKind.ecdsa ∧ algKind 200 ≠ some KeyKind.rsa := by decide
/-- a nil RSA key pointer under an ECDSA code is an error, under the RSA code it is the panic the property excludes from "mismatch" -/
example : verifySignature ⟨fun _ m => m, fun _ _ _ _ => true⟩ { kind := .rsa, isNil := true } [] ⟨4, 3, [0x30, 6, 2, 1, 1, 2, 1, 1]⟩ = .err := by decide
example : verifySignature ⟨fun _ m => m, fun _ _ _ _ => true⟩ { kind := .rsa, isNil := true } [] ⟨4, 1, [1]⟩ = .panic := by decide

/-- an undeclared hash code is an error whatever else holds -/
theorem unsupported_hash_is_error (P : Prims) (key : Key) (data : Bytes) (ds : DigitallySigned)
    (hh : ds.hash = 0 ∨ 7 ≤ ds.hash) : verifySignature P key data ds = .err := by
  unfold verifySignature
  rw [hash_table_is_rfc]
  have : rfcHash ds.hash = none := by
    rcases hh with h | h
    · simp [h, rfcHash]
    · rcases hd : ds.hash with _|_|_|_|_|_|_|n <;> simp [rfcHash] <;> omega
  rw [this]

example : (255 : Nat) = 0 ∨ 7 ≤ (255 : Nat) := by decide

/-- **verifier_policy.** For a key on which it returns, `NewSignatureVerifier` hands out a verifier exactly for RSA keys of
at least 2048 bits and ECDSA keys on P-256, or for any RSA/ECDSA key once `AllowVerificationWithNonCompliantKeys` is
set; never for another key type (DSA, Ed25519, anything else), opted in or not.  Over the regenerated
`Gen.newVerifier` / `Gen.newVerifierKinds`. -/
theorem verifier_policy (key : Key) (allow : Bool) :
    newVerifier key allow = true ↔
      (key.kind = .rsa ∧ (2048 ≤ key.bits ∨ allow = true)) ∨ (key.kind = .ecdsa ∧ (key.isP256 = true ∨ allow = true)) := by
  unfold newVerifier Gen.newVerifier Gen.newVerifier_rsa Gen.newVerifier_ecdsa
  cases hk : key.kind <;> cases allow <;> cases hp : key.isP256 <;> simp [KeyKind.name, Gen.newVerifierKinds] <;> omega

/-- **verifier_policy, all keys.** The constructor's three outcomes: it panics exactly on a nil or zero-valued RSA/ECDSA
key pointer (`pkType.N.BitLen()`, `pkType.Params()` — degenerate keys the property does not speak about), returns a
verifier exactly under the policy above, and returns an error otherwise. -/
theorem verifier_policy_outcome (key : Key) (allow : Bool) :
    (newVerifierOutcome key allow = .panic ↔ key.ctorPanics = true) ∧
    (newVerifierOutcome key allow = .ok ↔ key.ctorPanics = false ∧
      ((key.kind = .rsa ∧ (2048 ≤ key.bits ∨ allow = true)) ∨ (key.kind = .ecdsa ∧ (key.isP256 = true ∨ allow = true)))) := by
  unfold newVerifierOutcome
  rw [← verifier_policy]
  cases hc : key.ctorPanics <;> cases hv : newVerifier key allow <;> simp

example : newVerifier { kind := .rsa, bits := 2047 } false = false ∧ newVerifier { kind := .rsa, bits := 2048 } false = true ∧
    newVerifier { kind := .ecdsa, isP256 := false } false = false ∧ newVerifier { kind := .ecdsa, isP256 := false } true = true ∧
    newVerifier { kind := .dsa } true = false ∧ newVerifier { kind := .ed25519 } true = false := by decide
example : newVerifierOutcome { kind := .rsa, isNil := true } true = .panic ∧ newVerifierOutcome { kind := .ecdsa, hollow := true } false = .panic ∧
    newVerifierOutcome { kind := .dsa, hollow := true } true = .err ∧ newVerifierOutcome { kind := .rsa, bits := 4096 } false = .ok := by decide
example := (verifier_policy { kind := .rsa, bits := 2048 } false).mpr (Or.inl ⟨rfl, Or.inl (by decide)⟩)

/-- **signed_bytes_exact (SCT).** When `VerifySCTSignature` passes, the message handed to `VerifySignature` is RFC 6962
§3.2's signature input of exactly this version, timestamp, entry and extensions — and those bytes are the signature
input of no other (version, timestamp, entry, extensions): changing any signed field changes the message. -/
theorem signed_bytes_exact_sct (P : Prims) (key : Key) (sct : SCT) (e : Entry) (h : verifySCT P key sct e = .ok) :
    ∃ msg, sctSigInput sct.version sct.timestamp e sct.extensions = some msg ∧
      verifySignature P key msg sct.sig = .ok ∧
      ∀ v' t' e' x', sctSigInput v' t' e' x' = some msg → v' = sct.version ∧ t' = sct.timestamp ∧ e' = e ∧ x' = sct.extensions := by
  rw [verifySCT_def] at h
  cases hm : sctSigInput sct.version sct.timestamp e sct.extensions with
  | none => simp [hm] at h
  | some msg =>
    simp only [hm] at h
    refine ⟨msg, rfl, h, ?_⟩
    intro v' t' e' x' h'
    obtain ⟨a, b, c, d⟩ := sctSigInput_inj _ _ _ _ _ _ _ _ _ h' hm
    exact ⟨a, b, c, d⟩

/-- **signed_bytes_exact (STH).** The same for `VerifySTHSignature` and RFC 6962 §3.5. -/
theorem signed_bytes_exact_sth (P : Prims) (key : Key) (sth : STH) (h : verifySTH P key sth = .ok) :
    ∃ msg, sthSigInput sth.version sth.timestamp sth.treeSize sth.root = some msg ∧
      verifySignature P key msg sth.sig = .ok ∧
      ∀ v' t' n' r', sthSigInput v' t' n' r' = some msg → v' = sth.version ∧ t' = sth.timestamp ∧ n' = sth.treeSize ∧ r' = sth.root := by
  rw [verifySTH_def] at h
  cases hm : sthSigInput sth.version sth.timestamp sth.treeSize sth.root with
  | none => simp [hm] at h
  | some msg =>
    simp only [hm] at h
    refine ⟨msg, rfl, h, ?_⟩
    intro v' t' n' r' h'
    obtain ⟨a, b, c, d⟩ := sthSigInput_inj _ _ _ _ _ _ _ _ _ h' hm
    exact ⟨a, b, c, d⟩

/-- the two kinds of signed object can never be confused either: an SCT signature input is never an STH signature input -/
theorem sct_input_is_not_sth_input (v v' : Nat) (t t' n' : UInt64) (e : Entry) (x r' b : Bytes)
    (h : sctSigInput v t e x = some b) (h' : sthSigInput v' t' n' r' = some b) : False := by
  unfold sctSigInput at h
  unfold sthSigInput at h'
  by_cases hv : v ≠ 0
  · simp [hv] at h
  by_cases hv' : v' ≠ 0
  · simp [hv'] at h'
  by_cases hr : r'.length ≠ 32
  · simp [hv', hr] at h'
  simp only [hv', hr, if_false, Option.some.injEq] at h'
  cases hs : signedEntry e with
  | none => simp [hv, hs] at h
  | some se =>
    cases ho : opaqueVec 2 0 65535 x with
    | none => simp [hv, hs, ho] at h
    | some xo =>
      simp only [hv, hs, ho, if_false, Option.some.injEq] at h
      subst h
      simp at h'

example : sctSigInput 0 1234 (.x509 [0xde, 0xad]) [] = some [0, 0, 0, 0, 0, 0, 0, 0, 4, 0xd2, 0, 0, 0, 0, 2, 0xde, 0xad, 0, 0] := by decide
example : sctSigInput 1 1234 (.x509 [0xde, 0xad]) [] = none ∧ sctSigInput 0 0 (.x509 []) [] = none ∧ sctSigInput 0 0 (.other 2) [] = none := by decide
example : (sthSigInput 0 1 2 (List.replicate 32 7)).isSome = true ∧ sthSigInput 0 1 2 [7] = none := by decide

/-- **signedJSON_verifies_first.** `NewFromSignedJSON` returns a list only after `VerifySignature` passed over the
whole document with SHA-256 and the algorithm of the key's type (RSA or ECDSA; any other key type is an error), and the
list is the parse of that same document. -/
theorem signedJSON_verifies_first {α : Type} (P : Prims) (parse : Bytes → Option α) (key : Key) (doc sig : Bytes) (v : α)
    (h : newFromSignedJSON P parse key doc sig = .ok v) :
    (key.kind = .rsa ∨ key.kind = .ecdsa) ∧
    verifySignature P key doc ⟨4, if key.kind = .rsa then 1 else 3, sig⟩ = .ok ∧ parse doc = some v := by
  unfold newFromSignedJSON at h
  have hH : Gen.signedJSONHash = 4 := rfl
  cases hk : key.kind <;> simp [hk, KeyKind.name, Gen.signedJSONAlg, List.lookup, hH] at h ⊢
  all_goals
    split at h
    · rename_i hv
      cases hp : parse doc with
      | none => simp [hp] at h
      | some w =>
        simp only [hp, Loaded.ok.injEq] at h
        subst h
        exact ⟨hv, rfl⟩
    · cases h
    · cases h

example : newFromSignedJSON ⟨fun _ m => m, fun _ _ _ _ => true⟩ (fun d => some d.length) { kind := .ecdsa } [1, 2] [0x30, 6, 2, 1, 1, 2, 1, 1] = .ok 2 := by decide
example : newFromSignedJSON ⟨fun _ m => m, fun _ _ _ _ => true⟩ (fun d => some d.length) { kind := .dsa } [1, 2] [0x30, 6, 2, 1, 1, 2, 1, 1] = .err := by decide

/-! ### the signed bytes are the layout the code's struct tags prescribe

`CTV.SigInput` is written from the RFC text.  `Lemmas/SigInputRfc.lean` proves it equal to the transcription
`Rfc.sctSigInputV1` / `Rfc.sthSigInputV1` of `CTV/Rfc6962/Wire.lean`, and C04 (`sctSigInput_spec`, `sthSigInput_spec`)
proves that transcription equal to `tls.Marshal` of `CertificateTimestamp` / `TreeHeadSignature` under the **regenerated**
struct tags (`Gen.ct_*`) inside the modelled `SerializeSCT/STHSignatureInput`.  So the injectivity theorems above are about
the bytes the repository's tags produce, not only about the RFC layout. -/

theorem sct_input_is_code_layout (v : Nat) (t : UInt64) (e : Entry) (x : Bytes) (re : Rfc.SignedEntry) (h : toRfcEntry e = some re) :
    sctSigInput v t e x = CtWire.eo (CtWire.serializeSCTSignatureInput (C04.sctIn ⟨v, t.toNat, re, x⟩)) := by
  rw [sctSigInput_eq_rfc, h, C04.sctSigInput_spec]

theorem sth_input_is_code_layout (v : Nat) (t n : UInt64) (r : Bytes) :
    sthSigInput v t n r = CtWire.eo (CtWire.serializeSTHSignatureInput ⟨v, t.toNat, n.toNat, r⟩) := by
  rw [sthSigInput_eq_rfc]
  exact (C04.sthSigInput_spec ⟨v, t.toNat, n.toNat, r⟩).symm

example : toRfcEntry (.x509 [1]) = some (.x509 [1]) ∧ toRfcEntry (.precert [2] [3]) = some (.precert ⟨[2], [3]⟩) := ⟨rfl, rfl⟩

/-! ### "iff": the wrappers in both directions -/

/-- `VerifySCTSignature` passes **iff** the signed input exists (v1, a known entry type, lengths in range) and
`VerifySignature` passes over exactly those bytes. -/
theorem verifySCT_iff (P : Prims) (key : Key) (sct : SCT) (e : Entry) :
    verifySCT P key sct e = .ok ↔
      ∃ msg, sctSigInput sct.version sct.timestamp e sct.extensions = some msg ∧ verifySignature P key msg sct.sig = .ok := by
  rw [verifySCT_def]
  cases sctSigInput sct.version sct.timestamp e sct.extensions <;> simp

theorem verifySTH_iff (P : Prims) (key : Key) (sth : STH) :
    verifySTH P key sth = .ok ↔
      ∃ msg, sthSigInput sth.version sth.timestamp sth.treeSize sth.root = some msg ∧ verifySignature P key msg sth.sig = .ok := by
  rw [verifySTH_def]
  cases sthSigInput sth.version sth.timestamp sth.treeSize sth.root <;> simp

/-- **signedJSON, both directions.** `NewFromSignedJSON` returns `v` **iff** the key is RSA or ECDSA, `VerifySignature`
passes over the whole document with SHA-256 and that key type's algorithm, and the document parses to `v`. -/
theorem signedJSON_iff {α : Type} (P : Prims) (parse : Bytes → Option α) (key : Key) (doc sig : Bytes) (v : α) :
    newFromSignedJSON P parse key doc sig = .ok v ↔
      (key.kind = .rsa ∨ key.kind = .ecdsa) ∧
      verifySignature P key doc ⟨4, if key.kind = .rsa then 1 else 3, sig⟩ = .ok ∧ parse doc = some v := by
  constructor
  · exact signedJSON_verifies_first P parse key doc sig v
  · rintro ⟨hk, hv, hp⟩
    unfold newFromSignedJSON
    have hH : Gen.signedJSONHash = 4 := rfl
    have hF : Gen.signedJSONVerifiesBeforeParse = true := rfl
    rcases hk with hk | hk <;> simp [hk, KeyKind.name, Gen.signedJSONAlg, List.lookup, hH, hF] at hv ⊢ <;> simp [hv, hp]

/-- witnesses: an SCT over an X.509 entry, an SCT over a precertificate entry and an STH that verify (primitive accepting (1, 1)) -/
example : verifySCT ⟨fun _ m => m, fun _ _ _ v => v == .pair 1 1⟩ { kind := .ecdsa } ⟨0, [], 5, [9], ⟨4, 3, [0x30, 6, 2, 1, 1, 2, 1, 1]⟩⟩ (.x509 [0xaa]) = .ok := by decide
example : verifySCT ⟨fun _ m => m, fun _ _ _ v => v == .pair 1 1⟩ { kind := .ecdsa } ⟨0, [], 5, [], ⟨4, 3, [0x30, 6, 2, 1, 1, 2, 1, 1]⟩⟩
    (.precert (List.replicate 32 7) [0xbb]) = .ok := by decide
example : verifySTH ⟨fun _ m => m, fun _ _ _ v => v == .pair 1 1⟩ { kind := .ecdsa } ⟨0, 10, 20, List.replicate 32 1, ⟨4, 3, [0x30, 6, 2, 1, 1, 2, 1, 1]⟩⟩ = .ok := by decide
/-- `signed_bytes_exact_sct` applied to the first witness -/
example := signed_bytes_exact_sct ⟨fun _ m => m, fun _ _ _ v => v == .pair 1 1⟩ { kind := .ecdsa } ⟨0, [], 5, [9], ⟨4, 3, [0x30, 6, 2, 1, 1, 2, 1, 1]⟩⟩ (.x509 [0xaa]) (by decide)
example := signed_bytes_exact_sth ⟨fun _ m => m, fun _ _ _ v => v == .pair 1 1⟩ { kind := .ecdsa } ⟨0, 10, 20, List.replicate 32 1, ⟨4, 3, [0x30, 6, 2, 1, 1, 2, 1, 1]⟩⟩ (by decide)
example := unsupported_hash_is_error ⟨fun _ m => m, fun _ _ _ _ => true⟩ { kind := .ecdsa } [1] ⟨255, 3, [0x30, 6, 2, 1, 1, 2, 1, 1]⟩ (Or.inr (by decide))
example := mismatch_is_error ⟨fun _ m => m, fun _ _ _ _ => true⟩ { kind := .rsa, isNil := true } [1] ⟨4, 3, [0x30, 6, 2, 1, 1, 2, 1, 1]⟩ (by decide)

/-! ### clause 2 at the level of the outcome: what changing a field, the key or an algorithm does to the verdict

Unforgeability is not claimed (the primitives are a parameter), so "fails" can be stated unconditionally only where the
control structure decides; everywhere else the statement is the reduction "a second acceptance would be an acceptance
by the primitive of a *different* message / digest / value". -/

/-- changing the signature-algorithm identifier of an accepted DigitallySigned makes verification fail — whatever the new
code and whatever the signature octets are changed to. -/
theorem alg_change_fails (P : Prims) (key : Key) (data : Bytes) (h a a' h' : Nat) (sig sig' : Bytes)
    (hok : verifySignature P key data ⟨h, a, sig⟩ = .ok) (hne : a' ≠ a) :
    verifySignature P key data ⟨h', a', sig'⟩ = .err := by
  apply mismatch_is_error
  obtain ⟨_, _, _, hor⟩ := (verify_iff P key data ⟨h, a, sig⟩).mp hok
  simp only at hor hne ⊢
  rcases hor with ⟨h1, hk, _⟩ | ⟨hk | hk, _⟩
  · subst h1; rw [hk]
    rcases a' with _|_|_|_|a' <;> simp [algKind] at hne ⊢
  · obtain ⟨h2, hk⟩ := hk; subst h2; rw [hk]
    rcases a' with _|_|_|_|a' <;> simp [algKind] at hne ⊢
  · obtain ⟨h3, hk⟩ := hk; subst h3; rw [hk]
    rcases a' with _|_|_|_|a' <;> simp [algKind] at hne ⊢

/-- replacing the key by one of another type makes verification of an accepted DigitallySigned fail -/
theorem key_kind_change_fails (P : Prims) (key key' : Key) (data data' : Bytes) (ds : DigitallySigned)
    (hok : verifySignature P key data ds = .ok) (hne : key'.kind ≠ key.kind) :
    verifySignature P key' data' ds = .err := by
  apply mismatch_is_error
  obtain ⟨_, _, _, hor⟩ := (verify_iff P key data ds).mp hok
  rcases hor with ⟨h1, hk, _⟩ | ⟨hk | hk, _⟩
  · rw [h1]; simp only [algKind, ne_eq, Option.some.injEq]; rw [← hk]; exact fun e => hne e.symm
  · rw [hk.1]; simp only [algKind, ne_eq, Option.some.injEq]; rw [← hk.2]; exact fun e => hne e.symm
  · rw [hk.1]; simp only [algKind, ne_eq, Option.some.injEq]; rw [← hk.2]; exact fun e => hne e.symm

/-- an (EC)DSA signature value that is not a canonical `SEQUENCE{r, s}` followed by anything — corrupted lengths, tags,
padding, truncation, octets inserted after `s` — fails whatever the primitive would say. -/
theorem corrupted_der_fails (P : Prims) (key : Key) (data : Bytes) (ds : DigitallySigned) (ha : ds.sigAlg = 2 ∨ ds.sigAlg = 3)
    (hbad : ∀ r s rest, ds.sig ≠ derSig r s ++ rest) (hn : key.primPanics = false) :
    verifySignature P key data ds = .err := by
  cases hv : verifySignature P key data ds with
  | err => rfl
  | panic => exact absurd hv (verifySignature_no_panic P key data ds hn)
  | ok =>
    obtain ⟨_, r, s, rest, _, e, _⟩ := accepted_pair_is_exact P key data ds ha hv
    exact absurd e (hbad r s rest)

/-- the unconditional refusals of `VerifySCTSignature`: another version, an unknown entry type, an over-long extensions
field, an empty or over-long certificate — before any signature is looked at. -/
theorem verifySCT_refuses (P : Prims) (key : Key) (sct : SCT) (e : Entry)
    (h : sct.version ≠ 0 ∨ (∃ n, e = .other n) ∨ sct.extensions.length > 65535 ∨
         (∃ c, e = .x509 c ∧ (c.length = 0 ∨ c.length > 16777215)) ∨
         (∃ i t, e = .precert i t ∧ (i.length ≠ 32 ∨ t.length = 0 ∨ t.length > 16777215))) :
    verifySCT P key sct e = .err := by
  rw [verifySCT_def]
  have : sctSigInput sct.version sct.timestamp e sct.extensions = none := by
    unfold sctSigInput
    rcases h with h | ⟨n, rfl⟩ | h | ⟨c, rfl, h⟩ | ⟨i, t, rfl, h⟩
    · simp [h]
    · by_cases hv : sct.version ≠ 0 <;> simp [hv, signedEntry]
    · by_cases hv : sct.version ≠ 0
      · simp [hv]
      · have : opaqueVec 2 0 65535 sct.extensions = none := by simp [opaqueVec]; omega
        simp only [hv, if_false, this]
        cases signedEntry e <;> rfl
    · by_cases hv : sct.version ≠ 0
      · simp [hv]
      · have : opaqueVec 3 1 16777215 c = none := by simp [opaqueVec]; omega
        simp [hv, signedEntry, this]
    · by_cases hv : sct.version ≠ 0
      · simp [hv]
      · by_cases hi : i.length ≠ 32
        · simp [hv, signedEntry, hi]
        · have : opaqueVec 3 1 16777215 t = none := by simp [opaqueVec]; omega
          simp [hv, signedEntry, hi, this]
  rw [this]

theorem verifySTH_refuses (P : Prims) (key : Key) (sth : STH) (h : sth.version ≠ 0 ∨ sth.root.length ≠ 32) :
    verifySTH P key sth = .err := by
  rw [verifySTH_def]
  have : sthSigInput sth.version sth.timestamp sth.treeSize sth.root = none := by
    unfold sthSigInput
    rcases h with h | h
    · simp [h]
    · by_cases hv : sth.version ≠ 0 <;> simp [hv, h]
  rw [this]

/-- **changing a signed field of an SCT.** If an SCT verifies for an entry, and a second (SCT, entry) that differs from it in
version, timestamp, entry (type, certificate, issuer key hash or TBS) or extensions verifies too, then the primitive
accepted signatures over two **different** messages.  (So with the same signature value, the primitive accepted one
value for two different messages — which is what "forged" means; that it cannot happen is the trusted part.) -/
theorem sct_field_change_needs_second_message (P : Prims) (key : Key) (sct sct' : SCT) (e e' : Entry)
    (h : verifySCT P key sct e = .ok) (h' : verifySCT P key sct' e' = .ok)
    (hne : ¬ (sct'.version = sct.version ∧ sct'.timestamp = sct.timestamp ∧ e' = e ∧ sct'.extensions = sct.extensions)) :
    ∃ m m', m ≠ m' ∧ sctSigInput sct.version sct.timestamp e sct.extensions = some m ∧
      sctSigInput sct'.version sct'.timestamp e' sct'.extensions = some m' ∧
      verifySignature P key m sct.sig = .ok ∧ verifySignature P key m' sct'.sig = .ok := by
  obtain ⟨m, hm, hv, hinj⟩ := signed_bytes_exact_sct P key sct e h
  obtain ⟨m', hm', hv', _⟩ := signed_bytes_exact_sct P key sct' e' h'
  refine ⟨m, m', ?_, hm, hm', hv, hv'⟩
  intro heq
  subst heq
  exact hne (hinj _ _ _ _ hm')

theorem sth_field_change_needs_second_message (P : Prims) (key : Key) (sth sth' : STH)
    (h : verifySTH P key sth = .ok) (h' : verifySTH P key sth' = .ok)
    (hne : ¬ (sth'.version = sth.version ∧ sth'.timestamp = sth.timestamp ∧ sth'.treeSize = sth.treeSize ∧ sth'.root = sth.root)) :
    ∃ m m', m ≠ m' ∧ sthSigInput sth.version sth.timestamp sth.treeSize sth.root = some m ∧
      sthSigInput sth'.version sth'.timestamp sth'.treeSize sth'.root = some m' ∧
      verifySignature P key m sth.sig = .ok ∧ verifySignature P key m' sth'.sig = .ok := by
  obtain ⟨m, hm, hv, hinj⟩ := signed_bytes_exact_sth P key sth h
  obtain ⟨m', hm', hv', _⟩ := signed_bytes_exact_sth P key sth' h'
  refine ⟨m, m', ?_, hm, hm', hv, hv'⟩
  intro heq
  subst heq
  exact hne (hinj _ _ _ _ hm')

/-- against a primitive that accepts at most one message per (key, hash, signature value) — what an unforgeable scheme
looks like from the verifier's side — changing any signed field of a verifying SCT, keeping its DigitallySigned, fails.
(`hinj` also asks the hash function not to collide on the two inputs.) -/
theorem sct_field_change_fails (P : Prims) (key : Key) (sct sct' : SCT) (e e' : Entry)
    (hone : ∀ h d d' v, P.prim key h d v = true → P.prim key h d' v = true → d = d')
    (hinj : ∀ h m m', P.digest h m = P.digest h m' → m = m')
    (h : verifySCT P key sct e = .ok) (hsig : sct'.sig = sct.sig) (hn : key.primPanics = false)
    (hne : ¬ (sct'.version = sct.version ∧ sct'.timestamp = sct.timestamp ∧ e' = e ∧ sct'.extensions = sct.extensions)) :
    verifySCT P key sct' e' = .err := by
  cases hv' : verifySCT P key sct' e' with
  | err => rfl
  | panic => exact absurd hv' (verifySCT_no_panic P key sct' e' hn)
  | ok =>
    exfalso
    obtain ⟨m, m', hmm, _, _, hv, hw⟩ := sct_field_change_needs_second_message P key sct sct' e e' h hv' hne
    rw [hsig] at hw
    obtain ⟨hid, hh, _, hor⟩ := (verify_iff P key m sct.sig).mp hv
    obtain ⟨hid', hh', _, hor'⟩ := (verify_iff P key m' sct.sig).mp hw
    have : hid' = hid := by rw [hh] at hh'; exact (Option.some.inj hh').symm
    subst this
    apply hmm
    rcases hor with ⟨a1, _, p1⟩ | ⟨hk1, r, s, x, t, e1, hsz1, _, _, _, p1⟩
    · rcases hor' with ⟨_, _, p2⟩ | ⟨hk2, _⟩
      · exact hinj _ _ _ (hone _ _ _ _ p1 p2)
      · rcases hk2 with ⟨h2, _⟩ | ⟨h3, _⟩ <;> omega
    · rcases hor' with ⟨a1', _, _⟩ | ⟨_, r', s', x', t', e2, hsz2, _, _, _, p2⟩
      · rcases hk1 with ⟨h2, _⟩ | ⟨h3, _⟩ <;> omega
      · have hp1 := parseSigPair_complete r s x t hsz1
        have hp2 := parseSigPair_complete r' s' x' t' hsz2
        rw [← e1] at hp1; rw [← e2] at hp2
        rw [hp1] at hp2
        cases hp2
        exact hinj _ _ _ (hone _ _ _ _ p1 p2)

/- FULL (clause 2, remaining cases): "changing the hash identifier to another supported one, the key to another key of the
   same type, or corrupting the signature value to another well-formed value makes verification fail".
   Not provable and not claimed: by `verify_iff` the verdict in these cases IS the primitive's verdict on the new
   (key, digest, value) — `P.prim key' h' (P.digest h' data) v'` — and the primitives are trusted, not modelled.
   What is proved: unsupported hash codes (`unsupported_hash_is_error`), another key *type* (`key_kind_change_fails`),
   another algorithm code (`alg_change_fails`), structurally corrupted (EC)DSA values (`corrupted_der_fails`), and the
   reductions `*_field_change_needs_second_message` / `sct_field_change_fails`.  The harness checks the remaining
   cases against the standard library on every run (classes other-hash, foreign-key, sig-bitflip, msg-bitflip, mut:*). -/
theorem hash_change_partial (P : Prims) (key : Key) (data : Bytes) (ds : DigitallySigned) (h' : Nat) :
    verifySignature P key data ⟨h', ds.sigAlg, ds.sig⟩ = .ok →
      ∃ hid, rfcHash h' = some hid ∧
        (P.prim key hid (P.digest hid data) (.raw ds.sig) = true ∨ ∃ r s, P.prim key hid (P.digest hid data) (.pair r s) = true) := by
  intro hok
  obtain ⟨hid, hh, _, hor⟩ := (verify_iff P key data ⟨h', ds.sigAlg, ds.sig⟩).mp hok
  refine ⟨hid, hh, ?_⟩
  rcases hor with ⟨_, _, p⟩ | ⟨_, r, s, _, _, _, _, _, _, _, p⟩
  · exact Or.inl p
  · exact Or.inr ⟨r, s, p⟩

example : verifySCT ⟨fun _ m => m, fun _ _ _ _ => true⟩ { kind := .ecdsa } ⟨1, [], 5, [], ⟨4, 3, [0x30, 6, 2, 1, 1, 2, 1, 1]⟩⟩ (.x509 [0xaa]) = .err ∧
    verifySCT ⟨fun _ m => m, fun _ _ _ _ => true⟩ { kind := .ecdsa } ⟨0, [], 5, [], ⟨4, 3, [0x30, 6, 2, 1, 1, 2, 1, 1]⟩⟩ (.other 2) = .err := by decide
example := alg_change_fails ⟨fun _ m => m, fun _ _ _ _ => true⟩ { kind := .ecdsa } [7] 4 3 1 4 [0x30, 6, 2, 1, 1, 2, 1, 1] [1] (by decide) (by decide)
example := key_kind_change_fails ⟨fun _ m => m, fun _ _ _ _ => true⟩ { kind := .ecdsa } { kind := .rsa } [7] [7] ⟨4, 3, [0x30, 6, 2, 1, 1, 2, 1, 1]⟩ (by decide) (by decide)

/-! ### Go arguments the well-formed `Entry` does not cover, and ctutil -/

/-- `VerifySCTSignature` with the nil pointers `SerializeSCTSignatureInput` does not guard: a nil `X509Entry` is an error
(tls.Marshal: "chosen field is nil"); a nil `PrecertEntry` or a nil `TimestampedEntry` is dereferenced once the version
switch has accepted v1.  Every caller inside the repository sets these pointers; this is outside the property
(observation, traced by the harness as `vsctnil`). -/
theorem verifySCTArg_cases (P : Prims) (key : Key) (sct : SCT) :
    (∀ e, verifySCTArg P key sct (.entry e) = verifySCT P key sct e) ∧
    verifySCTArg P key sct .nilX509 = .err ∧
    (verifySCTArg P key sct .nilPrecert = if sct.version = 0 then .panic else .err) ∧
    (verifySCTArg P key sct .nilTimestampedEntry = if sct.version = 0 then .panic else .err) := ⟨fun _ => rfl, rfl, rfl, rfl⟩

/-- **ctutil.VerifySCT / LogInfo.VerifySCTSignature** (shape regenerated: `Gen.ctutilPolicyThenVerify`): passes **iff** the key
passes the `NewSignatureVerifier` policy (so never for RSA < 2048, off-P-256 ECDSA without opt-in, DSA, Ed25519) **and**
`VerifySCTSignature` passes for the leaf built from the chain. -/
theorem ctutilVerifySCT_iff (P : Prims) (key : Key) (allow : Bool) (sct : SCT) (e : Entry) :
    ctutilVerifySCT P key allow sct e = .ok ↔
      key.ctorPanics = false ∧
      ((key.kind = .rsa ∧ (2048 ≤ key.bits ∨ allow = true)) ∨ (key.kind = .ecdsa ∧ (key.isP256 = true ∨ allow = true))) ∧
      verifySCT P key sct e = .ok := by
  unfold ctutilVerifySCT
  simp only [show Gen.ctutilPolicyThenVerify = true from rfl, Bool.not_true, Bool.false_eq_true, if_false]
  have hp := (verifier_policy_outcome key allow).2
  cases hv : newVerifierOutcome key allow with
  | ok => simp only; rw [hv] at hp; have := hp.mp rfl; simp [this.1, this.2]
  | err =>
    simp only
    constructor
    · intro h; cases h
    · rintro ⟨h1, h2, _⟩; rw [hv] at hp; have := hp.mpr ⟨h1, h2⟩; cases this
  | panic =>
    simp only
    constructor
    · intro h; cases h
    · rintro ⟨h1, h2, _⟩; rw [hv] at hp; have := hp.mpr ⟨h1, h2⟩; cases this

example : ctutilVerifySCT ⟨fun _ m => m, fun _ _ _ _ => true⟩ { kind := .ecdsa, isP256 := true } false ⟨0, [], 5, [], ⟨4, 3, [0x30, 6, 2, 1, 1, 2, 1, 1]⟩⟩ (.x509 [0xaa]) = .ok ∧
    ctutilVerifySCT ⟨fun _ m => m, fun _ _ _ _ => true⟩ { kind := .ecdsa, isP256 := false } false ⟨0, [], 5, [], ⟨4, 3, [0x30, 6, 2, 1, 1, 2, 1, 1]⟩⟩ (.x509 [0xaa]) = .err ∧
    ctutilVerifySCT ⟨fun _ m => m, fun _ _ _ _ => true⟩ { kind := .dsa } true ⟨0, [], 5, [], ⟨4, 2, [0x30, 6, 2, 1, 1, 2, 1, 1]⟩⟩ (.x509 [0xaa]) = .err := by decide

/-- the remaining regenerated shape facts the model rests on -/
theorem regenerated_shapes : Gen.sigPairFields = ["R", "S"] ∧ Gen.newVerifierKinds = ["rsa", "ecdsa"] ∧
    Gen.signedJSONVerifiesBeforeParse = true ∧ Gen.sctVerifySerializesThenVerifies = true ∧
    Gen.sthVerifySerializesThenVerifies = true ∧ Gen.ctutilPolicyThenVerify = true := ⟨rfl, rfl, rfl, rfl, rfl, rfl⟩

/-! ### relative to an abstract scheme: what a log signs verifies, trailing octets are ignored -/

/-- A signature an (EC)DSA log produces over the canonical bytes, DER-encoded, verifies — with any octets appended
after the SEQUENCE.  (`Scheme.correct` is the only assumption; the size bound holds for every real key size.) -/
theorem genuine_pair_verifies (S : Scheme) (digest : Nat → Bytes → Bytes) (k : S.Priv) (data rest : Bytes) (hc h : Nat)
    (a : Nat) (r s : Int) (hh : rfcHash hc = some h)
    (hk : a = 2 ∧ (S.pub k).kind = .dsa ∨ a = 3 ∧ (S.pub k).kind = .ecdsa) (hn : (S.pub k).primPanics = false)
    (hs : S.sign k h (digest h data) = .pair r s) (hr : 0 < r) (hs' : 0 < s)
    (hsz : (derInt r ++ derInt s ++ []).length < 2^31) :
    verifySignature (S.prims digest) (S.pub k) data ⟨hc, a, derSig r s ++ rest⟩ = .ok := by
  rw [verify_iff]
  refine ⟨h, hh, hn, Or.inr ⟨hk, r, s, [], rest, rfl, hsz, fun _ => rfl, hr, hs', ?_⟩⟩
  have := S.correct k h (digest h data)
  rw [hs] at this
  exact this

/-- An RSA log's signature over the canonical bytes verifies. -/
theorem genuine_raw_verifies (S : Scheme) (digest : Nat → Bytes → Bytes) (k : S.Priv) (data sig : Bytes) (hc h : Nat)
    (hh : rfcHash hc = some h) (hk : (S.pub k).kind = .rsa) (hn : (S.pub k).primPanics = false)
    (hs : S.sign k h (digest h data) = .raw sig) :
    verifySignature (S.prims digest) (S.pub k) data ⟨hc, 1, sig⟩ = .ok := by
  rw [verify_iff]
  refine ⟨h, hh, hn, Or.inl ⟨rfl, hk, ?_⟩⟩
  have := S.correct k h (digest h data)
  rw [hs] at this
  exact this

/-- a scheme whose verification recomputes the signature (a keyed checksum): `correct` holds, so the hypotheses of
`genuine_pair_verifies` are jointly satisfiable — the theorem is applied to it. -/
def toyScheme : Scheme :=
  ⟨Nat, fun n => { kind := .ecdsa, id := n }, fun n _ d => .pair (n + 1 : Nat) (d.length + 1 : Nat),
    fun key _ d v => v == .pair (key.id + 1 : Nat) (d.length + 1 : Nat), by intro k h d; simp⟩

example : verifySignature (toyScheme.prims fun _ m => m) (toyScheme.pub (7 : Nat)) [1] ⟨4, 3, derSig 8 2 ++ [0xee]⟩ = .ok :=
  genuine_pair_verifies toyScheme (fun _ m => m) (7 : Nat) [1] [0xee] 4 5 3 8 2 (by decide) (Or.inr ⟨rfl, rfl⟩) (by decide) (by decide) (by decide) (by decide) (by decide)

end C05
