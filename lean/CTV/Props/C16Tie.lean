import CTV.Gen.Scan
import CTV.Lemmas.Scan
/-!
# C16: the hand-written scan model follows the decision sequences regenerated from fetcher.go

`Gen.workerDecision` is one round of `runWorker`'s inner loop, `Gen.prepareChain` the whole body of `Fetcher.Prepare`, both
translated on every run from whatever shape the code has (helpers are followed, `if err == nil {…; continue}` and
`if err != nil {…; continue}` forms are both read). The theorems say the model's ops are exactly those decisions.
-/
set_option linter.unusedSimpArgs false
namespace CTV.Props.C16Tie
open CTV.Model.Scan

/-- which model op a worker round is: 0 = `abandon` (only after `cancel`), 1 = `err` (same range again), 2 = `resp` (deliver, advance) -/
def modelRound (cancelled reqFails : Bool) : Nat := if cancelled then 0 else if reqFails then 1 else 2

/-- **runWorker tie.** One round of the worker loop returns iff the context is done (checked first, before any request), asks again
for the same range iff the request failed, and otherwise hands the batch to the callback and advances — the model's `abandon` /
`err` / `resp`. In particular a failed request never advances and never reaches the callback, and a done context is noticed
before the next request. -/
theorem worker_round_tie (ctxDone reqFails : Bool) : Gen.workerDecision ctxDone reqFails = modelRound ctxDone reqFails := by
  cases ctxDone <;> cases reqFails <;> decide

/-- the model side of the three codes: `abandon` needs `cancelled`; `err` leaves the state unchanged; `resp` delivers exactly `k` entries -/
theorem model_round_ops (e : Env) (s : St) (w : Nat) :
    (s.cancelled = false → step e s (.abandon w) = s) ∧ step e s (.err w) = s := by
  refine ⟨fun h => ?_, rfl⟩
  simp only [step]
  split
  · simp [h]
  · rfl

/-- **Prepare tie.** `Prepare` answers from its cache without asking the log when it has an STH (1), fails when `GetSTH` fails (2,
nothing cached, the range untouched), and otherwise caches the STH and clamps the end (0; the clamp is `Gen.prepareResets`,
`C16.prepare_end`) — the driver initialises the model on exactly the first `sth` event and never again. -/
theorem prepare_tie (cached sthFails : Bool) :
    Gen.prepareChain cached sthFails = (if cached then 1 else if sthFails then 2 else 0) := by
  cases cached <;> cases sthFails <;> decide

example : Gen.workerDecision true false = 0 ∧ Gen.workerDecision false true = 1 ∧ Gen.workerDecision false false = 2 := by decide
example : Gen.prepareChain false false = 0 ∧ Gen.prepareChain true true = 1 := by decide

end CTV.Props.C16Tie
