import CTV.Lemmas.TlsCodec
import CTV.Lemmas.TlsTag
import CTV.Lemmas.TlsSupported
import CTV.Gen.CtTypes
/-!
# C09 — the TLS presentation codec is a bijection on every supported type shape

Theorems over the executable model `Tls.enc` / `Tls.dec` (`CTV/Tls/Codec.lean`, tied to `tls/tls.go` by the
correspondence run on generated Go types) for **every** type shape in the universe `Tls.Ty` — fixed-width
integers, enums, byte arrays, byte strings, vectors, nested structs, selector-driven variants — every value
and every byte string.  The range test `Info.check` and `byteCount` are the kernels **regenerated** from
`tls/tls.go` on each run (`Gen.fieldInfoCheck`, `Gen.byteCount`); `check_sound`, `check_spec_partial`, `C09Width8.check_spec`
and `byteCount_spec` are proved about whatever the extractor produced.

`Ty.wf` (hypothesis of `dec_enc` only): every enum / length prefix has a size clause of 1…8 bytes, and the
element type of every vector occupies at least one byte.  `enc_dec`, `dec_consumes`, `no_overalloc`,
`dec_terminates` need no hypothesis on the type at all.
-/
set_option linter.unusedSimpArgs false
namespace C09
open Tls CTV

/-! ## the two round trips

`Tls.dec : Ty → Bytes → Except Err (Val × Bytes)` has no argument for what the destination held before: in the model the
result of a decode is a function of the type shape and the bytes alone, so "decoding B into a variable that already
holds A gives what decoding B into a fresh variable gives" is true of the model by its type.  The implementation is held
to that by the harness' *reused-destination* mode (both C09 and C04: every successful decode is repeated into a
destination that already holds an earlier value of the same type and must give the same value, rest and re-encoding). -/

/-- decode ∘ encode: for every well-formed type shape `t` (variants included), every value `v` and every
suffix `r`: if `v` encodes to `bs` then `bs ++ r` decodes to exactly `v` with exactly `r` left over. -/
theorem dec_enc (t : Ty) (v : Val) (bs r : Bytes) (hw : t.wf = true) (h : enc t v = .ok bs) :
    dec t (bs ++ r) = .ok (v, r) := Tls.dec_enc t v bs r hw h

/-- encode ∘ decode: for **every** type shape (no side condition) and every byte string that decodes,
re-encoding the result reproduces exactly the bytes that were consumed. -/
theorem enc_dec (t : Ty) (bs rest : Bytes) (v : Val) (h : dec t bs = .ok (v, rest)) :
    ∃ u, bs = u ++ rest ∧ enc t v = .ok u := Tls.enc_dec t bs rest v h

/-- A struct with a selector and two variants, one of them a nested struct, plus a vector of structs. -/
def exTy : Ty := .struct
  (.plain "T" (.uint 8) (.plain "Sel" (.enum ⟨2, 0, 0, true⟩)
  (.variant "A" "Sel" 0 (.bytes ⟨3, 1, 16777215, true⟩)
  (.variant "B" "Sel" 1 (.struct (.plain "H" (.arr 2) (.plain "N" (.uint 3) .nil)))
  (.plain "V" (.vec ⟨1, 0, 255, true⟩ (.struct (.plain "X" (.uint 2) .nil))) .nil)))))
def exVal : Val := .struct [.num 1234, .num 1, .absent, .struct [.bytes [7, 8], .num 0x010203], .list [.struct [.num 5], .struct [.num 6]]]

example : exTy.wf = true := by decide
set_option maxRecDepth 20000 in
example : enc exTy exVal = .ok [0,0,0,0,0,0,4,0xd2, 0,1, 7,8,1,2,3, 4,0,5,0,6] := by rfl
set_option maxRecDepth 20000 in
example : dec exTy ([0,0,0,0,0,0,4,0xd2, 0,1, 7,8,1,2,3, 4,0,5,0,6] ++ [9, 9]) = .ok (exVal, [9, 9]) := by rfl
/-- the defect F1 shape (`struct{A uint8; B Uint24}`, input `07 01 02 03`): the model reads `B` at its offset. -/
example : dec (.struct (.plain "A" (.uint 1) (.plain "B" (.uint 3) .nil))) [7, 1, 2, 3]
    = .ok (.struct [.num 7, .num 0x010203], []) := by rfl

/-! ## bounds are enforced identically in both directions -/

/-- The values the encoder accepts are exactly the values the decoder can produce. -/
theorem bounds_symmetric (t : Ty) (v : Val) (hw : t.wf = true) :
    (∃ bs, enc t v = .ok bs) ↔ (∃ bs r, dec t bs = .ok (v, r)) := by
  constructor
  · rintro ⟨bs, h⟩
    exact ⟨bs ++ [], [], Tls.dec_enc t v bs [] hw h⟩
  · rintro ⟨bs, r, h⟩
    obtain ⟨u, _, hu⟩ := Tls.enc_dec t bs r v h
    exact ⟨u, hu⟩

/-- An enum value `n` that fits the field's width is accepted by `Marshal` iff the `count` bytes holding `n`
are accepted by `Unmarshal` — both are `Info.check n`. -/
theorem bounds_symmetric_enum (i : Info) (n : Nat) (r : Bytes) (hw : i.wf = true) (hn : n < 256 ^ i.count) :
    (∃ bs, enc (.enum i) (.num n) = .ok bs) ↔ (∃ v r', dec (.enum i) (beEnc i.count n ++ r) = .ok (v, r')) := by
  obtain ⟨hs, h1, _⟩ := (Info.wf_iff i).1 hw
  have hrd : readVar i (beEnc i.count n ++ r) = if i.check n then .ok (n, r) else .error .range := by
    have hlen : ¬ (i.count + r.length < i.count) := by omega
    simp [readVar, hs, beEnc_length, beDec_beEnc _ _ hn, hlen]
  by_cases hc : i.check n = true
  · simp [enc, dec, hrd, hc]
  · simp [enc, dec, hrd, hc]

/-- A length `b.length` that fits the prefix width is accepted by `Marshal` iff the prefixed string is accepted by `Unmarshal`. -/
theorem bounds_symmetric_length (i : Info) (b r : Bytes) (hw : i.wf = true) (hn : b.length < 256 ^ i.count) :
    (∃ bs, enc (.bytes i) (.bytes b) = .ok bs) ↔
      (∃ v r', dec (.bytes i) (beEnc i.count b.length ++ (b ++ r)) = .ok (v, r')) := by
  obtain ⟨hs, h1, _⟩ := (Info.wf_iff i).1 hw
  have hrd : readVar i (beEnc i.count b.length ++ (b ++ r)) =
      if i.check b.length then .ok (b.length, b ++ r) else .error .range := by
    have hlen : ¬ (i.count + (b.length + r.length) < i.count) := by omega
    simp [readVar, hs, beEnc_length, beDec_beEnc _ _ hn, hlen]
  by_cases hc : i.check b.length = true
  · simp [enc, dec, encPrefixed, readPrefixed, hrd, hc]
  · simp [enc, dec, encPrefixed, readPrefixed, hrd, hc]

example : Info.wf ⟨2, 1, 300, true⟩ = true := by decide
example : enc (.bytes ⟨2, 1, 300, true⟩) (.bytes []) = .error .range := by rfl
set_option maxRecDepth 20000 in
example : dec (.bytes ⟨2, 1, 300, true⟩) [0, 0, 5] = .error .range := by rfl
example : enc (.enum ⟨1, 0, 0, true⟩) (.num 256) = .error .range := by rfl
/-- the `check` quirk: `minlen` is not enforced when `maxlen = 0` (a tag `minlen:5,size:1` is impossible — `size`
replaces — but `size:1` alone gives exactly this info). -/
example : enc (.bytes ⟨1, 5, 0, true⟩) (.bytes [1]) = .ok [1, 1] := by rfl

/-! ## no out-of-bounds read, no over-allocation -/

/-- What is left over is a suffix of the input: the decoder never reads beyond it and never invents bytes. -/
theorem dec_consumes (t : Ty) (bs rest : Bytes) (v : Val) (h : dec t bs = .ok (v, rest)) :
    ∃ u, bs = u ++ rest := by
  obtain ⟨u, hu, _⟩ := Tls.enc_dec t bs rest v h
  exact ⟨u, hu⟩

/-- Everything a successful decode built is paid for by input it consumed: the payload bytes copied into byte
strings and arrays, and (separately) the total number of vector elements at all nesting levels, are each at
most the number of bytes consumed; in fact a value holding any vector element consumed strictly more bytes
than it holds elements. No type shape, declared length or nesting can make the decoder build more. -/
theorem no_overalloc (t : Ty) (bs rest : Bytes) (v : Val) (h : dec t bs = .ok (v, rest)) :
    v.payload + rest.length ≤ bs.length ∧ v.cells + rest.length ≤ bs.length ∧
      (0 < v.cells → v.cells + rest.length < bs.length) := by
  obtain ⟨a1, a2, a3⟩ := Tls.dec_alloc t bs rest v h
  refine ⟨a2, ?_, ?_⟩
  · rcases a3 with a3 | a3 <;> omega
  · intro hp; rcases a3 with a3 | a3 <;> omega

/- FULL (allocation clause for *failing* decodes): "no byte string causes an allocation larger than the input justifies" is about
hostile input, which mostly does not decode; `no_overalloc` speaks about successful decodes only.  The model is pure and
builds nothing on a failing path, so a statement about allocation before a failure would need an allocation-tracking
variant of `dec` mirroring where `reflect.MakeSlice` is called (after the declared length has been compared with the
remaining input, tls.go) — not done.  What stands instead: `readPrefixed_len` (a body is handed to the element loop only
after `declared length ≤ remaining input`), and on the implementation side the harness' hostile-input oracle
(`c09HostileAlloc`: all-ones length prefixes with a few bytes behind them, bytes allocated during the call measured with
runtime.MemStats, bound 256 KiB + 4 KiB·len(input)), which fires on "MakeSlice before the length test" (notes/C09.md). -/

example : (Val.list [.struct [.num 5], .struct [.num 6]]).cells = 2 := by rfl
example : exVal.payload = 2 ∧ exVal.cells = 2 := by decide

/-! ## termination -/

/-- The element loop never exhausts the fuel `dec` gives it (`body.length + 1`), for any type shape and input:
the model is total and `outOfFuel` is not a possible outcome. -/
theorem dec_terminates (t : Ty) (bs : Bytes) : dec t bs ≠ .error .outOfFuel := Tls.dec_ne_outOfFuel t bs

/-- For a well-formed type shape every iteration of every element loop consumes input: the outcome
`noProgress` (the Go loop `for innerOffset < len(inner)` spinning) cannot occur. -/
theorem dec_progress (t : Ty) (bs : Bytes) (hw : t.wf = true) : dec t bs ≠ .error .noProgress :=
  Tls.dec_ne_noProgress t bs hw

/-- The non-terminating shape is exhibited, not hidden: a vector of zero-width elements with a non-empty body
(`[]struct{}` and input `01 00`, finding F3) is outside `Ty.wf` and the model reports `noProgress`. -/
example : dec (.vec ⟨1, 0, 255, true⟩ (.struct .nil)) [1, 0] = .error .noProgress := by rfl
example : (Ty.vec ⟨1, 0, 255, true⟩ (.struct .nil)).wf = false := by decide
example : dec (.vec ⟨1, 0, 255, true⟩ (.uint 1)) [2, 7, 8, 9] = .ok (.list [.num 7, .num 8], [9]) := by rfl

/-! ## the regenerated kernels `byteCount` and `fieldInfo.check` -/

/-- `byteCount x` is the least width in 1…8 bytes that holds every value up to `x` (all of uint64). -/
theorem byteCount_spec (x : Nat) (hx : x < 2 ^ 64) :
    1 ≤ byteCount x ∧ byteCount x ≤ 8 ∧ x < 256 ^ byteCount x ∧ (1 < byteCount x → 256 ^ (byteCount x - 1) ≤ x) :=
  byteCount_spec' x hx

example : byteCount 255 = 1 ∧ byteCount 256 = 2 ∧ byteCount 65535 = 2 ∧ byteCount 65536 = 3 ∧ byteCount 16777215 = 3
    ∧ byteCount (2^56 - 1) = 7 ∧ byteCount (2^56) = 8 ∧ byteCount (2^64 - 1) = 8 := by decide

/-- `check` never accepts a value that does not fit the field or that violates an enforced range,
for every width up to 8 bytes. -/
theorem check_sound (i : Info) (v : Nat) (hc : i.count ≤ 8) (h : i.check v = true) :
    v < 256 ^ i.count ∧ (i.maxlen = 0 ∨ (i.minlen ≤ v ∧ v ≤ i.maxlen)) := by
  refine ⟨check_lt i v hc h, ?_⟩
  obtain ⟨c, mn, mx, cs⟩ := i
  simp only [Info.check, Bool.and_eq_true, decide_eq_true_eq] at h
  obtain ⟨_, h⟩ := h
  unfold Gen.fieldInfoCheck at h
  simp only at hc ⊢
  by_cases hm : mx = 0
  · left; exact hm
  · right
    repeat' split at h
    all_goals simp_all
    all_goals omega

/-- The iff for widths ≤ 7, kept because its proof does not depend on how width 8 is handled; the statement for all
widths 1…8 is `C09Width8.check_spec`. -/
theorem check_spec_partial (i : Info) (v : Nat) (hc : i.count ≤ 7) :
    i.check v = true ↔ (v < 256 ^ i.count ∧ (i.maxlen = 0 ∨ (i.minlen ≤ v ∧ v ≤ i.maxlen))) :=
  check_iff i v hc

example : Info.check ⟨2, 1, 300, true⟩ 300 = true ∧ Info.check ⟨2, 1, 300, true⟩ 301 = false
    ∧ Info.check ⟨2, 1, 300, true⟩ 0 = false ∧ Info.check ⟨1, 5, 0, true⟩ 3 = true ∧ Info.check ⟨7, 0, 0, true⟩ (2^56 - 1) = true := by decide

/-! ## the tag grammar -/

/-- `fieldTagToFieldInfo` is: split on `,`, fold the clauses from left to right, final checks.  (This is the definition of
`parseTag` restated — `rfl`; the content is in `tagClause_*`, `tag_maxval` … `tag_empty` below, in `Gen.tagFinalChecks`
(regenerated) and in the correspondence run, which sends every raw tag string through `parseTag`.) -/
theorem tag_grammar (str : List Char) (name : String) :
    parseTag str name = tagFinish ((splitOn ',' str).foldl tagClause none) name := rfl

/-- `maxval:N` (any decimal uint64 literal, leading zeros allowed): width `byteCount N`, which is `count = byteCount maxval`. -/
theorem tag_maxval (ds : List Char) (n : Nat) (name : String) (h : parseUint 64 ds = some n) :
    parseTag ("maxval:".toList ++ ds) name = .ok (some { count := byteCount n, countSet := true, name := name }) :=
  parseTag_maxval' ds n name h

/-- `size:S` for `1 ≤ S ≤ 8`. -/
theorem tag_size (ds : List Char) (n : Nat) (name : String) (h : parseUint 32 ds = some n) (h1 : 1 ≤ n) (h8 : n ≤ 8) :
    parseTag ("size:".toList ++ ds) name = .ok (some { count := n, countSet := true, name := name }) :=
  parseTag_size' ds n name h h1 h8

/-- a width outside 1…8 is a structural error -/
theorem tag_size_bad (ds : List Char) (n : Nat) (name : String) (h : parseUint 32 ds = some n) (hb : n < 1 ∨ 8 < n) :
    parseTag ("size:".toList ++ ds) name = .error .structural :=
  parseTag_size_bad' ds n name h hb

/-- `minlen:A,maxlen:B`: width `byteCount B`, range `A…B`; an inverted range is a structural error. -/
theorem tag_minlen_maxlen (da db : List Char) (a b : Nat) (name : String)
    (ha : parseUint 64 da = some a) (hb : parseUint 64 db = some b) :
    parseTag ("minlen:".toList ++ da ++ ',' :: ("maxlen:".toList ++ db)) name =
      if a ≤ b then .ok (some { count := byteCount b, countSet := true, minlen := a, maxlen := b, name := name })
      else .error .structural := by
  by_cases hab : a ≤ b
  · simp only [hab, if_true]; exact parseTag_minmax' da db a b name ha hb hab
  · simp only [hab, if_false]; exact parseTag_minmax_inverted' da db a b name ha hb (by omega)

/-- `selector:S,val:V` (S non-empty, without a comma): a variant of selector field `S` for value `V`;
none of the size checks apply. -/
theorem tag_selector_val (s dv : List Char) (v : Nat) (name : String) (hs : ',' ∉ s) (hne : String.ofList s ≠ "")
    (hv : parseUint 64 dv = some v) :
    parseTag ("selector:".toList ++ s ++ ',' :: ("val:".toList ++ dv)) name =
      .ok (some { selector := String.ofList s, val := v, name := name }) :=
  parseTag_selector_val' s dv v name hs hne hv

/-- A field without tag gets an info holding only its name; the top-level call (`name = ""`) gets none. -/
theorem tag_empty (name : String) :
    parseTag [] name = .ok (if name = "" then none else some { name := name }) := by
  have h0 : tagClause none [] = none := by decide +kernel
  simp only [parseTag, splitOn, List.foldl, h0, tagFinish]
  by_cases h : name = "" <;> simp [h]

/-- `maxval` and `size` **replace** what earlier clauses collected: `minlen:2,maxlen:10,maxval:300` has no range left. -/
example : parseTag "minlen:2,maxlen:10,maxval:300".toList "F" = .ok (some { count := 2, countSet := true, name := "F" }) := by
  decide +kernel
example : parseTag "maxval:255".toList "V" = .ok (some { count := 1, countSet := true, name := "V" }) := by decide +kernel
example : parseTag "minlen:1,maxlen:16777215".toList "Data"
    = .ok (some { count := 3, countSet := true, minlen := 1, maxlen := 16777215, name := "Data" }) := by decide +kernel
example : parseTag "selector:EntryType,val:32768".toList "J" = .ok (some { selector := "EntryType", val := 32768, name := "J" }) := by
  decide +kernel
example : parseTag "foo:1,,maxval:abc,maxval:-1,size:2,maxval:18446744073709551616".toList "F"
    = .ok (some { count := 2, countSet := true, name := "F" }) := by decide +kernel
example : parseTag "minlen:5,maxlen:2".toList "F" = .error .structural := by decide +kernel
example : parseUint 64 "0255".toList = some 255 ∧ parseUint 64 "".toList = none ∧ parseUint 64 "+5".toList = none
    ∧ parseUint 64 "18446744073709551615".toList = some (2^64 - 1) ∧ parseUint 64 "18446744073709551616".toList = none := by
  decide +kernel

/-- Resolution of the documented example type `VariantItem` (package comment of tls/tls.go). -/
example : resolve false (.struct (.cons "Sel" "maxval:2".toList (.named .u64)
      (.cons "Data16" "selector:Sel,val:1".toList (.ptr .u16)
      (.cons "Data32" "selector:Sel,val:2".toList (.ptr .u32) .nil)))) none
    = .struct (.plain "Sel" (.enum ⟨1, 0, 0, true⟩) (.variant "Data16" "Sel" 1 (.uint 2) (.variant "Data32" "Sel" 2 (.uint 4) .nil))) := by
  decide +kernel

/-! ## the documented mapping table yields well-formed shapes

`Tls.Sup` / `Tls.SupF` (CTV/Lemmas/TlsSupported.lean) transcribe the table in the package comment of tls/tls.go:
fixed-width integers, `[N]byte`, `tls.Enum` (or a type declared from it) with `size:`/`maxval:`, `[]byte` and `[]Type`
with `minlen:,maxlen:` (or any other size clause), nested structs, `*Type` with `selector:Field,val:V` — for arbitrary
decimal literals in the tags.  (Whether the selector precedes its variants does not matter for the theorems: the
encoder refuses the value otherwise.) -/

/-- Every Go type built from the documented shapes resolves to a well-formed codec type … -/
theorem supported_wf (g : GoTy) (h : Sup g) (info : Option FieldInfo) : (resolve false g info).wf = true := h.wf_top info

/-- … hence decoding the encoding of any of its values returns the value with exactly the suffix left over. -/
theorem dec_enc_supported (g : GoTy) (h : Sup g) (v : Val) (bs r : Bytes) (he : enc (resolve false g none) v = .ok bs) :
    dec (resolve false g none) (bs ++ r) = .ok (v, r) :=
  Tls.dec_enc _ v bs r (h.wf_top none) he

/-- Top-level values with parameters (`MarshalWithParams(v, "maxval:255")` …): an enum or a byte string / vector with a
documented size clause as parameter string is well-formed too. -/
theorem supported_top_enum (g : GoTy) (hk : g.enumKind = true) (params : List Char) (hp : SizeTag params) :
    ∃ T, resolveTop g params = .ok T ∧ T.wf = true := by
  obtain ⟨i, hi, _, hw⟩ := hp.parse ""
  exact ⟨.enum i.toInfo, by simp [resolveTop, hi, resolve_enumKind g hk], by simpa [Ty.wf] using hw⟩

theorem supported_top_bytes (g e : GoTy) (hc : g.core = .slice e) (he : e.isU8 = true) (params : List Char) (hp : SizeTag params) :
    ∃ T, resolveTop g params = .ok T ∧ T.wf = true := by
  obtain ⟨i, hi, _, hw⟩ := hp.parse ""
  refine ⟨.bytes i.toInfo, ?_, by simpa [Ty.wf] using hw⟩
  simp [resolveTop, hi, resolve_core g (by simp [hc, GoTy.composite]), hc, resolve, he]

/-- the documented example `VariantItem` is in the table -/
def variantItem : GoTy := .struct (.cons "Sel" ("maxval:".toList ++ "2".toList) (.named .u64)
  (.cons "Data16" ("selector:".toList ++ "Sel".toList ++ ',' :: ("val:".toList ++ "1".toList)) (.ptr .u16)
  (.cons "Data32" ("selector:".toList ++ "Sel".toList ++ ',' :: ("val:".toList ++ "2".toList)) (.ptr .u32) .nil)))

example : Sup variantItem :=
  .struct _ _ rfl (.enum "Sel" _ _ _ rfl (.maxval _ 2 (by decide +kernel))
    (.variant "Data16" "Sel".toList "1".toList 1 .u16 _ (by decide) (by decide) (by decide +kernel) .u16
    (.variant "Data32" "Sel".toList "2".toList 2 .u32 _ (by decide) (by decide) (by decide +kernel) .u32 .nil)))

/-- The repository's own wire structs are in the table, defined slice / array / enum types included: the regenerated
`ct.TreeHeadSignature` (enums declared from `tls.Enum`, `uint64`, `ct.SHA256Hash = [32]byte`) … -/
example : Sup Gen.ct_TreeHeadSignature :=
  have mv : SizeTag "maxval:255".toList := .ofEq (by decide) (.maxval "255".toList 255 (by decide +kernel))
  .struct _ _ rfl
    (.enum "Version" _ _ _ (by decide) mv
    (.enum "SignatureType" _ _ _ (by decide) mv
    (.plain "Timestamp" _ _ _ (by decide) .u64 (Or.inl (by decide))
    (.plain "TreeSize" _ _ _ (by decide) .u64 (Or.inl (by decide))
    (.plain "SHA256RootHash" _ _ _ (by decide) (.arr _ 32 .u8 rfl rfl) (Or.inl (by decide)) .nil)))))

/-- … and `ct.SignedCertificateTimestamp` (`ct.LogID` struct, `ct.CTExtensions = []byte`, `ct.DigitallySigned`, a defined
type of the defined struct `tls.DigitallySigned`). -/
example : Sup Gen.ct_SignedCertificateTimestamp :=
  have mv : SizeTag "maxval:255".toList := .ofEq (by decide) (.maxval "255".toList 255 (by decide +kernel))
  have ext : SizeTag "minlen:0,maxlen:65535".toList :=
    .ofEq (by decide) (.minmax "0".toList "65535".toList 0 65535 (by decide +kernel) (by decide +kernel) (by decide))
  .struct _ _ rfl
    (.enum "SCTVersion" _ _ _ (by decide) mv
    (.plain "LogID" _ _ _ (by decide)
      (.struct _ _ rfl (.plain "KeyID" _ _ _ (by decide) (.arr _ 32 .u8 rfl rfl) (Or.inl (by decide)) .nil)) (Or.inl (by decide))
    (.plain "Timestamp" _ _ _ (by decide) .u64 (Or.inl (by decide))
    (.bytes "Extensions" _ _ .u8 _ rfl rfl ext
    (.plain "Signature" _ _ _ (by decide)
      (.struct _ _ rfl
        (.plain "Algorithm" _ _ _ (by decide)
          (.struct _ _ rfl (.enum "Hash" _ _ _ (by decide) mv (.enum "Signature" _ _ _ (by decide) mv .nil))) (Or.inl (by decide))
        (.bytes "Signature" _ _ .u8 _ rfl rfl ext .nil)))
      (Or.inl (by decide)) .nil)))))

example : variantItem = .struct (.cons "Sel" "maxval:2".toList (.named .u64)
  (.cons "Data16" "selector:Sel,val:1".toList (.ptr .u16) (.cons "Data32" "selector:Sel,val:2".toList (.ptr .u32) .nil))) := by
  decide +kernel

end C09
