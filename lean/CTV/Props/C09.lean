import CTV.Lemmas.TlsCodec
import CTV.Tls.Tag
/-!
# C09 — the TLS presentation codec is a bijection on every supported type shape
(thin first version; theorems are deepened below)
-/
namespace C09
open Tls CTV

/-- decode ∘ encode: for every well-formed type shape `t` (variants included), every value `v` and every
suffix `r`, if `v` encodes to `bs` then `bs ++ r` decodes to exactly `v` with exactly `r` left over. -/
theorem dec_enc (t : Ty) (v : Val) (bs r : Bytes) (hw : t.wf = true) (h : enc t v = .ok bs) :
    dec t (bs ++ r) = .ok (v, r) := Tls.dec_enc t v bs r hw h

/-- encode ∘ decode: for **every** type shape (no side condition) and every byte string that decodes,
re-encoding the result reproduces exactly the bytes that were consumed. -/
theorem enc_dec (t : Ty) (bs rest : Bytes) (v : Val) (h : dec t bs = .ok (v, rest)) :
    ∃ u, bs = u ++ rest ∧ enc t v = .ok u := Tls.enc_dec t bs rest v h

end C09
