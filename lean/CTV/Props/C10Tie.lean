import CTV.Lemmas.DerTie
import CTV.Model.DerTieSpec
import CTV.Lemmas.DerTotal
/-!
# C10: the hand-written DER model follows the bodies regenerated from asn1.go

`Gen.checkIntegerBody`, `Gen.parseInt64Body`, `Gen.parseInt32Body`, `Gen.parseBigIntBody`, `Gen.parseBitStringBody`,
`Gen.parseObjectIdentifierBody`, `Gen.parseTagAndLengthBody` are the whole bodies of the corresponding functions of asn1/asn1.go;
`Gen.parseBase128IntStep` and `Gen.parseLengthStep` are one iteration of the loop of `parseBase128Int` and of the long-form length loop
of `parseTagAndLength` — translated statement by statement on every run (extract/k_dertie.go) into functions of the facts the code
tests. Result coding: 0 nil, 1 `SyntaxError`, 2 `StructuralError`, 3 another fresh error, 4 the failing callee's error unchanged
(9 in a loop step: next iteration). The theorems say that the model every C10 theorem is about (`CTV.Der`) decides exactly as those
bodies do on the facts the model computes: the ORDER of the tests, the comparison in each, and the class of the error each yields.
-/
set_option linter.unusedSimpArgs false
set_option linter.unusedVariables false
namespace CTV.Props.C10Tie
open CTV CTV.Der CTV.Der.Tie

/-- **checkInteger** (strict and lax branch): empty → structural; one octet → ok; lax → ok; `00` + top bit clear or `ff` + top bit
set → structural -/
theorem checkInteger_tie (lax : Bool) (c : Bytes) :
    code (checkInteger lax c) = Gen.checkIntegerBody c.length lax (byteAt c 0) (byteAt c 1) := by
  simp only [Gen.checkIntegerBody_eq_spec]
  match c with
  | [] => simp [checkInteger, code, cls, TieSpec.checkIntegerBody]
  | [b] => simp [checkInteger, code, TieSpec.checkIntegerBody]
  | b0 :: b1 :: rest =>
    have h0 : b0.toNat < 256 := UInt8.toNat_lt b0
    have h1 : b1.toNat < 256 := UInt8.toNat_lt b1
    obtain ⟨f1, f2, _, _⟩ := land_facts b1.toNat h1
    have e0 : (b0 = 0) ↔ b0.toNat = 0 := u8_eq b0 0 (by omega)
    have eff : (b0 = 0xff) ↔ b0.toNat = 255 := u8_eq b0 255 (by omega)
    have l1 : ((rest.length + 1 + 1 : Nat) : Int) ≠ 0 := by omega
    have l2 : ((rest.length + 1 + 1 : Nat) : Int) ≠ 1 := by omega
    have k1 : I64.land (byteAt (b0 :: b1 :: rest) 1) 0x80 = ((b1.toNat &&& 128 : Nat) : Int) := by
      have : byteAt (b0 :: b1 :: rest) 1 = (b1.toNat : Int) := by simp [byteAt]
      rw [this]; exact land_nat b1.toNat 128
    have k0 : byteAt (b0 :: b1 :: rest) 0 = (b0.toNat : Int) := by simp [byteAt]
    simp only [checkInteger, TieSpec.checkIntegerBody, List.length_cons, l1, l2, decide_false, Bool.false_eq_true, if_false, k0, k1]
    cases lax with
    | true => simp [code]
    | false =>
      simp only [Bool.false_eq_true, if_false]
      by_cases hc : (b0 = 0 ∧ b1.toNat < 128) ∨ (b0 = 0xff ∧ b1.toNat ≥ 128)
      · rw [if_pos hc]
        have : ((decide ((b0.toNat : Int) = 0) && decide (((b1.toNat &&& 128 : Nat) : Int) = 0)) ||
            (decide ((b0.toNat : Int) = 0xff) && decide (((b1.toNat &&& 128 : Nat) : Int) = 0x80))) = true := by
          simp only [Bool.or_eq_true, Bool.and_eq_true, decide_eq_true_eq]
          rcases hc with ⟨a, b⟩ | ⟨a, b⟩
          · have := e0.mp a; have := f1.mpr b; exact Or.inl ⟨by omega, by omega⟩
          · have := eff.mp a; have := f2.mpr b; exact Or.inr ⟨by omega, by omega⟩
        rw [if_pos this]; simp [code, cls]
      · rw [if_neg hc]
        have : ¬ (((decide ((b0.toNat : Int) = 0) && decide (((b1.toNat &&& 128 : Nat) : Int) = 0)) ||
            (decide ((b0.toNat : Int) = 0xff) && decide (((b1.toNat &&& 128 : Nat) : Int) = 0x80))) = true) := by
          intro h
          apply hc
          simp only [Bool.or_eq_true, Bool.and_eq_true, decide_eq_true_eq] at h
          rcases h with ⟨a, b⟩ | ⟨a, b⟩
          · exact Or.inl ⟨e0.mpr (by omega), f1.mp (by omega)⟩
          · exact Or.inr ⟨eff.mpr (by omega), f2.mp (by omega)⟩
        rw [if_neg this]; simp [code]

/-- **parseInt64**: checkInteger's error passed on; more than eight octets → structural -/
theorem parseInt64_tie (lax : Bool) (c : Bytes) :
    code (parseInt64 lax c) = resolve (Gen.parseInt64Body (failed (checkInteger lax c)) c.length) (code (checkInteger lax c)) := by
  simp only [Gen.parseInt64Body_eq_spec]
  unfold parseInt64
  cases h : checkInteger lax c with
  | error e => simp [code, failed, TieSpec.parseInt64Body, resolve]
  | ok u =>
    by_cases hl : c.length > 8
    · have : (c.length : Int) > 8 := by omega
      simp only [if_pos hl, failed, TieSpec.parseInt64Body, Bool.false_eq_true, if_false, decide_eq_true this, if_true]
      simp [code, cls, resolve]
    · have : ¬ ((c.length : Int) > 8) := by omega
      simp only [if_neg hl, failed, TieSpec.parseInt64Body, Bool.false_eq_true, if_false, decide_eq_false this]
      simp [code, resolve]

/-- **parseInt32**: checkInteger's / parseInt64's error passed on; a value outside int32 → structural -/
theorem parseInt32_tie (lax : Bool) (c : Bytes) :
    code (parseInt32 lax c) =
      resolve (Gen.parseInt32Body (failed (checkInteger lax c)) (failed (parseInt64 lax c))
        (match parseInt64 lax c with | .ok v => decide (v < -(2^31) ∨ v ≥ 2^31) | .error _ => false)) (code (parseInt64 lax c)) := by
  simp only [Gen.parseInt32Body_eq_spec]
  unfold parseInt32
  cases hc : checkInteger lax c with
  | error e =>
    have : parseInt64 lax c = .error e := by simp [parseInt64, hc]
    simp [this, code, failed, TieSpec.parseInt32Body, resolve]
  | ok u =>
    cases h : parseInt64 lax c with
    | error e => simp [code, failed, TieSpec.parseInt32Body, resolve]
    | ok v =>
      simp only [failed, TieSpec.parseInt32Body, Bool.false_eq_true, if_false]
      by_cases hv : v < -(2^31) ∨ v ≥ 2^31
      · simp only [if_pos hv, decide_eq_true hv, if_true]; simp [code, cls, resolve]
      · simp only [if_neg hv, decide_eq_false hv, Bool.false_eq_true, if_false]; simp [code, resolve]

/-- **parseBigInt**: only checkInteger can fail (both sign branches return nil) -/
theorem parseBigInt_tie (lax : Bool) (c : Bytes) :
    code (parseBigInt lax c) =
      resolve (Gen.parseBigIntBody (failed (checkInteger lax c)) c.length (byteAt c 0)) (code (checkInteger lax c)) := by
  simp only [Gen.parseBigIntBody_eq_spec]
  unfold parseBigInt
  cases h : checkInteger lax c with
  | error e => simp [code, failed, TieSpec.parseBigIntBody, resolve]
  | ok u =>
    simp only [code, failed, TieSpec.parseBigIntBody, resolve, Bool.false_eq_true, if_false]
    split <;> rfl

/-- **parseBitString**: empty → syntax; padding count > 7, or padding with no content octet, or a set padding bit → syntax
(`low` = the fact `bytes[len-1] & (1<<bytes[0] - 1) != 0`, read as "the last octet is not a multiple of 2^padding") -/
theorem parseBitString_tie (c : Bytes) (low : Bool)
    (hlow : low = true ↔ (c.getLast?.getD 0).toNat % 2 ^ (c.headD 0).toNat ≠ 0) :
    code (parseBitString c) = Gen.parseBitStringBody c.length (byteAt c 0) low := by
  simp only [Gen.parseBitStringBody_eq_spec]
  match c, hlow with
  | [], _ => simp [parseBitString, code, cls, TieSpec.parseBitStringBody]
  | p :: body, hlow =>
    have l1 : ((body.length + 1 : Nat) : Int) ≠ 0 := by omega
    have k0 : byteAt (p :: body) 0 = (p.toNat : Int) := by simp [byteAt]
    have hb : (body = []) ↔ ((body.length + 1 : Nat) : Int) = 1 := by
      constructor
      · intro h; subst h; rfl
      · intro h; have : body.length = 0 := by omega
        exact List.length_eq_zero_iff.mp this
    simp only [List.headD_cons] at hlow
    simp only [parseBitString, TieSpec.parseBitStringBody, List.length_cons, l1, decide_false, Bool.false_eq_true, if_false, k0, id]
    by_cases hc : p.toNat > 7 ∨ (body = [] ∧ p.toNat > 0) ∨ ((p :: body).getLast?.getD 0).toNat % 2 ^ p.toNat ≠ 0
    · rw [if_pos hc]
      have : ((decide ((p.toNat : Int) > 7) || (decide (((body.length + 1 : Nat) : Int) = 1) && decide ((p.toNat : Int) > 0))) || low) = true := by
        simp only [Bool.or_eq_true, Bool.and_eq_true, decide_eq_true_eq]
        rcases hc with a | ⟨a, b⟩ | a
        · exact Or.inl (Or.inl (by omega))
        · have := hb.mp a; exact Or.inl (Or.inr ⟨this, by omega⟩)
        · exact Or.inr (hlow.mpr a)
      rw [if_pos this]; simp [code, cls]
    · rw [if_neg hc]
      have : ¬ (((decide ((p.toNat : Int) > 7) || (decide (((body.length + 1 : Nat) : Int) = 1) && decide ((p.toNat : Int) > 0))) || low) = true) := by
        intro h
        apply hc
        simp only [Bool.or_eq_true, Bool.and_eq_true, decide_eq_true_eq] at h
        rcases h with (a | ⟨a, b⟩) | a
        · exact Or.inl (by omega)
        · exact Or.inr (Or.inl ⟨hb.mpr a, by omega⟩)
        · exact Or.inr (Or.inr (hlow.mp a))
      rw [if_neg this]; simp [code]

/-- **parseObjectIdentifier**: empty → nothing in lax mode, syntax otherwise; then the first sub-identifier's error, then the
loop's (each a `parseBase128Int` error passed on) -/
theorem parseOID_tie (d : Dialect) (lax : Bool) (c : Bytes) :
    code (parseOID d lax c) =
      resolve (Gen.parseObjectIdentifierBody c.length lax (failed (parseBase128 d c))
          (match parseBase128 d c with | .ok (_, rest) => failed (parseArcs d (rest.length + 1) rest) | .error _ => false))
        (match parseBase128 d c with | .ok (_, rest) => code (parseArcs d (rest.length + 1) rest) | .error e => cls e) := by
  simp only [Gen.parseObjectIdentifierBody_eq_spec]
  unfold parseOID
  match c with
  | [] => cases lax <;> simp [code, cls, TieSpec.parseObjectIdentifierBody, resolve]
  | b :: bs =>
    have l1 : ((bs.length + 1 : Nat) : Int) ≠ 0 := by omega
    simp only [List.cons_ne_nil, if_false, reduceCtorEq, TieSpec.parseObjectIdentifierBody, List.length_cons, l1, decide_false, Bool.false_eq_true]
    cases h0 : parseBase128 d (b :: bs) with
    | error e => simp [code, failed, resolve]
    | ok x =>
      obtain ⟨v, rest⟩ := x
      have key : ∀ x : Except Err (List Nat),
          code (match x with
            | .error e => (.error e : Except Err (List Nat))
            | .ok vs => .ok ((if v < 80 then [v / 40, v % 40] else [2, v - 80]) ++ vs)) =
          resolve (if (failed (Except.ok (v, rest) : Except Err (Nat × Bytes))) = true then 4 else if failed x = true then 4 else 0) (code x) := by
        intro x; cases x <;> simp [code, failed, resolve]
      exact key _

/-- **parseBase128Int, one iteration** (with the leading-`0x80` test, i.e. `d.b128min`): more than four continuation octets →
structural; leading `0x80` → syntax; last octet: value above MaxInt32 → structural, else done; otherwise next octet -/
theorem parseBase128_step_tie (d : Dialect) (hd : d.b128min = true) (s acc : Nat) (b : UInt8) (bs : Bytes) (off : Int) :
    parseBase128Go d s acc (b :: bs) =
      (let acc' := acc * 128 + b.toNat % 128
       let k := Gen.parseBase128IntStep s off b.toNat (decide (acc' > 2147483647))
       if k = 0 then .ok (acc', bs) else if k = 9 then parseBase128Go d (s + 1) acc' bs
       else if k = 1 then .error .syntax else .error .structural) := by
  simp only [Gen.parseBase128IntStep_eq_spec]
  have hb : b.toNat < 256 := UInt8.toNat_lt b
  obtain ⟨f1, _, _, _⟩ := land_facts b.toNat hb
  have e80 : (b = 0x80) ↔ b.toNat = 128 := u8_eq b 128 (by omega)
  have k1 : I64.land (b.toNat : Int) 0x80 = ((b.toNat &&& 128 : Nat) : Int) := land_nat b.toNat 128
  simp only [parseBase128Go, TieSpec.parseBase128IntStep, hd, Bool.true_and, k1]
  by_cases h5 : s = 5
  · have : (s : Int) = 5 := by omega
    simp [h5]
  · have h5' : ¬ ((s : Int) = 5) := by omega
    rw [if_neg h5]
    simp only [h5', decide_false, Bool.false_eq_true, if_false]
    by_cases hm : (s == 0 && b == 0x80) = true
    · rw [if_pos hm]
      simp only [Bool.and_eq_true, beq_iff_eq] at hm
      have a1 : (s : Int) = 0 := by omega
      have a2 : (b.toNat : Int) = 0x80 := by have := e80.mp hm.2; omega
      simp [a1, a2]
    · rw [if_neg hm]
      have : ¬ ((decide ((s : Int) = 0) && decide ((b.toNat : Int) = 0x80)) = true) := by
        intro h
        apply hm
        simp only [Bool.and_eq_true, decide_eq_true_eq, beq_iff_eq] at h ⊢
        exact ⟨by omega, e80.mpr (by omega)⟩
      rw [if_neg this]
      by_cases hl : b.toNat < 128
      · have z : ((b.toNat &&& 128 : Nat) : Int) = 0 := by have := f1.mpr hl; omega
        rw [if_pos hl]
        simp only [z, decide_true, if_true]
        by_cases ht : acc * 128 + b.toNat % 128 > 2147483647
        · simp [ht]
        · simp [ht]
      · have z : ¬ (((b.toNat &&& 128 : Nat) : Int) = 0) := by
          intro h; exact hl (f1.mp (by omega))
        rw [if_neg hl]
        simp only [z, decide_false, Bool.false_eq_true, if_false]
        simp

/-- **parseTagAndLength, one iteration of the long-form length loop**: input exhausted → syntax; accumulated length ≥ 2^23 →
structural; leading zero octet → structural; otherwise the next octet with `length*256 + b` -/
theorem parseLongLen_step_tie (n acc : Nat) (bs : Bytes) (L off : Int) (f : Int → Int)
    (hoff : bs = [] ↔ off ≥ L) (hf : ∀ b r, bs = b :: r → f off = (b.toNat : Int)) (hO : -(2^62) ≤ off ∧ off < 2^62) :
    parseLongLen (n + 1) acc bs =
      (let x := Gen.parseLengthStep L off acc f
       if x.1 = 9 then parseLongLen n x.2.2.2.toNat bs.tail else if x.1 = 1 then .error .syntax else .error .structural) := by
  simp only [Gen.parseLengthStep_eq_spec]
  have sh : I64.shl 1 23 = 8388608 := by decide
  match bs, hoff, hf with
  | [], hoff, _ =>
    have : off ≥ L := hoff.mp rfl
    simp [parseLongLen, TieSpec.parseLengthStep, this]
  | b :: r, hoff, hf =>
    have hlt : ¬ (off ≥ L) := fun h => by have := hoff.mpr h; cases this
    have hb : b.toNat < 256 := UInt8.toNat_lt b
    have fb := hf b r rfl
    simp only [parseLongLen, TieSpec.parseLengthStep, hlt, decide_false, Bool.false_eq_true, if_false, sh, fb, id, List.tail_cons]
    by_cases h23 : acc ≥ 2^23
    · have : (acc : Int) ≥ 8388608 := by omega
      simp [h23, this]
    · have h23' : ¬ ((acc : Int) ≥ 8388608) := by omega
      have w : I64.add (I64.mul (acc : Int) 256) (b.toNat : Int) = ((acc * 256 + b.toNat : Nat) : Int) := by
        unfold I64.add I64.mul
        rw [I64.wrap64_id' ((acc : Int) * 256) (by omega) (by omega)]
        rw [I64.wrap64_id' _ (by omega) (by omega)]
        omega
      rw [if_neg h23]
      simp only [h23', decide_false, Bool.false_eq_true, if_false, w]
      by_cases hz : acc * 256 + b.toNat = 0
      · have : ((acc * 256 + b.toNat : Nat) : Int) = 0 := by omega
        simp only [hz, this, decide_true, if_true]
        simp
      · have : ¬ (((acc * 256 + b.toNat : Nat) : Int) = 0) := by omega
        simp only [hz, this, decide_false, Bool.false_eq_true, if_false, Int.toNat_natCast]
        simp

/-! ### parseTagAndLength, whole body -/

/-- the length part of `parseTagAndLength` as it stands in the regenerated body (it occurs there twice: after a low and after a
high tag number); `lenTail_in_body` below checks that this copy IS the regenerated text -/
def lenTail (len : Int) (byteAt : Int → Int) (offset_ : Int) (loopFails : Bool) (loopLen : Int) : Nat :=
  if (decide (offset_ ≥ len)) then (1 : Nat)
  else
  let b_ := (byteAt offset_)
  if (decide ((I64.land b_ (0x80 : Int)) = (0 : Int))) then (0 : Nat)
  else
  let numBytes_ := (id (I64.land b_ (0x7f : Int)))
  if (decide (numBytes_ = (0 : Int))) then (1 : Nat)
  else
  if loopFails then (4 : Nat)
  else if (decide (loopLen < (0x80 : Int))) then (2 : Nat) else (0 : Nat)

theorem lenTail_in_body (len : Int) (byteAt : Int → Int) (b128Fails : Bool) (b128Tag b128Off : Int) (loopFails : Bool) (loopLen : Int) :
    TieSpec.parseTagAndLengthBody len byteAt 0 b128Fails b128Tag b128Off loopFails loopLen =
      if decide ((0 : Int) ≥ len) then 3
      else if decide (I64.land (byteAt 0) 0x1f = 0x1f) then
        (if b128Fails then 4 else if decide (b128Tag < 0x1f) then 1 else lenTail len byteAt b128Off loopFails loopLen)
      else lenTail len byteAt (I64.add 0 1) loopFails loopLen := by
  unfold TieSpec.parseTagAndLengthBody lenTail
  rfl

/-- the facts of the length part, as the model computes them on the octets `r` that follow the identifier -/
def loopOf (r : Bytes) : Except Err (Nat × Bytes) :=
  match r with
  | l :: r' => parseLongLen (l.toNat % 128) 0 r'
  | [] => .ok (0, [])

def loopLen (r : Bytes) : Int := match loopOf r with | .ok (n, _) => (n : Int) | .error _ => 0

theorem parseLen_tie (r : Bytes) (L off : Int) (f : Int → Int)
    (hoff : r = [] ↔ off ≥ L) (hf : ∀ l r', r = l :: r' → f off = (l.toNat : Int)) :
    code (parseLen r) = resolve (lenTail L f off (failed (loopOf r)) (loopLen r)) (code (loopOf r)) := by
  match r, hoff, hf with
  | [], hoff, _ =>
    have : off ≥ L := hoff.mp rfl
    simp [parseLen, lenTail, this, code, cls, resolve]
  | l :: r', hoff, hf =>
    have hlt : ¬ (off ≥ L) := fun h => by have := hoff.mpr h; cases this
    have hl := hf l r' rfl
    have hb : l.toNat < 256 := UInt8.toNat_lt l
    obtain ⟨f1, _, _, f4⟩ := land_facts l.toNat hb
    have k1 : I64.land (l.toNat : Int) 0x80 = ((l.toNat &&& 128 : Nat) : Int) := land_nat l.toNat 128
    have k2 : I64.land (l.toNat : Int) 0x7f = ((l.toNat &&& 127 : Nat) : Int) := land_nat l.toNat 127
    simp only [parseLen, lenTail, hlt, decide_false, Bool.false_eq_true, if_false, hl, k1, k2, id]
    by_cases h128 : l.toNat < 128
    · have z : ((l.toNat &&& 128 : Nat) : Int) = 0 := by have := f1.mpr h128; omega
      rw [if_pos h128]
      simp [z, code, resolve]
    · have z : ¬ (((l.toNat &&& 128 : Nat) : Int) = 0) := by intro h; exact h128 (f1.mp (by omega))
      rw [if_neg h128]
      simp only [z, decide_false, Bool.false_eq_true, if_false]
      by_cases h0 : l.toNat % 128 = 0
      · have z2 : ((l.toNat &&& 127 : Nat) : Int) = 0 := by omega
        rw [if_pos h0]
        simp [z2, code, cls, resolve]
      · have z2 : ¬ (((l.toNat &&& 127 : Nat) : Int) = 0) := by omega
        rw [if_neg h0]
        simp only [z2, decide_false, Bool.false_eq_true, if_false]
        have key : ∀ x : Except Err (Nat × Bytes),
            code (match x with
              | .error e => (.error e : Except Err (Nat × Bytes))
              | .ok (len, r') => if len < 128 then .error .structural else .ok (len, r')) =
            resolve (if failed x = true then 4
              else if decide ((match x with | .ok (n, _) => (n : Int) | .error _ => 0) < (0x80 : Int)) = true then 2 else 0) (code x) := by
          intro x
          cases x with
          | error e => simp [failed, code, resolve]
          | ok y =>
            obtain ⟨n, r''⟩ := y
            by_cases hn : n < 128
            · have : (n : Int) < 128 := by omega
              simp [failed, hn, this, code, cls, resolve]
            · have : ¬ ((n : Int) < 128) := by omega
              simp [failed, hn, this, code, resolve]
        exact key _

theorem byteAt_suffix (pre r : Bytes) (l : UInt8) (r' : Bytes) (h : r = l :: r') :
    byteAt (pre ++ r) ((pre ++ r).length - r.length : Nat) = (l.toNat : Int) := by
  subst h
  simp [byteAt]

/-- **parseTagAndLength**: the whole body — empty input → internal error; high-tag-number form: `parseBase128Int`'s error passed
on, tag < 31 → syntax; no length octet → syntax; short form → done; `0x80` (indefinite) → syntax; the long-form loop's error passed
on; long form for a length < 128 → structural. The facts: the input's length and octets, the result of `parseBase128Int` on what
follows the first octet (`parseBase128`, whose iterations are tied by `parseBase128_step_tie`), and the result of the long-form loop
(`parseLongLen`, tied by `parseLongLen_step_tie`). Three cases: empty input, low tag number, high tag number. -/
theorem parseTagLen_tie_empty (d : Dialect) (f : Int → Int) (x : Bool) (y z : Int) (u : Bool) (w : Int) :
    code (parseTagLen d []) = Gen.parseTagAndLengthBody 0 f 0 x y z u w := by
  simp only [Gen.parseTagAndLengthBody_eq_spec]
  simp [parseTagLen, parseTag, code, cls, TieSpec.parseTagAndLengthBody]

theorem parseTagLen_tie_low (d : Dialect) (b : UInt8) (t : Bytes) (h31 : b.toNat % 32 ≠ 31) (x : Bool) (y z : Int) :
    code (parseTagLen d (b :: t)) =
      resolve (Gen.parseTagAndLengthBody (b :: t).length (byteAt (b :: t)) 0 x y z (failed (loopOf t)) (loopLen t)) (code (loopOf t)) := by
  simp only [Gen.parseTagAndLengthBody_eq_spec]
  rw [lenTail_in_body]
  have hb : b.toNat < 256 := UInt8.toNat_lt b
  obtain ⟨_, _, f3, _⟩ := land_facts b.toNat hb
  have l0 : ¬ ((0 : Int) ≥ ((b :: t).length : Int)) := by simp only [List.length_cons]; omega
  have k0 : byteAt (b :: t) 0 = (b.toNat : Int) := by simp [byteAt]
  have k3 : I64.land (b.toNat : Int) 0x1f = ((b.toNat &&& 31 : Nat) : Int) := land_nat b.toNat 31
  have one : I64.add 0 1 = 1 := by decide
  have z31 : ¬ (((b.toNat &&& 31 : Nat) : Int) = 0x1f) := by omega
  simp only [l0, decide_false, Bool.false_eq_true, if_false, k0, k3, one, z31]
  simp only [parseTagLen, parseTag, if_neg h31]
  have hoff : t = [] ↔ (1 : Int) ≥ ((b :: t).length : Int) := by
    constructor
    · intro h; subst h; simp
    · intro h
      have : t.length = 0 := by simp at h; omega
      exact List.length_eq_zero_iff.mp this
  have hf : ∀ l r', t = l :: r' → byteAt (b :: t) 1 = (l.toNat : Int) := by
    intro l r' h; subst h; simp [byteAt]
  have := parseLen_tie t ((b :: t).length : Int) 1 (byteAt (b :: t)) hoff hf
  rw [← this]
  cases parseLen t with
  | error e => simp [code]
  | ok y => obtain ⟨n, r1⟩ := y; simp [code]

theorem parseTagLen_tie_high (d : Dialect) (b : UInt8) (t : Bytes) (h31 : b.toNat % 32 = 31) (u : Bool) (w : Int) :
    code (parseTagLen d (b :: t)) =
      match parseBase128 d t with
      | .error e => resolve (Gen.parseTagAndLengthBody (b :: t).length (byteAt (b :: t)) 0 true 0 0 u w) (cls e)
      | .ok (v, r0) =>
        resolve (Gen.parseTagAndLengthBody (b :: t).length (byteAt (b :: t)) 0 false v (((b :: t).length - r0.length : Nat) : Int)
          (failed (loopOf r0)) (loopLen r0)) (code (loopOf r0)) := by
  simp only [Gen.parseTagAndLengthBody_eq_spec]
  simp only [lenTail_in_body]
  have hb : b.toNat < 256 := UInt8.toNat_lt b
  obtain ⟨_, _, f3, _⟩ := land_facts b.toNat hb
  have l0 : ¬ ((0 : Int) ≥ ((b :: t).length : Int)) := by simp only [List.length_cons]; omega
  have k0 : byteAt (b :: t) 0 = (b.toNat : Int) := by simp [byteAt]
  have k3 : I64.land (b.toNat : Int) 0x1f = ((b.toNat &&& 31 : Nat) : Int) := land_nat b.toNat 31
  have z31 : ((b.toNat &&& 31 : Nat) : Int) = 0x1f := by omega
  simp only [l0, decide_false, Bool.false_eq_true, if_false, k0, k3, z31, decide_true, if_true]
  simp only [parseTagLen, parseTag, if_pos h31]
  cases h0 : parseBase128 d t with
  | error e => simp [code, resolve]
  | ok x =>
    obtain ⟨v, r0⟩ := x
    simp only [Bool.false_eq_true, if_false]
    by_cases hv : v < 31
    · have : (v : Int) < 0x1f := by omega
      simp [hv, this, code, cls, resolve]
    · have hv' : ¬ ((v : Int) < 0x1f) := by omega
      simp only [hv, hv', decide_false, Bool.false_eq_true, if_false]
      obtain ⟨pre, hpre, hp1⟩ := parseBase128Go_consumed d t 0 0 v r0 h0
      have hoff : r0 = [] ↔ (((b :: t).length - r0.length : Nat) : Int) ≥ ((b :: t).length : Int) := by
        constructor
        · intro h; subst h; simp
        · intro h
          have hl : (b :: t).length = pre.length + r0.length + 1 := by rw [hpre]; simp only [List.length_cons, List.length_append]
          have : r0.length = 0 := by omega
          exact List.length_eq_zero_iff.mp this
      have hf : ∀ l r', r0 = l :: r' → byteAt (b :: t) (((b :: t).length - r0.length : Nat) : Int) = (l.toNat : Int) := by
        intro l r' h
        have := byteAt_suffix (b :: pre) r0 l r' h
        rw [hpre]
        simpa using this
      have := parseLen_tie r0 ((b :: t).length : Int) _ (byteAt (b :: t)) hoff hf
      rw [← this]
      cases parseLen r0 with
      | error e => simp [code]
      | ok y => obtain ⟨n, r1⟩ := y; simp [code]

-- non-vacuity: the regenerated bodies on concrete facts
example : Gen.checkIntegerBody 2 false 0 0x7f = 2 ∧ Gen.checkIntegerBody 2 true 0 0x7f = 0 ∧ Gen.checkIntegerBody 2 false 0xff 0x80 = 2 ∧
    Gen.checkIntegerBody 0 true 0 0 = 2 := by decide
example : Gen.parseInt64Body false 9 = 2 ∧ Gen.parseInt32Body false false true = 2 ∧ Gen.parseBitStringBody 1 3 false = 1 := by decide
example : Gen.parseBase128IntStep 0 0 0x80 false = 1 ∧ Gen.parseBase128IntStep 5 0 0x81 false = 2 ∧ Gen.parseBase128IntStep 1 0 0x7f true = 2 ∧
    Gen.parseBase128IntStep 1 0 0x81 false = 9 := by decide
example : (Gen.parseLengthStep 4 2 0 fun _ => 0).1 = 2 ∧ (Gen.parseLengthStep 4 4 1 fun _ => 0).1 = 1 ∧
    Gen.parseLengthStep 4 2 1 (fun _ => 2) = (9, false, 3, 258) := by decide
-- `30 81 05`: long form for a length below 128 → structural; `30 80`: indefinite length → syntax; `1f 1e 00`: tag 30 in high form → syntax
example : Gen.parseTagAndLengthBody 3 (fun i => if i = 0 then 0x30 else if i = 1 then 0x81 else 5) 0 false 0 0 false 5 = 2 := by decide
example : Gen.parseTagAndLengthBody 2 (fun i => if i = 0 then 0x30 else 0x80) 0 false 0 0 false 0 = 1 := by decide
example : Gen.parseTagAndLengthBody 3 (fun i => if i = 0 then 0x1f else if i = 1 then 0x1e else 0) 0 false 30 2 false 0 = 1 := by decide

end CTV.Props.C10Tie
