import CTV.Model.Retry
/-!
# C13 — submission retries follow the server's pacing and stop when they should

Theorems over the **regenerated** kernels `Gen.backoffSet` (jsonclient/backoff.go `backoff.set`, with `time.Now()` as
the parameter `now_`), `Gen.waitDur` (the sleep computed by `waitForBackoff`), `Gen.retryClass` (the status switch of
`PostAndParseWithRetry`), `Gen.retryAfterSeconds`, `Gen.maxMultiplier`, `Gen.maxJitter`, and the hand model of the loop
in `CTV.Model.Retry` (tied by the virtual-time correspondence run). Instants and durations are int64 nanoseconds with
Go's wrap-around (`I64.*`); the hypotheses `InT` say that instants are ordinary dates (between 1823 and 2116), which is
what keeps `time.Time` arithmetic away from its saturation points.
-/
set_option linter.unusedSimpArgs false
namespace C13
open I64 CTV.Model.Retry

/-- an ordinary instant (1970 … 2116) or the stand-in for the zero `time.Time`: representable with room to add any wait
the code computes -/
def InT (t : Int) : Prop := -(2^62) ≤ t ∧ t < 2^62

theorem add_eq (a b : Int) (h1 : -(2^63) ≤ a + b) (h2 : a + b < 2^63) : I64.add a b = a + b := by
  unfold I64.add; exact wrap64_id' _ h1 h2
theorem sub_eq (a b : Int) (h1 : -(2^63) ≤ a - b) (h2 : a - b < 2^63) : I64.sub a b = a - b := by
  unfold I64.sub; exact wrap64_id' _ h1 h2
theorem mul_eq (a b : Int) (h1 : -(2^63) ≤ a * b) (h2 : a * b < 2^63) : I64.mul a b = a * b := by
  unfold I64.mul; exact wrap64_id' _ h1 h2

theorem w (x : Int) (h1 : -(2^63) ≤ x) (h2 : x < 2^63) : wrap64 x = x := wrap64_id' x h1 h2

/-- `1 << (m-1)` seconds for the multipliers the code can reach -/
theorem ladder (m : Int) (h1 : 1 ≤ m) (h8 : m ≤ 8) :
    I64.mul (1000000000 : Int) (wrap64 (I64.shl 1 (I64.sub m 1))) = 1000000000 * 2 ^ (m - 1).toNat ∧
    (1000000000 : Int) * 2 ^ (m - 1).toNat ≤ 128000000000 ∧ (1000000000 : Int) ≤ 1000000000 * 2 ^ (m - 1).toNat := by
  have : m = 1 ∨ m = 2 ∨ m = 3 ∨ m = 4 ∨ m = 5 ∨ m = 6 ∨ m = 7 ∨ m = 8 := by omega
  rcases this with rfl | rfl | rfl | rfl | rfl | rfl | rfl | rfl <;> decide

/-! ## the shared back-off state: invariants of `set` (every caller, every interleaving — `set` runs under the mutex,
so a concurrent history is a sequence of these atomic steps) -/

/-- `0 ≤ multiplier ≤ maxMultiplier` is preserved by every `set` -/
theorem set_mult_inv (nb m now : Int) (ov : Option Int) (h : 0 ≤ m ∧ m ≤ Gen.maxMultiplier) :
    0 ≤ (Gen.backoffSet nb m now ov).2.2 ∧ (Gen.backoffSet nb m now ov).2.2 ≤ Gen.maxMultiplier := by
  have h8 : Gen.maxMultiplier = 8 := by decide
  rw [h8] at h ⊢
  unfold Gen.backoffSet
  rw [h8]
  split
  · (try dsimp only); omega
  · cases ov with
    | some d => simp only [Option.isSome_some, if_true]; (try dsimp only); omega
    | none =>
      simp only [Option.isSome_none, Bool.false_eq_true, if_false, decide_eq_true_eq]
      split
      · rename_i hlt
        have : I64.add m 1 = m + 1 := by unfold I64.add; exact w _ (by omega) (by omega)
        simp only [this]; (try dsimp only); omega
      · (try dsimp only); omega

/-- while the stored `notBefore` is still in the future, `set` never moves it backwards -/
theorem set_notBefore_mono (nb m now : Int) (ov : Option Int) (hfut : nb > now) :
    nb ≤ (Gen.backoffSet nb m now ov).2.1 := by
  unfold Gen.backoffSet
  simp only [hfut, decide_true, if_true]
  cases ov with
  | none => simp
  | some d =>
    simp only [Option.isSome_some, if_true, Option.getD_some, decide_eq_true_eq]
    split <;> omega

/-! ## pacing -/

/-- **wait_ge_retry_after (kernel).** Whatever the state, after `set (some d)` the stored `notBefore` is at least `now + d`
and the returned wait at least `d` (for `d` such that `now + d` does not overflow). -/
theorem set_ge_override (nb m now d : Int) (hnow : 0 ≤ now ∧ now < 2^62) (hnb : InT nb)
    (hd : -(2^62) ≤ d ∧ d < 2^62) :
    now + d ≤ (Gen.backoffSet nb m now (some d)).2.1 ∧ d ≤ (Gen.backoffSet nb m now (some d)).1 := by
  unfold InT at *
  unfold Gen.backoffSet
  simp only [Option.isSome_some, if_true, Option.getD_some, decide_eq_true_eq]
  have ha : I64.add now d = now + d := add_eq _ _ (by omega) (by omega)
  simp only [ha]
  split
  · rename_i hfut
    split
    · rename_i hgt
      have : I64.sub (now + d) now = d := by rw [sub_eq _ _ (by omega) (by omega)]; omega
      simp only [this]; (try dsimp only); omega
    · rename_i hle
      have : I64.sub nb now = nb - now := sub_eq _ _ (by omega) (by omega)
      simp only [this]; (try dsimp only); omega
  · (try dsimp only); omega

/-- the sleep computed from a `notBefore` is at least the time remaining to it and at most that plus the jitter -/
theorem waitDur_bounds (nb now j : Int) (hnow : 0 ≤ now ∧ now < 2^62) (hnb : InT nb) (hj : 0 ≤ j ∧ j * 1000000 < Gen.maxJitter) :
    nb - now ≤ Gen.waitDur nb now j ∧ 0 ≤ Gen.waitDur nb now j ∧ Gen.waitDur nb now j ≤ max 0 (nb - now + Gen.maxJitter) := by
  have hmj : Gen.maxJitter = 250000000 := by decide
  rw [hmj] at hj ⊢
  unfold InT at *
  unfold Gen.waitDur
  have h1 : I64.wrap64 j = j := w _ (by omega) (by omega)
  rw [h1]
  have h2 : I64.mul 1000000 j = 1000000 * j := mul_eq _ _ (by omega) (by omega)
  rw [h2]
  have h3 : I64.add nb (1000000 * j) = nb + 1000000 * j := add_eq _ _ (by omega) (by omega)
  rw [h3]
  have h4 : I64.sub (nb + 1000000 * j) now = nb + 1000000 * j - now := sub_eq _ _ (by omega) (by omega)
  rw [h4]
  simp only [decide_eq_true_eq]
  split <;> omega

/-- **wait_ge_retry_after.** After a 429/503 carrying `Retry-After: n` seconds (`0 ≤ n`, below 146 years) the next request is
not sent before `now + n` seconds; with an HTTP-date `d` it is not sent before `d`. For every state of the shared back-off
and every jitter draw. -/
theorem wait_ge_retry_after_secs (s : BState) (now n j : Int) (st : Nat) (hst : classOf st = 2)
    (hnow : 0 ≤ now ∧ now < 2^62) (hnb : InT s.notBefore) (hn : 0 ≤ n ∧ n * 1000000000 < 2^62)
    (hj : 0 ≤ j ∧ j * 1000000 < Gen.maxJitter)
    (hnb' : InT (onResponse s now (.http st (.secs n))).2.notBefore) :
    (onResponse s now (.http st (.secs n))).1 = .retry ∧
    n * 1000000000 ≤ waitFor (onResponse s now (.http st (.secs n))).2 now j := by
  have hov : overrideOf now (.secs n) = some (n * 1000000000) := by
    simp only [overrideOf, Gen.retryAfterSeconds]
    rw [w n (by omega) (by omega), mul_eq _ _ (by omega) (by omega)]
  have hon : onResponse s now (.http st (.secs n)) = (.retry, (applySet s now (some (n * 1000000000))).2) := by
    unfold onResponse; simp only [hst, hov]
  rw [hon] at hnb' ⊢
  refine ⟨rfl, ?_⟩
  have hs := set_ge_override s.notBefore s.mult now (n * 1000000000) hnow hnb (by omega)
  unfold applySet at hnb' ⊢
  simp only at hnb' ⊢
  have hb := waitDur_bounds _ now j hnow hnb' hj
  unfold waitFor
  simp only
  omega

theorem wait_ge_retry_after_date (s : BState) (now d j : Int) (st : Nat) (hst : classOf st = 2)
    (hnow : 0 ≤ now ∧ now < 2^62) (hnb : InT s.notBefore) (hd : 0 ≤ d ∧ d < 2^62)
    (hj : 0 ≤ j ∧ j * 1000000 < Gen.maxJitter)
    (hnb' : InT (onResponse s now (.http st (.date d))).2.notBefore) :
    (onResponse s now (.http st (.date d))).1 = .retry ∧
    d ≤ now + waitFor (onResponse s now (.http st (.date d))).2 now j := by
  have hov : overrideOf now (.date d) = some (d - now) := by
    simp only [overrideOf]
    rw [sub_eq _ _ (by omega) (by omega)]
  have hon : onResponse s now (.http st (.date d)) = (.retry, (applySet s now (some (d - now))).2) := by
    unfold onResponse; simp only [hst, hov]
  rw [hon] at hnb' ⊢
  refine ⟨rfl, ?_⟩
  have hs := set_ge_override s.notBefore s.mult now (d - now) hnow hnb (by omega)
  unfold applySet at hnb' ⊢
  simp only at hnb' ⊢
  have hb := waitDur_bounds _ now j hnow hnb' hj
  unfold waitFor
  simp only
  omega

/-- invariant of a history in which the server never asked for more: the stored `notBefore` is at most 128 s ahead -/
def CapInv (s : BState) (now : Int) : Prop :=
  0 ≤ s.mult ∧ s.mult ≤ 8 ∧ s.notBefore ≤ now + 128000000000 ∧ InT s.notBefore

theorem capInv_init (now : Int) (h : 0 ≤ now) : CapInv BState.init now := by
  unfold CapInv BState.init zeroInstant InT at *; simp; omega

/-- **wait_le_cap (step).** A `set(nil)` at time `now` keeps the invariant and returns a wait of at most 128 s. -/
theorem set_nil_cap (s : BState) (now : Int) (hnow : 0 ≤ now) (hnow' : now < 2^61) (h : CapInv s now) :
    CapInv (applySet s now none).2 now ∧ (applySet s now none).1 ≤ 128000000000 ∧ 0 ≤ (applySet s now none).1 := by
  obtain ⟨h0, h8, hnb, hin⟩ := h
  unfold InT at *
  unfold applySet CapInv Gen.backoffSet
  have hm8 : Gen.maxMultiplier = 8 := by decide
  simp only [Option.isSome_none, Bool.false_eq_true, if_false, decide_eq_true_eq, hm8]
  split
  · rename_i hfut
    have : I64.sub s.notBefore now = s.notBefore - now := sub_eq _ _ (by omega) (by omega)
    simp only [this]
    try dsimp only
    refine ⟨⟨h0, h8, hnb, ?_⟩, ?_, ?_⟩
    · unfold InT; omega
    · omega
    · omega
  · rename_i hpast
    split
    · rename_i hlt
      have ha : I64.add s.mult 1 = s.mult + 1 := add_eq _ _ (by omega) (by omega)
      simp only [ha]
      obtain ⟨l1, l2, l3⟩ := ladder (s.mult + 1) (by omega) (by omega)
      rw [l1]
      have hadd : I64.add now (1000000000 * 2 ^ (s.mult + 1 - 1).toNat) = now + 1000000000 * 2 ^ (s.mult + 1 - 1).toNat :=
        add_eq _ _ (by omega) (by omega)
      simp only [hadd]
      try dsimp only
      refine ⟨⟨by omega, by omega, by omega, ?_⟩, by omega, by omega⟩
      unfold InT; omega
    · rename_i hge
      have hm : s.mult = 8 := by omega
      simp only [hm]
      obtain ⟨l1, l2, l3⟩ := ladder 8 (by omega) (by omega)
      rw [l1]
      have hadd : I64.add now (1000000000 * 2 ^ ((8:Int) - 1).toNat) = now + 1000000000 * 2 ^ ((8:Int) - 1).toNat :=
        add_eq _ _ (by omega) (by omega)
      simp only [hadd]
      try dsimp only
      refine ⟨⟨by omega, by omega, by omega, ?_⟩, by omega, by omega⟩
      unfold InT; omega

/-- the invariant survives the passage of time -/
theorem capInv_later (s : BState) (now now' : Int) (h : CapInv s now) (hle : now ≤ now') : CapInv s now' := by
  obtain ⟨a, b, c, d⟩ := h
  exact ⟨a, b, by omega, d⟩

/-- **wait_le_cap.** For every history of responses in which no Retry-After was ever honoured (every back-off `set` had a nil
override: errors, unparsable bodies, 429/503 without or with an unusable Retry-After), at non-decreasing instants, the sleep
before every retry is at most the 128 s exponential cap plus the fixed jitter. -/
theorem wait_le_cap (hist : List (Int × Resp)) : ∀ (s : BState) (t0 : Int), CapInv s t0 → (0 ≤ t0 ∧ t0 < 2^61) →
    (∀ p ∈ hist, 0 ≤ p.1 ∧ p.1 < 2^61 ∧ t0 ≤ p.1 ∧ (∀ st ra, p.2 = .http st ra → overrideOf p.1 ra = none)) →
    hist.Pairwise (fun a b => a.1 ≤ b.1) →
    ∀ (j : Int), (0 ≤ j ∧ j * 1000000 < Gen.maxJitter) →
    let final := hist.foldl (fun (acc : BState × Int) p => ((onResponse acc.1 p.1 p.2).2, p.1)) (s, t0)
    CapInv final.1 final.2 ∧ waitFor final.1 final.2 j ≤ 128000000000 + Gen.maxJitter := by
  induction hist with
  | nil =>
    intro s t0 hinv ht0 _ _ j hj
    simp only [List.foldl_nil]
    refine ⟨hinv, ?_⟩
    have := waitDur_bounds s.notBefore t0 j (by omega) hinv.2.2.2 hj
    unfold waitFor; unfold CapInv at hinv
    have hmj : Gen.maxJitter = 250000000 := by decide
    rw [hmj] at this ⊢; omega
  | cons p rest ih =>
    intro s t0 hinv ht0 hall hpw j hj
    simp only [List.foldl_cons]
    have hp := hall p (by simp)
    obtain ⟨hp0, hp61, hple, hpov⟩ := hp
    have hinv' : CapInv (onResponse s p.1 p.2).2 p.1 := by
      have hl := capInv_later s t0 p.1 hinv hple
      unfold onResponse
      cases hr : p.2 with
      | ctxErr => simpa using hl
      | otherErr => simp only; exact (set_nil_cap s p.1 hp0 hp61 hl).1
      | http st ra =>
        simp only
        split
        · exact hl
        · exact hl
        · rw [hpov st ra hr]; exact (set_nil_cap s p.1 hp0 hp61 hl).1
        · exact hl
    rw [List.pairwise_cons] at hpw
    exact ih _ p.1 hinv' ⟨hp0, hp61⟩ (fun q hq => by
      have := hall q (by simp [hq])
      exact ⟨this.1, this.2.1, hpw.1 q hq, this.2.2.2⟩) hpw.2 j hj

/-! ## what is retried, what is returned -/

/-- **retry_set.** A received response is retried exactly for 408, 429 and 503; 200 is returned as success; every other
status is returned at once as an error, without touching the back-off. Errors from the transport (and a POST converted
by a redirect, and an unparsable 200 body — all `otherErr`) are retried; context errors are returned. -/
theorem retry_set (s : BState) (now : Int) (st : Nat) (ra : RA) :
    ((onResponse s now (.http st ra)).1 = .retry ↔ (st = 408 ∨ st = 429 ∨ st = 503)) ∧
    ((onResponse s now (.http st ra)).1 = .retOk ↔ st = 200) ∧
    ((onResponse s now (.http st ra)).1 = .retErr ↔ (st ≠ 200 ∧ st ≠ 408 ∧ st ≠ 429 ∧ st ≠ 503)) ∧
    ((onResponse s now (.http st ra)).1 = .retErr → (onResponse s now (.http st ra)).2 = s) := by
  have hc : classOf st = (if st = 200 then 0 else if st = 408 then 1 else if st = 503 then 2 else if st = 429 then 2 else 3) := by
    unfold classOf
    have : Gen.retryClass = [(200, 0), (408, 1), (503, 2), (429, 2)] := by decide
    have hd : Gen.retryClassDefault = 3 := by decide
    rw [this, hd]
    simp only [List.lookup]
    by_cases h1 : st = 200
    · subst h1; simp
    · by_cases h2 : st = 408
      · subst h2; simp
      · by_cases h3 : st = 503
        · subst h3; simp
        · by_cases h4 : st = 429
          · subst h4; simp
          · have e1 : (st == 200) = false := by simp [h1]
            have e2 : (st == 408) = false := by simp [h2]
            have e3 : (st == 503) = false := by simp [h3]
            have e4 : (st == 429) = false := by simp [h4]
            simp [e1, e2, e3, e4, h1, h2, h3, h4]
  unfold onResponse
  simp only [hc]
  by_cases h1 : st = 200
  · subst h1; simp
  · by_cases h2 : st = 408
    · subst h2; simp
    · by_cases h3 : st = 503
      · subst h3; simp
      · by_cases h4 : st = 429
        · subst h4; simp
        · simp [h1, h2, h3, h4]

theorem other_errors_retried (s : BState) (now : Int) :
    (onResponse s now .otherErr).1 = .retry ∧ (onResponse s now .otherErr).1 ≠ .retOk := by
  unfold onResponse; simp

/-- **ctx_prompt (model).** A context error from the attempt is returned at once, with the back-off untouched. -/
theorem ctx_returned (s : BState) (now : Int) : onResponse s now .ctxErr = (.retCtx, s) := rfl

/-- **r408_no_added_delay.** A 408 leaves the shared back-off exactly as it was: the sleep before the retry is only what an
earlier back-off still requires (zero when none is pending). -/
theorem r408_no_added_delay (s : BState) (now j : Int) (ra : RA) :
    (onResponse s now (.http 408 ra)).2 = s ∧
    ((0 ≤ now ∧ now < 2^62) → InT s.notBefore → (0 ≤ j ∧ j * 1000000 < Gen.maxJitter) → s.notBefore + Gen.maxJitter ≤ now →
      waitFor (onResponse s now (.http 408 ra)).2 now j = 0) := by
  have h : (onResponse s now (.http 408 ra)) = (.retry, s) := by
    unfold onResponse
    have : classOf 408 = 1 := by decide
    simp [this]
  rw [h]
  refine ⟨rfl, ?_⟩
  intro hnow hnb hj hpast
  have := waitDur_bounds s.notBefore now j hnow hnb hj
  unfold waitFor
  simp only
  have hmax : max 0 (s.notBefore - now + Gen.maxJitter) = 0 := by omega
  omega

/-! ## non-vacuity -/
example : Gen.backoffSet zeroInstant 0 1700000000000000000 none = (1000000000, 1700000001000000000, 1) := by decide
example : Gen.backoffSet 1700000001000000000 8 1700000002000000000 none = (128000000000, 1700000130000000000, 8) := by decide
example : Gen.backoffSet 1700000100000000000 3 1700000002000000000 (some 5000000000) = (98000000000, 1700000100000000000, 3) := by decide
example : (onResponse BState.init 1700000000000000000 (.http 429 (.secs 30))).2.notBefore = 1700000030000000000 := by decide
example : classOf 429 = 2 ∧ classOf 503 = 2 ∧ classOf 408 = 1 ∧ classOf 500 = 3 ∧ classOf 200 = 0 := by decide
example : CapInv BState.init 1700000000000000000 ∧ InT 1700000000000000000 := by
  unfold CapInv BState.init zeroInstant InT; simp

end C13
