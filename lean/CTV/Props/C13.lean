import CTV.Model.Retry
/-!
# C13 — submission retries follow the server's pacing and stop when they should

Theorems over the **regenerated** kernels `Gen.backoffSet` (jsonclient/backoff.go `backoff.set`, with `time.Now()` as
the parameter `now_`), `Gen.waitDur` (the sleep computed by `waitForBackoff`), `Spec.retryClass` (the status switch of
`PostAndParseWithRetry`), `Spec.retryAfterSeconds` (the duration computed from `Retry-After: <seconds>`, including its
overflow handling), `Gen.maxMultiplier`, `Gen.maxJitter`, and the hand model of the loop in `CTV.Model.Retry` (tied by
the virtual-time correspondence run).

Instants are unbounded integers of nanoseconds (`time.Time` covers far more than int64 nanoseconds; `Time.Add` is exact
there: `T.add`), durations are int64 with Go's semantics: `Time.Sub`/`time.Until` **saturate** (`T.sub`), arithmetic on
`time.Duration` **wraps** (`I64.*`). No "ordinary date" side conditions are needed.
-/
set_option linter.unusedSimpArgs false
namespace C13
open I64 CTV.Model.Retry

theorem w (x : Int) (h1 : -(2^63) ≤ x) (h2 : x < 2^63) : wrap64 x = x := wrap64_id' x h1 h2
theorem add_eq (a b : Int) (h1 : -(2^63) ≤ a + b) (h2 : a + b < 2^63) : I64.add a b = a + b := by
  unfold I64.add; exact wrap64_id' _ h1 h2
theorem mul_eq (a b : Int) (h1 : -(2^63) ≤ a * b) (h2 : a * b < 2^63) : I64.mul a b = a * b := by
  unfold I64.mul; exact wrap64_id' _ h1 h2

/-- a `time.Duration` value -/
def IsDur (d : Int) : Prop := -(2^63) ≤ d ∧ d < 2^63

/-- `1 << (m-1)` seconds for the multipliers the code can reach -/
theorem ladder (m : Int) (h1 : 1 ≤ m) (h8 : m ≤ 8) :
    I64.mul (1000000000 : Int) (wrap64 (I64.shl 1 (I64.sub m 1))) = 1000000000 * 2 ^ (m - 1).toNat ∧
    (1000000000 : Int) * 2 ^ (m - 1).toNat ≤ 128000000000 ∧ (1000000000 : Int) ≤ 1000000000 * 2 ^ (m - 1).toNat := by
  have : m = 1 ∨ m = 2 ∨ m = 3 ∨ m = 4 ∨ m = 5 ∨ m = 6 ∨ m = 7 ∨ m = 8 := by omega
  rcases this with rfl | rfl | rfl | rfl | rfl | rfl | rfl | rfl <;> decide

/-! ## the shared back-off state: invariants of `set` (every caller, every interleaving — `set` runs under the mutex,
so a concurrent history is a sequence of these atomic steps) -/

/-- `0 ≤ multiplier ≤ maxMultiplier` is preserved by every `set` -/
theorem set_mult_inv (nb m now : Int) (ov : Option Int) (h : 0 ≤ m ∧ m ≤ Gen.maxMultiplier) :
    0 ≤ (Gen.backoffSet nb m now ov).2.2 ∧ (Gen.backoffSet nb m now ov).2.2 ≤ Gen.maxMultiplier := by
  have h8 : Gen.maxMultiplier = 8 := by decide
  rw [h8] at h ⊢
  rw [Gen.backoffSet_eq_spec]
  unfold Spec.backoffSet
  rw [h8]
  split
  · (try dsimp only); omega
  · cases ov with
    | some d => simp only [Option.isSome_some, if_true]; (try dsimp only); omega
    | none =>
      simp only [Option.isSome_none, Bool.false_eq_true, if_false, decide_eq_true_eq]
      split
      · rename_i hlt
        have : I64.add m 1 = m + 1 := add_eq _ _ (by omega) (by omega)
        simp only [this]; (try dsimp only); omega
      · (try dsimp only); omega

/-- while the stored `notBefore` is still in the future, `set` never moves it backwards -/
theorem set_notBefore_mono (nb m now : Int) (ov : Option Int) (hfut : nb > now) :
    nb ≤ (Gen.backoffSet nb m now ov).2.1 := by
  rw [Gen.backoffSet_eq_spec]
  unfold Spec.backoffSet
  simp only [hfut, decide_true, if_true]
  cases ov with
  | none => simp
  | some d =>
    simp only [Option.isSome_some, if_true, Option.getD_some, T.add]
    by_cases hgt : now + d > nb <;> simp only [hgt, decide_true, decide_false, if_true, if_false, Bool.false_eq_true] <;> omega

/-! ## pacing -/

/-- **wait_ge_retry_after (kernel).** For every state, every instant and every override `d` (any `time.Duration`): after
`set (some d)` the stored `notBefore` is at least `now + d` and the returned wait is at least `d`. No side condition. -/
theorem set_ge_override (nb m now d : Int) (hd : IsDur d) :
    now + d ≤ (Gen.backoffSet nb m now (some d)).2.1 ∧ d ≤ (Gen.backoffSet nb m now (some d)).1 := by
  unfold IsDur at hd
  rw [Gen.backoffSet_eq_spec]
  unfold Spec.backoffSet
  simp only [Option.isSome_some, if_true, Option.getD_some, T.add, T.sub]
  by_cases hfut : nb > now
  · simp only [hfut, decide_true, if_true]
    by_cases hgt : now + d > nb
    · simp only [hgt, decide_true, if_true]
      refine ⟨by omega, ?_⟩
      have : now + d - now = d := by omega
      rw [this, sat_id hd.1 hd.2]; omega
    · simp only [hgt, decide_false, if_false, Bool.false_eq_true]
      refine ⟨by omega, ?_⟩
      have := sat_mono (x := d) (y := nb - now) (by omega)
      rw [sat_id hd.1 hd.2] at this; exact this
  · simp only [hfut, decide_false, if_false, Bool.false_eq_true]
    omega

/-- the sleep computed from a `notBefore`: at least the (saturated) time remaining to it, never negative, and at most that
time plus the jitter -/
theorem waitDur_bounds (nb now j : Int) (hj : 0 ≤ j ∧ j * 1000000 < Gen.maxJitter) :
    sat (nb - now) ≤ Gen.waitDur nb now j ∧ 0 ≤ Gen.waitDur nb now j ∧
    Gen.waitDur nb now j ≤ max 0 (sat (nb - now + Gen.maxJitter)) := by
  have hmj : Gen.maxJitter = 250000000 := by decide
  rw [hmj] at hj ⊢
  rw [Gen.waitDur_eq_spec]
  unfold Spec.waitDur
  have h1 : I64.wrap64 j = j := w _ (by omega) (by omega)
  rw [h1]
  have h2 : I64.mul 1000000 j = 1000000 * j := mul_eq _ _ (by omega) (by omega)
  rw [h2]
  simp only [T.add, T.sub]
  have m1 := sat_mono (x := nb - now) (y := nb + 1000000 * j - now) (by omega)
  have m2 := sat_mono (x := nb + 1000000 * j - now) (y := nb - now + 250000000) (by omega)
  by_cases hneg : sat (nb + 1000000 * j - now) < 0 <;>
    simp only [hneg, decide_true, decide_false, if_true, if_false, Bool.false_eq_true] <;> omega

/-- the quotient of an int64 by 10⁹ (Go's truncated division) lies strictly inside ±9223372037 -/
theorem tdiv_e9_bounds (x : Int) (h : -(2^63) ≤ x ∧ x < 2^63) :
    -9223372037 < Int.tdiv x 1000000000 ∧ Int.tdiv x 1000000000 < 9223372037 := by
  rcases Int.le_total 0 x with h0 | h0
  · rw [Int.tdiv_eq_ediv_of_nonneg h0]; omega
  · have h2 : Int.tdiv x 1000000000 = -(Int.tdiv (-x) 1000000000) := by
      rw [Int.neg_tdiv]; omega
    rw [h2, Int.tdiv_eq_ediv_of_nonneg (by omega)]; omega

/-- what `Retry-After: n` (seconds) becomes: `n` seconds, saturated to the largest / smallest `time.Duration` when
`n · 10⁹` does not fit — for **every** integer `n` that `strconv.Atoi` can return. -/
theorem retryAfterSeconds_sat (n : Int) (hn : -(2^63) ≤ n ∧ n < 2^63) :
    Spec.retryAfterSeconds n = sat (n * 1000000000) := by
  unfold Spec.retryAfterSeconds
  rw [w n hn.1 hn.2]
  by_cases hin : -(2^63) ≤ n * 1000000000 ∧ n * 1000000000 < 2^63
  · rw [mul_eq _ _ hin.1 hin.2, sat_id hin.1 hin.2]
    have : I64.div (n * 1000000000) 1000000000 = n := by
      unfold I64.div
      rw [Int.mul_tdiv_cancel _ (by decide)]
      exact w n hn.1 hn.2
    simp [this]
  · -- the product overflowed: the wrapped value divided by 10⁹ is at most 9223372036 in absolute value, never `n`
    have hbig : n ≥ 9223372037 ∨ n ≤ -9223372037 := by omega
    have hb := wrap64_inRange (n * 1000000000)
    unfold inRange at hb
    have hq := tdiv_e9_bounds (wrap64 (n * 1000000000)) hb
    have hne : I64.div (I64.mul n 1000000000) 1000000000 ≠ n := by
      unfold I64.div I64.mul
      rw [w _ (by omega) (by omega)]
      omega
    simp only [hne, decide_true, if_true, ne_eq, not_false_eq_true, decide_eq_true_eq]
    unfold sat
    rcases hbig with h | h
    · have : n > 0 := by omega
      simp only [this, if_true]
      split
      · omega
      · split <;> omega
    · have : ¬ n > 0 := by omega
      simp only [this, if_false]
      split
      · rfl
      · omega

/-- **wait_ge_retry_after (seconds).** After a 429/503 carrying `Retry-After: n` the next request is not sent before
`n` seconds have passed — for every `n ≥ 0` the header can carry (when `n` seconds exceed what a `time.Duration` can hold,
the wait is the largest `time.Duration`, 292 years), for every state of the shared back-off, every instant and every
jitter draw. -/
theorem wait_ge_retry_after_secs (s : BState) (now n j : Int) (st : Nat) (hst : classOf st = 2)
    (hn : 0 ≤ n ∧ n < 2^63) (hj : 0 ≤ j ∧ j * 1000000 < Gen.maxJitter) :
    (onResponse s now (.http st (.secs n))).1 = .retry ∧
    sat (n * 1000000000) ≤ waitFor (onResponse s now (.http st (.secs n))).2 now j := by
  have hov : overrideOf now (.secs n) = some (sat (n * 1000000000)) := by
    simp only [overrideOf]; rw [retryAfterSeconds_sat n ⟨by omega, hn.2⟩]
  have hon : onResponse s now (.http st (.secs n)) = (.retry, (applySet s now (some (sat (n * 1000000000)))).2) := by
    unfold onResponse; simp only [hst, hov]
  rw [hon]
  refine ⟨rfl, ?_⟩
  have hd := sat_bounds (n * 1000000000)
  have hs := set_ge_override s.notBefore s.mult now (sat (n * 1000000000)) hd
  unfold applySet waitFor
  simp only
  have hb := waitDur_bounds (Gen.backoffSet s.notBefore s.mult now (some (sat (n * 1000000000)))).2.1 now j hj
  have hm := sat_mono (x := sat (n * 1000000000)) (y := (Gen.backoffSet s.notBefore s.mult now (some (sat (n * 1000000000)))).2.1 - now) (by omega)
  rw [sat_id hd.1 hd.2] at hm
  omega

/-- **wait_ge_retry_after (HTTP-date).** With `Retry-After: <date d>` the next request is not sent before `d`
(when `d` lies within ±292 years of now — beyond that, not before now + the largest `time.Duration`). -/
theorem wait_ge_retry_after_date (s : BState) (now d j : Int) (st : Nat) (hst : classOf st = 2)
    (hj : 0 ≤ j ∧ j * 1000000 < Gen.maxJitter) :
    (onResponse s now (.http st (.date d))).1 = .retry ∧
    now + sat (d - now) ≤ now + waitFor (onResponse s now (.http st (.date d))).2 now j := by
  have hov : overrideOf now (.date d) = some (sat (d - now)) := by simp only [overrideOf, T.sub]
  have hon : onResponse s now (.http st (.date d)) = (.retry, (applySet s now (some (sat (d - now)))).2) := by
    unfold onResponse; simp only [hst, hov]
  rw [hon]
  refine ⟨rfl, ?_⟩
  have hd := sat_bounds (d - now)
  have hs := set_ge_override s.notBefore s.mult now (sat (d - now)) hd
  unfold applySet waitFor
  simp only
  have hb := waitDur_bounds (Gen.backoffSet s.notBefore s.mult now (some (sat (d - now)))).2.1 now j hj
  have hm := sat_mono (x := sat (d - now)) (y := (Gen.backoffSet s.notBefore s.mult now (some (sat (d - now)))).2.1 - now) (by omega)
  rw [sat_id hd.1 hd.2] at hm
  omega

theorem date_in_range (d now : Int) (h : -(2^63) ≤ d - now ∧ d - now < 2^63) : now + sat (d - now) = d := by
  rw [sat_id h.1 h.2]; omega

/-! ### the cap: never longer than 128 s + jitter unless the server asked for more -/

/-- the latest instant any honoured Retry-After so far asked the client to stay away until -/
def askedUntil (U now : Int) (ov : Option Int) : Int :=
  match ov with
  | none => U
  | some d => max U (now + d)

/-- invariant over **every** history: the stored `notBefore` is at most 128 s ahead of now, or no later than what some
Retry-After received so far asked for -/
def CapInv (s : BState) (now U : Int) : Prop :=
  0 ≤ s.mult ∧ s.mult ≤ 8 ∧ s.notBefore ≤ max (now + 128000000000) U

theorem capInv_init (now U : Int) (h : 0 ≤ now) : CapInv BState.init now U := by
  unfold CapInv BState.init zeroInstant; simp; omega

theorem capInv_later (s : BState) (now now' U : Int) (h : CapInv s now U) (hle : now ≤ now') : CapInv s now' U := by
  obtain ⟨a, b, c⟩ := h
  exact ⟨a, b, by omega⟩

/-- one `set` (any override) keeps the invariant, with the asked-until bound updated by the override -/
theorem set_cap (s : BState) (now U : Int) (ov : Option Int) (h : CapInv s now U) :
    CapInv (applySet s now ov).2 now (askedUntil U now ov) := by
  obtain ⟨h0, h8, hnb⟩ := h
  have hm := set_mult_inv s.notBefore s.mult now ov (by rw [show Gen.maxMultiplier = 8 by decide]; omega)
  rw [show Gen.maxMultiplier = 8 by decide] at hm
  refine ⟨hm.1, hm.2, ?_⟩
  unfold applySet askedUntil
  rw [Gen.backoffSet_eq_spec]
  unfold Spec.backoffSet
  have hm8 : Gen.maxMultiplier = 8 := by decide
  cases ov with
  | some d =>
    simp only [Option.isSome_some, if_true, Option.getD_some, T.add]
    by_cases hfut : s.notBefore > now
    · simp only [hfut, decide_true, if_true]
      by_cases hgt : now + d > s.notBefore <;>
        simp only [hgt, decide_true, decide_false, if_true, if_false, Bool.false_eq_true] <;> omega
    · simp only [hfut, decide_false, if_false, Bool.false_eq_true]; omega
  | none =>
    simp only [Option.isSome_none, Bool.false_eq_true, if_false, decide_eq_true_eq, hm8, T.add]
    split
    · (try dsimp only); omega
    · split
      · rename_i hlt
        have ha : I64.add s.mult 1 = s.mult + 1 := add_eq _ _ (by omega) (by omega)
        simp only [ha]
        obtain ⟨l1, l2, l3⟩ := ladder (s.mult + 1) (by omega) (by omega)
        rw [l1]; (try dsimp only); omega
      · have hm' : s.mult = 8 := by omega
        simp only [hm']
        obtain ⟨l1, l2, l3⟩ := ladder 8 (by omega) (by omega)
        rw [l1]; (try dsimp only); omega

/-- what a response does to the asked-until bound -/
def askedAfter (U now : Int) : Resp → Int
  | .http st ra => if classOf st = 2 then askedUntil U now (overrideOf now ra) else U
  | _ => U

theorem onResponse_cap (s : BState) (now U : Int) (r : Resp) (h : CapInv s now U) :
    CapInv (onResponse s now r).2 now (askedAfter U now r) := by
  cases r with
  | ctxErr => simpa [onResponse, askedAfter] using h
  | otherErr => simpa [onResponse, askedAfter, askedUntil] using set_cap s now U none h
  | http st ra =>
    unfold onResponse askedAfter
    by_cases h2 : classOf st = 2
    · simp only [h2, if_true]; exact set_cap s now U _ h
    · simp only [h2, if_false]
      split <;> first | exact h | (rename_i hh; exact absurd hh h2)

/-- **wait_le_cap.** For **every** history of responses at non-decreasing instants (any statuses, any Retry-After
values, errors, unparsable bodies), the sleep before the next retry is at most the jitter plus the larger of
(a) the 128 s exponential cap and (b) the time remaining until the latest instant a Retry-After received so far asked
for. In particular, when the server has not asked for more, it is at most 128 s + jitter. -/
theorem wait_le_cap (hist : List (Int × Resp)) : ∀ (s : BState) (t0 U : Int), CapInv s t0 U →
    (∀ p ∈ hist, t0 ≤ p.1) → hist.Pairwise (fun a b => a.1 ≤ b.1) →
    ∀ (j : Int), (0 ≤ j ∧ j * 1000000 < Gen.maxJitter) →
    let final := hist.foldl (fun (acc : BState × Int × Int) p => ((onResponse acc.1 p.1 p.2).2, p.1, askedAfter acc.2.2 p.1 p.2)) (s, t0, U)
    CapInv final.1 final.2.1 final.2.2 ∧
    waitFor final.1 final.2.1 j ≤ max 128000000000 (final.2.2 - final.2.1) + Gen.maxJitter := by
  induction hist with
  | nil =>
    intro s t0 U hinv _ _ j hj
    simp only [List.foldl_nil]
    refine ⟨hinv, ?_⟩
    have hb := waitDur_bounds s.notBefore t0 j hj
    unfold waitFor
    obtain ⟨_, _, hnb⟩ := hinv
    have hmj : Gen.maxJitter = 250000000 := by decide
    rw [hmj] at hb ⊢
    have : sat (s.notBefore - t0 + 250000000) ≤ max 128000000000 (U - t0) + 250000000 := by
      unfold sat; split
      · omega
      · split <;> omega
    omega
  | cons p rest ih =>
    intro s t0 U hinv hall hpw j hj
    simp only [List.foldl_cons]
    have hple := hall p (by simp)
    have hinv' := onResponse_cap s p.1 U p.2 (capInv_later s t0 p.1 U hinv hple)
    rw [List.pairwise_cons] at hpw
    exact ih _ p.1 _ hinv' (fun q hq => hpw.1 q hq) hpw.2 j hj

/-- the instance the property text names: no Retry-After was honoured ⇒ the bound stays where it started -/
theorem askedAfter_none (U now : Int) (r : Resp) (h : ∀ st ra, r = .http st ra → overrideOf now ra = none) :
    askedAfter U now r = U := by
  cases r with
  | ctxErr => rfl
  | otherErr => rfl
  | http st ra =>
    simp only [askedAfter, h st ra rfl, askedUntil, ite_self]

/-! ## what is retried, what is returned -/

theorem classOf_eq (st : Nat) :
    classOf st = (if st = 200 then 0 else if st = 408 then 1 else if st = 503 then 2 else if st = 429 then 2 else 3) := by
  unfold classOf
  have : Spec.retryClass = [(200, 0), (408, 1), (503, 2), (429, 2)] := by decide
  have hd : Spec.retryClassDefault = 3 := by decide
  rw [this, hd]
  simp only [List.lookup]
  by_cases h1 : st = 200
  · subst h1; simp
  · by_cases h2 : st = 408
    · subst h2; simp
    · by_cases h3 : st = 503
      · subst h3; simp
      · by_cases h4 : st = 429
        · subst h4; simp
        · have e1 : (st == 200) = false := by simp [h1]
          have e2 : (st == 408) = false := by simp [h2]
          have e3 : (st == 503) = false := by simp [h3]
          have e4 : (st == 429) = false := by simp [h4]
          simp [e1, e2, e3, e4, h1, h2, h3, h4]

/-- **retry_set.** A received response is retried exactly for 408, 429 and 503; 200 is returned as success; every other
status is returned at once as an error, without touching the back-off. Errors from the transport (and a POST converted
by a redirect, and an unparsable 200 body — all `otherErr`) are retried; context errors are returned. -/
theorem retry_set (s : BState) (now : Int) (st : Nat) (ra : RA) :
    ((onResponse s now (.http st ra)).1 = .retry ↔ (st = 408 ∨ st = 429 ∨ st = 503)) ∧
    ((onResponse s now (.http st ra)).1 = .retOk ↔ st = 200) ∧
    ((onResponse s now (.http st ra)).1 = .retErr ↔ (st ≠ 200 ∧ st ≠ 408 ∧ st ≠ 429 ∧ st ≠ 503)) ∧
    ((onResponse s now (.http st ra)).1 = .retErr → (onResponse s now (.http st ra)).2 = s) := by
  unfold onResponse
  simp only [classOf_eq]
  by_cases h1 : st = 200
  · subst h1; simp
  · by_cases h2 : st = 408
    · subst h2; simp
    · by_cases h3 : st = 503
      · subst h3; simp
      · by_cases h4 : st = 429
        · subst h4; simp
        · simp [h1, h2, h3, h4]

theorem other_errors_retried (s : BState) (now : Int) :
    (onResponse s now .otherErr).1 = .retry ∧ (onResponse s now .otherErr).1 ≠ .retOk := by
  unfold onResponse; simp

/-- a context error from the attempt (the caller's context ended before or during the request) is returned at once,
with the back-off untouched -/
theorem ctx_returned (s : BState) (now : Int) : onResponse s now .ctxErr = (.retCtx, s) := rfl

/-- the response classes after which the loop goes round again, independent of state and instant -/
def Retryable : Resp → Prop
  | .ctxErr => False
  | .otherErr => True
  | .http st _ => st = 408 ∨ st = 429 ∨ st = 503

theorem retry_iff (s : BState) (now : Int) (r : Resp) : (onResponse s now r).1 = .retry ↔ Retryable r := by
  cases r with
  | ctxErr => simp [onResponse, Retryable]
  | otherErr => simp [onResponse, Retryable]
  | http st ra => exact (retry_set s now st ra).1

/-- **returns_first_good** (whole loop). Whatever the state of the shared back-off and whatever the instants, the loop
consumes the script up to and including the first response that is not retryable, and ends with that response's
action: success exactly for a parsable 200, the context's error for a context error, an error carrying the status for
every other status. It never stops earlier and never carries on past such a response. -/
theorem run_spec (l : List (Int × Resp)) : ∀ (s : BState) (a : Act) (k : Nat), run s l = some (a, k) →
    1 ≤ k ∧ k ≤ l.length ∧ (∀ i, i + 1 < k → ∃ p, l[i]? = some p ∧ Retryable p.2) ∧
    (∃ p s', l[k - 1]? = some p ∧ ¬ Retryable p.2 ∧ (onResponse s' p.1 p.2).1 = a ∧ a ≠ .retry) := by
  induction l with
  | nil => intro s a k h; simp [run] at h
  | cons p rest ih =>
    intro s a k h
    obtain ⟨t, r⟩ := p
    simp only [run] at h
    by_cases hr : (onResponse s t r).1 = .retry
    · have hs : onResponse s t r = (.retry, (onResponse s t r).2) := by rw [← hr]
      rw [hs] at h
      simp only [Option.map_eq_some_iff, Prod.mk.injEq, Prod.exists] at h
      obtain ⟨a', k', hrun, rfl, rfl⟩ := h
      obtain ⟨h1, h2, h3, p', s', hp', hnr, hact, hne⟩ := ih _ a' k' hrun
      refine ⟨by omega, by simp; omega, ?_, p', s', ?_, hnr, hact, hne⟩
      · intro i hi
        cases i with
        | zero => exact ⟨(t, r), by simp, (retry_iff s t r).mp hr⟩
        | succ i => simpa using h3 i (by omega)
      · have : k' + 1 - 1 = (k' - 1) + 1 := by omega
        rw [this]; simpa using hp'
    · have : ∃ a0 s0, onResponse s t r = (a0, s0) ∧ a0 ≠ .retry := ⟨_, _, rfl, hr⟩
      obtain ⟨a0, s0, he, hne⟩ := this
      rw [he] at h
      have hak : a = a0 ∧ k = 1 := by
        cases a0 <;> simp at h hne ⊢ <;> exact ⟨h.1.symm, h.2.symm⟩
      obtain ⟨rfl, rfl⟩ := hak
      refine ⟨by omega, by simp, by intro i hi; omega, (t, r), s, by simp, ?_, by rw [he], hne⟩
      intro hR; exact hr ((retry_iff s t r).mpr hR)

/-- …and conversely the loop does end as soon as such a response is in the script. -/
theorem run_some_of_nonretryable (l : List (Int × Resp)) (h : ∃ p ∈ l, ¬ Retryable p.2) : ∀ s, (run s l).isSome := by
  induction l with
  | nil => simp at h
  | cons p rest ih =>
    intro s
    obtain ⟨t, r⟩ := p
    simp only [run]
    by_cases hr : (onResponse s t r).1 = .retry
    · have hs : onResponse s t r = (.retry, (onResponse s t r).2) := by rw [← hr]
      rw [hs]
      obtain ⟨q, hq, hnq⟩ := h
      rcases List.mem_cons.mp hq with rfl | hq
      · exact absurd ((retry_iff s t r).mp hr) hnq
      · have := ih ⟨q, hq, hnq⟩ (onResponse s t r).2
        simpa [Option.isSome_map] using this
    · have : ∃ a0 s0, onResponse s t r = (a0, s0) ∧ a0 ≠ .retry := ⟨_, _, rfl, hr⟩
      obtain ⟨a0, s0, he, hne⟩ := this
      rw [he]
      cases a0 <;> simp at hne ⊢

/-- **r408_no_added_delay.** A 408 leaves the shared back-off exactly as it was: the sleep before the retry is only what an
earlier back-off still requires (zero when none is pending). -/
theorem r408_no_added_delay (s : BState) (now j : Int) (ra : RA) :
    (onResponse s now (.http 408 ra)).2 = s ∧
    ((0 ≤ j ∧ j * 1000000 < Gen.maxJitter) → s.notBefore + Gen.maxJitter ≤ now →
      waitFor (onResponse s now (.http 408 ra)).2 now j = 0) := by
  have h : (onResponse s now (.http 408 ra)) = (.retry, s) := by
    unfold onResponse
    have : classOf 408 = 1 := by decide
    simp [this]
  rw [h]
  refine ⟨rfl, ?_⟩
  intro hj hpast
  have hb := waitDur_bounds s.notBefore now j hj
  unfold waitFor
  simp only
  have hmj : Gen.maxJitter = 250000000 := by decide
  rw [hmj] at hb hpast
  have : sat (s.notBefore - now + 250000000) ≤ 0 := by
    have h1 := sat_mono (x := s.notBefore - now + 250000000) (y := 0) (by omega)
    have h2 : sat 0 = 0 := by decide
    omega
  omega

/-! ## non-vacuity -/
example : Gen.backoffSet zeroInstant 0 1700000000000000000 none = (1000000000, 1700000001000000000, 1) := by decide
example : Gen.backoffSet 1700000001000000000 8 1700000002000000000 none = (128000000000, 1700000130000000000, 8) := by decide
example : Gen.backoffSet 1700000100000000000 3 1700000002000000000 (some 5000000000) = (98000000000, 1700000100000000000, 3) := by decide
example : (onResponse BState.init 1700000000000000000 (.http 429 (.secs 30))).2.notBefore = 1700000030000000000 := by decide
example : Spec.retryAfterSeconds 9223372037 = 9223372036854775807 ∧ Spec.retryAfterSeconds 18446744074 = 9223372036854775807 ∧
    Spec.retryAfterSeconds 3600 = 3600000000000 := by decide
example : classOf 429 = 2 ∧ classOf 503 = 2 ∧ classOf 408 = 1 ∧ classOf 500 = 3 ∧ classOf 200 = 0 := by decide
example : CapInv BState.init 1700000000000000000 zeroInstant := by unfold CapInv BState.init zeroInstant; simp; omega
example : run BState.init [(10, .otherErr), (20, .http 503 .none), (30, .http 200 .none), (40, .http 500 .none)] = some (.retOk, 3) := by decide
example : run BState.init [(10, .http 408 .none), (20, .http 404 .none)] = some (.retErr, 2) := by decide

end C13

/-! ## the model's loop step is the regenerated loop body

`Gen.retryStep` is one iteration of `PostAndParseWithRetry`'s `for { … }`, translated statement by statement on every run
(whatever its shape: `if err != nil {…} else { switch status {…} }`, one tagless switch, the Retry-After parsing in a helper):
how the iteration ends (`.ok` + returned = success, `.passthrough` = the error it was given — a context error from the request
or from the wait —, `.fresh` = an `RspError`; not returned = go round again), and what `backoff.set` was called with. -/
namespace C13
open CTV.Model.Retry

/-- what the loop body observes of a response -/
structure Obs where
  postErr : Bool
  errCanceled : Bool
  errDeadline : Bool
  status : Int
  raPresent : Bool
  secsOk : Bool
  seconds : Int
  dateOk : Bool
  date : Int

def obsOf : Resp → Obs
  | .ctxErr => ⟨true, true, false, 0, false, false, 0, false, 0⟩
  | .otherErr => ⟨true, false, false, 0, false, false, 0, false, 0⟩
  | .http st .none => ⟨false, false, false, st, false, false, 0, false, 0⟩
  | .http st .junk => ⟨false, false, false, st, true, false, 0, false, 0⟩
  | .http st (.secs n) => ⟨false, false, false, st, true, true, n, false, 0⟩
  | .http st (.date d) => ⟨false, false, false, st, true, false, 0, true, d⟩

theorem classOf_cases (st : Nat) :
    classOf st = if st = 200 then 0 else if st = 408 then 1 else if st = 503 ∨ st = 429 then 2 else 3 := by
  unfold classOf Spec.retryClass Spec.retryClassDefault
  by_cases h1 : st = 200
  · subst h1; rfl
  by_cases h2 : st = 408
  · subst h2; rfl
  by_cases h3 : st = 503
  · subst h3; rfl
  by_cases h4 : st = 429
  · subst h4; rfl
  have e1 : (st == 200) = false := by simp [h1]
  have e2 : (st == 408) = false := by simp [h2]
  have e3 : (st == 503) = false := by simp [h3]
  have e4 : (st == 429) = false := by simp [h4]
  simp [List.lookup, e1, e2, e3, e4, h1, h2, h3, h4]

/-- **The hand model of one loop iteration is the regenerated loop body**: for every back-off state, instant, response and
outcome `wf` of the wait (`true` = the context ended while waiting) -/
theorem step_is_onResponse (s : BState) (now : Int) (r : Resp) (wf : Bool) :
    let o := obsOf r
    let g := Gen.retryStep o.postErr o.errCanceled o.errDeadline o.status o.raPresent o.secsOk o.seconds o.dateOk o.date now wf
    match onResponse s now r with
    | (.retCtx, _) => g = (.passthrough, none, true)
    | (.retOk, _) => g = (.ok, none, true)
    | (.retErr, _) => g = (.fresh, none, true)
    | (.retry, s') => g.2.2 = wf ∧ g.1 = (if wf then .passthrough else .ok) ∧
        s' = (match g.2.1 with | none => s | some ov => (applySet s now ov).2) := by
  rw [Gen.retryStep_eq_spec]
  cases r with
  | ctxErr => simp [onResponse, obsOf, Spec.retryStep]
  | otherErr => cases wf <;> simp [onResponse, obsOf, Spec.retryStep]
  | http st ra =>
    simp only [onResponse, classOf_cases]
    by_cases h1 : st = 200
    · subst h1; cases ra <;> simp [obsOf, Spec.retryStep]
    by_cases h2 : st = 408
    · subst h2; cases ra <;> cases wf <;> simp [obsOf, Spec.retryStep]
    by_cases h3 : st = 503 ∨ st = 429
    · rcases h3 with h3 | h3 <;> subst h3 <;> cases ra <;> cases wf <;>
        simp [obsOf, Spec.retryStep, overrideOf, Spec.retryAfterSeconds] <;> (try grind)
    · have n1 : ¬ ((st : Int) = 200) := by omega
      have n2 : ¬ ((st : Int) = 408) := by omega
      have n3 : ¬ ((st : Int) = 503) := by omega
      have n4 : ¬ ((st : Int) = 429) := by omega
      cases ra <;> simp [obsOf, Spec.retryStep, h1, h2, h3, n1, n2, n3, n4]

/-- the jitter is drawn from `[0, maxJitter)` in milliseconds: the regenerated, evaluated bound of the `rand.Intn` call -/
theorem jitter_bound : Gen.jitterBoundMs * 1000000 = Gen.maxJitter := by decide

end C13
