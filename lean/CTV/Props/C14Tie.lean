import CTV.Model.ChainStore
import CTV.Gen.ChainStoreBodies
import CTV.Model.ChainStoreSpec
import CTV.Lemmas.ChainStore
/-!
# C14: the hand-written chain-store model follows the bodies regenerated from services.go / log_leaf.go

`Gen.getByHashBody`, `Gen.addBody`, `Gen.fixLogLeafBody`, `Gen.indirectBuildBody`, `Gen.directBuildBody`, `Gen.directFixBody` are
the whole bodies of `getByHash`, `add`, `FixLogLeaf` and `BuildLogLeaf` (both services), translated statement by statement on
every run: the order of the tests, what each branch hands back, whether it is an error, and the effects on the way
("storage.Add succeeded", "the detached cache fill was started", "leaf.ExtraData was assigned", which layout was rewritten).
`Gen.extraLayout` is the struct `util.buildLogLeaf` encodes. The theorems below say that the model used by every C14 theorem
(`CTV.Model.ChainStore`) decides exactly as those bodies do when their inputs are the facts the model computes. A reordered
test, a lookup moved, a branch that succeeds where it failed — each changes a regenerated body and breaks an equality here.
-/
set_option linter.unusedSimpArgs false
set_option linter.unusedVariables false
namespace CTV.Props.C14Tie
open CTV CTV.Model.ChainStore

def isErr {α : Type} : Except Err α → Bool
  | .ok _ => false
  | .error _ => true

/-! ## getByHash -/

/-- the bytes the lookup finds before the hash check: the cached copy, else the row -/
def found (s : State) (h : Bytes) : Option Bytes :=
  match s.cache.lookup h with
  | some v => some v
  | none => s.store.lookup h

/-- **getByHash_tie.** The model's `getByHash` (with the regenerated hash-check flag) succeeds / fails exactly where the
regenerated body does, on the facts: cache error, cache hit, "FindByKey failed" (injected fault or no row), "the bytes found do
not hash to the key". -/
theorem getByHash_tie (H : Bytes → Bytes) (s : State) (f : Faults) (h : Bytes) :
    let body := Gen.getByHashBody f.cacheGet (s.cache.lookup h).isSome (f.storeFind || (s.store.lookup h).isNone)
      (match found s h with | some v => Gen.getByHashVerifiesHash && H v != h | none => false)
    body.2.1 = isErr (getByHash Gen.getByHashVerifiesHash H s f h) ∧
    body.1 = (if isErr (getByHash Gen.getByHashVerifiesHash H s f h) then 0 else 1) := by
  rw [Gen.getByHashBody_eq_spec]
  unfold Spec.getByHashBody getByHash getByHashRaw found
  cases hc : f.cacheGet <;> cases hl : s.cache.lookup h <;> cases hf : f.storeFind <;> cases hs : s.store.lookup h <;>
    simp [verified, isErr] <;> (split <;> simp_all [isErr])

/-- the detached cache fill is started only after a successful storage read of bytes that passed the hash check: the cached pair is
then the row (`cacheSet` is enabled for it by `cache_sub_known`) -/
theorem getByHash_fill (H : Bytes → Bytes) (s : State) (f : Faults) (h : Bytes)
    (hfill : (Gen.getByHashBody f.cacheGet (s.cache.lookup h).isSome (f.storeFind || (s.store.lookup h).isNone)
      (match found s h with | some v => Gen.getByHashVerifiesHash && H v != h | none => false)).2.2 = true) :
    ∃ v, s.store.lookup h = some v ∧ s.cache.lookup h = none ∧ getByHash Gen.getByHashVerifiesHash H s f h = .ok v := by
  rw [Gen.getByHashBody_eq_spec] at hfill
  unfold Spec.getByHashBody at hfill
  unfold getByHash getByHashRaw
  cases hc : f.cacheGet <;> cases hl : s.cache.lookup h <;> cases hf : f.storeFind <;> cases hs : s.store.lookup h <;>
    simp [hc, hl, hf, hs, found, verified] at hfill ⊢
  all_goals (first | exact hfill | (split at hfill <;> simp_all))

/-! ## add -/

/-- **add_tie.** `addChain` hands back the hash / refuses exactly as the regenerated body of `add`, and the body's "storage.Add
succeeded" flag is the model's `add` step. -/
theorem add_tie (s : State) (f : AddFaults) (h v : Bytes) :
    let body := Gen.addBody f.cacheGet (s.cache.lookup h).isSome f.storeAdd
    body.2.1 = isErr (addChain s f h v) ∧ body.1 = (if isErr (addChain s f h v) then 0 else 1) ∧
    (body.2.2.1 = true → addChain s f h v = .ok (step s (.add h v))) ∧
    (body.2.2.1 = false → body.2.1 = false → addChain s f h v = .ok s) ∧
    (body.2.2.2 = true → body.2.2.1 = true) := by
  rw [Gen.addBody_eq_spec]
  unfold Spec.addBody addChain
  cases f.cacheGet <;> cases (s.cache.lookup h).isSome <;> cases f.storeAdd <;> simp [isErr]

/-! ## FixLogLeaf -/

/-- the facts `FixLogLeaf` tests, as the model computes them from the extra data and the lookup function -/
structure Facts where
  isPCEH : Bool
  isCCH : Bool
  isPCE : Bool
  isCC : Bool
  hashNonEmpty : Bool
  lookupFails : Bool
  derBad : Bool
  encFails : Bool

def hashFacts (get : Bytes → Except Err Bytes) (h : Bytes) (enc : List Bytes → Option Bytes) : Bool × Bool × Bool × Bool :=
  if h.length = 0 then (false, false, false, (enc []).isNone) else
  match get h with
  | .error _ => (true, true, false, false)
  | .ok der =>
    match parseDerChain der with
    | none => (true, false, true, false)
    | some cs => (true, false, false, (enc cs).isNone)

def facts (get : Bytes → Except Err Bytes) (extra : Bytes) : Facts :=
  let (hne, lf, db, ef) : Bool × Bool × Bool × Bool :=
    match decPCEH extra with
    | some (pre, h) => hashFacts get h (encPCE pre)
    | none =>
      match decCCH extra with
      | some h => hashFacts get h encCC
      | none => (false, false, false, false)
  { isPCEH := (decPCEH extra).isSome, isCCH := (decCCH extra).isSome, isPCE := (decPCE extra).isSome, isCC := (decCC extra).isSome,
    hashNonEmpty := hne, lookupFails := lf, derBad := db, encFails := ef }

def bodyOf (x : Facts) : Bool × Nat × Bool :=
  Gen.fixLogLeafBody false x.isPCEH x.isCCH x.isPCE x.isCC x.hashNonEmpty x.lookupFails x.derBad false x.encFails

/-- **fixLogLeaf_tie.** The model's `fixLogLeaf` succeeds exactly when the regenerated body of `FixLogLeaf` returns nil, on the
facts the model computes (which layouts parse completely, is the hash non-empty, does the lookup / the DER decoding / the TLS
encoding fail); and the body assigns `leaf.ExtraData` exactly when the model's answer comes from one of the two hash layouts. -/
theorem fixLogLeaf_tie (get : Bytes → Except Err Bytes) (extra : Bytes) :
    (bodyOf (facts get extra)).1 = !isErr (fixLogLeaf get extra) ∧
    ((bodyOf (facts get extra)).2.2 = true ↔
      (isErr (fixLogLeaf get extra) = false ∧ ((decPCEH extra).isSome = true ∨ (decCCH extra).isSome = true))) := by
  unfold bodyOf
  rw [Gen.fixLogLeafBody_eq_spec]
  unfold facts Spec.fixLogLeafBody fixLogLeaf
  cases hp : decPCEH extra with
  | some p =>
    obtain ⟨pre, h⟩ := p
    simp only [hashFacts, inflate]
    by_cases h0 : h.length = 0
    · simp only [h0, if_true]
      rcases Option.eq_none_or_eq_some (encPCE pre []) with he | ⟨y, he⟩ <;> simp [he, isErr]
    · simp only [h0, if_false]
      cases hg : get h with
      | error e => simp [isErr]
      | ok der =>
        rcases Option.eq_none_or_eq_some (parseDerChain der) with hd | ⟨cs, hd⟩
        · simp [hd, isErr]
        · rcases Option.eq_none_or_eq_some (encPCE pre cs) with he | ⟨y, he⟩ <;> simp [hd, he, isErr]
  | none =>
    simp only []
    cases hc : decCCH extra with
    | some h =>
      simp only [hashFacts, inflate]
      by_cases h0 : h.length = 0
      · simp only [h0, if_true]
        rcases Option.eq_none_or_eq_some (encCC []) with he | ⟨y, he⟩ <;> simp [he, isErr]
      · simp only [h0, if_false]
        cases hg : get h with
        | error e => simp [isErr]
        | ok der =>
          rcases Option.eq_none_or_eq_some (parseDerChain der) with hd | ⟨cs, hd⟩
          · simp [hd, isErr]
          · rcases Option.eq_none_or_eq_some (encCC cs) with he | ⟨y, he⟩ <;> simp [hd, he, isErr]
    | none =>
      simp only []
      cases h1 : decPCE extra <;> cases h2 : decCC extra <;> simp [isErr]

/-- the in-backend service never touches a leaf -/
theorem direct_fix_is_noop : Gen.directFixBody = true := rfl

/-! ## BuildLogLeaf -/

/-- **build_tie.** The external-storage `BuildLogLeaf` produces a leaf exactly when the model's `buildIndirectC` does — on the
facts "the in-backend extra data cannot be encoded" (`buildDirect = none`), "the hash-form extra data cannot be encoded"
(`buildIndirect = none`), storage working and DER encoding total —, and hands the chain to `add` only after the encoding check. -/
theorem build_tie (H : Bytes → Bytes) (isPrecert : Bool) (cert : Bytes) (chain : List Bytes) :
    let body := Gen.indirectBuildBody (Gen.indirectBuildChecksEncoding && (buildDirect isPrecert cert chain).isNone) false false
      (buildIndirect H isPrecert cert chain).isNone
    (body.1 = 1 ↔ (buildIndirectC Gen.indirectBuildChecksEncoding H isPrecert cert chain).isSome = true) ∧
    (body.2.2 = true → (Gen.indirectBuildChecksEncoding && (buildDirect isPrecert cert chain).isNone) = false) := by
  rw [Gen.indirectBuildBody_eq_spec]
  unfold Spec.indirectBuildBody buildIndirectC
  cases Gen.indirectBuildChecksEncoding <;> cases (buildDirect isPrecert cert chain).isNone <;>
    cases hb : buildIndirect H isPrecert cert chain <;> simp

/-- a storage failure in `add` fails the submission after the encoding check and before a leaf exists -/
example : Gen.indirectBuildBody false false true false = (0, true, false) := by decide

/-- **layout_tie.** The struct `util.buildLogLeaf` encodes (regenerated from log_leaf.go) is the one the model's `buildDirect` /
`buildIndirect` encode, for both entry types. -/
theorem layout_tie (H : Bytes → Bytes) (isPrecert : Bool) (cert : Bytes) (chain : List Bytes) :
    (buildDirect isPrecert cert chain =
      if Gen.extraLayout false isPrecert = "PrecertChainEntry" then encPCE cert chain else encCC chain) ∧
    (buildIndirect H isPrecert cert chain =
      if Gen.extraLayout true isPrecert = "PrecertChainEntryHash" then encPCEH cert (H (derChain chain)) else encCCH (H (derChain chain))) ∧
    Gen.extraLayout false true = "PrecertChainEntry" ∧ Gen.extraLayout false false = "CertificateChain" ∧
    Gen.extraLayout true true = "PrecertChainEntryHash" ∧ Gen.extraLayout true false = "CertificateChainHash" := by
  cases isPrecert <;> simp [Gen.extraLayout, buildDirect, buildIndirect]

/-! ## non-vacuity -/
example : Gen.getByHashBody false false false false = (1, false, true) := by decide
example : Gen.getByHashBody false true false true = (0, true, false) := by decide
example : Gen.addBody true true false = (1, false, true, true) := by decide
example : Gen.addBody false true true = (1, false, false, false) := by decide
example : Gen.fixLogLeafBody false false true false false true false false false false = (true, 2, true) := by decide
example : Gen.fixLogLeafBody false false true false false true false false true false = (false, 0, false) := by decide
example : Gen.fixLogLeafBody true true true true true true false false false false = (false, 0, false) := by decide
example : (bodyOf (facts (fun _ => .error .storage) [0, 32, 1])).1 = false := by decide

end CTV.Props.C14Tie
