import CTV.Gen.DerTie
/-!
# Spec copies of the bodies regenerated into `Gen/DerTie.lean` (C10 / C11 tie theorems)

The tie theorems (`Props/C10Tie.lean`, `Props/C11Tie.lean`) are proved about these fixed copies; `Gen.X_eq_spec` proves, by the generic
`same_body` (unfold both, `rfl` / `grind` / split every `if` and close each case by `simp_all` / `omega`), that what is regenerated on
this run is the same function. A behaviour-preserving rewrite of the Go source (if-chain ↔ switch, merged cases, renamed or hoisted
locals, an early return un-nested) only has to get through `same_body`; a change of behaviour makes `Gen.X_eq_spec` fail.
-/
set_option linter.unusedVariables false

macro "same_body" a:ident b:ident : tactic =>
  `(tactic| (unfold $a $b; first | rfl | grind | ((try simp only []); first | done | rfl | ((repeat' split) <;> (first | rfl | grind | (simp_all <;> (try omega)))))))

namespace CTV.Der.TieSpec


/-- copy of the body regenerated from x509/x509.go func IsFatal: executed on each kind of error value (nil, a NonFatalErrors value, an *Errors with / without a fatal entry, anything else) -/
def isFatalBody (isNil isNfe isErrors errsFatal : Bool) : Bool :=
  if isNil then
    false
  else
  if isNfe then
    false
  else
  if isErrors then
    if errsFatal then
      true
    else
    false
  else
  true

/-- copy of the body regenerated from x509/x509.go func ParseCertificate: the function, with the helpers and methods of the package it calls, executed on every combination of the facts it observes (decision tree in a fixed order of the facts; result = (object, error, the collector's count)) -/
def parseCertificateBody (strictFails laxFails trailing innerFails innerIsNfe : Bool) (innerN : Nat) : Int × Int × Nat :=
  if strictFails then
    if laxFails then
      ((0 : Int), (1 : Int), 0)
    else
    if trailing then
      ((0 : Int), (1 : Int), 0)
    else
    if innerFails then
      if innerIsNfe then
        ((1 : Int), (3 : Int), 1 + innerN)
      else
      ((0 : Int), (2 : Int), 0)
    else
    ((1 : Int), (3 : Int), 1)
  else
  if trailing then
    ((0 : Int), (1 : Int), 0)
  else
  if innerFails then
    if innerIsNfe then
      if (decide (innerN > 0)) then
        ((1 : Int), (3 : Int), innerN)
      else
      ((1 : Int), (0 : Int), 0)
    else
    ((0 : Int), (2 : Int), 0)
  else
  ((1 : Int), (0 : Int), 0)

/-- copy of the body regenerated from x509/x509.go func ParseTBSCertificate: the function, with the helpers and methods of the package it calls, executed on every combination of the facts it observes (decision tree in a fixed order of the facts; result = (object, error, the collector's count)) -/
def parseTBSCertificateBody (strictFails laxFails trailing innerFails innerIsNfe : Bool) (innerN : Nat) : Int × Int × Nat :=
  if strictFails then
    if laxFails then
      ((0 : Int), (1 : Int), 0)
    else
    if trailing then
      ((0 : Int), (1 : Int), 0)
    else
    if innerFails then
      if innerIsNfe then
        ((1 : Int), (3 : Int), 1 + innerN)
      else
      ((0 : Int), (2 : Int), 0)
    else
    ((1 : Int), (3 : Int), 1)
  else
  if trailing then
    ((0 : Int), (1 : Int), 0)
  else
  if innerFails then
    if innerIsNfe then
      if (decide (innerN > 0)) then
        ((1 : Int), (3 : Int), innerN)
      else
      ((1 : Int), (0 : Int), 0)
    else
    ((0 : Int), (2 : Int), 0)
  else
  ((1 : Int), (0 : Int), 0)

/-- copy of the body regenerated from x509/x509.go func ParseCertificates: one iteration of the loop that calls asn1.Unmarshal, executed on every combination of the facts it observes (error 9 = next iteration; third component = the collector's count afterwards) -/
def parseCertificatesSplitStep (strictFails laxFails : Bool) (nfe_ : Nat) : Int × Int × Nat :=
  if strictFails then
    if laxFails then
      ((0 : Int), (1 : Int), nfe_)
    else
    ((0 : Int), (9 : Int), nfe_ + 1)
  else
  ((0 : Int), (9 : Int), nfe_)

/-- copy of the body regenerated from x509/x509.go func ParseCertificates: one iteration of the loop that calls parseCertificate, executed on every combination of the facts it observes (error 9 = next iteration; third component = the collector's count afterwards) -/
def parseCertificatesInnerStep (innerFails innerIsNfe : Bool) (innerN nfe_ : Nat) : Int × Int × Nat :=
  if innerFails then
    if innerIsNfe then
      ((0 : Int), (9 : Int), nfe_ + innerN)
    else
    ((0 : Int), (2 : Int), nfe_)
  else
  ((0 : Int), (9 : Int), nfe_)

/-- copy of the body regenerated from asn1/asn1.go func checkInteger (whole body; 0 = nil, 1 = SyntaxError, 2 = StructuralError, 3 = another fresh error, 4 = the failing callee's error) -/
def checkIntegerBody (len : Int) (lax_ : Bool) (b0 b1 : Int) : Nat :=
  if (decide (len = (0 : Int))) then
    (2 : Nat)
  else
  if (decide (len = (1 : Int))) then
    (0 : Nat)
  else
  if lax_ then
    (0 : Nat)
  else
  if ((((decide (b0 = (0 : Int))) && (decide ((I64.land b1 (0x80 : Int)) = (0 : Int))))) || (((decide (b0 = (0xff : Int))) && (decide ((I64.land b1 (0x80 : Int)) = (0x80 : Int)))))) then
    (2 : Nat)
  else
  (0 : Nat)

/-- copy of the body regenerated from asn1/asn1.go func parseInt64 (whole body; 0 = nil, 1 = SyntaxError, 2 = StructuralError, 3 = another fresh error, 4 = the failing callee's error) -/
def parseInt64Body (checkFails : Bool) (len : Int) : Nat :=
  if checkFails then
    (4 : Nat)
  else
  if (decide (len > (8 : Int))) then
    (2 : Nat)
  else
  (0 : Nat)

/-- copy of the body regenerated from asn1/asn1.go func parseInt32 (whole body; 0 = nil, 1 = SyntaxError, 2 = StructuralError, 3 = another fresh error, 4 = the failing callee's error) -/
def parseInt32Body (checkFails int64Fails outOfRange : Bool) : Nat :=
  if checkFails then
    (4 : Nat)
  else
  if int64Fails then
    (4 : Nat)
  else
  if outOfRange then
    (2 : Nat)
  else
  (0 : Nat)

/-- copy of the body regenerated from asn1/asn1.go func parseBitString (whole body; 0 = nil, 1 = SyntaxError, 2 = StructuralError, 3 = another fresh error, 4 = the failing callee's error) -/
def parseBitStringBody (len : Int) (b0 : Int) (lastLowBitsSet : Bool) : Nat :=
  if (decide (len = (0 : Int))) then
    (1 : Nat)
  else
  let paddingBits_ := (id b0)
  if (((decide (paddingBits_ > (7 : Int))) || ((decide (len = (1 : Int))) && (decide (paddingBits_ > (0 : Int))))) || lastLowBitsSet) then
    (1 : Nat)
  else
  (0 : Nat)

/-- copy of the body regenerated from asn1/asn1.go func parseBase128Int: one iteration of the loop `shifted` -/
def parseBase128IntStep (shifted_ offset_ : Int) (byte : Int) (tooBig : Bool) : Nat :=
  if (decide (shifted_ = (5 : Int))) then
    (2 : Nat)
  else
  let b_ := byte
  if ((decide (shifted_ = (0 : Int))) && (decide (b_ = (0x80 : Int)))) then
    (1 : Nat)
  else
  let offset_ := (I64.add offset_ (1 : Int))
  if (decide ((I64.land b_ (0x80 : Int)) = (0 : Int))) then
    if tooBig then
      (2 : Nat)
    else
    (0 : Nat)
  else
  (9 : Nat)

/-- copy of the body regenerated from asn1/asn1.go func parseTagAndLength (whole body; 0 = nil, 1 = SyntaxError, 2 = StructuralError, 3 = another fresh error, 4 = the failing callee's error) -/
def parseTagAndLengthBody (len : Int) (byteAt : Int → Int) (initOffset_ : Int) (b128Fails : Bool) (b128Tag b128Off : Int) (loopFails : Bool) (loopLen : Int) : Nat :=
  let offset_ := initOffset_
  if (decide (offset_ ≥ len)) then
    (3 : Nat)
  else
  let b_ := (byteAt offset_)
  let offset_ := (I64.add offset_ (1 : Int))
  let tag_ := (id (I64.land b_ (0x1f : Int)))
  if (decide (tag_ = (0x1f : Int))) then
    let (tag_, offset_) := (b128Tag, b128Off)
    if b128Fails then
      (4 : Nat)
    else
    if (decide (tag_ < (0x1f : Int))) then
      (1 : Nat)
    else
    if (decide (offset_ ≥ len)) then
      (1 : Nat)
    else
    let b_ := (byteAt offset_)
    let offset_ := (I64.add offset_ (1 : Int))
    if (decide ((I64.land b_ (0x80 : Int)) = (0 : Int))) then
      let length_ := (id (I64.land b_ (0x7f : Int)))
      (0 : Nat)
    else
    let numBytes_ := (id (I64.land b_ (0x7f : Int)))
    if (decide (numBytes_ = (0 : Int))) then
      (1 : Nat)
    else
    let length_ := (0 : Int)
    let length_ := loopLen
    if loopFails then
      (4 : Nat)
    else
    if (decide (length_ < (0x80 : Int))) then
      (2 : Nat)
    else
    (0 : Nat)
  else
  if (decide (offset_ ≥ len)) then
    (1 : Nat)
  else
  let b_ := (byteAt offset_)
  let offset_ := (I64.add offset_ (1 : Int))
  if (decide ((I64.land b_ (0x80 : Int)) = (0 : Int))) then
    let length_ := (id (I64.land b_ (0x7f : Int)))
    (0 : Nat)
  else
  let numBytes_ := (id (I64.land b_ (0x7f : Int)))
  if (decide (numBytes_ = (0 : Int))) then
    (1 : Nat)
  else
  let length_ := (0 : Int)
  let length_ := loopLen
  if loopFails then
    (4 : Nat)
  else
  if (decide (length_ < (0x80 : Int))) then
    (2 : Nat)
  else
  (0 : Nat)

/-- copy of the body regenerated from asn1/asn1.go func parseTagAndLength: one iteration of the loop `i < numBytes` -/
def parseLengthStep (len offset_ length_ : Int) (byteAt : Int → Int) : Nat × Bool × Int × Int :=
  if (decide (offset_ ≥ len)) then
    ((1 : Nat), true, offset_, length_)
  else
  let b_ := (byteAt offset_)
  let offset_ := (I64.add offset_ (1 : Int))
  if (decide (length_ ≥ (I64.shl (1 : Int) (23 : Int)))) then
    ((2 : Nat), true, offset_, length_)
  else
  let length_ := (I64.add (I64.mul length_ (256 : Int)) (id b_))
  if (decide (length_ = (0 : Int))) then
    ((2 : Nat), true, offset_, length_)
  else
  ((9 : Nat), false, offset_, length_)

/-- copy of the body regenerated from asn1/asn1.go func parseObjectIdentifier (whole body; 0 = nil, 1 = SyntaxError, 2 = StructuralError, 3 = another fresh error, 4 = the failing callee's error) -/
def parseObjectIdentifierBody (len : Int) (lax_ firstFails loopFails : Bool) : Nat :=
  if (decide (len = (0 : Int))) then
    if lax_ then
      (0 : Nat)
    else
    (1 : Nat)
  else
  if firstFails then
    (4 : Nat)
  else
  if loopFails then
    (4 : Nat)
  else
  (0 : Nat)

/-- copy of the body regenerated from asn1/asn1.go func parseBigInt (whole body; 0 = nil, 1 = SyntaxError, 2 = StructuralError, 3 = another fresh error, 4 = the failing callee's error) -/
def parseBigIntBody (checkFails : Bool) (len b0 : Int) : Nat :=
  if checkFails then
    (4 : Nat)
  else
  (0 : Nat)


end CTV.Der.TieSpec

namespace Gen
open CTV.Der

theorem isFatalBody_eq_spec : @Gen.isFatalBody = @TieSpec.isFatalBody := by
  funext 
  same_body Gen.isFatalBody TieSpec.isFatalBody

theorem parseCertificateBody_eq_spec : @Gen.parseCertificateBody = @TieSpec.parseCertificateBody := by
  funext 
  same_body Gen.parseCertificateBody TieSpec.parseCertificateBody

theorem parseTBSCertificateBody_eq_spec : @Gen.parseTBSCertificateBody = @TieSpec.parseTBSCertificateBody := by
  funext 
  same_body Gen.parseTBSCertificateBody TieSpec.parseTBSCertificateBody

theorem parseCertificatesSplitStep_eq_spec : @Gen.parseCertificatesSplitStep = @TieSpec.parseCertificatesSplitStep := by
  funext 
  same_body Gen.parseCertificatesSplitStep TieSpec.parseCertificatesSplitStep

theorem parseCertificatesInnerStep_eq_spec : @Gen.parseCertificatesInnerStep = @TieSpec.parseCertificatesInnerStep := by
  funext 
  same_body Gen.parseCertificatesInnerStep TieSpec.parseCertificatesInnerStep

theorem checkIntegerBody_eq_spec : @Gen.checkIntegerBody = @TieSpec.checkIntegerBody := by
  funext 
  same_body Gen.checkIntegerBody TieSpec.checkIntegerBody

theorem parseInt64Body_eq_spec : @Gen.parseInt64Body = @TieSpec.parseInt64Body := by
  funext 
  same_body Gen.parseInt64Body TieSpec.parseInt64Body

theorem parseInt32Body_eq_spec : @Gen.parseInt32Body = @TieSpec.parseInt32Body := by
  funext 
  same_body Gen.parseInt32Body TieSpec.parseInt32Body

theorem parseBitStringBody_eq_spec : @Gen.parseBitStringBody = @TieSpec.parseBitStringBody := by
  funext 
  same_body Gen.parseBitStringBody TieSpec.parseBitStringBody

theorem parseBase128IntStep_eq_spec : @Gen.parseBase128IntStep = @TieSpec.parseBase128IntStep := by
  funext 
  same_body Gen.parseBase128IntStep TieSpec.parseBase128IntStep

theorem parseTagAndLengthBody_eq_spec : @Gen.parseTagAndLengthBody = @TieSpec.parseTagAndLengthBody := by
  funext 
  same_body Gen.parseTagAndLengthBody TieSpec.parseTagAndLengthBody

theorem parseLengthStep_eq_spec : @Gen.parseLengthStep = @TieSpec.parseLengthStep := by
  funext 
  same_body Gen.parseLengthStep TieSpec.parseLengthStep

theorem parseObjectIdentifierBody_eq_spec : @Gen.parseObjectIdentifierBody = @TieSpec.parseObjectIdentifierBody := by
  funext 
  same_body Gen.parseObjectIdentifierBody TieSpec.parseObjectIdentifierBody

theorem parseBigIntBody_eq_spec : @Gen.parseBigIntBody = @TieSpec.parseBigIntBody := by
  funext 
  same_body Gen.parseBigIntBody TieSpec.parseBigIntBody

end Gen
