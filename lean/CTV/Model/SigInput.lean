import CTV.Basic.Bytes
/-!
RFC 6962 signature inputs, written from the RFC text (not from the repository's struct tags):

§3.2   digitally-signed struct {
           Version sct_version;                 -- 1 byte, v1 = 0
           SignatureType signature_type = certificate_timestamp;   -- 1 byte, 0
           uint64 timestamp;
           LogEntryType entry_type;             -- 2 bytes, x509_entry = 0, precert_entry = 1
           select(entry_type) {
               case x509_entry: ASN.1Cert;      -- opaque <1..2^24-1>
               case precert_entry: PreCert;     -- opaque issuer_key_hash[32]; opaque tbs <1..2^24-1>
           } signed_entry;
           CtExtensions extensions;             -- opaque <0..2^16-1>
       };
§3.5   digitally-signed struct {
           Version version;  SignatureType signature_type = tree_hash;  -- 0, 1
           uint64 timestamp;  uint64 tree_size;  opaque sha256_root_hash[32];
       } TreeHeadSignature;

plus the guards of `SerializeSCTSignatureInput` / `SerializeSTHSignatureInput` (serialization.go):
only version v1, only the two entry types.  Tied to the Go functions by the C05 correspondence run.
Core only.
-/
namespace CTV.SigInput
open CTV

/-- the part of a log entry that enters the SCT signature -/
inductive Entry
  | x509 (cert : Bytes)
  | precert (issuerKeyHash tbs : Bytes)
  | other (etype : Nat)
deriving DecidableEq, Repr

/-- `opaque v<lo..hi>` with a `w`-byte length prefix -/
def opaqueVec (w lo hi : Nat) (b : Bytes) : Option Bytes :=
  if lo ≤ b.length ∧ b.length ≤ hi then some (beEnc w b.length ++ b) else none

def signedEntry : Entry → Option Bytes
  | .x509 cert =>
    match opaqueVec 3 1 16777215 cert with
    | some c => some ([0, 0] ++ c)
    | none => none
  | .precert ikh tbs =>
    if ikh.length ≠ 32 then none   -- `[32]byte` in Go: cannot have another length
    else match opaqueVec 3 1 16777215 tbs with
      | some t => some ([0, 1] ++ (ikh ++ t))
      | none => none
  | .other _ => none

/-- bytes an SCT signature is computed over; `none` = `SerializeSCTSignatureInput` returns an error -/
def sctSigInput (version : Nat) (timestamp : UInt64) (e : Entry) (ext : Bytes) : Option Bytes :=
  if version ≠ 0 then none
  else match signedEntry e, opaqueVec 2 0 65535 ext with
    | some se, some x => some ([0, 0] ++ (beEnc 8 timestamp.toNat ++ (se ++ x)))
    | _, _ => none

/-- bytes an STH signature is computed over; `none` = `SerializeSTHSignatureInput` returns an error -/
def sthSigInput (version : Nat) (timestamp treeSize : UInt64) (root : Bytes) : Option Bytes :=
  if version ≠ 0 then none
  else if root.length ≠ 32 then none   -- `SHA256Hash` is `[32]byte`; the Go function re-checks the length
  else some ([0, 1] ++ (beEnc 8 timestamp.toNat ++ (beEnc 8 treeSize.toNat ++ root)))

end CTV.SigInput
