import CTV.Gen.Temporal
/-!
Reference definitions of the three per-element verdicts of C18 (what `IndexByDate`'s loop body decides for one shard, what
`TemporallyCompatible`'s loop body decides for one log) and the proof that the definitions **regenerated from the loop bodies on
this run** — whatever their shape: two `if … { continue }`, one combined test, early `continue`s after De Morgan, a helper
method — are equal to them. The property theorems go through `Spec.*`; see `CTV/Model/HandlerSpec.lean` for the rationale.
-/
namespace Spec

/-- the shard client skips a shard whose lower bound is after `when` -/
def indexByDateSkipLower (lower : Option Int) (when : Int) : Bool := lower.isSome && decide (when < lower.getD 0)
/-- … or whose upper bound is not after `when` -/
def indexByDateSkipUpper (upper : Option Int) (when : Int) : Bool := upper.isSome && !decide (when < upper.getD 0)
/-- the log-list filter keeps a log with an interval iff NotAfter lies in `[start, limit)` -/
def temporallyCompatibleCond (start limit t : Int) : Bool := decide (t < limit) && (decide (t > start) || decide (t = start))

end Spec

/-- two Bool-valued kernels are equal: unfold, split every `if`, decide the rest -/
macro "same_verdict" a:ident : tactic =>
  `(tactic| (unfold $a; simp only [Spec.indexByDateSkipLower, Spec.indexByDateSkipUpper, Spec.temporallyCompatibleCond];
             first | rfl | ((repeat' split) <;> (first | rfl | grind | (simp_all <;> (try omega))))))

namespace Gen

theorem indexByDateTakes_eq_spec :
    @Gen.indexByDateTakes = fun lower upper when => !(Spec.indexByDateSkipLower lower when) && !(Spec.indexByDateSkipUpper upper when) := by
  funext lower upper when
  same_verdict Gen.indexByDateTakes

theorem temporallyCompatibleKeeps_eq_spec :
    @Gen.temporallyCompatibleKeeps = fun ivNone start limit t => ivNone || Spec.temporallyCompatibleCond start limit t := by
  funext ivNone start limit t
  same_verdict Gen.temporallyCompatibleKeeps

end Gen
