import CTV.Gen.ChainStoreBodies
/-!
Reference copies `Spec.*` of the bodies regenerated into `Gen.ChainStoreBodies` (taken at the pinned commit) and the proof that what is
regenerated on this run is the same function: all inputs are Booleans, so the equality is decided by evaluating both sides on every
input — independent of the shape of the regenerated term. The tie theorems of `Props/C14Tie.lean` unfold `Spec.*`.
-/
namespace Spec

def getByHashBody (cacheFails cacheHit findFails hashBad : Bool) : Nat × Bool × Bool :=
  let filled_ := false
  if cacheFails then
    ((0 : Nat), true, filled_)
  else
  if cacheHit then
    if hashBad then
      ((0 : Nat), true, filled_)
    else
    ((1 : Nat), false, filled_)
  else
  if findFails then
    ((0 : Nat), true, filled_)
  else
  if hashBad then
    ((0 : Nat), true, filled_)
  else
  let filled_ := true
  ((1 : Nat), false, filled_)

def addBody (cacheFails cacheHit addFails : Bool) : Nat × Bool × Bool × Bool :=
  let stored_ := false
  let filled_ := false
  if ((!cacheFails) && cacheHit) then
    ((1 : Nat), false, stored_, filled_)
  else
  let stored_ := (!addFails)
  if addFails then
    ((0 : Nat), true, stored_, filled_)
  else
  let filled_ := true
  ((1 : Nat), false, stored_, filled_)

def fixLogLeafBody (leafNil isPCEH isCCH isPCE isCC hashNonEmpty lookupFails derBad derTrailing encFails : Bool) : Bool × Nat × Bool :=
  let form_ := (0 : Nat)
  let assigned_ := false
  if leafNil then
    (false, form_, assigned_)
  else
  let precertChainHash_ := (0 : Int)
  if isPCEH then
    let chain_ := (0 : Int)
    if hashNonEmpty then
      if lookupFails then
        (false, form_, assigned_)
      else
      if derBad then
        (false, form_, assigned_)
      else
      if derTrailing then
        (false, form_, assigned_)
      else
      let form_ := (1 : Nat)
      if encFails then
        (false, form_, assigned_)
      else
      let assigned_ := true
      (true, form_, assigned_)
    else
    let form_ := (1 : Nat)
    if encFails then
      (false, form_, assigned_)
    else
    let assigned_ := true
    (true, form_, assigned_)
  else
  let certChainHash_ := (0 : Int)
  if isCCH then
    let entries_ := (0 : Int)
    if hashNonEmpty then
      if lookupFails then
        (false, form_, assigned_)
      else
      if derBad then
        (false, form_, assigned_)
      else
      if derTrailing then
        (false, form_, assigned_)
      else
      let form_ := (2 : Nat)
      if encFails then
        (false, form_, assigned_)
      else
      let assigned_ := true
      (true, form_, assigned_)
    else
    let form_ := (2 : Nat)
    if encFails then
      (false, form_, assigned_)
    else
    let assigned_ := true
    (true, form_, assigned_)
  else
  let precertChain_ := (0 : Int)
  if isPCE then
    (true, form_, assigned_)
  else
  let certChain_ := (0 : Int)
  if isCC then
    (true, form_, assigned_)
  else
  (false, form_, assigned_)

def indirectBuildBody (encodingFails derFails addFails leafFails : Bool) : Nat × Bool × Bool :=
  let added_ := false
  if encodingFails then
    ((0 : Nat), true, added_)
  else
  if derFails then
    ((0 : Nat), true, added_)
  else
  let added_ := (!addFails)
  if addFails then
    ((0 : Nat), true, added_)
  else
  if leafFails then
    ((0 : Nat), true, added_)
  else
  ((1 : Nat), false, added_)

def directBuildBody (leafFails : Bool) : Nat × Bool :=
  if leafFails then
    ((0 : Nat), true)
  else
  ((1 : Nat), false)

end Spec

namespace Gen

theorem getByHashBody_eq_spec : ∀ cacheFails cacheHit findFails hashBad : Bool, Gen.getByHashBody cacheFails cacheHit findFails hashBad = Spec.getByHashBody cacheFails cacheHit findFails hashBad := by decide

theorem addBody_eq_spec : ∀ cacheFails cacheHit addFails : Bool, Gen.addBody cacheFails cacheHit addFails = Spec.addBody cacheFails cacheHit addFails := by decide

theorem fixLogLeafBody_eq_spec : ∀ leafNil isPCEH isCCH isPCE isCC hashNonEmpty lookupFails derBad derTrailing encFails : Bool, Gen.fixLogLeafBody leafNil isPCEH isCCH isPCE isCC hashNonEmpty lookupFails derBad derTrailing encFails = Spec.fixLogLeafBody leafNil isPCEH isCCH isPCE isCC hashNonEmpty lookupFails derBad derTrailing encFails := by decide

theorem indirectBuildBody_eq_spec : ∀ encodingFails derFails addFails leafFails : Bool, Gen.indirectBuildBody encodingFails derFails addFails leafFails = Spec.indirectBuildBody encodingFails derFails addFails leafFails := by decide

theorem directBuildBody_eq_spec : ∀ leafFails : Bool, Gen.directBuildBody leafFails = Spec.directBuildBody leafFails := by decide

end Gen
