import CTV.Gen.Sig
import CTV.Der.Sig
import CTV.Model.SigInput
/-!
Model of signature verification (C05):

* `verifySignature` — tls.VerifySignature (tls/signature.go), an interpreter of the **regenerated**
  tables `Gen.sigHashTable`, `Gen.sigAlgTable`, `Gen.sigReject`, `Gen.sigExactDER`;
* `newVerifier` — ct.NewSignatureVerifier (signatures.go), the regenerated `Gen.newVerifier`;
* `verifySCT` / `verifySTH` — SignatureVerifier.VerifySCTSignature / VerifySTHSignature;
* `newFromSignedJSON` — loglist3.NewFromSignedJSON (regenerated algorithm choice).

The cryptographic primitives are a parameter (`Prims`); nothing is assumed about them here.
Core only.  Tied to the code by the C05 correspondence run.
-/
namespace CTV.SigV
open CTV CTV.DerSig CTV.SigInput

inductive KeyKind | rsa | dsa | ecdsa | ed25519 | other
deriving DecidableEq, Repr

/-- the name the extractor uses for the Go type of a key -/
def KeyKind.name : KeyKind → String
  | .rsa => "rsa" | .dsa => "dsa" | .ecdsa => "ecdsa" | .ed25519 => "ed25519" | .other => "other"

/-- a `crypto.PublicKey` as far as the code under test looks at it -/
structure Key where
  kind : KeyKind
  /-- a typed nil pointer such as `(*rsa.PublicKey)(nil)`: passes the type assertion, the primitive dereferences it -/
  isNil : Bool := false
  /-- a pointer to the zero value (`&rsa.PublicKey{}`, `&ecdsa.PublicKey{}`, `&dsa.PublicKey{}`): nil modulus / curve / parameters -/
  hollow : Bool := false
  /-- RSA: `N.BitLen()` -/
  bits : Nat := 0
  /-- ECDSA: `*Params() == *elliptic.P256().Params()` -/
  isP256 : Bool := false
  /-- which key it is (opaque) -/
  id : Nat := 0
deriving DecidableEq, Repr

/-- does handing this key to its verification primitive dereference a nil pointer?  (typed nil pointers; zero-valued
ECDSA/DSA keys — `rsa.VerifyPKCS1v15` reports a zero-valued RSA key as an error instead) -/
def Key.primPanics (k : Key) : Bool := k.isNil || (k.hollow && k.kind != .rsa)

/-- does `NewSignatureVerifier` dereference a nil pointer on this key?  (`pkType.N.BitLen()`, `pkType.Params()`:
typed nil or zero-valued RSA/ECDSA keys; other types reach the `default` branch untouched) -/
def Key.ctorPanics (k : Key) : Bool := (k.isNil || k.hollow) && (k.kind == .rsa || k.kind == .ecdsa)

/-- what a primitive is given as the signature value -/
inductive SigVal
  | raw (sig : Bytes)      -- RSA: the signature octets as carried
  | pair (r s : Int)       -- (EC)DSA: the two integers
deriving DecidableEq, Repr

/-- the trusted primitives: `digest h m` = `crypto.Hash(h).New()` over `m`; `prim key h d v` = the
standard-library verification (`rsa.VerifyPKCS1v15 key h d sig`, `dsa.Verify key d r s`, `ecdsa.Verify key d r s`) -/
structure Prims where
  digest : Nat → Bytes → Bytes
  prim : Key → Nat → Bytes → SigVal → Bool

inductive Outcome | ok | err | panic
deriving DecidableEq, Repr

/-- tls.DigitallySigned -/
structure DigitallySigned where
  hash : Nat
  sigAlg : Nat
  sig : Bytes
deriving DecidableEq, Repr

/-- the (EC)DSA case bodies of tls.VerifySignature after the key type assertion: `asn1.Unmarshal` of the pair,
trailing bytes, sign check, exactness check (where present), primitive -/
def verifyPair (P : Prims) (key : Key) (h : Nat) (d : Bytes) (alg : Nat) (trailingIgnored : Bool) (sig : Bytes) : Outcome :=
  match parseSigPair sig with
  | none => .err                             -- asn1.Unmarshal failed
  | some p =>
    if !trailingIgnored && !p.rest.isEmpty then .err
    else if Gen.sigReject alg p.r p.s then .err
    else if Gen.sigExactDER alg && !p.extra.isEmpty then .err   -- checkExactDER, where the code has it
    else if key.primPanics then .panic
    else if P.prim key h d (.pair p.r p.s) then .ok else .err

/-- tls.VerifySignature(pubKey, data, sig) -/
def verifySignature (P : Prims) (key : Key) (data : Bytes) (ds : DigitallySigned) : Outcome :=
  match Gen.sigHashTable.lookup ds.hash with
  | none => .err                                   -- generateHash: unsupported Algorithm.Hash
  | some h =>
    let d := P.digest h data
    match Gen.sigAlgTable.lookup ds.sigAlg with
    | none => .err                                 -- unsupported Algorithm.Signature
    | some (kind, der, trailingIgnored, _) =>
      if key.kind.name ≠ kind then .err            -- "cannot verify … signature with %T key"
      else if !der then
        if key.primPanics then .panic
        else if P.prim key h d (.raw ds.sig) then .ok else .err
      else verifyPair P key h d ds.sigAlg trailingIgnored ds.sig

/-- ct.NewSignatureVerifier(pk) with `AllowVerificationWithNonCompliantKeys = allow`, for a key on which it returns:
is a verifier returned?  Only key types with a case in the type switch (`Gen.newVerifierKinds`) can get one. -/
def newVerifier (key : Key) (allow : Bool) : Bool :=
  Gen.newVerifierKinds.contains key.kind.name && (Gen.newVerifier key.kind.name key.bits key.isP256 allow).isSome

/-- ct.NewSignatureVerifier(pk), all keys: nil / zero-valued RSA and ECDSA keys panic inside the type switch -/
def newVerifierOutcome (key : Key) (allow : Bool) : Outcome :=
  if key.ctorPanics then .panic else if newVerifier key allow then .ok else .err

/-- the signed fields of an SCT (LogID is not signed) -/
structure SCT where
  version : Nat
  logID : Bytes
  timestamp : UInt64
  extensions : Bytes
  sig : DigitallySigned
deriving DecidableEq

structure STH where
  version : Nat
  treeSize : UInt64
  timestamp : UInt64
  root : Bytes
  sig : DigitallySigned
deriving DecidableEq

/-- SignatureVerifier.VerifySCTSignature: serialise, return the error, else VerifySignature over exactly those bytes
(shape regenerated: `Gen.sctVerifySerializesThenVerifies`) -/
def verifySCT (P : Prims) (key : Key) (sct : SCT) (e : Entry) : Outcome :=
  if !Gen.sctVerifySerializesThenVerifies then .ok else
  match sctSigInput sct.version sct.timestamp e sct.extensions with
  | none => .err
  | some msg => verifySignature P key msg sct.sig

/-- SignatureVerifier.VerifySTHSignature (shape regenerated: `Gen.sthVerifySerializesThenVerifies`) -/
def verifySTH (P : Prims) (key : Key) (sth : STH) : Outcome :=
  if !Gen.sthVerifySerializesThenVerifies then .ok else
  match sthSigInput sth.version sth.timestamp sth.treeSize sth.root with
  | none => .err
  | some msg => verifySignature P key msg sth.sig

/-- what a Go caller can put into `LogEntry.Leaf.TimestampedEntry` for `VerifySCTSignature`: a well-formed entry, or one
of the nil pointers `SerializeSCTSignatureInput` does not guard (every caller inside the repository sets them) -/
inductive EntryArg
  | entry (e : Entry)
  | nilX509               -- EntryType = x509_entry, X509Entry = nil: tls.Marshal reports "chosen field is nil"
  | nilPrecert            -- EntryType = precert_entry, PrecertEntry = nil: dereferenced
  | nilTimestampedEntry   -- Leaf.TimestampedEntry = nil: dereferenced
deriving DecidableEq

/-- VerifySCTSignature on arbitrary Go arguments: the version switch comes before any dereference -/
def verifySCTArg (P : Prims) (key : Key) (sct : SCT) (a : EntryArg) : Outcome :=
  match a with
  | .entry e => verifySCT P key sct e
  | .nilX509 => .err
  | .nilPrecert => if sct.version = 0 then .panic else .err
  | .nilTimestampedEntry => if sct.version = 0 then .panic else .err

/-- ctutil.VerifySCT / VerifySCTWithVerifier / LogInfo.VerifySCTSignature: the key policy, then the SCT verification
for the leaf built from the chain (the leaf builder is C03's subject: `e` is its result) -/
def ctutilVerifySCT (P : Prims) (key : Key) (allow : Bool) (sct : SCT) (e : Entry) : Outcome :=
  if !Gen.ctutilPolicyThenVerify then verifySCT P key sct e else
  match newVerifierOutcome key allow with
  | .ok => verifySCT P key sct e
  | .err => .err
  | .panic => .panic

/-- internal/witness/verifier WitnessVerifier.VerifySignature on a CosignedSTH: `verdicts` are the outcomes of
SignatureVerifier.VerifySignature (= `verifySignature` with the witness key over the TLS encoding of the embedded
SignedTreeHead) for the witness signatures in order.  Some signature must verify; with no signature at all nothing does. -/
def witnessVerify (verdicts : List Outcome) : Outcome :=
  if verdicts.any (fun o => o == .ok) then .ok else .err

inductive Loaded (α : Type) | ok (v : α) | err | panic
deriving Repr, DecidableEq

/-- loglist3.NewFromSignedJSON(llData, rawSig, pubKey); `parse` stands for NewFromJSON.  The order "verify, then
parse" is the regenerated `Gen.signedJSONVerifiesBeforeParse`. -/
def newFromSignedJSON {α : Type} (P : Prims) (parse : Bytes → Option α) (key : Key) (llData rawSig : Bytes) : Loaded α :=
  match Gen.signedJSONAlg.lookup key.kind.name with
  | none => .err                                   -- unsupported public key type
  | some alg =>
    match (if Gen.signedJSONVerifiesBeforeParse then verifySignature P key llData ⟨Gen.signedJSONHash, alg, rawSig⟩ else .ok) with
    | .ok => (match parse llData with | some v => .ok v | none => .err)
    | .err => .err
    | .panic => .panic

end CTV.SigV
