import CTV.Gen.Handlers
import CTV.Model.ParseInt
/-!
Hand model of the CTFE handlers' check sequences between the request, the backend RPC reply and the HTTP
response (trillian/ctfe/handlers.go, sth.go; DESIGN.md Appendix E). The parameter kernels, the
gRPC-code→HTTP-status table and the get-entries arithmetic are the regenerated `Gen.*` definitions.
Tied to the code by the exhaustive C08 correspondence matrix.
-/
namespace CTV.Model.Faults

inductive Ep | addChain | addPreChain | getSTH | getSTHCons | getProofByHash | getEntries | getRoots | getEntryAndProof
deriving Repr, DecidableEq

/-- error returned by the backend RPC: a gRPC status with a code, or a plain (non-status) error -/
inductive BErr | code (c : Nat) | plain
deriving Repr, DecidableEq

/-- the tree head carried by a reply -/
structure Root where
  present : Bool      -- SignedLogRoot non-nil
  decodes : Bool      -- LogRoot bytes unmarshal as LogRootV1
  size : Nat
  hashLen : Nat
deriving Repr, DecidableEq

inductive Reply
  | err (e : BErr)
  | queue (rspNil qlNil leafNil leafDecodes noTrailing : Bool)
  | sth (r : Root)
  | cons (r : Root) (proofPresent : Bool) (hashLens : List Nat)
  | proofs (r : Root) (ps : List (List Nat))
  | leaves (r : Root) (fixOk : Bool) (idxs : List Int)
  | entry (r : Root) (fixOk : Bool) (leafPresent : Bool) (leafValLen : Nat) (proofPresent : Bool) (nHashes : Nat)
deriving Repr

/-- the request as the handler sees it -/
structure Req where
  methodOk : Bool := true
  formOk : Bool := true
  p1 : String := ""       -- start / first / leaf_index / (proof-by-hash) tree_size
  p2 : String := ""       -- end / second / tree_size
  hashOk : Bool := true   -- get-proof-by-hash: `hash` non-empty and valid base64
  bodyOk : Bool := true   -- add-chain: body is JSON with a non-empty chain
  chainOk : Bool := true  -- add-chain: verifyAddChain and MerkleTreeLeafFromChain succeed
  buildOk : Bool := true  -- add-chain: BuildLogLeaf succeeds
  signOk : Bool := true   -- the signer produces a non-empty signature
deriving Repr

structure Cfg where
  max : Int := 1000
  align : Bool := true
  mask : Bool := false
  /-- `ErrorMapper` override: consulted first -/
  mapper : BErr → Option Nat := fun _ => none

structure Outcome where
  status : Nat
  sct : Bool := false     -- an SCT was emitted / recorded as issued
  rpc : Bool := false     -- the backend was called
deriving Repr, DecidableEq

def lookupCode (c : Nat) : Nat := (Gen.codeToStatus.lookup c).getD Gen.codeToStatusDefault

/-- `logInfo.toHTTPStatus` -/
def toHTTPStatus (cfg : Cfg) (e : BErr) : Nat :=
  match cfg.mapper e with
  | some s => s
  | none =>
    match e with
    | .plain => 500
    | .code c => lookupCode c

/-- the `ErrorMapper`s the correspondence harness configures (`c08Mapper` in the harness): 0 = none,
1 declines everything, 2 converts errors without gRPC status to 503, 3 sends NotFound to 410 and Unavailable to 429 -/
def mapperOf : Nat → BErr → Option Nat
  | 2, .plain => some 503
  | 3, .code 5 => some 410
  | 3, .code 14 => some 429
  | _, _ => none

def hashesOk (ls : List Nat) : Bool := ls.all (· == 32)

def indicesOk : Int → List Int → Bool
  | _, [] => true
  | s, i :: is => decide (i = s) && indicesOk (s + 1) is

/-! ### per-RPC response checks (each a plain if-chain) -/

def respondQueue (q : Req) (rspNil qlNil leafNil dec noTrail : Bool) : Outcome :=
  if rspNil || qlNil || leafNil then { status := 500, rpc := true }
  else if !dec || !noTrail then { status := 500, rpc := true }
  else if !q.signOk then { status := 500, rpc := true }
  else { status := 200, sct := true, rpc := true }

/-- errors from getSignedLogRoot / signing are plain errors: toHTTPStatus gives 500 (or the mapper's choice) -/
def respondSth (cfg : Cfg) (q : Req) (r : Root) : Outcome :=
  if !r.present || !r.decodes || r.hashLen != 32 || !q.signOk then { status := toHTTPStatus cfg .plain, rpc := true }
  else { status := 200, rpc := true }

def respondCons (second : Int) (r : Root) (pp : Bool) (hl : List Nat) : Outcome :=
  if !r.present || !r.decodes then { status := 500, rpc := true }
  else if (r.size : Int) < U64.wrap second then { status := 400, rpc := true }
  else if !pp then { status := 500, rpc := true }
  else if !hashesOk hl then { status := 500, rpc := true }
  else { status := 200, rpc := true }

def respondProofs (ts : Int) (r : Root) (ps : List (List Nat)) : Outcome :=
  if !r.present || !r.decodes then { status := 500, rpc := true }
  else if (r.size : Int) < U64.wrap ts then { status := 404, rpc := true }
  else if ps.isEmpty then { status := 404, rpc := true }
  else if !hashesOk (ps.headD []) then { status := 500, rpc := true }
  else { status := 200, rpc := true }

def respondLeaves (start count : Int) (r : Root) (fixOk : Bool) (idxs : List Int) : Outcome :=
  if !fixOk then { status := 500, rpc := true }
  else if !r.present || !r.decodes then { status := 500, rpc := true }
  else if (r.size : Int) ≤ U64.wrap start then { status := 400, rpc := true }
  else if (idxs.length : Int) > count then { status := 500, rpc := true }
  else if !indicesOk start idxs then { status := 500, rpc := true }
  else { status := 200, rpc := true }

def respondEntry (ts : Int) (r : Root) (fixOk leafPresent : Bool) (lvl : Nat) (pp : Bool) (nh : Nat) : Outcome :=
  if !fixOk then { status := 500, rpc := true }
  else if !r.present || !r.decodes then { status := 500, rpc := true }
  else if (r.size : Int) < U64.wrap ts then { status := 400, rpc := true }
  else if !leafPresent || lvl == 0 || !pp then { status := 500, rpc := true }
  else if decide (ts > 1) && nh == 0 then { status := 500, rpc := true }
  else { status := 200, rpc := true }

/-! ### what the handler decides before any backend call: `inl status` = answered without RPC, `inr params` = RPC is made -/

inductive Params
  | queue | sth | cons (first second : Int) | proofs (ts : Int) | leaves (start count : Int) | entry (li ts : Int)
deriving Repr, DecidableEq

def pre (cfg : Cfg) (ep : Ep) (q : Req) : Nat ⊕ Params :=
  match ep with
  | .getRoots => .inl 200
  | .addChain | .addPreChain =>
    if !q.bodyOk then .inl 400 else if !q.chainOk then .inl 400 else if !q.buildOk then .inl 500 else .inr .queue
  | .getSTH => .inr .sth
  | .getSTHCons =>
    if (q.p1 != "" && (parseInt64 q.p1).isNone) || (q.p2 != "" && (parseInt64 q.p2).isNone) then .inl 400
    else match Gen.parseGetSTHConsistencyRange (q.p1 == "") (q.p2 == "") ((parseInt64 q.p1).getD 0) ((parseInt64 q.p2).getD 0) with
      | none => .inl 400
      | some (first, second) => if first = 0 then .inl 200 else .inr (.cons first second)
  | .getProofByHash =>
    if !q.hashOk then .inl 400
    else match parseInt64 q.p1 with
      | none => .inl 400
      | some ts => if ts < 1 then .inl 400 else .inr (.proofs ts)
  | .getEntries =>
    match parseInt64 q.p1, parseInt64 q.p2 with
    | some s, some e =>
      (match Gen.parseGetEntriesRange s e cfg.max cfg.align with
      | none => .inl 400
      | some (s', e') => .inr (.leaves s' (Gen.getEntriesCount s' e')))
    | _, _ => .inl 400
  | .getEntryAndProof =>
    match parseInt64 q.p1, parseInt64 q.p2 with
    | some li, some ts =>
      (match Gen.parseGetEntryAndProofParams li ts with
      | none => .inl 400
      | some (li', ts') => .inr (.entry li' ts'))
    | _, _ => .inl 400

/-- the checks between the RPC reply and the response -/
def respond (cfg : Cfg) (q : Req) : Params → Reply → Outcome
  | _, .err e => { status := toHTTPStatus cfg e, rpc := true }
  | .queue, .queue a b c d e => respondQueue q a b c d e
  | .sth, .sth r => respondSth cfg q r
  | .cons _ second, .cons r pp hl => respondCons second r pp hl
  | .proofs ts, .proofs r ps => respondProofs ts r ps
  | .leaves s c, .leaves r fixOk idxs => respondLeaves s c r fixOk idxs
  | .entry _ ts, .entry r f lp lvl pp nh => respondEntry ts r f lp lvl pp nh
  | _, _ => { status := 500, rpc := true }   -- the reply of another RPC: not producible

/-- what each handler does once the request has passed the method/form checks -/
def handler (cfg : Cfg) (ep : Ep) (q : Req) (reply : Reply) : Outcome :=
  match pre cfg ep q with
  | .inl st => { status := st }
  | .inr p => respond cfg q p reply

def isGet : Ep → Bool
  | .addChain | .addPreChain => false
  | _ => true

/-- `AppHandler.ServeHTTP` -/
def serve (cfg : Cfg) (ep : Ep) (q : Req) (reply : Reply) : Outcome :=
  if !q.methodOk then { status := 405 }
  else if isGet ep && !q.formOk then { status := 400 }
  else handler cfg ep q reply

/-- `SendHTTPError`: is the internal error text part of the response body? -/
def errorTextShown (cfg : Cfg) (status : Nat) : Bool := !(cfg.mask && status == 500)

end CTV.Model.Faults
