import CTV.Gen.ConfigBodies
/-!
Reference copies (`Spec.setUpLogInfoBody`, `Spec.newChainStorageBody` at the end likewise) — first `Spec.validateLogConfigChecks` of the statement list regenerated into `Gen.validateLogConfigChecks` (taken at the pinned
commit), and the proof that what is regenerated on this run rejects exactly the same inputs: `Gen.validateLogConfigChecks_eq_spec`.
The tie theorem of `Props/C15Tie.lean` is proved against the copy, so a `ValidateLogConfig` rewritten without change of behaviour (tests
moved into helpers, a switch turned into `if`s and the other way round, a statement split in two) only has to get through the generic
comparison below; a change of behaviour makes it fail.
-/
namespace Spec

def validateLogConfigChecks (logId_ : Int) (pubSet pubBad isMirror frozenSet privSet privBad rejectExpired rejectUnexpired ekuBad startSet startBad limitSet limitBad : Bool) (start_ limit_ max_ exp_ : Int) (verifierFails shapeFails sigFails : Bool) (storage_ connLen nParts : Int) (scheme_ : String) (dsnBad pgBad : Bool) : List Bool :=
  [(if (decide (logId_ = (0 : Int))) then
        false
      else
      true),
   (if pubSet then
        let err_ := (0 : Int)
        if pubBad then
          false
        else
        true
      else
      if isMirror then
        false
      else
      if frozenSet then
        false
      else
      true),
   (if (!isMirror) then
        if (!privSet) then
          false
        else
        if privBad then
          false
        else
        true
      else
      if privSet then
        false
      else
      true),
   (if (rejectExpired && rejectUnexpired) then
        false
      else
      true),
   (let anyEKU_ := false
      if ekuBad then
        false
      else
      true),
   (if startSet then
        if startBad then
          false
        else
        true
      else
      true),
   (if limitSet then
        if limitBad then
          false
        else
        true
      else
      true),
   (if ((startSet && limitSet) && (decide (limit_ < start_))) then
        false
      else
      true),
   (if (decide (max_ < (0 : Int))) then
        false
      else
      if (decide (exp_ < (0 : Int))) then
        false
      else
      if (decide (exp_ > max_)) then
        false
      else
      true),
   (if frozenSet then
        if verifierFails then
          false
        else
        if shapeFails then
          false
        else
        if sigFails then
          false
        else
        true
      else
      true),
   (if (decide (storage_ = (1 : Int))) then
        if (decide (connLen = (0 : Int))) then
          false
        else
        if (decide (nParts ≠ (2 : Int))) then
          false
        else
        if (decide (scheme_ = "mysql")) then
          if dsnBad then
            false
          else
          true
        else
        if ((decide (scheme_ = "postgres")) || (decide (scheme_ = "postgresql"))) then
          if pgBad then
            false
          else
          true
        else
        false
      else
      if (decide (storage_ = (0 : Int))) then
        true
      else
      true)]

/-- pinned copy of the regenerated whole body of `setUpLogInfo` (with `newLogInfo`'s argument followed to the service built) -/
def setUpLogInfoBody (isMirror : Bool) (nRoots : Int) (rootsFail signerFails pubSet pubEcdsa pubEd25519 pubRsa pubConsistent oidsFail storageFails storageNil cacheFails : Bool) : Nat × Bool :=
  if ((!isMirror) && (decide (nRoots = (0 : Int)))) then
    ((0 : Nat), true)
  else
  if rootsFail then
    ((0 : Nat), true)
  else
  let signer_ := (0 : Int)
  if (!isMirror) then
    let err_ := (0 : Int)
    if signerFails then
      ((0 : Nat), true)
    else
    if pubSet then
      if pubEcdsa then
        if (!pubConsistent) then
          ((0 : Nat), true)
        else
        let err_ := (0 : Int)
        if oidsFail then
          ((0 : Nat), true)
        else
        if storageFails then
          ((0 : Nat), true)
        else
        if storageNil then
          ((1 : Nat), false)
        else
        if cacheFails then
          ((0 : Nat), true)
        else
        ((2 : Nat), false)
      else
      if pubEd25519 then
        if (!pubConsistent) then
          ((0 : Nat), true)
        else
        let err_ := (0 : Int)
        if oidsFail then
          ((0 : Nat), true)
        else
        if storageFails then
          ((0 : Nat), true)
        else
        if storageNil then
          ((1 : Nat), false)
        else
        if cacheFails then
          ((0 : Nat), true)
        else
        ((2 : Nat), false)
      else
      if pubRsa then
        if (!pubConsistent) then
          ((0 : Nat), true)
        else
        let err_ := (0 : Int)
        if oidsFail then
          ((0 : Nat), true)
        else
        if storageFails then
          ((0 : Nat), true)
        else
        if storageNil then
          ((1 : Nat), false)
        else
        if cacheFails then
          ((0 : Nat), true)
        else
        ((2 : Nat), false)
      else
      ((0 : Nat), true)
    else
    let err_ := (0 : Int)
    if oidsFail then
      ((0 : Nat), true)
    else
    if storageFails then
      ((0 : Nat), true)
    else
    if storageNil then
      ((1 : Nat), false)
    else
    if cacheFails then
      ((0 : Nat), true)
    else
    ((2 : Nat), false)
  else
  let err_ := (0 : Int)
  if oidsFail then
    ((0 : Nat), true)
  else
  if storageFails then
    ((0 : Nat), true)
  else
  if storageNil then
    ((1 : Nat), false)
  else
  if cacheFails then
    ((0 : Nat), true)
  else
  ((2 : Nat), false)

/-- pinned copy of the regenerated whole body of `storage.NewIssuanceChainStorage` -/
def newChainStorageBody (backend_ : Int) (mysqlPrefix pgPrefix : Bool) : Nat × Bool :=
  if (decide (backend_ = (0 : Int))) then
    ((0 : Nat), false)
  else
  if (decide (backend_ = (1 : Int))) then
    if mysqlPrefix then
      ((1 : Nat), false)
    else
    if pgPrefix then
      ((1 : Nat), false)
    else
    ((0 : Nat), true)
  else
  ((0 : Nat), true)

end Spec

namespace Gen

/-- compare two "no statement rejects" conjunctions whatever their shape: unfold, flatten the lists, then decide the Boolean equation
(case splits on the tested facts) -/
macro "same_body" a:ident b:ident : tactic =>
  `(tactic| (unfold $a $b; first | rfl |
      (simp only [List.all_cons, List.all_nil, id, Bool.and_true]
       first
         | rfl
         | (apply Bool.eq_iff_iff.mpr
            constructor <;> intro h <;> simp only [Bool.and_eq_true] at h ⊢ <;> (repeat' constructor) <;>
              first | grind | (simp_all <;> omega) | grind (splits := 40) | (simp_all <;> (repeat' split at h) <;> simp_all <;> omega)))))

theorem validateLogConfigChecks_eq_spec (logId_ : Int) (pubSet pubBad isMirror frozenSet privSet privBad rejectExpired rejectUnexpired ekuBad startSet startBad limitSet limitBad : Bool) (start_ limit_ max_ exp_ : Int) (verifierFails shapeFails sigFails : Bool) (storage_ connLen nParts : Int) (scheme_ : String) (dsnBad pgBad : Bool) :
    (Gen.validateLogConfigChecks logId_ pubSet pubBad isMirror frozenSet privSet privBad rejectExpired rejectUnexpired ekuBad startSet startBad limitSet limitBad start_ limit_ max_ exp_ verifierFails shapeFails sigFails storage_ connLen nParts scheme_ dsnBad pgBad).all id =
    (Spec.validateLogConfigChecks logId_ pubSet pubBad isMirror frozenSet privSet privBad rejectExpired rejectUnexpired ekuBad startSet startBad limitSet limitBad start_ limit_ max_ exp_ verifierFails shapeFails sigFails storage_ connLen nParts scheme_ dsnBad pgBad).all id := by
  same_body Gen.validateLogConfigChecks Spec.validateLogConfigChecks

/-- whatever shape the regenerated `setUpLogInfo` body has: the same outcome on every input. The only non-Boolean input is tested as
`nRoots = 0`; that test becomes one more Boolean and the equation is decided over all of them (fallback: split every `if`). -/
theorem setUpLogInfoBody_eq_spec (isMirror : Bool) (nRoots : Int) (rootsFail signerFails pubSet pubEcdsa pubEd25519 pubRsa pubConsistent oidsFail storageFails storageNil cacheFails : Bool) :
    Gen.setUpLogInfoBody isMirror nRoots rootsFail signerFails pubSet pubEcdsa pubEd25519 pubRsa pubConsistent oidsFail storageFails storageNil cacheFails =
    Spec.setUpLogInfoBody isMirror nRoots rootsFail signerFails pubSet pubEcdsa pubEd25519 pubRsa pubConsistent oidsFail storageFails storageNil cacheFails := by
  first
    | (unfold Gen.setUpLogInfoBody Spec.setUpLogInfoBody
       generalize decide (nRoots = (0 : Int)) = z
       revert isMirror rootsFail signerFails pubSet pubEcdsa pubEd25519 pubRsa pubConsistent oidsFail storageFails storageNil cacheFails z
       decide)
    | (unfold Gen.setUpLogInfoBody Spec.setUpLogInfoBody
       by_cases hz : nRoots = 0 <;> simp only [hz, decide_true, decide_false] <;>
       (revert isMirror rootsFail signerFails pubSet pubEcdsa pubEd25519 pubRsa pubConsistent oidsFail storageFails storageNil cacheFails; decide))

theorem newChainStorageBody_eq_spec (backend_ : Int) (mysqlPrefix pgPrefix : Bool) :
    Gen.newChainStorageBody backend_ mysqlPrefix pgPrefix = Spec.newChainStorageBody backend_ mysqlPrefix pgPrefix := by
  unfold Gen.newChainStorageBody Spec.newChainStorageBody
  first | rfl | (cases mysqlPrefix <;> cases pgPrefix <;> (first | rfl | grind | ((repeat' split) <;> simp_all <;> omega)))

end Gen
