import CTV.Model.Scan
import CTV.Gen.Migrate
import CTV.Gen.Scan
/-!
# Migration pass (trillian/migrillian/core/controller.go `fetchTail`, trillian.go `addSequencedLeaves`)

One `fetchTail` pass = C16's fetcher (`CTV.Model.Scan`, never continuous here: the controller implements continuity
itself) + the `batches` channel + the submitters + the destination.

* `fetch op`     – an action of the fetcher (`hand`, `resp`, `err`, `abandon`, `close`, `cancel`); a `resp` hands the fetched
                   batch to the channel (`handler`: `batches <- b`),
* `respDrop w k` – a `resp` whose batch the handler drops because the pass context is already cancelled
                   (`case <-cctx.Done()`),
* `take j b`     – submitter `j` receives a batch from the channel (a bag: the order of concurrent sends is not the
                   order of the responses),
* `ack j`        – `AddSequencedLeaves` for the batch in flight at `j` succeeded: the destination now holds, under
                   each index of the batch, the source's entry with the configured identity hash,
* `ackPartial j refused` – the RPC succeeded but the destination refused the leaves with the listed indices (per-leaf status in an
                   OK reply: Trillian answers so for an identity hash or an index that is already taken); the other leaves of the
                   batch are stored; the submitter must treat the batch as failed (`rsp.Results` checked), so the pass cannot return nil,
* `quota j`      – the destination answered `ResourceExhausted`: with the retry policy the batch stays in flight
                   (the submitter backs off and sends it again); without it this is a fatal error,
* `fatal j`      – any other error: the submitter gives up, the pass is cancelled (`cancel()`), the batch is lost.

The destination is a reference pre-ordered log: a growing list of `(index, payload, identity hash)`;
re-submitting an index adds an equal triple (idempotent in the real backend).
Payloads are abstract (`Nat`), `Cfg.src i` is the source's `(leaf_input, extra_data)` for index `i` — whether or not the
certificate inside parses (`buildLogLeaf` only logs parse errors).
-/
namespace CTV.Model.Migrate
open CTV.Model.Scan

abbrev Batch := Nat × Nat                     -- (start, count)

structure Stored where
  idx : Nat
  payload : Nat
  idHash : Nat
deriving Repr, DecidableEq

structure Cfg where
  src : Nat → Nat
  idf : Nat → Nat → Nat                       -- configured identity function (index, payload) ↦ hash
  retryQuota : Bool                           -- does a ResourceExhausted reply lead to a retry of the same batch?

def Cfg.env (c : Cfg) : Env := { src := c.src, cls := fun _ _ => none }

structure PSt where
  f : St
  chan : List Batch := []
  subs : List (Option Batch) := []
  acked : List Batch := []
  lost : List Batch := []
  failed : Bool := false
  dest : List Stored := []
deriving Repr, DecidableEq

inductive POp where
  | fetch (op : Op)
  | respDrop (w k : Nat)
  | take (j b : Nat)
  | ack (j : Nat)
  | ackPartial (j : Nat) (refused : List Nat)
  | quota (j : Nat)
  | fatal (j : Nat)
deriving Repr, DecidableEq

/-- what the destination stores for a batch -/
def storeBatch (c : Cfg) : Nat → Nat → List Stored
  | _, 0 => []
  | lo, k+1 => ⟨lo, c.src lo, c.idf lo (c.src lo)⟩ :: storeBatch c (lo+1) k

def pinit (start end_ batch fetchers submitters : Nat) (dest : List Stored) : PSt :=
  { f := init start end_ batch fetchers 0 false, subs := List.replicate submitters none, dest := dest }

/-- ops of the fetcher that can occur inside a pass (no `Stop`, no growth, no matcher stage, contract-abiding server) -/
def fetchOpOk : Op → Bool
  | .hand _ | .resp _ _ | .err _ | .abandon _ | .close | .cancel => true
  | _ => false

def giveUp (c : Cfg) (s : PSt) (j : Nat) (b : Batch) : PSt :=
  { s with subs := s.subs.set j none, lost := b :: s.lost, failed := true, f := step c.env s.f .cancel }

def pstep (c : Cfg) (s : PSt) : POp → PSt
  | .fetch op =>
    if !fetchOpOk op then s else
    match op with
    | .resp w k =>
      match s.f.workers[w]? with
      | some (some (lo, hi)) =>
        if 1 ≤ k ∧ lo + k ≤ hi then { s with f := step c.env s.f (.resp w k), chan := (lo, k) :: s.chan } else s
      | _ => s
    | op => { s with f := step c.env s.f op }
  | .respDrop w k =>
    match s.f.workers[w]? with
    | some (some (lo, hi)) =>
      if s.f.cancelled ∧ 1 ≤ k ∧ lo + k ≤ hi then { s with f := step c.env s.f (.resp w k), lost := (lo, k) :: s.lost } else s
    | _ => s
  | .take j b =>
    match s.subs[j]?, s.chan[b]? with
    | some none, some x => { s with subs := s.subs.set j (some x), chan := s.chan.eraseIdx b }
    | _, _ => s
  | .ack j =>
    match s.subs[j]? with
    | some (some (lo, k)) => { s with subs := s.subs.set j none, acked := (lo, k) :: s.acked, dest := s.dest ++ storeBatch c lo k }
    | _ => s
  | .ackPartial j refused =>
    match s.subs[j]? with
    | some (some (lo, k)) =>
      giveUp c { s with dest := s.dest ++ (storeBatch c lo k).filter (fun x => !refused.contains x.idx) } j (lo, k)
    | _ => s
  | .quota j =>
    match s.subs[j]? with
    | some (some b) => if c.retryQuota then s else giveUp c s j b
    | _ => s
  | .fatal j =>
    match s.subs[j]? with
    | some (some b) => giveUp c s j b
    | _ => s

def prun (c : Cfg) (s : PSt) (ops : List POp) : PSt := ops.foldl (pstep c) s

/-- `fetchTail` returns nil: the fetcher finished, every batch went through a submitter, nothing failed, nothing was cancelled -/
def passOk (s : PSt) : Bool :=
  s.f.closed && allIdle s.f.workers && !s.f.stopReq && !s.f.cancelled && !s.failed && s.chan.isEmpty && allIdle s.subs

/-- how many batches of a list cover index `i` -/
def bcnt : List Batch → Nat → Nat
  | [], _ => 0
  | (lo, k) :: t, i => inR lo (lo + k) i + bcnt t i

def ocnt : List (Option Batch) → Nat → Nat
  | [], _ => 0
  | none :: t, i => ocnt t i
  | some (lo, k) :: t, i => inR lo (lo + k) i + ocnt t i

/-- first index of the pass (`fo.StartIndex` after the adjustments of `fetchTail`), as the model's `max` -/
def passStart (continuous : Bool) (cfgStart : Int) (treeSize begin : Nat) : Nat :=
  let s : Nat := if continuous then treeSize else if cfgStart < 0 then treeSize else cfgStart.toNat
  max s begin

/-- may the pass go on to fetch? (`sth.TreeSize <= begin` ends it early; otherwise the consistency gate decides) -/
inductive Gate where
  | upToDate      -- nothing to do: returns `begin`
  | proceed
  | refused       -- consistency could not be established: the pass returns an error, nothing is fetched or submitted
deriving Repr, DecidableEq

def gate (noCheck : Bool) (treeSize sthSize begin : Nat) (proofOk : Bool) : Gate :=
  if sthSize ≤ begin then .upToDate
  else if treeSize = 0 then .proceed
  else if noCheck then .proceed
  else if proofOk then .proceed else .refused

/-! ### the Controller's continuous loop (`Controller.Run`): position bookkeeping across passes -/

/-- `Run`'s state between passes: its position (`pos`, 0 when `Run` is entered) and what the destination holds -/
structure RunSt where
  pos : Nat
  dest : List Stored
deriving Repr, DecidableEq

/-- one iteration of the loop: the destination reports `treeSize`, the source's STH has `sth` entries, then anything
may happen in the pass (`ops`; a refused gate is a pass with no ops) -/
structure Iter where
  newRun : Bool        -- `Run` is (re-)entered before this iteration (restart, new mastership): its position starts at 0 again
  treeSize : Nat
  sth : Nat
  batch : Nat
  fetchers : Nat
  submitters : Nat
  ops : List POp

/-- `next, err := c.fetchTail(ctx, pos)`: nothing to do if the STH is not beyond the position; otherwise a pass over
`[max(treeSize, pos), sth)`; success moves the position to `sth`, failure ends `Run` (a later `Run` starts from 0). -/
def runIter (c : Cfg) (s0 : RunSt) (it : Iter) : RunSt :=
  let s : RunSt := ⟨if it.newRun then 0 else s0.pos, s0.dest⟩
  if it.sth ≤ s.pos then s else
  let p := prun c (pinit (passStart true 0 it.treeSize s.pos) it.sth it.batch it.fetchers it.submitters s.dest) it.ops
  if passOk p then ⟨it.sth, p.dest⟩ else ⟨0, p.dest⟩

def runIters (c : Cfg) (s : RunSt) : List Iter → RunSt
  | [] => s
  | it :: t => runIters c (runIter c s it) t

/-! ### `buildLogLeaf` -/

/-- what can be wrong with a source entry -/
inductive LeafKind where
  | certOk | certNonFatal | certFatal   -- the MerkleTreeLeaf decodes; its certificate parses / parses with non-fatal errors / does not parse
  | leafUndecodable                     -- leaf_input is not a MerkleTreeLeaf (or extra_data not a chain): not an RFC 6962 entry at all
deriving Repr, DecidableEq

/-- `buildLogLeaf`: fails exactly when the code's only error return fires (regenerated: the `RawLogEntryFromLeaf` error); otherwise
the record is built from the index and the source bytes alone -/
def buildLeaf (c : Cfg) (k : LeafKind) (i : Nat) : Option Stored :=
  if k = .leafUndecodable ∧ Gen.buildLogLeafErrorReturns = ["rle, err := ct.RawLogEntryFromLeaf(index, entry) ;; err != nil"] then none
  else if Gen.buildLogLeafErrorReturns = ["rle, err := ct.RawLogEntryFromLeaf(index, entry) ;; err != nil"] then some ⟨i, c.src i, c.idf i (c.src i)⟩
  else none

/-- end index of a pass: `Prepare`'s clamp of the configured end to the STH the gate sees -/
def passEnd (sth cfgEnd : Nat) : Nat := if Gen.prepareResets sth cfgEnd then sth else cfgEnd

/-- nominal pause before the `n`-th retry of a quota reply (before jitter, which adds less than the pause itself) -/
def quotaPause (n : Nat) : Int := min (Gen.quotaBackoffMin * Gen.quotaBackoffFactor ^ n) Gen.quotaBackoffMax

/-- The submitter's reaction to ResourceExhausted **as the code has it** (regenerated from trillian.go): the `switch` on the
gRPC code asks for a retry, *and* the error value it returns for that is one `backoff.Retry` recognises as retryable. -/
def codeRetriesQuota : Bool :=
  (Gen.retryTable.lookup 8 == some 1) && Gen.errRetryIsRetriable

end CTV.Model.Migrate
