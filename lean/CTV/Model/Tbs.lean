import CTV.Der.Tlv
import CTV.Model.CtWire
/-!
Model of the TBSCertificate transformations of x509/x509.go (`removeExtension`, `RemoveSCTList`,
`RemoveCTPoison`, `BuildPrecertTBS`), of the two leaf routes of serialization.go, and of the SCT-list
extension codec (x509.go `parseCertificate`, x509util, submission/proxy.go `ASN1MarshalSCTs`).

The Go code unmarshals the TBSCertificate into `tbsCertificate` with the `asn1` fork, edits the extension
slice and marshals the struct again. `parseTbs` succeeds exactly on the **canonical** TBSCertificates — those
that the fork accepts *and* writes back byte for byte (`Tbs.wf`); everything else is outside the model
(the property speaks about canonical TBSCertificates only) and is reported as such by the driver, where it
is compared with what the real unmarshal→marshal does on every generated input.

Fields other than the extensions are kept as opaque TLVs; `wf` records, per field, when the fork
reproduces them:
* version: absent, or `a0 { INTEGER }` minimal, ≤ 8 bytes, ≠ 0 (`default:0` is omitted on marshal);
* serial: minimal non-empty INTEGER; * signature AlgorithmIdentifier: `SEQUENCE { OID [, any TLV] }`, OID arcs minimal
  (the fork *accepts* padded base-128 arcs and rewrites them);
* issuer, subject: any TLV (`RawValue`); * validity: two times in the form Go prints for their year;
* SubjectPublicKeyInfo: kept verbatim (`RawContent`), must only parse;
* unique ids `81`/`82`: BIT STRING contents with valid padding;
* extensions: `a3 { SEQUENCE { SEQUENCE { OID, [BOOLEAN ff], OCTET STRING } … } }`, no explicit `critical FALSE`.
-/
namespace CTV.Tbs

/-! ### value predicates for the opaque fields -/

/-- `checkInteger` (strict): non-empty and minimal two's complement -/
def intMinimal : Bytes → Bool
  | [] => false
  | [_] => true
  | a :: b :: _ => !((a == 0 && decide (b < 0x80)) || (a == 0xff && decide (0x80 ≤ b)))

/-- base-128 groups of OBJECT IDENTIFIER contents -/
def oidGroupsF : Nat → Bytes → Option (List Bytes)
  | _, [] => some []
  | 0, _ :: _ => none
  | f + 1, b :: bs =>
    match b128Split (b :: bs) with
    | none => none
    | some (g, r) =>
      match oidGroupsF f r with
      | none => none
      | some gs => some (g :: gs)

/-- `parseObjectIdentifier` (strict) succeeds -/
def oidAccept (c : Bytes) : Bool :=
  !c.isEmpty && match oidGroupsF c.length c with
    | some gs => gs.all b128Ok
    | none => false

/-- … and `marshalObjectIdentifier` writes the same bytes: no arc starts with the padding byte 0x80 -/
def oidCanon (c : Bytes) : Bool :=
  !c.isEmpty && match oidGroupsF c.length c with
    | some gs => gs.all (fun g => b128Ok g && g.head? != some 0x80)
    | none => false

/-- `parseBitString` succeeds (the marshaller then reproduces the contents) -/
def bitStringOk : Bytes → Bool
  | [] => false
  | p :: rest =>
    decide (p ≤ 7) && (!rest.isEmpty || p == 0) &&
      (((p :: rest).getLast?.getD 0) &&& ((1 <<< p) - 1)) == 0

def isDigit (b : UInt8) : Bool := decide (0x30 ≤ b) && decide (b ≤ 0x39)
def dig (b : UInt8) : Nat := b.toNat - 48
def dig2 (a b : UInt8) : Nat := dig a * 10 + dig b

def leapYear (y : Nat) : Bool := (y % 4 == 0 && y % 100 != 0) || y % 400 == 0
def daysIn (y m : Nat) : Nat :=
  if m = 2 then (if leapYear y then 29 else 28)
  else if m = 4 ∨ m = 6 ∨ m = 9 ∨ m = 11 then 30 else 31

/-- month, day, hour, minute, second as Go's `time.Parse` validates them -/
def clockOk (y : Nat) : Bytes → Bool
  | [m1, m2, d1, d2, h1, h2, n1, n2, s1, s2] =>
    [m1, m2, d1, d2, h1, h2, n1, n2, s1, s2].all isDigit &&
    decide (1 ≤ dig2 m1 m2) && decide (dig2 m1 m2 ≤ 12) &&
    decide (1 ≤ dig2 d1 d2) && decide (dig2 d1 d2 ≤ daysIn y (dig2 m1 m2)) &&
    decide (dig2 h1 h2 < 24) && decide (dig2 n1 n2 < 60) && decide (dig2 s1 s2 < 60)
  | _ => false

/-- the zone suffix: `Z`, or `±hhmm` with hh ≤ 24, mm ≤ 59, not ±0000 (which Go prints back as `Z`) -/
def zoneOk : Bytes → Bool
  | [0x5a] => true
  | [s, h1, h2, m1, m2] =>
    (s == 0x2b || s == 0x2d) && [h1, h2, m1, m2].all isDigit &&
    decide (dig2 h1 h2 ≤ 24) && decide (dig2 m1 m2 ≤ 59) && !(dig2 h1 h2 == 0 && dig2 m1 m2 == 0)
  | _ => false

/-- UTCTime contents that `parseUTCTime` accepts and `appendUTCTime` prints back (with seconds) -/
def utcTimeCanon : Bytes → Bool
  | y1 :: y2 :: rest =>
    isDigit y1 && isDigit y2 &&
    clockOk (if 50 ≤ dig2 y1 y2 then 1900 + dig2 y1 y2 else 2000 + dig2 y1 y2) (rest.take 10) && zoneOk (rest.drop 10)
  | _ => false

/-- GeneralizedTime contents accepted and printed back as GeneralizedTime: the year must be outside 1950..2049 -/
def genTimeCanon : Bytes → Bool
  | y1 :: y2 :: y3 :: y4 :: rest =>
    [y1, y2, y3, y4].all isDigit &&
    (let y := dig2 y1 y2 * 100 + dig2 y3 y4
     (decide (y < 1950) || decide (2050 ≤ y)) && clockOk y (rest.take 10)) && zoneOk (rest.drop 10)
  | _ => false

def timeOk (t : Tlv) : Bool :=
  (t.tag == [0x17] && utcTimeCanon t.val) || (t.tag == [0x18] && genTimeCanon t.val)

def versionOk (v : Tlv) : Bool :=
  v.ok && v.tag == [0xa0] && match parseOne v.val with
    | some i => i.tag == [0x02] && intMinimal i.val && decide (i.val.length ≤ 8) && i.val != [0]
    | none => false

def serialOk (s : Tlv) : Bool := s.ok && s.tag == [0x02] && intMinimal s.val

def oidTlvCanon (o : Tlv) : Bool := o.tag == [0x06] && oidCanon o.val

def algIdCanon (a : Tlv) : Bool :=
  a.ok && a.tag == [0x30] && match splitTlvs a.val with
    | some [o] => oidTlvCanon o
    | some [o, _] => oidTlvCanon o
    | _ => false

/-- an AlgorithmIdentifier that merely has to parse (inside the verbatim SubjectPublicKeyInfo) -/
def algIdAccept (a : Tlv) : Bool :=
  a.tag == [0x30] && match parseTlv a.val with
    | some (o, r) => o.tag == [0x06] && oidAccept o.val && (r.isEmpty || (parseTlv r).isSome)
    | none => false

def spkiOk (s : Tlv) : Bool :=
  s.ok && s.tag == [0x30] && match parseTlv s.val with
    | some (a, r) => algIdAccept a && match parseTlv r with
      | some (b, _) => b.tag == [0x03] && bitStringOk b.val
      | none => false
    | none => false

def validityOk (v : Tlv) : Bool :=
  v.ok && v.tag == [0x30] && match splitTlvs v.val with
    | some [a, b] => timeOk a && timeOk b
    | _ => false

def uidOk (tag : UInt8) (u : Tlv) : Bool := u.ok && u.tag == [tag] && bitStringOk u.val

/-! ### extensions -/

structure Ext where
  oid : Bytes       -- contents of the OBJECT IDENTIFIER
  crit : Bool
  val : Bytes       -- contents of the OCTET STRING
deriving DecidableEq, Repr, Inhabited

def boolTrue : Tlv := ⟨[0x01], [0xff]⟩

def tlvsOfExt (e : Ext) : List Tlv :=
  if e.crit then [⟨[0x06], e.oid⟩, boolTrue, ⟨[0x04], e.val⟩] else [⟨[0x06], e.oid⟩, ⟨[0x04], e.val⟩]

/-- `SEQUENCE { extnID, critical DEFAULT FALSE, extnValue }` as `asn1.Marshal(pkix.Extension)` writes it -/
def encExt (e : Ext) : Tlv := ⟨[0x30], concatTlvs (tlvsOfExt e)⟩

def extOfTlvs : List Tlv → Option Ext
  | [o, v] => if o.tag = [0x06] ∧ v.tag = [0x04] then some ⟨o.val, false, v.val⟩ else none
  | [o, c, v] => if o.tag = [0x06] ∧ c = boolTrue ∧ v.tag = [0x04] then some ⟨o.val, true, v.val⟩ else none
  | _ => none

def parseExt (t : Tlv) : Option Ext :=
  if t.tag = [0x30] then
    match splitTlvs t.val with
    | some ts => extOfTlvs ts
    | none => none
  else none

def parseExts : List Tlv → Option (List Ext)
  | [] => some []
  | t :: ts =>
    match parseExt t with
    | none => none
    | some e =>
      match parseExts ts with
      | none => none
      | some es => some (e :: es)

/-- the bounds under which the fork reads the marshalled extension back (lengths below 2^31) -/
def Ext.sized (e : Ext) : Bool :=
  decide (e.oid.length < 2 ^ 31) && decide (e.val.length < 2 ^ 31) &&
    decide ((concatTlvs (tlvsOfExt e)).length < 2 ^ 31)

def Ext.ok (e : Ext) : Bool := oidCanon e.oid && e.sized

def encExts (es : List Ext) : Bytes := concatTlvs (es.map encExt)

/-- the `[3] EXPLICIT SEQUENCE OF Extension` field -/
def extsField (es : List Ext) : Tlv := ⟨[0xa3], encTlv ⟨[0x30], encExts es⟩⟩

def parseExtsField (x : Tlv) : Option (List Ext) :=
  match parseOne x.val with
  | none => none
  | some s =>
    if s.tag = [0x30] then
      match splitTlvs s.val with
      | some ts => parseExts ts
      | none => none
    else none

def extsOk (es : List Ext) : Bool :=
  es.all Ext.ok && decide ((encExts es).length < 2 ^ 31) && decide ((encTlv ⟨[0x30], encExts es⟩).length < 2 ^ 31)

/-! ### the TBSCertificate -/

structure Tbs where
  version : Option Tlv
  serial : Tlv
  sigAlg : Tlv
  issuer : Tlv
  validity : Tlv
  subject : Tlv
  spki : Tlv
  uid : Option Tlv
  suid : Option Tlv
  /-- `none`: no `[3]` field (nil slice); `some []`: `a3 02 30 00` (empty non-nil slice, which is what
  `append(exts[:0], exts[1:]...)` leaves and what the fork marshals for an `optional` field that is not
  `reflect.DeepEqual` to the nil slice) -/
  exts : Option (List Ext)
deriving DecidableEq, Repr, Inhabited

def optList {α} : Option α → List α
  | none => []
  | some a => [a]

/-- the fields before the extensions -/
def Tbs.pre (t : Tbs) : List Tlv :=
  optList t.version ++ [t.serial, t.sigAlg, t.issuer, t.validity, t.subject, t.spki] ++ (optList t.uid ++ optList t.suid)

def Tbs.fields (t : Tbs) : List Tlv := t.pre ++ optList (t.exts.map extsField)

def Tbs.withExts (t : Tbs) (es : List Ext) : Tbs := { t with exts := some es }

/-- `x` inserted so that it ends up at position `i` (at the end when `i` is beyond the list) -/
def insertAt (es : List Ext) (i : Nat) (x : Ext) : List Ext := es.take i ++ x :: es.drop i

def marshalTbs (t : Tbs) : Bytes := encTlv ⟨[0x30], concatTlvs t.fields⟩

def optAll {α} (p : α → Bool) : Option α → Bool
  | none => true
  | some a => p a

/-- canonical: the fork parses the marshalled bytes and marshals them back unchanged -/
def Tbs.wf (t : Tbs) : Bool :=
  optAll versionOk t.version && serialOk t.serial && algIdCanon t.sigAlg && t.issuer.ok && validityOk t.validity &&
    t.subject.ok && spkiOk t.spki && optAll (uidOk 0x81) t.uid && optAll (uidOk 0x82) t.suid &&
    optAll extsOk t.exts && decide ((concatTlvs t.fields).length < 2 ^ 31)

/-- take the head of the list if it carries `tag` (an OPTIONAL field) -/
def popTag (tag : Bytes) : List Tlv → Option Tlv × List Tlv
  | [] => (none, [])
  | t :: l => if t.tag = tag then (some t, l) else (none, t :: l)

def matchTail (t : Tbs) : List Tlv → Option Tbs
  | [] => some t
  | [x] =>
    if x.tag = [0xa3] then
      match parseExtsField x with
      | some es => some { t with exts := some es }
      | none => none
    else none
  | _ => none

def matchFields (l : List Tlv) : Option Tbs :=
  match (popTag [0xa0] l).2 with
  | serial :: sigAlg :: issuer :: validity :: subject :: spki :: l2 =>
    matchTail { version := (popTag [0xa0] l).1, serial := serial, sigAlg := sigAlg, issuer := issuer, validity := validity,
                subject := subject, spki := spki, uid := (popTag [0x81] l2).1,
                suid := (popTag [0x82] (popTag [0x81] l2).2).1, exts := none }
      (popTag [0x82] (popTag [0x81] l2).2).2
  | _ => none

/-- shape only -/
def parseTbsRaw (bs : Bytes) : Option Tbs :=
  match parseOne bs with
  | none => none
  | some o =>
    if o.tag = [0x30] then
      match splitTlvs o.val with
      | some l => matchFields l
      | none => none
    else none

/-- `asn1.Unmarshal(tbsData, &tbs)` with empty rest, restricted to canonical input -/
def parseTbs (bs : Bytes) : Option Tbs :=
  match parseTbsRaw bs with
  | some t => if t.wf then some t else none
  | none => none

/-! ### `removeExtension` -/

def hasOid (oid : Bytes) (es : List Ext) : Bool := es.any (fun e => e.oid == oid)

/-- number of extensions carrying `oid` (specification side; the code is `removeOne`) -/
def countOid (oid : Bytes) (es : List Ext) : Nat := (es.filter (fun e => e.oid == oid)).length

/-- the search loop of `removeExtension`, literally: the **regenerated** loop body `Gen.removeExtensionStep`
(`extAt`, the index `i`, whether `ext.Id.Equal(oid)`) folded over the extensions; `none` = "multiple extensions" error -/
def findLoop (oid : Bytes) : List Ext → Int → Int → Option Int
  | [], _, extAt => some extAt
  | e :: es, i, extAt =>
    match Gen.removeExtensionStep extAt i (e.oid == oid) with
    | none => none
    | some a => findLoop oid es (i + 1) a

/-- … followed by the regenerated `if extAt == -1` error and `append(exts[:extAt], exts[extAt+1:]...)` -/
def removeOneGo (oid : Bytes) (es : List Ext) : Option (List Ext) :=
  match findLoop oid es 0 (-1) with
  | none => none
  | some extAt =>
    if Gen.removeExtensionAbsent extAt then none
    else some (es.take extAt.toNat ++ es.drop (extAt.toNat + 1))

/-- the same as a structural recursion (proved equal to `removeOneGo` in CTV/Lemmas/Tbs.lean: `removeOneGo_eq`): the single
extension with `oid` is deleted; `none` if there is none or a second one -/
def removeOne (oid : Bytes) : List Ext → Option (List Ext)
  | [] => none
  | e :: es =>
    if e.oid = oid then (if hasOid oid es then none else some es)
    else match removeOne oid es with
      | none => none
      | some r => some (e :: r)

def removeExtT (oid : Bytes) (t : Tbs) : Option Tbs :=
  match removeOneGo oid (t.exts.getD []) with
  | none => none
  | some es => some { t with exts := some es }

/-- `removeExtension(tbsData, oid)`; `none` = an error is returned -/
def removeExt (oid : Bytes) (bs : Bytes) : Option Bytes :=
  match parseTbs bs with
  | none => none
  | some t =>
    match removeExtT oid t with
    | none => none
    | some t' => some (marshalTbs t')

/-! ### OIDs -/

def b128EncF : Nat → Nat → Bytes → Bytes
  | 0, _, acc => acc
  | f + 1, n, acc => if n = 0 then acc else b128EncF f (n / 128) (UInt8.ofNat (0x80 + n % 128) :: acc)

/-- `appendBase128Int` (fuel `n` is more than the number of base-128 digits) -/
def b128Enc (n : Nat) : Bytes := b128EncF n (n / 128) [UInt8.ofNat (n % 128)]

/-- contents octets of an OBJECT IDENTIFIER given by its arcs (`oidEncoder`) -/
def oidContent : List Nat → Bytes
  | a :: b :: rest => b128Enc (a * 40 + b) ++ rest.flatMap b128Enc
  | _ => []

/-- 1.3.6.1.4.1.11129.2.4.3 / .2 and 2.5.29.35 — the driver uses the arcs regenerated from x509.go -/
def poisonOid : Bytes := [0x2b, 0x06, 0x01, 0x04, 0x01, 0xd6, 0x79, 0x02, 0x04, 0x03]
def sctOid : Bytes := [0x2b, 0x06, 0x01, 0x04, 0x01, 0xd6, 0x79, 0x02, 0x04, 0x02]
def akiOid : Bytes := [0x55, 0x1d, 0x23]

/-! ### `BuildPrecertTBS` -/

/-- what `BuildPrecertTBS` reads from the pre-issuer certificate -/
structure PreIssuer where
  /-- `RawIssuer` (the DER of the pre-issuer's own issuer name) -/
  issuer : Tlv
  /-- value of the first authority-key-id extension, if any -/
  aki : Option Bytes
  /-- `ExtKeyUsage` contains CertificateTransparency -/
  ctEku : Bool
deriving Repr

def setFirst (oid v : Bytes) : List Ext → List Ext
  | [] => []
  | e :: es => if e.oid = oid then { e with val := v } :: es else e :: setFirst oid v es

def eraseFirst (oid : Bytes) : List Ext → List Ext
  | [] => []
  | e :: es => if e.oid = oid then es else e :: eraseFirst oid es

/-- the three cases of the authority-key-id update (`keyAt >= 0` replace / delete, else append at the end) -/
def akiUpdate (aki : Option Bytes) (xs : Option (List Ext)) : Option (List Ext) :=
  if hasOid akiOid (xs.getD []) then
    match aki with
    | some v => some (setFirst akiOid v (xs.getD []))
    | none => some (eraseFirst akiOid (xs.getD []))
  else
    match aki with
    | some v => some (xs.getD [] ++ [⟨akiOid, false, v⟩])
    | none => xs

def preIssuerEdit (p : PreIssuer) (t : Tbs) : Tbs :=
  { t with issuer := p.issuer, exts := akiUpdate p.aki t.exts }

/-- `BuildPrecertTBS(tbsData, preIssuer)`; `none` = an error is returned -/
def buildPrecertTBS (bs : Bytes) (p : Option PreIssuer) : Option Bytes :=
  match removeExt poisonOid bs with
  | none => none
  | some data =>
    match parseTbs data with
    | none => none
    | some t =>
      match p with
      | none => some data          -- `tbs.Raw` still holds `data`: the marshaller copies it
      | some p => if p.ctEku then some (marshalTbs (preIssuerEdit p t)) else none

/-- contents octets of the CertificateTransparency extended key usage (arcs regenerated from x509.go) -/
def ctEkuOid : Bytes := oidContent Gen.oidExtKeyUsageCT

/-- what the code reads from `chain[1]`: the KeyPurposeIds of its extKeyUsage extension (contents octets, in order), its
`RawIssuer` and the value of its first authority-key-id extension -/
structure Chain1 where
  ekus : List Bytes
  issuer : Tlv
  aki : Option Bytes
deriving Repr

/-- `Certificate.ExtKeyUsage` contains `ExtKeyUsageCertificateTransparency` (`ct.IsPreIssuer`, and the `seenCTEKU` loop) -/
def Chain1.hasCtEku (c : Chain1) : Bool := c.ekus.contains ctEkuOid

def Chain1.pre (c : Chain1) : PreIssuer := ⟨c.issuer, c.aki, c.hasCtEku⟩

/-- the `preIssuer` argument `MerkleTreeLeafFromChain` passes on: `chain[1]` if `IsPreIssuer(chain[1])`, else nil -/
def preIssuerOf : Option Chain1 → Option PreIssuer
  | none => none
  | some c => if c.hasCtEku then some c.pre else none

/-! ### the two leaf routes (serialization.go): the TBSCertificate that goes into the `PreCert` entry, and the
SubjectPublicKeyInfo that is hashed into `issuer_key_hash` (`rest` = the SubjectPublicKeyInfos of `chain[1:]`) -/

/-- `MerkleTreeLeafFromChain(chain, PrecertLogEntryType, _)`; `pre` describes `chain[1]` when it carries the CT EKU (`IsPreIssuer`) -/
def leafFromPrecertChain (tbs : Bytes) (rest : List Bytes) (pre : Option PreIssuer) : Option (Bytes × Bytes) :=
  match rest with
  | [] => none
  | k1 :: rest' =>
    match pre with
    | none => (buildPrecertTBS tbs none).map (·, k1)
    | some p =>
      match rest' with
      | [] => none
      | k2 :: _ => (buildPrecertTBS tbs (some p)).map (·, k2)

/-- `MerkleTreeLeafForEmbeddedSCT(chain, _)` -/
def leafForEmbeddedSCT (tbs : Bytes) (rest : List Bytes) : Option (Bytes × Bytes) :=
  match rest with
  | [] => none
  | k1 :: _ => (removeExt sctOid tbs).map (·, k1)

/-! ### the SCT list extension value: `OCTET STRING { SignedCertificateTimestampList }`, RFC 6962 §3.3

The TLS layer is **not** written here: it is the generic codec `Tls.enc` / `Tls.dec` (CTV/Tls/Codec.lean, the model of
`tls.Marshal` / `tls.Unmarshal`) at the type regenerated from the struct tags of `x509.SignedCertificateTimestampList`
and `x509.SerializedSCT` (`CtWire.tSCTList`), which is what C04 relates to RFC 6962. -/

def sctItemsOfVals : List Tls.Val → Option (List Bytes)
  | [] => some []
  | .struct [.bytes b] :: vs =>
    match sctItemsOfVals vs with
    | some l => some (b :: l)
    | none => none
  | _ :: _ => none

/-- the Go value `SignedCertificateTimestampList{SCTList: [{Val: b}…]}` read as the list of its `Val`s (inverse of `CtWire.sctListVal`) -/
def sctListOfVal : Tls.Val → Option (List Bytes)
  | .struct [.list vs] => sctItemsOfVals vs
  | _ => none

/-- `ASN1MarshalSCTs`: `tls.Marshal(SignedCertificateTimestampList{…})`, then `asn1.Marshal([]byte)` — the extension value -/
def sctExtValue (l : List Bytes) : Option Bytes :=
  match Tls.enc CtWire.tSCTList (CtWire.sctListVal l) with
  | .ok b => some (encTlv ⟨[0x04], b⟩)
  | .error _ => none

/-- `parseCertificate`'s handling of the extension value (`asn1.Unmarshal` into `[]byte` without rest, `tls.Unmarshal` without
rest): `Certificate.SCTList`; `none` = an error is recorded -/
def parseSctExtValue (v : Bytes) : Option (List Bytes) :=
  match parseOne v with
  | some t =>
    if t.tag = [0x04] then
      match Tls.dec CtWire.tSCTList t.val with
      | .ok (val, []) => sctListOfVal val
      | _ => none
    else none
  | none => none

end CTV.Tbs
