import CTV.Basic.Bytes
import CTV.Rfc6962.Merkle
import CTV.Gen.FrontEnd
import CTV.Gen.Handlers
/-!
# Model of the log front end over a reference backend (C06)

Backend (the *assumed* Trillian contract, implemented for the harness by `verifkit.RefLog`): an
RFC 6962 tree over `LeafValue`, de-duplication by identity hash, sequencing in batches of any size.
Front end (`trillian/ctfe`): the read handlers relay what the backend returns; `LogSTHGetter` turns
the backend's root into the served tree head with the **regenerated** conversions
`Gen.sthTimestamp` / `Gen.sthTreeSize`, and signs it through the one-entry signature cache.
Core Lean only.
-/
namespace CTV.Model.FrontEnd
open Merkle

/-- What a log entry is about (RFC 6962 §3.4 `TimestampedEntry.signed_entry`). -/
inductive Entry where
  | x509 (cert : Bytes)
  | precert (issuerKeyHash : Bytes) (tbs : Bytes)
deriving DecidableEq, Repr

/-- RFC 6962 §3.4 `MerkleTreeLeaf` for a v1 timestamped entry without extensions, written from the
    RFC text: `version(1)=0 leaf_type(1)=0 timestamp(8) entry_type(2) signed_entry extensions<0..2^16-1>`;
    `ASN.1Cert`/`TBSCertificate` are `opaque<1..2^24-1>`, the issuer key hash is 32 bytes. -/
def encLeaf (e : Entry) (ts : Nat) : Bytes :=
  [0, 0] ++ beEnc 8 ts ++
  (match e with
   | .x509 c => [0, 0] ++ beEnc 3 c.length ++ c
   | .precert k t => [0, 1] ++ k ++ beEnc 3 t.length ++ t) ++
  [0, 0]

structure Leaf where
  value : Bytes     -- LeafValue: TLS-encoded MerkleTreeLeaf
  extra : Bytes     -- ExtraData: the chain
  idHash : Bytes    -- LeafIdentityHash
deriving DecidableEq, Repr

structure Backend where
  leaves : List Leaf    -- integrated, by index
  pending : List Leaf   -- queued
  tsNanos : Nat         -- timestamp of the current log root
deriving Repr

def Backend.init (ts : Nat) : Backend := ⟨[], [], ts⟩

def Backend.find (b : Backend) (id : Bytes) : Option Leaf :=
  (b.leaves ++ b.pending).find? (fun l => l.idHash == id)

/-- QueueLeaf: a leaf whose identity hash is already known is not queued again; the caller gets the
    stored leaf back (the front end builds the SCT from the *returned* leaf). -/
def Backend.queue (b : Backend) (cand : Leaf) : Backend × Leaf :=
  match b.find cand.idHash with
  | some old => (b, old)
  | none => ({ b with pending := b.pending ++ [cand] }, cand)

/-- One sequencing step of any batch size, publishing a root with timestamp `ts`. -/
def Backend.sequence (b : Backend) (k ts : Nat) : Backend :=
  { leaves := b.leaves ++ b.pending.take k, pending := b.pending.drop k, tsNanos := ts }

def Backend.values (b : Backend) : List Bytes := b.leaves.map (·.value)

section
variable {Hash : Type} (leafH : Bytes → Hash) (nodeH : Hash → Hash → Hash) (emptyH : Hash)

def Backend.root (b : Backend) : Hash := mth leafH nodeH emptyH b.values

/-! ### the backend RPCs the read handlers use — the *assumed* contract (what `verifkit.RefLog` implements)

Every reply carries the current log root (only its size matters to the handlers); `none` is an RPC
error status. -/

/-- GetLatestSignedLogRoot: the published root -/
structure RootReply (Hash : Type) where
  size : Nat
  hash : Hash
  tsNanos : Nat

def Backend.rpcLatestRoot (b : Backend) : RootReply Hash := ⟨b.leaves.length, b.root leafH nodeH emptyH, b.tsNanos⟩

structure ConsReply (Hash : Type) where
  rootSize : Nat
  proof : Option (List Hash)      -- absent when the tree is smaller than requested

/-- GetConsistencyProof(first_tree_size, second_tree_size) -/
def Backend.rpcConsistency (b : Backend) (first second : Int) : Option (ConsReply Hash) :=
  if first ≤ 0 ∨ second < first then none
  else if b.leaves.length < second.toNat then some ⟨b.leaves.length, none⟩
  else some ⟨b.leaves.length,
    some (if first.toNat = second.toNat then [] else consProof leafH nodeH emptyH first.toNat (b.values.take second.toNat))⟩

structure EntryReply (Hash : Type) where
  rootSize : Nat
  leaf : Option Leaf
  proof : Option (List Hash)

/-- GetEntryAndProof(leaf_index, tree_size) -/
def Backend.rpcEntryAndProof (b : Backend) (idx size : Int) : Option (EntryReply Hash) :=
  if size ≤ 0 ∨ idx < 0 ∨ idx ≥ size then none
  else if b.leaves.length < size.toNat then some ⟨b.leaves.length, none, none⟩
  else some ⟨b.leaves.length, b.leaves[idx.toNat]?, some (path leafH nodeH emptyH idx.toNat (b.values.take size.toNat))⟩

/-- the tree head the front end serves (without the signature): size, millisecond timestamp, root -/
structure Head (Hash : Type) where
  size : Int
  ts : Int
  root : Hash

/-- `LogSTHGetter.GetSTH`: the served head from the backend's root reply — size and timestamp through
    the regenerated conversions, the root hash copied (`copy(sth.SHA256RootHash[:], …)`, hand-written). -/
def headOf (r : RootReply Hash) : Head Hash := ⟨Gen.sthTreeSize r.size, Gen.sthTimestamp r.tsNanos, r.hash⟩

def served (b : Backend) : Head Hash := headOf (b.rpcLatestRoot leafH nodeH emptyH)

/-! ### the handlers: parameters → request → reply → response (`handlers.go`)

Which parameter goes into which request field, the tree-size guards and which reply fields are relayed
are the regenerated `Gen.req…`, `Gen.…RootTooSmall`, `Gen.relay…`; a swap in the source swaps the term. -/

/-- get-sth-consistency?first=…&second=… (both present and numeric) against any backend `rpc` -/
def handleConsistency (rpc : Int → Int → Option (ConsReply Hash)) (first second : Int) : Option (List Hash) :=
  match Gen.parseGetSTHConsistencyRange false false first second with
  | none => none                                          -- 400
  | some (f, s) =>
    if !Gen.consNeedsBackend f then some []               -- first = 0: empty proof, no backend call
    else
      let q := Gen.reqGetConsistencyProof f s
      match rpc q.1 q.2 with
      | none => none                                      -- backend error
      | some r =>
        if Gen.consRootTooSmall r.rootSize s then none    -- 400
        else match r.proof with
          | none => none                                  -- 500
          | some hs => some (Gen.relayConsistency hs)

/-- get-entry-and-proof?leaf_index=…&tree_size=… against any backend `rpc` -/
def handleEntryAndProof (rpc : Int → Int → Option (EntryReply Hash)) (idx size : Int) : Option (Bytes × Bytes × List Hash) :=
  match Gen.parseGetEntryAndProofParams idx size with
  | none => none
  | some (i, n) =>
    let q := Gen.reqGetEntryAndProof i n
    match rpc q.1 q.2 with
    | none => none
    | some r =>
      if Gen.entryAndProofRootTooSmall r.rootSize n then none
      else match r.leaf, r.proof with
        | some l, some hs =>
          if l.value.isEmpty then none
          else if decide (n > 1) && hs.isEmpty then none
          else some (Gen.relayEntryAndProof l.value l.extra hs)
        | _, _ => none

def getConsistency (b : Backend) (first second : Int) : Option (List Hash) :=
  handleConsistency (b.rpcConsistency leafH nodeH emptyH) first second

def getEntryAndProof (b : Backend) (idx size : Int) : Option (Bytes × Bytes × List Hash) :=
  handleEntryAndProof (b.rpcEntryAndProof leafH nodeH emptyH) idx size

variable [DecidableEq Hash]

structure ProofsReply (Hash : Type) where
  rootSize : Nat
  proofs : List (Nat × List Hash)   -- every index below the requested size holding the hash, in sequence order

/-- GetInclusionProofByHash(leaf_hash, tree_size, order_by_sequence) -/
def Backend.rpcProofByHash (b : Backend) (h : Hash) (size : Int) : Option (ProofsReply Hash) :=
  if size ≤ 0 then none
  else if b.leaves.length < size.toNat then some ⟨b.leaves.length, []⟩
  else
    let vs := b.values.take size.toNat
    -- the lowest index holding the hash first, then every later one (order_by_sequence)
    match vs.findIdx? (fun v => leafH v == h) with
    | none => none      -- NotFound
    | some i =>
      let later := (List.range vs.length).filter (fun k => decide (i < k) && (match vs[k]? with | some v => leafH v == h | none => false))
      some ⟨b.leaves.length, (i :: later).map (fun k => (k, path leafH nodeH emptyH k vs))⟩

/-- get-proof-by-hash?hash=…&tree_size=… (hash decodes, size numeric) against any backend `rpc`:
    the **first** proof of the reply is relayed. -/
def handleProofByHash (rpc : Hash → Int → Option (ProofsReply Hash)) (h : Hash) (size : Int) : Option (Nat × List Hash) :=
  if Gen.proofByHashBadSize false size then none
  else
    let q := Gen.reqGetInclusionProofByHash h size
    match rpc q.1 q.2 with
    | none => none
    | some r =>
      if Gen.proofByHashRootTooSmall r.rootSize size then none     -- 404
      else match r.proofs with
        | [] => none                                               -- 404
        | p :: _ => some (Gen.relayProofByHash p.1 p.2)

def getProofByHash (b : Backend) (h : Hash) (n : Int) : Option (Nat × List Hash) :=
  handleProofByHash (b.rpcProofByHash leafH nodeH emptyH) h n

end

/-- get-entries for an in-range request (the range arithmetic itself is C07's subject). -/
def getEntries (b : Backend) (s e : Nat) : List Leaf := (b.leaves.drop s).take (e + 1 - s)

/-! ### histories -/

inductive Op where
  | submit (cand : Leaf)
  | sequence (k ts : Nat)
  | read          -- any of the read endpoints: no effect on the backend
deriving Repr

def step (b : Backend) : Op → Backend
  | .submit c => (b.queue c).1
  | .sequence k ts => b.sequence k ts
  | .read => b

def run (b : Backend) : List Op → Backend
  | [] => b
  | op :: ops => run (step b op) ops

/-! ### the STH signature cache (`SignatureCache`, `signV1TreeHead`) -/

section
variable {Msg Sig : Type} [DecidableEq Msg]

/-- one-entry cache: last signed input and its signature -/
abbrev Cache (Msg Sig : Type) := Option (Msg × Sig)

/-- `SignatureCache.GetSignature`: **one** atomic step — compare the input and, in the same critical
    section, read the signature. -/
def cget (c : Cache Msg Sig) (input : Msg) : Option Sig :=
  match c with
  | some (i, s) => if Gen.sigCacheMiss (decide (i = input)) then none else some s
  | none => none

/-- `SignatureCache.SetSignature`: one atomic step. -/
def cset (input : Msg) (s : Sig) : Cache Msg Sig := some (input, s)

/-- A get split into two critical sections: `Contains(input)` evaluated in cache state `c1`, the
    signature read later in cache state `c2` (other requests may have run in between). Not what the
    code does; it is here to state why the get must be atomic (`C06.two_step_get_unsound`). -/
def containsThenRead (c1 c2 : Cache Msg Sig) (input : Msg) : Option Sig :=
  if (cget c1 input).isSome then c2.map (·.2) else none

/-- What the handlers do to the shared cache, one atomic step each; requests of different handlers
    interleave arbitrarily, so a schedule is any list of these. -/
inductive CacheEv (Msg Sig : Type) where
  | get (input : Msg)
  | set (input : Msg) (s : Sig)

/-- results of the gets of a schedule, in order -/
def runCache : Cache Msg Sig → List (CacheEv Msg Sig) → List (Msg × Option Sig)
  | _, [] => []
  | c, .get i :: rest => (i, cget c i) :: runCache c rest
  | _, .set i s :: rest => runCache (cset i s) rest

/-- `signV1TreeHead`: reuse the cached signature iff the input bytes are the cached ones, else sign
    (`sign` may be randomised: `nonce`) and remember. -/
def signHead (sign : Msg → Nat → Sig) (c : Cache Msg Sig) (input : Msg) (nonce : Nat) : Cache Msg Sig × Sig :=
  match c with
  | some (i, s) => if i = input then (c, s) else (some (input, sign input nonce), sign input nonce)
  | none => (some (input, sign input nonce), sign input nonce)

end
end CTV.Model.FrontEnd
