import CTV.Basic.Bytes
import CTV.Rfc6962.Merkle
import CTV.Gen.FrontEnd
import CTV.Gen.Handlers
/-!
# Model of the log front end over a reference backend (C06)

Backend (the *assumed* Trillian contract, implemented for the harness by `verifkit.RefLog`): an
RFC 6962 tree over `LeafValue`, de-duplication by identity hash, sequencing in batches of any size.
Front end (`trillian/ctfe`): the read handlers relay what the backend returns; `LogSTHGetter` turns
the backend's root into the served tree head with the **regenerated** conversions
`Gen.sthTimestamp` / `Gen.sthTreeSize`, and signs it through the one-entry signature cache.
Core Lean only.
-/
namespace CTV.Model.FrontEnd
open Merkle

/-- What a log entry is about (RFC 6962 §3.4 `TimestampedEntry.signed_entry`). -/
inductive Entry where
  | x509 (cert : Bytes)
  | precert (issuerKeyHash : Bytes) (tbs : Bytes)
deriving DecidableEq, Repr

/-- RFC 6962 §3.4 `MerkleTreeLeaf` for a v1 timestamped entry without extensions, written from the
    RFC text: `version(1)=0 leaf_type(1)=0 timestamp(8) entry_type(2) signed_entry extensions<0..2^16-1>`;
    `ASN.1Cert`/`TBSCertificate` are `opaque<1..2^24-1>`, the issuer key hash is 32 bytes. -/
def encLeaf (e : Entry) (ts : Nat) : Bytes :=
  [0, 0] ++ beEnc 8 ts ++
  (match e with
   | .x509 c => [0, 0] ++ beEnc 3 c.length ++ c
   | .precert k t => [0, 1] ++ k ++ beEnc 3 t.length ++ t) ++
  [0, 0]

structure Leaf where
  value : Bytes     -- LeafValue: TLS-encoded MerkleTreeLeaf
  extra : Bytes     -- ExtraData: the chain
  idHash : Bytes    -- LeafIdentityHash
deriving DecidableEq, Repr

structure Backend where
  leaves : List Leaf    -- integrated, by index
  pending : List Leaf   -- queued
  tsNanos : Nat         -- timestamp of the current log root
deriving Repr

def Backend.init (ts : Nat) : Backend := ⟨[], [], ts⟩

def Backend.find (b : Backend) (id : Bytes) : Option Leaf :=
  (b.leaves ++ b.pending).find? (fun l => l.idHash == id)

/-- QueueLeaf: a leaf whose identity hash is already known is not queued again; the caller gets the
    stored leaf back (the front end builds the SCT from the *returned* leaf). -/
def Backend.queue (b : Backend) (cand : Leaf) : Backend × Leaf :=
  match b.find cand.idHash with
  | some old => (b, old)
  | none => ({ b with pending := b.pending ++ [cand] }, cand)

/-- One sequencing step of any batch size, publishing a root with timestamp `ts`. -/
def Backend.sequence (b : Backend) (k ts : Nat) : Backend :=
  { leaves := b.leaves ++ b.pending.take k, pending := b.pending.drop k, tsNanos := ts }

def Backend.values (b : Backend) : List Bytes := b.leaves.map (·.value)

section
variable {Hash : Type} (leafH : Bytes → Hash) (nodeH : Hash → Hash → Hash) (emptyH : Hash)

def Backend.root (b : Backend) : Hash := mth leafH nodeH emptyH b.values

/-- The tree head the front end serves (without the signature): size, millisecond timestamp, root. -/
structure Head (Hash : Type) where
  size : Int
  ts : Int
  root : Hash

def served (b : Backend) : Head Hash :=
  ⟨Gen.sthTreeSize b.leaves.length, Gen.sthTimestamp b.tsNanos, b.root leafH nodeH emptyH⟩

/-- get-sth-consistency?first=m&second=n (both present, parsed): 400 unless `0 ≤ m ≤ n`; `m = 0`
    answers the empty proof without a backend call; otherwise the backend's proof, 400 if the tree is
    smaller than `n`. -/
def getConsistency (b : Backend) (first second : Int) : Option (List Hash) :=
  match Gen.parseGetSTHConsistencyRange false false first second with
  | none => none
  | some (f, s) =>
    if f = 0 then some []
    else if b.leaves.length < s.toNat then none
    else some (if f.toNat = s.toNat then [] else consProof leafH nodeH emptyH f.toNat (b.values.take s.toNat))

variable [DecidableEq Hash]

/-- get-proof-by-hash: the lowest index below `n` whose leaf hash is `h`, with its audit path in the tree of size `n`. -/
def getProofByHash (b : Backend) (h : Hash) (n : Int) : Option (Nat × List Hash) :=
  if n < 1 then none
  else if b.leaves.length < n.toNat then none
  else
    match (b.values.take n.toNat).findIdx? (fun v => leafH v == h) with
    | none => none
    | some i => some (i, path leafH nodeH emptyH i (b.values.take n.toNat))

/-- get-entry-and-proof. -/
def getEntryAndProof (b : Backend) (idx size : Int) : Option (Leaf × List Hash) :=
  match Gen.parseGetEntryAndProofParams idx size with
  | none => none
  | some (i, n) =>
    if b.leaves.length < n.toNat then none
    else match b.leaves[i.toNat]? with
      | none => none
      | some l => some (l, path leafH nodeH emptyH i.toNat (b.values.take n.toNat))

end

/-- get-entries for an in-range request (the range arithmetic itself is C07's subject). -/
def getEntries (b : Backend) (s e : Nat) : List Leaf := (b.leaves.drop s).take (e + 1 - s)

/-! ### histories -/

inductive Op where
  | submit (cand : Leaf)
  | sequence (k ts : Nat)
  | read          -- any of the read endpoints: no effect on the backend
deriving Repr

def step (b : Backend) : Op → Backend
  | .submit c => (b.queue c).1
  | .sequence k ts => b.sequence k ts
  | .read => b

def run (b : Backend) : List Op → Backend
  | [] => b
  | op :: ops => run (step b op) ops

/-! ### the STH signature cache (`SignatureCache`, `signV1TreeHead`) -/

section
variable {Msg Sig : Type} [DecidableEq Msg]

/-- one-entry cache: last signed input and its signature -/
abbrev Cache (Msg Sig : Type) := Option (Msg × Sig)

/-- `SignatureCache.GetSignature`: **one** atomic step — compare the input and, in the same critical
    section, read the signature. -/
def cget (c : Cache Msg Sig) (input : Msg) : Option Sig :=
  match c with
  | some (i, s) => if i = input then some s else none
  | none => none

/-- `SignatureCache.SetSignature`: one atomic step. -/
def cset (input : Msg) (s : Sig) : Cache Msg Sig := some (input, s)

/-- A get split into two critical sections: `Contains(input)` evaluated in cache state `c1`, the
    signature read later in cache state `c2` (other requests may have run in between). Not what the
    code does; it is here to state why the get must be atomic (`C06.two_step_get_unsound`). -/
def containsThenRead (c1 c2 : Cache Msg Sig) (input : Msg) : Option Sig :=
  if (cget c1 input).isSome then c2.map (·.2) else none

/-- What the handlers do to the shared cache, one atomic step each; requests of different handlers
    interleave arbitrarily, so a schedule is any list of these. -/
inductive CacheEv (Msg Sig : Type) where
  | get (input : Msg)
  | set (input : Msg) (s : Sig)

/-- results of the gets of a schedule, in order -/
def runCache : Cache Msg Sig → List (CacheEv Msg Sig) → List (Msg × Option Sig)
  | _, [] => []
  | c, .get i :: rest => (i, cget c i) :: runCache c rest
  | _, .set i s :: rest => runCache (cset i s) rest

/-- `signV1TreeHead`: reuse the cached signature iff the input bytes are the cached ones, else sign
    (`sign` may be randomised: `nonce`) and remember. -/
def signHead (sign : Msg → Nat → Sig) (c : Cache Msg Sig) (input : Msg) (nonce : Nat) : Cache Msg Sig × Sig :=
  match c with
  | some (i, s) => if i = input then (c, s) else (some (input, sign input nonce), sign input nonce)
  | none => (some (input, sign input nonce), sign input nonce)

end
end CTV.Model.FrontEnd
