import CTV.Gen.Retry
/-!
Hand model of `JSONClient.PostAndParseWithRetry`'s loop (jsonclient/client.go) around the regenerated kernels
`Gen.backoffSet`, `Gen.waitDur`, `Gen.retryClass`, `Gen.retryAfterSeconds`. Time is a parameter (`Int` nanoseconds).
The zero `time.Time` of a fresh back-off is represented by the instant `-(2^62)` (far in the past, inside int64).
-/
namespace CTV.Model.Retry

structure BState where
  notBefore : Int
  mult : Int
deriving Repr, DecidableEq

def zeroInstant : Int := -(2^62)
def BState.init : BState := ⟨zeroInstant, 0⟩

/-- forms of the Retry-After header (the date as an instant) -/
inductive RA | none | secs (n : Int) | date (d : Int) | junk
deriving Repr, DecidableEq

inductive Resp
  | ctxErr                       -- PostAndParse returned context.Canceled / context.DeadlineExceeded
  | otherErr                     -- transport error, POST converted by a redirect, unparsable 200 body, unreadable body
  | http (status : Nat) (ra : RA) -- a response was received (and for 200 its body parsed)
deriving Repr, DecidableEq

inductive Act | retOk | retErr | retCtx | retry
deriving Repr, DecidableEq

def classOf (st : Nat) : Nat := (Gen.retryClass.lookup st).getD Gen.retryClassDefault

/-- the `override` passed to `backoff.set` for a 429/503 -/
def overrideOf (now : Int) : RA → Option Int
  | .none => none
  | .junk => none
  | .secs n => some (Gen.retryAfterSeconds n)
  | .date d => some (I64.sub d now)

def applySet (s : BState) (now : Int) (ov : Option Int) : Int × BState :=
  let r := Gen.backoffSet s.notBefore s.mult now ov
  (r.1, ⟨r.2.1, r.2.2⟩)

/-- one iteration of the loop, up to (not including) `waitForBackoff` -/
def onResponse (s : BState) (now : Int) : Resp → Act × BState
  | .ctxErr => (.retCtx, s)
  | .otherErr => (.retry, (applySet s now none).2)
  | .http st ra =>
    match classOf st with
    | 0 => (.retOk, s)
    | 1 => (.retry, s)
    | 2 => (.retry, (applySet s now (overrideOf now ra)).2)
    | _ => (.retErr, s)

/-- how long `waitForBackoff` sleeps (if the context does not end first); `jitterMs` is the random draw -/
def waitFor (s : BState) (now jitterMs : Int) : Int := Gen.waitDur s.notBefore now jitterMs

end CTV.Model.Retry
