import CTV.Model.RetrySpec
/-!
Hand model of `JSONClient.PostAndParseWithRetry`'s loop (jsonclient/client.go) around the regenerated kernels
`Gen.backoffSet`, `Gen.waitDur` and the reference table / arithmetic `Spec.retryClass`, `Spec.retryAfterSeconds`, which
`Props/C13.lean` (`step_is_onResponse`) relates to the regenerated loop body `Gen.retryStep`. Time is a parameter (`Int` nanoseconds).
Instants are unbounded `Int` nanoseconds since the Unix epoch (`T.add` exact, `T.sub` saturating like `time.Time.Sub`), so the
zero `time.Time` of a fresh back-off is its true value, year 1.
-/
namespace CTV.Model.Retry

structure BState where
  notBefore : Int
  mult : Int
deriving Repr, DecidableEq

def zeroInstant : Int := -62135596800000000000
def BState.init : BState := ⟨zeroInstant, 0⟩

/-- forms of the Retry-After header (the date as an instant) -/
inductive RA | none | secs (n : Int) | date (d : Int) | junk
deriving Repr, DecidableEq

inductive Resp
  | ctxErr                       -- PostAndParse returned context.Canceled / context.DeadlineExceeded
  | otherErr                     -- transport error, POST converted by a redirect, unparsable 200 body, unreadable body
  | http (status : Nat) (ra : RA) -- a response was received (and for 200 its body parsed)
deriving Repr, DecidableEq

inductive Act | retOk | retErr | retCtx | retry
deriving Repr, DecidableEq

def classOf (st : Nat) : Nat := (Spec.retryClass.lookup st).getD Spec.retryClassDefault

/-- the `override` passed to `backoff.set` for a 429/503 -/
def overrideOf (now : Int) : RA → Option Int
  | .none => none
  | .junk => none
  | .secs n => some (Spec.retryAfterSeconds n)
  | .date d => some (T.sub d now)

def applySet (s : BState) (now : Int) (ov : Option Int) : Int × BState :=
  let r := Gen.backoffSet s.notBefore s.mult now ov
  (r.1, ⟨r.2.1, r.2.2⟩)

/-- one iteration of the loop, up to (not including) `waitForBackoff` -/
def onResponse (s : BState) (now : Int) : Resp → Act × BState
  | .ctxErr => (.retCtx, s)
  | .otherErr => (.retry, (applySet s now none).2)
  | .http st ra =>
    match classOf st with
    | 0 => (.retOk, s)
    | 1 => (.retry, s)
    | 2 => (.retry, (applySet s now (overrideOf now ra)).2)
    | _ => (.retErr, s)

/-- how long `waitForBackoff` sleeps (if the context does not end first); `jitterMs` is the random draw -/
def waitFor (s : BState) (now jitterMs : Int) : Int := Gen.waitDur s.notBefore now jitterMs

/-- is the response one after which the loop goes round again? -/
def retryable (s : BState) (now : Int) (r : Resp) : Bool := (onResponse s now r).1 == .retry

/-- the whole loop over a script of (instant of the response, response): the action it ends with and how many responses it
consumed; `none` = the script ran out while still retrying -/
def run : BState → List (Int × Resp) → Option (Act × Nat)
  | _, [] => none
  | s, (t, r) :: rest =>
    match onResponse s t r with
    | (.retry, s') => (run s' rest).map fun (a, k) => (a, k + 1)
    | (a, _) => some (a, 1)

end CTV.Model.Retry
