import CTV.Gen.HandlerChecks
import CTV.Model.HandlerSpec
/-!
Reference copies `Spec.*` of the handler bodies regenerated into `Gen.HandlerChecks` (taken at the pinned commit) and the proof,
by the generic `same_kernel`, that what is regenerated on this run equals them. The tie theorems of `Props/C08Tie.lean` and
`Props/C07Tie.lean` unfold `Spec.*`, so a handler rewritten without change of behaviour (a test moved into a helper, locals renamed
or hoisted, an if-chain turned into a switch) only has to get through `same_kernel`. See `CTV/Model/HandlerSpec.lean`.
-/
namespace Spec

def serveHTTP (methodBad isGet formBad handlerErr : Bool) (statusCode_ : Int) : Int × Bool :=
  let sent_ := (0 : Int)
  let called_ := false
  if methodBad then
    let sent_ := (405 : Int)
    (sent_, called_)
  else
  if isGet then
    if formBad then
      let sent_ := (400 : Int)
      (sent_, called_)
    else
    let called_ := true
    if handlerErr then
      let sent_ := statusCode_
      (sent_, called_)
    else
    if (decide (statusCode_ ≠ (200 : Int))) then
      let sent_ := (500 : Int)
      (sent_, called_)
    else
    (sent_, called_)
  else
  let called_ := true
  if handlerErr then
    let sent_ := statusCode_
    (sent_, called_)
  else
  if (decide (statusCode_ ≠ (200 : Int))) then
    let sent_ := (500 : Int)
    (sent_, called_)
  else
  (sent_, called_)

def addChainInternal (bodyBad chainBad leafBuildBad buildFails rpcFails : Bool) (mapped : Nat) (rspNil qlNil leafNil leafUndecodable trailing signFails sctMarshalFails writeFails : Bool) : Nat × Bool × Bool × Bool :=
  let rpc_ := false
  let sct_ := false
  if bodyBad then
    ((400 : Nat), true, rpc_, sct_)
  else
  if chainBad then
    ((400 : Nat), true, rpc_, sct_)
  else
  if leafBuildBad then
    ((400 : Nat), true, rpc_, sct_)
  else
  if buildFails then
    ((500 : Nat), true, rpc_, sct_)
  else
  let rpc_ := true
  if rpcFails then
    (mapped, true, rpc_, sct_)
  else
  if rspNil then
    ((500 : Nat), true, rpc_, sct_)
  else
  if (qlNil || leafNil) then
    ((500 : Nat), true, rpc_, sct_)
  else
  if leafUndecodable then
    ((500 : Nat), true, rpc_, sct_)
  else
  if trailing then
    ((500 : Nat), true, rpc_, sct_)
  else
  if signFails then
    ((500 : Nat), true, rpc_, sct_)
  else
  if sctMarshalFails then
    ((500 : Nat), true, rpc_, sct_)
  else
  let sct_ := true
  if writeFails then
    ((500 : Nat), true, rpc_, sct_)
  else
  ((200 : Nat), false, rpc_, sct_)

def getSTHHandler (sthFails : Bool) (mapped : Nat) (writeFails : Bool) : Nat × Bool :=
  if sthFails then
    (mapped, true)
  else
  if writeFails then
    ((500 : Nat), true)
  else
  ((200 : Nat), false)

def getSTHConsistency (parseFails : Bool) (first_ second_ : Int) (rpcFails : Bool) (mapped : Nat) (rootBad : Bool) (rootSize : Int) (proofNil pathOk marshalFails writeFails : Bool) : Nat × Bool × Bool :=
  let rpc_ := false
  if parseFails then
    ((400 : Nat), true, rpc_)
  else
  if (decide (first_ ≠ (0 : Int))) then
    let rpc_ := true
    if rpcFails then
      (mapped, true, rpc_)
    else
    if rootBad then
      ((500 : Nat), true, rpc_)
    else
    if (decide (rootSize < (U64.wrap second_))) then
      ((400 : Nat), true, rpc_)
    else
    if proofNil then
      ((500 : Nat), true, rpc_)
    else
    if (!pathOk) then
      ((500 : Nat), true, rpc_)
    else
    if marshalFails then
      ((500 : Nat), true, rpc_)
    else
    if writeFails then
      ((500 : Nat), true, rpc_)
    else
    ((200 : Nat), false, rpc_)
  else
  if marshalFails then
    ((500 : Nat), true, rpc_)
  else
  if writeFails then
    ((500 : Nat), true, rpc_)
  else
  ((200 : Nat), false, rpc_)

def getProofByHash (hashLen : Int) (hashBad treeSizeBad : Bool) (treeSize_ : Int) (rpcFails : Bool) (mapped : Nat) (rootBad : Bool) (rootSize nProofs : Int) (pathOk marshalFails writeFails : Bool) : Nat × Bool × Bool :=
  let rpc_ := false
  if (decide (hashLen = (0 : Int))) then
    ((400 : Nat), true, rpc_)
  else
  if hashBad then
    ((400 : Nat), true, rpc_)
  else
  if (treeSizeBad || (decide (treeSize_ < (1 : Int)))) then
    ((400 : Nat), true, rpc_)
  else
  let rpc_ := true
  if rpcFails then
    (mapped, true, rpc_)
  else
  if rootBad then
    ((500 : Nat), true, rpc_)
  else
  if (decide (rootSize < (U64.wrap treeSize_))) then
    ((404 : Nat), true, rpc_)
  else
  if (decide (nProofs = (0 : Int))) then
    ((404 : Nat), true, rpc_)
  else
  if (!pathOk) then
    ((500 : Nat), true, rpc_)
  else
  if marshalFails then
    ((500 : Nat), true, rpc_)
  else
  if writeFails then
    ((500 : Nat), true, rpc_)
  else
  ((200 : Nat), false, rpc_)

def getEntries (parseFails : Bool) (start_ end_ : Int) (rpcErr : Bool) (rpcStatus : Nat) (rootBad : Bool) (rootSize nLeaves : Int) (misindexed leafDecodeFails marshalFails writeFails : Bool) : Nat × Bool × Bool :=
  let rpc_ := false
  if parseFails then
    ((400 : Nat), true, rpc_)
  else
  let leaves_ := (0 : Int)
  let count_ := (I64.sub (I64.add end_ (1 : Int)) start_)
  let rpc_ := true
  if rpcErr then
    (rpcStatus, true, rpc_)
  else
  if rootBad then
    ((500 : Nat), true, rpc_)
  else
  if (decide (rootSize ≤ (U64.wrap start_))) then
    ((400 : Nat), true, rpc_)
  else
  if (decide (nLeaves > (I64.wrap64 count_))) then
    ((500 : Nat), true, rpc_)
  else
  if misindexed then
    ((500 : Nat), true, rpc_)
  else
  if leafDecodeFails then
    ((500 : Nat), true, rpc_)
  else
  if marshalFails then
    ((500 : Nat), true, rpc_)
  else
  if writeFails then
    ((500 : Nat), true, rpc_)
  else
  ((200 : Nat), false, rpc_)

def rpcGetLeavesByRange (rpcFails : Bool) (mapped : Nat) (fixFails : Bool) : Option Nat :=
  if rpcFails then
    some mapped
  else
  if fixFails then
    some (500 : Nat)
  else
  none

def getEntryAndProof (parseFails : Bool) (leafIndex_ treeSize_ : Int) (rpcErr : Bool) (rpcStatus : Nat) (rootBad : Bool) (rootSize : Int) (leafNil : Bool) (leafValLen : Int) (proofNil : Bool) (nHashes : Int) (marshalFails writeFails : Bool) : Nat × Bool × Bool :=
  let rpc_ := false
  if parseFails then
    ((400 : Nat), true, rpc_)
  else
  let rpc_ := true
  if rpcErr then
    (rpcStatus, true, rpc_)
  else
  if rootBad then
    ((500 : Nat), true, rpc_)
  else
  if (decide (rootSize < (U64.wrap treeSize_))) then
    ((400 : Nat), true, rpc_)
  else
  if ((leafNil || (decide (leafValLen = (0 : Int)))) || proofNil) then
    ((500 : Nat), true, rpc_)
  else
  if ((decide (treeSize_ > (1 : Int))) && (decide (nHashes = (0 : Int)))) then
    ((500 : Nat), true, rpc_)
  else
  if marshalFails then
    ((500 : Nat), true, rpc_)
  else
  if writeFails then
    ((500 : Nat), true, rpc_)
  else
  ((200 : Nat), false, rpc_)

def rpcGetEntryAndProof (rpcFails : Bool) (mapped : Nat) (fixFails : Bool) : Option Nat :=
  if rpcFails then
    some mapped
  else
  if fixFails then
    some (500 : Nat)
  else
  none

def logInfoGetSTH (getterFails : Bool) : ErrKind :=
  if getterFails then
    ErrKind.passthrough
  else
  ErrKind.ok

def logSTHGetterGetSTH (rootFails signFails : Bool) (sigLen : Int) : ErrKind :=
  if rootFails then
    ErrKind.passthrough
  else
  if (signFails || (decide (sigLen = (0 : Int)))) then
    ErrKind.fresh
  else
  ErrKind.ok

def parseBodyAsJSONChain (readFails jsonBad : Bool) (chainLen : Int) : ErrKind :=
  if readFails then
    ErrKind.passthrough
  else
  if jsonBad then
    ErrKind.passthrough
  else
  if (decide (chainLen = (0 : Int))) then
    ErrKind.fresh
  else
  ErrKind.ok

def verifyAddChain (validateFails precertTestFails isPrecert_ expectingPrecert_ : Bool) : ErrKind :=
  if validateFails then
    ErrKind.fresh
  else
  if precertTestFails then
    ErrKind.fresh
  else
  if (decide (isPrecert_ ≠ expectingPrecert_)) then
    ErrKind.fresh
  else
  ErrKind.ok

def checkAuditPath (someWrongSize : Bool) : Bool :=
  if someWrongSize then
    false
  else
  true

def marshalGetEntriesResponse  : ErrKind :=
  ErrKind.ok

def mirrorSTHGetterGetSTH (rootFails storeFails : Bool) : ErrKind :=
  if rootFails then
    ErrKind.passthrough
  else
  if storeFails then
    ErrKind.passthrough
  else
  ErrKind.ok

def getSignedLogRoot (quotaSet quotaBadType rpcFails slrNil rootBad : Bool) (hashLen : Int) : ErrKind × Bool :=
  let rpc_ := false
  if quotaSet then
    if quotaBadType then
      (ErrKind.fresh, rpc_)
    else
    let rpc_ := true
    if rpcFails then
      (ErrKind.passthrough, rpc_)
    else
    if slrNil then
      (ErrKind.fresh, rpc_)
    else
    if rootBad then
      (ErrKind.fresh, rpc_)
    else
    let hashSize_ := hashLen
    if (decide (hashSize_ ≠ (32 : Int))) then
      (ErrKind.fresh, rpc_)
    else
    (ErrKind.ok, rpc_)
  else
  let rpc_ := true
  if rpcFails then
    (ErrKind.passthrough, rpc_)
  else
  if slrNil then
    (ErrKind.fresh, rpc_)
  else
  if rootBad then
    (ErrKind.fresh, rpc_)
  else
  let hashSize_ := hashLen
  if (decide (hashSize_ ≠ (32 : Int))) then
    (ErrKind.fresh, rpc_)
  else
  (ErrKind.ok, rpc_)

end Spec

namespace Gen

theorem serveHTTP_eq_spec : @Gen.serveHTTP = @Spec.serveHTTP := by
  funext methodBad isGet formBad handlerErr statusCode_
  same_kernel Gen.serveHTTP Spec.serveHTTP

theorem addChainInternal_eq_spec : @Gen.addChainInternal = @Spec.addChainInternal := by
  funext bodyBad chainBad leafBuildBad buildFails rpcFails mapped rspNil qlNil leafNil leafUndecodable trailing signFails sctMarshalFails writeFails
  same_kernel Gen.addChainInternal Spec.addChainInternal

theorem getSTHHandler_eq_spec : @Gen.getSTHHandler = @Spec.getSTHHandler := by
  funext sthFails mapped writeFails
  same_kernel Gen.getSTHHandler Spec.getSTHHandler

theorem getSTHConsistency_eq_spec : @Gen.getSTHConsistency = @Spec.getSTHConsistency := by
  funext parseFails first_ second_ rpcFails mapped rootBad rootSize proofNil pathOk marshalFails writeFails
  same_kernel Gen.getSTHConsistency Spec.getSTHConsistency

theorem getProofByHash_eq_spec : @Gen.getProofByHash = @Spec.getProofByHash := by
  funext hashLen hashBad treeSizeBad treeSize_ rpcFails mapped rootBad rootSize nProofs pathOk marshalFails writeFails
  same_kernel Gen.getProofByHash Spec.getProofByHash

theorem getEntries_eq_spec : @Gen.getEntries = @Spec.getEntries := by
  funext parseFails start_ end_ rpcErr rpcStatus rootBad rootSize nLeaves misindexed leafDecodeFails marshalFails writeFails
  same_kernel Gen.getEntries Spec.getEntries

theorem rpcGetLeavesByRange_eq_spec : @Gen.rpcGetLeavesByRange = @Spec.rpcGetLeavesByRange := by
  funext rpcFails mapped fixFails
  same_kernel Gen.rpcGetLeavesByRange Spec.rpcGetLeavesByRange

theorem getEntryAndProof_eq_spec : @Gen.getEntryAndProof = @Spec.getEntryAndProof := by
  funext parseFails leafIndex_ treeSize_ rpcErr rpcStatus rootBad rootSize leafNil leafValLen proofNil nHashes marshalFails writeFails
  same_kernel Gen.getEntryAndProof Spec.getEntryAndProof

theorem rpcGetEntryAndProof_eq_spec : @Gen.rpcGetEntryAndProof = @Spec.rpcGetEntryAndProof := by
  funext rpcFails mapped fixFails
  same_kernel Gen.rpcGetEntryAndProof Spec.rpcGetEntryAndProof

theorem logInfoGetSTH_eq_spec : @Gen.logInfoGetSTH = @Spec.logInfoGetSTH := by
  funext getterFails
  same_kernel Gen.logInfoGetSTH Spec.logInfoGetSTH

theorem logSTHGetterGetSTH_eq_spec : @Gen.logSTHGetterGetSTH = @Spec.logSTHGetterGetSTH := by
  funext rootFails signFails sigLen
  same_kernel Gen.logSTHGetterGetSTH Spec.logSTHGetterGetSTH

theorem parseBodyAsJSONChain_eq_spec : @Gen.parseBodyAsJSONChain = @Spec.parseBodyAsJSONChain := by
  funext readFails jsonBad chainLen
  same_kernel Gen.parseBodyAsJSONChain Spec.parseBodyAsJSONChain

theorem verifyAddChain_eq_spec : @Gen.verifyAddChain = @Spec.verifyAddChain := by
  funext validateFails precertTestFails isPrecert_ expectingPrecert_
  same_kernel Gen.verifyAddChain Spec.verifyAddChain

theorem checkAuditPath_eq_spec : @Gen.checkAuditPath = @Spec.checkAuditPath := by
  funext someWrongSize
  same_kernel Gen.checkAuditPath Spec.checkAuditPath

theorem marshalGetEntriesResponse_eq_spec : Gen.marshalGetEntriesResponse = Spec.marshalGetEntriesResponse := by
  same_kernel Gen.marshalGetEntriesResponse Spec.marshalGetEntriesResponse

theorem mirrorSTHGetterGetSTH_eq_spec : @Gen.mirrorSTHGetterGetSTH = @Spec.mirrorSTHGetterGetSTH := by
  funext rootFails storeFails
  same_kernel Gen.mirrorSTHGetterGetSTH Spec.mirrorSTHGetterGetSTH

theorem getSignedLogRoot_eq_spec : @Gen.getSignedLogRoot = @Spec.getSignedLogRoot := by
  funext quotaSet quotaBadType rpcFails slrNil rootBad hashLen
  same_kernel Gen.getSignedLogRoot Spec.getSignedLogRoot

end Gen
