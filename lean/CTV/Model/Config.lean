import CTV.Gen.Config
import CTV.Basic.Bytes
/-!
Hand model of configuration validation and instance set-up
(trillian/ctfe/config.go `ValidateLogConfig`, `validateConfigs`, `ValidateLogConfigs`,
`BuildLogBackendMap`, `ValidateLogMultiConfig`; trillian/ctfe/instance.go `setUpLogInfo`;
trillian/ctfe/handlers.go `newLogInfo`, `Handlers`; trillian/ctfe/sth.go getters).

Every comparison that the Go code makes on numbers / booleans is a *regenerated* kernel
(`Gen.cfg…`, `Gen.handlerPathsFor`, `Gen.sthGetterSelect`, `Gen.mirrorMaxTreeSize`, tables
`Gen.ekuTable`). What library calls decide
(public-key parse, `Any.UnmarshalNew`, STH verification, DSN parsers, PEM loading, signer
creation) enters as oracle fields that the harness computes with the same library functions.

Strings are byte strings (`CTV.Bytes`): Go compares, prefixes and splits strings bytewise.
The model is panic-free: where the unchanged code indexes out of range / dereferences nil
(finding F9) the model gives the answer of the guarded code (reject, resp. "empty set").
Where the property text is explicit and the unchanged code deviates (connection-string
laxness, names after `Any`, the non-injective tree-id key) the model follows the property;
each such place is marked "Finding" and listed in known_findings.d/C15.json.
Tied to the code by the C15 correspondence run.
-/
namespace CTV.Model.Config
open CTV

/-! ### byte-string helpers (Go `strings.HasPrefix`, `strings.Contains`, `strings.TrimRight`) -/

def hasPrefix : Bytes → Bytes → Bool
  | _, [] => true
  | [], _ :: _ => false
  | a :: s, b :: p => a == b && hasPrefix s p

/-- `strings.Contains(s, sep)` for a non-empty `sep`; `len(strings.Split(s, sep)) ≥ 2` is the same condition. -/
def hasInfix : Bytes → Bytes → Bool
  | [], sep => sep.isEmpty
  | a :: s, sep => hasPrefix (a :: s) sep || hasInfix s sep

/-- cut at the first occurrence of a non-empty `sep`: `(before, after)`; `none` when `sep` does not occur.
`strings.Split(s, sep)` has exactly two elements iff this is `some (a, b)` and `sep` does not occur in `b`. -/
def splitOnce : Bytes → Bytes → Option (Bytes × Bytes)
  | [], _ => none
  | a :: s, sep =>
    if hasPrefix (a :: s) sep then some ([], (a :: s).drop sep.length)
    else match splitOnce s sep with
      | some (h, t) => some (a :: h, t)
      | none => none

def trimRightByte (b : UInt8) (s : Bytes) : Bytes :=
  (s.reverse.dropWhile (· == b)).reverse

def str (s : String) : Bytes := s.toUTF8.toList

/-- decimal digits (`%d`), fuel-bounded so that it reduces by `decide` -/
def decNat : Nat → Nat → Bytes
  | 0, _ => []
  | f+1, n => if n < 10 then [UInt8.ofNat (48 + n)] else decNat f (n / 10) ++ [UInt8.ofNat (48 + n % 10)]

def decInt : Int → Bytes
  | .ofNat n => decNat 20 n
  | .negSucc n => 45 :: decNat 20 (n + 1)

def slash : UInt8 := 47
def sepScheme : Bytes := [58, 47, 47]            -- "://"
def mysqlBytes : Bytes := [109, 121, 115, 113, 108]   -- "mysql"
def postgresBytes : Bytes := [112, 111, 115, 116, 103, 114, 101, 115] -- "postgres"
def postgresqlBytes : Bytes := postgresBytes ++ [113, 108] -- "postgresql"

/-! ### messages -/

/-- google.protobuf.Timestamp -/
structure Timestamp where
  secs : Int
  nanos : Int
deriving Repr, DecidableEq

/-- `timestamppb.Timestamp.CheckValid` (0001-01-01 … 9999-12-31, nanos in [0, 1e9)). -/
def Timestamp.valid (t : Timestamp) : Bool :=
  decide (-62135596800 ≤ t.secs) && decide (t.secs ≤ 253402300799) && decide (0 ≤ t.nanos) && decide (t.nanos < 1000000000)

/-- the instant as nanoseconds (what `AsTime()` denotes; `time.Time.Before` compares these). -/
def Timestamp.ns (t : Timestamp) : Int := t.secs * 1000000000 + t.nanos

/-- a key field: absent / present but rejected by its parser / present and parsed. -/
inductive KeyState | absent | bad | good
deriving Repr, DecidableEq

/-- a signed tree head as get-sth serves it: size, timestamp, root hash, `TreeHeadSignature` bytes -/
structure Sth where
  size : Nat
  ts : Nat := 0
  root : Bytes := []
  sig : Bytes := []
deriving Repr, DecidableEq

/-- what the library says about a frozen STH: `NewSignatureVerifier` accepts the key, `ToSignedTreeHead`
accepts the shape, `VerifySTHSignature` accepts the signature. -/
structure FrozenOracle where
  verifier : Bool
  shape : Bool
  sig : Bool
  /-- the frozen STH of the configuration (uint64 of the signed fields, root hash, signature bytes) -/
  sth : Sth := { size := 0 }
deriving Repr, DecidableEq

structure LogConfig where
  logId : Int
  pfx : Bytes
  pub : KeyState
  priv : KeyState
  isMirror : Bool
  isReadonly : Bool
  rejectExpired : Bool
  rejectUnexpired : Bool
  ekus : List String
  start : Option Timestamp
  limit : Option Timestamp
  mmd : Int
  emd : Int
  frozen : Option FrozenOracle
  storage : Int
  conn : Bytes
  /-- oracle: `mysql.ParseDSN(strings.Split(conn, "://")[1])` succeeded (meaningful when that part exists) -/
  dsnOk : Bool
  /-- oracle: `pgconn.ParseConfig(conn)` succeeded -/
  pgOk : Bool
  backend : Bytes
deriving Repr, DecidableEq

inductive Reject
  | logId | pubKey | mirrorNoPub | frozenNoPub | noPriv | badPriv | mirrorPriv | rejectAll | eku
  | startTs | limitTs | window | mergeDelay | verifier | sthShape | sthSig | connMissing | connMysql | connPg | connDriver
  | emptyPrefix | dupPrefix | dupTree | backendName | backendSpec | dupBackendName | dupBackendSpec | undefinedBackend
deriving Repr, DecidableEq

instance instDecEqExcept {ε α} [DecidableEq ε] [DecidableEq α] : DecidableEq (Except ε α) := fun a b =>
  match a, b with
  | .ok x, .ok y => if h : x = y then isTrue (h ▸ rfl) else isFalse (fun e => by cases e; exact h rfl)
  | .error x, .error y => if h : x = y then isTrue (h ▸ rfl) else isFalse (fun e => by cases e; exact h rfl)
  | .ok _, .error _ => isFalse (fun e => by cases e)
  | .error _, .ok _ => isFalse (fun e => by cases e)

/-! ### ValidateLogConfig -/

def ekuIsAny (n : String) : Bool := Gen.ekuTable.lookup n == some "x509.ExtKeyUsageAny"
def ekuKnown (n : String) : Bool := (Gen.ekuTable.lookup n).isSome

/-- the EKU filter of the validated configuration (`ValidatedLogConfig.KeyUsages`, handed unchanged to the instance's
`CertValidationOpts.extKeyUsages`): none when "Any" is listed anywhere in the list, else the listed usages in order (the constants'
names, by the regenerated table) -/
def ekuFilter (names : List String) : List String :=
  if names.any ekuIsAny then [] else names.filterMap (fun n => Gen.ekuTable.lookup n)

/-- the EKU list is acceptable when every name is in the table ("only known EKU names").
(Finding: the unchanged loop stops looking at the first `Any`, so unknown names after it pass.) -/
def ekusOk (l : List String) : Bool := l.all ekuKnown

/-- `len(strings.Split(conn, "://"))`, as far as the validator distinguishes it: 1 (no separator), 2, or 3 standing
for "three or more". -/
def connParts (conn : Bytes) : Nat :=
  match splitOnce conn sepScheme with
  | none => 1
  | some (_, rest) => if hasInfix rest sepScheme then 3 else 2

/-- which parser the regenerated `switch conn[0]` sends a scheme to -/
def schemeParser (scheme : Bytes) : Option String := Gen.connSchemes.lookup scheme

/-- a usable connection string: exactly one `://` (the regenerated guard `Gen.cfgConnPartsBad`), a scheme of the
regenerated `switch conn[0]` (`Gen.connSchemes`) and a data source name its driver parses — what
`storage/mysql.open` and `storage/postgresql.open` insist on. -/
def connOk (c : LogConfig) : Except Reject Unit :=
  if Gen.cfgConnMissing c.conn.length then .error .connMissing
  else if Gen.cfgConnPartsBad (connParts c.conn) then .error .connDriver
  else match splitOnce c.conn sepScheme with
    | none => .error .connDriver
    | some (scheme, _) =>
      match schemeParser scheme with
      | some "mysql" => if c.dsnOk then .ok () else .error .connMysql
      | some "pg" => if c.pgOk then .ok () else .error .connPg
      | _ => .error .connDriver

def tsOk : Option Timestamp → Bool
  | none => true
  | some t => t.valid

def nsOf : Option Timestamp → Int
  | none => 0
  | some t => t.ns

/-- first rejecting check of a list of (rejecting condition, reason) pairs, in order. -/
def firstErr : List (Bool × Reject) → Except Reject Unit
  | [] => .ok ()
  | (b, r) :: rest => if b then .error r else firstErr rest

/-- the checks of `ValidateLogConfig` before the storage switch, in the order of the code; each entry is the
condition under which that `return nil, err` is taken (given that the earlier ones were not). -/
def rejections (c : LogConfig) : List (Bool × Reject) :=
  [ (Gen.cfgEmptyLogId c.logId, .logId),
    (c.pub == .bad, .pubKey),
    (c.pub == .absent && c.isMirror, .mirrorNoPub),
    (c.pub == .absent && !c.isMirror && c.frozen.isSome, .frozenNoPub),
    (!c.isMirror && c.priv == .absent, .noPriv),
    (!c.isMirror && c.priv == .bad, .badPriv),
    (c.isMirror && c.priv != .absent, .mirrorPriv),
    (Gen.cfgRejectsAll c.rejectExpired c.rejectUnexpired, .rejectAll),
    (!ekusOk c.ekus, .eku),
    (!tsOk c.start, .startTs),
    (!tsOk c.limit, .limitTs),
    (Gen.cfgLimitBeforeStart c.start.isSome c.limit.isSome (nsOf c.start) (nsOf c.limit), .window),
    (Gen.cfgMergeDelayBad c.mmd c.emd, .mergeDelay),
    (c.frozen.any (fun f => !f.verifier), .verifier),
    (c.frozen.any (fun f => !f.shape), .sthShape),
    (c.frozen.any (fun f => !f.sig), .sthSig) ]

def validate (c : LogConfig) : Except Reject Unit :=
  match firstErr (rejections c) with
  | .error e => .error e
  | .ok () => if c.storage = Gen.storageBackendCtfe then connOk c else .ok ()

def accepts (c : LogConfig) : Bool := (validate c).isOk

/-! ### validateConfigs / ValidateLogConfigs -/

def validateConfigsAux : List Bytes → List LogConfig → Except Reject Unit
  | _, [] => .ok ()
  | seen, c :: cs =>
    match validate c with
    | .error e => .error e
    | .ok () =>
      if Gen.prefixEmpty c.pfx.length then .error .emptyPrefix
      else if seen.contains c.pfx then .error .dupPrefix
      else validateConfigsAux (c.pfx :: seen) cs

def validateConfigs (l : List LogConfig) : Except Reject Unit := validateConfigsAux [] l

def dupFree {α} [BEq α] : List α → List α → Bool
  | _, [] => true
  | seen, a :: as => !seen.contains a && dupFree (a :: seen) as

def validateLogConfigs (l : List LogConfig) : Except Reject Unit :=
  match validateConfigs l with
  | .error e => .error e
  | .ok () => if dupFree [] (l.map (·.logId)) then .ok () else .error .dupTree

/-! ### BuildLogBackendMap / ValidateLogMultiConfig -/

structure Backend where
  name : Bytes
  spec : Bytes
deriving Repr, DecidableEq

def buildBackendMapAux : List Bytes → List Bytes → List Backend → Except Reject (List Bytes)
  | names, _, [] => .ok names.reverse
  | names, specs, b :: bs =>
    if Gen.backendNameEmpty b.name.length then .error .backendName
    else if Gen.backendSpecEmpty b.spec.length then .error .backendSpec
    else if names.contains b.name then .error .dupBackendName
    else if specs.contains b.spec then .error .dupBackendSpec
    else buildBackendMapAux (b.name :: names) (b.spec :: specs) bs

/-- the key set of the returned map (in insertion order). -/
def buildBackendMap (bs : List Backend) : Except Reject (List Bytes) := buildBackendMapAux [] [] bs

def refsAux (names : List Bytes) : List (Bytes × Int) → List LogConfig → Except Reject Unit
  | _, [] => .ok ()
  | seen, c :: cs =>
    if !names.contains c.backend then .error .undefinedBackend
    else if seen.contains (c.backend, c.logId) then .error .dupTree
    else refsAux names ((c.backend, c.logId) :: seen) cs

/-- `ValidateLogMultiConfig`. Tree ids are unique per backend: the key is the pair (backend name, tree id).
(Finding: the unchanged code keys on `fmt.Sprintf("%s-%d", name, id)`, which is not injective — see `sprintfKey`.)
An absent `Backends` / `LogConfigs` sub-message is the empty list (F9: the unchanged code dereferences nil). -/
def validateMulti (bs : List Backend) (l : List LogConfig) : Except Reject (List Bytes) :=
  match buildBackendMap bs with
  | .error e => .error e
  | .ok names =>
    match validateConfigs l with
    | .error e => .error e
    | .ok () =>
      match refsAux names [] l with
      | .error e => .error e
      | .ok () => .ok names

/-- the unchanged code's key: backend name, `-`, decimal tree id. -/
def sprintfKey (name : Bytes) (id : Int) : Bytes := name ++ [45] ++ decInt id

/-! ### Handlers -/

/-- prefix normalisation of `Handlers`: leading `/` added when missing, all trailing `/` removed. -/
def normPrefix (p : Bytes) : Bytes :=
  trimRightByte slash (if hasPrefix p [slash] then p else slash :: p)

/-- the endpoint paths served for a configuration (regenerated from `Handlers`: the literal plus what is conditionally
added to / deleted from it) -/
def endpoints (c : LogConfig) : List String := Gen.handlerPathsFor c.isReadonly c.isMirror

def handlersOf (c : LogConfig) : List Bytes := (endpoints c).map fun p => normPrefix c.pfx ++ str p

/-! ### setUpLogInfo / SetUpInstance -/

structure SetupOracle where
  nRoots : Nat
  /-- every roots file loads -/
  rootsLoad : Bool
  /-- `keys.NewSigner` succeeds on the private key -/
  signerOk : Bool
  /-- the configured public key is of a supported type and equals the signer's -/
  pubConsistent : Bool
  /-- `parseOIDs(reject_extensions)` succeeds -/
  oidsOk : Bool
  /-- external chain storage: the storage package opens its database handle (when it cannot, the *process exits*:
  `klog.Exitf` in `storage/{mysql,postgresql}.NewIssuanceChainStorage`; the model has no instance then) -/
  dbOpens : Bool := true
  /-- external chain storage: `cache.NewIssuanceChainCache(type, option)` succeeds -/
  cacheOk : Bool := true
deriving Repr, DecidableEq

structure Instance where
  paths : List String
  keys : List Bytes
  /-- 0 frozen, 1 mirror, 2 log -/
  getter : Nat
  frozen : Sth
  /-- chains are stored outside the backend (indirect issuance chain service) -/
  external : Bool := false
deriving Repr, DecidableEq

/-- `SetUpInstance` on a validated configuration, for both chain-storage backends. -/
def setUp (c : LogConfig) (o : SetupOracle) : Option Instance :=
  if Gen.setupNeedsRoots c.isMirror o.nRoots then none
  else if !o.rootsLoad then none
  else if !c.isMirror && !o.signerOk then none
  else if !c.isMirror && c.pub == .good && !o.pubConsistent then none
  else if !o.oidsOk then none
  else
    let inst (ext : Bool) : Instance :=
      { paths := endpoints c, keys := handlersOf c,
        getter := Gen.sthGetterSelect c.frozen.isSome c.isMirror,
        frozen := (c.frozen.map (·.sth)).getD { size := 0 }, external := ext }
    if c.storage = Gen.storageBackendTrillian then some (inst false)
    else if c.storage = Gen.storageBackendCtfe then (if o.dbOpens && o.cacheOk then some (inst true) else none)
    else none

/-! ### get-sth -/

/-- the three STH getters. `backend` is the backend's latest root as get-sth would show it (size, timestamp in ms,
root hash; `none`: the RPC or the root check failed); `storage` is the mirror's STH storage (`none`: error);
`sign`: the signature over that tree head (`none`: signing failed). -/
def serveSth (inst : Instance) (backend : Option Sth) (storage : Int → Option Sth) (sign : Option Bytes) : Option Sth :=
  match inst.getter with
  | 0 => some inst.frozen
  | 1 =>
    match backend with
    | none => none
    | some b => storage (Gen.mirrorMaxTreeSize b.size)
  | _ =>
    match backend, sign with
    | some b, some sg => some { b with sig := sg }
    | _, _ => none

end CTV.Model.Config
