import CTV.Basic.Bytes
import CTV.Gen.AddChain
/-!
# Model of add-chain / add-pre-chain after chain validation (C01)

`trillian/ctfe/handlers.go` `addChainInternal` from the validated path on: entry derivation
(`serialization.go` `MerkleTreeLeafFromChain`), leaf / extra data / identity hash
(`trillian/util/log_leaf.go` `buildLogLeaf`), `QueueLeaf` against a **de-duplicating backend**, SCT from
the *returned* leaf (`serialize.go` `buildV1SCT`), log id (`structures.go` `GetCTLogID`).

The byte layouts in section `Rfc` are written directly from RFC 6962 §3.2–§3.4 and §4.1 (not from the
repository's struct tags); the model uses them, and the C01 correspondence run compares every byte with
what the real handler queued and signed.  The hash `H`, the signer and the precertificate TBS
transformation (`x509.BuildPrecertTBS`, property C03) are parameters.
-/
namespace CTV.Model.AddChain
open CTV

/-! ### RFC 6962 layouts -/
section Rfc

/-- `opaque x<…2^(8w)-1>`: `w`-byte big-endian length, then the bytes. -/
def vec (w : Nat) (b : Bytes) : Bytes := beEnc w b.length ++ b

/-- The `signed_entry` of a `TimestampedEntry` / of the SCT signature input (§3.2, §3.4). -/
inductive Entry where
  /-- `x509_entry`: `ASN.1Cert` = `opaque<1..2^24-1>` -/
  | x509 (der : Bytes)
  /-- `precert_entry`: `PreCert { opaque issuer_key_hash[32]; TBSCertificate tbs_certificate<1..2^24-1> }` -/
  | precert (issuerKeyHash : Bytes) (tbs : Bytes)
deriving DecidableEq, Repr

/-- `LogEntryType`: `x509_entry(0)`, `precert_entry(1)`, two bytes on the wire. -/
def Entry.type : Entry → Nat
  | .x509 _ => 0
  | .precert _ _ => 1

def Entry.signedEntry : Entry → Bytes
  | .x509 der => vec 3 der
  | .precert ikh tbs => ikh ++ vec 3 tbs

/-- The ranges the RFC gives the fields. -/
def Entry.wf : Entry → Prop
  | .x509 der => 1 ≤ der.length ∧ der.length < 2 ^ 24
  | .precert ikh tbs => ikh.length = 32 ∧ 1 ≤ tbs.length ∧ tbs.length < 2 ^ 24

instance (e : Entry) : Decidable e.wf := by cases e <;> unfold Entry.wf <;> infer_instance

/-- §3.4 `TimestampedEntry`: `uint64 timestamp; LogEntryType entry_type; signed_entry; CtExtensions extensions<0..2^16-1>`. -/
def timestampedEntry (ts : Nat) (e : Entry) (ext : Bytes) : Bytes :=
  beEnc 8 ts ++ beEnc 2 e.type ++ e.signedEntry ++ vec 2 ext

/-- §3.4 `MerkleTreeLeaf`: `Version version = v1(0); MerkleLeafType leaf_type = timestamped_entry(0); TimestampedEntry`. -/
def merkleTreeLeaf (ts : Nat) (e : Entry) (ext : Bytes) : Bytes := [0, 0] ++ timestampedEntry ts e ext

/-- §3.2 the `digitally-signed struct` of an SCT: `Version sct_version = v1(0); SignatureType signature_type =
certificate_timestamp(0); uint64 timestamp; LogEntryType entry_type; signed_entry; CtExtensions extensions`. -/
def sctSigInput (ts : Nat) (e : Entry) (ext : Bytes) : Bytes :=
  [0, 0] ++ beEnc 8 ts ++ beEnc 2 e.type ++ e.signedEntry ++ vec 2 ext

/-- §4.1 / §3.1 `ASN.1Cert certificate_chain<0..2^24-1>`. -/
def certChain (cs : List Bytes) : Bytes := vec 3 (cs.flatMap (vec 3))

/-- §3.1 `PrecertChainEntry { ASN.1Cert pre_certificate; ASN.1Cert precertificate_chain<0..2^24-1> }`. -/
def precertChainEntry (pre : Bytes) (cs : List Bytes) : Bytes := vec 3 pre ++ certChain cs

/-- `tls.Marshal` of the extra data succeeds exactly when every `ASN.1Cert` is within `1..2^24-1` bytes and the whole
`certificate_chain` vector fits its 3-byte length. -/
def certOK (d : Bytes) : Prop := 1 ≤ d.length ∧ d.length < 2 ^ 24
instance (d : Bytes) : Decidable (certOK d) := by unfold certOK; infer_instance

def encodeChain (cs : List Bytes) : Option Bytes :=
  if (∀ d ∈ cs, certOK d) ∧ (cs.flatMap (vec 3)).length < 2 ^ 24 then some (certChain cs) else none

def encodeExtra (isPrecert : Bool) (leaf : Bytes) (cs : List Bytes) : Option Bytes :=
  if isPrecert then
    if certOK leaf then (encodeChain cs).map (vec 3 leaf ++ ·) else none
  else encodeChain cs

end Rfc

/-! ### decoding the leaf the backend returns (`tls.Unmarshal(…, &loggedLeaf)`, no trailing bytes) -/

/-- Read a `w`-byte length and that many bytes. -/
def readOpaque (w : Nat) (b : Bytes) : Option (Bytes × Bytes) :=
  if b.length < w then none
  else
    let n := beDec (b.take w)
    let r := b.drop w
    if r.length < n then none else some (r.take n, r.drop n)

def decodeEntry (typ : Nat) (b : Bytes) : Option (Entry × Bytes) :=
  if typ = 0 then
    match readOpaque 3 b with
    | some (der, rest) => if der.length < 1 then none else some (.x509 der, rest)
    | none => none
  else if typ = 1 then
    if b.length < 32 then none else
    match readOpaque 3 (b.drop 32) with
    | some (tbs, rest) => if tbs.length < 1 then none else some (.precert (b.take 32) tbs, rest)
    | none => none
  else none

/-- `MerkleTreeLeaf` → (timestamp, entry, extensions); `none` for anything else, trailing bytes included. -/
def decodeLeaf (b : Bytes) : Option (Nat × Entry × Bytes) :=
  match b with
  | 0 :: 0 :: r =>
    if r.length < 10 then none else
    let ts := beDec (r.take 8)
    let typ := beDec ((r.drop 8).take 2)
    match decodeEntry typ (r.drop 10) with
    | some (e, r2) =>
      match readOpaque 2 r2 with
      | some (ext, []) => some (ts, e, ext)
      | _ => none
    | none => none
  | _ => none

/-- `count` certificates, each a 3-byte length and that many bytes, nothing left over. -/
def decodeCerts : Nat → Bytes → Option (List Bytes)
  | 0, [] => some []
  | 0, _ :: _ => none
  | n + 1, b =>
    match readOpaque 3 b with
    | some (d, rest) => (decodeCerts n rest).map (d :: ·)
    | none => none

/-! ### the handler -/

/-- What the handler reads of a certificate of the validated path. -/
structure Cert where
  der : Bytes
  /-- `RawSubjectPublicKeyInfo` -/
  spki : Bytes
  /-- `RawTBSCertificate` -/
  tbs : Bytes
  /-- carries the Certificate Transparency extended key usage (`ct.IsPreIssuer`) -/
  isPreIssuer : Bool
deriving DecidableEq, Repr

/-- An abstract signature scheme: private keys, their public keys, the DER SubjectPublicKeyInfo of a public key
(`x509.MarshalPKIXPublicKey`), the Go type of a public key (what `tls.SignatureAlgorithmFromPubKey` switches on),
signing a digest with a private key, verifying with the public key — and the one fact assumed of it. -/
structure KeyScheme where
  Priv : Type
  Pub : Type
  pub : Priv → Pub
  spkiOf : Pub → Bytes
  kind : Pub → String
  sign : Priv → Bytes → Bytes
  verify : Pub → Bytes → Bytes → Bool
  correct : ∀ k d, verify (pub k) d (sign k d) = true

/-- Parameters: the hash, the scheme and **the one log key** `k` (the `crypto.Signer` of the instance: the SCT is
signed with it and the log id is computed from its public half), and `x509.BuildPrecertTBS tbs preIssuer`
(`none` = it fails; property C03). -/
structure Cfg where
  H : Bytes → Bytes
  K : KeyScheme
  k : K.Priv
  deTBS : Bytes → Option Cert → Option Bytes

/-- `ct.MerkleTreeLeafFromChain(chain, etype, …)`: the entry for the validated path.  Every guard, the entry-type
selection and every chain position are the regenerated `Gen.mtl*` / `Gen.etypeOf`. -/
def entryOf (cfg : Cfg) (path : List Cert) (isPrecert : Bool) : Option Entry :=
  let etype := Gen.etypeOf isPrecert
  let n : Int := path.length
  if Gen.mtlEmpty n then none
  else if Gen.mtlIsX509 etype then (path[Gen.mtlX509Idx]?).map fun c => .x509 c.der
  else if Gen.mtlNotPrecert etype then none
  else if Gen.mtlNoIssuer n then none
  else
    match path[Gen.mtlPrecertIdx]?, path[Gen.mtlIssuerIdx]? with
    | some cert, some issuer =>
      if Gen.mtlIsPreIssuer issuer.isPreIssuer then
        if Gen.mtlNoFinalIssuer n then none
        else match path[Gen.mtlFinalIssuerIdx]? with
          | some final => (cfg.deTBS cert.tbs (some issuer)).map (.precert (cfg.H final.spki))
          | none => none
      else (cfg.deTBS cert.tbs none).map (.precert (cfg.H issuer.spki))
    | _, _ => none

/-- `tls.Marshal(merkleLeaf)` succeeds exactly within the field ranges. -/
def encodeLeaf (ts : Nat) (e : Entry) (ext : Bytes) : Option Bytes :=
  if ts < 2 ^ 64 ∧ e.wf ∧ ext.length < 2 ^ 16 then some (merkleTreeLeaf ts e ext) else none

/-- A leaf as the backend holds it. -/
structure Stored where
  idHash : Bytes
  leafValue : Bytes
  extraData : Bytes
deriving DecidableEq, Repr

abbrev State := List Stored

def State.find (st : State) (h : Bytes) : Option Stored := List.find? (fun s => s.idHash == h) st

/-- `QueueLeaf` on a de-duplicating backend: an already known identity hash returns the stored leaf. -/
def queueLeaf (st : State) (l : Stored) : Stored × State :=
  match st.find l.idHash with
  | some old => (old, st)
  | none => (l, st ++ [l])

structure Sct where
  version : Nat
  logID : Bytes
  timestamp : Nat
  extensions : Bytes
  /-- `DigitallySigned.Algorithm`: hash and signature algorithm codes -/
  hashAlg : Nat
  sigAlg : Nat
  /-- the digest handed to the signer and the signature it returned -/
  signedDigest : Bytes
  signature : Bytes
deriving DecidableEq, Repr

inductive Rsp where
  | ok (sct : Sct) (queued : Stored)
  | bad (status : Nat) (queued : Option Stored)
deriving DecidableEq, Repr

/-- `tls.SignatureAlgorithmFromPubKey` (regenerated type switch). -/
def sigAlgOf (kind : String) : Nat := (Gen.sigAlgOfKey.lookup kind).getD Gen.sigAlgOfKeyDefault

/-- `addChainInternal` from the validated path on; `nowNanos` is `TimeSource.Now().UnixNano()` (an int64). -/
def addChain (cfg : Cfg) (st : State) (nowNanos : Int) (path : List Cert) (isPrecert : Bool) : Rsp × State :=
  let now := (Gen.timeMillis nowNanos).toNat
  match entryOf cfg path isPrecert with
  | none => (.bad 400 none, st)
  | some e =>
    match path[Gen.leafCertIdx]? with
    | none => (.bad 400 none, st)      -- unreachable after `entryOf`: the path is not empty
    | some leaf =>
      match encodeLeaf now e [], encodeExtra isPrecert leaf.der ((path.drop Gen.extraFromIdx).map (·.der)) with
      | some lv, some extra =>
        let q : Stored := ⟨cfg.H leaf.der, lv, extra⟩
        let (ret, st') := queueLeaf st q
        match decodeLeaf ret.leafValue with
        | none => (.bad 500 (some q), st')
        | some (ts, e', ext) =>
          let digest := cfg.H (sctSigInput ts e' ext)
          let pk := cfg.K.pub cfg.k
          (.ok ⟨0, cfg.H (cfg.K.spkiOf pk), ts, ext, Gen.tlsSHA256.toNat, sigAlgOf (cfg.K.kind pk), digest, cfg.K.sign cfg.k digest⟩ q, st')
      | _, _ => (.bad 500 none, st)

/-- A history of submissions. -/
structure Submit where
  /-- the clock at the request, in int64 nanoseconds -/
  now : Int
  path : List Cert
  isPrecert : Bool

def run (cfg : Cfg) : State → List Submit → List Rsp × State
  | st, [] => ([], st)
  | st, s :: rest =>
    let (r, st') := addChain cfg st s.now s.path s.isPrecert
    let (rs, st'') := run cfg st' rest
    (r :: rs, st'')

end CTV.Model.AddChain
