import CTV.Basic.Bytes
/-!
# Model of add-chain / add-pre-chain after chain validation (C01)

`trillian/ctfe/handlers.go` `addChainInternal` from the validated path on: entry derivation
(`serialization.go` `MerkleTreeLeafFromChain`), leaf / extra data / identity hash
(`trillian/util/log_leaf.go` `buildLogLeaf`), `QueueLeaf` against a **de-duplicating backend**, SCT from
the *returned* leaf (`serialize.go` `buildV1SCT`), log id (`structures.go` `GetCTLogID`).

The byte layouts in section `Rfc` are written directly from RFC 6962 §3.2–§3.4 and §4.1 (not from the
repository's struct tags); the model uses them, and the C01 correspondence run compares every byte with
what the real handler queued and signed.  The hash `H`, the signer and the precertificate TBS
transformation (`x509.BuildPrecertTBS`, property C03) are parameters.
-/
namespace CTV.Model.AddChain
open CTV

/-! ### RFC 6962 layouts -/
section Rfc

/-- `opaque x<…2^(8w)-1>`: `w`-byte big-endian length, then the bytes. -/
def vec (w : Nat) (b : Bytes) : Bytes := beEnc w b.length ++ b

/-- The `signed_entry` of a `TimestampedEntry` / of the SCT signature input (§3.2, §3.4). -/
inductive Entry where
  /-- `x509_entry`: `ASN.1Cert` = `opaque<1..2^24-1>` -/
  | x509 (der : Bytes)
  /-- `precert_entry`: `PreCert { opaque issuer_key_hash[32]; TBSCertificate tbs_certificate<1..2^24-1> }` -/
  | precert (issuerKeyHash : Bytes) (tbs : Bytes)
deriving DecidableEq, Repr

/-- `LogEntryType`: `x509_entry(0)`, `precert_entry(1)`, two bytes on the wire. -/
def Entry.type : Entry → Nat
  | .x509 _ => 0
  | .precert _ _ => 1

def Entry.signedEntry : Entry → Bytes
  | .x509 der => vec 3 der
  | .precert ikh tbs => ikh ++ vec 3 tbs

/-- The ranges the RFC gives the fields. -/
def Entry.wf : Entry → Prop
  | .x509 der => 1 ≤ der.length ∧ der.length < 2 ^ 24
  | .precert ikh tbs => ikh.length = 32 ∧ 1 ≤ tbs.length ∧ tbs.length < 2 ^ 24

instance (e : Entry) : Decidable e.wf := by cases e <;> unfold Entry.wf <;> infer_instance

/-- §3.4 `TimestampedEntry`: `uint64 timestamp; LogEntryType entry_type; signed_entry; CtExtensions extensions<0..2^16-1>`. -/
def timestampedEntry (ts : Nat) (e : Entry) (ext : Bytes) : Bytes :=
  beEnc 8 ts ++ beEnc 2 e.type ++ e.signedEntry ++ vec 2 ext

/-- §3.4 `MerkleTreeLeaf`: `Version version = v1(0); MerkleLeafType leaf_type = timestamped_entry(0); TimestampedEntry`. -/
def merkleTreeLeaf (ts : Nat) (e : Entry) (ext : Bytes) : Bytes := [0, 0] ++ timestampedEntry ts e ext

/-- §3.2 the `digitally-signed struct` of an SCT: `Version sct_version = v1(0); SignatureType signature_type =
certificate_timestamp(0); uint64 timestamp; LogEntryType entry_type; signed_entry; CtExtensions extensions`. -/
def sctSigInput (ts : Nat) (e : Entry) (ext : Bytes) : Bytes :=
  [0, 0] ++ beEnc 8 ts ++ beEnc 2 e.type ++ e.signedEntry ++ vec 2 ext

/-- §4.1 / §3.1 `ASN.1Cert certificate_chain<0..2^24-1>`. -/
def certChain (cs : List Bytes) : Bytes := vec 3 (cs.flatMap (vec 3))

/-- §3.1 `PrecertChainEntry { ASN.1Cert pre_certificate; ASN.1Cert precertificate_chain<0..2^24-1> }`. -/
def precertChainEntry (pre : Bytes) (cs : List Bytes) : Bytes := vec 3 pre ++ certChain cs

end Rfc

/-! ### decoding the leaf the backend returns (`tls.Unmarshal(…, &loggedLeaf)`, no trailing bytes) -/

/-- Read a `w`-byte length and that many bytes. -/
def readOpaque (w : Nat) (b : Bytes) : Option (Bytes × Bytes) :=
  if b.length < w then none
  else
    let n := beDec (b.take w)
    let r := b.drop w
    if r.length < n then none else some (r.take n, r.drop n)

def decodeEntry (typ : Nat) (b : Bytes) : Option (Entry × Bytes) :=
  if typ = 0 then
    match readOpaque 3 b with
    | some (der, rest) => if der.length < 1 then none else some (.x509 der, rest)
    | none => none
  else if typ = 1 then
    if b.length < 32 then none else
    match readOpaque 3 (b.drop 32) with
    | some (tbs, rest) => if tbs.length < 1 then none else some (.precert (b.take 32) tbs, rest)
    | none => none
  else none

/-- `MerkleTreeLeaf` → (timestamp, entry, extensions); `none` for anything else, trailing bytes included. -/
def decodeLeaf (b : Bytes) : Option (Nat × Entry × Bytes) :=
  match b with
  | 0 :: 0 :: r =>
    if r.length < 10 then none else
    let ts := beDec (r.take 8)
    let typ := beDec ((r.drop 8).take 2)
    match decodeEntry typ (r.drop 10) with
    | some (e, r2) =>
      match readOpaque 2 r2 with
      | some (ext, []) => some (ts, e, ext)
      | _ => none
    | none => none
  | _ => none

/-! ### the handler -/

/-- What the handler reads of a certificate of the validated path. -/
structure Cert where
  der : Bytes
  /-- `RawSubjectPublicKeyInfo` -/
  spki : Bytes
  /-- `RawTBSCertificate` -/
  tbs : Bytes
  /-- carries the Certificate Transparency extended key usage (`ct.IsPreIssuer`) -/
  isPreIssuer : Bool
deriving DecidableEq, Repr

/-- Parameters: the hash, the log key (its SubjectPublicKeyInfo and an abstract signing function over the
digest) and `x509.BuildPrecertTBS tbs preIssuer` (`none` = it fails). -/
structure Cfg where
  H : Bytes → Bytes
  logSPKI : Bytes
  sign : Bytes → Bytes
  deTBS : Bytes → Option Cert → Option Bytes

/-- `ct.MerkleTreeLeafFromChain`: the entry for the validated path. -/
def entryOf (cfg : Cfg) (path : List Cert) (isPrecert : Bool) : Option Entry :=
  match path, isPrecert with
  | leaf :: _, false => some (.x509 leaf.der)
  | leaf :: issuer :: more, true =>
    if issuer.isPreIssuer then
      match more with
      | final :: _ => (cfg.deTBS leaf.tbs (some issuer)).map (.precert (cfg.H final.spki))
      | [] => none
    else (cfg.deTBS leaf.tbs none).map (.precert (cfg.H issuer.spki))
  | _, _ => none

/-- `tls.Marshal(merkleLeaf)` succeeds exactly within the field ranges. -/
def encodeLeaf (ts : Nat) (e : Entry) (ext : Bytes) : Option Bytes :=
  if ts < 2 ^ 64 ∧ e.wf ∧ ext.length < 2 ^ 16 then some (merkleTreeLeaf ts e ext) else none

/-- A leaf as the backend holds it. -/
structure Stored where
  idHash : Bytes
  leafValue : Bytes
  extraData : Bytes
deriving DecidableEq, Repr

abbrev State := List Stored

def State.find (st : State) (h : Bytes) : Option Stored := List.find? (fun s => s.idHash == h) st

/-- `QueueLeaf` on a de-duplicating backend: an already known identity hash returns the stored leaf. -/
def queueLeaf (st : State) (l : Stored) : Stored × State :=
  match st.find l.idHash with
  | some old => (old, st)
  | none => (l, st ++ [l])

structure Sct where
  version : Nat
  logID : Bytes
  timestamp : Nat
  extensions : Bytes
  /-- the digest handed to the signer and the signature it returned -/
  signedDigest : Bytes
  signature : Bytes
deriving DecidableEq, Repr

inductive Rsp where
  | ok (sct : Sct) (queued : Stored)
  | bad (status : Nat) (queued : Option Stored)
deriving DecidableEq, Repr

/-- `addChainInternal` from the validated path on; `now` is `TimeSource.Now()` in milliseconds. -/
def addChain (cfg : Cfg) (st : State) (now : Nat) (path : List Cert) (isPrecert : Bool) : Rsp × State :=
  match path with
  | [] => (.bad 400 none, st)
  | leaf :: chain =>
    match entryOf cfg path isPrecert with
    | none => (.bad 400 none, st)
    | some e =>
      match encodeLeaf now e [] with
      | none => (.bad 500 none, st)
      | some lv =>
        let extra := if isPrecert then precertChainEntry leaf.der (chain.map (·.der)) else certChain (chain.map (·.der))
        let q : Stored := ⟨cfg.H leaf.der, lv, extra⟩
        let (ret, st') := queueLeaf st q
        match decodeLeaf ret.leafValue with
        | none => (.bad 500 (some q), st')
        | some (ts, e', ext) =>
          let digest := cfg.H (sctSigInput ts e' ext)
          (.ok ⟨0, cfg.H cfg.logSPKI, ts, ext, digest, cfg.sign digest⟩ q, st')

/-- A history of submissions. -/
structure Submit where
  now : Nat
  path : List Cert
  isPrecert : Bool

def run (cfg : Cfg) : State → List Submit → List Rsp × State
  | st, [] => ([], st)
  | st, s :: rest =>
    let (r, st') := addChain cfg st s.now s.path s.isPrecert
    let (rs, st'') := run cfg st' rest
    (r :: rs, st'')

end CTV.Model.AddChain
