import CTV.Gen.Temporal
/-! Hand model of `NewTemporalLogClient`'s construction loop around the regenerated step and `shardInterval` check
(client/multilog.go). Instants are `Int` nanoseconds; an absent bound is `none`. -/
namespace CTV.Model

abbrev Shard := Option Int × Option Int

def temporalGo : Option Int → List Shard → Bool
  | _, [] => true
  | ou, s :: r =>
    if Gen.shardIntervalInverted s.1 s.2 then false
    else match Gen.temporalStep ou s.1 s.2 with
      | none => false
      | some ou' => temporalGo ou' r

/-- `true` = a client is constructed (its intervals are the shards' intervals, in order). -/
def newTemporal : List Shard → Bool
  | [] => false
  | s0 :: r => if Gen.shardIntervalInverted s0.1 s0.2 then false else temporalGo s0.2 r

end CTV.Model
