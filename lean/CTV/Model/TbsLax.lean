import CTV.Model.Tbs
/-!
What the asn1 fork does with **every** TBSCertificate it accepts — canonical or not (audit item C03/1).

`asn1.Unmarshal(tbsData, &tbs)` walks the fields one after the other (`parseField`), tolerates a number of non-canonical
forms and drops or rewrites them when the struct is marshalled again:
* `[0] { INTEGER 0 }` (explicit v1) is dropped (`default:0`); the *length* of the `[0]` / `[3]` wrappers is never looked at;
* trailing bytes at the end of a SEQUENCE that maps to a struct are ignored (AlgorithmIdentifier, Validity, Extension,
  SubjectPublicKeyInfo, TBSCertificate itself, and anything after the inner SEQUENCE of `[3]`);
* an explicit `critical FALSE` is dropped; UTCTime without seconds gets `00`; GeneralizedTime in 1950..2049 becomes UTCTime;
* (before the fix of F11a) padded base-128 arcs are re-encoded minimally;
* a `[3]` whose content is not a SEQUENCE, or any other element where `[3]` could stand, is ignored (OPTIONAL), except that an
  element header that ends the data is the error "explicit tag has no child".

`laxTbs bs` is the *content* Go holds after the unmarshal, in the normal form it marshals: `marshalTbs <$> laxTbs bs` is what
unmarshal→marshal returns, and `bs` is canonical (`parseTbs bs = some t`) iff that is `bs` itself. Both facts are compared
with the real code on every trace line (`canon`, `rm`, `build`, `leaf…`), and the driver asserts on every line that the two
models agree on canonical input and that the normal form is well-formed (see `lax_agrees_partial` in Props/C03.lean).
-/
namespace CTV.Tbs

/-- tag and length octets only (`parseTagAndLength`): the contents need not be there -/
def parseHdr (bs : Bytes) : Option (Bytes × Nat × Bytes) :=
  match parseTag bs with
  | none => none
  | some (tag, r1) =>
    match parseLen r1 with
    | none => none
    | some (n, r2) => some (tag, n, r2)

/-- minimal form of one base-128 group: leading padding bytes dropped -/
def normGroup (g : Bytes) : Bytes := g.dropWhile (· == 0x80)

/-- OBJECT IDENTIFIER contents as `marshalObjectIdentifier` writes the parsed arcs; `none` = `parseObjectIdentifier` fails -/
def normOid (c : Bytes) : Option Bytes :=
  if oidAccept c then
    match oidGroupsF c.length c with
    | some gs => some (gs.flatMap normGroup)
    | none => none
  else none

/-- a time as the fork marshals it again; `none` = the parse fails -/
def normTime (t : Tlv) : Option Tlv :=
  if t.tag = [0x17] then
    if utcTimeCanon t.val then some t
    else if utcTimeCanon (t.val.take 10 ++ [0x30, 0x30] ++ t.val.drop 10) then
      some ⟨[0x17], t.val.take 10 ++ [0x30, 0x30] ++ t.val.drop 10⟩          -- "0601021504Z0700": seconds are written on the way out
    else none
  else if t.tag = [0x18] then
    if genTimeCanon t.val then some t
    else
      match t.val with
      | y1 :: y2 :: y3 :: y4 :: _ =>
        if [y1, y2, y3, y4].all isDigit && decide (1950 ≤ dig2 y1 y2 * 100 + dig2 y3 y4) && decide (dig2 y1 y2 * 100 + dig2 y3 y4 < 2050)
            && utcTimeCanon (t.val.drop 2) then
          some ⟨[0x17], t.val.drop 2⟩                                          -- inside the UTCTime window: written as UTCTime
        else none
      | _ => none
  else none

def normAlgId (a : Tlv) : Option Tlv :=
  if a.tag ≠ [0x30] then none
  else match parseTlv a.val with
    | none => none
    | some (o, r) =>
      if o.tag ≠ [0x06] then none
      else match normOid o.val with
        | none => none
        | some oid =>
          if r.isEmpty then some ⟨[0x30], encTlv ⟨[0x06], oid⟩⟩
          else match parseTlv r with
            | some (p, _) => some ⟨[0x30], encTlv ⟨[0x06], oid⟩ ++ encTlv p⟩
            | none => none

def normValidity (v : Tlv) : Option Tlv :=
  if v.tag ≠ [0x30] then none
  else match parseTlv v.val with
    | none => none
    | some (a, r) =>
      match parseTlv r with
      | none => none
      | some (b, _) =>
        match normTime a, normTime b with
        | some a', some b' => some ⟨[0x30], encTlv a' ++ encTlv b'⟩
        | _, _ => none

/-- one `pkix.Extension` -/
def laxExt (t : Tlv) : Option Ext :=
  if t.tag ≠ [0x30] then none
  else match parseTlv t.val with
    | none => none
    | some (o, r) =>
      if o.tag ≠ [0x06] then none
      else match normOid o.val with
        | none => none
        | some oid =>
          match parseHdr r with
          | none => none                       -- nothing left ("sequence truncated") or a broken header
          | some (tag, _, _) =>
            if tag = [0x01] then
              match parseTlv r with
              | none => none
              | some (b, r2) =>
                if b.val = [0xff] ∨ b.val = [0x00] then
                  match parseTlv r2 with
                  | some (v, _) => if v.tag = [0x04] then some ⟨oid, decide (b.val = [0xff]), v.val⟩ else none
                  | none => none
                else none
            else
              match parseTlv r with
              | some (v, _) => if v.tag = [0x04] then some ⟨oid, false, v.val⟩ else none
              | none => none

def laxExtList : List Tlv → Option (List Ext)
  | [] => some []
  | t :: ts =>
    match laxExt t, laxExtList ts with
    | some e, some es => some (e :: es)
    | _, _ => none

/-- `Version int "optional,explicit,default:0,tag:0"`: the normal form of the field and the rest of the contents -/
def laxVersion (c : Bytes) : Option (Option Tlv × Bytes) :=
  match parseHdr c with
  | none => none
  | some (tag, n, rest) =>
    if rest.isEmpty then none                                        -- "explicit tag has no child"
    else if tag = [0xa0] then
      if n = 0 then none
      else match parseTlv rest with                                  -- the wrapper's length is not used
        | none => none
        | some (i, rest2) =>
          if i.tag = [0x02] ∧ intMinimal i.val = true ∧ i.val.length ≤ 8 then
            some (if i.val = [0x00] then none else some ⟨[0xa0], encTlv i⟩, rest2)
          else none
    else if tag = [0x80] then none                                   -- zero length: "not an asn1.Flag"; otherwise the serial number cannot be 0x80
    else some (none, c)

/-- `UniqueId` / `SubjectUniqueId`: `asn1.BitString "optional,tag:n"` -/
def laxUid (tagb : UInt8) (c : Bytes) : Option (Option Tlv × Bytes) :=
  if c.isEmpty then some (none, c)
  else match parseHdr c with
    | none => none
    | some (tag, _, _) =>
      if tag = [tagb] then
        match parseTlv c with
        | some (u, r) => if bitStringOk u.val then some (some u, r) else none
        | none => none
      else some (none, c)

/-- `Extensions []pkix.Extension "optional,explicit,tag:3"` on what is left of the contents -/
def laxExts (c : Bytes) : Option (Option (List Ext)) :=
  if c.isEmpty then some none
  else match parseHdr c with
    | none => none
    | some (tag, n, rest) =>
      if rest.isEmpty then none                                      -- "explicit tag has no child", whatever the tag
      else if tag = [0xa3] then
        if n = 0 then none
        else match parseHdr rest with
          | none => none
          | some (tag2, n2, rest2) =>
            if tag2 ≠ [0x30] then some none                          -- not a SEQUENCE: "could be an optional element"
            else if rest2.length < n2 then none
            else match splitTlvs (rest2.take n2) with
              | none => none
              | some ts =>
                match laxExtList ts with
                | some es => some (some es)
                | none => none
      else if tag = [0x83] then (if n = 0 then none else some none)
      else some none

/-- the content after `asn1.Unmarshal(bs, &tbs)` (no trailing data), in the form `asn1.Marshal(tbs)` writes -/
def laxTbs (bs : Bytes) : Option Tbs :=
  match parseOne bs with
  | none => none
  | some o =>
    if o.tag ≠ [0x30] then none
    else match laxVersion o.val with
      | none => none
      | some (ver, c1) =>
        match parseTlv c1 with
        | none => none
        | some (serial, c2) =>
          if !serialOk serial then none
          else match parseTlv c2 with
            | none => none
            | some (sig, c3) =>
              match normAlgId sig, parseTlv c3 with
              | some sig', some (issuer, c4) =>
                match parseTlv c4 with
                | none => none
                | some (val, c5) =>
                  match normValidity val, parseTlv c5 with
                  | some val', some (subject, c6) =>
                    match parseTlv c6 with
                    | none => none
                    | some (spki, c7) =>
                      if !spkiOk spki then none
                      else match laxUid 0x81 c7 with
                        | none => none
                        | some (uid, c8) =>
                          match laxUid 0x82 c8 with
                          | none => none
                          | some (suid, c9) =>
                            match laxExts c9 with
                            | none => none
                            | some exts =>
                              some { version := ver, serial := serial, sigAlg := sig', issuer := issuer, validity := val',
                                     subject := subject, spki := spki, uid := uid, suid := suid, exts := exts }
                  | _, _ => none
              | _, _ => none

/-- `removeExtension` on a parsed content -/
def removeExtOf (oid : Bytes) (t : Tbs) : Option Bytes := (removeExtT oid t).map marshalTbs

/-- `removeExtension(tbsData, oid)` on every accepted input -/
def removeExtLax (oid : Bytes) (bs : Bytes) : Option Bytes := (laxTbs bs).bind (removeExtOf oid)

/-- `BuildPrecertTBS(tbsData, preIssuer)` on every accepted input: the second unmarshal sees `removeExtension`'s own output -/
def buildPrecertTBSLax (bs : Bytes) (p : Option PreIssuer) : Option Bytes :=
  match removeExtLax poisonOid bs with
  | none => none
  | some data =>
    match laxTbs data with
    | none => none
    | some t =>
      match p with
      | none => some data
      | some p => if p.ctEku then some (marshalTbs (preIssuerEdit p t)) else none

/-- the same two functions given the already parsed content (what the driver evaluates, parsing each input once) -/
def removeExtLaxOf (oid : Bytes) (lt : Option Tbs) : Option Bytes := lt.bind (removeExtOf oid)

def buildPrecertTBSLaxOf (lt : Option Tbs) (p : Option PreIssuer) : Option Bytes :=
  match removeExtLaxOf poisonOid lt with
  | none => none
  | some data =>
    match laxTbs data with
    | none => none
    | some t =>
      match p with
      | none => some data
      | some p => if p.ctEku then some (marshalTbs (preIssuerEdit p t)) else none

theorem removeExtLax_of (oid bs : Bytes) : removeExtLax oid bs = removeExtLaxOf oid (laxTbs bs) := rfl
theorem buildPrecertTBSLax_of (bs : Bytes) (p : Option PreIssuer) : buildPrecertTBSLax bs p = buildPrecertTBSLaxOf (laxTbs bs) p := rfl

/-- `MerkleTreeLeafFromChain` / `MerkleTreeLeafForEmbeddedSCT` on every accepted input (same wiring as the canonical versions) -/
def leafFromPrecertChainLax (tbs : Bytes) (rest : List Bytes) (pre : Option PreIssuer) : Option (Bytes × Bytes) :=
  match rest with
  | [] => none
  | k1 :: rest' =>
    match pre with
    | none => (buildPrecertTBSLax tbs none).map (·, k1)
    | some p =>
      match rest' with
      | [] => none
      | k2 :: _ => (buildPrecertTBSLax tbs (some p)).map (·, k2)

def leafForEmbeddedSCTLax (tbs : Bytes) (rest : List Bytes) : Option (Bytes × Bytes) :=
  match rest with
  | [] => none
  | k1 :: _ => (removeExtLax sctOid tbs).map (·, k1)

/-- `(*Certificate).IsPrecertificate`: some extension of the certificate carries the CT poison OID — critical or not, and
independent of what a caller did to `UnhandledCriticalExtensions` -/
def isPrecertificate (lt : Option Tbs) : Bool :=
  match lt with
  | some t => hasOid poisonOid (t.exts.getD [])
  | none => false

/-- what unmarshal → `Raw = nil` → marshal returns -/
def remarshalLax (bs : Bytes) : Option Bytes := (laxTbs bs).map marshalTbs

end CTV.Tbs
