import CTV.Gen.Retry
import CTV.Model.HandlerSpec
/-!
Reference definitions for C13 and the proof that what is **regenerated from jsonclient on this run** equals them:
`Spec.backoffSet` (`backoff.set`), `Spec.waitDur` (the duration `waitForBackoff` arms its timer with) and `Spec.retryStep` (one
iteration of `PostAndParseWithRetry`'s loop: how it ends, what `backoff.set` is called with) are copies of the definitions
regenerated at the pinned commit; `Spec.retryClass` and `Spec.retryAfterSeconds` are the status table and the
`Retry-After: <seconds>` arithmetic written out by hand, related to `Spec.retryStep` in `Props/C13.lean` (`step_is_onResponse`).
The long proofs of C13 go through `Spec.*`, so an equivalent rewrite of the Go code (a tagless switch instead of if/else + switch,
the Retry-After parsing moved into a helper, renamed locals, an inverted test in `backoff.set`) only has to get through the
generic `same_kernel` below. See `CTV/Model/HandlerSpec.lean` for the rationale.
-/
namespace Spec

/-- per status: 0 = return success, 1 = retry at once, 2 = retry after backoff.set, 3 = return error -/
def retryClass : List (Nat × Nat) := [(200, 0), (408, 1), (503, 2), (429, 2)]
def retryClassDefault : Nat := 3

/-- the duration for `Retry-After: <seconds>`: seconds·10⁹ at int64, saturated when that overflows -/
def retryAfterSeconds (seconds_ : Int) : Int :=
  let b_ := (I64.mul (I64.wrap64 seconds_) (1000000000 : Int))
  let b_ := if (decide ((I64.div b_ (1000000000 : Int)) ≠ (I64.wrap64 seconds_))) then
      let b_ := if (decide (seconds_ > (0 : Int))) then
          let b_ := (9223372036854775807 : Int)
          b_
        else
          let b_ := (-9223372036854775808 : Int)
          b_
      b_
    else
      b_
  b_

def backoffSet (bNotBefore bMultiplier now_ : Int) (override : Option Int) : Int × Int × Int :=
  if (decide (bNotBefore > now_)) then
    let bNotBefore := if override.isSome then
        let notBefore_ := (T.add now_ (override.getD 0))
        let bNotBefore := if (decide (notBefore_ > bNotBefore)) then
            let bNotBefore := notBefore_
            bNotBefore
          else
            bNotBefore
        bNotBefore
      else
        bNotBefore
    ((T.sub bNotBefore now_), bNotBefore, bMultiplier)
  else
  let wait_ := (0 : Int)
  let (bMultiplier, wait_) := if override.isSome then
      let wait_ := (override.getD 0)
      (bMultiplier, wait_)
    else
      let bMultiplier := if (decide (bMultiplier < Gen.maxMultiplier)) then
          let bMultiplier := (I64.add bMultiplier (1 : Int))
          bMultiplier
        else
          bMultiplier
      let wait_ := (I64.mul (1000000000 : Int) (I64.wrap64 (I64.shl (1 : Int) ((I64.sub bMultiplier (1 : Int))))))
      (bMultiplier, wait_)
  let bNotBefore := (T.add now_ wait_)
  (wait_, bNotBefore, bMultiplier)

def waitDur (bNotBefore now_ jitterMs_ : Int) : Int :=
  let dur_ := (T.sub (T.add bNotBefore (I64.mul (1000000 : Int) (I64.wrap64 jitterMs_))) now_)
  let dur_ := if (decide (dur_ < (0 : Int))) then
      let dur_ := (0 : Int)
      dur_
    else
      dur_
  dur_

def retryStep (postErr errCanceled errDeadline : Bool) (status : Int) (raPresent secsOk : Bool) (seconds_ : Int) (dateOk : Bool) (date_ now_ : Int) (waitFails : Bool) : ErrKind × Option (Option Int) × Bool :=
  let set_ : Option (Option Int) := none
  if postErr then
    if ((postErr && errCanceled) || (postErr && errDeadline)) then
      (ErrKind.passthrough, set_, true)
    else
    let set_ := some (none)
    if waitFails then
      (ErrKind.passthrough, set_, true)
    else
    (ErrKind.ok, set_, false)
  else
  if (decide (status = (200 : Int))) then
    (ErrKind.ok, set_, true)
  else
  if (decide (status = (408 : Int))) then
    if waitFails then
      (ErrKind.passthrough, set_, true)
    else
    (ErrKind.ok, set_, false)
  else
  if ((decide (status = (503 : Int))) || (decide (status = (429 : Int)))) then
    let backoff_ := (none : Option Int)
    let backoff_ := if raPresent then
        let backoff_ := if secsOk then
            let b_ := (I64.mul (I64.wrap64 seconds_) (1000000000 : Int))
            let b_ := if (decide ((I64.div b_ (1000000000 : Int)) ≠ (I64.wrap64 seconds_))) then
                let b_ := if (decide (seconds_ > (0 : Int))) then
                    let b_ := (9223372036854775807 : Int)
                    b_
                  else
                    let b_ := (-9223372036854775808 : Int)
                    b_
                b_
              else
                b_
            let backoff_ := (some b_)
            backoff_
          else
            let backoff_ := if dateOk then
                let b_ := (T.sub date_ now_)
                let backoff_ := (some b_)
                backoff_
              else
                backoff_
            backoff_
        backoff_
      else
        backoff_
    let set_ := some (backoff_)
    if waitFails then
      (ErrKind.passthrough, set_, true)
    else
    (ErrKind.ok, set_, false)
  else
  (ErrKind.fresh, set_, true)

end Spec

namespace Gen

theorem backoffSet_eq_spec : @Gen.backoffSet = @Spec.backoffSet := by
  funext bNotBefore bMultiplier now_ override
  same_kernel Gen.backoffSet Spec.backoffSet

theorem waitDur_eq_spec : @Gen.waitDur = @Spec.waitDur := by
  funext bNotBefore now_ jitterMs_
  same_kernel Gen.waitDur Spec.waitDur

theorem retryStep_eq_spec : @Gen.retryStep = @Spec.retryStep := by
  funext postErr errCanceled errDeadline status raPresent secsOk seconds_ dateOk date_ now_ waitFails
  same_kernel Gen.retryStep Spec.retryStep

end Gen
