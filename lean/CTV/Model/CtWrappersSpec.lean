import CTV.Gen.CtWrappers
/-!
Reference copies (`Spec.*`) of the whole bodies regenerated from serialization.go (extract/k_ctwrappers.go), and the equalities
`Gen.X = Spec.X`. The tie theorems of `Props/C04Tie.lean` are proved against the copies, so a behaviour-preserving restructuring of
`SerializeSCTSignatureInput`, `SerializeSTHSignatureInput`, `LeafHashForLeaf`, `IsPreIssuer` or `MerkleTreeLeafFromChain` (a case
moved into a helper, a guard flipped, `err == nil` nesting, `slices.Contains` for the search loop, the precert roles picked by a
helper with several results) only has to get through `same_body`; a change of behaviour makes the equality false.
-/
/-- unfold both bodies; `rfl`, `grind` (congruence closure with case splits on the `if`s) or split every `if` and close each case by simp -/
macro "same_body" a:ident b:ident : tactic =>
  `(tactic| (unfold $a $b; first | rfl | grind | ((try simp only []); first | done | rfl | ((repeat' split) <;> (first | rfl | grind | (simp_all <;> (try omega)))))))

namespace Spec

def serializeSCTSignatureInput (version_ etype_ : Int) (marshalFails : Bool) : Nat × Bool :=
  if (decide (version_ = Gen.v1)) then
    if (decide (etype_ = Gen.x509LogEntryType)) then
      (if marshalFails then ((0 : Nat), true) else ((1 : Nat), false))
    else
    if (decide (etype_ = Gen.precertLogEntryType)) then
      (if marshalFails then ((0 : Nat), true) else ((1 : Nat), false))
    else
    ((0 : Nat), true)
  else
  ((0 : Nat), true)

def serializeSTHSignatureInput (version_ : Int) (rootLenBad marshalFails : Bool) : Nat × Bool :=
  if (decide (version_ = Gen.v1)) then
    if rootLenBad then
      ((0 : Nat), true)
    else
    (if marshalFails then ((0 : Nat), true) else ((1 : Nat), false))
  else
  ((0 : Nat), true)

def leafHashForLeaf (marshalFails : Bool) : Nat × Bool :=
  let hashed_ := false
  if marshalFails then
    ((0 : Nat), true)
  else
  let hashed_ := true
  (hashed_.toNat, false)

def isPreIssuer (hasCtEku : Bool) : Bool :=
  if hasCtEku then
    true
  else
  false

def merkleTreeLeafFromChain (chainLen_ etype_ : Int) (issuerIsPreIssuer buildFails : Bool) : Nat × Bool × Int × Int :=
  let issuerIdx_ := (-1 : Int)
  let preIdx_ := (-1 : Int)
  if (decide (chainLen_ = (0 : Int))) then
    ((0 : Nat), true, issuerIdx_, preIdx_)
  else
  if (decide (etype_ = Gen.x509LogEntryType)) then
    ((1 : Nat), false, issuerIdx_, preIdx_)
  else
  if (decide (etype_ ≠ Gen.precertLogEntryType)) then
    ((0 : Nat), true, issuerIdx_, preIdx_)
  else
  if (decide (chainLen_ < (2 : Int))) then
    ((0 : Nat), true, issuerIdx_, preIdx_)
  else
  let issuer_ := (1 : Int)
  let cert_ := (0 : Int)
  let preIssuer_ := (-1 : Int)
  if issuerIsPreIssuer then
    let preIssuer_ := issuer_
    if (decide (chainLen_ < (3 : Int))) then
      ((0 : Nat), true, issuerIdx_, preIdx_)
    else
    let issuer_ := (2 : Int)
    let preIdx_ := preIssuer_
    if buildFails then
      ((0 : Nat), true, issuerIdx_, preIdx_)
    else
    let issuerIdx_ := issuer_
    ((1 : Nat), false, issuerIdx_, preIdx_)
  else
  let preIdx_ := preIssuer_
  if buildFails then
    ((0 : Nat), true, issuerIdx_, preIdx_)
  else
  let issuerIdx_ := issuer_
  ((1 : Nat), false, issuerIdx_, preIdx_)

end Spec

namespace Gen

theorem serializeSCTSignatureInput_eq_spec : @Gen.serializeSCTSignatureInput = @Spec.serializeSCTSignatureInput := by
  funext version_ etype_ marshalFails
  same_body Gen.serializeSCTSignatureInput Spec.serializeSCTSignatureInput

theorem serializeSTHSignatureInput_eq_spec : @Gen.serializeSTHSignatureInput = @Spec.serializeSTHSignatureInput := by
  funext version_ rootLenBad marshalFails
  same_body Gen.serializeSTHSignatureInput Spec.serializeSTHSignatureInput

theorem leafHashForLeaf_eq_spec : @Gen.leafHashForLeaf = @Spec.leafHashForLeaf := by
  funext marshalFails
  same_body Gen.leafHashForLeaf Spec.leafHashForLeaf

theorem isPreIssuer_eq_spec : @Gen.isPreIssuer = @Spec.isPreIssuer := by
  funext hasCtEku
  same_body Gen.isPreIssuer Spec.isPreIssuer

theorem merkleTreeLeafFromChain_eq_spec : @Gen.merkleTreeLeafFromChain = @Spec.merkleTreeLeafFromChain := by
  funext chainLen_ etype_ issuerIsPreIssuer buildFails
  same_body Gen.merkleTreeLeafFromChain Spec.merkleTreeLeafFromChain

end Gen
