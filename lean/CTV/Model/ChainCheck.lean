import CTV.Gen.ChainCheck
/-!
# Model of chain admission (C02)

Hand-written executable model of

* `trillian/ctfe/cert_checker.go` `ValidateChain`, `chainsEquivalent`, `IsPrecertificate`,
* `trillian/ctfe/handlers.go` `verifyAddChain`,
* `x509/verify.go` `Verify` (as called with the options `ValidateChain` passes), `buildChains`
  (recursive search with the threaded signature counter, the per-candidate cache and the named
  result `err`, statement by statement), `isValid`,
* `x509/cert_pool.go` `findPotentialParents`, `contains`, `AddCert`; `x509util/pem_cert_pool.go` `AddCert`,
* `x509/x509.go` `CheckSignatureFrom`, `Equal`

over **abstract certificates**: the fields of the parsed certificate those functions read.  Every
comparison / boolean guard that is a small kernel comes from the regenerated `Gen.ChainCheck`
(`Gen.naStartFails`, …, `Gen.sigBudgetExceeded`); the control structure around them is written
here and tied to the code by the C02 correspondence run.  Signature verification is an oracle
`sigOK child parent`.
-/
namespace CTV.Model.ChainCheck

/-- One CT-poison extension: is it critical, is its value `05 00`. -/
structure PoisonExt where
  critical : Bool
  valueIsNull : Bool
deriving DecidableEq, Repr, Inhabited

/-- The fields of `x509.Certificate` read by the modelled code.  `id` stands for `Raw`
(`Equal` compares `Raw`); `subject`/`issuer` for `RawSubject`/`RawIssuer`; `aki`/`ski` are `none`
when the key identifier is empty. -/
structure Cert where
  id : Nat
  subject : Nat
  issuer : Nat
  aki : Option Nat
  ski : Option Nat
  version : Int
  bcValid : Bool
  isCA : Bool
  keyUsage : Int
  pkAlgKnown : Bool
  entrustSPKI : Bool
  notAfter : Int
  ekus : List Nat
  extIds : List Nat
  /-- every extension with the CT-poison OID, in certificate order (the parser does not refuse duplicates) -/
  poison : List PoisonExt
deriving DecidableEq, Repr, Inhabited

/-- `(*Certificate).Equal`: equality of `Raw`. -/
def Cert.equal (a b : Cert) : Bool := a.id == b.id

/-! ### certificate pools -/

/-- `PEMCertPool.AddCert` / `CertPool.AddCert`: a certificate whose `Raw` is already present is dropped. -/
def addCert (pool : List Cert) (c : Cert) : List Cert :=
  if pool.any (·.equal c) then pool else pool ++ [c]

def mkPool (cs : List Cert) : List Cert := cs.foldl addCert []

/-- `CertPool.contains` -/
def poolContains (pool : List Cert) (c : Cert) : Bool := pool.any (·.equal c)

/-- `CertPool.findPotentialParents`: AKI → SKI matches first (in pool order), names otherwise. -/
def findPotentialParents (pool : List Cert) (c : Cert) : List Cert :=
  let byKeyId := if Gen.fppUseKeyId c.aki.isSome then pool.filter (fun p => p.ski == c.aki) else []
  if Gen.fppFallBackToNames byKeyId.isEmpty then pool.filter (fun p => p.subject == c.issuer) else byKeyId

/-! ### CheckSignatureFrom, isValid -/

abbrev SigOracle := Cert → Cert → Bool

/-- `c.CheckSignatureFrom(parent) == nil` -/
def checkSignatureFrom (sigOK : SigOracle) (c parent : Cert) : Bool :=
  if Gen.csfConstraintFails parent.version parent.bcValid parent.isCA c.entrustSPKI then false
  else if Gen.csfKeyUsageFails parent.keyUsage then false
  else if Gen.csfAlgFails parent.pkAlgKnown then false
  else sigOK c parent

inductive CertType where
  | leaf | intermediate | root
deriving DecidableEq, Repr

/-- A field of the `x509.VerifyOptions` literal in `ValidateChain` (absent = Go's zero value). -/
def verifyFlag (name : String) : Bool := (Gen.verifyOptsFlags.lookup name).getD false

/-- The five checks of `isValid` / `Verify` the model leaves out are all switched off by `ValidateChain`. -/
def omittedChecksDisabled : Bool :=
  verifyFlag "DisableCriticalExtensionChecks" && verifyFlag "DisableTimeChecks" &&
  verifyFlag "DisableNameConstraintChecks" && verifyFlag "DisablePathLenChecks" && verifyFlag "DisableEKUChecks"

/-- `candidate.isValid(certType, currentChain, opts) == nil` under the options of `ValidateChain`
(critical-extension, time, name-constraint and path-length checks disabled). -/
def isValid (t : CertType) (cur : List Cert) (c : Cert) : Bool :=
  let nameFails := match cur.getLast? with
    | some child => Gen.isValidNameGuard (verifyFlag "DisableNameChecks") true && Gen.isValidNameMismatch child.issuer c.subject
    | none => false
  if nameFails then false
  else if t != .leaf && cur.isEmpty then false
  else if Gen.isValidNotCA (t == .intermediate) c.bcValid c.isCA then false
  else true

/-! ### buildChains -/

inductive VErr where
  | limit             -- "signature check attempts limit reached"
  | invalid           -- an `isValid` error
  | unknownAuthority
  | fuel              -- model only: recursion deeper than the signature budget allows (unreachable, see `C02.fuel_irrelevant`)
deriving DecidableEq, Repr

/-- What all invocations of one `Verify` share: `*sigChecks` and the `cache` map (keyed by the
candidate's pointer = its position in the de-duplicated intermediates pool = its `Raw`). -/
structure St where
  sigChecks : Nat
  cache : List (Nat × List (List Cert))
deriving Repr

/-- The named results of one `buildChains` invocation plus the shared state. -/
structure Res where
  chains : List (List Cert)
  err : Option VErr
  st : St
deriving Repr

structure Env where
  roots : List Cert
  inter : List Cert
  sigOK : SigOracle

/-- `*sigChecks++` -/
def bump (a : Res) : Res := { a with st := { a.st with sigChecks := a.st.sigChecks + 1 } }

/-- The `switch certType` at the end of `considerCandidate` (all checks passed). -/
def extend (rec : Cert → List Cert → St → Res) (cur : List Cert) (t : CertType) (a : Res) (cand : Cert) : Res :=
  match t with
  | .intermediate =>
    match a.st.cache.lookup cand.id with
    | some cached => { a with chains := a.chains ++ cached }
    | none =>
      let r := rec cand (cur ++ [cand]) a.st
      { chains := a.chains ++ r.chains, err := r.err,
        st := { r.st with cache := (cand.id, r.chains) :: r.st.cache } }
  | _ => { a with chains := a.chains ++ [cur ++ [cand]] }

/-- The closure `considerCandidate` of `buildChains`; `rec` is the recursive call. -/
def consider (E : Env) (rec : Cert → List Cert → St → Res) (c : Cert) (cur : List Cert)
    (t : CertType) (a : Res) (cand : Cert) : Res :=
  if cur.any (·.equal cand) then a
  else if Gen.sigBudgetExceeded ((bump a).st.sigChecks : Int) then { bump a with err := some .limit }
  else if !checkSignatureFrom E.sigOK c cand then bump a
  else if !isValid t cur cand then { bump a with err := some .invalid }
  else extend rec cur t { bump a with err := none } cand

/-- One invocation of `buildChains` (roots first, then intermediates, then the two fix-ups of `err`). -/
def buildStep (E : Env) (rec : Cert → List Cert → St → Res) (c : Cert) (cur : List Cert) (st : St) : Res :=
  let a0 : Res := ⟨[], none, st⟩
  let a1 := (findPotentialParents E.roots c).foldl (consider E rec c cur .root) a0
  let a2 := (findPotentialParents E.inter c).foldl (consider E rec c cur .intermediate) a1
  let err := if !a2.chains.isEmpty then none else a2.err
  let err := if a2.chains.isEmpty && err.isNone then some VErr.unknownAuthority else err
  ⟨a2.chains, err, a2.st⟩

def buildChains (E : Env) : Nat → Cert → List Cert → St → Res
  | 0 => fun _ _ st => ⟨[], some .fuel, st⟩
  | n + 1 => buildStep E (buildChains E n)

/-- Every recursive call follows an increment of the counter that stayed within the budget. -/
def fuel : Nat := Gen.maxChainSignatureChecks.toNat + 1

/-- `cert.Verify(verifyOpts)` with the options of `ValidateChain` (EKU checks disabled: every candidate chain is returned). -/
def verify (E : Env) (c : Cert) : Except VErr (List (List Cert)) :=
  if !isValid .leaf [] c then .error .invalid
  else if poolContains E.roots c then .ok [[c]]
  else
    let r := buildChains E fuel c [c] ⟨0, []⟩
    match r.err with
    | some e => .error e
    | none => .ok r.chains

/-! ### ValidateChain -/

structure Opts where
  /-- `validationOpts.currentTime`, or the wall clock when that is the zero time -/
  now : Int
  notAfterStart : Option Int
  notAfterLimit : Option Int
  acceptOnlyCA : Bool
  rejectExpired : Bool
  rejectUnexpired : Bool
  rejectExtIds : List Nat
  extKeyUsages : List Nat
deriving Repr

inductive Reject where
  | parse | emptyChain
  | notAfterStart | notAfterLimit | acceptOnlyCA | expired | unexpired | extId | eku
  | verify (e : VErr) | noChains | notEquivalent
  | poison | kind
  | unknownCheck   -- the regenerated list of checks names one the model does not have
deriving DecidableEq, Repr

def chainsEquivalent (inChain verified : List Cert) : Bool :=
  if Gen.chainsLenMismatch inChain.length verified.length then false
  else (inChain.zip verified).all fun (a, b) => a.equal b

/-- One named leaf check of `ValidateChain`: `some none` = passes, `some (some r)` = rejects; `none` = a check the
model does not know (the regenerated order then names something new: everything is refused, never ignored). -/
def leafCheck (o : Opts) (c : Cert) : String → Option (Option Reject)
  | "parse" => some none    -- not leaf filters: handled around them
  | "verify" => some none
  | "noChains" => some none
  | "chainsEquivalent" => some none
  | "notAfterStart" => some <| if Gen.naStartFails c.notAfter o.notAfterStart then some .notAfterStart else none
  | "notAfterLimit" => some <| if Gen.naLimitFails c.notAfter o.notAfterLimit then some .notAfterLimit else none
  | "acceptOnlyCA" => some <| if Gen.acceptOnlyCAFails o.acceptOnlyCA c.isCA then some .acceptOnlyCA else none
  | "rejectExpired" => some <| if Gen.rejectExpiredFails o.rejectExpired (Gen.expired o.now c.notAfter) then some .expired else none
  | "rejectUnexpired" => some <| if Gen.rejectUnexpiredFails o.rejectUnexpired (Gen.expired o.now c.notAfter) then some .unexpired else none
  | "rejectExtIds" => some <| if !o.rejectExtIds.isEmpty && c.extIds.any (o.rejectExtIds.contains ·) then some .extId else none
  | "extKeyUsages" => some <| if !o.extKeyUsages.isEmpty && !c.ekus.any (o.extKeyUsages.contains ·) then some .eku else none
  | _ => none

/-- The leaf checks in the order `ValidateChain` applies them (regenerated). -/
def leafFilters (o : Opts) (c : Cert) : Option Reject :=
  Gen.validateChainOrder.findSome? fun name =>
    match leafCheck o c name with
    | some r => r
    | none => some .unknownCheck

def parseAll : List (Option Cert) → Option (List Cert)
  | [] => some []
  | none :: _ => none
  | some c :: rest => (parseAll rest).map (c :: ·)

/-- `ValidateChain(rawChain, validationOpts)`; `none` entries are DER strings that do not parse. -/
def validateChain (roots : List Cert) (sigOK : SigOracle) (o : Opts) (raw : List (Option Cert)) : Except Reject (List Cert) :=
  match parseAll raw with
  | none => .error .parse
  | some [] => .error .emptyChain     -- the code indexes `chain[0]`; callers never pass an empty chain
  | some (c :: rest) =>
    match leafFilters o c with
    | some r => .error r
    | none =>
      match verify ⟨roots, mkPool rest, sigOK⟩ c with
      | .error e => .error (.verify e)
      | .ok chains =>
        if chains.isEmpty then .error .noChains
        else match chains.find? (chainsEquivalent (c :: rest)) with
          | some p => .ok p
          | none => .error .notEquivalent

/-- The range loop of `IsPrecertificate` over the extensions with the poison OID; `found` is the loop's variable.
Its shape is regenerated (`Gen.poisonLoop*`): a malformed poison extension is an error wherever it stands; a
well-formed one either ends the loop (`StopsAtFirst`) or is recorded and the loop goes on. -/
def poisonLoop : Bool → List PoisonExt → Except Unit Bool
  | found, [] => .ok (if Gen.poisonLoopFinalReturn = "false" then false else found)
  | found, p :: rest =>
    if Gen.poisonInvalid p.critical p.valueIsNull then .error ()
    else if Gen.poisonLoopStopsAtFirst then .ok true
    else poisonLoop (if Gen.poisonLoopMarks = "" then found else true) rest

/-- `IsPrecertificate` -/
def isPrecertificate (c : Cert) : Except Unit Bool := poisonLoop false c.poison

/-- `verifyAddChain(li, req, expectingPrecert)` -/
def verifyAddChain (roots : List Cert) (sigOK : SigOracle) (o : Opts) (raw : List (Option Cert)) (expectingPrecert : Bool) :
    Except Reject (List Cert) :=
  match validateChain roots sigOK o raw with
  | .error e => .error e
  | .ok p =>
    match p.head? with
    | none => .error .emptyChain
    | some l =>
      match isPrecertificate l with
      | .error _ => .error .poison
      | .ok k => if Gen.kindMismatch k expectingPrecert then .error .kind else .ok p

end CTV.Model.ChainCheck
