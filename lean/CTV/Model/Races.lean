import CTV.Gen.Policy
import CTV.Gen.Temporal
/-!
# Model of multi-log submission (C17)

Hand model of `submission/races.go` (`safeSubmissionState`, `groupRace`, `GetSCTs`, `parallelNums`), of the group
construction in `ctpolicy/*.go` and of the compatibility filter in `loglist3/logfilter.go` /
`Distributor.addSomeChain`. Thresholds, the temporal window predicate, group tables, `postInterval` come from the
regenerated `Gen.Policy`.  Core Lean only.

Logs and groups are natural numbers (the harness numbers log URLs and group names; `ctpolicy.BaseName` is 0).

One `Op` per atomic action of the Go code (each `safeSubmissionState` method runs under `mu`, so it is one
action); "for every schedule" is "for every `List Op`".
-/
namespace CTV.Model.Races

abbrev Log := Nat
abbrev Grp := Nat

/-- `ctpolicy.BaseName` ("All-logs"). -/
def baseName : Grp := 0

/-- `ctpolicy.LogGroupInfo` (without weights). -/
structure Group where
  name : Grp
  logs : List Log
  min : Int
  isBase : Bool
deriving Repr, DecidableEq

/-- `ctpolicy.LogPolicyData`; map keys are the group names (distinct). -/
abbrev Cfg := List Group

def names (c : Cfg) : List Grp := c.map (·.name)

def dedup : List Nat → List Nat
  | [] => []
  | x :: xs => if x ∈ xs then dedup xs else x :: dedup xs

/-- keys of `logToGroups` (`ctpolicy.GroupByLogs`) -/
def allLogs (c : Cfg) : List Log := dedup (c.flatMap (·.logs))

/-- `logToGroups[l]` -/
def groupsOf (c : Cfg) (l : Log) : List Grp := (c.filter (fun g => decide (l ∈ g.logs))).map (·.name)

/-- `*submissionResult`: `&submissionResult{}` (placeholder written by `request`), with an SCT, with an error. -/
inductive Res | empty | sct | err
deriving DecidableEq, Repr

/-- `safeSubmissionState` (`logToGroups` is static: `groupsOf cfg`). Missing map keys: `needs` 0, `results` none
(nil), `cancels` false (nil). -/
structure Sub where
  needs : Grp → Int
  results : Log → Option Res
  cancels : Log → Bool

def upd {β : Type} (f : Nat → β) (a : Nat) (b : β) : Nat → β := fun x => if x = a then b else f x

/-- `newSafeSubmissionState` -/
def Sub.init (c : Cfg) : Sub where
  needs := fun g => match c.find? (fun x => x.name == g) with
    | some x => x.min
    | none => 0
  results := fun _ => none
  cancels := fun _ => false

/-- the `isAwaited` loop of `request` and `setResult` -/
def awaited (c : Cfg) (s : Sub) (l : Log) : Bool := (groupsOf c l).any (fun g => decide (s.needs g > 0))

/-- `safeSubmissionState.request` -/
def request (c : Cfg) (s : Sub) (l : Log) : Sub × Bool :=
  if (s.results l).isSome then (s, false)
  else
    let s1 : Sub := { s with results := upd s.results l (some .empty) }
    if awaited c s1 l then ({ s1 with cancels := upd s1.cancels l true }, true)
    else (s1, false)

/-- `minInclusionsForOtherGroup` in `setResult` -/
def sumOther (c : Cfg) (s : Sub) : Int :=
  ((names c).filter (fun g => decide (g ≠ baseName))).foldl (fun acc g => if s.needs g > 0 then acc + s.needs g else acc) 0

/-- the non-base groups of a log -/
def nonBase (c : Cfg) (l : Log) : List Grp := (groupsOf c l).filter (fun g => decide (g ≠ baseName))

/-- `setResult`, first loop (`for groupName := range sub.logToGroups[logURL]`, skipping the base group): the result is
stored if some non-base group of the log still needs an SCT; every non-base group of the log is decremented.
Rendered in closed form (Go iterates a map; group names are distinct). -/
def afterNonBase (c : Cfg) (s : Sub) (l : Log) : Sub :=
  { s with
    needs := fun g => if g ∈ nonBase c l then s.needs g - 1 else s.needs g
    results := if (nonBase c l).any (fun g => decide (s.needs g > 0)) then upd s.results l (some .sct) else s.results }

/-- `setResult`, the base-group block. `none` = the nil dereference of `sub.results[logURL].sct` when the log was
never requested. -/
def afterBase (c : Cfg) (s1 : Sub) (l : Log) : Option Sub :=
  if baseName ∈ groupsOf c l then
    match s1.results l with
    | none => none
    | some r =>
      if r = .sct then some { s1 with needs := upd s1.needs baseName (s1.needs baseName - 1) }
      else if s1.needs baseName > 0 ∧ s1.needs baseName > sumOther c s1 then
        some { s1 with results := upd s1.results l (some .sct), needs := upd s1.needs baseName (s1.needs baseName - 1) }
      else some s1
  else some s1

/-- `setResult`, last loop: cancel every pending request no group waits for any more. Second component: the logs
whose cancel function is called. -/
def afterCancel (c : Cfg) (s2 : Sub) : Sub × List Log :=
  ({ s2 with cancels := fun l' => s2.cancels l' && awaited c s2 l' },
   (allLogs c).filter (fun l' => s2.cancels l' && !awaited c s2 l'))

/-- `safeSubmissionState.setResult` with `sct != nil` (`ok`) or `sct == nil`. -/
def setResult (c : Cfg) (s : Sub) (l : Log) (ok : Bool) : Option (Sub × List Log) :=
  if !ok then some ({ s with results := upd s.results l (some .err) }, [])
  else (afterBase c (afterNonBase c s l) l).map (afterCancel c)

/-- `safeSubmissionState.groupComplete` -/
def complete (s : Sub) (g : Grp) : Bool := decide (s.needs g ≤ 0)

/-- the logs `collectSCTs` returns -/
def sctLogs (c : Cfg) (s : Sub) : List Log := (allLogs c).filter (fun l => decide (s.results l = some .sct))

/-- `parallelNums` -/
def parallelNums (c : Cfg) : Grp → Int :=
  let subsetSum : Int := c.foldl (fun a g => if g.isBase then a else a + g.min) 0
  fun n => match c.find? (fun x => x.name == n) with
    | none => 0
    | some g => if n = baseName then (if g.min ≥ subsetSum then g.min - subsetSum else 0) else g.min

/-! ## The race: `GetSCTs` / `groupRace` -/

/-- state of the goroutine `groupRace` starts for (group, log): waiting on its timer; past the
`groupComplete` check and about to call `request`; inside `SubmitToLog`; returned (its `countCall` ran). -/
inductive GSt | waiting | checked | inflight | finished
deriving DecidableEq, Repr

/-- what is fixed during one `GetSCTs` call: the groups and each group's submission session
(`GetSubmissionSession()`, a sequence of distinct members of the group). -/
structure Run where
  cfg : Cfg
  session : Grp → List Log

structure St where
  sub : Sub
  gor : Grp → Log → GSt
  /-- `groupRace` returned this `groupState.Success` -/
  gdone : Grp → Option Bool
  /-- `GetSCTs` received the group's event -/
  recvd : Grp → Option Bool
  /-- the caller's context is done -/
  ctx : Bool
  /-- `SubmitToLog` calls, most recent first -/
  submitted : List Log
  /-- `GetSCTs` returned (logs of the SCTs, error non-nil) -/
  ret : Option (List Log × Bool)

def St.init (r : Run) : St where
  sub := Sub.init r.cfg
  gor := fun _ _ => .waiting
  gdone := fun _ => none
  recvd := fun _ => none
  ctx := false
  submitted := []
  ret := none

inductive Op
  /-- the goroutine's timer fires; it evaluates `state.groupComplete(group.Name)` -/
  | timerFire (g : Grp) (l : Log)
  /-- `<-subCtx.Done()` wins the select (only after the caller's context is done) -/
  | abort (g : Grp) (l : Log)
  /-- `state.request(logURL, cancel)` and, when granted, the call of `SubmitToLog` -/
  | request (g : Grp) (l : Log)
  /-- `SubmitToLog` returned (`ok`: an SCT; otherwise an error, e.g. after cancellation) and `state.setResult` ran -/
  | setResult (g : Grp) (l : Log) (ok : Bool)
  /-- `groupRace` returns -/
  | groupDone (g : Grp)
  /-- `GetSCTs` takes the group's event from `groupEvents` -/
  | recv (g : Grp)
  | ctxDone
  /-- `GetSCTs` returns `collectSCTs(), completenessError(groupComplete)` -/
  | collect
deriving DecidableEq, Repr

def setGor (s : St) (g : Grp) (l : Log) (x : GSt) : St :=
  { s with gor := fun g' l' => if g' = g ∧ l' = l then x else s.gor g' l' }

/-- goroutines of `g` whose `countCall` ran -/
def finishedCount (r : Run) (s : St) (g : Grp) : Nat :=
  (r.session g).countP (fun l => decide (s.gor g l = .finished))

/-- `none`: the action is not enabled in this state. -/
def step (r : Run) (s : St) : Op → Option St
  | .timerFire g l =>
    if g ∈ names r.cfg ∧ l ∈ r.session g ∧ s.gor g l = .waiting then
      some (setGor s g l (if complete s.sub g then .finished else .checked))
    else none
  | .abort g l =>
    if s.ctx = true ∧ g ∈ names r.cfg ∧ l ∈ r.session g ∧ s.gor g l = .waiting then
      some (setGor s g l .finished)
    else none
  | .request g l =>
    if s.gor g l = .checked then
      let p := request r.cfg s.sub l
      if p.2 then some { setGor s g l .inflight with sub := p.1, submitted := l :: s.submitted }
      else some { setGor s g l .finished with sub := p.1 }
    else none
  | .setResult g l ok =>
    if s.gor g l = .inflight then
      match setResult r.cfg s.sub l ok with
      | some p => some { setGor s g l .finished with sub := p.1 }
      | none => none
    else none
  | .groupDone g =>
    if g ∈ names r.cfg ∧ s.gdone g = none ∧
        (s.ctx = true ∨ (1 ≤ finishedCount r s g ∧ complete s.sub g = true) ∨ finishedCount r s g = (r.session g).length) then
      some { s with gdone := upd s.gdone g (some (complete s.sub g)) }
    else none
  | .recv g =>
    match s.gdone g with
    | some b =>
      if g ∈ names r.cfg ∧ s.recvd g = none ∧ s.ret = none then some { s with recvd := upd s.recvd g (some b) } else none
    | none => none
  | .ctxDone => if s.ctx then none else some { s with ctx := true }
  | .collect =>
    if s.ret = none ∧ (s.ctx = true ∨ (names r.cfg).all (fun g => (s.recvd g).isSome) = true) then
      some { s with ret := some (sctLogs r.cfg s.sub, (names r.cfg).any (fun g => decide (s.recvd g ≠ some true))) }
    else none

/-- run a schedule; actions that are not enabled are skipped, so every `List Op` is a schedule -/
def exec (r : Run) (s : St) : List Op → St
  | [] => s
  | o :: os => exec r ((step r s o).getD s) os

/-- number of actions of the schedule that were enabled when their turn came -/
def effective (r : Run) (s : St) : List Op → Nat
  | [] => 0
  | o :: os => match step r s o with
    | some s' => effective r s' os + 1
    | none => effective r s os

/-! ## Compatibility filter and policy groups (`Distributor.addSomeChain`, `ctpolicy`) -/

/-- one log of the log list -/
structure LogInfo where
  id : Log
  /-- its operator is `GoogleOperated()` -/
  google : Bool
  /-- `State.LogStatus() == UsableLogStatus` -/
  usable : Bool
  /-- `TemporalInterval` (start inclusive, end exclusive; instants as nanoseconds) -/
  interval : Option (Int × Int)
  /-- the accepted roots the distributor holds for the log (`none`: no entry in `logRoots`) -/
  roots : Option (List Nat)
deriving Repr, DecidableEq

/-- `TemporallyCompatible`, one log -/
def temporalOk (notAfter : Int) (li : LogInfo) : Bool :=
  Gen.temporallyCompatible li.interval notAfter

/-- `RootCompatible`, one log, for a CA root -/
def rootOk (root : Nat) (li : LogInfo) : Bool :=
  match li.roots with
  | none => true
  | some rs => decide (root ∈ rs)

/-- `usableLl.Compatible(cert, root, logRoots)`; `root = none`: no root check; `some (r, isCA)`. -/
def compatible (notAfter : Int) (root : Option (Nat × Bool)) (ls : List LogInfo) : List LogInfo :=
  let t := ls.filter (fun li => li.usable && temporalOk notAfter li)
  match root with
  | none => t
  | some (rt, isCA) => if isCA then t.filter (rootOk rt) else []

/-- `Distributor.addSomeChain` (closure `compatibleLogsAndChain`): which root the compatibility filter is given.
`known`: the `logRoots` entry of every log that has a client (usable, pending or qualified); `chainRoot ∈ merged` stands
for "`ValidateChain` finds a path to the merged root pool". Outer `none`: the call is refused (the chain does not verify
although root data is complete). In the fallback (chain does not verify, root data incomplete) the code passes no root at
all when `Gen.Policy.fallbackKeepsKnownRootLogs`; otherwise only logs without root data are kept, which is what
`compatible` does for a root that is in no known set. -/
def chooseRoot (checkDisabled : Bool) (chainRoot : Nat) (known : List (Option (List Nat))) : Option (Option (Nat × Bool)) :=
  if checkDisabled then some none
  else if chainRoot ∈ known.flatMap (fun k => k.getD []) then some (some (chainRoot, true))
  else if known.all (fun k => k.isSome) then none
  else if Gen.Policy.fallbackKeepsKnownRootLogs then some none
  else some (some (chainRoot, true))

inductive Pol | chrome | apple
deriving DecidableEq, Repr

def subgroups : Pol → List (String × Bool × Int)
  | .chrome => Gen.Policy.chromeSubgroups
  | .apple => Gen.Policy.appleSubgroups

def incCount : Pol → Int → Int
  | .chrome, m => Gen.Policy.chromeIncCount m
  | .apple, m => Gen.Policy.appleIncCount m

/-- the groups `LogsByGroup` builds, before the `setMinInclusions` checks: table row `i` becomes group `i+1`,
the base group is `baseName` -/
def rawGroups (p : Pol) (months : Int) (ls : List LogInfo) : Cfg :=
  let rec go : Nat → List (String × Bool × Int) → Cfg
    | _, [] => []
    | i, (_, goog, mn) :: rest =>
      ⟨i + 1, dedup ((ls.filter (fun li => li.google == goog)).map (·.id)), mn, false⟩ :: go (i + 1) rest
  go 0 (subgroups p) ++ [⟨baseName, dedup (ls.map (·.id)), incCount p months, true⟩]

/-- `LogsByGroup`: `none` when some `setMinInclusions` reports an error -/
def policyCfg (p : Pol) (months : Int) (ls : List LogInfo) : Option Cfg :=
  let gs := rawGroups p months ls
  if gs.all (fun g => (Gen.Policy.setMinInclusions g.min g.logs.length).isSome) then some gs else none

/-- `pendingLogsPolicy.LogsByGroup` on `pendingQualifiedLl` (the logs in state Pending or Qualified): one base group
over all of them, minimum `Gen.Policy.pendingIncCount`; with `loadPendingLogs` a second, discarded `GetSCTs` call runs
on it concurrently, with no temporal or root filter. -/
def pendingCfg (pls : List LogInfo) : Option Cfg :=
  let g : Group := ⟨baseName, dedup (pls.map (·.id)), Gen.Policy.pendingIncCount, true⟩
  if (Gen.Policy.setMinInclusions g.min g.logs.length).isSome then some [g] else none

end CTV.Model.Races
