import CTV.Gen.Handlers
/-!
Reference definitions of the handlers' parameter kernels (what parseGetEntriesRange, the get-entries count expression,
parseGetEntryAndProofParams and parseGetSTHConsistencyRange compute), written down once, and the proof that the definitions
**regenerated from handlers.go on this run** are equal to them.

Why two copies: the long arithmetic proofs (C07 `range_shape`, `align_only_shortens`, C08 `pre_params`, C06 `consistency_at` …)
go through `Spec.*`, whose shape never changes, so a harmless restructuring of the Go code (an if-chain turned into a switch, an
early return un-nested, locals renamed) only has to get through `same_kernel` below — unfold both, split every `if`, close each
case by `simp`/`omega` — instead of through proofs written for one particular shape. A change of behaviour makes `same_kernel`
fail, which is reported as the broken obligation `Gen.<kernel>_eq_spec` (and the search for a failing input runs as usual).
The theorems of the property files stay statements about `Gen.*`, i.e. about the code.
-/

/-- unfold both kernels; `grind` (congruence closure with case splits on the `if`s) or, failing that, split every `if` and close each
case by simp / omega -/
macro "same_kernel" a:ident b:ident : tactic =>
  `(tactic| (unfold $a $b; first | rfl | grind | ((try simp only [Int.max_def, Int.min_def, I64.mul_wrap_shl_one]); first | done | rfl | grind | ((try simp only []); first | done | ((repeat' split) <;> (first | rfl | grind | (simp_all <;> (try omega))))))))

namespace Spec

def parseGetEntriesRange (start_ end_ maxRange_ : Int) (align : Bool) : Option (Int × Int) :=
  if ((decide (start_ < (0 : Int))) || (decide (end_ < (0 : Int)))) then
    none
  else
  if (decide (start_ > end_)) then
    none
  else
  let span_ := (I64.sub end_ start_)
  let end_ := if (decide (span_ ≥ maxRange_)) then
      let end_ := (I64.sub (I64.add start_ maxRange_) (1 : Int))
      end_
    else
      end_
  let end_ := if (align && (decide (span_ ≥ (I64.sub maxRange_ (1 : Int))))) then
      let d_ := (I64.rem ((I64.add (I64.rem end_ maxRange_) (1 : Int))) maxRange_)
      let end_ := (I64.sub end_ d_)
      end_
    else
      end_
  some (start_, end_)

def getEntriesCount (start_ end_ : Int) : Int :=
  (I64.sub (I64.add end_ (1 : Int)) start_)

def parseGetEntryAndProofParams (leafIndex_ treeSize_ : Int) : Option (Int × Int) :=
  if (decide (treeSize_ ≤ (0 : Int))) then
    none
  else
  if (decide (leafIndex_ < (0 : Int))) then
    none
  else
  if (decide (leafIndex_ ≥ treeSize_)) then
    none
  else
  some (leafIndex_, treeSize_)

def parseGetSTHConsistencyRange (firstMissing secondMissing : Bool) (first_ second_ : Int) : Option (Int × Int) :=
  if firstMissing then
    none
  else
  if secondMissing then
    none
  else
  if ((decide (first_ < (0 : Int))) || (decide (second_ < (0 : Int)))) then
    none
  else
  if (decide (second_ < first_)) then
    none
  else
  some (first_, second_)

end Spec

namespace Gen

theorem parseGetEntriesRange_eq_spec : @Gen.parseGetEntriesRange = @Spec.parseGetEntriesRange := by
  funext start_ end_ maxRange_ align
  same_kernel Gen.parseGetEntriesRange Spec.parseGetEntriesRange

theorem getEntriesCount_eq_spec : @Gen.getEntriesCount = @Spec.getEntriesCount := by
  funext start_ end_
  same_kernel Gen.getEntriesCount Spec.getEntriesCount

theorem parseGetEntryAndProofParams_eq_spec : @Gen.parseGetEntryAndProofParams = @Spec.parseGetEntryAndProofParams := by
  funext leafIndex_ treeSize_
  same_kernel Gen.parseGetEntryAndProofParams Spec.parseGetEntryAndProofParams

theorem parseGetSTHConsistencyRange_eq_spec : @Gen.parseGetSTHConsistencyRange = @Spec.parseGetSTHConsistencyRange := by
  funext firstMissing secondMissing first_ second_
  same_kernel Gen.parseGetSTHConsistencyRange Spec.parseGetSTHConsistencyRange

end Gen
