import CTV.Gen.ChainStore
import CTV.Basic.Bytes
/-!
Hand model of "issuance chains stored outside the backend"
(trillian/ctfe/services.go `indirectIssuanceChainService`, trillian/util/log_leaf.go `ExtraDataForChain[Hash]`,
trillian/ctfe/cache, trillian/ctfe/storage).

* the four extra-data layouts, written directly with 2- and 3-byte length prefixes over `CTV.Bytes`; the length bounds
  (and hence the prefix widths) are the **regenerated** `tls:"minlen,maxlen"` tags of types.go (`Gen.layout…`);
* the DER form `SEQUENCE OF SEQUENCE { OCTET STRING }` under which the chain is stored;
* `store` / `cache` as association lists with the operations add / asyncCacheSet / evict / expire / getByHash and
  injected faults;
* `buildDirect`, `buildIndirect`, `fixLogLeaf` (tries the layouts in the code's order).

Hash function: a parameter `H` (SHA-256 in the code; the driver takes the value from the trace).
Tied to the code by the C14 correspondence run.
-/
namespace CTV.Model.ChainStore
open CTV

/-! ### TLS vectors with (minlen, maxlen) bounds -/

/-- `tls.byteCount`-style width of the length prefix for a vector with the given `maxlen`. -/
def lenWidth (max : Nat) : Nat :=
  if max < 256 then 1 else if max < 65536 then 2 else if max < 16777216 then 3 else 4

def lookupBounds (l : List (String × String × Nat × Nat)) (field : String) : Nat × Nat :=
  match l.find? (fun e => e.1 == field) with
  | some e => (e.2.2.1, e.2.2.2)
  | none => (0, 0)

/-- bounds (minlen, maxlen) of the five vectors involved, from the regenerated tags -/
def certB : Nat × Nat := lookupBounds Gen.layoutASN1Cert "Data"
def pcehHashB : Nat × Nat := lookupBounds Gen.layoutPrecertChainEntryHash "IssuanceChainHash"
def cchHashB : Nat × Nat := lookupBounds Gen.layoutCertificateChainHash "IssuanceChainHash"
def pceChainB : Nat × Nat := lookupBounds Gen.layoutPrecertChainEntry "CertificateChain"
def ccEntriesB : Nat × Nat := lookupBounds Gen.layoutCertificateChain "Entries"

/-- encode a byte vector: length prefix + content, refused outside the bounds (as `tls.Marshal` does). -/
def encVec (b : Nat × Nat) (x : Bytes) : Option Bytes :=
  if b.1 ≤ x.length ∧ x.length ≤ b.2 then some (beEnc (lenWidth b.2) x.length ++ x) else none

/-- decode a byte vector from the front: `(content, rest)`; refused when truncated or outside the bounds. -/
def decVec (b : Nat × Nat) (bs : Bytes) : Option (Bytes × Bytes) :=
  let w := lenWidth b.2
  if bs.length < w then none else
  let n := beDec (bs.take w)
  let r := bs.drop w
  if n < b.1 ∨ b.2 < n ∨ r.length < n then none else some (r.take n, r.drop n)

/-- a list of certificates, each an `ASN1Cert` vector, concatenated (the body of a `[]ASN1Cert` vector) -/
def encCerts : List Bytes → Option Bytes
  | [] => some []
  | c :: cs =>
    match encVec certB c, encCerts cs with
    | some a, some b => some (a ++ b)
    | _, _ => none

/-- parse a `[]ASN1Cert` body completely; fuel = number of bytes (every element consumes at least one). -/
def decCerts : Nat → Bytes → Option (List Bytes)
  | _, [] => some []
  | 0, _ :: _ => none
  | f+1, bs =>
    match decVec certB bs with
    | none => none
    | some (c, rest) =>
      match decCerts f rest with
      | none => none
      | some cs => some (c :: cs)

/-! ### the four layouts -/

/-- `PrecertChainEntryHash { PreCertificate; IssuanceChainHash }` -/
def encPCEH (pre hash : Bytes) : Option Bytes :=
  match encVec certB pre, encVec pcehHashB hash with
  | some a, some b => some (a ++ b)
  | _, _ => none

def decPCEH (bs : Bytes) : Option (Bytes × Bytes) :=
  match decVec certB bs with
  | none => none
  | some (pre, r) =>
    match decVec pcehHashB r with
    | some (h, []) => some (pre, h)
    | _ => none

/-- `CertificateChainHash { IssuanceChainHash }` -/
def encCCH (hash : Bytes) : Option Bytes := encVec cchHashB hash

def decCCH (bs : Bytes) : Option Bytes :=
  match decVec cchHashB bs with
  | some (h, []) => some h
  | _ => none

/-- `PrecertChainEntry { PreCertificate; CertificateChain }` -/
def encPCE (pre : Bytes) (chain : List Bytes) : Option Bytes :=
  match encVec certB pre, encCerts chain with
  | some a, some body =>
    match encVec pceChainB body with
    | some b => some (a ++ b)
    | none => none
  | _, _ => none

def decPCE (bs : Bytes) : Option (Bytes × List Bytes) :=
  match decVec certB bs with
  | none => none
  | some (pre, r) =>
    match decVec pceChainB r with
    | some (body, []) =>
      match decCerts body.length body with
      | some cs => some (pre, cs)
      | none => none
    | _ => none

/-- `CertificateChain { Entries }` -/
def encCC (chain : List Bytes) : Option Bytes :=
  match encCerts chain with
  | some body => encVec ccEntriesB body
  | none => none

def decCC (bs : Bytes) : Option (List Bytes) :=
  match decVec ccEntriesB bs with
  | some (body, []) => decCerts body.length body
  | _ => none

/-! ### DER: SEQUENCE OF SEQUENCE { OCTET STRING } -/

/-- minimal big-endian bytes of a positive number -/
def minBE : Nat → Nat → Bytes
  | 0, _ => []
  | f+1, n => if n = 0 then [] else minBE f (n / 256) ++ [UInt8.ofNat (n % 256)]

def derLen (n : Nat) : Bytes :=
  if n < 128 then [UInt8.ofNat n] else
  let bs := minBE 8 n
  UInt8.ofNat (128 + bs.length) :: bs

def derTLV (tag : UInt8) (content : Bytes) : Bytes := tag :: (derLen content.length ++ content)

def derChain (certs : List Bytes) : Bytes :=
  derTLV 0x30 (certs.flatMap fun c => derTLV 0x30 (derTLV 0x04 c))

/-- parse one TLV with the given tag from the front, Go `encoding/asn1` rules for the length (no indefinite form,
minimal, at most 4 length bytes with a value below 2^31): `(content, rest)` -/
def parseTLV (tag : UInt8) (bs : Bytes) : Option (Bytes × Bytes) :=
  match bs with
  | t :: l :: rest =>
    if t ≠ tag then none
    else if l.toNat < 128 then
      if rest.length < l.toNat then none else some (rest.take l.toNat, rest.drop l.toNat)
    else
      let k := l.toNat - 128
      if k = 0 ∨ k > 4 ∨ rest.length < k then none else
      let lb := rest.take k
      let n := beDec lb
      let r := rest.drop k
      if lb.head? = some 0 ∨ n < 128 ∨ n ≥ 2147483648 ∨ r.length < n then none else some (r.take n, r.drop n)
  | _ => none

def parseCertSeq : Nat → Bytes → Option (List Bytes)
  | _, [] => some []
  | 0, _ :: _ => none
  | f+1, bs =>
    match parseTLV 0x30 bs with
    | none => none
    | some (inner, rest) =>
      match parseTLV 0x04 inner with
      | some (c, []) =>
        match parseCertSeq f rest with
        | some cs => some (c :: cs)
        | none => none
      | _ => none

/-- `asn1.Unmarshal(chainBytes, &[]ct.ASN1Cert)` with the trailing-data check of `FixLogLeaf` -/
def parseDerChain (bs : Bytes) : Option (List Bytes) :=
  match parseTLV 0x30 bs with
  | some (body, []) => parseCertSeq body.length body
  | _ => none

/-! ### store, cache, operations -/

abbrev Map := List (Bytes × Bytes)

structure State where
  store : Map
  cache : Map
  /-- every (hash, chain) pair that was handed to `storage.Add` or written into the store: what the code may
  legitimately cache under that hash (`add` caches its own argument, `getByHash` what it read) -/
  known : List (Bytes × Bytes)
deriving Repr

def State.init : State := ⟨[], [], []⟩

inductive Op
  /-- `storage.Add(hash, chain)` succeeded; an existing key is kept (duplicate-key errors are ignored by the SQL
  storages). The argument is remembered: `add` fills the cache with *its own argument*, not with the row. -/
  | add (h v : Bytes)
  /-- the detached cache fill of `add` / `getByHash`; only enabled for a pair in `known` (see `cacheSetEnabled`) -/
  | cacheSet (h v : Bytes)
  /-- LRU eviction of one key -/
  | evict (h : Bytes)
  /-- TTL expiry: everything goes -/
  | expire
  /-- store damage: the row disappears -/
  | delete (h : Bytes)
  /-- store damage: the row's bytes are replaced -/
  | tamper (h v : Bytes)
deriving Repr

def setKey (m : Map) (h v : Bytes) : Map := (h, v) :: m.filter (fun e => e.1 != h)

def cacheSetEnabled (s : State) (h v : Bytes) : Bool := s.known.contains (h, v)

def step (s : State) : Op → State
  | .add h v =>
    if (s.store.lookup h).isSome then { s with known := (h, v) :: s.known }
    else { s with store := (h, v) :: s.store, known := (h, v) :: s.known }
  | .cacheSet h v => if cacheSetEnabled s h v then { s with cache := (h, v) :: s.cache } else s
  | .evict h => { s with cache := s.cache.filter (fun e => e.1 != h) }
  | .expire => { s with cache := [] }
  | .delete h => { s with store := s.store.filter (fun e => e.1 != h) }
  | .tamper h v => { s with store := setKey s.store h v, known := (h, v) :: s.known }

def run (s : State) (ops : List Op) : State := ops.foldl step s

/-- a history without store damage in which every chain is stored under its own key `c h` (content addressing:
`h = H (c h)`; two submissions with one hash carry one chain) -/
def Op.honest (c : Bytes → Bytes) : Op → Prop
  | .add h v => v = c h
  | .cacheSet _ _ => True
  | .evict _ => True
  | .expire => True
  | .delete _ => False
  | .tamper _ _ => False

/-- faults that can be injected at the calls `getByHash` makes -/
structure Faults where
  cacheGet : Bool := false
  storeFind : Bool := false

inductive Err | cache | storage | unknownHash | corruptChain | unknownLayout | encode | hashMismatch
deriving Repr, DecidableEq

instance : DecidableEq (Except Err Bytes) := fun a b =>
  match a, b with
  | .ok x, .ok y => if h : x = y then isTrue (h ▸ rfl) else isFalse (fun e => by cases e; exact h rfl)
  | .error x, .error y => if h : x = y then isTrue (h ▸ rfl) else isFalse (fun e => by cases e; exact h rfl)
  | .ok _, .error _ => isFalse (fun e => by cases e)
  | .error _, .ok _ => isFalse (fun e => by cases e)

/-- the lookup of `getByHash` before any check of the bytes: cache first, then storage. -/
def getByHashRaw (s : State) (f : Faults) (h : Bytes) : Except Err Bytes :=
  if f.cacheGet then .error .cache else
  match s.cache.lookup h with
  | some v => .ok v
  | none =>
    if f.storeFind then .error .storage else
    match s.store.lookup h with
    | some v => .ok v
    | none => .error .unknownHash

/-- the content-address check on what came back (`checkIssuanceChainHash`), when the code has it (`check`; the
regenerated `Gen.getByHashVerifiesHash`) -/
def verified (check : Bool) (H : Bytes → Bytes) (h : Bytes) : Except Err Bytes → Except Err Bytes
  | .ok v => if check && H v != h then .error .hashMismatch else .ok v
  | .error e => .error e

/-- `getByHash` -/
def getByHash (check : Bool) (H : Bytes → Bytes) (s : State) (f : Faults) (h : Bytes) : Except Err Bytes :=
  verified check H h (getByHashRaw s f h)

/-- faults at the calls `add` makes -/
structure AddFaults where
  cacheGet : Bool := false
  storeAdd : Bool := false

/-- `indirectIssuanceChainService.add`: a cache hit is taken as proof that the chain is stored (an error of the cache
is ignored); otherwise `storage.Add`, whose failure refuses the submission before any leaf is built. The cache fill
that follows a success is the separate op `cacheSet h v`. -/
def addChain (s : State) (f : AddFaults) (h v : Bytes) : Except Err State :=
  if !f.cacheGet && (s.cache.lookup h).isSome then .ok s
  else if f.storeAdd then .error .storage
  else .ok (step s (.add h v))

/-! ### building and fixing leaves' extra data -/

/-- direct mode: `ExtraDataForChain` -/
def buildDirect (isPrecert : Bool) (cert : Bytes) (chain : List Bytes) : Option Bytes :=
  if isPrecert then encPCE cert chain else encCC chain

/-- external mode: `ExtraDataForChainHash` over the hash of the DER chain -/
def buildIndirect (H : Bytes → Bytes) (isPrecert : Bool) (cert : Bytes) (chain : List Bytes) : Option Bytes :=
  if isPrecert then encPCEH cert (H (derChain chain)) else encCCH (H (derChain chain))

/-- `indirectIssuanceChainService.BuildLogLeaf` as a whole: where the code has the encoding check (`check`; the
regenerated `Gen.indirectBuildChecksEncoding`) a chain whose in-backend extra data cannot be encoded is refused before
anything is stored. -/
def buildIndirectC (check : Bool) (H : Bytes → Bytes) (isPrecert : Bool) (cert : Bytes) (chain : List Bytes) : Option Bytes :=
  if check && (buildDirect isPrecert cert chain).isNone then none else buildIndirect H isPrecert cert chain

/-- the chain behind a hash field: none for an empty hash, else fetched and DER-decoded -/
def inflate (get : Bytes → Except Err Bytes) (h : Bytes) : Except Err (List Bytes) :=
  if h.length = 0 then .ok [] else
  match get h with
  | .error e => .error e
  | .ok der =>
    match parseDerChain der with
    | some cs => .ok cs
    | none => .error .corruptChain

/-- `FixLogLeaf`: tries PrecertChainEntryHash, CertificateChainHash, PrecertChainEntry, CertificateChain in this
order, each as a *complete* parse. -/
def fixLogLeaf (get : Bytes → Except Err Bytes) (extra : Bytes) : Except Err Bytes :=
  match decPCEH extra with
  | some (pre, h) =>
    match inflate get h with
    | .error e => .error e
    | .ok cs => match encPCE pre cs with
      | some x => .ok x
      | none => .error .encode
  | none =>
  match decCCH extra with
  | some h =>
    match inflate get h with
    | .error e => .error e
    | .ok cs => match encCC cs with
      | some x => .ok x
      | none => .error .encode
  | none =>
  match decPCE extra with
  | some _ => .ok extra
  | none =>
  match decCC extra with
  | some _ => .ok extra
  | none => .error .unknownLayout

/-- the hash `FixLogLeaf` looks up for this extra data, if any (a hash layout with a non-empty hash field) -/
def hashOfExtra (extra : Bytes) : Option Bytes :=
  match decPCEH extra with
  | some (_, h) => if h.length != 0 then some h else none
  | none =>
    match decCCH extra with
    | some h => if h.length != 0 then some h else none
    | none => none

/-- does `FixLogLeaf` consult the store for this extra data (a hash layout with a non-empty hash)? -/
def needsLookup (extra : Bytes) : Bool :=
  match decPCEH extra with
  | some (_, h) => h.length != 0
  | none =>
    match decCCH extra with
    | some h => h.length != 0
    | none => false

/-- `rpcGetLeavesByRange`: the leaves of the backend's reply are fixed in order; the first failure fails the whole
request (no partial reply). `results` are the outcomes of the successive `getByHash` calls. -/
def fixRange : List (Except Err Bytes) → List Bytes → Except Err (List Bytes)
  | _, [] => .ok []
  | results, e :: es =>
    let (get, rest) : (Bytes → Except Err Bytes) × List (Except Err Bytes) :=
      if needsLookup e then
        match results with
        | r :: rs => (fun _ => r, rs)
        | [] => (fun _ => .error .unknownHash, [])
      else (fun _ => .error .unknownHash, results)
    match fixLogLeaf get e with
    | .error err => .error err
    | .ok x =>
      match fixRange rest es with
      | .error err => .error err
      | .ok xs => .ok (x :: xs)

/-- the order the model tries the layouts in, to be compared with the regenerated `Gen.fixOrder` -/
def modelFixOrder : List String := ["PrecertChainEntryHash", "CertificateChainHash", "PrecertChainEntry", "CertificateChain"]

end CTV.Model.ChainStore
