import CTV.Gen.X509Types
import CTV.Gen.X509Shapes
/-!
# The wrappers around the certificate envelope (x509/x509.go `ParseCertificate`, `ParseTBSCertificate`,
`ParseCertificates`; x509/revoked.go `ParseCertificateListDER`; `IsFatal`)

The *envelope* is what `asn1.Unmarshal` does with the regenerated descriptors `Gen.ty_certificate`,
`Gen.ty_tbsCertificate`, `Gen.ty_CertificateList` (outer SEQUENCE, TBS fields as raw slices, extension
list as (oid, critical, value)): `CTV.Der.parseField`. What `parseCertificate` then does with the payloads
(names, keys, extension contents) is *not* modelled: it enters the wrappers as an arbitrary function
`inner` from the envelope value to a Go-style `(object present?, error)` pair, and the theorems hold for
every such function that honours `parseCertificate`'s own contract (`InnerOK`).
-/
namespace CTV.Model.X509
open CTV CTV.Der

/-- the kinds of `error` values the package hands to `IsFatal` -/
inductive GoErr
  | nil
  /-- any other error value (asn1 errors, `errors.New`, …) -/
  | plain
  /-- `NonFatalErrors` holding `n` errors -/
  | nonFatalErrors (n : Nat)
  /-- a *pointer* to `NonFatalErrors` (what `NonFatalErrors.Append` returns): `IsFatal` only recognises the value type, so
  this one counts as fatal -/
  | nonFatalErrorsPtr (n : Nat)
  /-- `*Errors` (x509/error.go) with the `Fatal` flags of its entries -/
  | errorsPtr (fatals : List Bool)
  deriving Repr, DecidableEq, Inhabited

/-- x509.go `IsFatal` -/
def isFatal : GoErr → Bool
  | .nil => false
  | .nonFatalErrors _ => false
  | .errorsPtr fs => fs.any id
  | .plain => true
  | .nonFatalErrorsPtr _ => true

/-- a Go `(obj, err)` return: is the object non-nil, and the error -/
structure Ret where
  hasObj : Bool
  err : GoErr
  deriving Repr, DecidableEq, Inhabited

/-- the contract callers rely on via `IsFatal`: a usable object with no error or a non-fatal one, or no
object with a fatal error — never an object with a fatal error, never nothing with a non-fatal one -/
def Coherent (r : Ret) : Prop := (r.hasObj = true ∧ isFatal r.err = false) ∨ (r.hasObj = false ∧ isFatal r.err = true)

instance (r : Ret) : Decidable (Coherent r) := by unfold Coherent; infer_instance

/-- `rest, err := asn1.Unmarshal(data, &v); if err != nil { rest, laxErr = asn1.UnmarshalWithParams(data, &v, "lax") … nfe.AddError(err) }`:
the value, the remainder, and whether the strict error was recorded as non-fatal -/
def strictThenLax (d : Dialect) (t : ATy) (bs : Bytes) : Option (AVal × Bytes × Bool) :=
  match parseField d .strict t {} bs with
  | .ok (v, r) => some (v, r, false)
  | .error _ =>
    match parseField d .lax t {} bs with
    | .ok (v, r) => some (v, r, true)
    | .error _ => none

/-- `if nfe.HasError() { return ret, nfe }; return ret, nil` -/
def finish (hasObj : Bool) (nfe : Nat) : Ret := if nfe > 0 then ⟨hasObj, .nonFatalErrors nfe⟩ else ⟨hasObj, .nil⟩

/-- the tail shared by `ParseCertificate` and `ParseTBSCertificate`: call `parseCertificate`, merge its
`NonFatalErrors` into ours, pass anything else through with a nil object -/
def mergeInner (r : Ret) (nfe : Nat) : Ret :=
  match r.err with
  | .nil => finish r.hasObj nfe
  | .nonFatalErrors n => finish r.hasObj (nfe + n)
  | e => ⟨false, e⟩

/-- x509.go `ParseCertificate` -/
def parseCertificate (d : Dialect) (inner : AVal → Ret) (bs : Bytes) : Ret :=
  match strictThenLax d Gen.ty_certificate bs with
  | none => ⟨false, .plain⟩
  | some (cert, rest, laxed) =>
    if !rest.isEmpty then ⟨false, .plain⟩
    else mergeInner (inner cert) (if laxed then 1 else 0)

/-- `&certificate{Raw: tbsCert.Raw, TBSCertificate: tbsCert}` -/
def certOfTBS (tbs : AVal) : AVal :=
  let raw := match tbs with | .struct r _ => r | _ => none
  .struct raw [tbs, .absent (zeroVal Gen.ty_AlgorithmIdentifier), .absent (zeroVal .bitString)]

/-- x509.go `ParseTBSCertificate` -/
def parseTBSCertificate (d : Dialect) (inner : AVal → Ret) (bs : Bytes) : Ret :=
  match strictThenLax d Gen.ty_tbsCertificate bs with
  | none => ⟨false, .plain⟩
  | some (tbs, rest, laxed) =>
    if !rest.isEmpty then ⟨false, .plain⟩
    else mergeInner (inner (certOfTBS tbs)) (if laxed then 1 else 0)

/-- the first loop of `ParseCertificates`. `keepsInput` = `Gen.parseCertificatesRetryKeepsInput`: on the
snapshot the strict attempt overwrites `asn1Data` with its nil remainder and the retry is handed `&cert`, so the
retry always fails ("sequence truncated"); after the proposed fix it is `strictThenLax` on the remaining input. -/
def splitCertificates (d : Dialect) (keepsInput : Bool) : Nat → Bytes → Option (List AVal × Nat)
  | 0, _ => none
  | _+1, [] => some ([], 0)
  | f+1, bs =>
    match parseField d .strict Gen.ty_certificate {} bs with
    | .ok (v, r) =>
      match splitCertificates d keepsInput f r with
      | some (vs, n) => some (v :: vs, n)
      | none => none
    | .error _ =>
      if keepsInput then
        match parseField d .lax Gen.ty_certificate {} bs with
        | .ok (v, r) =>
          match splitCertificates d keepsInput f r with
          | some (vs, n) => some (v :: vs, n + 1)
          | none => none
        | .error _ => none
      else none

/-- the second loop of `ParseCertificates` on the results of `parseCertificate` for every envelope, in order:
a fatal one ends it -/
def innerAllR : List Ret → Nat → Ret
  | [], nfe => finish true nfe
  | r :: rs, nfe =>
    match r.err with
    | .nil => innerAllR rs nfe
    | .nonFatalErrors n => innerAllR rs (nfe + n)
    | e => ⟨false, e⟩

def innerAll (inner : AVal → Ret) (certs : List AVal) (nfe : Nat) : Ret := innerAllR (certs.map inner) nfe

/-- x509.go `ParseCertificates` -/
def parseCertificates (d : Dialect) (keepsInput : Bool) (inner : AVal → Ret) (bs : Bytes) : Ret :=
  match splitCertificates d keepsInput (bs.length + 1) bs with
  | none => ⟨false, .plain⟩
  | some (certs, nfe) => innerAll inner certs nfe

/-- x509/revoked.go `ParseCertificateListDER`: strict envelope only; then the extension payloads add entries
to an `Errors` value (`events`: the `Fatal` flag of each, in order — payloads are not modelled), except that
a malformed FreshestCRL returns its plain error at once (`hardStop`). -/
def parseCertificateListDER (d : Dialect) (payload : AVal → List Bool × Bool) (bs : Bytes) : Ret :=
  match parseField d .strict Gen.ty_CertificateList {} bs with
  | .error _ => ⟨false, .errorsPtr [Gen.errInvalidCertListFatal]⟩
  | .ok (v, rest) =>
    if !rest.isEmpty then ⟨false, .errorsPtr [Gen.errTrailingCertListFatal]⟩
    else
      let (events, hardStop) := payload v
      if hardStop then ⟨false, .plain⟩
      else if events.any id then ⟨false, .errorsPtr events⟩
      else if events.isEmpty then ⟨true, .nil⟩
      else ⟨true, .errorsPtr events⟩

/-! ### return statements as regenerated from the Go source (`Gen.X509Shapes`)

An execution of a Go function that returns at all returns through one of its `return` statements. `retOf s n` is the
pair such a statement yields: `n` is the number of errors the non-fatal collector holds when `return out, nfe` is reached
(at least one: `Gen.parseCertificateNfeGuarded`); an error expression that is neither `nil` nor the collector is an
ordinary error value (`Gen.nfeLeaks = []`: no function of the package hands the collector out as its error). -/

def retOf : Gen.RetShape → Nat → Ret
  | .nilErr, _ => ⟨false, .plain⟩
  | .outErr, _ => ⟨true, .plain⟩
  | .outNfe, n => ⟨true, .nonFatalErrors (n + 1)⟩
  | .outNil, _ => ⟨true, .nil⟩
  | .nilNil, _ => ⟨false, .nil⟩
  | .tailCall, _ => ⟨false, .plain⟩   -- never used: tail calls are followed to the callee's list

/-- `inner` behaves as some return statement of `parseCertificate` does -/
def InnerFromSource (inner : AVal → Ret) : Prop :=
  ∀ c, ∃ s ∈ Gen.parseCertificateReturns, ∃ n, inner c = retOf s n

/-! ### raw fields of the envelope -/

def structRaw : AVal → Bytes
  | .struct (some r) _ => r
  | _ => []

def structField (v : AVal) (i : Nat) : AVal :=
  match v with
  | .struct _ fs => (fs.getD i (.bool false)).unwrap
  | _ => .bool false

def rawFull : AVal → Bytes
  | .raw _ _ _ _ full => full
  | _ => []

/-- `Raw`, `RawTBSCertificate`, `RawIssuer`, `RawSubject`, `RawSubjectPublicKeyInfo` as `parseCertificate` copies them out of
the envelope (x509.go, first lines of `parseCertificate`) -/
structure RawFields where
  raw : Bytes
  tbs : Bytes
  issuer : Bytes
  subject : Bytes
  spki : Bytes
  deriving Repr, DecidableEq, Inhabited

def rawFields (cert : AVal) : RawFields :=
  let tbs := structField cert 0
  ⟨structRaw cert, structRaw tbs, rawFull (structField tbs 3), rawFull (structField tbs 5), structRaw (structField tbs 6)⟩

/-- the extension list as (oid, critical, value) -/
def extensions (cert : AVal) : List (List Nat × Bool × Bytes) :=
  match structField (structField cert 0) 9 with
  | .list es => es.map fun e =>
      (match structField e 0 with | .oid a => a | _ => [],
       match structField e 1 with | .bool b => b | _ => false,
       match structField e 2 with | .octets b => b | _ => [])
  | _ => []

end CTV.Model.X509
