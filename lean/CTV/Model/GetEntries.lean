import CTV.Gen.Handlers
import CTV.Basic.Bytes
import CTV.Model.ParseInt
/-!
Hand model of the get-entries / get-entry-and-proof handlers around the regenerated kernels
(trillian/ctfe/handlers.go getEntries, getEntryAndProof, marshalGetEntriesResponse).
Tied to the code by the C07 correspondence run.
-/
namespace CTV.Model
open CTV

structure BLeaf where
  idx : Int
  value : Bytes
  extra : Bytes
deriving Repr, DecidableEq

/-- what the handler decides before any backend call -/
def getEntriesRequest (startS endS : String) (max : Int) (align : Bool) : Option (Int × Int) :=
  match parseInt64 startS, parseInt64 endS with
  | some s, some e =>
    match Gen.parseGetEntriesRange s e max align with
    | some (s', e') => some (s', Gen.getEntriesCount s' e')
    | none => none
  | _, _ => none

def indicesOk : Int → List BLeaf → Bool
  | _, [] => true
  | s, l :: ls => decide (l.idx = s) && indicesOk (s + 1) ls

/-- the checks between a successful backend reply and the response (`treeSize` is the uint64 of the reply's root) -/
def getEntriesRespond (start count : Int) (treeSize : Nat) (leaves : List BLeaf) : Nat × List (Bytes × Bytes) :=
  if (treeSize : Int) ≤ U64.wrap start then (400, [])
  else if (leaves.length : Int) > count then (500, [])
  else if !indicesOk start leaves then (500, [])
  else (200, leaves.map fun l => (l.value, l.extra))

/-- get-entry-and-proof: parameters as the handler parses them, then the checks on the reply; the served bytes are the
backend leaf's `(LeafValue, ExtraData)` and the proof hashes, unmodified. `leaf = none` models an absent `Leaf`. -/
def getEntryAndProofRequest (liS tsS : String) : Option (Int × Int) :=
  match parseInt64 liS, parseInt64 tsS with
  | some li, some ts => Gen.parseGetEntryAndProofParams li ts
  | _, _ => none

def getEntryAndProofRespond (ts : Int) (treeSize : Nat) (leaf : Option BLeaf) (proof : Option (List Bytes)) :
    Nat × Option (Bytes × Bytes × List Bytes) :=
  if (treeSize : Int) < U64.wrap ts then (400, none)
  else match leaf, proof with
    | some l, some p =>
      if l.value.isEmpty then (500, none)
      else if decide (ts > 1) && p.isEmpty then (500, none)
      else (200, some (l.value, l.extra, p))
    | _, _ => (500, none)

end CTV.Model
