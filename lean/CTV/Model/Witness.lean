import CTV.Basic.Bytes
import CTV.Rfc6962.Merkle
import CTV.Gen.Witness
/-!
# Model of the CT witness (internal/witness/cmd/witness/internal/witness/witness.go)

State: `db : LogId ⇀ stored raw STH` (the `sths` table, one row per log ID).  Operations:
`update id raw proof`, `getSTH id`, `getLogs` — one `Op` per call; a database transaction is one
atomic step (assumption: serialisable transactions; `impl.Main` sets `SetMaxOpenConns(1)`; the
harness validates recorded concurrent histories against this by a linearisation search).

Hand-written, tied to the code by the C19 correspondence run.  Signatures are abstract: the
environment carries, per configured log, the verdict of its `ct.SignatureVerifier` on an STH, and
the witness' cosigning function.  Core Lean only.
-/
namespace CTV.Model.Witness

abbrev LogId := String

/-- A raw STH as submitted/stored, after JSON decoding.  `idField = none` stands for an absent or
    all-zero `log_id`; `tag` identifies the exact raw bytes (what is stored is the raw request body). -/
structure Sth (Hash Sig : Type) where
  size : Nat
  ts : Nat
  root : Hash
  idField : Option Bytes
  sig : Sig
  tag : String
deriving DecidableEq, Repr

/-- Request body of an update: JSON that does not decode to a SignedTreeHead, or an STH. -/
inductive Raw (Hash Sig : Type) where
  | garbage
  | sth (s : Sth Hash Sig)

/-- The bytes `signSTH` signs and `verifier.VerifySignature` checks: `tls.Marshal(ct.SignedTreeHead)` —
    `tree_size(8) timestamp(8) sha256_root_hash[32] hash_alg(1) sig_alg(1)
    signature<0..2^16-1> log_id[32]` (the struct has no tls tags and the untagged `Version` enum contributes no byte; layout as observed and compared with
    the real bytes on every run, `cosin` lines). The log ID is the one filled in by `parse`. -/
def cosigInput (size ts : Nat) (root : Bytes) (hashAlg sigAlg : Nat) (sig logId : Bytes) : Bytes :=
  beEnc 8 size ++ beEnc 8 ts ++ root ++
    [UInt8.ofNat hashAlg, UInt8.ofNat sigAlg] ++ beEnc 2 sig.length ++ sig ++ logId

inductive ParseErr where
  | notFound   -- log not configured
  | badJson
  | badId      -- configured log ID string is not base64 of 32 bytes
  | mismatch   -- STH names another log
  | badSig
deriving DecidableEq, Repr

/-- The fixed configuration of a witness. -/
structure Env (Hash Sig CoSig : Type) where
  /-- configured logs (keys of `Witness.Logs`) -/
  logList : List LogId
  /-- `SHA256Hash.FromBase64String(logID)` -/
  idOf : LogId → Option Bytes
  /-- verdict of the configured `SignatureVerifier` of this log on the TreeHeadSignature input
      `(timestamp, tree_size, root)` and the signature -/
  verify : LogId → Nat → Nat → Hash → Sig → Bool
  /-- `signSTH` on the parsed STH (log ID filled in); `none` = signing fails (`New` accepts any PKCS#8
      key, `tls.CreateSignature` only RSA and ECDSA keys) -/
  cosign : Sth Hash Sig → Option CoSig
  /-- inner-node hash used by `proof.VerifyConsistency` -/
  nodeH : Hash → Hash → Hash

abbrev Db (Hash Sig : Type) := LogId → Option (Sth Hash Sig)

def Db.empty {Hash Sig : Type} : Db Hash Sig := fun _ => none
def Db.set {Hash Sig : Type} (db : Db Hash Sig) (id : LogId) (s : Sth Hash Sig) : Db Hash Sig :=
  fun x => if x = id then some s else db x

inductive ErrKind where
  | notFound            -- codes.NotFound: unknown log (Update) / nothing stored (GetSTH)
  | parse (e : ParseErr) -- the submitted STH was refused by `parse`
  | stored              -- the stored STH no longer parses (unreachable, see `C19.stored_signed`)
  | sign                -- `signSTH` failed
deriving DecidableEq, Repr

/-- What a call returns. -/
inductive Reply (Hash Sig CoSig : Type) where
  /-- success: the parsed STH (log ID filled in) with the witness' cosignature -/
  | cosigned (s : Sth Hash Sig) (c : CoSig)
  /-- the raw held STH; `failed = true` with FailedPrecondition (stale / inconsistent), `false` for a
      resubmission of the same size and root (no error, no cosignature) -/
  | held (s : Sth Hash Sig) (failed : Bool)
  /-- error without an STH -/
  | err (k : ErrKind)
  /-- GetLogs -/
  | logs (ids : List LogId)

inductive Op (Hash Sig : Type) where
  | update (id : LogId) (raw : Raw Hash Sig) (proof : List Hash)
  | getSTH (id : LogId)
  | getLogs

section
variable {Hash Sig CoSig : Type} [DecidableEq Hash]

def Env.known (env : Env Hash Sig CoSig) (id : LogId) : Bool := env.logList.contains id

/-- the STH names a log (non-zero `log_id`) other than the one addressed -/
def idMismatch (f : Option Bytes) (idh : Bytes) : Bool :=
  match f with
  | none => false
  | some x => x != idh

/-- `Witness.parse`: lookup, JSON, log-ID decode, fill in / compare the log ID, verify the signature. -/
def parse (env : Env Hash Sig CoSig) (id : LogId) (raw : Raw Hash Sig) : Except ParseErr (Sth Hash Sig) :=
  if !env.known id then .error .notFound else
  match raw with
  | .garbage => .error .badJson
  | .sth s =>
    match env.idOf id with
    | none => .error .badId
    | some idh =>
      if idMismatch s.idField idh then .error .mismatch
      else if !env.verify id s.ts s.size s.root s.sig then .error .badSig
      else .ok { s with idField := some idh }

/-- The two accepting branches of `Update`: write + commit the row and cosign — in the order the code
    has (`Gen.witnessSignsBeforeCommit`, regenerated from witness.go on every run). When signing fails
    after the commit, the caller gets an error although the row has changed. -/
def accept (env : Env Hash Sig CoSig) (db : Db Hash Sig) (id : LogId) (nextRaw next : Sth Hash Sig) :
    Db Hash Sig × Reply Hash Sig CoSig :=
  match env.cosign next with
  | some c => (db.set id nextRaw, .cosigned next c)
  | none => (if Gen.witnessSignsBeforeCommit then db else db.set id nextRaw, .err .sign)

/-- `Witness.Update`. -/
def update (env : Env Hash Sig CoSig) (db : Db Hash Sig) (id : LogId) (raw : Raw Hash Sig) (pf : List Hash) :
    Db Hash Sig × Reply Hash Sig CoSig :=
  if !env.known id then (db, .err .notFound) else
  match raw with
  | .garbage => (db, .err (.parse .badJson))
  | .sth nextRaw =>
  match parse env id (.sth nextRaw) with
  | .error e => (db, .err (.parse e))
  | .ok next =>
    match db id with
    | none => accept env db id nextRaw next      -- trust on first use
    | some prevRaw =>
      match parse env id (.sth prevRaw) with
      | .error _ => (db, .err .stored)
      | .ok prev =>
        if next.size < prev.size then (db, .held prevRaw true)
        else if next.size = prev.size then
          (if next.root ≠ prev.root then (db, .held prevRaw true) else (db, .held prevRaw false))
        else if Merkle.verifyConsistency env.nodeH prev.size next.size pf prev.root next.root then
          accept env db id nextRaw next
        else (db, .held prevRaw true)

/-- `Witness.GetSTH`. -/
def getSTH (env : Env Hash Sig CoSig) (db : Db Hash Sig) (id : LogId) : Reply Hash Sig CoSig :=
  match db id with
  | none => .err .notFound
  | some raw =>
    match parse env id (.sth raw) with
    | .error e => .err (.parse e)
    | .ok s =>
      match env.cosign s with
      | some c => .cosigned s c
      | none => .err .sign

/-- `Witness.GetLogs`: the log IDs that have a row (only configured logs can have one; the order
    of rows is not specified, the harness sorts). -/
def getLogs (env : Env Hash Sig CoSig) (db : Db Hash Sig) : List LogId :=
  env.logList.filter (fun id => (db id).isSome)

def step (env : Env Hash Sig CoSig) (db : Db Hash Sig) : Op Hash Sig → Db Hash Sig × Reply Hash Sig CoSig
  | .update id raw pf => update env db id raw pf
  | .getSTH id => (db, getSTH env db id)
  | .getLogs => (db, .logs (getLogs env db))

/-- One recorded transition of a history. -/
structure Tr (Hash Sig CoSig : Type) where
  pre : Db Hash Sig
  op : Op Hash Sig
  reply : Reply Hash Sig CoSig
  post : Db Hash Sig

/-- The transitions of the history `ops` from `db`. -/
def trace (env : Env Hash Sig CoSig) : Db Hash Sig → List (Op Hash Sig) → List (Tr Hash Sig CoSig)
  | _, [] => []
  | db, op :: ops =>
    let r := step env db op
    ⟨db, op, r.2, r.1⟩ :: trace env r.1 ops

/-- The state after the history `ops`. -/
def run (env : Env Hash Sig CoSig) : Db Hash Sig → List (Op Hash Sig) → Db Hash Sig
  | db, [] => db
  | db, op :: ops => run env (step env db op).1 ops

end
end CTV.Model.Witness
