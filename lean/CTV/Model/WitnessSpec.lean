import CTV.Gen.Witness
import CTV.Model.HandlerSpec
/-!
Reference copies (`Spec.*`) of the whole bodies regenerated from witness.go, and the equalities `Gen.X = Spec.X`. The tie
theorems of `Props/C19Tie.lean` are proved against the copies, so a behaviour-preserving restructuring of `Witness.Update`,
`GetSTH` or `parse` only has to get through `same_kernel`; a change of behaviour makes the equality false.
-/
namespace Spec

def witnessUpdate (known nextParseFails txFails latestFails latestNotFound signFails setFails prevParseFails : Bool) (nextSize prevSize : Int) (rootsEqual proofBad : Bool) : Nat × Bool × Bool :=
  let stored_ := false
  if (!known) then
    ((0 : Nat), true, stored_)
  else
  if nextParseFails then
    ((0 : Nat), true, stored_)
  else
  if txFails then
    ((0 : Nat), true, stored_)
  else
  if latestFails then
    if latestNotFound then
      if signFails then
        ((0 : Nat), true, stored_)
      else
      let stored_ := (!setFails)
      if setFails then
        ((0 : Nat), true, stored_)
      else
      ((2 : Nat), false, stored_)
    else
    ((0 : Nat), true, stored_)
  else
  if prevParseFails then
    ((0 : Nat), true, stored_)
  else
  if (decide (nextSize < prevSize)) then
    ((1 : Nat), true, stored_)
  else
  if (decide (nextSize = prevSize)) then
    if (!rootsEqual) then
      ((1 : Nat), true, stored_)
    else
    ((1 : Nat), false, stored_)
  else
  if proofBad then
    ((1 : Nat), true, stored_)
  else
  if signFails then
    ((0 : Nat), true, stored_)
  else
  let stored_ := (!setFails)
  if setFails then
    ((0 : Nat), true, stored_)
  else
  ((2 : Nat), false, stored_)

def witnessGetSTH (latestFails parseFails signFails : Bool) : Nat × Bool :=
  if latestFails then
    ((0 : Nat), true)
  else
  if parseFails then
    ((0 : Nat), true)
  else
  if signFails then
    ((0 : Nat), true)
  else
  ((2 : Nat), false)

def witnessParse (known jsonBad idBad idEmpty idSame sigBad : Bool) : Nat × Bool × Bool :=
  let filled_ := false
  if (!known) then
    ((0 : Nat), true, filled_)
  else
  if jsonBad then
    ((0 : Nat), true, filled_)
  else
  if idBad then
    ((0 : Nat), true, filled_)
  else
  if idEmpty then
    let filled_ := true
    if sigBad then
      ((0 : Nat), true, filled_)
    else
    ((2 : Nat), false, filled_)
  else
  if (!idSame) then
    ((0 : Nat), true, filled_)
  else
  if sigBad then
    ((0 : Nat), true, filled_)
  else
  ((2 : Nat), false, filled_)

end Spec

namespace Gen

theorem witnessUpdate_eq_spec : @Gen.witnessUpdate = @Spec.witnessUpdate := by
  funext known nextParseFails txFails latestFails latestNotFound signFails setFails prevParseFails nextSize prevSize rootsEqual proofBad
  same_kernel Gen.witnessUpdate Spec.witnessUpdate

theorem witnessGetSTH_eq_spec : @Gen.witnessGetSTH = @Spec.witnessGetSTH := by
  funext latestFails parseFails signFails
  same_kernel Gen.witnessGetSTH Spec.witnessGetSTH

theorem witnessParse_eq_spec : @Gen.witnessParse = @Spec.witnessParse := by
  funext known jsonBad idBad idEmpty idSame sigBad
  same_kernel Gen.witnessParse Spec.witnessParse

end Gen
